(** C12 — Failed, rolled-back and read-only transactions have no effect.
    Statements only; proofs in TxFacts.v (and ReplayFacts.v for the reopen part). *)
From Verif Require Import Bytes Codec Dec ListDS SetDS ZSetDS Index Engine TxFacts.
Open Scope N_scope.

(** no API call inside a transaction touches the shared state: writes only
    extend the transaction's private pending list *)
Theorem C12_calls_do_not_touch_the_world : forall now w t o, fst (fst (do_op now w t o)) = w.
Proof. exact do_op_world. Qed.
Print Assumptions C12_calls_do_not_touch_the_world.

(** any sequence of calls followed by Rollback: disk, indexes, committed ids,
    active file and offsets are exactly what they were at Begin *)
Theorem C12_rolled_back_tx_noop : forall now w wr id os,
  w_closed w = false ->
  shared (fst (step now (run_ops now (fst (step now w (CBegin wr id))) os) CRollback)) = shared w.
Proof. exact rolled_back_tx_noop. Qed.
Print Assumptions C12_rolled_back_tx_noop.

(** a read-only transaction may call every API, mutating ones included, and
    commit: nothing changes *)
Theorem C12_readonly_tx_noop : forall now w id os,
  w_closed w = false ->
  shared (fst (step now (run_ops now (fst (step now w (CBegin false id))) os) CCommit)) = shared w.
Proof. exact readonly_tx_noop. Qed.
Print Assumptions C12_readonly_tx_noop.

(** an entry larger than the segment size, at any position, rejects the whole
    transaction before anything is written (fix d75ae6f) *)
Theorem C12_oversize_commit_noop : forall fault w t,
  existsb (fun e => o_seg (w_opts w) <? entry_size e) (tx_pend t) = true ->
  do_commit fault w t = (w, false).
Proof. exact commit_oversize. Qed.
Print Assumptions C12_oversize_commit_noop.

(** a write error at any record of Commit leaves indexes and committed ids
    untouched *)
Theorem C12_write_error_commit_keeps_indexes : forall k w t,
  w_ix (fst (do_commit (Some k) w t)) = w_ix w /\
  w_committed (fst (do_commit (Some k) w t)) = w_committed w /\
  w_closed (fst (do_commit (Some k) w t)) = w_closed w.
Proof. exact commit_fault_index. Qed.
Print Assumptions C12_write_error_commit_keeps_indexes.

(** calls on a finished transaction return errors and change nothing *)
Theorem C12_finished_tx_calls_fail : forall now w c,
  w_tx w = TxDone -> match c with COp _ | CCommit | CRollback => True | _ => False end ->
  step now w c = (w, RErr).
Proof. exact finished_tx_noop. Qed.
Print Assumptions C12_finished_tx_calls_fail.

Example C12_nonvacuous :
  let o := mkOpts 0 FileIO FileIO true 200 in
  let w0 := empty_world o in
  let w1 := fst (step 5 w0 (CBegin true 7)) in
  let w2 := fst (step 5 w1 (COp (OPut [x62] [x6b] [x76] 0 1))) in
  let w3 := fst (step 5 w2 (COp (ORPush [x62] [x6b] [[x76]]))) in
  shared (fst (step 5 w3 CRollback)) = shared w0 /\
  w_closed w0 = false /\ snd (step 5 w3 CCommit) = ROk /\
  shared (fst (step 5 w3 CCommit)) <> shared w0.
Proof. vm_compute. repeat split; discriminate. Qed.
