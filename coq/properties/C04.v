(** C04 — Buckets are isolated namespaces.
    Statements closed by [exact]; proofs in FrameFacts.v.  [bucket_view ix b] is
    everything a read on bucket b can see of the indexes (its key/value index,
    list map, set map and sorted set).  Bucket names are arbitrary byte strings:
    the theorems hold for names that are prefixes of each other, for the empty
    name, and whatever the keys are. *)
From Verif Require Import Bytes BytesFacts Codec Dec ListDS ListFacts SetDS ZSetDS Index Engine IndexFacts FrameFacts.
Open Scope N_scope.

(** applying a committed record of one bucket (at Commit) leaves every other bucket's view unchanged *)
Theorem C04_commit_frame : forall ix ws b,
  (forall r, In r ws -> b <> e_bucket (snd r)) -> bucket_view (commit_index ix ws) b = bucket_view ix b.
Proof. exact commit_index_frame. Qed.
Print Assumptions C04_commit_frame.

(** ... and so does replaying the log on Open: recovery re-separates records by bucket *)
Theorem C04_replay_frame : forall comm rs b ix,
  (forall r, In r rs -> b <> e_bucket (snd r)) ->
  bucket_view (fold_left (replay1 comm) rs ix) b = bucket_view ix b.
Proof. intros comm rs b ix. exact (replay_frame comm rs b ix). Qed.
Print Assumptions C04_replay_frame.

Theorem C04_record_frame : forall strict ix e b,
  b <> e_bucket e -> bucket_view (apply_ds strict ix e) b = bucket_view ix b.
Proof. exact apply_ds_frame. Qed.
Print Assumptions C04_record_frame.

(** the same key may live in two buckets with different values; each returns its own *)
Theorem C04_same_key_two_buckets : forall kv e1 e2 f1 p1 f2 p2,
  e_bucket e1 <> e_bucket e2 ->
  ksorted (getdef kv (e_bucket e1) []) -> ksorted (getdef kv (e_bucket e2) []) ->
  let kv' := apply_kv (apply_kv kv e1 f1 p1) e2 f2 p2 in
  (exists ix1, alookup kv' (e_bucket e1) = Some ix1 /\ kv_find ix1 (e_key e1) = Some (krec_of e1 f1 p1)) /\
  (exists ix2, alookup kv' (e_bucket e2) = Some ix2 /\ kv_find ix2 (e_key e2) = Some (krec_of e2 f2 p2)).
Proof. exact same_key_two_buckets. Qed.
Print Assumptions C04_same_key_two_buckets.

(** non-vacuity: bucket "a" with key "bc" and bucket "ab" with key "c" (equal
    concatenations) are kept apart by the RAM-mode engine model *)
Example C04_nonvacuous :
  let o := mkOpts 0 FileIO FileIO true 300 in
  let run cs := fold_left (fun w c => fst (step 9 w c)) cs (empty_world o) in
  let w := run [CBegin true 1; COp (OPut [x61] [x62; x63] [x31] 0 1); COp (OPut [x61; x62] [x63] [x32] 0 1); CCommit;
                CBegin false 2] in
  snd (step 9 w (COp (OGet [x61] [x62; x63]))) = REntry [x62; x63] [x31] /\
  snd (step 9 w (COp (OGet [x61; x62] [x63]))) = REntry [x63] [x32] /\
  snd (step 9 w (COp (OGet [x61] [x63]))) = RErr.
Proof. vm_compute. repeat split. Qed.
