(** C18 — Backup captures a consistent, openable copy.
    DB.Backup copies the directory inside a read-only transaction (db.View).
    Protocol level (ConcFacts): while a reader is in progress the shared state
    does not change, so the copy is the directory as it was when the read
    transaction started, whatever the writers do.  Engine level (ReplayFacts):
    the directory of every reachable world reopens — with any option record —
    to identical indexes, committed ids and offsets.  Together: the copy opens
    and shows exactly the state committed when the backup's read transaction
    started.  PARTIAL like C14 for the Go-runtime part; the harness checks on
    every run that a writer cannot commit while the copy is in progress. *)
From Coq Require Import List Arith Lia Bool.
From Verif Require Import Conc ConcFacts Engine ReplayFacts Merge MergeFacts DiskBytes.
Import ListNotations.

(** the copy step of Backup reads the directory and changes nothing *)
Definition backup_step (w : world) : world * disk := (w, w_disk w).

Theorem C18_backup_step_pure : pure_step world disk backup_step.
Proof. intros s. reflexivity. Qed.
Print Assumptions C18_backup_step_pure.

(** no writer step interleaves with a reader: the state is unchanged between
    the reader's Begin and its end *)
Theorem C18_state_fixed_while_copying : forall (State Res : Type) s0 progs S S' i th t fs rs,
  Forall (Forall (Conc.tx_ok State Res)) progs ->
  reach State Res (init State Res s0 progs) S ->
  nth_error (s_threads State Res S) i = Some th -> th_cur State Res th = Some (t, fs, rs) -> tx_write State Res t = false ->
  sstep State Res S S' -> s_state State Res S' = s_state State Res S.
Proof. exact reader_sees_one_state. Qed.
Print Assumptions C18_state_fixed_while_copying.

(** the copied directory opens, with the same or any other options, to the same database *)
Theorem C18_copy_opens_to_same_state : forall w o,
  Inv w ->
  let w' := do_open o (snd (backup_step w)) in
  w_ix w' = w_ix w /\
  (forall id, nmem id (w_committed w') = nmem id (w_committed w)) /\
  w_maxfid w' = w_maxfid w /\ w_woff w' = w_woff w /\ w_asize w' = w_asize w /\
  w_disk w' = w_disk w /\ Inv w'.
Proof. exact reopen_preserves. Qed.
Print Assumptions C18_copy_opens_to_same_state.

(** byte level: Backup copies FILES.  For every world reachable by calls, the bytes of
    its data files (what filesystem.CopyDir copies), scanned and replayed by Open with any
    options, rebuild the indexes, committed ids and offsets of the running process *)
Theorem C18_copied_bytes_open_to_same_state : forall now cs o o',
  (now < 2^64)%N -> seg_size_ok o -> calls_ok now (empty_world o) cs -> Forall call_sizes_ok cs ->
  let w := run_calls now (empty_world o) cs in
  exists w', open_bytes o' (bytes_of_disk (o_seg o') (w_disk w)) = Some w' /\ w_ix w' = w_ix w /\
    (forall id, nmem id (w_committed w') = nmem id (w_committed w)) /\ w_maxfid w' = w_maxfid w /\
    w_woff w' = w_woff w /\ w_asize w' = w_asize w /\ w_disk w' = w_disk w /\ Inv w'.
Proof. exact reachable_reopen_bytes. Qed.
Print Assumptions C18_copied_bytes_open_to_same_state.

Example C18_nonvacuous :
  let o := mkOpts 0 FileIO FileIO true 200 in
  let w := fold_left (fun w c => fst (step 9 w c))
             [CBegin true 1; COp (OPut [x62] [x6b] [x31] 0 1); COp (OSAdd [x62] [x6b] [[x6d]]); CCommit] (empty_world o) in
  w_ix (do_open (mkOpts 1 MMap MMap false 200) (snd (backup_step w))) = w_ix w /\ length (all_records (w_disk w)) = 2%nat.
Proof. vm_compute. split; reflexivity. Qed.
