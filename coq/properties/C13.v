(** C13 — Write transactions are serializable.
    The engine model answers every call of a transaction from the state the
    transaction started from (C12_calls_do_not_touch_the_world) and applies the
    pending records in call order at Commit.  Hence a transaction in which no
    call reads, pops or validates a structure modified by an earlier call of the
    same transaction behaves exactly like its calls run one after another on
    the L0 state (ApplyFacts: per-call refinement; commit order below).
    For transactions that do read their own writes the code — and therefore the
    faithful model — violates the property: [C13_F21_refuted] is the witness of
    known finding F21 (known_findings.json). *)
From Verif Require Import Bytes BytesFacts Codec Dec DecFacts ListDS SetDS ZSetDS Index Engine Spec TxFacts ReplayFacts ApplyFacts KVRefine KVHistory DSHistory HistoryRefine.
Open Scope N_scope.

(** the records of a transaction are applied in the order of its calls, and the
    commit-time application equals the replay of those records *)
Theorem C13_commit_applies_records_in_order : forall comm ws ix,
  (forall r, In r ws -> nmem (e_txid (snd r)) comm = true) ->
  Forall (fun r => entry_ok (snd r)) ws ->
  commit_index ix ws = fold_left (replay1 comm) ws ix.
Proof. exact commit_index_replay. Qed.
Print Assumptions C13_commit_applies_records_in_order.

(** calls of a transaction never see (or disturb) anything but the state at Begin *)
Theorem C13_calls_answered_from_begin_state : forall now w t o, fst (fst (do_op now w t o)) = w.
Proof. exact do_op_world. Qed.
Print Assumptions C13_calls_answered_from_begin_state.

(** the logged encodings decode to the arguments of the call *)
Theorem C13_count_value_roundtrip : forall count v,
  split_first (join_sep (print_Z count) v) = Some (print_Z count, v) /\ parse_Z (print_Z count) = count.
Proof. intros; split; [apply split_first_join, print_Z_no_sep | apply parse_print_Z]. Qed.
Print Assumptions C13_count_value_roundtrip.

(** every mutating list / set / sorted-set call, validated against indexes that
    coincide with the serial (L0) state: same return value — in particular the
    value returned by LPop, RPop, SPop, ZPopMax, ZPopMin is the element the
    logged record removes — and the records it logs, applied at Commit
    (strict = false) or replayed at Open (strict = true), take the indexes to
    the state the serial execution reaches.  A call that fails logs nothing.
    [list_keys_ok]/[set_keys_ok] are invariants of reachable states
    (ApplyFacts.do_op_rec_ok, apply_ds_keys_ok, apply_ds_set_keys_ok). *)
Theorem C13_structure_call_is_serial : forall now w t o s,
  dsrel (w_ix w) s -> list_keys_ok (w_ix w) -> set_keys_ok (w_ix w) ->
  tx_w t = true -> is_ds_write o = true ->
  let r := do_op now w t o in
  let t' := snd (fst r) in
  snd r = snd (spec_write s o) /\
  exists es, tx_pend t' = tx_pend t ++ es /\
             (forall strict, dsrel (fold_left (apply_ds strict) es (w_ix w)) (fst (spec_write s o))) /\
             (is_fail (snd r) = true -> es = [] /\ fst (spec_write s o) = s).
Proof. exact ds_write_refines_corrected. Qed.
Print Assumptions C13_structure_call_is_serial.

(** key/value: Put / Delete log exactly the specification's write, and Commit
    takes the index to the specification state after all of the transaction's writes *)
Theorem C13_kv_commit_is_serial : forall w s t,
  kvrel w s ->
  Forall (kv_entry_ok (tx_id t)) (tx_pend t) ->
  snd (do_commit None w t) = true ->
  kvrel (fst (do_commit None w t)) (fold_left spec_apply_kv (tx_pend t) s).
Proof. exact commit_kvrel. Qed.
Print Assumptions C13_kv_commit_is_serial.

(** whole transactions: for every list of list/set/sorted-set (and blind
    key/value) calls in one write transaction that satisfies [tx_guard] — no call
    reads, pops or validates a structure that an earlier call of the same
    transaction modified; blind writes may repeat — the calls return, one by
    one, the results of the serial specification, a successful Commit leaves
    the indexes equal to the specification's state after the whole transaction,
    a failed Commit changes nothing, and Commit fails exactly when a record is
    larger than a segment.  The guard's negation is known finding F21
    ([C13_guard_is_needed]: three two-call transactions outside the guard whose
    answers differ from the serial ones). *)
Theorem C13_guarded_transaction_is_serial : forall now w s id os,
  dsrel (w_ix w) s -> list_keys_ok (w_ix w) -> set_keys_ok (w_ix w) ->
  w_closed w = false ->
  Forall (fun o => is_kv_read o = false) os ->
  tx_guard [] os = true ->
  let w1 := fst (step now w (CBegin true id)) in
  let '(w2, rs) := run_ops_res now w1 os in
  let '(s2, srs) := spec_ops_res now s os in
  let w3 := fst (step now w2 CCommit) in
  rs = srs /\
  (snd (step now w2 CCommit) = ROk ->
     dsrel (w_ix w3) s2 /\ list_keys_ok (w_ix w3) /\ set_keys_ok (w_ix w3)) /\
  (snd (step now w2 CCommit) <> ROk -> w3 = w2 /\ w_ix w3 = w_ix w) /\
  (exists t2, w_tx w2 = TxActive t2 /\
     (snd (step now w2 CCommit) = ROk <->
      forall e, In e (tx_pend t2) -> entry_size e <= o_seg (w_opts w))).
Proof. exact guarded_tx_is_serial. Qed.
Print Assumptions C13_guarded_transaction_is_serial.

(** THE WHOLE API, WHOLE HISTORIES.  Engine and specification run side by side
    on ANY list of calls (Open with any options, Begin, every key/value, list,
    set and sorted-set call, Commit, Rollback, Close; a clock reading per call).
    For every history that satisfies the executable guard [hist_guard_corrected]
    — inside a write transaction no call reads, pops or validates a structure,
    and no key/value read touches a bucket, that an earlier call of the same
    transaction (still open, also after a failed Commit) modified; an SPop
    oracle member is supplied only inside write transactions — EVERY call
    returns exactly the specification's result, and at the end the whole state
    (key/value buckets, lists, sets, sorted sets) coincides.  Hypotheses:
    transaction ids unique and Open outside transactions ([tcalls_ok]),
    timestamp + TTL < 2^64 ([call_kv_ok]).  The guard's negation is known
    finding F21 ([C13_guard_is_needed], [C13_F21_refuted]).  This theorem
    contains C01, C05, C06, C07 and C13 for the engine model at once. *)
Theorem C13_every_guarded_history_refines : forall cs o,
  tcalls_ok (empty_world o) cs -> Forall call_kv_ok cs ->
  hist_guard_corrected false [] cs = true ->
  Forall (fun p => fst p = snd p) (run_both_res (empty_world o) sworld0 cs).
Proof. exact history_refines. Qed.
Print Assumptions C13_every_guarded_history_refines.

Theorem C13_every_guarded_history_state : forall cs o,
  tcalls_ok (empty_world o) cs -> Forall call_kv_ok cs ->
  hist_guard_corrected false [] cs = true ->
  let '(w, sw) := run_both (empty_world o) sworld0 cs in
  kvrel w (sw_state sw) /\ dsrel (w_ix w) (sw_state sw) /\
  list_keys_ok (w_ix w) /\ set_keys_ok (w_ix w) /\ w_closed w = sw_closed sw.
Proof. exact history_state_refines. Qed.
Print Assumptions C13_every_guarded_history_state.

(** a Get after a Put in the same transaction is outside the guard, and differs *)
Theorem C13_kv_guard_is_needed :
  hist_guard_corrected false [] cx_get_after_put = false /\
  run_both_res (empty_world cx_opts) sworld0 cx_get_after_put =
    [(ROk, ROk); (ROk, ROk); (RErr, REntry [x6b] [x31])].
Proof. exact cx_get_after_put_spec. Qed.
Print Assumptions C13_kv_guard_is_needed.

Theorem C13_guard_is_needed :
  dsrel (w_ix ex_w) ex_s /\ list_keys_ok (w_ix ex_w) /\ set_keys_ok (w_ix ex_w) /\
  (tx_guard [] ex_read_after_write = false /\
   snd (run_ops_res 0 ex_w1 ex_read_after_write) = [ROk; RInt 2] /\
   snd (spec_ops_res 0 ex_s ex_read_after_write) = [ROk; RInt 3]) /\
  (tx_guard [] ex_pop_after_push = false /\
   snd (run_ops_res 0 ex_w1 ex_pop_after_push) = [ROk; RVal [x32]] /\
   snd (spec_ops_res 0 ex_s ex_pop_after_push) = [ROk; RVal [x33]]) /\
  (tx_guard [] ex_pop_pop = false /\
   snd (run_ops_res 0 ex_w1 ex_pop_pop) = [RVal [x32]; RVal [x32]] /\
   snd (spec_ops_res 0 ex_s ex_pop_pop) = [RVal [x32]; RVal [x31]]).
Proof. exact unguarded_tx_not_serial. Qed.
Print Assumptions C13_guard_is_needed.

(** known finding F21: LPop twice in one transaction returns the same element
    twice (and Commit removes two elements); the serial specification returns
    the two different elements.  Witness evaluated on the model; the same
    history replays on the implementation (./check C13 prints KNOWN-FINDING). *)
Definition F21_history : list call :=
  [CBegin true 1; COp (ORPush [x62] [x6b] [[x31]; [x32]]); CCommit;
   CBegin true 2; COp (OLPop [x62] [x6b])].

Theorem C13_F21_refuted :
  let o := mkOpts 0 FileIO FileIO true 1000 in
  let w := fold_left (fun w c => fst (step 9 w c)) F21_history (empty_world o) in
  let sw := fold_left (fun w c => fst (spec_step 9 true w c)) F21_history sworld0 in
  snd (step 9 w (COp (OLPop [x62] [x6b]))) = RVal [x31] /\       (* the engine: the same element again *)
  snd (spec_step 9 true sw (COp (OLPop [x62] [x6b]))) = RVal [x32].  (* serial execution: the next one *)
Proof. vm_compute. split; reflexivity. Qed.
Print Assumptions C13_F21_refuted.
