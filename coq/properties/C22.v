(** C22 — Opening with an incompatible index mode is refused.
    Statements closed by [exact] (ModeCheck.v, ReplayFacts.v).  [mode_refused] is
    DB.checkEntryIdxMode; [dir_of_mode m] is what a directory looks like after a
    successful Open in mode m (checked by the harness on every generated
    directory state: empty, freshly opened, written, rotated, merged, torn). *)
From Coq Require Import NArith Bool List.
From Verif Require Import ModeCheck Engine ReplayFacts.
Import ListNotations.
Open Scope N_scope.

(** a directory created under mode m1 is refused by mode m2 exactly when one of
    them is the sparse mode and the other is not *)
Theorem C22_refused_iff_family_differs : forall m1 m2,
  mode_refused m2 (fst (dir_of_mode m1)) (snd (dir_of_mode m1)) = xorb (sparse_mode m1) (sparse_mode m2).
Proof. exact mode_switch_refused_iff. Qed.
Print Assumptions C22_refused_iff_family_differs.

Theorem C22_empty_directory_accepted : forall m has_bpt, mode_refused m false has_bpt = false.
Proof. exact empty_dir_accepted. Qed.
Print Assumptions C22_empty_directory_accepted.

(** the flags the Go loop computes over the sorted directory listing are
    "some *.dat exists" and "bpt exists" (or both already true at the early break) *)
Theorem C22_listing_scan : forall names d b,
  scan_listing names d b = (d || existsb fst names, b || existsb snd names) \/
  (fst (scan_listing names d b) = true /\ snd (scan_listing names d b) = true).
Proof. exact scan_listing_flags. Qed.
Print Assumptions C22_listing_scan.

(** switching between the two RAM index modes: the reopened database has
    identical indexes (reopen_preserves holds for any option record) *)
Theorem C22_ram_mode_switch_same_contents : forall w o,
  Inv w ->
  let w' := do_open o (w_disk w) in
  w_ix w' = w_ix w /\
  (forall id, nmem id (w_committed w') = nmem id (w_committed w)) /\
  w_maxfid w' = w_maxfid w /\ w_woff w' = w_woff w /\ w_asize w' = w_asize w /\
  w_disk w' = w_disk w /\ Inv w'.
Proof. exact reopen_preserves. Qed.
Print Assumptions C22_ram_mode_switch_same_contents.

Example C22_nonvacuous :
  mode_refused 2 true false = true /\ mode_refused 0 true true = true /\ mode_refused 1 true false = false /\
  mode_refused 2 true true = false /\ scan_listing [(true, false); (false, true); (false, false)] false false = (true, true).
Proof. vm_compute. repeat split. Qed.
