(** C05 — Lists behave like Redis lists.
    Statements only, each closed by [exact]; proofs are in ListFacts.v/DecFacts.v.
    The model functions (ListDS.v) are written after the Go code of ds/list;
    the [*_spec] functions are the Redis-style reference. *)
From Verif Require Import Bytes BytesFacts Dec DecFacts ListDS ListFacts.
Open Scope Z_scope.

(** LRANGE / LTRIM: negative indexes count from the tail, bounds are clamped,
    for every pair of 64-bit indexes *)
Theorem C05_lrange_is_redis : forall l st en,
  lrange_list l st en = match lrange_spec l st en with Some x => LOk x | None => LErr end.
Proof. exact lrange_list_spec. Qed.
Print Assumptions C05_lrange_is_redis.

(** the slice expression is always within bounds (never a panic) and selects
    exactly the elements at the normalised positions *)
Theorem C05_lrange_in_bounds : forall l st en x, lrange_spec l st en = Some x ->
  let s := Z.max 0 (norm_idx (zlen l) st) in
  let e := Z.min (zlen l - 1) (norm_idx (zlen l) en) in
  0 <= s /\ e < zlen l /\ zlen x = e - s + 1 /\
  forall i, 0 <= i < e - s + 1 -> nth_error x (Z.to_nat i) = nth_error l (Z.to_nat (s + i)).
Proof. exact lrange_spec_elems. Qed.
Print Assumptions C05_lrange_in_bounds.

(** LREM: count > 0 from the head, count < 0 from the tail, 0 = all; returns
    the number removed *)
Theorem C05_lrem_is_redis : forall l count v, - zlen l <= count <= zlen l ->
  lrem_list l count v = (fst (lrem_spec l count v), LOk (snd (lrem_spec l count v))).
Proof. exact lrem_list_spec. Qed.
Print Assumptions C05_lrem_is_redis.

Theorem C05_lrem_clamped : forall l count v, count < - zlen l ->
  lrem_list l count v = lrem_list l (- zlen l) v.
Proof. exact lrem_list_clamp. Qed.
Print Assumptions C05_lrem_clamped.

Theorem C05_lrem_removes_first_n : forall n v a b, (n <= occ v a)%nat ->
  remove_first n v (a ++ b) = remove_first n v a ++ b.
Proof. exact remove_first_prefix. Qed.
Print Assumptions C05_lrem_removes_first_n.

Theorem C05_lrem_keeps_others : forall n v l, others v (remove_first n v l) = others v l.
Proof. exact remove_first_others. Qed.
Print Assumptions C05_lrem_keeps_others.

Theorem C05_lrem_count : forall n v l, occ v (remove_first n v l) = (occ v l - n)%nat.
Proof. exact remove_first_occ. Qed.
Print Assumptions C05_lrem_count.

(** LRem's return value through a transaction (LRemNum) *)
Theorem C05_lremnum : forall l count v, - zlen l <= count <= zlen l ->
  lremnum_list l count v =
    LOk (if count =? 0 then Z.of_nat (occ v l) else Z.min (Z.abs count) (Z.of_nat (occ v l))).
Proof. exact lremnum_list_spec. Qed.
Print Assumptions C05_lremnum.

(** a transaction logs one record per pushed value; applying them one by one
    gives the list a single push call gives *)
Theorem C05_rpush_records : forall vs m k, vs <> [] ->
  fold_left (fun m v => l_rpush m k [v]) vs m = l_rpush m k vs.
Proof. exact rpush_one_by_one. Qed.
Print Assumptions C05_rpush_records.

Theorem C05_lpush_records : forall vs m k, vs <> [] ->
  fold_left (fun m v => l_lpush m k [v]) vs m = l_lpush m k vs.
Proof. exact lpush_one_by_one. Qed.
Print Assumptions C05_lpush_records.

Theorem C05_lpop : forall m k x r, alookup m k = Some (x :: r) ->
  l_lpop m k = (aset m k r, LOk x) /\ l_lpeek m k = LOk x.
Proof. exact lpop_spec. Qed.
Print Assumptions C05_lpop.

Theorem C05_rpop : forall m k r x, alookup m k = Some (r ++ [x]) ->
  l_rpop m k = (aset m k r, LOk x) /\ l_rpeek m k = LOk x.
Proof. exact rpop_spec. Qed.
Print Assumptions C05_rpop.

Theorem C05_lset : forall l i v, (i < length l)%nat ->
  length (set_nth l i v) = length l /\
  nth_error (set_nth l i v) i = Some v /\
  forall j, j <> i -> nth_error (set_nth l i v) j = nth_error l j.
Proof. exact set_nth_spec. Qed.
Print Assumptions C05_lset.

(** the logged encodings decode to what was encoded, for values that contain
    the '|' separator and for every 64-bit count/index *)
Theorem C05_lrem_record_roundtrip : forall count v,
  split_first (join_sep (print_Z count) v) = Some (print_Z count, v) /\ parse_Z (print_Z count) = count.
Proof. intros; split; [apply split_first_join, print_Z_no_sep | apply parse_print_Z]. Qed.
Print Assumptions C05_lrem_record_roundtrip.

Theorem C05_lset_record_roundtrip : forall k i, contains_sep k = false ->
  split_all (join_sep k (print_Z i)) = [k; print_Z i] /\ parse_Z (print_Z i) = i.
Proof. intros; split; [apply split_all_join; [assumption | apply print_Z_no_sep] | apply parse_print_Z]. Qed.
Print Assumptions C05_lset_record_roundtrip.

Example C05_nonvacuous :
  let l := [[x61]; [x7c]; [x61]; [x61; x7c; x62]] in
  lrange_list l (-3) 7 = LOk [[x7c]; [x61]; [x61; x7c; x62]] /\
  lrem_list l (-1) [x61] = ([[x61]; [x7c]; [x61; x7c; x62]], LOk 1) /\
  lrem_list l (-9223372036854775808) [x61] = ([[x7c]; [x61; x7c; x62]], LOk 2).
Proof. vm_compute. repeat split. Qed.
