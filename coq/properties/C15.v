(** C15 — Merge does not change the logical contents.  (preliminary: extended
    when MergeFacts.v is integrated)
    Model: Merge.v (DB.Merge after fixes 8034cfe, d7bc7be, ddac8cc, 704cf5b, 25df883). *)
From Verif Require Import Bytes Codec Dec ListDS SetDS ZSetDS Index Engine Merge.
Open Scope N_scope.

(** what Merge never rewrites: deleted, expired, popped/removed records and
    records of transactions that never committed (is_filter, committed test) *)
Theorem C15_dead_and_uncommitted_records_dropped : forall now w fid pos e,
  merge_keep now w fid pos e = true ->
  is_filter now e = false /\ nmem (e_txid e) (w_committed w) = true.
Proof.
  intros now w fid pos e H. unfold merge_keep in H.
  destruct (is_filter now e); [discriminate|].
  destruct (nmem (e_txid e) (w_committed w)); [split; reflexivity | discriminate].
Qed.
Print Assumptions C15_dead_and_uncommitted_records_dropped.

(** Merge on a closed database, or with fewer than two data files, is refused and changes nothing *)
Theorem C15_refused_merge_noop : forall now w txid0,
  w_closed w = true \/ (length (disk_fids (w_disk w)) < 2)%nat -> do_merge now w txid0 = (w, false).
Proof.
  intros now w t [H|H]; unfold do_merge.
  - now rewrite H.
  - destruct (w_closed w); [reflexivity|].
    destruct (disk_fids (w_disk w)) as [|a [|b r]]; cbn in H; try reflexivity. exfalso. apply (PeanoNat.Nat.lt_irrefl 2). eapply PeanoNat.Nat.le_lt_trans; [|exact H]. cbn. auto with arith.
Qed.
Print Assumptions C15_refused_merge_noop.

Example C15_nonvacuous :
  let o := mkOpts 0 FileIO FileIO true 100 in
  let run cs := fold_left (fun w c => fst (step 9 w c)) cs (empty_world o) in
  let w := run [CBegin true 1; COp (OPut [x62] [x6b] [x31] 0 1); CCommit; CBegin true 2; COp (OPut [x62] [x6b] [x32] 0 1); CCommit;
                CBegin true 3; COp (ODelete [x62] [x6c]); COp (OSAdd [x62] [x6b] [[x6d]]); CCommit; CBegin false 4] in
  let w' := fst (do_merge 9 w 1000) in
  snd (do_merge 9 w 1000) = true /\
  snd (step 9 w' (COp (OGet [x62] [x6b]))) = REntry [x6b] [x32] /\
  snd (step 9 w' (COp (OSIsMember [x62] [x6b] [x6d]))) = RBool true /\
  length (all_records (w_disk w')) = 2%nat /\ length (all_records (w_disk w)) = 4%nat.
Proof. vm_compute. repeat split. Qed.
