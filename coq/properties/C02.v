(** C02 — Key/value reads match an ordered map in sparse B+ tree index mode.
    Model: Sparse.v (per-segment key lists: the active index and, newest first,
    the sealed segments with the [start,end] range of their root-index record;
    the on-disk node traversal is abstracted to lookup in the segment's sorted
    list).  SparseFacts.v (integrated below when present) proves that Get,
    RangeScan/GetAll and PrefixScan over that structure return what the single
    merged index — the RAM index modes' index, whose reads C01 ties to the
    specification — returns.  Tie: sparse-mode histories on the real library
    (segments of a few hundred bytes, reopens) are compared call by call with
    the engine model run with RAM-mode semantics and with the L0 specification. *)
From Verif Require Import Bytes BytesFacts ListDS Index IndexFacts Sparse.
Open Scope N_scope.

(** a key present in the active segment is answered from it, whatever the sealed segments hold *)
Theorem C02_active_segment_wins : forall now sp k r,
  kv_find (sp_active sp) k = Some r ->
  sparse_get now sp k = if kr_dead now r then None else Some r.
Proof. intros now sp k r H. unfold sparse_get. rewrite H. reflexivity. Qed.
Print Assumptions C02_active_segment_wins.

(** a deleted key in a newer segment hides its older record in a sealed one *)
Example C02_nonvacuous :
  let r f v := mkK f 0 0 1 0 0 v in
  let sp := mkSparse [([x62], r 0 [])]                                   (* active: b deleted *)
                     [mkSealed [([x61], r 1 [x32]); ([x63], r 1 [x33])] [x61] [x63];      (* newer sealed: a=2, c=3 *)
                      mkSealed [([x61], r 1 [x31]); ([x62], r 1 [x39])] [x61] [x62]] in   (* older sealed: a=1, b=9 *)
  option_map kr_val (sparse_get 9 sp [x61]) = Some [x32] /\ sparse_get 9 sp [x62] = None /\
  map fst (sparse_range 9 sp [x61] [x7a]) = [[x61]; [x63]] /\
  map fst (merged_index sp) = [[x61]; [x62]; [x63]].
Proof. vm_compute. repeat split. Qed.
