(** C21 — Stored records round-trip; corruption is never served as data.
    This file contains only statements closed by [exact]. *)
From Verif Require Import Bytes Crc32 Codec CrcFacts CodecFacts.
Open Scope N_scope.

(** every data entry decodes to exactly the written fields, in both RW modes,
    wherever it lies in the file (including as its very last bytes: F04, fixed) *)
Theorem C21_entry_roundtrip : forall m pre e rest,
  wf_entry e -> is_zero_entry e = false ->
  decode_at m (pre ++ encode_entry e ++ rest) (blen pre) = DecOk e (crc32 (entry_body e)).
Proof. exact entry_roundtrip. Qed.
Print Assumptions C21_entry_roundtrip.

(** the IsZero shortcut: the only well-formed records that do not read back *)
Theorem C21_entry_zero_shortcut : forall m pre e rest,
  wf_entry e -> is_zero_entry e = true ->
  decode_at m (pre ++ encode_entry e ++ rest) (blen pre) = DecAbsent.
Proof. exact entry_zero_shortcut. Qed.
Print Assumptions C21_entry_zero_shortcut.

Theorem C21_rootidx_roundtrip : forall pre r rest,
  wf_rootidx r ->
  decode_rootidx_at (pre ++ encode_rootidx r ++ rest) (blen pre) =
    if is_zero_rootidx r then RiAbsent else RiOk r.
Proof. exact rootidx_roundtrip. Qed.
Print Assumptions C21_rootidx_roundtrip.

Theorem C21_bucketmeta_roundtrip : forall b rest,
  wf_bucketmeta b -> decode_bucketmeta (encode_bucketmeta b ++ rest) = BmOk b.
Proof. exact bucketmeta_roundtrip. Qed.
Print Assumptions C21_bucketmeta_roundtrip.

(** CRC-32 detects every corruption confined to one byte, at any length *)
Theorem C21_crc32_single_byte : forall p b b' q,
  b <> b' -> crc32 (p ++ b :: q) <> crc32 (p ++ b' :: q).
Proof. exact crc32_single_byte. Qed.
Print Assumptions C21_crc32_single_byte.

Theorem C21_entry_byte_corruption_detected : forall m pre e rest T' b' k' v' p x x' q,
  let h' := le_enc 4 (crc32 (entry_body e)) ++ T' in
  length T' = 38%nat ->
  fld h' 12 4 = blen k' -> fld h' 16 4 = blen v' -> fld h' 26 4 = blen b' ->
  entry_body e = p ++ x :: q ->
  T' ++ b' ++ k' ++ v' = p ++ x' :: q ->
  x <> x' ->
  let r := decode_at m (pre ++ h' ++ b' ++ k' ++ v' ++ rest) (blen pre) in
  r = DecErr ECrc \/ r = DecAbsent.
Proof. exact entry_byte_corruption_detected. Qed.
Print Assumptions C21_entry_byte_corruption_detected.

Theorem C21_entry_crc_field_corruption_detected : forall m pre e rest c4,
  wf_entry e ->
  length c4 = 4%nat -> c4 <> le_enc 4 (crc32 (entry_body e)) ->
  let r := decode_at m (pre ++ c4 ++ entry_body e ++ rest) (blen pre) in
  r = DecErr ECrc \/ r = DecAbsent.
Proof. exact entry_crc_field_corruption_detected. Qed.
Print Assumptions C21_entry_crc_field_corruption_detected.

Theorem C21_entry_truncation_fileio : forall pre e n,
  wf_entry e -> (n < length (encode_entry e))%nat ->
  let r := decode_at FileIO (pre ++ firstn n (encode_entry e)) (blen pre) in
  r = DecErr EEOF \/ r = DecAbsent.
Proof. exact entry_truncation_fileio. Qed.
Print Assumptions C21_entry_truncation_fileio.

(** non-vacuity: a concrete non-trivial record meets the hypotheses *)
Example C21_nonvacuous :
  let e := mkEntry [x62] [x6b; x31] [x76] 1600000000 5 1 1 2 77 in
  wf_entryb e = true /\ is_zero_entry e = false /\
  decode_at MMap (encode_entry e) 0 = DecOk e (crc32 (entry_body e)).
Proof. vm_compute. repeat split. Qed.
