(** C17 — Merge can run while transactions are running.
    After fix 12b9f00 DB.Merge takes db.mu.Lock() for its whole duration (its
    internal rewrite transactions run under that lock).  In the protocol model
    (Conc.v) it is therefore a write transaction: an arbitrary step sequence
    executed while holding the write lock.  The C14 theorems, which hold for
    every write transaction, give: no transaction interleaves with Merge, the
    results of all transactions (before, after and around Merge) are those of a
    serial execution in lock-release order, and no deadlock.  C15 (Merge.v,
    MergeFacts.v) says what the Merge step does to the contents.
    PARTIAL by nature (like C14): data races are searched for with the race
    detector on every run (Merge against View/Update). *)
From Coq Require Import List Arith Lia Bool.
From Verif Require Import Conc ConcFacts.
Import ListNotations.

Section C17.
  Variable State : Type.
  Variable Res : Type.

  (** Merge, whatever it computes, is an admissible write transaction *)
  Theorem C17_merge_is_a_write_transaction : forall merge_step : State -> State * Res,
    tx_ok State Res (mkTxn State Res true [merge_step]).
  Proof. intros f H. discriminate H. Qed.

  (** with Merge among the transactions, every reachable execution is strictly serializable *)
  Theorem C17_serializable_with_merge : forall s0 progs S,
    Forall (Forall (tx_ok State Res)) progs ->
    reach State Res (init State Res s0 progs) S -> quiescent State Res S ->
    let ts := map (fun e => snd (fst e)) (s_log State Res S) in
    s_state State Res S = fst (run_serial State Res ts s0) /\
    map (fun e => snd e) (s_log State Res S) = snd (run_serial State Res ts s0).
  Proof. exact (serializable_quiescent State Res). Qed.

  (** while Merge holds the lock no other transaction is in progress *)
  Theorem C17_merge_excludes_transactions : forall s0 progs S i,
    reach State Res (init State Res s0 progs) S -> s_lock State Res S = LWriter i ->
    forall j th, nth_error (s_threads State Res S) j = Some th -> th_cur State Res th <> None -> j = i.
  Proof. exact (writer_excludes_all State Res). Qed.

  Theorem C17_no_deadlock : forall s0 progs S,
    reach State Res (init State Res s0 progs) S ->
    (exists th, In th (s_threads State Res S) /\ (th_cur State Res th <> None \/ th_todo State Res th <> [])) ->
    exists S', sstep State Res S S'.
  Proof. exact (progress State Res). Qed.
End C17.
Print Assumptions C17_merge_is_a_write_transaction.
Print Assumptions C17_serializable_with_merge.
Print Assumptions C17_merge_excludes_transactions.
Print Assumptions C17_no_deadlock.

Example C17_nonvacuous :
  let merge : nat -> nat * nat := fun s => (s, 0) in let inc : nat -> nat * nat := fun s => (S s, s) in
  run_serial nat nat [mkTxn nat nat true [inc]; mkTxn nat nat true [merge]; mkTxn nat nat true [inc]] 0 = (2, [[0]; [0]; [1]]).
Proof. reflexivity. Qed.
