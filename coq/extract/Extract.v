(** Extract.v — extraction of the executable model to OCaml.
    Only ExtrOcamlBasic's directives are used (bool, option, unit, list, prod,
    sumbool, comparison -> OCaml natives); N, Z, positive, byte stay Coq
    datatypes.  No Extract Constant of ours. *)
From Coq Require Import Extraction ExtrOcamlBasic.
From Verif Require Import Bytes Crc32 Codec Dec ListDS SetDS ZSetDS Index Engine Spec.
Extraction Language OCaml.
Set Extraction KeepSingleton.
Extraction "model.ml"
  Byte.to_N Byte.of_N
  encode_entry decode_at entry_size
  encode_rootidx decode_rootidx_at
  encode_bucketmeta decode_bucketmeta
  step empty_world do_open spec_step sworld0.
