(** Extract.v — extraction of the executable model to OCaml.
    Only ExtrOcamlBasic's directives are used (bool, option, unit, list, prod,
    sumbool, comparison -> OCaml natives); N, Z, positive, byte stay Coq
    datatypes.  No Extract Constant of ours. *)
From Coq Require Import Extraction ExtrOcamlBasic.
From Verif Require Import Bytes Crc32 Codec Dec ListDS SetDS ZSetDS Index Engine Spec Merge.
Extraction Language OCaml.
Set Extraction KeepSingleton.
Extraction "model.ml"
  Byte.to_N Byte.of_N
  encode_entry decode_at entry_size
  encode_rootidx decode_rootidx_at
  encode_bucketmeta decode_bucketmeta
  step empty_world do_open do_commit do_merge spec_step sworld0
  l_size l_rpush l_lpush l_lpeek l_rpeek l_lpop l_rpop l_lrange l_lrem l_lremnum l_lset l_ltrim
  s_sadd s_srem s_haskey s_card s_ismember s_aremembers s_members s_diff s_union s_inter s_move s_spop
  z_put z_remove z_find z_peekmin z_peekmax z_popmin z_popmax z_rankrange z_scorerange z_rank z_revrank.
