(** C03 (code level) — theorems about the Gallina translation of [pageEntries]
    (tx_bptree.go: the function that applies offset, regular expression and limit
    to the merged ascending list of live keys in HintBPTSparseIdxMode, fix 7531a1a)
    that /verif/translator regenerates from /repo on every run (generated/GoPage.v).
    Statements copied from gosem/GoPageFacts.v, each closed by [exact].  A compiled
    regular expression is an arbitrary predicate on byte strings ([None]: the plain
    prefix scan); [page_spec] is literally the skip / filter / take of the L0
    specification (Spec.spec_read, OPrefixScan and OPrefixSearchScan), about which
    C03.v proves the mathematical content.  Not translated: the B+ tree walk of the
    RAM index modes (pointer structure; tied by the correspondence check only) and
    the collection of [all] from the segments. *)
From Coq Require Import List ZArith String.
From Verif Require Import Bytes BytesFacts.
From VerifGo Require Import GoSem GoPageFacts.
From VerifGen Require Import GoPage.
Import ListNotations.
Open Scope Z_scope.

(** the code of pageEntries never panics and returns exactly the specification's page: the first max(offset,0) entries are skipped, then only entries whose key remainder matches count, at most limit of them are kept (all for limit = -1, none for any other limit <= 0); the error is the caller's 'not found' exactly when the page is empty *)
Theorem C03_code_pageEntries_is_skip_filter_take : forall all prefix rgx off lim nf,
  go_pageEntries all prefix rgx off lim nf =
  GOk (match fst (page_spec all prefix rgx off lim) with
       | [] => ([], snd (page_spec all prefix rgx off lim), nf)
       | es => (es, snd (page_spec all prefix rgx off lim), ENil)
       end).
Proof. exact go_pageEntries_eq. Qed.
Print Assumptions C03_code_pageEntries_is_skip_filter_take.

(** the remainder handed to the regular expression is the key without the prefix *)
Theorem C03_code_regexp_sees_key_remainder : forall k p, has_prefix k p = true -> trim_prefix k p = skipn (length p) k.
Proof. exact trim_prefix_skipn. Qed.
Print Assumptions C03_code_regexp_sees_key_remainder.

(** paging never reports 'not found' while unreturned live keys remain *)
Theorem C03_code_no_early_not_found : forall all prefix off lim nf,
  (0 < lim \/ lim = -1) -> Z.max off 0 < zlen all ->
  exists es o, go_pageEntries all prefix None off lim nf = GOk (es, o, ENil) /\ es <> [].
Proof. exact go_pageEntries_progress. Qed.
Print Assumptions C03_code_no_early_not_found.

(** the pages offset = 0, limit, 2*limit, ... enumerate every live key exactly once, in order *)
Theorem C03_code_pages_enumerate : forall all prefix lim nf n,
  0 < lim -> Z.of_nat n * lim >= zlen all ->
  concat (map (fun i => match go_pageEntries all prefix None (Z.of_nat i * lim) lim nf with
                        | GOk (es, _, _) => es | _ => [] end) (seq 0 n)) = all.
Proof. exact go_pageEntries_pages_enumerate. Qed.
Print Assumptions C03_code_pages_enumerate.

Example C03_code_nonvacuous :
  let e k := mk_go_Entry k [x76] (mk_go_MetaData 0 0 0 0 0 [] 0 0 0 0) 0 0 in
  go_pageEntries [e [x6b; x30]; e [x6b; x31]; e [x6b; x32]] [x6b] None 1 1 (EVar "ErrPrefixScan") =
  GOk ([e [x6b; x31]], 1, ENil) /\
  go_pageEntries [e [x6b; x30]; e [x6b; x31]; e [x6b; x32]] [x6b] None 3 1 (EVar "ErrPrefixScan") =
  GOk ([], 3, EVar "ErrPrefixScan").
Proof. vm_compute. split; reflexivity. Qed.
