(** C06 (code level) — theorems about the Gallina translation of
    /repo/ds/set/set.go that /verif/translator regenerates on every run
    (generated/GoSet.v).  Statements only, each closed by [exact]; the proofs
    are in gosem/GoSetFacts.v.  Go's map[string]map[string]struct{} becomes an
    association list of association lists, [to_smap] forgets the unit values;
    a range over a map visits [mord site m] and every theorem holds for every
    [mord] returning a permutation of its argument ([mord_ok]) — i.e. for every
    iteration order Go may choose.  The right-hand sides are the finite-set
    model SetDS.v whose mathematical content is C06.v. *)
From Coq Require Import Permutation.
From Verif Require Import Bytes BytesFacts ListDS SetDS SetFacts.
From VerifGo Require Import GoSem GoSetFacts.
From VerifGen Require Import GoSet.
From Coq Require Import Strings.String.
Open Scope Z_scope.

Theorem C06_code_SAdd : forall s key items, gmap_wf (Set_M s) ->
  exists s', go_Set_SAdd s key items = GOk (s', ENil) /\
             to_smap (Set_M s') = s_sadd (to_smap (Set_M s)) key items /\ gmap_wf (Set_M s').
Proof. exact go_SAdd_eq. Qed.
Print Assumptions C06_code_SAdd.

Theorem C06_code_SRem : forall s key i0 items, gmap_wf (Set_M s) ->
  exists s' err, go_Set_SRem s key (i0 :: items) = GOk (s', err) /\
             to_smap (Set_M s') = fst (s_srem (to_smap (Set_M s)) key (i0 :: items)) /\
             (err = ENil <-> snd (s_srem (to_smap (Set_M s)) key (i0 :: items)) = true) /\ gmap_wf (Set_M s').
Proof. exact go_SRem_eq. Qed.
Print Assumptions C06_code_SRem.

(** the one panic of the package: SRem(key) with no member at all indexes items[0]
    (Tx.SRem always passes at least one member) *)
Theorem C06_code_SRem_without_items_panics : forall s key,
  has_key (Set_M s) key = true -> go_Set_SRem s key [] = GPanic.
Proof. exact go_SRem_no_items. Qed.
Print Assumptions C06_code_SRem_without_items_panics.

Theorem C06_code_SHasKey : forall s key,
  go_Set_SHasKey s key = GOk (s, s_haskey (to_smap (Set_M s)) key).
Proof. exact go_SHasKey_eq. Qed.
Print Assumptions C06_code_SHasKey.

Theorem C06_code_SCard : forall s key, gmap_wf (Set_M s) ->
  go_Set_SCard s key = GOk (s, s_card (to_smap (Set_M s)) key).
Proof. exact go_SCard_eq. Qed.
Print Assumptions C06_code_SCard.

Theorem C06_code_SIsMember : forall s key item,
  go_Set_SIsMember s key item = GOk (s, s_ismember (to_smap (Set_M s)) key item).
Proof. exact go_SIsMember_eq. Qed.
Print Assumptions C06_code_SIsMember.

Theorem C06_code_SAreMembers : forall s key items,
  exists err, go_Set_SAreMembers s key items = GOk (s, (s_aremembers (to_smap (Set_M s)) key items, err)) /\
              (err = ENil <-> s_aremembers (to_smap (Set_M s)) key items = true).
Proof. exact go_SAreMembers_eq. Qed.
Print Assumptions C06_code_SAreMembers.

Theorem C06_code_SMembers : forall mord s key, mord_ok mord -> gmap_wf (Set_M s) ->
  exists l err, go_Set_SMembers mord s key = GOk (s, (l, err)) /\
    match s_members (to_smap (Set_M s)) key with
    | Some x => err = ENil /\ bsort l = x
    | None => err <> ENil
    end.
Proof. exact go_SMembers_eq. Qed.
Print Assumptions C06_code_SMembers.

Theorem C06_code_SDiff : forall mord s k1 k2, mord_ok mord -> gmap_wf (Set_M s) ->
  exists l err, go_Set_SDiff mord s k1 k2 = GOk (s, (l, err)) /\
    match s_diff (to_smap (Set_M s)) k1 k2 with
    | Some x => err = ENil /\ bsort l = x
    | None => err <> ENil
    end.
Proof. exact go_SDiff_eq. Qed.
Print Assumptions C06_code_SDiff.

Theorem C06_code_SInter : forall mord s k1 k2, mord_ok mord -> gmap_wf (Set_M s) ->
  exists l err, go_Set_SInter mord s k1 k2 = GOk (s, (l, err)) /\
    match s_inter (to_smap (Set_M s)) k1 k2 with
    | Some x => err = ENil /\ bsort l = x
    | None => err <> ENil
    end.
Proof. exact go_SInter_eq. Qed.
Print Assumptions C06_code_SInter.

Theorem C06_code_SUnion : forall mord s k1 k2, mord_ok mord -> gmap_wf (Set_M s) ->
  exists l err, go_Set_SUnion mord s k1 k2 = GOk (s, (l, err)) /\
    match s_union (to_smap (Set_M s)) k1 k2 with
    | Some x => err = ENil /\ bsort l = x
    | None => err <> ENil
    end.
Proof. exact go_SUnion_eq. Qed.
Print Assumptions C06_code_SUnion.

Theorem C06_code_SPop : forall mord s key, mord_ok mord -> gmap_wf (Set_M s) ->
  exists s' item, go_Set_SPop mord s key = GOk (s', item) /\ gmap_wf (Set_M s') /\
    match alookup (to_smap (Set_M s)) key with
    | Some (_ :: _) => s_spop (to_smap (Set_M s)) key item = Some (to_smap (Set_M s'))
    | _ => item = [] /\ s' = s
    end.
Proof. exact go_SPop_eq. Qed.
Print Assumptions C06_code_SPop.

Theorem C06_code_SMove : forall s k1 k2 item, gmap_wf (Set_M s) ->
  exists s' ok err, go_Set_SMove s k1 k2 item = GOk (s', (ok, err)) /\
    to_smap (Set_M s') = fst (s_move (to_smap (Set_M s)) k1 k2 item) /\
    ok = snd (s_move (to_smap (Set_M s)) k1 k2 item) /\ (err = ENil <-> ok = true) /\ gmap_wf (Set_M s').
Proof. exact go_SMove_eq. Qed.
Print Assumptions C06_code_SMove.

(** the premises are satisfiable and the statements are about running code *)
Example C06_code_example :
  let s := mk_go_Set [(bs "k", [(bs "a", tt); (bs "b", tt)]); (bs "j", [(bs "b", tt)])] in
  gmap_wf (Set_M s) /\ mord_ok (fun _ _ m => m) /\
  go_Set_SDiff (fun _ _ m => m) s (bs "k") (bs "j") = GOk (s, ([bs "a"], ENil)) /\
  go_Set_SMove s (bs "k") (bs "j") (bs "a") =
    GOk (mk_go_Set [(bs "k", [(bs "b", tt)]); (bs "j", [(bs "b", tt); (bs "a", tt)])], (true, ENil)).
Proof.
  split; [|split; [|split]].
  - split; [repeat constructor; cbn; intuition discriminate|].
    intros k inner [H|[H|[]]]; inversion H; subst; repeat constructor; cbn; intuition discriminate.
  - intros n V m. apply Permutation_refl.
  - vm_compute. reflexivity.
  - vm_compute. reflexivity.
Qed.
