(** C07 (code level) — the part of ds/zset/sortedset.go that is integer logic
    (the rank normalisation [sanitizeIndexes] used by GetByRankRange /
    ZRangeByRank / ZRemRangeByRank), re-translated to Gallina from /repo on
    every run (generated/GoZSet.v), equals the model's [z_sanitize], on which
    the rank theorems of C07.v rest.  The skiplist itself (towers, spans,
    backward pointers) is pointer code and is tied by the correspondence only. *)
From Verif Require Import Bytes ListDS ZSetDS.
From VerifGo Require Import GoSem GoListFacts GoZSetFacts.
From VerifGen Require Import GoZSet.
Open Scope Z_scope.

Theorem C07_code_sanitizeIndexes : forall ss s e,
  0 <= SortedSet_length ss < 2 ^ 62 -> int_ok s -> int_ok e ->
  go_SortedSet_sanitizeIndexes ss s e = GOk (ss, z_sanitize (SortedSet_length ss) s e).
Proof. exact go_sanitizeIndexes_eq. Qed.
Print Assumptions C07_code_sanitizeIndexes.
