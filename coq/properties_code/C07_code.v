(** C07 (code level) — the part of ds/zset/sortedset.go that is integer logic
    (the rank normalisation [sanitizeIndexes] used by GetByRankRange /
    ZRangeByRank / ZRemRangeByRank), re-translated to Gallina from /repo on
    every run (generated/GoZSet.v), equals the model's [z_sanitize], on which
    the rank theorems of C07.v rest.  The write calls ZRem and ZRemRangeByRank
    of the transaction layer (tx_zset.go over tx.go put / checkTxIsClosed,
    re-translated into generated/GoTxZ.v) are the model's [do_op] branches:
    [zhas b] stands for [alookup (ix_zset ix) b <> None]; on success ONE
    record with the model's fields (flag, structure, key, value, clock, tx id)
    is appended to the pending writes and tx.db is untouched, on every error
    the transaction object is unchanged, a finished transaction gets an error
    (C12).  Statements copied from gosem/GoTxZFacts.v.  The skiplist itself (towers, spans,
    backward pointers) is pointer code and is tied by the correspondence only. *)
From Verif Require Import Bytes ListDS ZSetDS.
From VerifGo Require Import GoSem GoListFacts GoZSetFacts.
From VerifGen Require Import GoZSet.
From Verif Require Import Codec Dec Engine.
From Coq Require Import Strings.String.
From VerifGo Require GoTxZFacts.
From VerifGen Require GoTxZ.
Open Scope Z_scope.

Theorem C07_code_sanitizeIndexes : forall ss s e,
  0 <= SortedSet_length ss < 2 ^ 62 -> int_ok s -> int_ok e ->
  go_SortedSet_sanitizeIndexes ss s e = GOk (ss, z_sanitize (SortedSet_length ss) s e).
Proof. exact go_sanitizeIndexes_eq. Qed.
Print Assumptions C07_code_sanitizeIndexes.

Theorem C07_code_ZRem_eq : forall now g zhas t b k,
  GoTxZFacts.txz_abs g zhas t -> GoTxZFacts.now_ok now -> GoTxZFacts.arg_ok b -> GoTxZFacts.arg_ok k ->
  let mr := if zhas b then tx_put t b k [] 0 F_ZRem (Z.to_N now) DS_ZSet else (t, RErr) in
  exists g' e,
    GoTxZ.go_Tx_ZRem now g b k = GOk (g', e) /\
    GoTxZFacts.txz_abs g' zhas (fst mr) /\ GoTxZ.Tx_db g' = GoTxZ.Tx_db g /\ (e <> ENil -> g' = g) /\
    GoTxZFacts.err_of_res e (snd mr).
Proof. exact GoTxZFacts.go_Tx_ZRem_eq. Qed.
Print Assumptions C07_code_ZRem_eq.

Theorem C07_code_ZRem_closed : forall now g b k, GoTxZ.Tx_db_isnil g = true ->
  exists e, GoTxZ.go_Tx_ZRem now g b k = GOk (g, e) /\ e <> ENil.
Proof. exact GoTxZFacts.go_Tx_ZRem_closed. Qed.
Print Assumptions C07_code_ZRem_closed.

Theorem C07_code_ZRemRangeByRank_eq : forall now g zhas t b s e,
  GoTxZFacts.txz_abs g zhas t -> GoTxZFacts.now_ok now -> GoTxZFacts.arg_ok b ->
  GoTxZFacts.arg_ok (print_Z s) -> GoTxZFacts.arg_ok (print_Z e) ->
  let mr := if zhas b then tx_put t b (print_Z s) (print_Z e) 0 F_ZRemRange (Z.to_N now) DS_ZSet else (t, RErr) in
  exists g' er,
    GoTxZ.go_Tx_ZRemRangeByRank now g b s e = GOk (g', er) /\
    GoTxZFacts.txz_abs g' zhas (fst mr) /\ GoTxZ.Tx_db g' = GoTxZ.Tx_db g /\ (er <> ENil -> g' = g) /\
    GoTxZFacts.err_of_res er (snd mr).
Proof. exact GoTxZFacts.go_Tx_ZRemRangeByRank_eq. Qed.
Print Assumptions C07_code_ZRemRangeByRank_eq.

Theorem C07_code_ZRemRangeByRank_closed : forall now g b s e, GoTxZ.Tx_db_isnil g = true ->
  exists er, GoTxZ.go_Tx_ZRemRangeByRank now g b s e = GOk (g, er) /\ er <> ENil.
Proof. exact GoTxZFacts.go_Tx_ZRemRangeByRank_closed. Qed.
Print Assumptions C07_code_ZRemRangeByRank_closed.

Theorem C07_code_ZMembers_fun : forall g b,
  GoTxZ.go_Tx_ZMembers g b =
    if GoTxZ.Tx_db_isnil g then GOk (g, ([], EVar "ErrTxClosed"%string))
    else match alookup (GoTxZ.DB_SortedSetIdx (GoTxZ.Tx_db g)) b with
         | None => GOk (g, ([], EVar "ErrBucket"%string))
         | Some ss => GOk (g, (SortedSet_Dict ss, ENil))
         end.
Proof. exact GoTxZFacts.go_Tx_ZMembers_fun. Qed.
Print Assumptions C07_code_ZMembers_fun.

Theorem C07_code_ZCard_ZMembers : forall g b,
  exists m e, GoTxZ.go_Tx_ZMembers g b = GOk (g, (m, e)) /\
              GoTxZ.go_Tx_ZCard g b = GOk (g, ((if err_is_nil e then zlen m else 0), e)).
Proof. exact GoTxZFacts.go_Tx_ZCard_ZMembers. Qed.
Print Assumptions C07_code_ZCard_ZMembers.

(** the abstraction is satisfiable: any Go transaction object, once open, writable and with no pending write,
    stands for the empty model transaction with the same id *)
Example C07_code_txz_abs_satisfiable : forall g0, 0 <= GoTxZ.Tx_id g0 ->
  GoTxZFacts.txz_abs (GoTxZ.set_Tx_pendingWrites (GoTxZ.set_Tx_writable (GoTxZ.set_Tx_db_isnil g0 false) true) [])
                     (fun b => has_key (GoTxZ.DB_SortedSetIdx (GoTxZ.Tx_db g0)) b)
                     (mkTx (Z.to_N (GoTxZ.Tx_id g0)) true []).
Proof.
  intros g0 H. unfold GoTxZFacts.txz_abs. cbn. rewrite Z2N.id by exact H.
  repeat split; constructor.
Qed.
