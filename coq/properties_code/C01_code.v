(** C01 (code level) — theorems about the Gallina translation of the record
    codecs and record predicates of /repo (entry.go, datafile.go readMetaData,
    bptree_root_idx.go, bucket_meta.go, record.go, db.go isFilterEntry,
    tx_bptree.go getNewKey) that /verif/translator regenerates on every run
    (generated/GoCodec.v).  Statements copied from gosem/GoCodecFacts.v, each
    closed by [exact].  [sized e]: what Tx.put guarantees of the entries it
    builds (size fields = lengths, every field within its Go type, record
    smaller than 4 GiB).  The right-hand sides are the models Codec.v /
    Index.v / Merge.v, about which C01.v proves the mathematical content. *)
From Verif Require Import Bytes BytesFacts Crc32 CrcFacts Codec CodecFacts ListDS Index Merge.
From VerifGo Require Import GoSem GoCodecFacts.
From VerifGen Require Import GoCodec.
Open Scope Z_scope.

(** record.go IsExpired (the TTL rule every key/value read applies) is the model's is_expired, uint64 wrap included *)
Theorem C01_code_IsExpired : forall now ttl ts, 0 <= now < 2 ^ 63 -> 0 <= ttl < 2 ^ 32 -> 0 <= ts < 2 ^ 64 ->
  go_IsExpired now ttl ts = GOk (is_expired (Z.to_N now) (Z.to_N ttl) (Z.to_N ts)).
Proof. exact go_IsExpired_eq. Qed.
Print Assumptions C01_code_IsExpired.

(** the key order of the index is bytes.Compare *)
Theorem C01_code_compare : forall a b, go_compare a b = GOk (match bcompare a b with Lt => -1 | Eq => 0 | Gt => 1 end).
Proof. exact go_compare_eq. Qed.
Print Assumptions C01_code_compare.

