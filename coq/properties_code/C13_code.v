(** C13 / C12 / C05 / C06 (code level) — theorems about the Gallina translation of
    the TRANSACTION LAYER of /repo for key/value writes, lists and sets (tx.go
    put/Put/PutWithTimestamp/checkTxIsClosed, tx_bptree.go Delete, all of
    tx_list.go and tx_set.go), re-translated on every run into generated/GoTx.v
    (which calls the translated ds/list and ds/set).  [tx_abs g w t]: the Go
    transaction object g stands for model transaction t running against world
    w (same writable flag, same id, pending entries = tx_pend t with the size
    fields equal to the lengths, list and set indexes of tx.db = those of w).
    Each theorem: the Go function returns without panic; for a mutating call the
    new Go object stands for the model transaction after [do_op] (same records
    appended to the pending writes, indexes untouched) and the error agrees with
    the model result; for a read the object is unchanged and the value agrees
    (list-valued set results up to the map iteration order, i.e. after sorting).
    Statements copied verbatim from gosem/GoTxFacts.v, closed by [exact]. *)
From Coq Require Import Permutation.
From Verif Require Import Bytes BytesFacts Codec Dec DecFacts ListDS ListFacts SetDS SetFacts ZSetDS Index Engine.
From VerifGo Require Import GoSem GoListFacts GoSetFacts GoTxFacts.
From VerifGen Require GoList GoSet.
From VerifGen Require Import GoTx.
Open Scope Z_scope.

Theorem C13_code_checkTxIsClosed_eq : forall g w t, tx_abs g w t -> go_Tx_checkTxIsClosed g = GOk (g, ENil).
Proof. exact go_Tx_checkTxIsClosed_eq. Qed.
Print Assumptions C13_code_checkTxIsClosed_eq.

Theorem C13_code_checkTxIsClosed_closed : forall g, Tx_db_isnil g = true -> exists e, go_Tx_checkTxIsClosed g = GOk (g, e) /\ e <> ENil.
Proof. exact go_Tx_checkTxIsClosed_closed. Qed.
Print Assumptions C13_code_checkTxIsClosed_closed.

Theorem C13_code_put_eq : forall g w t b k v ttl flag ts ds, tx_abs g w t -> arg_ok b -> arg_ok k -> arg_ok v ->
  0 <= ttl < 2 ^ 32 -> 0 <= flag < 2 ^ 16 -> 0 <= ts < 2 ^ 64 -> 0 <= ds < 2 ^ 16 ->
  exists g' e,
    go_Tx_put g b k v ttl flag ts ds = GOk (g', e) /\
    tx_abs g' w (fst (tx_put t b k v (Z.to_N ttl) (Z.to_N flag) (Z.to_N ts) (Z.to_N ds))) /\
    err_of_res e (snd (tx_put t b k v (Z.to_N ttl) (Z.to_N flag) (Z.to_N ts) (Z.to_N ds))).
Proof. exact go_Tx_put_eq. Qed.
Print Assumptions C13_code_put_eq.

Theorem C13_code_push_eq : forall now g w t b k flag vs, tx_abs g w t -> now_ok now -> arg_ok b -> arg_ok k -> Forall arg_ok vs -> 0 <= flag < 2 ^ 16 ->
  exists g' e,
    go_Tx_push now g b k flag vs = GOk (g', e) /\
    tx_abs g' w (fst (tx_put_all t b k vs (Z.to_N flag) (Z.to_N now) DS_List)) /\
    err_of_res e (snd (tx_put_all t b k vs (Z.to_N flag) (Z.to_N now) DS_List)).
Proof. exact go_Tx_push_eq. Qed.
Print Assumptions C13_code_push_eq.

Theorem C13_code_sPut_eq : forall now g w t b k flag vs, tx_abs g w t -> now_ok now -> arg_ok b -> arg_ok k -> Forall arg_ok vs -> 0 <= flag < 2 ^ 16 ->
  exists g' e,
    go_Tx_sPut now g b k flag vs = GOk (g', e) /\
    tx_abs g' w (fst (tx_put_all t b k vs (Z.to_N flag) (Z.to_N now) DS_Set)) /\
    err_of_res e (snd (tx_put_all t b k vs (Z.to_N flag) (Z.to_N now) DS_Set)).
Proof. exact go_Tx_sPut_eq. Qed.
Print Assumptions C13_code_sPut_eq.

Theorem C13_code_PutWithTimestamp_eq : forall now g w t b k v ttl ts, tx_abs g w t -> arg_ok b -> arg_ok k -> arg_ok v -> 0 <= ttl < 2 ^ 32 -> 0 <= ts < 2 ^ 64 ->
  exists g' e,
    go_Tx_PutWithTimestamp g b k v ttl ts = GOk (g', e) /\
    tx_abs g' w (snd (fst (do_op now w t (OPut b k v (Z.to_N ttl) (Z.to_N ts))))) /\
    err_of_res e (snd (do_op now w t (OPut b k v (Z.to_N ttl) (Z.to_N ts)))).
Proof. exact go_Tx_PutWithTimestamp_eq. Qed.
Print Assumptions C13_code_PutWithTimestamp_eq.

Theorem C13_code_Put_eq : forall now g w t b k v ttl, tx_abs g w t -> now_ok now -> arg_ok b -> arg_ok k -> arg_ok v -> 0 <= ttl < 2 ^ 32 ->
  exists g' e,
    go_Tx_Put now g b k v ttl = GOk (g', e) /\
    tx_abs g' w (snd (fst (do_op (Z.to_N now) w t (OPut b k v (Z.to_N ttl) (Z.to_N now))))) /\
    err_of_res e (snd (do_op (Z.to_N now) w t (OPut b k v (Z.to_N ttl) (Z.to_N now)))).
Proof. exact go_Tx_Put_eq. Qed.
Print Assumptions C13_code_Put_eq.

Theorem C13_code_Delete_eq : forall now g w t b k, tx_abs g w t -> now_ok now -> arg_ok b -> arg_ok k ->
  exists g' e,
    go_Tx_Delete now g b k = GOk (g', e) /\
    tx_abs g' w (snd (fst (do_op (Z.to_N now) w t (ODelete b k)))) /\
    err_of_res e (snd (do_op (Z.to_N now) w t (ODelete b k))).
Proof. exact go_Tx_Delete_eq. Qed.
Print Assumptions C13_code_Delete_eq.

Theorem C13_code_RPeek_eq : forall g w t b k, tx_abs g w t ->
  exists item err,
    go_Tx_RPeek g b k = GOk (g, (item, err)) /\
    match snd (do_op 0 w t (ORPeek b k)) with
    | RVal x => err = ENil /\ item = x
    | RErr => err <> ENil
    | _ => False
    end.
Proof. exact go_Tx_RPeek_eq. Qed.
Print Assumptions C13_code_RPeek_eq.

Theorem C13_code_LPeek_eq : forall g w t b k, tx_abs g w t ->
  exists item err,
    go_Tx_LPeek g b k = GOk (g, (item, err)) /\
    match snd (do_op 0 w t (OLPeek b k)) with
    | RVal x => err = ENil /\ item = x
    | RErr => err <> ENil
    | _ => False
    end.
Proof. exact go_Tx_LPeek_eq. Qed.
Print Assumptions C13_code_LPeek_eq.

Theorem C13_code_LSize_eq : forall g w t b k, tx_abs g w t ->
  exists n err,
    go_Tx_LSize g b k = GOk (g, (n, err)) /\
    match snd (do_op 0 w t (OLSize b k)) with
    | RInt z => err = ENil /\ n = z
    | RErr => err <> ENil
    | _ => False
    end.
Proof. exact go_Tx_LSize_eq. Qed.
Print Assumptions C13_code_LSize_eq.

Theorem C13_code_LRange_eq : forall g w t b k s e, tx_abs g w t -> int_ok s -> int_ok e ->
  exists l err,
    go_Tx_LRange g b k s e = GOk (g, (l, err)) /\
    match snd (do_op 0 w t (OLRange b k s e)) with
    | RList x => err = ENil /\ l = x
    | RErr => err <> ENil
    | _ => False
    end.
Proof. exact go_Tx_LRange_eq. Qed.
Print Assumptions C13_code_LRange_eq.

Theorem C13_code_RPush_eq : forall now g w t b k vs, tx_abs g w t -> now_ok now -> arg_ok b -> arg_ok k -> Forall arg_ok vs ->
  exists g' e,
    go_Tx_RPush now g b k vs = GOk (g', e) /\
    tx_abs g' w (snd (fst (do_op (Z.to_N now) w t (ORPush b k vs)))) /\
    err_of_res e (snd (do_op (Z.to_N now) w t (ORPush b k vs))).
Proof. exact go_Tx_RPush_eq. Qed.
Print Assumptions C13_code_RPush_eq.

Theorem C13_code_LPush_eq : forall now g w t b k vs, tx_abs g w t -> now_ok now -> arg_ok b -> arg_ok k -> Forall arg_ok vs ->
  exists g' e,
    go_Tx_LPush now g b k vs = GOk (g', e) /\
    tx_abs g' w (snd (fst (do_op (Z.to_N now) w t (OLPush b k vs)))) /\
    err_of_res e (snd (do_op (Z.to_N now) w t (OLPush b k vs))).
Proof. exact go_Tx_LPush_eq. Qed.
Print Assumptions C13_code_LPush_eq.

Theorem C13_code_RPop_eq : forall now g w t b k, tx_abs g w t -> now_ok now -> arg_ok b -> arg_ok k -> list_vals_ok w ->
  exists g' item e,
    go_Tx_RPop now g b k = GOk (g', (item, e)) /\
    tx_abs g' w (snd (fst (do_op (Z.to_N now) w t (ORPop b k)))) /\
    match snd (do_op (Z.to_N now) w t (ORPop b k)) with
    | RVal x => e = ENil /\ item = x
    | RErr => e <> ENil
    | _ => False
    end.
Proof. exact go_Tx_RPop_eq. Qed.
Print Assumptions C13_code_RPop_eq.

Theorem C13_code_LPop_eq : forall now g w t b k, tx_abs g w t -> now_ok now -> arg_ok b -> arg_ok k -> list_vals_ok w ->
  exists g' item e,
    go_Tx_LPop now g b k = GOk (g', (item, e)) /\
    tx_abs g' w (snd (fst (do_op (Z.to_N now) w t (OLPop b k)))) /\
    match snd (do_op (Z.to_N now) w t (OLPop b k)) with
    | RVal x => e = ENil /\ item = x
    | RErr => e <> ENil
    | _ => False
    end.
Proof. exact go_Tx_LPop_eq. Qed.
Print Assumptions C13_code_LPop_eq.

Theorem C13_code_LRem_eq : forall now g w t b k count v, tx_abs g w t -> now_ok now -> arg_ok b -> arg_ok k -> arg_ok (join_sep (print_Z count) v) -> int_ok count ->
  exists g' n e,
    go_Tx_LRem now g b k count v = GOk (g', (n, e)) /\
    tx_abs g' w (snd (fst (do_op (Z.to_N now) w t (OLRem b k count v)))) /\
    match snd (do_op (Z.to_N now) w t (OLRem b k count v)) with
    | RInt z => e = ENil /\ n = z
    | RErr => e <> ENil
    | _ => False
    end.
Proof. exact go_Tx_LRem_eq. Qed.
Print Assumptions C13_code_LRem_eq.

Theorem C13_code_LSet_eq : forall now g w t b k i v, tx_abs g w t -> now_ok now -> arg_ok b -> arg_ok (join_sep k (print_Z i)) -> arg_ok v ->
  exists g' e,
    go_Tx_LSet now g b k i v = GOk (g', e) /\
    tx_abs g' w (snd (fst (do_op (Z.to_N now) w t (OLSet b k i v)))) /\
    err_of_res e (snd (do_op (Z.to_N now) w t (OLSet b k i v))).
Proof. exact go_Tx_LSet_eq. Qed.
Print Assumptions C13_code_LSet_eq.

Theorem C13_code_LTrim_eq : forall now g w t b k s e, tx_abs g w t -> now_ok now -> arg_ok b -> arg_ok (join_sep k (print_Z s)) -> int_ok s -> int_ok e ->
  exists g' err,
    go_Tx_LTrim now g b k s e = GOk (g', err) /\
    tx_abs g' w (snd (fst (do_op (Z.to_N now) w t (OLTrim b k s e)))) /\
    err_of_res err (snd (do_op (Z.to_N now) w t (OLTrim b k s e))).
Proof. exact go_Tx_LTrim_eq. Qed.
Print Assumptions C13_code_LTrim_eq.

Theorem C13_code_SAdd_eq : forall now g w t b k items, tx_abs g w t -> now_ok now -> arg_ok b -> arg_ok k -> Forall arg_ok items ->
  exists g' e,
    go_Tx_SAdd now g b k items = GOk (g', e) /\
    tx_abs g' w (snd (fst (do_op (Z.to_N now) w t (OSAdd b k items)))) /\
    err_of_res e (snd (do_op (Z.to_N now) w t (OSAdd b k items))).
Proof. exact go_Tx_SAdd_eq. Qed.
Print Assumptions C13_code_SAdd_eq.

Theorem C13_code_SRem_eq : forall now g w t b k items, tx_abs g w t -> now_ok now -> arg_ok b -> arg_ok k -> Forall arg_ok items ->
  exists g' e,
    go_Tx_SRem now g b k items = GOk (g', e) /\
    tx_abs g' w (snd (fst (do_op (Z.to_N now) w t (OSRem b k items)))) /\
    err_of_res e (snd (do_op (Z.to_N now) w t (OSRem b k items))).
Proof. exact go_Tx_SRem_eq. Qed.
Print Assumptions C13_code_SRem_eq.

Theorem C13_code_SAreMembers_eq : forall g w t b k items, tx_abs g w t ->
  exists r err,
    go_Tx_SAreMembers g b k items = GOk (g, (r, err)) /\
    match snd (do_op 0 w t (OSAreMembers b k items)) with
    | RBool v => err = ENil /\ r = v
    | RErr => err <> ENil
    | _ => False
    end.
Proof. exact go_Tx_SAreMembers_eq. Qed.
Print Assumptions C13_code_SAreMembers_eq.

Theorem C13_code_SIsMember_eq : forall g w t b k x, tx_abs g w t ->
  exists r err,
    go_Tx_SIsMember g b k x = GOk (g, (r, err)) /\
    match snd (do_op 0 w t (OSIsMember b k x)) with
    | RBool v => err = ENil /\ r = v
    | RErr => err <> ENil
    | _ => False
    end.
Proof. exact go_Tx_SIsMember_eq. Qed.
Print Assumptions C13_code_SIsMember_eq.

Theorem C13_code_SMembers_eq : forall mord g w t b k, tx_abs g w t -> mord_ok mord ->
  exists l err,
    go_Tx_SMembers mord g b k = GOk (g, (l, err)) /\
    match snd (do_op 0 w t (OSMembers b k)) with
    | RList x => err = ENil /\ bsort l = x
    | RErr => err <> ENil
    | _ => False
    end.
Proof. exact go_Tx_SMembers_eq. Qed.
Print Assumptions C13_code_SMembers_eq.

Theorem C13_code_SHasKey_eq : forall g w t b k, tx_abs g w t ->
  exists r err,
    go_Tx_SHasKey g b k = GOk (g, (r, err)) /\
    match snd (do_op 0 w t (OSHasKey b k)) with
    | RBool v => err = ENil /\ r = v
    | RErr => err <> ENil
    | _ => False
    end.
Proof. exact go_Tx_SHasKey_eq. Qed.
Print Assumptions C13_code_SHasKey_eq.

Theorem C13_code_SCard_eq : forall g w t b k, tx_abs g w t ->
  exists n err,
    go_Tx_SCard g b k = GOk (g, (n, err)) /\
    match snd (do_op 0 w t (OSCard b k)) with
    | RInt z => err = ENil /\ n = z
    | RErr => err <> ENil
    | _ => False
    end.
Proof. exact go_Tx_SCard_eq. Qed.
Print Assumptions C13_code_SCard_eq.

Theorem C13_code_SDiffByOneBucket_eq : forall mord g w t b k1 k2, tx_abs g w t -> mord_ok mord ->
  exists l err,
    go_Tx_SDiffByOneBucket mord g b k1 k2 = GOk (g, (l, err)) /\
    match snd (do_op 0 w t (OSDiff1 b k1 k2)) with
    | RList x => err = ENil /\ bsort l = x
    | RErr => err <> ENil
    | _ => False
    end.
Proof. exact go_Tx_SDiffByOneBucket_eq. Qed.
Print Assumptions C13_code_SDiffByOneBucket_eq.

Theorem C13_code_SUnionByOneBucket_eq : forall mord g w t b k1 k2, tx_abs g w t -> mord_ok mord ->
  exists l err,
    go_Tx_SUnionByOneBucket mord g b k1 k2 = GOk (g, (l, err)) /\
    match snd (do_op 0 w t (OSUnion1 b k1 k2)) with
    | RList x => err = ENil /\ bsort l = x
    | RErr => err <> ENil
    | _ => False
    end.
Proof. exact go_Tx_SUnionByOneBucket_eq. Qed.
Print Assumptions C13_code_SUnionByOneBucket_eq.

Theorem C13_code_SDiffByTwoBuckets_eq : forall mord g w t b1 k1 b2 k2, tx_abs g w t -> mord_ok mord ->
  exists l err,
    go_Tx_SDiffByTwoBuckets mord g b1 k1 b2 k2 = GOk (g, (l, err)) /\
    match snd (do_op 0 w t (OSDiff2 b1 k1 b2 k2)) with
    | RList x => err = ENil /\ bsort l = x
    | RErr => err <> ENil
    | _ => False
    end.
Proof. exact go_Tx_SDiffByTwoBuckets_eq. Qed.
Print Assumptions C13_code_SDiffByTwoBuckets_eq.

Theorem C13_code_SUnionByTwoBuckets_eq : forall mord g w t b1 k1 b2 k2, tx_abs g w t -> mord_ok mord ->
  exists l err,
    go_Tx_SUnionByTwoBuckets mord g b1 k1 b2 k2 = GOk (g, (l, err)) /\
    match snd (do_op 0 w t (OSUnion2 b1 k1 b2 k2)) with
    | RList x => err = ENil /\ bsort l = x
    | RErr => err <> ENil
    | _ => False
    end.
Proof. exact go_Tx_SUnionByTwoBuckets_eq. Qed.
Print Assumptions C13_code_SUnionByTwoBuckets_eq.

Theorem C13_code_SPop_eq : forall now mord g w t b k, tx_abs g w t -> now_ok now -> arg_ok b -> arg_ok k -> set_vals_ok w -> mord_ok mord ->
  exists choice g' item e,
    go_Tx_SPop now mord g b k = GOk (g', (item, e)) /\
    tx_abs g' w (snd (fst (do_op (Z.to_N now) w t (OSPop b k choice)))) /\
    match snd (do_op (Z.to_N now) w t (OSPop b k choice)) with
    | RVal x => e = ENil /\ item = x
    | RErr => e <> ENil
    | _ => False
    end.
Proof. exact go_Tx_SPop_eq. Qed.
Print Assumptions C13_code_SPop_eq.

Theorem C13_code_sMove_eq : forall now g w t b1 k1 b2 k2 x, tx_abs g w t -> now_ok now -> arg_ok b1 -> arg_ok k1 -> arg_ok b2 -> arg_ok k2 -> arg_ok x ->
  exists g' ok e,
    go_Tx_sMove now g b1 k1 b2 k2 x = GOk (g', (ok, e)) /\
    tx_abs g' w (snd (fst (tx_move (Z.to_N now) w t b1 k1 b2 k2 x))) /\
    match snd (tx_move (Z.to_N now) w t b1 k1 b2 k2 x) with
    | RBool v => e = ENil /\ ok = v
    | RErr => e <> ENil
    | _ => False
    end.
Proof. exact go_Tx_sMove_eq. Qed.
Print Assumptions C13_code_sMove_eq.

Theorem C13_code_SMoveByOneBucket_eq : forall now g w t b k1 k2 x, tx_abs g w t -> now_ok now -> arg_ok b -> arg_ok k1 -> arg_ok k2 -> arg_ok x ->
  exists g' ok e,
    go_Tx_SMoveByOneBucket now g b k1 k2 x = GOk (g', (ok, e)) /\
    tx_abs g' w (snd (fst (do_op (Z.to_N now) w t (OSMove1 b k1 k2 x)))) /\
    match snd (do_op (Z.to_N now) w t (OSMove1 b k1 k2 x)) with
    | RBool v => e = ENil /\ ok = v
    | RErr => e <> ENil
    | _ => False
    end.
Proof. exact go_Tx_SMoveByOneBucket_eq. Qed.
Print Assumptions C13_code_SMoveByOneBucket_eq.

Theorem C13_code_SMoveByTwoBuckets_eq : forall now g w t b1 k1 b2 k2 x, tx_abs g w t -> now_ok now -> arg_ok b1 -> arg_ok k1 -> arg_ok b2 -> arg_ok k2 -> arg_ok x ->
  exists g' ok e,
    go_Tx_SMoveByTwoBuckets now g b1 k1 b2 k2 x = GOk (g', (ok, e)) /\
    tx_abs g' w (snd (fst (do_op (Z.to_N now) w t (OSMove2 b1 k1 b2 k2 x)))) /\
    match snd (do_op (Z.to_N now) w t (OSMove2 b1 k1 b2 k2 x)) with
    | RBool v => e = ENil /\ ok = v
    | RErr => e <> ENil
    | _ => False
    end.
Proof. exact go_Tx_SMoveByTwoBuckets_eq. Qed.
Print Assumptions C13_code_SMoveByTwoBuckets_eq.


(* ---------------------------------------------------------------------- *)
(** sorted-set write calls of the transaction layer (tx_zset.go ZRem, ZRemRangeByRank), translated into
    generated/GoTxZ.v (tie txz).  C13: the call is the model's [do_op] branch — one record with the model's
    fields appended to the pending writes, the indexes of tx.db untouched until Commit; C12: on every error
    the transaction object is unchanged, and a finished transaction gets an error.  [zhas b] stands for
    [alookup (ix_zset ix) b <> None].  Statements copied from gosem/GoTxZFacts.v. *)
From VerifGo Require GoTxZFacts.
From VerifGen Require GoTxZ.

Theorem C13_code_ZRem_eq : forall now g zhas t b k,
  GoTxZFacts.txz_abs g zhas t -> GoTxZFacts.now_ok now -> GoTxZFacts.arg_ok b -> GoTxZFacts.arg_ok k ->
  let mr := if zhas b then tx_put t b k [] 0 F_ZRem (Z.to_N now) DS_ZSet else (t, RErr) in
  exists g' e,
    GoTxZ.go_Tx_ZRem now g b k = GOk (g', e) /\
    GoTxZFacts.txz_abs g' zhas (fst mr) /\ GoTxZ.Tx_db g' = GoTxZ.Tx_db g /\ (e <> ENil -> g' = g) /\
    GoTxZFacts.err_of_res e (snd mr).
Proof. exact GoTxZFacts.go_Tx_ZRem_eq. Qed.
Print Assumptions C13_code_ZRem_eq.

Theorem C13_code_ZRemRangeByRank_eq : forall now g zhas t b s e,
  GoTxZFacts.txz_abs g zhas t -> GoTxZFacts.now_ok now -> GoTxZFacts.arg_ok b ->
  GoTxZFacts.arg_ok (print_Z s) -> GoTxZFacts.arg_ok (print_Z e) ->
  let mr := if zhas b then tx_put t b (print_Z s) (print_Z e) 0 F_ZRemRange (Z.to_N now) DS_ZSet else (t, RErr) in
  exists g' er,
    GoTxZ.go_Tx_ZRemRangeByRank now g b s e = GOk (g', er) /\
    GoTxZFacts.txz_abs g' zhas (fst mr) /\ GoTxZ.Tx_db g' = GoTxZ.Tx_db g /\ (er <> ENil -> g' = g) /\
    GoTxZFacts.err_of_res er (snd mr).
Proof. exact GoTxZFacts.go_Tx_ZRemRangeByRank_eq. Qed.
Print Assumptions C13_code_ZRemRangeByRank_eq.

Theorem C12_code_ZRem_closed : forall now g b k, GoTxZ.Tx_db_isnil g = true ->
  exists e, GoTxZ.go_Tx_ZRem now g b k = GOk (g, e) /\ e <> ENil.
Proof. exact GoTxZFacts.go_Tx_ZRem_closed. Qed.
Print Assumptions C12_code_ZRem_closed.

Theorem C12_code_ZRemRangeByRank_closed : forall now g b s e, GoTxZ.Tx_db_isnil g = true ->
  exists er, GoTxZ.go_Tx_ZRemRangeByRank now g b s e = GOk (g, er) /\ er <> ENil.
Proof. exact GoTxZFacts.go_Tx_ZRemRangeByRank_closed. Qed.
Print Assumptions C12_code_ZRemRangeByRank_closed.
