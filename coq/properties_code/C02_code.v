(** C02 (code level) — theorems about the Gallina translation of
    [processEntriesScanOnDisk] and [SortedEntryKeys] (tx_bptree.go, utils.go: the
    step of every sparse-mode scan that merges the records read from the active
    index and the sealed segments — first occurrence of a key wins, the input being
    ordered newest first — sorts the keys and drops deleted and expired records) and
    of [Tx.buildTempBucketMetaIdx] (tx.go: the key range of a bucket that Commit
    persists and Open uses to find a bucket's segments), regenerated from /repo by
    /verif/translator on every run (generated/GoScan.v).  Statements copied from
    gosem/GoScanFacts.v, each closed by [exact].  [process_scan] is the model of
    Sparse.v, about which C02.v proves that segment-wise reads equal the reads of
    the single merged index.  [mord_ok]: Go's map iteration order is an arbitrary
    permutation; [entry_ok]: flag, TTL and timestamp within their Go types.
    Not translated: the on-disk tree traversal that produces the input list. *)
From Coq Require Import List ZArith Sorted.
From Verif Require Import Bytes BytesFacts ListDS SetDS SetFacts Index IndexFacts Sparse SparseFacts.
From VerifGo Require Import GoSem GoSetFacts GoScanFacts.
From VerifGen Require Import GoScan.
Import ListNotations.
Open Scope Z_scope.

(** the code never panics, does not depend on the iteration order of the Go map, its abstraction is the model's scan, and the result is the list of the FIRST occurrences in the input of the keys of that scan, in ascending key order *)
Theorem C02_code_scan_merge_is_first_wins : forall now mord es,
  mord_ok mord -> 0 <= now < 2 ^ 64 -> Forall entry_ok es ->
  exists res,
    go_processEntriesScanOnDisk now mord es = GOk res /\
    to_idx res = process_scan (Z.to_N now) (to_idx es) /\
    res = map (first_entry es) (map fst (process_scan (Z.to_N now) (to_idx es))) /\
    Forall (fun e => first_with_key es (Entry_Key e) = Some e) res /\
    (forall e, In e res -> In e es).
Proof. exact go_processEntriesScanOnDisk_spec. Qed.
Print Assumptions C02_code_scan_merge_is_first_wins.

(** the result is strictly ascending by key, duplicate-free, and a key is in it exactly when its newest record is live *)
Theorem C02_code_scan_result_sorted_live : forall now mord es,
  mord_ok mord -> 0 <= now < 2 ^ 64 -> Forall entry_ok es ->
  exists res,
    go_processEntriesScanOnDisk now mord es = GOk res /\
    ksorted (to_idx res) /\
    StronglySorted (fun a b => bltb (Entry_Key a) (Entry_Key b) = true) res /\
    NoDup (map Entry_Key res) /\
    (forall e, In e res <-> first_with_key es (Entry_Key e) = Some e /\ live now e = true) /\
    (forall k, In k (map Entry_Key res) <-> exists e, first_with_key es k = Some e /\ live now e = true).
Proof. exact go_processEntriesScanOnDisk_keys. Qed.
Print Assumptions C02_code_scan_result_sorted_live.

(** SortedEntryKeys returns the sorted keys whatever order the map is ranged in *)
Theorem C02_code_sorted_keys : forall mord (m : list (bytes * go_Entry)),
  mord_ok mord -> go_SortedEntryKeys mord m = GOk (bsort (map fst m), m).
Proof. exact go_SortedEntryKeys_eq. Qed.
Print Assumptions C02_code_sorted_keys.

(** the key range accumulated over the records of a transaction is [smallest key, largest key] (nil test of the first call answered 'nil', keys non-empty) *)
Theorem C02_code_bucket_key_range : forall orc tx bucket k0 ks,
  (forall n, orc n = false) -> Forall (fun k => k <> []) (k0 :: ks) ->
  go_build_all (fun _ => orc) 0 tx bucket (k0 :: ks) bm0 =
    GOk (tx, mk_go_BucketMeta (wrapU 32 (zlen (bmin_list k0 ks))) (wrapU 32 (zlen (bmax_list k0 ks)))
                              (bmin_list k0 ks) (bmax_list k0 ks) 0).
Proof. exact go_build_all_eq1. Qed.
Print Assumptions C02_code_bucket_key_range.

(** ... where these are a smallest and a largest element of the keys *)
Theorem C02_code_bucket_key_range_is_min_max : forall orcs tx bucket k0 ks,
  (forall n, orcs 0%nat n = false) ->
  (forall i n, (0 < i)%nat -> orcs i n = true) \/ Forall (fun k => k <> []) (k0 :: ks) ->
  go_build_all orcs 0 tx bucket (k0 :: ks) bm0 =
    GOk (tx, mk_go_BucketMeta (wrapU 32 (zlen (bmin_list k0 ks))) (wrapU 32 (zlen (bmax_list k0 ks)))
                              (bmin_list k0 ks) (bmax_list k0 ks) 0) /\
  In (bmin_list k0 ks) (k0 :: ks) /\ Forall (fun k => bleb (bmin_list k0 ks) k = true) (k0 :: ks) /\
  In (bmax_list k0 ks) (k0 :: ks) /\ Forall (fun k => bleb k (bmax_list k0 ks) = true) (k0 :: ks).
Proof. exact go_build_all_eq. Qed.
Print Assumptions C02_code_bucket_key_range_is_min_max.

Example C02_code_nonvacuous :
  let e k fl v := mk_go_Entry k v (mk_go_MetaData 0 0 5 0 fl [] 0 0 0 0) 0 0 in
  (* newest first: k1 deleted (shadows the older live k1), k0 live twice (the newer value wins), k2 live *)
  go_processEntriesScanOnDisk 9 (fun _ _ l => l) [e [x6b; x31] 0 []; e [x6b; x30] 1 [x32]; e [x6b; x32] 1 [x33]; e [x6b; x31] 1 [x31]; e [x6b; x30] 1 [x30]] =
  GOk [e [x6b; x30] 1 [x32]; e [x6b; x32] 1 [x33]].
Proof. vm_compute. reflexivity. Qed.
