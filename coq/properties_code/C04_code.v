(** C04 (code level) — theorems about the Gallina translation of the record
    codecs and record predicates of /repo (entry.go, datafile.go readMetaData,
    bptree_root_idx.go, bucket_meta.go, record.go, db.go isFilterEntry,
    tx_bptree.go getNewKey) that /verif/translator regenerates on every run
    (generated/GoCodec.v).  Statements copied from gosem/GoCodecFacts.v, each
    closed by [exact].  [sized e]: what Tx.put guarantees of the entries it
    builds (size fields = lengths, every field within its Go type, record
    smaller than 4 GiB).  The right-hand sides are the models Codec.v /
    Index.v / Merge.v, about which C04.v proves the mathematical content. *)
From Verif Require Import Bytes BytesFacts Crc32 CrcFacts Codec CodecFacts ListDS Index Merge.
From VerifGo Require Import GoSem GoCodecFacts.
From VerifGen Require Import GoCodec.
Open Scope Z_scope.

(** the sparse index keys a record by the concatenation bucket ++ key (known finding F18) *)
Theorem C04_code_getNewKey : forall bucket key, go_getNewKey bucket key = GOk (bucket ++ key).
Proof. exact go_getNewKey_eq. Qed.
Print Assumptions C04_code_getNewKey.

(** ... so ('a','bc') and ('ab','c') are one key of the sparse index: the code-level witness of F18 *)
Example C04_code_F18_witness :
  go_getNewKey [x61] [x62; x63] = go_getNewKey [x61; x62] [x63].
Proof. vm_compute. reflexivity. Qed.
