(** C15 (code level) — theorems about the Gallina translation of the record
    codecs and record predicates of /repo (entry.go, datafile.go readMetaData,
    bptree_root_idx.go, bucket_meta.go, record.go, db.go isFilterEntry,
    tx_bptree.go getNewKey) that /verif/translator regenerates on every run
    (generated/GoCodec.v).  Statements copied from gosem/GoCodecFacts.v, each
    closed by [exact].  [sized e]: what Tx.put guarantees of the entries it
    builds (size fields = lengths, every field within its Go type, record
    smaller than 4 GiB).  The right-hand sides are the models Codec.v /
    Index.v / Merge.v, about which C15.v proves the mathematical content. *)
From Verif Require Import Bytes BytesFacts Crc32 CrcFacts Codec CodecFacts ListDS Index Merge.
From VerifGo Require Import GoSem GoCodecFacts.
From VerifGen Require Import GoCodec.
Open Scope Z_scope.

(** the dead-record filter of Merge (db.go isFilterEntry) is the model's is_filter: deletes, pops, removals, trims and expired records *)
Theorem C15_code_isFilterEntry_is_model : forall now db e, 0 <= now < 2 ^ 63 -> sized e ->
  go_DB_isFilterEntry now db e = GOk (db, is_filter (Z.to_N now) (to_entry e)).
Proof. exact go_isFilterEntry_eq. Qed.
Print Assumptions C15_code_isFilterEntry_is_model.

(** record.go IsExpired with the clock as a parameter is the model's is_expired (uint64 wrap included) *)
Theorem C15_code_IsExpired : forall now ttl ts, 0 <= now < 2 ^ 63 -> 0 <= ttl < 2 ^ 32 -> 0 <= ts < 2 ^ 64 ->
  go_IsExpired now ttl ts = GOk (is_expired (Z.to_N now) (Z.to_N ttl) (Z.to_N ts)).
Proof. exact go_IsExpired_eq. Qed.
Print Assumptions C15_code_IsExpired.

