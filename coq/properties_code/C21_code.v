(** C21 (code level) — theorems about the Gallina translation of the record
    codecs and record predicates of /repo (entry.go, datafile.go readMetaData,
    bptree_root_idx.go, bucket_meta.go, record.go, db.go isFilterEntry,
    tx_bptree.go getNewKey) that /verif/translator regenerates on every run
    (generated/GoCodec.v).  Statements copied from gosem/GoCodecFacts.v, each
    closed by [exact].  [sized e]: what Tx.put guarantees of the entries it
    builds (size fields = lengths, every field within its Go type, record
    smaller than 4 GiB).  The right-hand sides are the models Codec.v /
    Index.v / Merge.v, about which C21.v proves the mathematical content. *)
From Verif Require Import Bytes BytesFacts Crc32 CrcFacts Codec CodecFacts ListDS Index Merge.
From VerifGo Require Import GoSem GoCodecFacts.
From VerifGen Require Import GoCodec.
Open Scope Z_scope.
From Coq Require Import Lia.
Definition bs_k : bytes := [x6b].
Definition bs_v : bytes := [x76].
Definition bs_b : bytes := [x62].

(** Entry.Encode produces exactly the bytes of the model's encode_entry, for every entry Tx.put can build *)
Theorem C21_code_Encode_is_model : forall e, sized e ->
  go_Entry_Encode e = GOk (e, encode_entry (to_entry e)).
Proof. exact go_Entry_Encode_eq. Qed.
Print Assumptions C21_code_Encode_is_model.

(** Entry.Size *)
Theorem C21_code_Size : forall e, sized e ->
  go_Entry_Size e = GOk (e, Z.of_N (entry_size (to_entry e))).
Proof. exact go_Entry_Size_eq. Qed.
Print Assumptions C21_code_Size.

(** readMetaData reads the fields at the offsets the model's decoder uses, on any buffer of at least 42 bytes *)
Theorem C21_code_readMetaData : forall buf, 42 <= zlen buf ->
  go_readMetaData buf =
  GOk (mk_go_MetaData (Z.of_N (fld buf 12 4)) (Z.of_N (fld buf 16 4)) (Z.of_N (fld buf 4 8)) (Z.of_N (fld buf 22 4))
                      (Z.of_N (fld buf 20 2)) [] (Z.of_N (fld buf 26 4)) (Z.of_N (fld buf 34 8))
                      (Z.of_N (fld buf 30 2)) (Z.of_N (fld buf 32 2))).
Proof. exact go_readMetaData_eq. Qed.
Print Assumptions C21_code_readMetaData.

(** Entry.GetCrc = CRC-32 of header bytes 4.. continued over bucket, key, value *)
Theorem C21_code_GetCrc : forall e buf, 4 <= zlen buf ->
  go_Entry_GetCrc e buf =
  GOk (e, Z.of_N (crc_update (crc_update (crc_update (crc32 (skipn 4 buf)) (MetaData_bucket (meta_of e))) (Entry_Key e)) (Entry_Value e))).
Proof. exact go_Entry_GetCrc_eq. Qed.
Print Assumptions C21_code_GetCrc.

(** Entry.IsZero *)
Theorem C21_code_IsZero : forall e, go_Entry_IsZero e =
  GOk (e, (Entry_crc e =? 0) && (MetaData_keySize (meta_of e) =? 0) && (MetaData_valueSize (meta_of e) =? 0) &&
          (MetaData_timestamp (meta_of e) =? 0)).
Proof. exact go_Entry_IsZero_eq. Qed.
Print Assumptions C21_code_IsZero.

(** code-level round trip: the header of an encoded entry read back by readMetaData gives the entry's fields and GetCrc equals the stored checksum *)
Theorem C21_code_encode_then_decode_header : forall e, sized e ->
  let buf := encode_entry (to_entry e) in
  let m := meta_of e in
  go_readMetaData (firstn 42 buf) =
  GOk (mk_go_MetaData (MetaData_keySize m) (MetaData_valueSize m) (MetaData_timestamp m) (MetaData_TTL m)
                      (MetaData_Flag m) [] (MetaData_bucketSize m) (MetaData_txID m) (MetaData_status m) (MetaData_ds m)) /\
  go_Entry_GetCrc e (firstn 42 buf) = GOk (e, Z.of_N (le_dec (firstn 4 buf))).
Proof. exact go_encode_then_readMetaData. Qed.
Print Assumptions C21_code_encode_then_decode_header.

(** sparse-mode root index record *)
Theorem C21_code_RootIdx_Encode : forall r, ri_sized r ->
  go_BPTreeRootIdx_Encode r = GOk (r, encode_rootidx (to_rootidx r)).
Proof. exact go_BPTreeRootIdx_Encode_eq. Qed.
Print Assumptions C21_code_RootIdx_Encode.

(** bucket meta record (writes through sub-slice aliases of the buffer) *)
Theorem C21_code_BucketMeta_Encode : forall b, bm_sized b ->
  go_BucketMeta_Encode b = GOk (b, encode_bucketmeta (to_bucketmeta b)).
Proof. exact go_BucketMeta_Encode_eq. Qed.
Print Assumptions C21_code_BucketMeta_Encode.

(** non-vacuity: a concrete entry satisfies [sized] and the code encodes it to 45 bytes *)
Example C21_code_example :
  let e := mk_go_Entry bs_k bs_v (mk_go_MetaData 1 1 1700000000 0 1 bs_b 1 7 1 0) 0 0 in
  sized e /\ exists b, go_Entry_Encode e = GOk (e, b) /\ zlen b = 45.
Proof.
  cbv zeta. split.
  - unfold sized, meta_of, bs_k, bs_v, bs_b. cbn. repeat split; lia.
  - eexists. split; [vm_compute; reflexivity|]. reflexivity.
Qed.
