(** C05 (code level) — theorems about the Gallina translation of
    /repo/ds/list/list.go that /verif/translator regenerates on every run
    (generated/GoList.v).  Statements only, each closed by [exact]; the proofs
    are in gosem/GoListFacts.v, GoListLPush.v, GoListLRem.v, GoListCode.v.
    Quantifiers: every map of lists shorter than 2^62 ([items_ok]), every key,
    every 64-bit index / count ([int_ok]), every answer of the nil test on an
    empty slice ([orc]), any sufficient loop fuel. *)
From Verif Require Import Bytes BytesFacts ListDS ListFacts.
From VerifGo Require Import GoSem GoListFacts GoListLPush GoListLRem GoListCode.
From VerifGen Require Import GoList.
From Coq Require Import Strings.String.
Open Scope Z_scope.

(** the code of LRange is Redis' LRANGE *)
Theorem C05_code_LRange_is_redis : forall l key s e lst,
  items_ok l -> int_ok s -> int_ok e -> alookup (List_Items l) key = Some lst ->
  exists g, go_List_LRange l key s e = GOk (l, g) /\
            agrees [] g (match lrange_spec lst s e with Some x => LOk x | None => LErr end).
Proof. exact code_LRange_redis. Qed.
Print Assumptions C05_code_LRange_is_redis.

(** the code of LRem is Redis' LREM (list and returned count) *)
Theorem C05_code_LRem_is_redis : forall fuel l key count v lst,
  items_ok l -> alookup (List_Items l) key = Some lst ->
  - zlen lst <= count <= zlen lst ->
  (2 * Z.to_nat (zlen lst) + 4 <= fuel)%nat ->
  let new := fst (lrem_spec lst count v) in
  let n := snd (lrem_spec lst count v) in
  go_List_LRem fuel l key count v =
  GOk (mk_go_List (if n =? 0 then List_Items l else aset (List_Items l) key new), (n, ENil)).
Proof. exact code_LRem_redis. Qed.
Print Assumptions C05_code_LRem_is_redis.

(** the code of Ltrim keeps exactly the LRANGE elements *)
Theorem C05_code_Ltrim_is_redis : forall l key s e lst,
  items_ok l -> int_ok s -> int_ok e -> alookup (List_Items l) key = Some lst ->
  exists err,
    go_List_Ltrim l key s e =
    GOk (mk_go_List (match lrange_spec lst s e with Some x => aset (List_Items l) key x | None => List_Items l end), err) /\
    (err = ENil <-> lrange_spec lst s e <> None).
Proof. exact code_Ltrim_redis. Qed.
Print Assumptions C05_code_Ltrim_is_redis.

(** every function of list.go computes what the hand-written model ListDS.v
    (the one the engine model and the correspondence check use) says *)
Theorem C05_code_Size : forall l key,
  go_List_Size l key =
  GOk (l, match l_size (List_Items l) key with LOk n => (n, ENil) | LErr => (0, EVar "ErrListNotFound") end).
Proof. exact go_Size_eq. Qed.
Print Assumptions C05_code_Size.

Theorem C05_code_RPush : forall l key vs,
  let m' := l_rpush (List_Items l) key vs in
  go_List_RPush l key vs =
  GOk (mk_go_List m', match l_size m' key with LOk n => (n, ENil) | LErr => (0, EVar "ErrListNotFound") end).
Proof. exact go_RPush_eq. Qed.
Print Assumptions C05_code_RPush.

Theorem C05_code_LPush : forall fuel l key vs,
  items_ok l -> zlen vs < 2 ^ 62 ->
  let size := match alookup (List_Items l) key with Some x => zlen x | None => 0 end in
  (Z.to_nat (size + zlen vs) + 4 <= fuel)%nat ->
  go_List_LPush fuel l key vs =
  GOk (mk_go_List (l_lpush (List_Items l) key vs), (size + zlen vs, ENil)).
Proof. exact go_LPush_eq. Qed.
Print Assumptions C05_code_LPush.

Theorem C05_code_LPop : forall orc l key,
  exists g,
    go_List_LPop orc l key = GOk (mk_go_List (fst (l_lpop (List_Items l) key)), g) /\
    agrees [] g (snd (l_lpop (List_Items l) key)).
Proof. exact go_LPop_eq. Qed.
Print Assumptions C05_code_LPop.

Theorem C05_code_RPop : forall l key, items_ok l ->
  exists g,
    go_List_RPop l key = GOk (mk_go_List (fst (l_rpop (List_Items l) key)), g) /\
    agrees [] g (snd (l_rpop (List_Items l) key)).
Proof. exact go_RPop_eq. Qed.
Print Assumptions C05_code_RPop.

Theorem C05_code_LPeek : forall l key,
  exists g, go_List_LPeek l key = GOk (l, g) /\ agrees [] g (l_lpeek (List_Items l) key).
Proof. exact go_LPeek_eq. Qed.
Print Assumptions C05_code_LPeek.

Theorem C05_code_RPeek : forall l key, items_ok l ->
  exists item size err,
    go_List_RPeek l key = GOk (l, (item, size, err)) /\
    agrees [] (item, err) (l_rpeek (List_Items l) key) /\
    size = match alookup (List_Items l) key with Some x => zlen x | None => 0 end.
Proof. exact go_RPeek_eq. Qed.
Print Assumptions C05_code_RPeek.

Theorem C05_code_LRange : forall l key s e, items_ok l -> int_ok s -> int_ok e ->
  exists g, go_List_LRange l key s e = GOk (l, g) /\ agrees [] g (l_lrange (List_Items l) key s e).
Proof. exact go_LRange_eq. Qed.
Print Assumptions C05_code_LRange.

Theorem C05_code_LRemNum : forall l key count v, items_ok l -> int_ok count ->
  exists g, go_List_LRemNum l key count v = GOk (l, g) /\ agrees 0 g (l_lremnum (List_Items l) key count v).
Proof. exact go_LRemNum_eq. Qed.
Print Assumptions C05_code_LRemNum.

Theorem C05_code_LRem : forall fuel l key count v,
  items_ok l -> int_ok count ->
  let size := match alookup (List_Items l) key with Some x => zlen x | None => 0 end in
  (2 * Z.to_nat size + 4 <= fuel)%nat ->
  exists g,
    go_List_LRem fuel l key count v = GOk (mk_go_List (fst (l_lrem (List_Items l) key count v)), g) /\
    agrees 0 g (snd (l_lrem (List_Items l) key count v)).
Proof. exact go_LRem_eq. Qed.
Print Assumptions C05_code_LRem.

Theorem C05_code_LSet : forall l key i v, int_ok i ->
  go_List_LSet l key i v =
  GOk (mk_go_List (fst (l_lset (List_Items l) key i v)),
       if snd (l_lset (List_Items l) key i v) then ENil
       else match alookup (List_Items l) key with Some _ => EVar "ErrIndexOutOfRange" | None => EVar "ErrListNotFound" end).
Proof. exact go_LSet_eq. Qed.
Print Assumptions C05_code_LSet.

Theorem C05_code_Ltrim : forall l key s e, items_ok l -> int_ok s -> int_ok e ->
  exists err,
    go_List_Ltrim l key s e = GOk (mk_go_List (fst (l_ltrim (List_Items l) key s e)), err) /\
    (snd (l_ltrim (List_Items l) key s e) = true <-> err = ENil).
Proof. exact go_Ltrim_eq. Qed.
Print Assumptions C05_code_Ltrim.

(** C20 for ds/list: no slice expression, index or make in list.go can panic,
    no loop can fail to terminate *)
Theorem C05_code_reads_never_panic : forall l key s e,
  items_ok l -> int_ok s -> int_ok e ->
  no_panic (go_List_Size l key) /\ no_panic (go_List_LPeek l key) /\ no_panic (go_List_RPeek l key) /\
  no_panic (go_List_LRange l key s e).
Proof. exact code_no_panic_reads. Qed.
Print Assumptions C05_code_reads_never_panic.

Theorem C05_code_writes_never_panic : forall fuel orc l key vs i v count s e,
  items_ok l -> zlen vs < 2 ^ 62 -> int_ok i -> int_ok count -> int_ok s -> int_ok e ->
  (2 * Z.to_nat (match alookup (List_Items l) key with Some x => zlen x | None => 0 end + zlen vs) + 4 <= fuel)%nat ->
  no_panic (go_List_RPush l key vs) /\ no_panic (go_List_LPush fuel l key vs) /\
  no_panic (go_List_LPop orc l key) /\ no_panic (go_List_RPop l key) /\
  no_panic (go_List_LSet l key i v) /\ no_panic (go_List_Ltrim l key s e) /\
  no_panic (go_List_LRem fuel l key count v).
Proof. exact code_no_panic_writes. Qed.
Print Assumptions C05_code_writes_never_panic.

(** the premises are satisfiable and the statements are about running code *)
Example C05_code_example :
  let l := mk_go_List [(bs "k", [bs "a"; bs "b"; bs "a"; bs "c"; bs "a"])] in
  go_List_LRem 20 l (bs "k") (-2) (bs "a") =
    GOk (mk_go_List [(bs "k", [bs "a"; bs "b"; bs "c"])], (2, ENil)) /\
  go_List_LRange l (bs "k") (-3) (-1) = GOk (l, ([bs "a"; bs "c"; bs "a"], ENil)).
Proof. vm_compute. split; reflexivity. Qed.
