(** ListFacts.v — the model of ds/list (ListDS.v, written after the Go code)
    against a declarative Redis-style specification. *)
From Verif Require Import Bytes BytesFacts ListDS.
From Coq Require Import Lia ZifyN ZifyNat ZifyBool.
Open Scope Z_scope.

(** ---- LRange / LTrim ---- *)
Definition norm_idx (n i : Z) : Z := if i <? 0 then n + i else i.

(** Redis LRANGE: negative indexes count from the tail, bounds are clamped;
    an empty range is reported as an error (None) by this API *)
Definition lrange_spec (l : list bytes) (st en : Z) : option (list bytes) :=
  let n := zlen l in
  let s := Z.max 0 (norm_idx n st) in
  let e := Z.min (n - 1) (norm_idx n en) in
  if s <=? e then Some (zslice l s (e + 1)) else None.

Lemma lrange_norm_spec : forall n st en, 0 <= n ->
  lrange_norm n st en = (Z.max 0 (norm_idx n st), Z.min (n - 1) (norm_idx n en)).
Proof.
  intros n st en Hn. unfold lrange_norm, norm_idx.
  destruct (st <? 0) eqn:Hs; destruct (en <? 0) eqn:He.
  - (* st < 0, en < 0 *)
    destruct (0 <=? st) eqn:H1; [lia|]. cbn [andb].
    rewrite He. cbn [andb].
    destruct (0 <=? en) eqn:H2; [lia|]. cbn [andb]. rewrite Hs. cbn [andb].
    destruct (n + st <? 0) eqn:H3; destruct (n <=? n + en) eqn:H4; f_equal; rewrite ?Hs, ?He, ?H3; lia.
  - (* st < 0, en >= 0 *)
    destruct (0 <=? st) eqn:H1; [lia|]. cbn [andb].
    destruct (0 <=? en) eqn:H2; [|lia]. cbn [andb].
    destruct (n + st <? 0) eqn:H3; cbn [andb]; rewrite ?He; cbn [andb].
    + rewrite H3. destruct (n <=? en) eqn:H4; f_equal; rewrite ?Hs, ?He, ?H3; lia.
    + rewrite H3. destruct (n <=? en) eqn:H4; f_equal; rewrite ?Hs, ?He, ?H3; lia.
  - (* st >= 0, en < 0 *)
    destruct (0 <=? st) eqn:H1; [|lia]. cbn [andb].
    destruct (0 <=? n + en) eqn:H2; cbn [andb]; rewrite ?Hs; cbn [andb];
      destruct (n <=? n + en) eqn:H4; f_equal; rewrite ?Hs, ?He, ?H3; lia.
  - (* st >= 0, en >= 0 *)
    destruct (0 <=? st) eqn:H1; [|lia]. cbn [andb].
    destruct (0 <=? en) eqn:H2; [|lia]. rewrite Hs. cbn [andb].
    destruct (n <=? en) eqn:H4; f_equal; rewrite ?Hs, ?He, ?H3; lia.
Qed.

Lemma zlen_nonneg : forall {A} (l : list A), 0 <= zlen l.
Proof. intros A l. unfold zlen. lia. Qed.

Lemma lrange_list_spec : forall l st en,
  lrange_list l st en = match lrange_spec l st en with Some x => LOk x | None => LErr end.
Proof.
  intros l st en. unfold lrange_list, lrange_spec.
  rewrite (lrange_norm_spec (zlen l) st en (zlen_nonneg l)).
  set (s := Z.max 0 (norm_idx (zlen l) st)).
  set (e := Z.min (zlen l - 1) (norm_idx (zlen l) en)).
  destruct (e <? s) eqn:H1; destruct (s <=? e) eqn:H2; try reflexivity; lia.
Qed.

Lemma nth_error_firstn_lt : forall {A} (l : list A) (n i : nat), (i < n)%nat ->
  nth_error (firstn n l) i = nth_error l i.
Proof.
  intros A l. induction l as [|x l IH]; intros n i H.
  - rewrite firstn_nil. reflexivity.
  - destruct n as [|n]; [lia|]. destruct i as [|i]; [reflexivity|].
    cbn [firstn nth_error]. apply IH. lia.
Qed.

Lemma nth_error_skipn_add : forall {A} (l : list A) (n i : nat),
  nth_error (skipn n l) i = nth_error l (n + i).
Proof.
  intros A l. induction l as [|x l IH]; intros n i.
  - rewrite skipn_nil. destruct i; destruct n; reflexivity.
  - destruct n as [|n]; [reflexivity|]. cbn [skipn Nat.add nth_error]. apply IH.
Qed.

(** the Go slice expression never goes out of bounds and selects exactly the
    elements at positions s..e *)
Lemma lrange_spec_elems : forall l st en x, lrange_spec l st en = Some x ->
  let s := Z.max 0 (norm_idx (zlen l) st) in
  let e := Z.min (zlen l - 1) (norm_idx (zlen l) en) in
  0 <= s /\ e < zlen l /\ zlen x = e - s + 1 /\
  forall i, 0 <= i < e - s + 1 -> nth_error x (Z.to_nat i) = nth_error l (Z.to_nat (s + i)).
Proof.
  intros l st en x H s e. unfold lrange_spec in H. fold s e in H.
  destruct (s <=? e) eqn:Hse; [|discriminate].
  injection H as H. subst x.
  assert (Hs : 0 <= s) by (unfold s; lia).
  assert (He : e < zlen l) by (unfold e; lia).
  assert (Hse' : s <= e) by lia.
  clearbody s e.
  split; [exact Hs|]. split; [exact He|].
  unfold zslice. split.
  - unfold zlen in *. rewrite firstn_length, skipn_length. lia.
  - intros i Hi.
    rewrite nth_error_firstn_lt by lia.
    rewrite nth_error_skipn_add. f_equal. lia.
Qed.

(** ---- LRem ---- *)
Fixpoint occ (v : bytes) (l : list bytes) : nat :=
  match l with [] => O | x :: r => if bytes_eqb x v then S (occ v r) else occ v r end.

Definition others (v : bytes) (l : list bytes) : list bytes := filter (fun x => negb (bytes_eqb x v)) l.

Lemma count_upto_gen : forall l c v r, 0 <= c -> 0 <= r -> (0 < c -> r <= c) ->
  fold_left (fun r x => if (0 <? c) && (r =? c) then r
                        else if bytes_eqb x v then r + 1 else r) l r
  = if c =? 0 then r + Z.of_nat (occ v l) else Z.min c (r + Z.of_nat (occ v l)).
Proof.
  induction l as [|x l IH]; intros c v r Hc Hr Hrc.
  - cbn [fold_left occ]. destruct (c =? 0) eqn:E; lia.
  - cbn [fold_left occ].
    rewrite IH.
    + destruct (0 <? c) eqn:H1; destruct (r =? c) eqn:H2; cbn [andb];
        destruct (bytes_eqb x v) eqn:E2; destruct (c =? 0) eqn:E; lia.
    + exact Hc.
    + destruct (0 <? c) eqn:H1; destruct (r =? c) eqn:H2; cbn [andb];
        destruct (bytes_eqb x v) eqn:E2; lia.
    + intros Hpos.
      destruct (0 <? c) eqn:H1; destruct (r =? c) eqn:H2; cbn [andb];
        destruct (bytes_eqb x v) eqn:E2; lia.
Qed.

Lemma count_upto_spec : forall l c v, 0 <= c ->
  count_upto l c v = if c =? 0 then Z.of_nat (occ v l) else Z.min c (Z.of_nat (occ v l)).
Proof.
  intros l c v Hc. unfold count_upto. rewrite count_upto_gen by lia. reflexivity.
Qed.

Lemma lremnum_list_spec : forall l count v, - zlen l <= count <= zlen l ->
  lremnum_list l count v =
    LOk (if count =? 0 then Z.of_nat (occ v l) else Z.min (Z.abs count) (Z.of_nat (occ v l))).
Proof.
  intros l count v H. unfold lremnum_list.
  destruct (zlen l <? count) eqn:H1; [lia|].
  destruct (count <? - zlen l) eqn:H2; [lia|].
  f_equal.
  destruct (count <? 0) eqn:H3.
  - rewrite count_upto_spec by lia.
    destruct (- count =? 0) eqn:H4; [lia|].
    destruct (count =? 0) eqn:H5; [lia|].
    replace (Z.abs count) with (- count) by lia. reflexivity.
  - rewrite count_upto_spec by lia.
    destruct (count =? 0) eqn:H5; [reflexivity|].
    replace (Z.abs count) with count by lia. reflexivity.
Qed.

Lemma lremnum_list_err : forall l count v, zlen l < count -> lremnum_list l count v = LErr.
Proof.
  intros l count v H. unfold lremnum_list.
  destruct (zlen l <? count) eqn:H1; [reflexivity|lia].
Qed.

Lemma others_occ0 : forall v l, occ v l = O -> others v l = l.
Proof.
  induction l as [|x l IH]; intros H.
  - reflexivity.
  - cbn [occ] in H. unfold others in *. cbn [filter].
    destruct (bytes_eqb x v) eqn:E; [discriminate|].
    cbn [negb]. f_equal. apply IH. exact H.
Qed.

(** remove_first n v removes exactly the first min(n, occ) occurrences of v *)
Lemma remove_first_all : forall v l n, (occ v l <= n)%nat -> remove_first n v l = others v l.
Proof.
  induction l as [|x l IH]; intros n H.
  - reflexivity.
  - destruct n as [|n].
    + cbn [remove_first]. symmetry. apply others_occ0. lia.
    + cbn [remove_first occ] in *. unfold others in *. cbn [filter].
      destruct (bytes_eqb x v) eqn:E; cbn [negb].
      * apply IH. lia.
      * f_equal. apply IH. exact H.
Qed.

Lemma remove_first_0 : forall v l, remove_first 0 v l = l.
Proof. intros v [|x l]; reflexivity. Qed.

Lemma remove_first_occ : forall n v l, occ v (remove_first n v l) = (occ v l - n)%nat.
Proof.
  intros n v l. revert n. induction l as [|x l IH]; intros n.
  - reflexivity.
  - destruct n as [|n].
    + rewrite remove_first_0. lia.
    + cbn [remove_first]. destruct (bytes_eqb x v) eqn:E.
      * rewrite IH. cbn [occ]. rewrite E. lia.
      * cbn [occ]. rewrite E. apply IH.
Qed.

Lemma remove_first_others : forall n v l, others v (remove_first n v l) = others v l.
Proof.
  intros n v l. revert n. induction l as [|x l IH]; intros n.
  - reflexivity.
  - destruct n as [|n].
    + rewrite remove_first_0. reflexivity.
    + cbn [remove_first]. unfold others in *. destruct (bytes_eqb x v) eqn:E.
      * rewrite IH. cbn [filter]. rewrite E. reflexivity.
      * cbn [filter]. rewrite E. cbn [negb]. f_equal. apply IH.
Qed.

Lemma remove_first_prefix : forall n v a b, (n <= occ v a)%nat ->
  remove_first n v (a ++ b) = remove_first n v a ++ b.
Proof.
  intros n v a b. revert n. induction a as [|x a IH]; intros n H.
  - cbn [occ] in H. assert (n = O) by lia. subst n.
    cbn [app]. rewrite remove_first_0. reflexivity.
  - destruct n as [|n].
    + rewrite !remove_first_0. reflexivity.
    + cbn [app remove_first]. cbn [occ] in H. destruct (bytes_eqb x v) eqn:E.
      * apply IH. lia.
      * cbn [app]. f_equal. apply IH. exact H.
Qed.

(** Redis LREM on a list: count > 0 from the head, count < 0 from the tail,
    count = 0 all occurrences; the result is the number removed *)
Definition lrem_spec (l : list bytes) (count : Z) (v : bytes) : list bytes * Z :=
  let o := Z.of_nat (occ v l) in
  if count =? 0 then (others v l, o)
  else if 0 <? count then (remove_first (Z.to_nat count) v l, Z.min count o)
  else (rev (remove_first (Z.to_nat (- count)) v (rev l)), Z.min (- count) o).

Lemma occ_app : forall v a b, occ v (a ++ b) = (occ v a + occ v b)%nat.
Proof.
  induction a as [|x a IH]; intros b.
  - reflexivity.
  - cbn [app occ]. rewrite IH. destruct (bytes_eqb x v); reflexivity.
Qed.

Lemma occ_rev : forall v l, occ v (rev l) = occ v l.
Proof.
  induction l as [|x l IH].
  - reflexivity.
  - cbn [rev]. rewrite occ_app, IH. cbn [occ]. destruct (bytes_eqb x v); lia.
Qed.

Lemma remove_first_occ0 : forall n v l, occ v l = O -> remove_first n v l = l.
Proof.
  intros n v l H. rewrite remove_first_all by lia. apply others_occ0. exact H.
Qed.

Lemma lrem_list_spec : forall l count v, - zlen l <= count <= zlen l ->
  lrem_list l count v = (fst (lrem_spec l count v), LOk (snd (lrem_spec l count v))).
Proof.
  intros l count v H. unfold lrem_list.
  destruct (count <? - zlen l) eqn:H0; [lia|].
  rewrite lremnum_list_spec by exact H.
  unfold lrem_spec.
  set (o := occ v l).
  assert (Ho : o = occ v l) by reflexivity. clearbody o.
  destruct (count =? 0) eqn:Hc.
  - cbn [fst snd].
    destruct (Z.of_nat o =? 0) eqn:Hz.
    + rewrite others_occ0 by lia. do 2 f_equal. lia.
    + destruct (0 <? Z.of_nat o) eqn:Hp; [|lia].
      rewrite Nat2Z.id. rewrite remove_first_all by lia. reflexivity.
  - destruct (0 <? count) eqn:Hp; cbn [fst snd].
    + replace (Z.abs count) with count by lia.
      destruct (Z.min count (Z.of_nat o) =? 0) eqn:Hz.
      * rewrite remove_first_occ0 by lia. do 2 f_equal. lia.
      * reflexivity.
    + replace (Z.abs count) with (- count) by lia.
      destruct (Z.min (- count) (Z.of_nat o) =? 0) eqn:Hz.
      * rewrite remove_first_occ0 by (rewrite occ_rev; lia).
        rewrite rev_involutive. do 2 f_equal. lia.
      * reflexivity.
Qed.

(** counts below -size mean "every match from the tail" (fix 27699f1) *)
Lemma lrem_list_clamp : forall l count v, count < - zlen l ->
  lrem_list l count v = lrem_list l (- zlen l) v.
Proof.
  intros l count v H. unfold lrem_list.
  destruct (count <? - zlen l) eqn:H1; [|lia].
  destruct (- zlen l <? - zlen l) eqn:H2; [lia|].
  reflexivity.
Qed.

(** ---- push / pop / set ---- *)
Lemma bytes_eqb_refl : forall a, bytes_eqb a a = true.
Proof. intros a. apply bytes_eqb_eq. reflexivity. Qed.

Lemma bytes_eqb_neq : forall a b, a <> b -> bytes_eqb a b = false.
Proof.
  intros a b H. destruct (bytes_eqb a b) eqn:E; [|reflexivity].
  apply bytes_eqb_eq in E. contradiction.
Qed.

Lemma alookup_aset_same : forall {V} (m : list (bytes * V)) k v, alookup (aset m k v) k = Some v.
Proof.
  intros V m k v. induction m as [|[k1 v1] m IH].
  - cbn [aset alookup]. rewrite bytes_eqb_refl. reflexivity.
  - cbn [aset]. destruct (bytes_eqb k1 k) eqn:E.
    + cbn [alookup]. rewrite bytes_eqb_refl. reflexivity.
    + cbn [alookup]. rewrite E. exact IH.
Qed.

Lemma alookup_aset_other : forall {V} (m : list (bytes * V)) k k' v, k <> k' -> alookup (aset m k v) k' = alookup m k'.
Proof.
  intros V m k k' v H. induction m as [|[k1 v1] m IH].
  - cbn [aset alookup]. rewrite bytes_eqb_neq by exact H. reflexivity.
  - cbn [aset]. destruct (bytes_eqb k1 k) eqn:E.
    + apply bytes_eqb_eq in E. subst k1.
      cbn [alookup]. rewrite bytes_eqb_neq by exact H. reflexivity.
    + cbn [alookup]. destruct (bytes_eqb k1 k'); [reflexivity|exact IH].
Qed.

Lemma aset_aset : forall {V} (m : list (bytes * V)) k a b, aset (aset m k a) k b = aset m k b.
Proof.
  intros V m k a b. induction m as [|[k1 v1] m IH].
  - cbn [aset]. rewrite bytes_eqb_refl. reflexivity.
  - cbn [aset]. destruct (bytes_eqb k1 k) eqn:E.
    + cbn [aset]. rewrite bytes_eqb_refl. reflexivity.
    + cbn [aset]. rewrite E. f_equal. exact IH.
Qed.

(** one record per pushed value (Tx.push) gives the same list as one call *)
Lemma rpush_one_by_one : forall vs m k, vs <> [] ->
  fold_left (fun m v => l_rpush m k [v]) vs m = l_rpush m k vs.
Proof.
  induction vs as [|v vs IH]; intros m k H.
  - congruence.
  - cbn [fold_left]. destruct vs as [|w vs].
    + reflexivity.
    + rewrite IH by discriminate.
      unfold l_rpush. rewrite alookup_aset_same, aset_aset.
      f_equal. destruct (alookup m k) as [l|].
      * rewrite <- app_assoc. reflexivity.
      * reflexivity.
Qed.

Lemma lpush_one_by_one : forall vs m k, vs <> [] ->
  fold_left (fun m v => l_lpush m k [v]) vs m = l_lpush m k vs.
Proof.
  induction vs as [|v vs IH]; intros m k H.
  - congruence.
  - cbn [fold_left]. destruct vs as [|w vs].
    + reflexivity.
    + rewrite IH by discriminate.
      unfold l_lpush. rewrite alookup_aset_same, aset_aset.
      f_equal. cbn [rev app]. rewrite <- !app_assoc. reflexivity.
Qed.

Lemma lpop_spec : forall m k x r, alookup m k = Some (x :: r) ->
  l_lpop m k = (aset m k r, LOk x) /\ l_lpeek m k = LOk x.
Proof.
  intros m k x r H. unfold l_lpop, l_lpeek. rewrite H. split; reflexivity.
Qed.

Lemma rpop_spec : forall m k r x, alookup m k = Some (r ++ [x]) ->
  l_rpop m k = (aset m k r, LOk x) /\ l_rpeek m k = LOk x.
Proof.
  intros m k r x H. unfold l_rpop, l_rpeek. rewrite H.
  rewrite rev_app_distr. cbn [rev app]. rewrite rev_involutive. split; reflexivity.
Qed.

Lemma set_nth_spec : forall l i v, (i < length l)%nat ->
  length (set_nth l i v) = length l /\
  nth_error (set_nth l i v) i = Some v /\
  forall j, j <> i -> nth_error (set_nth l i v) j = nth_error l j.
Proof.
  induction l as [|x l IH]; intros i v H.
  - cbn [length] in H. lia.
  - destruct i as [|i].
    + cbn [set_nth length nth_error]. split; [reflexivity|]. split; [reflexivity|].
      intros [|j] Hj; [congruence|reflexivity].
    + cbn [length] in H. destruct (IH i v ltac:(lia)) as [H1 [H2 H3]].
      cbn [set_nth length nth_error]. split; [lia|]. split; [exact H2|].
      intros [|j] Hj; [reflexivity|]. cbn [nth_error]. apply H3. congruence.
Qed.
