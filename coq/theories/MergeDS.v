(** MergeDS.v — Merge and the SET / SORTED-SET indexes (what MergeFacts.v
    proves for key/value data).  Lists are out of scope (finding F14).

    Part 1 (T1, and T3 in the running process)
    - [kept_record_noop]: re-applying a record that [pending_keep] keeps is the
      identity on the set / sorted-set indexes;
    - [merge_file_ds_unchanged], [merge_ds_unchanged]: Merge does not change
      [ix_set] nor [ix_zset] — PLAIN EQUALITY, for EVERY world (no invariant,
      no reachability), whatever flag Merge returns;
    - [merge_ds_reads_unchanged]: every read-only set / sorted-set call answers the same.

    Part 2 (T2 for sets; covers T3 for sets)
    - membership semantics of the log: [mem_step], [mem_run], [ismem_apply_ds],
      [ismem_replay_fold], [mem_run_cases] (the last applied record decides);
    - structure of the log around one step of Merge: [all_records_remove],
      [locs_split_min], [do_commit_ok], [merge_rewrite_spec], [merge_file_cases];
    - [merge_keep_sadd] (Merge keeps a committed SAdd record iff its member is
      in the set now), [mem_rewrite] (the list-level argument);
    - the invariant [DSInv]; [merge_file_dsinv] (one step of Merge on the lowest
      file), [merge_files_ind] / [do_merge_ind] (Merge always works on the lowest
      file of the log), [do_merge_dsinv], [step_dsinv], [reachable_dsinv];
    - [reopen_set_members]: a reopen rebuilds exactly the memberships, in every
      world reachable by calls, reopens and Merges;
    - [merge_reopen_set_members], [merge_reopen_set_keys] (T2), with the F30
      exception stated and witnessed by [merge_drops_empty_set_key].

    Part 3 (T2 for sorted sets)
    - the invariant [ZInv] (every sorted set well formed, every node has its
      committed ZAdd record in the log), [merge_file_zinv], [step_zinv], [reachable_zinv];
    - [clean_replay]: a log of rewritten records replays to the same sorted sets
      minus the empty ones; [merge_files_clean_all] (every record left after a
      successful Merge is clean), [merge_ok_new_active] (a successful Merge
      always ends on a new active file);
    - [merge_reopen_zsets] (T2): after a successful Merge and a reopen, every
      bucket with a node holds exactly the same nodes in the same order, every
      other bucket is gone (F30, [merge_drops_empty_zset_bucket]);
    - the hypothesis "Merge succeeded" is necessary:
      [merge_failed_rewrite_reopen_loses_zset_node] (T3 is FALSE for sorted
      sets after a reopen: a failed Merge loses a live node).  The former
      second hypothesis "Merge rewrote at least one record" is gone with the
      fix "Merge replaces an active segment that holds only dead records":
      [merge_reopen_no_longer_resurrects_zset_node] (the history on which a
      removed node came back after the reopen; it stays removed now).

    Part 4 (T3): the instances for a failed Merge. *)
From Coq Require Import Sorted Permutation.
From Verif Require Import Bytes BytesFacts Codec Dec DecFacts ListDS ListFacts SetDS ZSetDS Index Engine Spec TxFacts
  IndexFacts SetFacts ZSetFacts ReplayFacts KVRefine ApplyFacts Merge MergeFacts.
From Coq Require Import Lia ZifyN ZifyNat ZifyBool.
Open Scope N_scope.

(** ------------------------------------------------------------------ *)
(** * Part 1: the running process                                       *)
(** ------------------------------------------------------------------ *)

(** [apply_ds] reads the bucket, key, value, flag and structure of a record only *)
Lemma apply_ds_ext : forall strict ix e e',
  e_bucket e' = e_bucket e -> e_key e' = e_key e -> e_value e' = e_value e ->
  e_flag e' = e_flag e -> e_ds e' = e_ds e ->
  apply_ds strict ix e' = apply_ds strict ix e.
Proof.
  intros strict ix e e' Hb Hk Hv Hf Hd.
  unfold apply_ds, apply_set, apply_zset, apply_list. rewrite Hb, Hk, Hv, Hf, Hd. reflexivity.
Qed.

(** a record whose commit-time application leaves given set / sorted-set indexes alone *)
Definition ds_noop (S : list (bytes * smap)) (Z : list (bytes * zset)) (e : entry) : Prop :=
  forall ix, ix_set ix = S -> ix_zset ix = Z ->
    ix_set (apply_ds false ix e) = S /\ ix_zset (apply_ds false ix e) = Z.

Lemma z_setval_same : forall z k n, z_find z k = Some n -> z_setval z k (z_val n) = z.
Proof.
  induction z as [|m r IH]; intros k n H; [discriminate H|].
  cbn [z_find] in H. cbn [z_setval]. destruct (bytes_eqb (z_key m) k) eqn:E.
  - injection H as H. subst m. destruct n; reflexivity.
  - rewrite (IH k n H). reflexivity.
Qed.

(** re-putting the node a sorted set already holds is the identity *)
Lemma z_put_same : forall z k n, z_find z k = Some n -> z_put z k (z_score n) (z_val n) = z.
Proof.
  intros z k n H. unfold z_put. rewrite H. rewrite Z.eqb_refl. exact (z_setval_same z k n H).
Qed.

(** re-adding a member a set already holds is the identity *)
Lemma s_sadd_same : forall s k x, s_ismember s k x = true -> s_sadd s k [x] = s.
Proof.
  intros s k x H. unfold s_ismember in H. unfold s_sadd.
  destruct (alookup s k) as [l|] eqn:El; [|discriminate H].
  cbn [fold_left]. unfold sadd1. rewrite H. exact (MergeFacts.aset_same s k l El).
Qed.

(** LEMMA (replaying a kept set / sorted-set record into indexes that already
    contain it is the identity): a record that [pending_keep] keeps and that is
    not a removal record does not change the set and sorted-set indexes when
    it is applied again *)
Lemma kept_record_noop : forall now ix e,
  is_filter now e = false -> pending_keep ix e = true -> ds_noop (ix_set ix) (ix_zset ix) e.
Proof.
  intros now ix e Hf Hk ix' HS HZ. unfold pending_keep in Hk. unfold apply_ds.
  destruct (e_ds e =? DS_KV) eqn:Ekv.
  { apply N.eqb_eq in Ekv. rewrite Ekv. change (DS_KV =? DS_Set) with false. change (DS_KV =? DS_ZSet) with false.
    change (DS_KV =? DS_List) with false. cbv iota. split; assumption. }
  destruct (e_ds e =? DS_Set) eqn:Eset.
  { cbn [ix_set ix_zset]. split; [|exact HZ]. rewrite HS.
    destruct (alookup (ix_set ix) (e_bucket e)) as [s|] eqn:Es; [|discriminate Hk].
    unfold getdef. rewrite Es.
    assert (Ea : apply_set s e = s).
    { unfold apply_set. destruct (e_flag e =? F_Del) eqn:Ed.
      - exfalso. unfold is_filter in Hf. rewrite Ed in Hf. cbn [orb] in Hf. discriminate Hf.
      - destruct (e_flag e =? F_Set); [|reflexivity]. exact (s_sadd_same s (e_key e) (e_value e) Hk). }
    rewrite Ea. exact (MergeFacts.aset_same _ _ _ Es). }
  destruct (e_ds e =? DS_ZSet) eqn:Ez.
  { cbn [ix_set ix_zset]. split; [exact HS|]. rewrite HZ.
    destruct (split_all (e_key e)) as [|k [|sc [|x rest]]] eqn:Esp; try discriminate Hk.
    destruct (alookup (ix_zset ix) (e_bucket e)) as [z|] eqn:Ezs; [|discriminate Hk].
    destruct (z_find z k) as [n|] eqn:En; [|discriminate Hk].
    apply andb_true_iff in Hk. destruct Hk as [Hsc Hv].
    apply Z.eqb_eq in Hsc. apply bytes_eqb_eq in Hv.
    unfold getdef. rewrite Ezs.
    assert (Ea : apply_zset false z e = z).
    { unfold apply_zset. rewrite Esp. cbn [andb].
      unfold is_filter in Hf. repeat (apply orb_false_iff in Hf; destruct Hf as [Hf ?]).
      destruct (e_flag e =? F_ZAdd).
      - rewrite <- Hsc, <- Hv. exact (z_put_same z k n En).
      - repeat match goal with H : (e_flag e =? _) = false |- _ => rewrite H; clear H end. reflexivity. }
    rewrite Ea. exact (MergeFacts.aset_same _ _ _ Ezs). }
  destruct (e_ds e =? DS_List); cbn [ix_set ix_zset]; split; assumption.
Qed.

Lemma fold_ds_noop : forall S Z (ws : list (N * N * entry)) ix,
  ix_set ix = S -> ix_zset ix = Z -> (forall r, In r ws -> ds_noop S Z (snd r)) ->
  ix_set (fold_left (fun ix r => apply_ds false ix (snd r)) ws ix) = S /\
  ix_zset (fold_left (fun ix r => apply_ds false ix (snd r)) ws ix) = Z.
Proof.
  intros S Z ws. induction ws as [|r t IH]; intros ix HS HZ H; [split; assumption|].
  cbn [fold_left]. destruct (H r (or_introl eq_refl) ix HS HZ) as [A B].
  apply IH; [exact A|exact B|]. intros r' Hr'. apply H. right. exact Hr'.
Qed.

Lemma ds_noop_with_status : forall S Z e st, ds_noop S Z e -> ds_noop S Z (with_status e st).
Proof.
  intros S Z e st H ix HS HZ. rewrite (apply_ds_ext false ix e (with_status e st)); try reflexivity.
  exact (H ix HS HZ).
Qed.

(** a transaction of no-op records leaves the set and sorted-set indexes alone,
    whether it commits or is rejected *)
Lemma do_commit_ds_noop : forall w t,
  Forall (ds_noop (ix_set (w_ix w)) (ix_zset (w_ix w))) (tx_pend t) ->
  ix_set (w_ix (fst (do_commit None w t))) = ix_set (w_ix w) /\
  ix_zset (w_ix (fst (do_commit None w t))) = ix_zset (w_ix w).
Proof.
  intros w t H. unfold do_commit. destruct (tx_pend t) as [|e0 rest] eqn:Ep; [split; reflexivity|].
  destruct (existsb _ (e0 :: rest)); [split; reflexivity|].
  destruct (commit_loop (o_seg (w_opts w)) true (mkC (w_disk w) (w_maxfid w) (w_woff w) (w_asize w)) (e0 :: rest))
    as [st written] eqn:EL.
  cbn [fst set_disk w_ix]. rewrite commit_index_eq.
  apply fold_ds_noop; [reflexivity|reflexivity|].
  intros r Hr. destruct (commit_loop_written _ _ _ _ _ _ r EL Hr) as [e [He Hs]].
  rewrite Forall_forall in H. specialize (H e He).
  destruct Hs as [Hs|Hs]; rewrite Hs; [exact H|apply ds_noop_with_status; exact H].
Qed.

Lemma merge_keep_pending : forall now w fid pos e,
  merge_keep now w fid pos e = true -> is_filter now e = false /\ pending_keep (w_ix w) e = true.
Proof.
  intros now w fid pos e H. unfold merge_keep in H.
  destruct (is_filter now e); [discriminate H|]. split; [reflexivity|].
  destruct (negb (nmem (e_txid e) (w_committed w))); [discriminate H|].
  match type of H with (if ?c then _ else _) = _ => destruct c end; [discriminate H|exact H].
Qed.

Lemma merge_pend_noop : forall now w fid txid seg,
  Forall (ds_noop (ix_set (w_ix w)) (ix_zset (w_ix w))) (merge_pend now w fid txid seg).
Proof.
  intros now w fid txid seg. apply Forall_forall. intros e He. unfold merge_pend in He.
  apply in_map_iff in He. destruct He as [[pos e0] [E Hin]]. apply filter_In in Hin. destruct Hin as [_ Hk].
  cbn [fst snd] in Hk. destruct (merge_keep_pending now w fid pos e0 Hk) as [Hf Hp].
  intros ix HS HZ. subst e. rewrite (apply_ds_ext false ix e0 (rewrite_entry txid (pos, e0))); try reflexivity.
  exact (kept_record_noop now (w_ix w) e0 Hf Hp ix HS HZ).
Qed.

(** one step of Merge (success or failure) *)
Theorem merge_file_ds_unchanged : forall now w fid txid,
  ix_set (w_ix (fst (merge_file now w fid txid))) = ix_set (w_ix w) /\
  ix_zset (w_ix (fst (merge_file now w fid txid))) = ix_zset (w_ix w).
Proof.
  intros now w fid txid. rewrite merge_file_eq.
  destruct (disk_get (w_disk w) fid) as [seg|]; [|split; reflexivity].
  pose proof (merge_pend_noop now w fid txid seg) as Hno.
  destruct (merge_pend now w fid txid seg) as [|e0 rest].
  - cbn [fst]. destruct (fid =? w_maxfid w); split; reflexivity.
  - cbv beta iota zeta.
    pose proof (do_commit_ds_noop (new_file w) (mkTx txid true (e0 :: rest)) Hno) as H.
    destruct (do_commit None (new_file w) (mkTx txid true (e0 :: rest))) as [w2 ok]. cbn [fst snd] in *.
    destruct ok; cbn [fst]; [exact H|split; reflexivity].
Qed.

Lemma merge_files_ds_unchanged : forall fids now w txid,
  ix_set (w_ix (fst (merge_files now w fids txid))) = ix_set (w_ix w) /\
  ix_zset (w_ix (fst (merge_files now w fids txid))) = ix_zset (w_ix w).
Proof.
  induction fids as [|f r IH]; intros now w txid; [split; reflexivity|].
  cbn [merge_files]. destruct (merge_file_ds_unchanged now w f txid) as [A B].
  destruct (merge_file now w f txid) as [w1 ok]. cbn [fst] in A, B.
  destruct ok; [|cbn [fst]; split; assumption].
  destruct (IH now w1 (txid + 1)) as [C D]. rewrite C, D. split; assumption.
Qed.

(** (T1) + (T3, in process): in the running process Merge does not change the
    set and sorted-set indexes.  No hypothesis on the world: it need not be
    reachable, and the flag returned by Merge (a rewrite transaction may have
    been rejected) is irrelevant. *)
Theorem merge_ds_unchanged : forall now w txid0,
  ix_set (w_ix (fst (do_merge now w txid0))) = ix_set (w_ix w) /\
  ix_zset (w_ix (fst (do_merge now w txid0))) = ix_zset (w_ix w).
Proof.
  intros now w txid0. unfold do_merge. destruct (w_closed w); [split; reflexivity|].
  destruct (disk_fids (w_disk w)) as [|a [|b l]]; [split; reflexivity|split; reflexivity|].
  apply merge_files_ds_unchanged.
Qed.

(** every read-only set / sorted-set call returns after Merge what it returned before *)
Corollary merge_ds_reads_unchanged : forall now w txid0 o,
  match o with
  | OSAreMembers _ _ _ | OSIsMember _ _ _ | OSMembers _ _ | OSHasKey _ _ | OSCard _ _
  | OSDiff1 _ _ _ | OSDiff2 _ _ _ _ | OSUnion1 _ _ _ | OSUnion2 _ _ _ _
  | OZMembers _ | OZCard _ | OZCount _ _ _ _ _ _ | OZPeekMax _ | OZPeekMin _
  | OZRangeByScore _ _ _ _ _ _ | OZRangeByRank _ _ _ | OZRank _ _ | OZRevRank _ _
  | OZScore _ _ | OZGetByKey _ _ => True
  | _ => False
  end ->
  ds_read (w_ix (fst (do_merge now w txid0))) o = ds_read (w_ix w) o.
Proof.
  intros now w txid0 o Ho. destruct (merge_ds_unchanged now w txid0) as [A B].
  destruct o; try destruct Ho; cbn [ds_read]; rewrite ?A, ?B; reflexivity.
Qed.

(** ------------------------------------------------------------------ *)
(** * Part 2: Merge followed by a reopen — sets                          *)
(** ------------------------------------------------------------------ *)

(** ** 2.1 membership semantics of the log *)

(** is [x] a member of set [k] of bucket [b] *)
Definition ismem (S : list (bytes * smap)) (b k x : bytes) : bool :=
  match alookup S b with Some s => s_ismember s k x | None => false end.

(** the record speaks about member [x] of set [k] of bucket [b] *)
Definition smatch (b k x : bytes) (e : entry) : bool :=
  (e_ds e =? DS_Set) && bytes_eqb (e_bucket e) b && bytes_eqb (e_key e) k && bytes_eqb (e_value e) x.

(** effect of one applied record on that membership (SRem of the empty item is refused by Set.SRem) *)
Definition mem_step (b k x : bytes) (m : bool) (e : entry) : bool :=
  if smatch b k x e then
    if e_flag e =? F_Del then match x with [] => m | _ => false end
    else if e_flag e =? F_Set then true else m
  else m.

Lemma bmem_sadd1 : forall l y x, bmem x (sadd1 l y) = bytes_eqb y x || bmem x l.
Proof.
  intros l y x. unfold sadd1. destruct (bmem y l) eqn:E.
  - destruct (bytes_eqb y x) eqn:Exy; [|reflexivity]. apply bytes_eqb_eq in Exy. subst y. exact E.
  - induction l as [|z r IH]; cbn [app bmem].
    + rewrite orb_false_r. reflexivity.
    + cbn [bmem] in E. apply orb_false_iff in E. destruct E as [_ E]. rewrite (IH E).
      destruct (bytes_eqb z x); destruct (bytes_eqb y x); reflexivity.
Qed.

Lemma bmem_bremove : forall l y x, bmem x (bremove y l) = negb (bytes_eqb y x) && bmem x l.
Proof.
  intros l y x. induction l as [|z r IH]; cbn [bremove bmem].
  - rewrite andb_false_r. reflexivity.
  - destruct (bytes_eqb z y) eqn:Ezy.
    + apply bytes_eqb_eq in Ezy. subst z. rewrite IH. destruct (bytes_eqb y x); reflexivity.
    + cbn [bmem]. rewrite IH. destruct (bytes_eqb z x) eqn:Ezx; [|reflexivity].
      apply bytes_eqb_eq in Ezx. subst z. destruct (bytes_eqb y x) eqn:Eyx; [|reflexivity].
      apply bytes_eqb_eq in Eyx. subst y. rewrite SetFacts.bytes_eqb_refl in Ezy. discriminate Ezy.
Qed.

Lemma s_ismember_aset : forall (s : smap) k' l k x,
  s_ismember (aset s k' l) k x = if bytes_eqb k' k then bmem x l else s_ismember s k x.
Proof. intros s k' l k x. unfold s_ismember. rewrite alookup_aset. destruct (bytes_eqb k' k); reflexivity. Qed.

Lemma s_ismember_apply_set : forall s e k x,
  s_ismember (apply_set s e) k x =
  if bytes_eqb (e_key e) k && bytes_eqb (e_value e) x then
    if e_flag e =? F_Del then match x with [] => s_ismember s k x | _ => false end
    else if e_flag e =? F_Set then true else s_ismember s k x
  else s_ismember s k x.
Proof.
  intros s e k x. unfold apply_set. destruct (e_flag e =? F_Del) eqn:Ed.
  - unfold s_srem. destruct (alookup s (e_key e)) as [l|] eqn:El.
    + destruct (e_value e) as [|v0 vr] eqn:Ev.
      * cbn [fst]. destruct (bytes_eqb (e_key e) k && bytes_eqb [] x) eqn:E; [|reflexivity].
        apply andb_true_iff in E. destruct E as [_ E]. apply bytes_eqb_eq in E. subst x. reflexivity.
      * cbn [fst fold_left]. rewrite s_ismember_aset. destruct (bytes_eqb (e_key e) k) eqn:Ek; cbn [andb]; [|reflexivity].
        apply bytes_eqb_eq in Ek. subst k. rewrite bmem_bremove. unfold s_ismember. rewrite El.
        destruct (bytes_eqb (v0 :: vr) x) eqn:Ex; cbn [negb andb]; [|reflexivity].
        apply bytes_eqb_eq in Ex. subst x. reflexivity.
    + cbn [fst]. destruct (bytes_eqb (e_key e) k && bytes_eqb (e_value e) x) eqn:E; [|reflexivity].
      apply andb_true_iff in E. destruct E as [E _]. apply bytes_eqb_eq in E. subst k.
      unfold s_ismember. rewrite El. destruct x; reflexivity.
  - destruct (e_flag e =? F_Set) eqn:Es.
    + unfold s_sadd. cbn [fold_left]. rewrite s_ismember_aset.
      destruct (bytes_eqb (e_key e) k) eqn:Ek; cbn [andb]; [|reflexivity].
      apply bytes_eqb_eq in Ek. subst k. rewrite bmem_sadd1. unfold s_ismember.
      destruct (bytes_eqb (e_value e) x); cbn [orb]; [reflexivity|].
      destruct (alookup s (e_key e)); reflexivity.
    + destruct (bytes_eqb (e_key e) k && bytes_eqb (e_value e) x); reflexivity.
Qed.

Lemma ismem_getdef : forall S b k x, ismem S b k x = s_ismember (getdef S b []) k x.
Proof. intros S b k x. unfold ismem, getdef. destruct (alookup S b); reflexivity. Qed.

(** applying a record (commit-time or open-time) acts on every membership as [mem_step] *)
Lemma ismem_apply_ds : forall strict ix e b k x,
  ismem (ix_set (apply_ds strict ix e)) b k x = mem_step b k x (ismem (ix_set ix) b k x) e.
Proof.
  intros strict ix e b k x. unfold apply_ds, mem_step, smatch.
  destruct (e_ds e =? DS_Set) eqn:Eset; cbn [andb].
  - cbn [ix_set]. unfold ismem at 1. rewrite alookup_aset.
    destruct (bytes_eqb (e_bucket e) b) eqn:Eb; cbn [andb].
    + apply bytes_eqb_eq in Eb. subst b. rewrite s_ismember_apply_set, <- ismem_getdef. reflexivity.
    + reflexivity.
  - destruct (e_ds e =? DS_ZSet); [reflexivity|]. destruct (e_ds e =? DS_List); reflexivity.
Qed.

(** replay of the membership of (b, k, x) over a list of located records *)
Definition mem_run (comm : list N) (b k x : bytes) (m : bool) (rs : list (N * N * entry)) : bool :=
  fold_left (fun m r => if nmem (e_txid (snd r)) comm then mem_step b k x m (snd r) else m) rs m.

Lemma mem_run_app : forall comm b k x m a c,
  mem_run comm b k x m (a ++ c) = mem_run comm b k x (mem_run comm b k x m a) c.
Proof. intros. unfold mem_run. apply fold_left_app. Qed.

Lemma ismem_replay1 : forall comm ix r b k x,
  ismem (ix_set (replay1 comm ix r)) b k x =
  if nmem (e_txid (snd r)) comm then mem_step b k x (ismem (ix_set ix) b k x) (snd r) else ismem (ix_set ix) b k x.
Proof.
  intros comm ix [[f p] e] b k x. cbn [snd]. unfold replay1. destruct (nmem (e_txid e) comm); [|reflexivity].
  destruct (e_ds e =? DS_KV) eqn:Ekv; [|apply ismem_apply_ds].
  cbn [ix_set]. apply N.eqb_eq in Ekv. unfold mem_step, smatch. rewrite Ekv. reflexivity.
Qed.

Lemma ismem_replay_fold : forall comm rs ix b k x,
  ismem (ix_set (fold_left (replay1 comm) rs ix)) b k x = mem_run comm b k x (ismem (ix_set ix) b k x) rs.
Proof.
  intros comm rs. induction rs as [|r t IH]; intros ix b k x; [reflexivity|].
  cbn [fold_left]. rewrite IH, ismem_replay1. reflexivity.
Qed.

Lemma ix_set_commit_index : forall ix ws,
  ix_set (commit_index ix ws) = ix_set (fold_left (fun ix r => apply_ds false ix (snd r)) ws ix).
Proof.
  intros ix ws. rewrite commit_index_eq.
  assert (G : forall ws a c, ix_set a = ix_set c ->
            ix_set (fold_left (fun ix r => apply_ds false ix (snd r)) ws a) =
            ix_set (fold_left (fun ix (r : N * N * entry) => apply_ds false ix (snd r)) ws c)).
  { clear. induction ws as [|r t IH]; intros a c H; [exact H|]. cbn [fold_left]. apply IH.
    unfold apply_ds. destruct (e_ds (snd r) =? DS_Set); [cbn [ix_set]; rewrite H; reflexivity|].
    destruct (e_ds (snd r) =? DS_ZSet); [exact H|]. destruct (e_ds (snd r) =? DS_List); exact H. }
  apply G. reflexivity.
Qed.

Lemma ismem_commit_index : forall comm ws ix b k x,
  (forall r, In r ws -> nmem (e_txid (snd r)) comm = true) ->
  ismem (ix_set (commit_index ix ws)) b k x = mem_run comm b k x (ismem (ix_set ix) b k x) ws.
Proof.
  intros comm ws ix b k x H. rewrite ix_set_commit_index. revert ix H.
  induction ws as [|r t IH]; intros ix H; [reflexivity|].
  cbn [fold_left]. unfold mem_run. cbn [fold_left]. rewrite (H r (or_introl eq_refl)).
  fold (mem_run comm b k x (mem_step b k x (ismem (ix_set ix) b k x) (snd r)) t).
  rewrite <- ismem_apply_ds with (strict := false). apply IH. intros r' Hr'. apply H. right. exact Hr'.
Qed.

(** the last applied record that speaks about (b, k, x) decides; when there is none the initial value stays *)
Lemma mem_run_cases : forall comm b k x rs,
  (forall m, mem_run comm b k x m rs = mem_run comm b k x false rs) \/ (forall m, mem_run comm b k x m rs = m).
Proof.
  intros comm b k x rs. induction rs as [|r t IH]; [right; reflexivity|].
  destruct IH as [IH|IH].
  - left. intros m. unfold mem_run. cbn [fold_left].
    fold (mem_run comm b k x (if nmem (e_txid (snd r)) comm then mem_step b k x m (snd r) else m) t).
    fold (mem_run comm b k x (if nmem (e_txid (snd r)) comm then mem_step b k x false (snd r) else false) t).
    rewrite IH. symmetry. apply IH.
  - assert (Hs : (forall m, (if nmem (e_txid (snd r)) comm then mem_step b k x m (snd r) else m) =
                            (if nmem (e_txid (snd r)) comm then mem_step b k x false (snd r) else false)) \/
                 (forall m, (if nmem (e_txid (snd r)) comm then mem_step b k x m (snd r) else m) = m)).
    { destruct (nmem (e_txid (snd r)) comm); [|right; reflexivity]. unfold mem_step.
      destruct (smatch b k x (snd r)); [|right; reflexivity].
      destruct (e_flag (snd r) =? F_Del); [destruct x; [right|left]; reflexivity|].
      destruct (e_flag (snd r) =? F_Set); [left|right]; reflexivity. }
    destruct Hs as [Hs|Hs].
    + left. intros m. unfold mem_run. cbn [fold_left].
      fold (mem_run comm b k x (if nmem (e_txid (snd r)) comm then mem_step b k x m (snd r) else m) t).
      fold (mem_run comm b k x (if nmem (e_txid (snd r)) comm then mem_step b k x false (snd r) else false) t).
      rewrite !IH. apply Hs.
    + right. intros m. unfold mem_run. cbn [fold_left].
      fold (mem_run comm b k x (if nmem (e_txid (snd r)) comm then mem_step b k x m (snd r) else m) t).
      rewrite IH. apply Hs.
Qed.

(** a membership that ends true was set by an applied SAdd record *)
Lemma mem_run_true_inv : forall comm b k x rs m,
  mem_run comm b k x m rs = true ->
  m = true \/ exists r, In r rs /\ nmem (e_txid (snd r)) comm = true /\ smatch b k x (snd r) = true /\ e_flag (snd r) = F_Set.
Proof.
  intros comm b k x rs. induction rs as [|r t IH]; intros m H; [left; exact H|].
  unfold mem_run in H. cbn [fold_left] in H.
  fold (mem_run comm b k x (if nmem (e_txid (snd r)) comm then mem_step b k x m (snd r) else m) t) in H.
  destruct (IH _ H) as [Hm|[r' [Hin Hr']]].
  - destruct (nmem (e_txid (snd r)) comm) eqn:Ec; [|left; exact Hm].
    unfold mem_step in Hm. destruct (smatch b k x (snd r)) eqn:Esm; [|left; exact Hm].
    destruct (e_flag (snd r) =? F_Del) eqn:Ed.
    + destruct x; [left; exact Hm|discriminate Hm].
    + destruct (e_flag (snd r) =? F_Set) eqn:Es; [|left; exact Hm].
      right. exists r. split; [left; reflexivity|]. split; [exact Ec|]. split; [exact Esm|]. apply N.eqb_eq. exact Es.
  - right. exists r'. split; [right; exact Hin|exact Hr'].
Qed.

(** records that do not speak about (b, k, x) leave the membership alone *)
Lemma mem_run_no_match : forall comm b k x rs m,
  (forall r, In r rs -> nmem (e_txid (snd r)) comm = true -> smatch b k x (snd r) = false) ->
  mem_run comm b k x m rs = m.
Proof.
  intros comm b k x rs. induction rs as [|r t IH]; intros m H; [reflexivity|].
  unfold mem_run. cbn [fold_left].
  fold (mem_run comm b k x (if nmem (e_txid (snd r)) comm then mem_step b k x m (snd r) else m) t).
  rewrite IH by (intros r' Hr'; apply H; right; exact Hr').
  destruct (nmem (e_txid (snd r)) comm) eqn:Ec; [|reflexivity].
  unfold mem_step. rewrite (H r (or_introl eq_refl) Ec). reflexivity.
Qed.

(** without an applied SRem record a member stays a member *)
Lemma mem_run_no_del : forall comm b k x rs,
  (forall r, In r rs -> nmem (e_txid (snd r)) comm = true -> smatch b k x (snd r) = true -> e_flag (snd r) <> F_Del) ->
  mem_run comm b k x true rs = true.
Proof.
  intros comm b k x rs. induction rs as [|r t IH]; intros H; [reflexivity|].
  unfold mem_run. cbn [fold_left].
  assert (E : (if nmem (e_txid (snd r)) comm then mem_step b k x true (snd r) else true) = true).
  { destruct (nmem (e_txid (snd r)) comm) eqn:Ec; [|reflexivity]. unfold mem_step.
    destruct (smatch b k x (snd r)) eqn:Esm; [|reflexivity].
    pose proof (H r (or_introl eq_refl) Ec Esm) as Hd.
    destruct (e_flag (snd r) =? F_Del) eqn:Ed; [apply N.eqb_eq in Ed; contradiction|].
    destruct (e_flag (snd r) =? F_Set); reflexivity. }
  rewrite E. apply IH. intros r' Hr'. apply H. right. exact Hr'.
Qed.

(** ... and an applied SAdd record makes one *)
Lemma mem_run_set : forall comm b k x rs m,
  (forall r, In r rs -> nmem (e_txid (snd r)) comm = true -> smatch b k x (snd r) = true -> e_flag (snd r) <> F_Del) ->
  (exists r, In r rs /\ nmem (e_txid (snd r)) comm = true /\ smatch b k x (snd r) = true /\ e_flag (snd r) = F_Set) ->
  mem_run comm b k x m rs = true.
Proof.
  intros comm b k x rs. induction rs as [|r t IH]; intros m H [r0 [Hin Hr0]]; [destruct Hin|].
  unfold mem_run. cbn [fold_left].
  fold (mem_run comm b k x (if nmem (e_txid (snd r)) comm then mem_step b k x m (snd r) else m) t).
  destruct Hin as [Hin|Hin].
  - subst r0. destruct Hr0 as (Ec & Esm & Ef). rewrite Ec. unfold mem_step. rewrite Esm, Ef.
    change (F_Set =? F_Del) with false. change (F_Set =? F_Set) with true. cbv iota.
    apply mem_run_no_del. intros r' Hr'. apply H. right. exact Hr'.
  - apply IH; [intros r' Hr'; apply H; right; exact Hr'|]. exists r0. split; assumption.
Qed.

Lemma mem_run_comm_ext : forall c1 c2 b k x rs m,
  (forall r, In r rs -> nmem (e_txid (snd r)) c1 = nmem (e_txid (snd r)) c2) ->
  mem_run c1 b k x m rs = mem_run c2 b k x m rs.
Proof.
  intros c1 c2 b k x rs. induction rs as [|r t IH]; intros m H; [reflexivity|].
  unfold mem_run. cbn [fold_left]. rewrite (H r (or_introl eq_refl)).
  apply IH. intros r' Hr'. apply H. right. exact Hr'.
Qed.

(** ** 2.2 structure of the log around one step of Merge *)

Definition fid_of (r : N * N * entry) : N := fst (fst r).

Lemma seg_recs_fid : forall d g r, In r (seg_recs d g) -> fid_of r = g.
Proof.
  intros d g r H. unfold seg_recs in H. destruct (disk_get d g) as [s|]; [|destruct H].
  apply in_map_iff in H. destruct H as [pe [E _]]. subst r. reflexivity.
Qed.

(** removing a data file removes exactly its records from the log, in place *)
Lemma all_records_remove : forall d f,
  all_records (disk_remove d f) = filter (fun r => negb (fid_of r =? f)) (all_records d).
Proof.
  intros d f. rewrite !all_records_eq, map_fst_remove, <- filter_nsort.
  generalize (nsort (map fst d)) as L. induction L as [|g L IH]; [reflexivity|].
  cbn [filter flat_map]. rewrite filter_app, <- IH. destruct (g =? f) eqn:E; cbn [negb].
  - apply N.eqb_eq in E. subst g.
    rewrite (filter_all_false (fun r => negb (fid_of r =? f)) (seg_recs d f)); [reflexivity|].
    intros r Hr. rewrite (seg_recs_fid d f r Hr), N.eqb_refl. reflexivity.
  - cbn [flat_map]. f_equal. rewrite (filter_all_true (fun r => negb (fid_of r =? f)) (seg_recs d g)).
    + unfold seg_recs. rewrite disk_get_remove, E. reflexivity.
    + intros r Hr. rewrite (seg_recs_fid d g r Hr), E. reflexivity.
Qed.

Lemma locs_from_in : forall ws hf hp f p e, locs_from hf hp ws -> In (f, p, e) ws -> loc_le hf hp f p.
Proof.
  induction ws as [|[[g q] e0] t IH]; intros hf hp f p e H Hin; [destruct Hin|].
  cbn [locs_from] in H. destruct H as [Hle Ht]. destruct Hin as [Hin|Hin].
  - injection Hin as E1 E2 E3. subst g q e0. exact Hle.
  - pose proof (IH _ _ f p e Ht Hin) as H2. pose proof (entry_size_pos e0). locs.
Qed.

(** in a log sorted by location the records of the lowest file come first *)
Lemma locs_split_min : forall rs hf hp f,
  locs_from hf hp rs -> (forall r, In r rs -> f <= fid_of r) ->
  rs = filter (fun r => fid_of r =? f) rs ++ filter (fun r => negb (fid_of r =? f)) rs.
Proof.
  induction rs as [|[[g q] e0] t IH]; intros hf hp f H Hmin; [reflexivity|].
  cbn [locs_from] in H. destruct H as [Hle Ht]. cbn [filter]. change (fid_of (g, q, e0)) with g.
  destruct (g =? f) eqn:E; cbn [negb].
  - cbn [app]. f_equal. apply (IH g (q + entry_size e0) f Ht). intros r Hr. apply Hmin. right. exact Hr.
  - pose proof (Hmin (g, q, e0) (or_introl eq_refl)) as Hg. unfold fid_of in Hg. cbn [fst] in Hg.
    assert (Hall : forall r, In r t -> (fid_of r =? f) = false).
    { intros [[g2 q2] e2] Hr. pose proof (locs_from_in _ _ _ g2 q2 e2 Ht Hr) as H2.
      unfold fid_of. cbn [fst]. unfold loc_le in H2. lia. }
    rewrite filter_all_false by exact Hall. cbn [app]. f_equal. symmetry. apply filter_all_true.
    intros r Hr. rewrite (Hall r Hr). reflexivity.
Qed.

(** two records that differ at most in status and transaction id *)
Definition esim (e e' : entry) : Prop :=
  e_bucket e' = e_bucket e /\ e_key e' = e_key e /\ e_value e' = e_value e /\
  e_flag e' = e_flag e /\ e_ds e' = e_ds e /\ e_ttl e' = e_ttl e.

Lemma esim_refl : forall e, esim e e.
Proof. intros e. repeat split. Qed.

Lemma esim_trans : forall a b c, esim a b -> esim b c -> esim a c.
Proof.
  intros a b c (A1 & A2 & A3 & A4 & A5 & A6) (B1 & B2 & B3 & B4 & B5 & B6).
  repeat split; etransitivity; eassumption.
Qed.

Lemma esim_with_status : forall e st, esim e (with_status e st).
Proof. intros e st. repeat split. Qed.

Lemma esim_rewrite : forall txid pe, esim (snd pe) (rewrite_entry txid pe).
Proof. intros txid pe. repeat split. Qed.

Lemma smatch_esim : forall b k x e e', esim e e' -> smatch b k x e' = smatch b k x e.
Proof. intros b k x e e' (A1 & A2 & A3 & A4 & A5 & A6). unfold smatch. rewrite A1, A2, A3, A5. reflexivity. Qed.

(** what a successful Commit of a non-empty transaction does to the log, the
    committed ids and the indexes *)
Lemma do_commit_ok : forall w t w',
  MInv w -> do_commit None w t = (w', true) -> tx_pend t <> [] ->
  exists ws0 rl l,
    recs w' = recs w ++ ws0 ++ [rl] /\
    w_committed w' = tx_id t :: w_committed w /\
    w_ix w' = commit_index (w_ix w) (ws0 ++ [rl]) /\
    locs_from (w_maxfid w) (w_woff w) (ws0 ++ [rl]) /\
    tx_pend t = map (fun r => snd r) ws0 ++ [l] /\ snd rl = with_status l St_Committed /\
    w_opts w' = w_opts w /\ w_closed w' = w_closed w /\ w_tx w' = TxDone.
Proof.
  intros w t w' HM H Hne. unfold do_commit in H.
  destruct (tx_pend t) as [|e0 rest] eqn:Ep; [contradiction|].
  destruct (existsb _ (e0 :: rest)); [discriminate H|].
  destruct (commit_loop (o_seg (w_opts w)) true (mkC (w_disk w) (w_maxfid w) (w_woff w) (w_asize w)) (e0 :: rest))
    as [st written] eqn:EL.
  injection H as H. subst w'.
  destruct (commit_loop_records (e0 :: rest) (o_seg (w_opts w)) true
              (mkC (w_disk w) (w_maxfid w) (w_woff w) (w_asize w)) st written
              (mi_nodup w HM) (mi_max_in w HM) (mi_max w HM) EL) as (A & B & _).
  cbn [c_disk] in A. fold (recs w) in A.
  destruct (commit_loop_locs _ _ _ _ _ _ EL) as [Hlocs _]. cbn [c_maxfid c_woff] in Hlocs.
  destruct (exists_last (l := e0 :: rest)) as [init [l El]]; [discriminate|].
  rewrite El in B. rewrite marked_last in B.
  apply map_eq_app in B. destruct B as (ws0 & wl & Ew & B1 & B2).
  destruct wl as [|rl [|x y]]; try discriminate B2. cbn [map] in B2. injection B2 as B2.
  subst written. exists ws0, rl, l. unfold recs. cbn [set_disk w_disk w_committed w_ix w_opts w_closed w_tx].
  split; [exact A|]. split; [reflexivity|]. split; [reflexivity|]. split; [exact Hlocs|].
  split; [rewrite B1; exact El|]. split; [exact B2|]. split; [reflexivity|split; reflexivity].
Qed.

(** the records Commit writes are the pending ones, up to the commit marker *)
Lemma written_sound : forall (ws0 : list (N * N * entry)) rl l r,
  snd rl = with_status l St_Committed -> In r (ws0 ++ [rl]) ->
  exists e, In e (map (fun r => snd r) ws0 ++ [l]) /\ esim e (snd r) /\ e_txid (snd r) = e_txid e.
Proof.
  intros ws0 rl l r Hl Hin. apply in_app_or in Hin. destruct Hin as [Hin|[Hin|[]]].
  - exists (snd r). split; [apply in_or_app; left; apply in_map_iff; exists r; split; [reflexivity|exact Hin]|].
    split; [apply esim_refl|reflexivity].
  - subst r. exists l. split; [apply in_or_app; right; left; reflexivity|]. rewrite Hl.
    split; [apply esim_with_status|reflexivity].
Qed.

Lemma written_complete : forall (ws0 : list (N * N * entry)) rl l e,
  snd rl = with_status l St_Committed -> In e (map (fun r => snd r) ws0 ++ [l]) ->
  exists r, In r (ws0 ++ [rl]) /\ esim e (snd r).
Proof.
  intros ws0 rl l e Hl Hin. apply in_app_or in Hin. destruct Hin as [Hin|[Hin|[]]].
  - apply in_map_iff in Hin. destruct Hin as [r [E Hr]]. exists r. split; [apply in_or_app; left; exact Hr|].
    subst e. apply esim_refl.
  - subst e. exists rl. split; [apply in_or_app; right; left; reflexivity|]. rewrite Hl. apply esim_with_status.
Qed.

(** the record of file [f] at [r] is one Merge keeps *)
Definition kept (now : N) (w : world) (f : N) (r : N * N * entry) : Prop :=
  In r (recs w) /\ fid_of r = f /\ merge_keep now w f (snd (fst r)) (snd r) = true.

(** THE REWRITING STEP OF MERGE, abstractly: the old file leaves the log, the
    records written take its place at the END of the log; they carry the
    fresh id (committed, marker on the last one), lie in files above the old
    active file, and are — up to status and id — exactly the kept records *)
Lemma merge_rewrite_spec : forall now w f txid seg e0 rest w2 x,
  MInv w -> ~ In txid (ids_of (recs w)) ->
  disk_get (w_disk w) f = Some seg -> merge_pend now w f txid seg = e0 :: rest ->
  do_commit None (new_file w) (mkTx txid true (e0 :: rest)) = (w2, true) ->
  exists ws0 rl,
    recs (drop_file w2 f x) = filter (fun r => negb (fid_of r =? f)) (recs w) ++ ws0 ++ [rl] /\
    w_committed (drop_file w2 f x) = txid :: w_committed w /\
    e_status (snd rl) = St_Committed /\
    (forall r', In r' (ws0 ++ [rl]) -> e_txid (snd r') = txid /\ w_maxfid w < fid_of r' /\
                                       exists r, kept now w f r /\ esim (snd r) (snd r')) /\
    (forall r, kept now w f r -> exists r', In r' (ws0 ++ [rl]) /\ esim (snd r) (snd r')).
Proof.
  intros now w f txid seg e0 rest w2 x HM Hfresh Hseg Hpend Hc.
  destruct (new_file_minv w HM) as [HM1 Hrecs1].
  destruct (do_commit_ok (new_file w) (mkTx txid true (e0 :: rest)) w2 HM1 Hc) as
    (ws0 & rl & l & A & B & _ & Hlocs & El & Hl & _); [cbn [tx_pend]; discriminate|].
  cbn [tx_pend tx_id new_file w_committed w_maxfid w_woff] in *. rewrite Hrecs1 in A.
  exists ws0, rl.
  assert (Hfid : f <= w_maxfid w) by (apply (mi_max w HM); exact (disk_get_some_in _ _ _ Hseg)).
  assert (Hhigh : forall r', In r' (ws0 ++ [rl]) -> w_maxfid w < fid_of r').
  { intros [[g q] e] Hr. pose proof (locs_from_in _ _ _ g q e Hlocs Hr) as H2. unfold fid_of. cbn [fst].
    unfold loc_le in H2. lia. }
  assert (Hseg_in : forall p e, In (p, e) seg <-> In (f, p, e) (recs w)).
  { intros p e. unfold recs. rewrite in_all_records. split.
    - intros H. exists seg. split; assumption.
    - intros [s [Hs H]]. rewrite Hseg in Hs. injection Hs as Hs. subst s. exact H. }
  split; [|split; [|split; [|split]]].
  - unfold recs. cbn [drop_file w_disk]. rewrite all_records_remove. fold (recs w2). rewrite A, filter_app.
    f_equal. apply filter_all_true. intros r' Hr'. pose proof (Hhigh r' Hr') as H2.
    destruct (fid_of r' =? f) eqn:E; [lia|reflexivity].
  - cbn [drop_file w_committed]. exact B.
  - rewrite Hl. reflexivity.
  - intros r' Hr'. destruct (written_sound ws0 rl l r' Hl Hr') as (e & He & Hsim & Hid).
    rewrite <- El, <- Hpend in He. unfold merge_pend in He. apply in_map_iff in He.
    destruct He as [[p e1] [Ee Hin]]. apply filter_In in Hin. destruct Hin as [Hin Hk]. cbn [fst snd] in Hk.
    split; [rewrite Hid, <- Ee; reflexivity|]. split; [exact (Hhigh r' Hr')|].
    exists (f, p, e1). split.
    + split; [apply Hseg_in; exact Hin|]. split; [reflexivity|exact Hk].
    + cbn [snd]. subst e. eapply esim_trans; [|exact Hsim]. exact (esim_rewrite txid (p, e1)).
  - intros [[g p] e1] (Hin & Hg & Hk). unfold fid_of in Hg. cbn [fst snd] in Hg, Hk. subst g.
    apply Hseg_in in Hin.
    assert (He : In (rewrite_entry txid (p, e1)) (map (fun r => snd r) ws0 ++ [l])).
    { rewrite <- El, <- Hpend. unfold merge_pend. apply in_map_iff. exists (p, e1). split; [reflexivity|].
      apply filter_In. split; [exact Hin|exact Hk]. }
    destruct (written_complete ws0 rl l _ Hl He) as [r' [Hr' Hsim]]. exists r'. split; [exact Hr'|].
    cbn [snd]. eapply esim_trans; [|exact Hsim]. exact (esim_rewrite txid (p, e1)).
Qed.

(** ONE STEP OF MERGE, abstractly.  Either the log, the committed ids are
    unchanged (no such file / the rewrite transaction was rejected), or the
    file leaves the log and the rewritten records [W] (possibly none) are
    appended at its end.  When nothing is rewritten ([W = []]) and the file was
    the active one, a fresh (empty) active file [w_maxfid w + 1] replaces it
    (fix "Merge replaces an active segment that holds only dead records"). *)
Lemma merge_file_cases : forall now w f txid,
  MInv w -> ~ In txid (ids_of (recs w)) ->
  let w' := fst (merge_file now w f txid) in
  w_tx w' = w_tx w /\ ix_set (w_ix w') = ix_set (w_ix w) /\ ix_zset (w_ix w') = ix_zset (w_ix w) /\
  w_maxfid w <= w_maxfid w' /\
  ((recs w' = recs w /\ w_committed w' = w_committed w /\
    (snd (merge_file now w f txid) = true -> w' = w /\ disk_get (w_disk w) f = None)) \/
   (exists W,
      snd (merge_file now w f txid) = true /\
      recs w' = filter (fun r => negb (fid_of r =? f)) (recs w) ++ W /\
      ((W = [] /\ w_committed w' = w_committed w /\
        ((w_maxfid w' = w_maxfid w /\ f <> w_maxfid w) \/ (w_maxfid w' = w_maxfid w + 1 /\ f = w_maxfid w))) \/
       (exists ws0 rl, W = ws0 ++ [rl] /\ e_status (snd rl) = St_Committed /\
                       w_committed w' = txid :: w_committed w /\ w_maxfid w < w_maxfid w')) /\
      (forall r', In r' W -> e_txid (snd r') = txid /\ w_maxfid w < fid_of r' /\
                             exists r, kept now w f r /\ esim (snd r) (snd r')) /\
      (forall r, kept now w f r -> exists r', In r' W /\ esim (snd r) (snd r')))).
Proof.
  intros now w f txid HM Hfresh w'.
  pose proof (merge_file_tx now w f txid) as Htx.
  destruct (merge_file_ds_unchanged now w f txid) as [HS HZ].
  split; [exact Htx|]. split; [exact HS|]. split; [exact HZ|]. clear Htx HS HZ.
  unfold w'. clear w'. rewrite merge_file_eq.
  destruct (disk_get (w_disk w) f) as [seg|] eqn:Eseg.
  2:{ cbn [fst snd]. split; [lia|]. left. split; [reflexivity|]. split; [reflexivity|].
      intros _. split; reflexivity. }
  assert (Hfid : f <= w_maxfid w) by (apply (mi_max w HM); exact (disk_get_some_in _ _ _ Eseg)).
  destruct (merge_pend now w f txid seg) as [|e0 rest] eqn:Epend.
  - cbn [fst snd].
    assert (Hnokept : forall r, kept now w f r -> exists r', In r' (@nil (N * N * entry)) /\ esim (snd r) (snd r')).
    { intros [[g p] e1] (Hin & Hg & Hk). unfold fid_of in Hg. cbn [fst snd] in Hg, Hk. subst g. exfalso.
      unfold recs in Hin. apply in_all_records in Hin. destruct Hin as [s [Hs Hin]].
      rewrite Eseg in Hs. injection Hs as Hs. subst s.
      assert (He : In (rewrite_entry txid (p, e1)) (merge_pend now w f txid seg)).
      { unfold merge_pend. apply in_map_iff. exists (p, e1). split; [reflexivity|].
        apply filter_In. split; [exact Hin|exact Hk]. }
      rewrite Epend in He. destruct He. }
    destruct (f =? w_maxfid w) eqn:Ef.
    + (* the active file holds nothing live: a fresh active file replaces it *)
      destruct (new_file_minv w HM) as [_ Hrecs1].
      cbn [drop_file new_file w_maxfid]. split; [lia|]. right. exists []. split; [reflexivity|].
      split.
      { rewrite <- Hrecs1. unfold recs. cbn [drop_file w_disk]. rewrite all_records_remove, app_nil_r. reflexivity. }
      split; [left; split; [reflexivity|split; [reflexivity|right; split; [reflexivity|lia]]]|].
      split; [intros r' []|exact Hnokept].
    + cbn [drop_file w_maxfid]. split; [lia|]. right. exists []. split; [reflexivity|].
      split; [unfold recs; cbn [drop_file w_disk]; rewrite all_records_remove, app_nil_r; reflexivity|].
      split; [left; split; [reflexivity|split; [reflexivity|left; split; [reflexivity|lia]]]|].
      split; [intros r' []|exact Hnokept].
  - cbv beta iota zeta. destruct (new_file_minv w HM) as [HM1 Hrecs1].
    destruct (commit_minv (new_file w) (mkTx txid true (e0 :: rest)) HM1) as (_ & _ & Hmono).
    { cbn [tx_id]. rewrite Hrecs1. exact Hfresh. }
    { cbn [tx_id tx_pend]. rewrite <- Epend. apply Forall_forall. intros e He.
      exact (merge_pend_txid _ _ _ _ _ _ He). }
    cbn [new_file w_maxfid] in Hmono.
    destruct (do_commit None (new_file w) (mkTx txid true (e0 :: rest))) as [w2 ok] eqn:Ec.
    cbn [fst snd] in *. destruct ok; cbn [fst snd].
    + cbn [drop_file w_maxfid]. split; [lia|]. right.
      destruct (merge_rewrite_spec now w f txid seg e0 rest w2 (w_tx w) HM Hfresh Eseg Epend Ec)
        as (ws0 & rl & A & B & C & D & E).
      exists (ws0 ++ [rl]). split; [reflexivity|]. split; [exact A|].
      split; [|split; [exact D|exact E]].
      right. exists ws0, rl. split; [reflexivity|]. split; [exact C|]. split; [exact B|]. cbn [drop_file w_maxfid]. lia.
    + cbn [new_file w_maxfid]. split; [lia|]. left. split; [exact Hrecs1|]. split; [reflexivity|].
      intros H. discriminate H.
Qed.

(** ** 2.3 the invariant of reachable worlds (sets part) *)

(** every record of a committed transaction is followed (or is) the commit marker of that transaction *)
Fixpoint marked (comm : list N) (rs : list (N * N * entry)) : Prop :=
  match rs with
  | [] => True
  | r :: t =>
      (nmem (e_txid (snd r)) comm = true ->
       exists m, In m (r :: t) /\ e_txid (snd m) = e_txid (snd r) /\ e_status (snd m) = St_Committed) /\
      marked comm t
  end.

Lemma marked_app_r : forall comm a c, marked comm (a ++ c) -> marked comm c.
Proof. intros comm a c. induction a as [|r t IH]; intros H; [exact H|]. apply IH. exact (proj2 H). Qed.

Lemma marked_app : forall comm a c, marked comm a -> marked comm c -> marked comm (a ++ c).
Proof.
  intros comm a c. induction a as [|r t IH]; intros Ha Hc; [exact Hc|].
  cbn [app marked]. destruct Ha as [H1 H2]. split; [|exact (IH H2 Hc)].
  intros Hn. destruct (H1 Hn) as [m [Hin Hm]]. exists m. split; [|exact Hm].
  change (r :: t ++ c) with ((r :: t) ++ c). apply in_or_app. left. exact Hin.
Qed.

Lemma marked_comm_ext : forall c1 c2 rs,
  (forall r, In r rs -> nmem (e_txid (snd r)) c2 = nmem (e_txid (snd r)) c1) -> marked c1 rs -> marked c2 rs.
Proof.
  intros c1 c2 rs. induction rs as [|r t IH]; intros H Hm; [exact I|].
  destruct Hm as [H1 H2]. split.
  - intros Hn. rewrite (H r (or_introl eq_refl)) in Hn. exact (H1 Hn).
  - apply IH; [|exact H2]. intros r' Hr'. apply H. right. exact Hr'.
Qed.

(** the records of one transaction, the last one carrying the marker *)
Lemma marked_tx : forall comm id (ws0 : list (N * N * entry)) rl,
  (forall r, In r (ws0 ++ [rl]) -> e_txid (snd r) = id) -> e_status (snd rl) = St_Committed ->
  marked comm (ws0 ++ [rl]).
Proof.
  intros comm id ws0 rl Hid Hst. induction ws0 as [|r t IH].
  - cbn [app marked]. split; [|exact I]. intros _. exists rl. split; [left; reflexivity|]. split; [reflexivity|exact Hst].
  - cbn [app marked]. split.
    + intros _. exists rl. split; [right; apply in_or_app; right; left; reflexivity|].
      split; [|exact Hst]. rewrite (Hid rl), (Hid r); [reflexivity|left; reflexivity|].
      apply in_or_app. right. left. reflexivity.
    + apply IH. intros r' Hr'. apply Hid. right. exact Hr'.
Qed.

Lemma marked_marker : forall comm rs r, marked comm rs -> In r rs -> nmem (e_txid (snd r)) comm = true ->
  exists m, In m rs /\ e_txid (snd m) = e_txid (snd r) /\ e_status (snd m) = St_Committed.
Proof.
  intros comm rs r. induction rs as [|r0 t IH]; intros Hm Hin Hn; [destruct Hin|].
  destruct Hm as [H1 H2]. destruct Hin as [Hin|Hin].
  - subst r0. exact (H1 Hn).
  - destruct (IH H2 Hin Hn) as [m [Hm1 Hm2]]. exists m. split; [right; exact Hm1|exact Hm2].
Qed.

(** the flags of the sorted-set records the engine writes *)
Definition zflag (f : N) : Prop := f = F_ZAdd \/ f = F_ZRem \/ f = F_ZRemRange \/ f = F_ZPopMax \/ f = F_ZPopMin.

(** set and sorted-set records never expire, sorted-set records carry a sorted-set flag *)
Definition rec_wf (e : entry) : Prop :=
  ((e_ds e = DS_Set \/ e_ds e = DS_ZSet) -> e_ttl e = 0) /\ (e_ds e = DS_ZSet -> zflag (e_flag e)).

Lemma rec_wf_esim : forall e e', esim e e' -> rec_wf e -> rec_wf e'.
Proof.
  intros e e' (A1 & A2 & A3 & A4 & A5 & A6) [H1 H2]. unfold rec_wf. rewrite A4, A5, A6. split; assumption.
Qed.

Lemma pending_keep_set : forall ix e, e_ds e = DS_Set ->
  pending_keep ix e = ismem (ix_set ix) (e_bucket e) (e_key e) (e_value e).
Proof. intros ix e H. unfold pending_keep, ismem. rewrite H. reflexivity. Qed.

Lemma is_expired_ttl0 : forall now ts, is_expired now 0 ts = false.
Proof. intros now ts. reflexivity. Qed.

(** LEMMA (pending_keep keeps exactly the live member records): Merge keeps a
    committed SAdd record iff its member is in the set now *)
Lemma merge_keep_sadd : forall now w f p e,
  e_ds e = DS_Set -> e_flag e = F_Set -> e_ttl e = 0 -> nmem (e_txid e) (w_committed w) = true ->
  merge_keep now w f p e = ismem (ix_set (w_ix w)) (e_bucket e) (e_key e) (e_value e).
Proof.
  intros now w f p e Hds Hfl Httl Hc. unfold merge_keep, is_filter. rewrite Hfl, Httl, is_expired_ttl0, Hc.
  cbn [negb orb]. change (F_Set =? F_Del) with false. change (F_Set =? F_RPop) with false.
  change (F_Set =? F_LPop) with false. change (F_Set =? F_LRem) with false. change (F_Set =? F_LTrim) with false.
  change (F_Set =? F_ZRem) with false. change (F_Set =? F_ZRemRange) with false.
  change (F_Set =? F_ZPopMax) with false. change (F_Set =? F_ZPopMin) with false. cbn [orb].
  rewrite Hds. change (DS_Set =? DS_KV) with false. cbv iota. apply pending_keep_set. exact Hds.
Qed.

(** a kept set record: its member is in the set, and it is not a removal *)
Lemma merge_keep_set_inv : forall now w f p e,
  merge_keep now w f p e = true -> e_ds e = DS_Set ->
  ismem (ix_set (w_ix w)) (e_bucket e) (e_key e) (e_value e) = true /\ e_flag e <> F_Del.
Proof.
  intros now w f p e H Hds. destruct (merge_keep_pending now w f p e H) as [Hf Hp].
  rewrite (pending_keep_set _ e Hds) in Hp. split; [exact Hp|].
  intros Hd. unfold is_filter in Hf. rewrite Hd in Hf. discriminate Hf.
Qed.

Lemma smatch_true : forall b k x e, smatch b k x e = true ->
  e_ds e = DS_Set /\ e_bucket e = b /\ e_key e = k /\ e_value e = x.
Proof.
  intros b k x e H. unfold smatch in H. repeat (apply andb_true_iff in H; destruct H as [H ?]).
  apply N.eqb_eq in H. repeat match goal with H0 : bytes_eqb _ _ = true |- _ => apply bytes_eqb_eq in H0 end.
  repeat split; assumption.
Qed.

(** THE SET ARGUMENT, on lists: the log is [A ++ R] with [A] the records of the
    file being merged; afterwards it is [R ++ W].  If the rewritten records
    [W] are sound and complete for the memberships that hold now, the log
    still replays to the same memberships. *)
Lemma mem_rewrite : forall S comm comm' A R W b k x,
  ismem S b k x = mem_run comm b k x false (A ++ R) ->
  (forall r, In r R -> nmem (e_txid (snd r)) comm' = nmem (e_txid (snd r)) comm) ->
  (forall r', In r' W -> nmem (e_txid (snd r')) comm' = true) ->
  (forall r', In r' W -> smatch b k x (snd r') = true -> ismem S b k x = true /\ e_flag (snd r') <> F_Del) ->
  (ismem S b k x = true ->
   forall r, In r A -> nmem (e_txid (snd r)) comm = true -> smatch b k x (snd r) = true -> e_flag (snd r) = F_Set ->
   exists r', In r' W /\ smatch b k x (snd r') = true /\ e_flag (snd r') = F_Set) ->
  ismem S b k x = mem_run comm' b k x false (R ++ W).
Proof.
  intros S comm comm' A R W b k x Hsem HR HW Hsound Hcompl.
  rewrite mem_run_app in Hsem. rewrite mem_run_app.
  rewrite (mem_run_comm_ext comm' comm b k x R false HR).
  destruct (ismem S b k x) eqn:Em.
  - symmetry. destruct (mem_run_cases comm b k x R) as [Hc|Hc].
    + rewrite Hc in Hsem. rewrite <- Hsem. apply mem_run_no_del.
      intros r' Hr' _ Hsm. exact (proj2 (Hsound r' Hr' Hsm)).
    + rewrite Hc in Hsem. symmetry in Hsem. apply mem_run_true_inv in Hsem.
      destruct Hsem as [Hsem|[r [Hin (Hn & Hsm & Hfl)]]]; [discriminate Hsem|].
      destruct (Hcompl eq_refl r Hin Hn Hsm Hfl) as [r' [Hr' [Hsm' Hfl']]].
      apply mem_run_set.
      * intros r2 Hr2 _ Hsm2. exact (proj2 (Hsound r2 Hr2 Hsm2)).
      * exists r'. split; [exact Hr'|]. split; [exact (HW r' Hr')|]. split; assumption.
  - rewrite mem_run_no_match.
    + destruct (mem_run_cases comm b k x R) as [Hc|Hc]; [rewrite Hc in Hsem; exact Hsem|symmetry; apply Hc].
    + intros r' Hr' _. destruct (smatch b k x (snd r')) eqn:Esm; [|reflexivity].
      destruct (Hsound r' Hr' Esm) as [X _]. discriminate X.
Qed.

Record DSInv (w : world) : Prop := mkDSInv {
  (** the memberships in the set index are the replay of the committed records of the log *)
  di_set : forall b k x, ismem (ix_set (w_ix w)) b k x = mem_run (w_committed w) b k x false (recs w);
  di_mark : marked (w_committed w) (recs w);
  di_comm : forall r, In r (recs w) -> e_status (snd r) = St_Committed -> nmem (e_txid (snd r)) (w_committed w) = true;
  di_recs : forall r, In r (recs w) -> rec_wf (snd r);
  di_pend : match w_tx w with TxActive t => Forall rec_wf (tx_pend t) | _ => True end;
  di_swf : forall b s, alookup (ix_set (w_ix w)) b = Some s -> smap_wf s
}.

Lemma nmem_cons : forall id x l, nmem id (x :: l) = (id =? x) || nmem id l.
Proof. reflexivity. Qed.

Lemma fresh_not_comm : forall txid rs comm r, ~ In txid (ids_of rs) -> In r rs ->
  nmem (e_txid (snd r)) (txid :: comm) = nmem (e_txid (snd r)) comm.
Proof.
  intros txid rs comm r Hf Hr. rewrite nmem_cons. destruct (e_txid (snd r) =? txid) eqn:E; [|reflexivity].
  apply N.eqb_eq in E. exfalso. apply Hf. unfold ids_of. apply in_map_iff. exists r. split; assumption.
Qed.

(** PRESERVATION: one step of Merge on the LOWEST file of the log keeps [DSInv] *)
Theorem merge_file_dsinv : forall now w f txid,
  W2 w -> DSInv w -> ~ In txid (ids_of (recs w)) -> (forall r, In r (recs w) -> f <= fid_of r) ->
  DSInv (fst (merge_file now w f txid)).
Proof.
  intros now w f txid (HM & Hwf & _) HD Hfresh Hmin.
  destruct (merge_file_cases now w f txid HM Hfresh) as (Htx & HS & _ & _ & Hc).
  set (w' := fst (merge_file now w f txid)) in *.
  destruct Hc as [(Hr & Hcm & _)|(W & _ & Hr & Hcomm & Hsound & Hcompl)].
  { destruct HD as [D1 D2 D3 D4 D5 D6].
    constructor; rewrite ?Hr, ?Hcm, ?Htx, ?HS; assumption. }
  set (A := filter (fun r => fid_of r =? f) (recs w)) in *.
  set (R := filter (fun r => negb (fid_of r =? f)) (recs w)) in *.
  assert (Hsplit : recs w = A ++ R).
  { apply (locs_split_min (recs w) 0 0 f); [|exact Hmin].
    apply all_records_locs; [exact (mi_nodup w HM)|exact Hwf]. }
  assert (HRsub : forall r, In r R -> In r (recs w)) by (intros r Hr0; apply filter_In in Hr0; exact (proj1 Hr0)).
  assert (HAsub : forall r, In r A -> In r (recs w) /\ fid_of r = f).
  { intros r Hr0. apply filter_In in Hr0. destruct Hr0 as [X Y]. apply N.eqb_eq in Y. split; assumption. }
  (* the committed ids after the step, on old and new records *)
  assert (HcR : forall r, In r R -> nmem (e_txid (snd r)) (w_committed w') = nmem (e_txid (snd r)) (w_committed w)).
  { intros r Hr0. destruct Hcomm as [(_ & E & _)|(ws0 & rl & _ & _ & E & _)]; rewrite E; [reflexivity|].
    exact (fresh_not_comm txid (recs w) _ r Hfresh (HRsub r Hr0)). }
  assert (HcW : forall r', In r' W -> nmem (e_txid (snd r')) (w_committed w') = true).
  { intros r' Hr'. destruct Hcomm as [(E & _)|(ws0 & rl & _ & _ & E & _)]; [subst W; destruct Hr'|].
    rewrite E, (proj1 (Hsound r' Hr')), nmem_cons, N.eqb_refl. reflexivity. }
  destruct HD as [D1 D2 D3 D4 D5 D6].
  constructor; rewrite ?Hr, ?Htx, ?HS; try assumption.
  - (* memberships *)
    intros b k x. apply (mem_rewrite (ix_set (w_ix w)) (w_committed w) (w_committed w') A R W b k x).
    + rewrite <- Hsplit. apply D1.
    + exact HcR.
    + exact HcW.
    + intros r' Hr' Hsm. destruct (Hsound r' Hr') as (_ & _ & r & (Hin & Hf & Hk) & Hsim).
      rewrite (smatch_esim b k x _ _ Hsim) in Hsm. destruct (smatch_true b k x _ Hsm) as (Hds & Hb & Hkk & Hv).
      destruct (merge_keep_set_inv now w f _ _ Hk Hds) as [X Y]. rewrite Hb, Hkk, Hv in X.
      split; [exact X|]. destruct Hsim as (_ & _ & _ & Hfl & _). rewrite Hfl. exact Y.
    + intros Hm r Hin Hn Hsm Hfl. destruct (HAsub r Hin) as [Hin' Hf].
      destruct (smatch_true b k x _ Hsm) as (Hds & Hb & Hkk & Hv).
      assert (Hk : merge_keep now w f (snd (fst r)) (snd r) = true).
      { rewrite (merge_keep_sadd now w f _ (snd r) Hds Hfl); [rewrite Hb, Hkk, Hv; exact Hm| |exact Hn].
        apply (proj1 (D4 r Hin')). left. exact Hds. }
      destruct (Hcompl r (conj Hin' (conj Hf Hk))) as [r' [Hr' Hsim]].
      exists r'. split; [exact Hr'|]. split; [rewrite (smatch_esim b k x _ _ Hsim); exact Hsm|].
      destruct Hsim as (_ & _ & _ & Hfl' & _). rewrite Hfl'. exact Hfl.
  - (* markers *)
    apply marked_app.
    + apply (marked_comm_ext (w_committed w)); [exact HcR|]. apply (marked_app_r _ A). rewrite <- Hsplit. exact D2.
    + destruct Hcomm as [(E & _)|(ws0 & rl & E & Hst & _)]; subst W; [exact I|].
      apply (marked_tx _ txid); [|exact Hst]. intros r' Hr'. exact (proj1 (Hsound r' Hr')).
  - intros r Hin Hst. apply in_app_or in Hin. destruct Hin as [Hin|Hin]; [|exact (HcW r Hin)].
    rewrite (HcR r Hin). exact (D3 r (HRsub r Hin) Hst).
  - intros r Hin. apply in_app_or in Hin. destruct Hin as [Hin|Hin]; [exact (D4 r (HRsub r Hin))|].
    destruct (Hsound r Hin) as (_ & _ & r0 & (Hin0 & _) & Hsim). exact (rec_wf_esim _ _ Hsim (D4 r0 Hin0)).
Qed.

(** ** 2.4 the loop of Merge always works on the lowest file of the log *)

Fixpoint ssorted (l : list N) : Prop :=
  match l with [] => True | x :: r => (forall y, In y r -> x < y) /\ ssorted r end.

Lemma sorted_nodup_ssorted : forall l, sorted l -> NoDup l -> ssorted l.
Proof.
  induction l as [|x r IH]; intros Hs Hn; [exact I|]. cbn [sorted] in Hs. destruct Hs as [H1 H2].
  inversion Hn as [|x' r' Hnotin Hn']; subst. split; [|exact (IH H2 Hn')].
  intros y Hy. pose proof (H1 y Hy). assert (x <> y) by (intros E; subst y; contradiction). lia.
Qed.

(** the files still to be merged [L] are below everything else in the log *)
Definition low_files (L : list N) (w : world) : Prop :=
  ssorted L /\ (forall h, In h L -> h <= w_maxfid w) /\
  (forall r, In r (recs w) -> In (fid_of r) L \/ (forall h, In h L -> h < fid_of r)).

Lemma low_files_min : forall f L w, low_files (f :: L) w -> forall r, In r (recs w) -> f <= fid_of r.
Proof.
  intros f L w (Hs & _ & Hr) r Hin. destruct (Hr r Hin) as [[H|H]|H].
  - lia.
  - pose proof (proj1 Hs _ H). lia.
  - pose proof (H f (or_introl eq_refl)). lia.
Qed.

Lemma low_files_step : forall now f L w txid,
  MInv w -> ~ In txid (ids_of (recs w)) -> low_files (f :: L) w ->
  snd (merge_file now w f txid) = true -> low_files L (fst (merge_file now w f txid)).
Proof.
  intros now f L w txid HM Hfresh (Hs & Hmax & Hr) Hok.
  destruct (merge_file_cases now w f txid HM Hfresh) as (_ & _ & _ & Hmono & Hc).
  set (w' := fst (merge_file now w f txid)) in *.
  split; [exact (proj2 Hs)|]. split.
  - intros h Hh. pose proof (Hmax h (or_intror Hh)). lia.
  - destruct Hc as [(_ & _ & Hsame)|(W & _ & Hrecs & Hcomm & Hsound & _)].
    + destruct (Hsame Hok) as [Ew Hn]. rewrite Ew. intros r Hin.
      destruct (N.eq_dec (fid_of r) f) as [E|E].
      * right. intros h Hh. exfalso.
        destruct r as [[g p] e]. unfold fid_of in E. cbn [fst] in E. subst g.
        unfold recs in Hin. apply in_all_records in Hin. destruct Hin as [s [Hs' _]]. rewrite Hn in Hs'. discriminate Hs'.
      * destruct (Hr r Hin) as [[H|H]|H]; [symmetry in H; contradiction|left; exact H|].
        right. intros h Hh. apply H. right. exact Hh.
    + rewrite Hrecs. intros r Hin. apply in_app_or in Hin. destruct Hin as [Hin|Hin].
      * apply filter_In in Hin. destruct Hin as [Hin Hne].
        destruct (Hr r Hin) as [[H|H]|H].
        -- rewrite <- H, N.eqb_refl in Hne. discriminate Hne.
        -- left. exact H.
        -- right. intros h Hh. apply H. right. exact Hh.
      * right. intros h Hh. destruct (Hsound r Hin) as (_ & Hhigh & _).
        pose proof (Hmax h (or_intror Hh)). lia.
Qed.

(** induction principle: a property of worlds kept by every step of Merge on
    the lowest file of the log is kept by Merge *)
Lemma merge_files_ind : forall (P : world -> Prop) now,
  (forall w f txid, W2 w -> P w -> ~ In txid (ids_of (recs w)) ->
     (forall r, In r (recs w) -> f <= fid_of r) -> P (fst (merge_file now w f txid))) ->
  forall L w txid, W2 w -> P w -> (forall k, ~ In (txid + k) (ids_of (recs w))) -> low_files L w ->
  P (fst (merge_files now w L txid)).
Proof.
  intros P now Hstep. induction L as [|f L IH]; intros w txid HW HP Hfresh Hlow; [exact HP|].
  cbn [merge_files].
  assert (Hf0 : ~ In txid (ids_of (recs w))) by (rewrite <- (N.add_0_r txid); apply Hfresh).
  destruct HW as (HM & Hrest).
  destruct (merge_file_minv now w f txid HM Hf0) as [_ Hsub].
  pose proof (merge_file_w2 now w f txid (conj HM Hrest) Hf0) as HW1.
  pose proof (Hstep w f txid (conj HM Hrest) HP Hf0 (low_files_min f L w Hlow)) as HP1.
  pose proof (low_files_step now f L w txid HM Hf0 Hlow) as Hlow1.
  destruct (merge_file now w f txid) as [w1 ok]. cbn [fst snd] in *.
  destruct ok; [|exact HP1].
  apply IH; [exact HW1|exact HP1| |exact (Hlow1 eq_refl)].
  intros k Hin. unfold ids_of in Hin. apply in_map_iff in Hin. destruct Hin as [x [Ex Hx]].
  destruct (Hsub x Hx) as [H|H].
  - apply (Hfresh (1 + k)). unfold ids_of. apply in_map_iff. exists x. split; [lia|exact H].
  - lia.
Qed.

Lemma low_files_init : forall w, MInv w -> low_files (disk_fids (w_disk w)) w.
Proof.
  intros w HM. unfold disk_fids. split; [|split].
  - apply sorted_nodup_ssorted; [apply nsort_sorted|apply nsort_nodup; exact (mi_nodup w HM)].
  - intros h Hh. apply (mi_max w HM). apply (proj1 (nsort_in _ _)). exact Hh.
  - intros [[g p] e] Hin. left. unfold fid_of. cbn [fst]. apply nsort_in. exact (in_recs_fid _ _ _ _ Hin).
Qed.

Lemma do_merge_ind : forall (P : world -> Prop) now,
  (forall w f txid, W2 w -> P w -> ~ In txid (ids_of (recs w)) ->
     (forall r, In r (recs w) -> f <= fid_of r) -> P (fst (merge_file now w f txid))) ->
  forall w txid0, W2 w -> P w -> (forall k, ~ In (txid0 + k) (ids_of (recs w))) ->
  P (fst (do_merge now w txid0)).
Proof.
  intros P now Hstep w txid0 HW HP Hfresh. unfold do_merge. destruct (w_closed w); [exact HP|].
  pose proof (low_files_init w (proj1 HW)) as Hlow.
  destruct (disk_fids (w_disk w)) as [|a [|b l]]; [exact HP|exact HP|].
  apply (merge_files_ind P now Hstep); assumption.
Qed.

(** Merge keeps [DSInv] *)
Theorem do_merge_dsinv : forall now w txid0,
  W2 w -> DSInv w -> (forall k, ~ In (txid0 + k) (ids_of (recs w))) -> DSInv (fst (do_merge now w txid0)).
Proof. intros now w txid0. apply (do_merge_ind DSInv now). intros. apply merge_file_dsinv; assumption. Qed.

(** ** 2.5 every engine call keeps [DSInv] *)

Definition set_wf (S : list (bytes * smap)) : Prop := forall b s, alookup S b = Some s -> smap_wf s.

Lemma apply_set_wf : forall s e, smap_wf s -> smap_wf (apply_set s e).
Proof.
  intros s e H. unfold apply_set. destruct (e_flag e =? F_Del); [apply s_srem_wf; exact H|].
  destruct (e_flag e =? F_Set); [apply s_sadd_wf; exact H|exact H].
Qed.

Lemma apply_ds_set_wf : forall strict ix e, set_wf (ix_set ix) -> set_wf (ix_set (apply_ds strict ix e)).
Proof.
  intros strict ix e H. unfold apply_ds. destruct (e_ds e =? DS_Set).
  - cbn [ix_set]. intros b s Hb. rewrite alookup_aset in Hb. destruct (bytes_eqb (e_bucket e) b); [|exact (H b s Hb)].
    injection Hb as Hb. subst s. apply apply_set_wf. unfold getdef.
    destruct (alookup (ix_set ix) (e_bucket e)) as [s0|] eqn:E; [exact (H _ _ E)|]. intros k l Hk. discriminate Hk.
  - destruct (e_ds e =? DS_ZSet); [exact H|]. destruct (e_ds e =? DS_List); exact H.
Qed.

Lemma replay_set_wf : forall comm rs ix, set_wf (ix_set ix) -> set_wf (ix_set (fold_left (replay1 comm) rs ix)).
Proof.
  intros comm rs. induction rs as [|[[f p] e] t IH]; intros ix H; [exact H|]. cbn [fold_left]. apply IH.
  unfold replay1. destruct (nmem (e_txid e) comm); [|exact H].
  destruct (e_ds e =? DS_KV); [exact H|]. apply apply_ds_set_wf. exact H.
Qed.

Lemma commit_index_set_wf : forall ix ws, set_wf (ix_set ix) -> set_wf (ix_set (commit_index ix ws)).
Proof.
  intros ix ws H. rewrite ix_set_commit_index. revert ix H.
  induction ws as [|r t IH]; intros ix H; [exact H|]. cbn [fold_left]. apply IH. apply apply_ds_set_wf. exact H.
Qed.

(** every record an API call logs is well formed *)
Lemma tx_put_rec_wf : forall t b k v ttl flag ts ds,
  Forall rec_wf (tx_pend t) -> rec_wf (mk_entry t b k v ttl flag ts ds) ->
  Forall rec_wf (tx_pend (fst (tx_put t b k v ttl flag ts ds))).
Proof.
  intros t b k v ttl flag ts ds H Hs. unfold tx_put.
  destruct (negb (tx_w t)); [exact H|]. destruct k as [|k0 k]; [exact H|].
  cbn [fst tx_pend]. apply Forall_app. split; [exact H|]. constructor; [exact Hs|constructor].
Qed.

Lemma tx_put_id : forall t b k v ttl flag ts ds, tx_id (fst (tx_put t b k v ttl flag ts ds)) = tx_id t.
Proof.
  intros. unfold tx_put. destruct (negb (tx_w t)); [reflexivity|]. destruct k; reflexivity.
Qed.

Lemma tx_put_all_rec_wf : forall b k flag ts ds vs t,
  Forall rec_wf (tx_pend t) -> (forall t' v, rec_wf (mk_entry t' b k v 0 flag ts ds)) ->
  Forall rec_wf (tx_pend (fst (tx_put_all t b k vs flag ts ds))).
Proof.
  intros b k flag ts ds vs. induction vs as [|v vs IH]; intros t H Hs.
  - exact H.
  - cbn [tx_put_all]. pose proof (tx_put_rec_wf t b k v 0 flag ts ds H (Hs t v)) as E.
    destruct (tx_put t b k v 0 flag ts ds) as [t' r]. cbn [fst] in E.
    destruct r; try exact E. apply IH; assumption.
Qed.

Ltac wf_side :=
  intros; unfold rec_wf, mk_entry, zflag; cbn [e_ds e_ttl e_flag];
  split; [intros [D|D]; first [reflexivity | cbv in D; discriminate D]
         | intros D; first [cbv in D; discriminate D | auto 6]].

Ltac wf_put_step H E t' r :=
  match goal with
  | |- context [tx_put ?t ?b ?k ?v ?ttl ?f ?ts ?ds] =>
      pose proof (tx_put_rec_wf t b k v ttl f ts ds H) as E;
      destruct (tx_put t b k v ttl f ts ds) as [t' r]; cbn [fst] in E
  end.

Lemma do_op_rec_wf : forall now w t o,
  Forall rec_wf (tx_pend t) -> Forall rec_wf (tx_pend (snd (fst (do_op now w t o)))).
Proof.
  intros now w t o H. unfold do_op.
  destruct (ds_read (w_ix w) o) as [r0|]; [exact H|].
  destruct o; try exact H.
  - (* OPut *) cbn [fst snd]. apply tx_put_rec_wf; [exact H|wf_side].
  - (* ODelete *) cbn [fst snd]. apply tx_put_rec_wf; [exact H|wf_side].
  - (* OGet *)
    destruct (alookup (ix_kv (w_ix w)) b); [|exact H]. destruct (kv_find k0 k); [|exact H].
    destruct (negb (nmem (kr_txid k1) (w_committed w))); [exact H|].
    destruct (kr_dead now k1); [exact H|]. destruct (o_mode (w_opts w) =? 0); [exact H|].
    destruct (disk_read (w_disk w) (kr_fid k1) (kr_pos k1)); exact H.
  - (* OGetAll *) destruct (alookup (ix_kv (w_ix w)) b); exact H.
  - (* ORangeScan *) destruct (alookup (ix_kv (w_ix w)) b); [|exact H]. destruct (bltb e s); exact H.
  - (* OPrefixScan *) destruct (alookup (ix_kv (w_ix w)) b); [|exact H].
    destruct (kv_prefix_scan now (fun _ => true) k p off lim). exact H.
  - (* OPrefixSearchScan *) destruct (alookup (ix_kv (w_ix w)) b); [|exact H]. destruct bad; [exact H|].
    destruct (kv_prefix_scan now (fun r => bmem r ms) k p off lim). exact H.
  - (* ORPush *) destruct (contains_sep k) eqn:S; [exact H|]. cbn [fst snd].
    apply tx_put_all_rec_wf; [exact H|wf_side].
  - (* OLPush *) destruct (contains_sep k) eqn:S; [exact H|]. cbn [fst snd].
    apply tx_put_all_rec_wf; [exact H|wf_side].
  - (* ORPop *) destruct (alookup (ix_list (w_ix w)) b); [|exact H]. destruct (l_rpeek l k); [|exact H].
    wf_put_step H E t' r. destruct r; cbn [fst snd]; apply E; wf_side.
  - (* OLPop *) destruct (alookup (ix_list (w_ix w)) b); [|exact H]. destruct (l_lpeek l k); [|exact H].
    wf_put_step H E t' r. destruct r; cbn [fst snd]; apply E; wf_side.
  - (* OLRem *) destruct (alookup (ix_list (w_ix w)) b); [|exact H]. destruct (l_size l k); [|exact H].
    destruct ((a <? count) || (count <? - a))%Z; [exact H|].
    wf_put_step H E t' r. destruct r; try (cbn [fst snd]; apply E; wf_side).
    destruct (l_lremnum l k count v); cbn [fst snd]; apply E; wf_side.
  - (* OLSet *) destruct (alookup (ix_list (w_ix w)) b); [|exact H]. destruct (l_size l k); [|exact H].
    destruct ((i <? 0) || (a <=? i))%Z; [exact H|]. cbn [fst snd]. apply tx_put_rec_wf; [exact H|wf_side].
  - (* OLTrim *) destruct (alookup (ix_list (w_ix w)) b); [|exact H]. destruct (alookup l k); [|exact H].
    destruct (lrange_list l0 s e); [|exact H]. cbn [fst snd]. apply tx_put_rec_wf; [exact H|wf_side].
  - (* OSAdd *) cbn [fst snd]. apply tx_put_all_rec_wf; [exact H|wf_side].
  - (* OSRem *) cbn [fst snd]. apply tx_put_all_rec_wf; [exact H|wf_side].
  - (* OSPop *) destruct (alookup (ix_set (w_ix w)) b); [|exact H].
    destruct (alookup s k) as [[|m0 ms]|]; try exact H.
    destruct choice as [c|].
    + destruct (bmem c (m0 :: ms)); [|exact H].
      wf_put_step H E t' r. destruct r; cbn [fst snd]; apply E; wf_side.
    + destruct (tx_put t b k [] 0 F_Del now DS_Set) as [t' r]. destruct r; exact H.
  - (* OSMove1 *) destruct (alookup (ix_set (w_ix w)) b); [|exact H].
    destruct (s_haskey s k1 && s_haskey s k2); [|exact H].
    wf_put_step H E t1 r. assert (E1 : Forall rec_wf (tx_pend t1)) by (apply E; wf_side).
    destruct r; try exact E1.
    wf_put_step E1 E' t2 r. destruct r; cbn [fst snd]; apply E'; wf_side.
  - (* OSMove2 *) destruct (alookup (ix_set (w_ix w)) b1); [|exact H].
    destruct (alookup (ix_set (w_ix w)) b2); [|exact H].
    destruct (s_haskey s k1 && s_haskey s0 k2); [|exact H].
    wf_put_step H E t1 r. assert (E1 : Forall rec_wf (tx_pend t1)) by (apply E; wf_side).
    destruct r; try exact E1.
    wf_put_step E1 E' t2 r. destruct r; cbn [fst snd]; apply E'; wf_side.
  - (* OZAdd *) destruct (contains_sep k); [exact H|]. cbn [fst snd]. apply tx_put_rec_wf; [exact H|wf_side].
  - (* OZPopMax *) destruct (alookup (ix_zset (w_ix w)) b); [|exact H].
    wf_put_step H E t' r. destruct r; cbn [fst snd]; apply E; wf_side.
  - (* OZPopMin *) destruct (alookup (ix_zset (w_ix w)) b); [|exact H].
    wf_put_step H E t' r. destruct r; cbn [fst snd]; apply E; wf_side.
  - (* OZRem *) destruct (alookup (ix_zset (w_ix w)) b); [|exact H].
    cbn [fst snd]. apply tx_put_rec_wf; [exact H|wf_side].
  - (* OZRemRangeByRank *) destruct (alookup (ix_zset (w_ix w)) b); [|exact H].
    cbn [fst snd]. apply tx_put_rec_wf; [exact H|wf_side].
Qed.

Lemma in_nmem : forall x l, In x l -> nmem x l = true.
Proof.
  intros x l H. unfold nmem. apply existsb_exists. exists x. split; [exact H|apply N.eqb_refl].
Qed.

Lemma in_committed_ids : forall rs m, In m rs -> e_status (snd m) = St_Committed ->
  In (e_txid (snd m)) (committed_ids rs).
Proof.
  intros rs m Hin Hst. unfold committed_ids. apply in_flat_map. exists m. split; [exact Hin|].
  rewrite Hst. left. reflexivity.
Qed.

Lemma committed_ids_inv : forall rs id, In id (committed_ids rs) ->
  exists m, In m rs /\ e_status (snd m) = St_Committed /\ e_txid (snd m) = id.
Proof.
  intros rs id H. unfold committed_ids in H. apply in_flat_map in H. destruct H as [m [Hin Hm]].
  destruct (e_status (snd m) =? St_Committed) eqn:E; [|destruct Hm]. destruct Hm as [Hm|[]].
  exists m. split; [exact Hin|]. split; [apply N.eqb_eq; exact E|exact Hm].
Qed.

(** the committed ids of the running process and the ones a reopen computes
    from the commit markers agree on every record of the log *)
Lemma comm_agree : forall w, DSInv w -> forall r, In r (recs w) ->
  nmem (e_txid (snd r)) (committed_ids (recs w)) = nmem (e_txid (snd r)) (w_committed w).
Proof.
  intros w HD r Hin. destruct (nmem (e_txid (snd r)) (w_committed w)) eqn:E.
  - destruct (marked_marker _ _ r (di_mark w HD) Hin E) as [m (Hm & Hid & Hst)].
    apply in_nmem. rewrite <- Hid. exact (in_committed_ids _ m Hm Hst).
  - destruct (nmem (e_txid (snd r)) (committed_ids (recs w))) eqn:E2; [|reflexivity].
    apply nmem_in in E2. destruct (committed_ids_inv _ _ E2) as [m (Hm & Hst & Hid)].
    pose proof (di_comm w HD m Hm Hst) as X. rewrite Hid, E in X. discriminate X.
Qed.

Lemma set_wf_nil : set_wf [].
Proof. intros b s H. discriminate H. Qed.

(** Open (on the directory of a world that satisfies the invariants) *)
Lemma open_dsinv : forall w o, MInv w -> DSInv w -> DSInv (do_open o (w_disk w)).
Proof.
  intros w o HM HD.
  rewrite (do_open_eq o (w_disk w) (w_maxfid w) (mi_nodup w HM) (mi_max_in w HM) (mi_max w HM)). cbv zeta.
  constructor; unfold recs; cbn [w_disk w_ix w_committed w_tx]; fold (recs w).
  - intros b k x. unfold replay. rewrite ismem_replay_fold. reflexivity.
  - apply (marked_comm_ext (w_committed w)); [|exact (di_mark w HD)]. exact (comm_agree w HD).
  - intros r Hin Hst. apply in_nmem. exact (in_committed_ids _ r Hin Hst).
  - exact (di_recs w HD).
  - exact I.
  - unfold replay. apply replay_set_wf. exact set_wf_nil.
Qed.

(** Commit *)
Lemma commit_dsinv : forall w t, WInv w -> DSInv w -> w_tx w = TxActive t -> DSInv (fst (do_commit None w t)).
Proof.
  intros w t HW HD Ht. destruct (wi_w2 w HW) as (HM & _).
  pose proof (wi_tx w HW) as Htx. rewrite Ht in Htx. cbn [tx_ok] in Htx. destruct Htx as [Hfresh Hpend].
  pose proof (di_pend w HD) as Hwfp. rewrite Ht in Hwfp.
  destruct (tx_pend t) as [|e0 rest] eqn:Ep.
  { unfold do_commit. rewrite Ep. cbn [fst]. destruct HD as [D1 D2 D3 D4 D5 D6].
    constructor; unfold recs in *; cbn [set_tx_done w_disk w_ix w_committed w_tx]; try assumption. exact I. }
  destruct (do_commit None w t) as [w' ok] eqn:Ec. cbn [fst]. destruct ok.
  2:{ rewrite (do_commit_false _ _ _ Ec). exact HD. }
  destruct (do_commit_ok w t w' HM Ec) as (ws0 & rl & l & A & B & C & _ & El & Hl & _ & _ & Htx').
  { rewrite Ep. discriminate. }
  rewrite Ep in El.
  assert (Hw : forall r, In r (ws0 ++ [rl]) ->
               e_txid (snd r) = tx_id t /\ exists e, In e (e0 :: rest) /\ esim e (snd r)).
  { intros r Hr. destruct (written_sound ws0 rl l r Hl Hr) as (e & He & Hsim & Hid). rewrite <- El in He.
    rewrite Forall_forall in Hpend. destruct (Hpend e He) as (_ & X & _). split; [rewrite Hid; exact X|].
    exists e. split; assumption. }
  assert (HcW : forall r, In r (ws0 ++ [rl]) -> nmem (e_txid (snd r)) (tx_id t :: w_committed w) = true).
  { intros r Hr. rewrite (proj1 (Hw r Hr)), nmem_cons, N.eqb_refl. reflexivity. }
  assert (HcR : forall r, In r (recs w) ->
                nmem (e_txid (snd r)) (tx_id t :: w_committed w) = nmem (e_txid (snd r)) (w_committed w)).
  { intros r Hr. exact (fresh_not_comm _ _ _ r Hfresh Hr). }
  destruct HD as [D1 D2 D3 D4 D5 D6].
  constructor; rewrite ?A, ?B, ?C, ?Htx'.
  - intros b k x. rewrite (ismem_commit_index (tx_id t :: w_committed w) _ _ b k x HcW).
    rewrite (mem_run_app (tx_id t :: w_committed w) b k x false (recs w) (ws0 ++ [rl])), D1.
    rewrite (mem_run_comm_ext (tx_id t :: w_committed w) (w_committed w) b k x (recs w) false HcR). reflexivity.
  - apply marked_app; [apply (marked_comm_ext (w_committed w)); [exact HcR|exact D2]|].
    apply (marked_tx _ (tx_id t)); [intros r Hr; exact (proj1 (Hw r Hr))|rewrite Hl; reflexivity].
  - intros r Hin Hst. apply in_app_or in Hin. destruct Hin as [Hin|Hin]; [|exact (HcW r Hin)].
    rewrite (HcR r Hin). exact (D3 r Hin Hst).
  - intros r Hin. apply in_app_or in Hin. destruct Hin as [Hin|Hin]; [exact (D4 r Hin)|].
    destruct (Hw r Hin) as (_ & e & He & Hsim). rewrite Forall_forall in Hwfp.
    exact (rec_wf_esim _ _ Hsim (Hwfp e He)).
  - exact I.
  - apply commit_index_set_wf. exact D6.
Qed.

Theorem step_dsinv : forall now w c, WInv w -> DSInv w -> call_ok w c -> DSInv (fst (step now w c)).
Proof.
  intros now w c HW HD Hc. destruct c as [wr id|o| | | |o]; cbn [step].
  - destruct (w_closed w); [exact HD|]. cbn [fst]. destruct HD as [D1 D2 D3 D4 D5 D6].
    constructor; unfold recs in *; cbn [set_tx w_disk w_ix w_committed w_tx tx_pend]; try assumption; try constructor.
  - destruct (w_tx w) as [|t|] eqn:Et; try exact HD.
    pose proof (do_op_world now w t o) as Hw.
    pose proof (do_op_rec_wf now w t o) as Hok.
    destruct (do_op now w t o) as [[w' t'] r]. cbn [fst snd] in *. subst w'.
    pose proof (di_pend w HD) as Hp. rewrite Et in Hp.
    destruct HD as [D1 D2 D3 D4 D5 D6].
    constructor; unfold recs in *; cbn [set_tx w_disk w_ix w_committed w_tx tx_pend]; try assumption.
    exact (Hok Hp).
  - destruct (w_tx w) as [|t|] eqn:Et; try exact HD.
    pose proof (commit_dsinv w t HW HD Et) as H. destruct (do_commit None w t) as [w' ok]. exact H.
  - destruct (w_tx w) as [|t|] eqn:Et; try exact HD. cbn [fst]. destruct HD as [D1 D2 D3 D4 D5 D6].
    constructor; unfold recs in *; cbn [set_tx w_disk w_ix w_committed w_tx]; try assumption; try exact I.
  - destruct (w_closed w); [exact HD|]. cbn [fst]. destruct HD as [D1 D2 D3 D4 D5 D6].
    constructor; unfold recs in *; cbn [w_disk w_ix w_committed w_tx]; try assumption; try exact I.
  - cbn [fst]. apply open_dsinv; [exact (proj1 (wi_w2 w HW))|exact HD].
Qed.

Lemma dsinv_empty : forall o, DSInv (empty_world o).
Proof.
  intros o. constructor; cbn.
  - intros b k x. reflexivity.
  - exact I.
  - intros r [].
  - intros r [].
  - exact I.
  - exact set_wf_nil.
Qed.

Lemma act_step_dsinv : forall now0 w a, WInv w -> DSInv w -> act_ok w a -> DSInv (act_step now0 w a).
Proof.
  intros now0 w [c|now txid0] HW HD Hok; cbn [act_step act_ok] in *.
  - apply step_dsinv; assumption.
  - destruct Hok as [_ Hfresh]. apply do_merge_dsinv; [exact (wi_w2 w HW)|exact HD|exact Hfresh].
Qed.

(** every world reachable from an empty directory by engine calls and Merges satisfies [DSInv] *)
Theorem reachable_dsinv : forall now0 l o, acts_ok now0 (empty_world o) l -> DSInv (run_acts now0 (empty_world o) l).
Proof.
  intros now0 l o. generalize (winv_empty o) (dsinv_empty o). generalize (empty_world o).
  induction l as [|a r IH]; intros w HW HD H; [exact HD|].
  cbn [acts_ok] in H. destruct H as [A B]. cbn [run_acts]. apply IH; [| |exact B].
  - apply act_step_winv; assumption.
  - apply act_step_dsinv; assumption.
Qed.

(** ** 2.6 (T2, sets) Merge followed by a reopen *)

(** a reopen rebuilds exactly the memberships of the running process — in every
    world that satisfies the invariants, in particular after any number of Merges *)
Theorem reopen_set_members : forall w o, MInv w -> DSInv w -> forall b k x,
  ismem (ix_set (w_ix (do_open o (w_disk w)))) b k x = ismem (ix_set (w_ix w)) b k x.
Proof.
  intros w o HM HD b k x.
  rewrite (do_open_eq o (w_disk w) (w_maxfid w) (mi_nodup w HM) (mi_max_in w HM) (mi_max w HM)). cbv zeta.
  cbn [w_ix]. fold (recs w). unfold replay. rewrite ismem_replay_fold.
  change (ismem (ix_set ix_empty) b k x) with false.
  rewrite (mem_run_comm_ext _ (w_committed w) b k x (recs w) false (comm_agree w HD)).
  symmetry. apply (di_set w HD).
Qed.

Lemma do_merge_w2 : forall now w txid0,
  W2 w -> (forall k, ~ In (txid0 + k) (ids_of (recs w))) -> W2 (fst (do_merge now w txid0)).
Proof.
  intros now w txid0 HW Hfresh. unfold do_merge. destruct (w_closed w); [exact HW|].
  destruct (disk_fids (w_disk w)) as [|a [|b l]]; [exact HW|exact HW|].
  exact (proj1 (merge_files_w2 (a :: b :: l) now w txid0 HW Hfresh)).
Qed.

(** (T2, sets, under the invariants) after Merge — whether it succeeded or a
    rewrite transaction was rejected (T3) — and a reopen with any options,
    every set has exactly the members it had before Merge *)
Theorem merge_reopen_set_members_inv : forall now w txid0 o,
  W2 w -> DSInv w -> (forall k, ~ In (txid0 + k) (ids_of (recs w))) ->
  forall b k x,
  ismem (ix_set (w_ix (do_open o (w_disk (fst (do_merge now w txid0)))))) b k x = ismem (ix_set (w_ix w)) b k x.
Proof.
  intros now w txid0 o HW HD Hfresh b k x.
  rewrite (reopen_set_members _ o (proj1 (do_merge_w2 now w txid0 HW Hfresh)) (do_merge_dsinv now w txid0 HW HD Hfresh)).
  unfold ismem. rewrite (proj1 (merge_ds_unchanged now w txid0)). reflexivity.
Qed.

(** (T2, sets) the same for every world reachable by engine calls, reopens and Merges *)
Theorem merge_reopen_set_members : forall now0 l o now txid0 o',
  acts_ok now0 (empty_world o) l ->
  let w := run_acts now0 (empty_world o) l in
  (forall k, ~ In (txid0 + k) (ids_of (recs w))) ->
  forall b k x,
  ismem (ix_set (w_ix (do_open o' (w_disk (fst (do_merge now w txid0)))))) b k x = ismem (ix_set (w_ix w)) b k x.
Proof.
  intros now0 l o now txid0 o' Hacts w Hfresh.
  apply merge_reopen_set_members_inv; [|exact (reachable_dsinv now0 l o Hacts)|exact Hfresh].
  exact (wi_w2 w (reachable_winv now0 l o Hacts)).
Qed.

(** from memberships to keys: two duplicate-free set indexes with the same
    memberships hold, under every key that has a member, the same members *)
Lemma ismem_lookup : forall (S : list (bytes * smap)) b (s : smap) k l x, alookup S b = Some s -> alookup s k = Some l ->
  ismem S b k x = bmem x l.
Proof. intros S b s k l x Hb Hk. unfold ismem, s_ismember. rewrite Hb, Hk. reflexivity. Qed.

Lemma same_members_keys : forall S1 S2, set_wf S1 -> set_wf S2 ->
  (forall b k x, ismem S2 b k x = ismem S1 b k x) ->
  forall b s k l, alookup S1 b = Some s -> alookup s k = Some l -> l <> [] ->
  exists s' l', alookup S2 b = Some s' /\ alookup s' k = Some l' /\ Permutation l l' /\
                s_members s' k = s_members s k.
Proof.
  intros S1 S2 H1 H2 Heq b s k l Hb Hk Hne.
  destruct l as [|x0 lr]; [contradiction|].
  assert (Hx0 : ismem S2 b k x0 = true).
  { rewrite Heq, (ismem_lookup S1 b s k _ x0 Hb Hk). cbn [bmem]. rewrite SetFacts.bytes_eqb_refl. reflexivity. }
  unfold ismem in Hx0. destruct (alookup S2 b) as [s'|] eqn:Hb'; [|discriminate Hx0].
  unfold s_ismember in Hx0. destruct (alookup s' k) as [l'|] eqn:Hk'; [|discriminate Hx0].
  exists s', l'. split; [reflexivity|]. split; [exact Hk'|].
  assert (Hin : forall y, In y (x0 :: lr) <-> In y l').
  { intros y. rewrite <- !bmem_In. rewrite <- (ismem_lookup S1 b s k _ y Hb Hk), <- (ismem_lookup S2 b s' k _ y Hb' Hk').
    rewrite Heq. reflexivity. }
  pose proof (H1 b s Hb k _ Hk) as N1. pose proof (H2 b s' Hb' k _ Hk') as N2.
  split; [apply NoDup_Permutation; assumption|].
  unfold s_members. rewrite Hk, Hk'. f_equal. apply bsort_canonical; try assumption.
  intros y. symmetry. apply Hin.
Qed.

(** (T2, sets, key level) after Merge and a reopen every set key that had at
    least one member is still there with the same members (as a set; SMembers
    returns the same list), and — nothing new appears — every key that has a
    member after the reopen had the same members before Merge.
    THE F30 EXCEPTION is exactly what this statement leaves out: a key with no
    member (and a bucket all of whose keys have no member) may be gone after
    the reopen; see [merge_drops_empty_set_key]. *)
Theorem merge_reopen_set_keys : forall now0 l o now txid0 o',
  acts_ok now0 (empty_world o) l ->
  let w := run_acts now0 (empty_world o) l in
  (forall k, ~ In (txid0 + k) (ids_of (recs w))) ->
  let wr := do_open o' (w_disk (fst (do_merge now w txid0))) in
  (forall b s k m, alookup (ix_set (w_ix w)) b = Some s -> alookup s k = Some m -> m <> [] ->
     exists s' m', alookup (ix_set (w_ix wr)) b = Some s' /\ alookup s' k = Some m' /\ Permutation m m' /\
                   s_members s' k = s_members s k) /\
  (forall b s' k m', alookup (ix_set (w_ix wr)) b = Some s' -> alookup s' k = Some m' -> m' <> [] ->
     exists s m, alookup (ix_set (w_ix w)) b = Some s /\ alookup s k = Some m /\ Permutation m' m /\
                 s_members s k = s_members s' k).
Proof.
  intros now0 l o now txid0 o' Hacts w Hfresh wr.
  pose proof (reachable_dsinv now0 l o Hacts) as HD. fold w in HD.
  pose proof (wi_w2 w (reachable_winv now0 l o Hacts)) as HW.
  pose proof (do_merge_dsinv now w txid0 HW HD Hfresh) as HD1.
  pose proof (do_merge_w2 now w txid0 HW Hfresh) as HW1.
  pose proof (open_dsinv _ o' (proj1 HW1) HD1) as HDr. fold wr in HDr.
  pose proof (merge_reopen_set_members now0 l o now txid0 o' Hacts Hfresh) as Heq. fold w in Heq. fold wr in Heq.
  split.
  - apply (same_members_keys _ _ (di_swf w HD) (di_swf wr HDr)). exact Heq.
  - apply (same_members_keys _ _ (di_swf wr HDr) (di_swf w HD)). intros b k x. symmetry. apply Heq.
Qed.

(** the F30 exception does happen: SAdd k x; SRem k x leaves the key "k" with
    no member; it survives a plain reopen and Merge in the running process,
    but not Merge followed by a reopen (Merge drops the SAdd record of a
    non-member and the SRem record, the only records that keep the key alive) *)
Definition f30_o : opts := mkOpts 0 FileIO FileIO false 100.
Definition f30_acts : list act :=
  [ACall (CBegin true 1); ACall (COp (OSAdd [x62] [x6b] [[x78]])); ACall CCommit;
   ACall (CBegin true 2); ACall (COp (OSRem [x62] [x6b] [[x78]])); ACall CCommit;
   ACall (CBegin true 3); ACall (COp (OSAdd [x62] [x6c] [[x79]])); ACall CCommit].
Definition f30_w : world := run_acts 0 (empty_world f30_o) f30_acts.
Definition f30_haskey (w : world) (k : bytes) : res :=
  snd (step 0 (fst (step 0 w (CBegin false 99))) (COp (OSHasKey [x62] k))).

Lemma acts_ok_app : forall now0 a c w,
  acts_ok now0 w a -> acts_ok now0 (run_acts now0 w a) c -> acts_ok now0 w (a ++ c).
Proof.
  intros now0 a c. induction a as [|x a IH]; intros w Ha Hc; [exact Hc|].
  cbn [app acts_ok run_acts] in *. destruct Ha as [A B]. split; [exact A|]. apply IH; assumption.
Qed.

Lemma f30_merge_ok : act_ok (run_acts 0 (empty_world f30_o) f30_acts) (AMerge 0 10).
Proof.
  unfold act_ok. split; [right; vm_compute; reflexivity|].
  assert (E : ids_of (recs (run_acts 0 (empty_world f30_o) f30_acts)) = [1; 2; 3]) by (vm_compute; reflexivity).
  intros k Hin. rewrite E in Hin. destruct Hin as [X|[X|[X|[]]]]; lia.
Qed.

Lemma acts_ok_snoc : forall now0 a x w,
  acts_ok now0 w a -> act_ok (run_acts now0 w a) x -> acts_ok now0 w (a ++ [x]).
Proof. intros now0 a x w Ha Hx. apply acts_ok_app; [exact Ha|]. cbn [acts_ok]. split; [exact Hx|exact I]. Qed.

Lemma f30_calls_ok : acts_ok 0 (empty_world f30_o) f30_acts.
Proof.
  vm_compute. repeat split; try exact I.
  - intros [].
  - intros [X|[]]; discriminate X.
  - intros [X|[X|[]]]; discriminate X.
Qed.

Lemma f30_acts_ok : acts_ok 0 (empty_world f30_o) (f30_acts ++ [AMerge 0 10]).
Proof. exact (acts_ok_snoc 0 f30_acts (AMerge 0 10) (empty_world f30_o) f30_calls_ok f30_merge_ok). Qed.

Example merge_drops_empty_set_key :
  f30_haskey f30_w [x6b] = RBool true /\                                     (* the empty key exists *)
  f30_haskey (do_open f30_o (w_disk f30_w)) [x6b] = RBool true /\            (* a plain reopen keeps it *)
  snd (do_merge 0 f30_w 10) = true /\
  f30_haskey (fst (do_merge 0 f30_w 10)) [x6b] = RBool true /\               (* Merge keeps it in the running process *)
  f30_haskey (do_open f30_o (w_disk (fst (do_merge 0 f30_w 10)))) [x6b] = RBool false /\   (* Merge + reopen: gone *)
  f30_haskey (do_open f30_o (w_disk (fst (do_merge 0 f30_w 10)))) [x6c] = RBool true.      (* the non-empty key stays *)
Proof. vm_compute. repeat split; reflexivity. Qed.

(** ------------------------------------------------------------------ *)
(** * Part 3: Merge followed by a reopen — sorted sets                   *)
(** ------------------------------------------------------------------ *)

(** ** 3.1 nodes of a sorted set under the replayed operations *)

Lemma z_setval_In : forall z k v n m, z_find z k = Some n -> In m (z_setval z k v) ->
  m = mkZ (z_key n) (z_score n) v \/ In m z.
Proof.
  induction z as [|h r IH]; intros k v n m Hf Hin; [discriminate Hf|].
  cbn [z_find] in Hf. cbn [z_setval] in Hin. destruct (bytes_eqb (z_key h) k).
  - injection Hf as Hf. subst h. destruct Hin as [Hin|Hin]; [left; symmetry; exact Hin|right; right; exact Hin].
  - destruct Hin as [Hin|Hin]; [right; left; exact Hin|].
    destruct (IH k v n m Hf Hin) as [H|H]; [left; exact H|right; right; exact H].
Qed.

Lemma z_put_In : forall z k s v m, In m (z_put z k s v) -> m = mkZ k s v \/ In m z.
Proof.
  intros z k s v m H. unfold z_put in H. destruct (z_find z k) as [n|] eqn:F.
  - destruct (z_score n =? s)%Z eqn:E.
    + destruct (z_setval_In z k v n m F H) as [X|X]; [|right; exact X]. left.
      apply Z.eqb_eq in E. destruct (z_find_In z k n F) as [_ Hk]. rewrite X, Hk, E. reflexivity.
    + apply z_insert_In in H. destruct H as [H|H]; [left; exact H|right; exact (z_delete_subset z k m H)].
  - apply z_insert_In in H. exact H.
Qed.

Lemma z_put_has : forall z k s v, zwf z -> In (mkZ k s v) (z_put z k s v).
Proof. intros z k s v W. exact (proj1 (z_find_In _ _ _ (z_put_find_same z k s v W))). Qed.

Lemma z_put_keeps : forall z k s v m, zwf z -> In m z -> z_key m <> k -> In m (z_put z k s v).
Proof.
  intros z k s v m W Hin Hk.
  pose proof (z_put_find_other z k (z_key m) s v W Hk) as H. rewrite (z_find_unique z m W Hin) in H.
  exact (proj1 (z_find_In _ _ _ H)).
Qed.

Lemma same_key_same_node : forall z a c, zwf z -> In a z -> In c z -> z_key a = z_key c -> a = c.
Proof.
  intros z a c W Ha Hc Hk. pose proof (z_find_unique z a W Ha) as H1. pose proof (z_find_unique z c W Hc) as H2.
  rewrite Hk, H2 in H1. injection H1 as H1. symmetry. exact H1.
Qed.

(** two well-formed sorted sets with the same nodes are the same list *)
Lemma zwf_same_nodes : forall a c, zwf a -> zwf c -> (forall n, In n a <-> In n c) -> a = c.
Proof.
  induction a as [|x a IH]; intros c Wa Wc H.
  - destruct c as [|y c]; [reflexivity|]. exfalso. apply (proj2 (H y)). left. reflexivity.
  - destruct c as [|y c]; [exfalso; apply (proj1 (H x)); left; reflexivity|].
    apply zwf_cons_iff in Wa. destruct Wa as (Wa & Fa & Na).
    apply zwf_cons_iff in Wc. destruct Wc as (Wc & Fc & Nc).
    rewrite Forall_forall in Fa, Fc.
    assert (Exy : x = y).
    { destruct (proj1 (H x) (or_introl eq_refl)) as [E|Hx]; [symmetry; exact E|].
      destruct (proj2 (H y) (or_introl eq_refl)) as [E|Hy]; [exact E|].
      exfalso. exact (nlt_asym _ _ (Fa y Hy) (Fc x Hx)). }
    subst y. f_equal. apply IH; [exact Wa|exact Wc|]. intros n. split; intros Hn.
    + destruct (proj1 (H n) (or_intror Hn)) as [E|X]; [|exact X]. subst n. exfalso. exact (zlt_irrefl x (Fa x Hn)).
    + destruct (proj2 (H n) (or_intror Hn)) as [E|X]; [|exact X]. subst n. exfalso. exact (zlt_irrefl x (Fc x Hn)).
Qed.

Lemma z_rankrange_rest_subset : forall z st en n, In n (snd (z_rankrange z st en)) -> In n z.
Proof.
  intros z st en n H. apply (Permutation_in n (z_rankrange_perm z st en)). apply in_or_app. right. exact H.
Qed.

Lemma z_popmax_subset : forall z n, In n (z_popmax z) -> In n z.
Proof.
  intros z n H. unfold z_popmax in H. destruct (rev z) as [|h r] eqn:E; [destruct H|].
  apply rev_cons_inv in E. subst z. apply in_or_app. left. exact H.
Qed.

Lemma z_popmax_wf : forall z, zwf z -> zwf (z_popmax z).
Proof.
  intros z W. destruct (z_peekmax z) as [n|] eqn:E; [exact (proj2 (z_popmax_spec z n W E))|].
  unfold z_peekmax in E. unfold z_popmax. destruct (rev z); [exact zwf_nil|discriminate E].
Qed.

Lemma z_popmin_wf : forall z, zwf z -> zwf (z_popmin z).
Proof.
  intros z W. destruct z as [|h r]; [exact zwf_nil|]. cbn [z_popmin]. apply zwf_cons_iff in W. exact (proj1 W).
Qed.

Lemma apply_zset_wf : forall strict z e, zwf z -> zwf (apply_zset strict z e).
Proof.
  intros strict z e W. unfold apply_zset.
  destruct (e_flag e =? F_ZAdd).
  { destruct (split_all (e_key e)) as [|k [|sc rest]]; try exact W.
    destruct (strict && negb match rest with [] => true | _ :: _ => false end); [exact W|apply z_put_wf; exact W]. }
  destruct (e_flag e =? F_ZRem); [apply z_delete_wf; exact W|].
  destruct (e_flag e =? F_ZRemRange); [apply z_rankrange_wf; exact W|].
  destruct (e_flag e =? F_ZPopMax); [apply z_popmax_wf; exact W|].
  destruct (e_flag e =? F_ZPopMin); [apply z_popmin_wf; exact W|exact W].
Qed.

(** the record is the ZAdd record of node [n] of bucket [b] (as Open decodes it) *)
Definition zadd_rec (b : bytes) (n : znode) (e : entry) : Prop :=
  e_ds e = DS_ZSet /\ e_flag e = F_ZAdd /\ e_bucket e = b /\ e_value e = z_val n /\
  exists sc, split_all (e_key e) = [z_key n; sc] /\ parse_Z sc = z_score n.

Lemma zadd_rec_esim : forall b n e e', esim e e' -> zadd_rec b n e -> zadd_rec b n e'.
Proof.
  intros b n e e' (A1 & A2 & A3 & A4 & A5 & A6) H. unfold zadd_rec. rewrite A1, A2, A3, A4, A5. exact H.
Qed.

(** open-time application: every node afterwards was there before or is the node of the record *)
Lemma apply_zset_nodes : forall z e m, In m (apply_zset true z e) ->
  In m z \/ (e_flag e = F_ZAdd /\ e_value e = z_val m /\
             exists sc, split_all (e_key e) = [z_key m; sc] /\ parse_Z sc = z_score m).
Proof.
  intros z e m H. unfold apply_zset in H.
  destruct (e_flag e =? F_ZAdd) eqn:Ef.
  { apply N.eqb_eq in Ef. destruct (split_all (e_key e)) as [|k [|sc rest]] eqn:Es; try (left; exact H).
    destruct rest as [|x rest]; cbn [andb negb] in H; [|left; exact H].
    apply z_put_In in H. destruct H as [H|H]; [|left; exact H]. right. subst m. cbn [z_key z_score z_val].
    split; [exact Ef|]. split; [reflexivity|]. exists sc. split; reflexivity. }
  left.
  destruct (e_flag e =? F_ZRem); [exact (z_delete_subset _ _ _ H)|].
  destruct (e_flag e =? F_ZRemRange); [exact (z_rankrange_rest_subset _ _ _ _ H)|].
  destruct (e_flag e =? F_ZPopMax); [exact (z_popmax_subset _ _ H)|].
  destruct (e_flag e =? F_ZPopMin); [|exact H].
  destruct z as [|h r]; [destruct H|right; exact H].
Qed.

Lemma ix_zset_apply_ds : forall strict ix e,
  ix_zset (apply_ds strict ix e) =
  if e_ds e =? DS_ZSet then aset (ix_zset ix) (e_bucket e) (apply_zset strict (getdef (ix_zset ix) (e_bucket e) []) e)
  else ix_zset ix.
Proof.
  intros strict ix e. unfold apply_ds. destruct (e_ds e =? DS_Set) eqn:E1.
  - apply N.eqb_eq in E1. rewrite E1. reflexivity.
  - destruct (e_ds e =? DS_ZSet); [reflexivity|]. destruct (e_ds e =? DS_List); reflexivity.
Qed.

Lemma ix_zset_replay1 : forall comm ix r,
  ix_zset (replay1 comm ix r) =
  if nmem (e_txid (snd r)) comm && (e_ds (snd r) =? DS_ZSet)
  then aset (ix_zset ix) (e_bucket (snd r)) (apply_zset true (getdef (ix_zset ix) (e_bucket (snd r)) []) (snd r))
  else ix_zset ix.
Proof.
  intros comm ix [[f p] e]. cbn [snd]. unfold replay1. destruct (nmem (e_txid e) comm); cbn [andb]; [|reflexivity].
  destruct (e_ds e =? DS_KV) eqn:E; [|apply ix_zset_apply_ds].
  apply N.eqb_eq in E. rewrite E. reflexivity.
Qed.

(** ** 3.2 the invariant of reachable worlds (sorted-set part) *)

(** every sorted set is well formed, and every node has its committed ZAdd record in the log *)
Definition ZI (comm : list N) (RS : list (N * N * entry)) (Z : list (bytes * zset)) : Prop :=
  (forall b z, alookup Z b = Some z -> zwf z) /\
  (forall b z n, alookup Z b = Some z -> In n z ->
     exists r, In r RS /\ nmem (e_txid (snd r)) comm = true /\ zadd_rec b n (snd r)).

Definition ZInv (w : world) : Prop := ZI (w_committed w) (recs w) (ix_zset (w_ix w)).

Lemma getdef_zwf : forall Z b, (forall b z, alookup Z b = Some z -> zwf z) -> zwf (getdef Z b []).
Proof. intros Z b H. unfold getdef. destruct (alookup Z b) as [z|] eqn:E; [exact (H b z E)|exact zwf_nil]. Qed.

Lemma getdef_in : forall (Z : list (bytes * zset)) b n, In n (getdef Z b []) -> exists z, alookup Z b = Some z /\ In n z.
Proof. intros Z b n H. unfold getdef in H. destruct (alookup Z b) as [z|]; [exists z; split; [reflexivity|exact H]|destruct H]. Qed.

Lemma replay1_zi : forall comm RS ix r, In r RS -> ZI comm RS (ix_zset ix) -> ZI comm RS (ix_zset (replay1 comm ix r)).
Proof.
  intros comm RS ix r Hr [H1 H2]. rewrite ix_zset_replay1.
  destruct (nmem (e_txid (snd r)) comm && (e_ds (snd r) =? DS_ZSet)) eqn:E; [|split; assumption].
  apply andb_true_iff in E. destruct E as [Ec Ed]. apply N.eqb_eq in Ed. split.
  - intros b z Hb. rewrite alookup_aset in Hb. destruct (bytes_eqb (e_bucket (snd r)) b); [|exact (H1 b z Hb)].
    injection Hb as Hb. subst z. apply apply_zset_wf. apply getdef_zwf. exact H1.
  - intros b z n Hb Hn. rewrite alookup_aset in Hb. destruct (bytes_eqb (e_bucket (snd r)) b) eqn:Eb; [|exact (H2 b z n Hb Hn)].
    apply bytes_eqb_eq in Eb. injection Hb as Hb. subst z.
    destruct (apply_zset_nodes _ _ _ Hn) as [Hold|(Hf & Hv & Hsc)].
    + destruct (getdef_in _ _ _ Hold) as [z0 [Hz0 Hin0]]. rewrite Eb in Hz0. exact (H2 b z0 n Hz0 Hin0).
    + exists r. split; [exact Hr|]. split; [exact Ec|]. unfold zadd_rec. repeat split; assumption.
Qed.

Lemma replay_zi : forall comm RS rs ix, (forall r, In r rs -> In r RS) ->
  ZI comm RS (ix_zset ix) -> ZI comm RS (ix_zset (fold_left (replay1 comm) rs ix)).
Proof.
  intros comm RS rs. induction rs as [|r t IH]; intros ix Hsub H; [exact H|]. cbn [fold_left].
  apply IH; [intros r' Hr'; apply Hsub; right; exact Hr'|]. apply replay1_zi; [apply Hsub; left; reflexivity|exact H].
Qed.

Lemma zi_mono : forall c1 c2 R1 R2 Z,
  (forall r, In r R1 -> In r R2) -> (forall r, In r R1 -> nmem (e_txid (snd r)) c1 = true -> nmem (e_txid (snd r)) c2 = true) ->
  ZI c1 R1 Z -> ZI c2 R2 Z.
Proof.
  intros c1 c2 R1 R2 Z Hsub Hc [H1 H2]. split; [exact H1|].
  intros b z n Hb Hn. destruct (H2 b z n Hb Hn) as [r (Hr & Hcr & Hz)].
  exists r. split; [exact (Hsub r Hr)|]. split; [exact (Hc r Hr Hcr)|exact Hz].
Qed.

Lemma zi_nil : forall comm RS, ZI comm RS [].
Proof. intros comm RS. split; [intros b z H; discriminate H|intros b z n H; discriminate H]. Qed.

Lemma entry_ok_esim : forall e e', esim e e' -> entry_ok e -> entry_ok e'.
Proof.
  intros e e' (A1 & A2 & A3 & A4 & A5 & A6) H. unfold entry_ok. rewrite A2, A4, A5. exact H.
Qed.

(** Merge keeps the ZAdd record of a node of the index *)
Lemma merge_keep_zadd : forall now w f p e b z n,
  zadd_rec b n e -> e_ttl e = 0 -> nmem (e_txid e) (w_committed w) = true ->
  alookup (ix_zset (w_ix w)) b = Some z -> zwf z -> In n z ->
  merge_keep now w f p e = true.
Proof.
  intros now w f p e b z n (Hds & Hfl & Hb & Hv & sc & Hsp & Hsc) Httl Hc Hz W Hn.
  unfold merge_keep, is_filter. rewrite Hfl, Httl, is_expired_ttl0, Hc.
  cbn [negb orb]. change (F_ZAdd =? F_Del) with false. change (F_ZAdd =? F_RPop) with false.
  change (F_ZAdd =? F_LPop) with false. change (F_ZAdd =? F_LRem) with false. change (F_ZAdd =? F_LTrim) with false.
  change (F_ZAdd =? F_ZRem) with false. change (F_ZAdd =? F_ZRemRange) with false.
  change (F_ZAdd =? F_ZPopMax) with false. change (F_ZAdd =? F_ZPopMin) with false. cbn [orb].
  rewrite Hds. change (DS_ZSet =? DS_KV) with false. cbv iota.
  unfold pending_keep. rewrite Hds. change (DS_ZSet =? DS_KV) with false. change (DS_ZSet =? DS_Set) with false.
  change (DS_ZSet =? DS_ZSet) with true. cbv iota. rewrite Hsp, Hb, Hz, (z_find_unique z n W Hn), Hsc, Hv.
  rewrite Z.eqb_refl, SetFacts.bytes_eqb_refl. reflexivity.
Qed.

(** a kept sorted-set record is the ZAdd record of a node of the index *)
Lemma merge_keep_zset_inv : forall now w f p e,
  merge_keep now w f p e = true -> e_ds e = DS_ZSet -> zflag (e_flag e) ->
  exists z n, alookup (ix_zset (w_ix w)) (e_bucket e) = Some z /\ In n z /\ zadd_rec (e_bucket e) n e.
Proof.
  intros now w f p e H Hds Hzf. destruct (merge_keep_pending now w f p e H) as [Hf Hp].
  unfold pending_keep in Hp. rewrite Hds in Hp. change (DS_ZSet =? DS_KV) with false in Hp.
  change (DS_ZSet =? DS_Set) with false in Hp. change (DS_ZSet =? DS_ZSet) with true in Hp. cbv iota in Hp.
  destruct (split_all (e_key e)) as [|k [|sc [|x rest]]] eqn:Esp; try discriminate Hp.
  destruct (alookup (ix_zset (w_ix w)) (e_bucket e)) as [z|] eqn:Ez; [|discriminate Hp].
  destruct (z_find z k) as [n|] eqn:En; [|discriminate Hp].
  apply andb_true_iff in Hp. destruct Hp as [Hsc Hv]. apply Z.eqb_eq in Hsc. apply bytes_eqb_eq in Hv.
  destruct (z_find_In z k n En) as [Hin Hk].
  exists z, n. split; [reflexivity|]. split; [exact Hin|].
  unfold zadd_rec. split; [exact Hds|]. split.
  - unfold is_filter in Hf. repeat (apply orb_false_iff in Hf; destruct Hf as [Hf ?]).
    destruct Hzf as [X|[X|[X|[X|X]]]]; [exact X| | | |]; exfalso; rewrite X in *;
      match goal with H0 : (?a =? ?a) = false |- _ => rewrite N.eqb_refl in H0; discriminate H0 end.
  - split; [reflexivity|]. split; [symmetry; exact Hv|]. exists sc. rewrite Hk. split; [exact Esp|symmetry; exact Hsc].
Qed.

(** PRESERVATION: one step of Merge keeps [ZInv] *)
Theorem merge_file_zinv : forall now w f txid,
  MInv w -> DSInv w -> ZInv w -> ~ In txid (ids_of (recs w)) -> ZInv (fst (merge_file now w f txid)).
Proof.
  intros now w f txid HM HD [Z1 Z2] Hfresh.
  destruct (merge_file_cases now w f txid HM Hfresh) as (_ & _ & HZ & _ & Hc).
  set (w' := fst (merge_file now w f txid)) in *. unfold ZInv. rewrite HZ.
  destruct Hc as [(Hr & Hcm & _)|(W & _ & Hr & Hcomm & Hsound & Hcompl)].
  { rewrite Hr, Hcm. split; assumption. }
  split; [exact Z1|]. intros b z n Hb Hn. destruct (Z2 b z n Hb Hn) as [r (Hin & Hcr & Hz)].
  rewrite Hr.
  assert (Hold : forall r0, In r0 (recs w) -> nmem (e_txid (snd r0)) (w_committed w) = true ->
                            nmem (e_txid (snd r0)) (w_committed w') = true).
  { intros r0 _ H0. destruct Hcomm as [(_ & E & _)|(ws0 & rl & _ & _ & E & _)]; rewrite E; [exact H0|].
    rewrite nmem_cons, H0. apply orb_true_r. }
  destruct (fid_of r =? f) eqn:Ef.
  - apply N.eqb_eq in Ef.
    assert (Hk : merge_keep now w f (snd (fst r)) (snd r) = true).
    { apply (merge_keep_zadd now w f _ (snd r) b z n Hz); try assumption.
      - apply (proj1 (di_recs w HD r Hin)). right. exact (proj1 Hz).
      - exact (Z1 b z Hb). }
    destruct (Hcompl r (conj Hin (conj Ef Hk))) as [r' [Hr' Hsim]].
    exists r'. split; [apply in_or_app; right; exact Hr'|]. split; [|exact (zadd_rec_esim _ _ _ _ Hsim Hz)].
    destruct Hcomm as [(E & _)|(ws0 & rl & _ & _ & E & _)]; [subst W; destruct Hr'|].
    rewrite E, (proj1 (Hsound r' Hr')), nmem_cons, N.eqb_refl. reflexivity.
  - exists r. split; [apply in_or_app; left; apply filter_In; split; [exact Hin|rewrite Ef; reflexivity]|].
    split; [exact (Hold r Hin Hcr)|exact Hz].
Qed.

Theorem do_merge_zinv : forall now w txid0,
  W2 w -> DSInv w -> ZInv w -> (forall k, ~ In (txid0 + k) (ids_of (recs w))) ->
  DSInv (fst (do_merge now w txid0)) /\ ZInv (fst (do_merge now w txid0)).
Proof.
  intros now w txid0 HW HD HZ Hfresh.
  apply (do_merge_ind (fun w => DSInv w /\ ZInv w) now); try assumption; [|split; assumption].
  intros w0 f txid HW0 [HD0 HZ0] Hf Hmin. split.
  - apply merge_file_dsinv; assumption.
  - apply merge_file_zinv; try assumption. exact (proj1 HW0).
Qed.

Lemma commit_zinv : forall w t, WInv w -> ZInv w -> w_tx w = TxActive t -> ZInv (fst (do_commit None w t)).
Proof.
  intros w t HW HZ Ht. destruct (wi_w2 w HW) as (HM & _).
  pose proof (wi_tx w HW) as Htx. rewrite Ht in Htx. cbn [tx_ok] in Htx. destruct Htx as [Hfresh Hpend].
  destruct (tx_pend t) as [|e0 rest] eqn:Ep.
  { unfold do_commit. rewrite Ep. exact HZ. }
  destruct (do_commit None w t) as [w' ok] eqn:Ec. cbn [fst]. destruct ok.
  2:{ rewrite (do_commit_false _ _ _ Ec). exact HZ. }
  destruct (do_commit_ok w t w' HM Ec) as (ws0 & rl & l & A & B & C & _ & El & Hl & _).
  { rewrite Ep. discriminate. }
  rewrite Ep in El.
  assert (Hw : forall r, In r (ws0 ++ [rl]) -> e_txid (snd r) = tx_id t /\ entry_ok (snd r)).
  { intros r Hr. destruct (written_sound ws0 rl l r Hl Hr) as (e & He & Hsim & Hid). rewrite <- El in He.
    rewrite Forall_forall in Hpend. destruct (Hpend e He) as (X & Y & _). split; [rewrite Hid; exact Y|].
    exact (entry_ok_esim _ _ Hsim X). }
  unfold ZInv. rewrite A, B, C.
  rewrite (commit_index_replay (tx_id t :: w_committed w)).
  - apply replay_zi; [intros r Hr; apply in_or_app; right; exact Hr|].
    apply (zi_mono (w_committed w) _ (recs w)); [intros r Hr; apply in_or_app; left; exact Hr| |exact HZ].
    intros r _ Hc. rewrite nmem_cons, Hc. apply orb_true_r.
  - intros r Hr. rewrite (proj1 (Hw r Hr)), nmem_cons, N.eqb_refl. reflexivity.
  - apply Forall_forall. intros r Hr. exact (proj2 (Hw r Hr)).
Qed.

Lemma open_zinv : forall w o, MInv w -> ZInv (do_open o (w_disk w)).
Proof.
  intros w o HM.
  rewrite (do_open_eq o (w_disk w) (w_maxfid w) (mi_nodup w HM) (mi_max_in w HM) (mi_max w HM)). cbv zeta.
  unfold ZInv, recs. cbn [w_disk w_ix w_committed]. unfold replay.
  apply replay_zi; [intros r Hr; exact Hr|]. apply zi_nil.
Qed.

Theorem step_zinv : forall now w c, WInv w -> ZInv w -> call_ok w c -> ZInv (fst (step now w c)).
Proof.
  intros now w c HW HZ Hc. destruct c as [wr id|o| | | |o]; cbn [step].
  - destruct (w_closed w); exact HZ.
  - destruct (w_tx w) as [|t|] eqn:Et; try exact HZ.
    pose proof (do_op_world now w t o) as Hw.
    destruct (do_op now w t o) as [[w' t'] r]. cbn [fst snd] in *. subst w'. exact HZ.
  - destruct (w_tx w) as [|t|] eqn:Et; try exact HZ.
    pose proof (commit_zinv w t HW HZ Et) as H. destruct (do_commit None w t) as [w' ok]. exact H.
  - destruct (w_tx w) as [|t|] eqn:Et; exact HZ.
  - destruct (w_closed w); exact HZ.
  - cbn [fst]. apply open_zinv. exact (proj1 (wi_w2 w HW)).
Qed.

Lemma zinv_empty : forall o, ZInv (empty_world o).
Proof. intros o. apply zi_nil. Qed.

(** every world reachable from an empty directory by engine calls and Merges satisfies [DSInv] and [ZInv] *)
Theorem reachable_zinv : forall now0 l o, acts_ok now0 (empty_world o) l ->
  DSInv (run_acts now0 (empty_world o) l) /\ ZInv (run_acts now0 (empty_world o) l).
Proof.
  intros now0 l o. generalize (winv_empty o) (dsinv_empty o) (zinv_empty o). generalize (empty_world o).
  induction l as [|a r IH]; intros w HW HD HZ H; [split; assumption|].
  cbn [acts_ok] in H. destruct H as [A B]. cbn [run_acts].
  assert (H1 : DSInv (act_step now0 w a) /\ ZInv (act_step now0 w a)).
  { destruct a as [c|now txid0]; cbn [act_step act_ok] in *.
    - split; [apply step_dsinv; assumption|apply step_zinv; assumption].
    - destruct A as [_ Hfresh]. apply do_merge_zinv; try assumption. exact (wi_w2 w HW). }
  apply IH; [apply act_step_winv; assumption|exact (proj1 H1)|exact (proj2 H1)|exact B].
Qed.

(** ** 3.3 replaying a log that holds only rewritten sorted-set records *)

(** a record is CLEAN w.r.t. the sorted sets [Z]: if it is an applied sorted-set
    record, it is the ZAdd record of a node of [Z] *)
Definition zclean (Z : list (bytes * zset)) (comm : list N) (r : N * N * entry) : Prop :=
  nmem (e_txid (snd r)) comm = true -> e_ds (snd r) = DS_ZSet ->
  exists z n, alookup Z (e_bucket (snd r)) = Some z /\ In n z /\ zadd_rec (e_bucket (snd r)) n (snd r).

Lemma zadd_rec_unique : forall b n b' n' e, zadd_rec b n e -> zadd_rec b' n' e -> b = b' /\ n = n'.
Proof.
  intros b n b' n' e (_ & _ & Hb & Hv & sc & Hsp & Hsc) (_ & _ & Hb' & Hv' & sc' & Hsp' & Hsc').
  split; [rewrite <- Hb, <- Hb'; reflexivity|].
  rewrite Hsp in Hsp'. injection Hsp' as E1 E2. subst sc'.
  destruct n as [k s v], n' as [k' s' v']. cbn [z_key z_score z_val] in *. subst. reflexivity.
Qed.

Lemma zadd_rec_apply : forall b n e z, zadd_rec b n e ->
  apply_zset true z e = z_put z (z_key n) (z_score n) (z_val n).
Proof.
  intros b n e z (_ & Hfl & _ & Hv & sc & Hsp & Hsc). unfold apply_zset. rewrite Hfl.
  change (F_ZAdd =? F_ZAdd) with true. cbv iota. rewrite Hsp. cbn [andb negb]. rewrite Hsc, Hv. reflexivity.
Qed.

Section CleanReplay.
  Variable Z0 : list (bytes * zset).
  Variable comm : list N.
  Hypothesis HW0 : forall b z, alookup Z0 b = Some z -> zwf z.

  (** what has been rebuilt so far: non-empty, well-formed parts of the sorted sets of [Z0] *)
  Definition J1 (Zc : list (bytes * zset)) : Prop :=
    forall b z', alookup Zc b = Some z' ->
      z' <> [] /\ zwf z' /\ exists z, alookup Z0 b = Some z /\ forall m, In m z' -> In m z.

  Lemma mkZ_eta : forall n, mkZ (z_key n) (z_score n) (z_val n) = n.
  Proof. intros [k s v]. reflexivity. Qed.

  Lemma clean_step : forall ix r,
    J1 (ix_zset ix) -> zclean Z0 comm r ->
    J1 (ix_zset (replay1 comm ix r)) /\
    (forall b z' n, alookup (ix_zset ix) b = Some z' -> In n z' ->
       exists z'', alookup (ix_zset (replay1 comm ix r)) b = Some z'' /\ In n z'') /\
    (nmem (e_txid (snd r)) comm = true -> forall b n, zadd_rec b n (snd r) ->
       exists z'', alookup (ix_zset (replay1 comm ix r)) b = Some z'' /\ In n z'').
  Proof.
    intros ix r HJ Hcl. rewrite ix_zset_replay1.
    destruct (nmem (e_txid (snd r)) comm) eqn:Ec; cbn [andb].
    2:{ split; [exact HJ|]. split; [|intros X; discriminate X].
        intros b z' n Hb Hn. exists z'. split; assumption. }
    destruct (e_ds (snd r) =? DS_ZSet) eqn:Ed.
    2:{ split; [exact HJ|]. split; [intros b z' n Hb Hn; exists z'; split; assumption|].
        intros _ b n (Hds & _). rewrite Hds in Ed. discriminate Ed. }
    apply N.eqb_eq in Ed. destruct (Hcl Ec Ed) as (z0 & n0 & Hz0 & Hn0 & Hrec).
    set (b0 := e_bucket (snd r)) in *.
    set (zc := getdef (ix_zset ix) b0 []).
    assert (Wc : zwf zc).
    { unfold zc, getdef. destruct (alookup (ix_zset ix) b0) as [z1|] eqn:E1; [exact (proj1 (proj2 (HJ b0 z1 E1)))|exact zwf_nil]. }
    assert (Sc : forall m, In m zc -> In m z0).
    { unfold zc, getdef. intros m Hm. destruct (alookup (ix_zset ix) b0) as [z1|] eqn:E1; [|destruct Hm].
      destruct (HJ b0 z1 E1) as (_ & _ & z & Hz & Hsub). rewrite Hz0 in Hz. injection Hz as Hz. subst z. exact (Hsub m Hm). }
    rewrite (zadd_rec_apply b0 n0 (snd r) zc Hrec).
    set (zn := z_put zc (z_key n0) (z_score n0) (z_val n0)).
    assert (Hhas : In n0 zn).
    { unfold zn. rewrite <- (mkZ_eta n0) at 1. apply z_put_has. exact Wc. }
    assert (Hkeep : forall m, In m zc -> In m zn).
    { intros m Hm. destruct (bytes_eqb (z_key m) (z_key n0)) eqn:Ek.
      - apply bytes_eqb_eq in Ek.
        rewrite (same_key_same_node z0 m n0 (HW0 b0 z0 Hz0) (Sc m Hm) Hn0 Ek). exact Hhas.
      - apply zbytes_eqb_neq in Ek. unfold zn. apply z_put_keeps; assumption. }
    split; [|split].
    - intros b z' Hb. rewrite alookup_aset in Hb. destruct (bytes_eqb b0 b) eqn:Eb; [|exact (HJ b z' Hb)].
      apply bytes_eqb_eq in Eb. subst b. injection Hb as Hb. subst z'.
      split; [intros X; rewrite X in Hhas; destruct Hhas|]. split; [apply z_put_wf; exact Wc|].
      exists z0. split; [exact Hz0|]. intros m Hm. apply z_put_In in Hm. destruct Hm as [Hm|Hm]; [|exact (Sc m Hm)].
      rewrite mkZ_eta in Hm. subst m. exact Hn0.
    - intros b z' n Hb Hn. rewrite alookup_aset. destruct (bytes_eqb b0 b) eqn:Eb; [|exists z'; split; assumption].
      apply bytes_eqb_eq in Eb. subst b. exists zn. split; [reflexivity|]. apply Hkeep.
      unfold zc, getdef. rewrite Hb. exact Hn.
    - intros _ b n Hbn. destruct (zadd_rec_unique _ _ _ _ _ Hbn Hrec) as [E1 E2]. subst b n.
      exists zn. split; [rewrite alookup_aset, SetFacts.bytes_eqb_refl; reflexivity|exact Hhas].
  Qed.

  Lemma clean_fold : forall rs ix,
    J1 (ix_zset ix) -> (forall r, In r rs -> zclean Z0 comm r) ->
    let ix' := fold_left (replay1 comm) rs ix in
    J1 (ix_zset ix') /\
    (forall b z' n, alookup (ix_zset ix) b = Some z' -> In n z' ->
       exists z'', alookup (ix_zset ix') b = Some z'' /\ In n z'') /\
    (forall r, In r rs -> nmem (e_txid (snd r)) comm = true -> forall b n, zadd_rec b n (snd r) ->
       exists z'', alookup (ix_zset ix') b = Some z'' /\ In n z'').
  Proof.
    induction rs as [|r t IH]; intros ix HJ Hcl; cbv zeta.
    - cbn [fold_left]. split; [exact HJ|]. split; [intros b z' n Hb Hn; exists z'; split; assumption|intros r []].
    - cbn [fold_left].
      destruct (clean_step ix r HJ (Hcl r (or_introl eq_refl))) as (A1 & A2 & A3).
      destruct (IH (replay1 comm ix r) A1 (fun r' Hr' => Hcl r' (or_intror Hr'))) as (B1 & B2 & B3). cbv zeta in B1, B2, B3.
      split; [exact B1|]. split.
      + intros b z' n Hb Hn. destruct (A2 b z' n Hb Hn) as [z1 [Hz1 Hn1]]. exact (B2 b z1 n Hz1 Hn1).
      + intros r' [Hr'|Hr'] Hc b n Hbn.
        * subst r'. destruct (A3 Hc b n Hbn) as [z1 [Hz1 Hn1]]. exact (B2 b z1 n Hz1 Hn1).
        * exact (B3 r' Hr' Hc b n Hbn).
  Qed.

  (** a log of clean records that holds the ZAdd record of every node of [Z0]
      replays to [Z0] without its empty sorted sets *)
  Lemma clean_replay : forall rs,
    (forall r, In r rs -> zclean Z0 comm r) ->
    (forall b z n, alookup Z0 b = Some z -> In n z ->
       exists r, In r rs /\ nmem (e_txid (snd r)) comm = true /\ zadd_rec b n (snd r)) ->
    forall b, alookup (ix_zset (replay comm rs)) b =
              match alookup Z0 b with Some (n :: z) => Some (n :: z) | _ => None end.
  Proof.
    intros rs Hcl Hprov b. unfold replay.
    assert (HJ0 : J1 (ix_zset ix_empty)) by (intros b0 z' H; discriminate H).
    destruct (clean_fold rs ix_empty HJ0 Hcl) as (B1 & _ & B3). cbv zeta in B1, B3.
    set (Zf := ix_zset (fold_left (replay1 comm) rs ix_empty)) in *.
    destruct (alookup Z0 b) as [[|n0 z0]|] eqn:E0.
    - destruct (alookup Zf b) as [z'|] eqn:Ef; [|reflexivity]. exfalso.
      destruct (B1 b z' Ef) as (Hne & _ & z & Hz & Hsub). rewrite E0 in Hz. injection Hz as Hz. subst z.
      destruct z' as [|m z']; [apply Hne; reflexivity|]. exact (Hsub m (or_introl eq_refl)).
    - destruct (Hprov b _ n0 E0 (or_introl eq_refl)) as [r (Hr & Hc & Hz)].
      destruct (B3 r Hr Hc b n0 Hz) as [z' [Hz' Hn0]]. rewrite Hz'. f_equal.
      destruct (B1 b z' Hz') as (_ & W' & z & Hz0 & Hsub). rewrite E0 in Hz0. injection Hz0 as Hz0. subst z.
      apply zwf_same_nodes; [exact W'|exact (HW0 b _ E0)|]. intros m. split; [apply Hsub|].
      intros Hm. destruct (Hprov b _ m E0 Hm) as [r2 (Hr2 & Hc2 & Hz2)].
      destruct (B3 r2 Hr2 Hc2 b m Hz2) as [z2 [Hz2' Hm2]]. rewrite Hz' in Hz2'. injection Hz2' as Hz2'. subst z2. exact Hm2.
    - destruct (alookup Zf b) as [z'|] eqn:Ef; [|reflexivity]. exfalso.
      destruct (B1 b z' Ef) as (_ & _ & z & Hz & _). rewrite E0 in Hz. discriminate Hz.
  Qed.
End CleanReplay.

(** reopening a world whose log holds only clean sorted-set records *)
Lemma reopen_clean : forall w o, MInv w -> DSInv w -> ZInv w ->
  (forall r, In r (recs w) -> zclean (ix_zset (w_ix w)) (w_committed w) r) ->
  forall b, alookup (ix_zset (w_ix (do_open o (w_disk w)))) b =
            match alookup (ix_zset (w_ix w)) b with Some (n :: z) => Some (n :: z) | _ => None end.
Proof.
  intros w o HM HD [Z1 Z2] Hcl b.
  rewrite (do_open_eq o (w_disk w) (w_maxfid w) (mi_nodup w HM) (mi_max_in w HM) (mi_max w HM)). cbv zeta.
  cbn [w_ix]. fold (recs w). apply clean_replay.
  - exact Z1.
  - intros r Hr Hc Hd. rewrite (comm_agree w HD r Hr) in Hc. exact (Hcl r Hr Hc Hd).
  - intros b0 z n Hb Hn. destruct (Z2 b0 z n Hb Hn) as [r (Hr & Hc & Hz)].
    exists r. split; [exact Hr|]. split; [rewrite (comm_agree w HD r Hr); exact Hc|exact Hz].
Qed.

(** ** 3.4 (T2, sorted sets) an EFFECTIVE Merge followed by a reopen *)

Lemma zclean_comm_ext : forall Z c1 c2 r,
  (nmem (e_txid (snd r)) c2 = true -> nmem (e_txid (snd r)) c1 = true) -> zclean Z c1 r -> zclean Z c2 r.
Proof. intros Z c1 c2 r H Hcl Hc Hd. exact (Hcl (H Hc) Hd). Qed.

(** the loop of Merge: when it ends successfully every record left in the log
    is clean.  (Before the fix "Merge replaces an active segment that holds only
    dead records" there was an exception: when nothing at all was rewritten the
    active file of the beginning stayed, with its removal records.  Every file
    of the list now leaves the log.) *)
Lemma merge_files_clean_all : forall now Z0 L w txid,
  W2 w -> DSInv w -> ix_zset (w_ix w) = Z0 -> (forall k, ~ In (txid + k) (ids_of (recs w))) -> low_files L w ->
  (forall r, In r (recs w) -> In (fid_of r) L \/ zclean Z0 (w_committed w) r) ->
  snd (merge_files now w L txid) = true ->
  forall r, In r (recs (fst (merge_files now w L txid))) ->
    zclean Z0 (w_committed (fst (merge_files now w L txid))) r.
Proof.
  intros now Z0. induction L as [|f L IH]; intros w txid HW HD HZ Hfresh Hlow HQ Hok r Hr.
  { cbn [merge_files fst] in *. destruct (HQ r Hr) as [[]|H]. exact H. }
  cbn [merge_files] in *.
  assert (Hf0 : ~ In txid (ids_of (recs w))) by (rewrite <- (N.add_0_r txid); apply Hfresh).
  pose proof HW as (HM & Hrest).
  destruct (merge_file_minv now w f txid HM Hf0) as [_ Hsub].
  pose proof (merge_file_w2 now w f txid HW Hf0) as HW1.
  pose proof (merge_file_dsinv now w f txid HW HD Hf0 (low_files_min f L w Hlow)) as HD1.
  pose proof (low_files_step now f L w txid HM Hf0 Hlow) as Hlow1.
  destruct (merge_file_cases now w f txid HM Hf0) as (_ & _ & HZ1 & _ & Hc).
  destruct (merge_file now w f txid) as [w1 ok]. cbn [fst snd] in *.
  destruct ok; [|discriminate Hok]. specialize (Hlow1 eq_refl).
  assert (Hfresh1 : forall k, ~ In (txid + 1 + k) (ids_of (recs w1))).
  { intros k Hin. unfold ids_of in Hin. apply in_map_iff in Hin. destruct Hin as [x [Ex Hx]].
    destruct (Hsub x Hx) as [H|H].
    - apply (Hfresh (1 + k)). unfold ids_of. apply in_map_iff. exists x. split; [lia|exact H].
    - lia. }
  assert (HZ1' : ix_zset (w_ix w1) = Z0) by (rewrite HZ1; exact HZ).
  destruct Hc as [(_ & _ & Hsame)|(W & _ & Hrecs & Hcomm & Hsound & _)].
  - (* no such file *)
    destruct (Hsame eq_refl) as [Ew Hnone]. subst w1.
    assert (HQ1 : forall r0, In r0 (recs w) -> In (fid_of r0) L \/ zclean Z0 (w_committed w) r0).
    { intros r0 Hr0. destruct (HQ r0 Hr0) as [[H|H]|H]; [|left; exact H|right; exact H]. exfalso.
      destruct r0 as [[g p] e]. unfold fid_of in H. cbn [fst] in H. subst g.
      unfold recs in Hr0. apply in_all_records in Hr0. destruct Hr0 as [s [Hs' _]]. rewrite Hnone in Hs'. discriminate Hs'. }
    exact (IH w (txid + 1) HW HD HZ Hfresh1 Hlow1 HQ1 Hok r Hr).
  - (* the file left the log; what was written instead is clean *)
    assert (HcR : forall r0, In r0 (recs w) -> nmem (e_txid (snd r0)) (w_committed w1) = true ->
                             nmem (e_txid (snd r0)) (w_committed w) = true).
    { intros r0 Hr0 H0. destruct Hcomm as [(_ & E & _)|(ws0 & rl & _ & _ & E & _)]; rewrite E in H0; [exact H0|].
      rewrite (fresh_not_comm txid (recs w) _ r0 Hf0 Hr0) in H0. exact H0. }
    assert (HQ1 : forall r0, In r0 (recs w1) -> In (fid_of r0) L \/ zclean Z0 (w_committed w1) r0).
    { intros r0 Hr0. rewrite Hrecs in Hr0. apply in_app_or in Hr0. destruct Hr0 as [Hr0|Hr0].
      - apply filter_In in Hr0. destruct Hr0 as [Hr0 Hne]. destruct (HQ r0 Hr0) as [[H|H]|H].
        + rewrite <- H, N.eqb_refl in Hne. discriminate Hne.
        + left. exact H.
        + right. apply (zclean_comm_ext Z0 (w_committed w)); [exact (HcR r0 Hr0)|exact H].
      - right. intros _ Hd. destruct (Hsound r0 Hr0) as (_ & _ & r1 & (Hin1 & _ & Hk1) & Hsim).
        pose proof Hsim as (S1 & _ & _ & _ & S5 & _).
        assert (Hd1 : e_ds (snd r1) = DS_ZSet) by (rewrite <- S5; exact Hd).
        destruct (merge_keep_zset_inv now w f _ _ Hk1 Hd1 (proj2 (di_recs w HD r1 Hin1) Hd1)) as (z & n & Hz & Hn & Hrec).
        exists z, n. rewrite S1, <- HZ. split; [exact Hz|]. split; [exact Hn|exact (zadd_rec_esim _ _ _ _ Hsim Hrec)]. }
    exact (IH w1 (txid + 1) HW1 HD1 HZ1' Hfresh1 Hlow1 HQ1 Hok r Hr).
Qed.

(** the former, weaker form (statement unchanged; its second alternative no longer occurs) *)
Lemma merge_files_clean : forall now Z0 L w txid,
  W2 w -> DSInv w -> ix_zset (w_ix w) = Z0 -> (forall k, ~ In (txid + k) (ids_of (recs w))) -> low_files L w ->
  (forall r, In r (recs w) -> In (fid_of r) L \/ zclean Z0 (w_committed w) r) ->
  snd (merge_files now w L txid) = true ->
  forall r, In r (recs (fst (merge_files now w L txid))) ->
    zclean Z0 (w_committed (fst (merge_files now w L txid))) r \/
    (In (w_maxfid w) L /\ w_maxfid (fst (merge_files now w L txid)) = w_maxfid w).
Proof.
  intros now Z0 L w txid HW HD HZ Hfresh Hlow HQ Hok r Hr. left.
  exact (merge_files_clean_all now Z0 L w txid HW HD HZ Hfresh Hlow HQ Hok r Hr).
Qed.

(** a successful Merge always ends on a new active file: the active file of
    the beginning is either rewritten into a higher one or, when it holds only
    dead records, replaced by a fresh empty one *)
Lemma merge_files_maxfid_mono : forall L now w txid,
  MInv w -> (forall k, ~ In (txid + k) (ids_of (recs w))) ->
  w_maxfid w <= w_maxfid (fst (merge_files now w L txid)).
Proof.
  induction L as [|f L IH]; intros now w txid HM Hfresh; [cbn [merge_files fst]; lia|].
  cbn [merge_files].
  assert (Hf0 : ~ In txid (ids_of (recs w))) by (rewrite <- (N.add_0_r txid); apply Hfresh).
  destruct (merge_file_minv now w f txid HM Hf0) as [HM1 Hsub].
  destruct (merge_file_cases now w f txid HM Hf0) as (_ & _ & _ & Hmono & _).
  destruct (merge_file now w f txid) as [w1 ok]. cbn [fst snd] in *.
  destruct ok; [|cbn [fst]; exact Hmono].
  assert (Hfresh1 : forall k, ~ In (txid + 1 + k) (ids_of (recs w1))).
  { intros k Hin. unfold ids_of in Hin. apply in_map_iff in Hin. destruct Hin as [x [Ex Hx]].
    destruct (Hsub x Hx) as [H|H].
    - apply (Hfresh (1 + k)). unfold ids_of. apply in_map_iff. exists x. split; [lia|exact H].
    - lia. }
  pose proof (IH now w1 (txid + 1) HM1 Hfresh1) as H1. lia.
Qed.

Lemma merge_files_new_active : forall L now w txid,
  MInv w -> (forall k, ~ In (txid + k) (ids_of (recs w))) -> In (w_maxfid w) L ->
  snd (merge_files now w L txid) = true ->
  w_maxfid w < w_maxfid (fst (merge_files now w L txid)).
Proof.
  induction L as [|f L IH]; intros now w txid HM Hfresh HinL Hok; [destruct HinL|].
  cbn [merge_files] in *.
  assert (Hf0 : ~ In txid (ids_of (recs w))) by (rewrite <- (N.add_0_r txid); apply Hfresh).
  destruct (merge_file_minv now w f txid HM Hf0) as [HM1 Hsub].
  destruct (merge_file_cases now w f txid HM Hf0) as (_ & _ & _ & Hmono & Hc).
  destruct (merge_file now w f txid) as [w1 ok]. cbn [fst snd] in *.
  destruct ok; [|discriminate Hok].
  assert (Hfresh1 : forall k, ~ In (txid + 1 + k) (ids_of (recs w1))).
  { intros k Hin. unfold ids_of in Hin. apply in_map_iff in Hin. destruct Hin as [x [Ex Hx]].
    destruct (Hsub x Hx) as [H|H].
    - apply (Hfresh (1 + k)). unfold ids_of. apply in_map_iff. exists x. split; [lia|exact H].
    - lia. }
  pose proof (merge_files_maxfid_mono L now w1 (txid + 1) HM1 Hfresh1) as Hmono1.
  assert (Hstay : w_maxfid w1 = w_maxfid w -> f <> w_maxfid w ->
                  w_maxfid w < w_maxfid (fst (merge_files now w1 L (txid + 1)))).
  { intros Em Hne. destruct HinL as [E|HinL]; [contradiction|].
    rewrite <- Em in HinL. pose proof (IH now w1 (txid + 1) HM1 Hfresh1 HinL Hok) as H1. lia. }
  destruct Hc as [(_ & _ & Hsame)|(W & _ & _ & Hcomm & _)].
  - destruct (Hsame eq_refl) as [Ew Hnone]. apply Hstay; [rewrite Ew; reflexivity|].
    intros E. subst f. destruct (disk_get_in _ _ (mi_max_in w HM)) as [s0 Hs0]. rewrite Hs0 in Hnone. discriminate Hnone.
  - destruct Hcomm as [(_ & _ & [(Em & Hne)|(Em & _)])|(ws0 & rl & _ & _ & _ & Hlt)].
    + exact (Hstay Em Hne).
    + lia.
    + lia.
Qed.

Theorem merge_ok_new_active : forall now w txid0,
  MInv w -> (forall k, ~ In (txid0 + k) (ids_of (recs w))) -> snd (do_merge now w txid0) = true ->
  w_maxfid w < w_maxfid (fst (do_merge now w txid0)).
Proof.
  intros now w txid0 HM Hfresh. unfold do_merge. destruct (w_closed w); [intros X; discriminate X|].
  assert (Hin : In (w_maxfid w) (disk_fids (w_disk w))).
  { unfold disk_fids. apply nsort_in. exact (mi_max_in w HM). }
  destruct (disk_fids (w_disk w)) as [|a [|c l]]; [intros X; discriminate X|intros X; discriminate X|].
  intros Hok. exact (merge_files_new_active (a :: c :: l) now w txid0 HM Hfresh Hin Hok).
Qed.

(** (T2, sorted sets, under the invariants) if Merge succeeded, then after a
    reopen every sorted-set bucket that had at least one node holds exactly the
    same nodes (key, score, value) in the same order, and nothing else exists:
    the buckets without node are gone (F30).  The former hypothesis "Merge
    rewrote at least one record" ([w_maxfid] changed) is no longer needed: a
    successful Merge leaves none of the records it started with in the log
    ([merge_files_clean_all]) and always ends on a new active file
    ([merge_ok_new_active]). *)
Theorem merge_reopen_zsets_inv : forall now w txid0 o,
  W2 w -> DSInv w -> ZInv w -> (forall k, ~ In (txid0 + k) (ids_of (recs w))) ->
  snd (do_merge now w txid0) = true ->
  forall b,
  alookup (ix_zset (w_ix (do_open o (w_disk (fst (do_merge now w txid0)))))) b =
  match alookup (ix_zset (w_ix w)) b with Some (n :: z) => Some (n :: z) | _ => None end.
Proof.
  intros now w txid0 o HW HD HZ Hfresh Hok b.
  destruct (do_merge_zinv now w txid0 HW HD HZ Hfresh) as [HD1 HZ1].
  pose proof (do_merge_w2 now w txid0 HW Hfresh) as HW1.
  rewrite <- (proj2 (merge_ds_unchanged now w txid0)).
  apply reopen_clean; [exact (proj1 HW1)|exact HD1|exact HZ1|].
  rewrite (proj2 (merge_ds_unchanged now w txid0)).
  revert Hok. unfold do_merge. destruct (w_closed w); [intros X; discriminate X|].
  pose proof (low_files_init w (proj1 HW)) as Hlow.
  assert (HQ : forall r, In r (recs w) -> In (fid_of r) (disk_fids (w_disk w)) \/ zclean (ix_zset (w_ix w)) (w_committed w) r).
  { intros [[g p] e] Hin. left. unfold fid_of, disk_fids. cbn [fst]. apply nsort_in. exact (in_recs_fid _ _ _ _ Hin). }
  destruct (disk_fids (w_disk w)) as [|a [|c l]]; [intros X; discriminate X|intros X; discriminate X|].
  intros Hok r Hr.
  exact (merge_files_clean_all now (ix_zset (w_ix w)) (a :: c :: l) w txid0 HW HD eq_refl Hfresh Hlow HQ Hok r Hr).
Qed.

(** (T2, sorted sets) the same for every world reachable by engine calls, reopens and Merges *)
Theorem merge_reopen_zsets : forall now0 l o now txid0 o',
  acts_ok now0 (empty_world o) l ->
  let w := run_acts now0 (empty_world o) l in
  (forall k, ~ In (txid0 + k) (ids_of (recs w))) ->
  snd (do_merge now w txid0) = true ->
  forall b,
  alookup (ix_zset (w_ix (do_open o' (w_disk (fst (do_merge now w txid0)))))) b =
  match alookup (ix_zset (w_ix w)) b with Some (n :: z) => Some (n :: z) | _ => None end.
Proof.
  intros now0 l o now txid0 o' Hacts w Hfresh Hok.
  destruct (reachable_zinv now0 l o Hacts) as [HD HZ].
  apply merge_reopen_zsets_inv; try assumption. exact (wi_w2 w (reachable_winv now0 l o Hacts)).
Qed.

(** ** 3.5 what is NOT true for sorted sets: three witnesses *)

Definition zx_b : bytes := [x62].
Definition zx_big : bytes := repeat x61 100.
Definition zx_members (w : world) (b : bytes) : res :=
  snd (step 0 (fst (step 0 w (CBegin false 99))) (COp (OZMembers b))).

(** (1) F30 for sorted sets: the bucket "b" whose only node was removed is
    gone after an effective Merge and a reopen (ZMembers: empty list before,
    error after) *)
Definition zf_o : opts := mkOpts 0 FileIO FileIO false 100.
Definition zf_acts : list act :=
  [ACall (CBegin true 1); ACall (COp (OZAdd zx_b [x61] 1 [x76])); ACall CCommit;
   ACall (CBegin true 2); ACall (COp (OZRem zx_b [x61])); ACall CCommit;
   ACall (CBegin true 3); ACall (COp (OZAdd [x63] [x62] 2 [x76])); ACall CCommit].
Definition zf_w : world := run_acts 0 (empty_world zf_o) zf_acts.

Lemma zf_calls_ok : acts_ok 0 (empty_world zf_o) zf_acts.
Proof.
  vm_compute. repeat split; try exact I.
  - intros [].
  - intros [X|[]]; discriminate X.
  - intros [X|[X|[]]]; discriminate X.
Qed.

Lemma zf_merge_ok : act_ok (run_acts 0 (empty_world zf_o) zf_acts) (AMerge 0 10).
Proof.
  unfold act_ok. split; [right; vm_compute; reflexivity|].
  assert (E : ids_of (recs (run_acts 0 (empty_world zf_o) zf_acts)) = [1; 2; 3]) by (vm_compute; reflexivity).
  intros k Hin. rewrite E in Hin. destruct Hin as [X|[X|[X|[]]]]; lia.
Qed.

Lemma zf_acts_ok : acts_ok 0 (empty_world zf_o) (zf_acts ++ [AMerge 0 10]).
Proof. exact (acts_ok_snoc 0 zf_acts (AMerge 0 10) (empty_world zf_o) zf_calls_ok zf_merge_ok). Qed.

Example merge_drops_empty_zset_bucket :
  zx_members zf_w zx_b = RNodes [] /\                                                   (* the empty bucket exists *)
  zx_members (do_open zf_o (w_disk zf_w)) zx_b = RNodes [] /\                            (* a plain reopen keeps it *)
  snd (do_merge 0 zf_w 10) = true /\ w_maxfid (fst (do_merge 0 zf_w 10)) <> w_maxfid zf_w /\   (* an effective Merge *)
  zx_members (fst (do_merge 0 zf_w 10)) zx_b = RNodes [] /\                              (* in process: still there *)
  zx_members (do_open zf_o (w_disk (fst (do_merge 0 zf_w 10)))) zx_b = RErr /\           (* Merge + reopen: gone *)
  zx_members (do_open zf_o (w_disk (fst (do_merge 0 zf_w 10)))) [x63] = RNodes [mkZ [x62] 2 [x76]].
Proof. vm_compute. repeat split; try reflexivity. intros X; discriminate X. Qed.

(** (2) FORMER FINDING, gone with the fix "Merge replaces an active segment that
    holds only dead records".  ZAdd a 1 | ZAdd b 2; ZRemRangeByRank 2 2 (removes
    b); ZRem a — the bucket is empty, no record is live.  Merge used to drop the
    first file and keep the active one untouched; replayed WITHOUT the first
    file, rank 2 no longer exists, ZRemRangeByRank removes nothing, and node b
    was back after the reopen ([merge_reopen_resurrects_zset_node], which made
    the hypothesis "Merge rewrote at least one record" of [merge_reopen_zsets]
    necessary).  (Positional removals — ranks, PopMin, PopMax — do not commute
    with dropping older records.)  Merge now replaces the dead active file by a
    fresh one as well: on the very same history no removal record survives,
    the node stays removed after the reopen (the bucket, empty, is gone: F30),
    and [merge_reopen_zsets] needs no such hypothesis any more. *)
Definition zr_o : opts := mkOpts 0 FileIO FileIO false 260.
Definition zr_acts : list act :=
  [ACall (CBegin true 1); ACall (COp (OZAdd zx_b [x61] 1 zx_big)); ACall CCommit;
   ACall (CBegin true 2); ACall (COp (OZAdd zx_b [x62] 2 zx_big)); ACall CCommit;
   ACall (CBegin true 3); ACall (COp (OZRemRangeByRank zx_b 2 2)); ACall CCommit;
   ACall (CBegin true 4); ACall (COp (OZRem zx_b [x61])); ACall CCommit].
Definition zr_w : world := run_acts 0 (empty_world zr_o) zr_acts.

Lemma zr_calls_ok : acts_ok 0 (empty_world zr_o) zr_acts.
Proof.
  vm_compute. repeat split; try exact I.
  - intros [].
  - intros [X|[]]; discriminate X.
  - intros [X|[X|[]]]; discriminate X.
  - intros [X|[X|[X|[]]]]; discriminate X.
Qed.

Lemma zr_merge_ok : act_ok (run_acts 0 (empty_world zr_o) zr_acts) (AMerge 0 10).
Proof.
  unfold act_ok. split; [right; vm_compute; reflexivity|].
  assert (E : ids_of (recs (run_acts 0 (empty_world zr_o) zr_acts)) = [1; 2; 3; 4]) by (vm_compute; reflexivity).
  intros k Hin. rewrite E in Hin. destruct Hin as [X|[X|[X|[X|[]]]]]; lia.
Qed.

Lemma zr_acts_ok : acts_ok 0 (empty_world zr_o) (zr_acts ++ [AMerge 0 10]).
Proof. exact (acts_ok_snoc 0 zr_acts (AMerge 0 10) (empty_world zr_o) zr_calls_ok zr_merge_ok). Qed.

Example merge_reopen_no_longer_resurrects_zset_node :
  zx_members zr_w zx_b = RNodes [] /\                                            (* before Merge: no node *)
  zx_members (do_open zr_o (w_disk zr_w)) zx_b = RNodes [] /\                     (* a plain reopen agrees *)
  snd (do_merge 0 zr_w 10) = true /\                                              (* Merge succeeds, nothing to rewrite *)
  w_maxfid zr_w = 1 /\ w_maxfid (fst (do_merge 0 zr_w 10)) = 2 /\                 (* the dead active file is replaced *)
  map fst (w_disk zr_w) = [0; 1] /\ w_disk (fst (do_merge 0 zr_w 10)) = [(2, [])] /\   (* both files are dropped, a fresh one is active *)
  zx_members (fst (do_merge 0 zr_w 10)) zx_b = RNodes [] /\                       (* in process: unchanged *)
  zx_members (do_open zr_o (w_disk (fst (do_merge 0 zr_w 10)))) zx_b = RErr /\    (* after the reopen: no node (empty bucket gone, F30) *)
  zx_members (do_open zr_o (w_disk (fst (do_merge 0 zr_w 10)))) zx_b <> RNodes [mkZ [x62] 2 zx_big] /\  (* b is NOT back *)
  alookup (ix_zset (w_ix (do_open zr_o (w_disk (fst (do_merge 0 zr_w 10)))))) zx_b = None.
Proof. vm_compute. repeat split; try reflexivity. intros X; discriminate X. Qed.

(** the same fact for every bucket and every reopen options, as an instance of
    the general theorem [merge_reopen_zsets] (no computation on the merged world) *)
Example merge_reopen_zsets_on_former_counterexample : forall o' b,
  alookup (ix_zset (w_ix (do_open o' (w_disk (fst (do_merge 0 zr_w 10)))))) b = None.
Proof.
  intros o' b. unfold zr_w.
  pose proof (merge_reopen_zsets 0 zr_acts zr_o 0 10 o' zr_calls_ok) as H. cbv zeta in H.
  set (w := run_acts 0 (empty_world zr_o) zr_acts) in *.
  assert (Hok : snd (do_merge 0 w 10) = true) by (vm_compute; reflexivity).
  rewrite (H (proj2 zr_merge_ok) Hok b).
  assert (E : ix_zset (w_ix w) = [(zx_b, [])]) by (vm_compute; reflexivity).
  rewrite E. cbn [alookup]. destruct (bytes_eqb zx_b b); reflexivity.
Qed.

(** (3) (T3) for sorted sets the contents are NOT unchanged after a FAILED
    Merge and a reopen.  ZAdd a 1 | ZAdd b 2; ZPopMin (pops a) — node b is
    live.  The database is reopened with a segment size smaller than its
    records; Merge drops the first file (nothing live), then the rewrite
    transaction of the second file is rejected and Merge stops.  In process
    nothing changed ([merge_ds_unchanged]); replayed without the first file,
    ZPopMin pops b: after the reopen the live node is lost. *)
Definition zl_o : opts := mkOpts 0 FileIO FileIO false 150.
Definition zl_o10 : opts := mkOpts 0 FileIO FileIO false 10.
Definition zl_acts : list act :=
  [ACall (CBegin true 1); ACall (COp (OZAdd zx_b [x61] 1 zx_big)); ACall CCommit;
   ACall (CBegin true 2); ACall (COp (OZAdd zx_b [x62] 2 [x76])); ACall CCommit;
   ACall (CBegin true 3); ACall (COp (OZPopMin zx_b)); ACall CCommit; ACall (COpen zl_o10)].
Definition zl_w : world := run_acts 0 (empty_world zl_o) zl_acts.

Lemma zl_calls_ok : acts_ok 0 (empty_world zl_o) zl_acts.
Proof.
  vm_compute. repeat split; try exact I.
  - intros [].
  - intros [X|[]]; discriminate X.
  - intros [X|[X|[]]]; discriminate X.
Qed.

Lemma zl_merge_ok : act_ok (run_acts 0 (empty_world zl_o) zl_acts) (AMerge 0 10).
Proof.
  unfold act_ok. split; [left; vm_compute; reflexivity|].
  assert (E : ids_of (recs (run_acts 0 (empty_world zl_o) zl_acts)) = [1; 2; 3]) by (vm_compute; reflexivity).
  intros k Hin. rewrite E in Hin. destruct Hin as [X|[X|[X|[]]]]; lia.
Qed.

Lemma zl_acts_ok : acts_ok 0 (empty_world zl_o) (zl_acts ++ [AMerge 0 10]).
Proof. exact (acts_ok_snoc 0 zl_acts (AMerge 0 10) (empty_world zl_o) zl_calls_ok zl_merge_ok). Qed.

Example merge_failed_rewrite_reopen_loses_zset_node :
  zx_members zl_w zx_b = RNodes [mkZ [x62] 2 [x76]] /\                            (* before Merge: node b *)
  snd (do_merge 0 zl_w 10) = false /\                                              (* the rewrite is rejected *)
  zx_members (fst (do_merge 0 zl_w 10)) zx_b = RNodes [mkZ [x62] 2 [x76]] /\       (* in process: unchanged *)
  zx_members (do_open zl_o10 (w_disk (fst (do_merge 0 zl_w 10)))) zx_b = RNodes [] /\   (* after the reopen: b is lost *)
  zx_members (do_open zl_o (w_disk (fst (do_merge 0 zl_w 10)))) zx_b = RNodes [].
Proof. vm_compute. repeat split; reflexivity. Qed.

(** ------------------------------------------------------------------ *)
(** * Part 4: (T3) a rewrite transaction of Merge fails                  *)
(** ------------------------------------------------------------------ *)
(** In the running process: [merge_ds_unchanged] holds whatever the flag.
    Sets after a reopen: [merge_reopen_set_members] / [merge_reopen_set_keys]
    do not look at the flag either; the instance for a failed Merge is spelled
    out below.  Sorted sets after a reopen: false, see
    [merge_failed_rewrite_reopen_loses_zset_node]. *)
Corollary merge_failed_ds_unchanged : forall now w txid0,
  snd (do_merge now w txid0) = false ->
  ix_set (w_ix (fst (do_merge now w txid0))) = ix_set (w_ix w) /\
  ix_zset (w_ix (fst (do_merge now w txid0))) = ix_zset (w_ix w).
Proof. intros now w txid0 _. apply merge_ds_unchanged. Qed.

Corollary merge_failed_reopen_set_members : forall now0 l o now txid0 o',
  acts_ok now0 (empty_world o) l ->
  let w := run_acts now0 (empty_world o) l in
  (forall k, ~ In (txid0 + k) (ids_of (recs w))) ->
  snd (do_merge now w txid0) = false ->
  forall b k x,
  ismem (ix_set (w_ix (do_open o' (w_disk (fst (do_merge now w txid0)))))) b k x = ismem (ix_set (w_ix w)) b k x.
Proof. intros now0 l o now txid0 o' Hacts w Hfresh _. apply merge_reopen_set_members; assumption. Qed.

Print Assumptions merge_ds_unchanged.
Print Assumptions merge_ds_reads_unchanged.
Print Assumptions reachable_zinv.
Print Assumptions reopen_set_members.
Print Assumptions merge_reopen_set_members.
Print Assumptions merge_reopen_set_keys.
Print Assumptions merge_drops_empty_set_key.
Print Assumptions merge_reopen_zsets_inv.
Print Assumptions merge_reopen_zsets.
Print Assumptions merge_drops_empty_zset_bucket.
Print Assumptions merge_ok_new_active.
Print Assumptions merge_reopen_no_longer_resurrects_zset_node.
Print Assumptions merge_reopen_zsets_on_former_counterexample.
Print Assumptions merge_failed_rewrite_reopen_loses_zset_node.
Print Assumptions merge_failed_reopen_set_members.
