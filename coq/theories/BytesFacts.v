(** BytesFacts.v — lemmas about Bytes.v (proof-only file). *)
From Verif Require Import Bytes.
From Coq Require Import ZifyN ZifyNat ZifyBool.
Open Scope N_scope.
Ltac Zify.zify_post_hook ::= Z.div_mod_to_equations.

Lemma b2n_lt (b : byte) : b2n b < 256.
Proof. unfold b2n. pose proof (Byte.to_N_bounded b). lia. Qed.

Lemma b2n_n2b (n : N) : b2n (n2b n) = n mod 256.
Proof.
  unfold b2n, n2b.
  destruct (Byte.of_N (n mod 256)) eqn:E.
  - apply Byte.to_of_N in E. exact E.
  - apply Byte.of_N_None_iff in E. pose proof (N.mod_lt n 256). lia.
Qed.

Lemma n2b_b2n (b : byte) : n2b (b2n b) = b.
Proof.
  unfold n2b, b2n. rewrite N.mod_small by (pose proof (Byte.to_N_bounded b); lia).
  rewrite Byte.of_to_N. reflexivity.
Qed.

Lemma b2n_inj a b : b2n a = b2n b -> a = b.
Proof. intros H. rewrite <- (n2b_b2n a), <- (n2b_b2n b), H. reflexivity. Qed.

Lemma byte_eqb_eq a b : byte_eqb a b = true <-> a = b.
Proof. unfold byte_eqb. split; [apply Byte.byte_dec_bl|apply Byte.byte_dec_lb]. Qed.

Lemma byte_eqb_refl a : byte_eqb a a = true.
Proof. apply byte_eqb_eq. reflexivity. Qed.

Lemma bytes_eqb_eq a b : bytes_eqb a b = true <-> a = b.
Proof.
  revert b; induction a as [|x a IH]; intros [|y b]; cbn; split; intros H;
    try reflexivity; try discriminate.
  - apply andb_true_iff in H as [H1 H2]. apply byte_eqb_eq in H1. apply IH in H2. congruence.
  - inversion H; subst. rewrite byte_eqb_refl. cbn. apply IH. reflexivity.
Qed.

Lemma length_le_enc n v : length (le_enc n v) = n.
Proof. revert v; induction n as [|n IH]; intros v; cbn; [reflexivity|]. rewrite IH. reflexivity. Qed.

Lemma le_dec_enc n v : le_dec (le_enc n v) = v mod (256 ^ N.of_nat n).
Proof.
  revert v; induction n as [|n IH]; intros v.
  - cbn. rewrite N.mod_1_r. reflexivity.
  - cbn [le_enc le_dec]. rewrite IH, b2n_n2b.
    rewrite Nat2N.inj_succ, N.pow_succ_r'.
    assert (Hp : 256 ^ N.of_nat n <> 0) by (apply N.pow_nonzero; lia).
    rewrite (N.mod_mul_r v 256 (256 ^ N.of_nat n)) by lia. reflexivity.
Qed.

Lemma le_dec_enc_small n v : v < 256 ^ N.of_nat n -> le_dec (le_enc n v) = v.
Proof. intros H. rewrite le_dec_enc. apply N.mod_small. exact H. Qed.

Lemma le_dec_bound bs : le_dec bs < 256 ^ N.of_nat (length bs).
Proof.
  induction bs as [|b bs IH]; cbn [le_dec length].
  - cbn. lia.
  - rewrite Nat2N.inj_succ, N.pow_succ_r'. pose proof (b2n_lt b). lia.
Qed.

Lemma le_enc_dec bs : le_enc (length bs) (le_dec bs) = bs.
Proof.
  induction bs as [|b bs IH]; cbn [le_enc le_dec length]; [reflexivity|].
  pose proof (b2n_lt b).
  f_equal.
  - rewrite <- (n2b_b2n b) at 2. unfold n2b.
    replace ((b2n b + 256 * le_dec bs) mod 256) with (b2n b mod 256) by lia. reflexivity.
  - replace ((b2n b + 256 * le_dec bs) / 256) with (le_dec bs) by lia. exact IH.
Qed.

(** slices of concatenations *)
Lemma slice_app_here {A} (a b : list A) n : length a = n -> firstn n (a ++ b) = a.
Proof. intros <-. rewrite firstn_app, Nat.sub_diag, firstn_all. cbn. apply app_nil_r. Qed.

Lemma skipn_app_here {A} (a b : list A) n : length a = n -> skipn n (a ++ b) = b.
Proof. intros <-. rewrite skipn_app, Nat.sub_diag, skipn_all. reflexivity. Qed.

Lemma skipn_app_more {A} (a b : list A) n k : length a = n -> skipn (n + k) (a ++ b) = skipn k b.
Proof.
  intros <-. rewrite skipn_app. rewrite skipn_all2 by lia. cbn.
  f_equal. lia.
Qed.

Lemma blen_app a b : blen (a ++ b) = blen a + blen b.
Proof. unfold blen. rewrite app_length. lia. Qed.

Lemma blen_le_enc n v : blen (le_enc n v) = N.of_nat n.
Proof. unfold blen. rewrite length_le_enc. reflexivity. Qed.

Lemma to_nat_blen b : N.to_nat (blen b) = length b.
Proof. unfold blen. apply Nat2N.id. Qed.

(** bcompare is a total order compatible with equality *)
Lemma bcompare_refl a : bcompare a a = Eq.
Proof. induction a as [|x a IH]; cbn; [reflexivity|]. rewrite N.compare_refl. exact IH. Qed.

Lemma bcompare_eq a b : bcompare a b = Eq <-> a = b.
Proof.
  revert b; induction a as [|x a IH]; intros [|y b]; cbn; split; intros H;
    try reflexivity; try discriminate.
  - destruct (N.compare_spec (b2n x) (b2n y)) as [E|E|E]; try discriminate.
    apply b2n_inj in E. apply IH in H. congruence.
  - inversion H; subst. rewrite N.compare_refl. apply IH. reflexivity.
Qed.

Lemma bcompare_antisym a b : bcompare b a = CompOpp (bcompare a b).
Proof.
  revert b; induction a as [|x a IH]; intros [|y b]; cbn; try reflexivity.
  rewrite (N.compare_antisym (b2n x) (b2n y)).
  destruct (N.compare (b2n x) (b2n y)); cbn; [apply IH|reflexivity|reflexivity].
Qed.

Lemma bcompare_lt_trans a b c : bcompare a b = Lt -> bcompare b c = Lt -> bcompare a c = Lt.
Proof.
  revert b c; induction a as [|x a IH]; intros [|y b] [|z c]; cbn; try congruence.
  destruct (N.compare_spec (b2n x) (b2n y)) as [E1|E1|E1];
  destruct (N.compare_spec (b2n y) (b2n z)) as [E2|E2|E2];
  destruct (N.compare_spec (b2n x) (b2n z)) as [E3|E3|E3]; try congruence; try lia.
  apply IH.
Qed.

Lemma has_prefix_app s p : has_prefix s p = true <-> exists r, s = p ++ r.
Proof.
  revert s; induction p as [|y p IH]; intros s; cbn.
  - split; [intros _; exists s; reflexivity|reflexivity].
  - destruct s as [|x s]; cbn.
    + split; [discriminate|intros [r H]; discriminate].
    + rewrite andb_true_iff, byte_eqb_eq, IH. split.
      * intros [-> [r ->]]. exists r. reflexivity.
      * intros [r H]. inversion H; subst. split; [reflexivity|exists r; reflexivity].
Qed.
