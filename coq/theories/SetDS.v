(** SetDS.v — model of ds/set/set.go (map key -> set of members).
    A set is a duplicate-free list; Go's map iteration order is abstracted:
    every list-valued result is returned sorted (the harness sorts too) and
    SPop takes the member the implementation chose as an oracle input. *)
From Verif Require Export Bytes ListDS.

Definition smap := list (bytes * list bytes).

Fixpoint bmem (x : bytes) (l : list bytes) : bool :=
  match l with [] => false | y :: r => bytes_eqb y x || bmem x r end.

Definition sadd1 (l : list bytes) (x : bytes) : list bytes := if bmem x l then l else l ++ [x].

Fixpoint bremove (x : bytes) (l : list bytes) : list bytes :=
  match l with [] => [] | y :: r => if bytes_eqb y x then bremove x r else y :: bremove x r end.

(** insertion sort by bytes.Compare — canonical order of set-valued results *)
Fixpoint binsert (x : bytes) (l : list bytes) : list bytes :=
  match l with
  | [] => [x]
  | y :: r => if bleb x y then x :: l else y :: binsert x r
  end.
Definition bsort (l : list bytes) : list bytes := fold_right binsert [] l.

(** Set.SAdd(key, items...) — creates the key even for zero items *)
Definition s_sadd (m : smap) (k : bytes) (items : list bytes) : smap :=
  aset m k (fold_left sadd1 items (match alookup m k with Some l => l | None => [] end)).

(** Set.SRem(key, items...) — error (no change) when the key is missing or the
    first item is empty; items must be non-empty (items[0] is read) *)
Definition s_srem (m : smap) (k : bytes) (items : list bytes) : smap * bool :=
  match alookup m k with
  | None => (m, false)
  | Some l =>
      match items with
      | [] => (m, false)   (* Go: index out of range; never called so *)
      | i0 :: _ =>
          match i0 with
          | [] => (m, false)
          | _ => (aset m k (fold_left (fun acc x => bremove x acc) items l), true)
          end
      end
  end.

Definition s_haskey (m : smap) (k : bytes) : bool :=
  match alookup m k with Some _ => true | None => false end.

Definition s_card (m : smap) (k : bytes) : Z :=
  match alookup m k with Some l => zlen l | None => 0%Z end.

Definition s_ismember (m : smap) (k x : bytes) : bool :=
  match alookup m k with Some l => bmem x l | None => false end.

(** SAreMembers: (true,nil) iff key exists and all items are members *)
Definition s_aremembers (m : smap) (k : bytes) (items : list bytes) : bool :=
  match alookup m k with
  | Some l => forallb (fun x => bmem x l) items
  | None => false
  end.

Definition s_members (m : smap) (k : bytes) : option (list bytes) :=
  match alookup m k with Some l => Some (bsort l) | None => None end.

Definition sdiff_l (a b : list bytes) : list bytes := filter (fun x => negb (bmem x b)) a.
Definition sunion_l (a b : list bytes) : list bytes := a ++ sdiff_l b a.

Definition s_diff (m : smap) (k1 k2 : bytes) : option (list bytes) :=
  match alookup m k1, alookup m k2 with
  | Some a, Some b => Some (bsort (sdiff_l a b))
  | _, _ => None
  end.

Definition s_union (m : smap) (k1 k2 : bytes) : option (list bytes) :=
  match alookup m k1, alookup m k2 with
  | Some a, Some b => Some (bsort (sunion_l a b))
  | _, _ => None
  end.

(** Set.SMove(key1, key2, item): both keys must exist; adds to key2 when
    absent there, then SRem(key1,item) whose error (empty item) is ignored *)
Definition s_move (m : smap) (k1 k2 x : bytes) : smap * bool :=
  match alookup m k1, alookup m k2 with
  | Some _, Some l2 =>
      let m1 := if bmem x l2 then m else s_sadd m k2 [x] in
      (fst (s_srem m1 k1 [x]), true)
  | _, _ => (m, false)
  end.

Definition sinter_l (a b : list bytes) : list bytes := filter (fun x => bmem x b) a.
Definition s_inter (m : smap) (k1 k2 : bytes) : option (list bytes) :=
  match alookup m k1, alookup m k2 with
  | Some a, Some b => Some (bsort (sinter_l a b))
  | _, _ => None
  end.

(** Set.SPop(key) with the popped member as oracle input *)
Definition s_spop (m : smap) (k : bytes) (choice : bytes) : option smap :=
  match alookup m k with
  | Some l => if bmem choice l then Some (aset m k (bremove choice l)) else None
  | None => None
  end.
