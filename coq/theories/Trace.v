(** Trace.v — the file-mutation protocol of Commit and what a power loss can
    leave behind (C11).  A trace is the sequence of data-file events a run
    issues; [vol] is what the page cache holds after a prefix of the trace,
    [dur] what is guaranteed on stable storage: the writes that precede the
    last sync of their file. *)
From Coq Require Import List Arith Lia Bool.
Import ListNotations.

Inductive ev := EWrite (f : nat) (r : nat) | ESync (f : nat).   (* file id, record id *)

(** records written to file [f], oldest first *)
Fixpoint vol (tr : list ev) (f : nat) : list nat :=
  match tr with
  | [] => []
  | EWrite g r :: t => if Nat.eqb g f then r :: vol t f else vol t f
  | ESync _ :: t => vol t f
  end.

(** records of file [f] that were written before its last sync *)
Fixpoint dur_acc (tr : list ev) (f : nat) (pending synced : list nat) : list nat :=
  match tr with
  | [] => synced
  | EWrite g r :: t => if Nat.eqb g f then dur_acc t f (pending ++ [r]) synced else dur_acc t f pending synced
  | ESync g :: t => if Nat.eqb g f then dur_acc t f [] (synced ++ pending) else dur_acc t f pending synced
  end.
Definition dur (tr : list ev) (f : nat) : list nat := dur_acc tr f [] [].

(** the protocol of Commit with SyncEnable: every record write is followed at
    once by a sync of the same file (tx.go: WriteAt; if SyncEnable { Sync }) *)
Fixpoint synced_writes (tr : list ev) : Prop :=
  match tr with
  | [] => True
  | EWrite f _ :: ESync g :: t => f = g /\ synced_writes t
  | EWrite _ _ :: _ => False
  | ESync _ :: t => synced_writes t
  end.

(** executable version, evaluated by the harness on the real trace *)
Fixpoint synced_writesb (tr : list ev) : bool :=
  match tr with
  | [] => true
  | EWrite f _ :: ESync g :: t => Nat.eqb f g && synced_writesb t
  | EWrite _ _ :: _ => false
  | ESync _ :: t => synced_writesb t
  end.

(** the trace the engine model's Commit issues for the records it writes *)
Definition commit_events (sync : bool) (ws : list (nat * nat)) : list ev :=
  flat_map (fun fr => EWrite (fst fr) (snd fr) :: if sync then [ESync (fst fr)] else []) ws.
