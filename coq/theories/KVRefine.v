(** KVRefine.v — key/value reads of the engine model (RAM index modes) return
    what the L0 specification returns (C01, C03), and committing key/value
    writes keeps the index in correspondence with the specification's map. *)
From Coq Require Import Sorted.
From Verif Require Import Bytes BytesFacts Codec Dec ListDS SetDS ZSetDS Index Engine Spec TxFacts ListFacts IndexFacts.
From Coq Require Import Lia ZifyN ZifyNat ZifyBool.
Open Scope N_scope.

(** the correspondence between the engine's key/value indexes and the
    specification's buckets *)
Definition kvrel (w : world) (s : sstate) : Prop := forall b,
  match alookup (ix_kv (w_ix w)) b with
  | Some ix => ksorted ix /\ kv_ok ix /\
               (forall k r, In (k, r) ix -> nmem (kr_txid r) (w_committed w) = true) /\
               alookup (s_kv s) b = Some (abs_kv ix)
  | None => alookup (s_kv s) b = None
  end.

Definition is_kv_read (o : op) : bool :=
  match o with
  | OGet _ _ | OGetAll _ | ORangeScan _ _ _ | OPrefixScan _ _ _ _ | OPrefixSearchScan _ _ _ _ _ _ => true
  | _ => false
  end.

Lemma items_of_mode0 : forall d rs, items_of 0 d rs = Some (pairs_of rs).
Proof.
  intros d rs. induction rs as [|[k r] t IH]; [reflexivity|].
  cbn [items_of]. rewrite IH. reflexivity.
Qed.

Lemma pairs_of_nil : forall rs, pairs_of rs = [] -> rs = [].
Proof. intros rs H. destruct rs as [|x rs]; [reflexivity|discriminate H]. Qed.

Lemma entries_res_mode0 : forall w rs off, o_mode (w_opts w) = 0 ->
  entries_res w rs off = pairs_res (pairs_of rs) off.
Proof.
  intros w rs off Hm. unfold entries_res, pairs_res. rewrite Hm, items_of_mode0.
  destruct rs as [|x rs]; reflexivity.
Qed.

Lemma kv_find_in : forall ix k r, kv_find ix k = Some r -> In (k, r) ix.
Proof.
  induction ix as [|[k' r'] t IH]; intros k r H; [discriminate H|].
  cbn [kv_find] in H. destruct (bytes_eqb k' k) eqn:E.
  - apply bytes_eqb_eq in E. subst k'. injection H as H. subst r'. left. reflexivity.
  - right. apply IH. exact H.
Qed.

Lemma ds_read_kv_none : forall ix o, is_kv_read o = true -> ds_read ix o = None.
Proof. intros ix o H. destruct o; try discriminate H; reflexivity. Qed.

Lemma filter_true : forall {A} (l : list A), filter (fun _ => true) l = l.
Proof. intros A l. induction l as [|x l IH]; [reflexivity|]. cbn [filter]. rewrite IH. reflexivity. Qed.

(** C01 / C03: in HintKeyValAndRAMIdxMode every key/value read returns exactly
    the specification's answer: the live pairs, ascending, last written
    bytes; an error iff there is nothing to return *)
Theorem kv_reads_refine : forall now w s t o,
  o_mode (w_opts w) = 0 -> kvrel w s -> is_kv_read o = true ->
  fst (fst (do_op now w t o)) = w /\ snd (fst (do_op now w t o)) = t /\
  Some (snd (do_op now w t o)) = spec_kv_read now s o.
Proof.
  intros now w s t o Hm Hrel Hk.
  destruct o; try discriminate Hk; clear Hk; unfold do_op; cbn [ds_read spec_kv_read];
    pose proof (Hrel b) as Hb; destruct (alookup (ix_kv (w_ix w)) b) as [kx|] eqn:Eb.
  - (* OGet *)
    destruct Hb as (Hs & Hok & Hc & Ha). rewrite Ha.
    pose proof (abs_get now kx k Hs Hok) as Hg.
    destruct (kv_find kx k) as [r|] eqn:Ef.
    + rewrite (Hc k r (kv_find_in kx k r Ef)). cbn [negb].
      destruct (kr_dead now r) eqn:Ed.
      * cbn [fst snd]. repeat split.
        destruct (skv_get (abs_kv kx) k) as [v|]; [rewrite Hg|]; reflexivity.
      * destruct Hg as [Hg1 Hg2]. rewrite Hg1, Hg2, Hm. cbn [N.eqb fst snd v_val]. repeat split.
    + rewrite Hg. cbn [fst snd]. repeat split.
  - rewrite Hb. cbn [fst snd]. repeat split.
  - (* OGetAll *)
    destruct Hb as (Hs & Hok & Hc & Ha). rewrite Ha. cbn [fst snd].
    rewrite entries_res_mode0 by exact Hm. rewrite getall_refines by assumption. repeat split.
  - rewrite Hb. cbn [fst snd]. repeat split.
  - (* ORangeScan *)
    destruct Hb as (Hs & Hok & Hc & Ha). rewrite Ha.
    destruct (bltb e s0); cbn [fst snd]; [repeat split|].
    rewrite entries_res_mode0 by exact Hm. rewrite range_refines by assumption. repeat split.
  - rewrite Hb. cbn [fst snd]. repeat split.
  - (* OPrefixScan *)
    destruct Hb as (Hs & Hok & Hc & Ha). rewrite Ha.
    pose proof (prefix_scan_refines now (fun _ => true) kx p off lim Hs Hok) as Hp.
    destruct (kv_prefix_scan now (fun _ => true) kx p off lim) as [rs coff].
    cbv zeta in Hp. destruct Hp as [Hp1 Hp2]. cbn [fst snd].
    rewrite entries_res_mode0 by exact Hm. rewrite Hp2, filter_true, Hp1.
    repeat split. cbv zeta.
    destruct (0 <? lim)%Z; [reflexivity|]. destruct (lim =? -1)%Z; reflexivity.
  - rewrite Hb. cbn [fst snd]. repeat split.
  - (* OPrefixSearchScan *)
    destruct Hb as (Hs & Hok & Hc & Ha). rewrite Ha.
    destruct bad; [cbn [fst snd]; repeat split|].
    pose proof (prefix_scan_refines now (fun r => bmem r ms) kx p off lim Hs Hok) as Hp.
    destruct (kv_prefix_scan now (fun r => bmem r ms) kx p off lim) as [rs coff].
    cbv zeta in Hp. destruct Hp as [Hp1 Hp2]. cbn [fst snd].
    rewrite entries_res_mode0 by exact Hm. rewrite Hp2, Hp1.
    repeat split. cbv zeta.
    destruct (0 <? lim)%Z; [reflexivity|]. destruct (lim =? -1)%Z; reflexivity.
  - rewrite Hb. cbn [fst snd]. repeat split.
Qed.

(** HintKeyAndRAMIdxMode reads the record back from its segment; when every
    index record points at a record with the same key and value, the results
    are those of HintKeyValAndRAMIdxMode (C19) *)
Definition on_disk (w : world) : Prop := forall b ix k r,
  alookup (ix_kv (w_ix w)) b = Some ix -> In (k, r) ix ->
  exists e, disk_read (w_disk w) (kr_fid r) (kr_pos r) = Some e /\ e_key e = k /\ e_value e = kr_val r.

Definition with_mode (w : world) (m : N) : world :=
  mkW (mkOpts m (o_rw (w_opts w)) (o_load (w_opts w)) (o_sync (w_opts w)) (o_seg (w_opts w)))
      (w_closed w) (w_disk w) (w_maxfid w) (w_woff w) (w_asize w) (w_ix w) (w_committed w) (w_tx w).

Definition rec_on_disk (d : disk) (kr : bytes * krec) : Prop :=
  exists e, disk_read d (kr_fid (snd kr)) (kr_pos (snd kr)) = Some e /\ e_key e = fst kr /\ e_value e = kr_val (snd kr).

Lemma items_of_on_disk : forall m d rs, Forall (rec_on_disk d) rs -> items_of m d rs = Some (pairs_of rs).
Proof.
  intros m d rs H. induction H as [|[k r] t Hx Ht IH]; [reflexivity|].
  cbn [items_of]. rewrite IH. destruct Hx as (e & He & Hk & Hv). cbn [fst snd] in He, Hk, Hv.
  rewrite He, Hk, Hv. destruct (m =? 0); reflexivity.
Qed.

Lemma entries_res_on_disk : forall w m rs off, Forall (rec_on_disk (w_disk w)) rs ->
  entries_res (with_mode w m) rs off = entries_res (with_mode w 0) rs off.
Proof.
  intros w m rs off H. unfold entries_res. cbn [with_mode w_opts o_mode w_disk].
  rewrite !(items_of_on_disk _ _ _ H). reflexivity.
Qed.

Lemma wrap_items_in : forall now lim rs acc x, In x (wrap_items now lim rs acc) -> In x rs.
Proof.
  intros now lim rs. induction rs as [|[k r] t IH]; intros acc x H; [exact H|].
  cbn [wrap_items] in H. destruct (kr_dead now r).
  - right. exact (IH _ _ H).
  - destruct ((0 <? lim)%Z && (acc <? lim)%Z || (lim =? -1)%Z).
    + destruct H as [H|H]; [left; exact H|right; exact (IH _ _ H)].
    + right. exact (IH _ _ H).
Qed.

Lemma collect_in : forall en l x, In x (collect en l) -> In x l.
Proof.
  intros en l. induction l as [|[k r] t IH]; intros x H; [exact H|].
  rewrite collect_cons in H. destruct (bltb en k); [destruct H|].
  destruct H as [H|H]; [left; exact H|right; exact (IH _ H)].
Qed.

Lemma kv_range_in : forall ix st en x, In x (kv_range ix st en) -> In x ix.
Proof.
  induction ix as [|[k r] t IH]; intros st en x H; [exact H|].
  rewrite kv_range_cons in H. destruct (bltb k st).
  - right. exact (IH _ _ _ H).
  - exact (collect_in _ _ _ H).
Qed.

Lemma drop_below_in : forall l p x, In x (drop_below l p) -> In x l.
Proof.
  induction l as [|[k r] t IH]; intros p x H; [exact H|].
  cbn [drop_below] in H. destruct (bltb k p); [right; exact (IH _ _ H)|exact H].
Qed.

Lemma prefix_walk_in : forall now pm p offn limn l coff found x,
  In x (fst (prefix_walk now pm p offn limn l coff found)) -> In x l.
Proof.
  intros now pm p offn limn. induction l as [|[k r] t IH]; intros coff found x H; [exact H|].
  cbn [prefix_walk] in H.
  destruct (negb (has_prefix k p)); [destruct H|].
  destruct (kr_dead now r); [right; exact (IH _ _ _ H)|].
  destruct (coff <? offn)%Z; [right; exact (IH _ _ _ H)|].
  destruct (negb (pm (skipn (length p) k))); [right; exact (IH _ _ _ H)|].
  destruct ((0 <? limn)%Z && (found + 1 =? limn)%Z).
  - destruct H as [H|[]]. left. exact H.
  - specialize (IH coff (found + 1)%Z x).
    destruct (prefix_walk now pm p offn limn t coff (found + 1)) as [rs c].
    cbn [fst] in H, IH. destruct H as [H|H]; [left; exact H|right; exact (IH H)].
Qed.

Lemma kv_prefix_scan_in : forall now pm ix p off lim x,
  In x (fst (kv_prefix_scan now pm ix p off lim)) -> In x ix.
Proof.
  intros now pm ix p off lim x H. unfold kv_prefix_scan in H.
  apply prefix_walk_in in H. exact (drop_below_in _ _ _ H).
Qed.

Theorem kv_reads_mode_irrelevant : forall now w t o m,
  on_disk w -> is_kv_read o = true ->
  snd (do_op now (with_mode w m) t o) = snd (do_op now (with_mode w 0) t o).
Proof.
  intros now w t o m Hd Hk.
  assert (Hall : forall b kx rs, alookup (ix_kv (w_ix w)) b = Some kx -> (forall x, In x rs -> In x kx) ->
                 Forall (rec_on_disk (w_disk w)) rs).
  { intros b kx rs Hb Hin. apply Forall_forall. intros [k r] Hx.
    destruct (Hd b kx k r Hb (Hin _ Hx)) as (e & He). exists e. exact He. }
  destruct o; try discriminate Hk; clear Hk; unfold do_op; cbn [ds_read with_mode w_ix w_committed w_opts o_mode w_disk];
    destruct (alookup (ix_kv (w_ix w)) b) as [kx|] eqn:Eb; try reflexivity.
  - (* OGet *)
    destruct (kv_find kx k) as [r|] eqn:Ef; [|reflexivity].
    destruct (negb (nmem (kr_txid r) (w_committed w))); [reflexivity|].
    destruct (kr_dead now r); [reflexivity|].
    destruct (Hd b kx k r Eb (kv_find_in _ _ _ Ef)) as (e & He & Hk & Hv).
    rewrite He, Hk, Hv. destruct (m =? 0); reflexivity.
  - (* OGetAll *)
    cbn [snd]. apply entries_res_on_disk. apply (Hall b kx _ Eb).
    intros x Hx. exact (wrap_items_in _ _ _ _ _ Hx).
  - (* ORangeScan *)
    destruct (bltb e s); [reflexivity|]. cbn [snd]. apply entries_res_on_disk. apply (Hall b kx _ Eb).
    intros x Hx. apply wrap_items_in in Hx. exact (kv_range_in _ _ _ _ Hx).
  - (* OPrefixScan *)
    pose proof (kv_prefix_scan_in now (fun _ => true) kx p off lim) as Hin.
    destruct (kv_prefix_scan now (fun _ => true) kx p off lim) as [rs coff]. cbn [fst snd] in *.
    apply entries_res_on_disk. apply (Hall b kx _ Eb).
    intros x Hx. apply wrap_items_in in Hx. exact (Hin _ Hx).
  - (* OPrefixSearchScan *)
    destruct bad; [reflexivity|].
    pose proof (kv_prefix_scan_in now (fun r => bmem r ms) kx p off lim) as Hin.
    destruct (kv_prefix_scan now (fun r => bmem r ms) kx p off lim) as [rs coff]. cbn [fst snd] in *.
    apply entries_res_on_disk. apply (Hall b kx _ Eb).
    intros x Hx. apply wrap_items_in in Hx. exact (Hin _ Hx).
Qed.

(** ---- committing key/value writes ---- *)
(** what a key/value record means for the specification *)
Definition spec_apply_kv (s : sstate) (e : entry) : sstate :=
  if e_ds e =? DS_KV then
    if e_flag e =? F_Set
    then mkS (aset (s_kv s) (e_bucket e) (skv_put (getdef (s_kv s) (e_bucket e) []) (e_key e) (mkV (e_value e) (e_ts e) (e_ttl e)))) (s_ds s)
    else mkS (aset (s_kv s) (e_bucket e) (skv_del (getdef (s_kv s) (e_bucket e) []) (e_key e))) (s_ds s)
  else s.

(** the records Put / PutWithTimestamp / Delete append to the pending list are
    exactly the specification's writes *)
Lemma put_is_spec_write : forall s t b k v ttl ts, tx_w t = true -> k <> [] ->
  tx_put t b k v ttl F_Set ts DS_KV = (mkTx (tx_id t) (tx_w t) (tx_pend t ++ [mk_entry t b k v ttl F_Set ts DS_KV]), ROk) /\
  spec_write s (OPut b k v ttl ts) = (spec_apply_kv s (mk_entry t b k v ttl F_Set ts DS_KV), ROk).
Proof.
  intros s t b k v ttl ts Hw Hk. destruct k as [|x k]; [contradiction Hk; reflexivity|].
  split.
  - unfold tx_put. rewrite Hw. reflexivity.
  - reflexivity.
Qed.

Lemma delete_is_spec_write : forall s t b k now, tx_w t = true -> k <> [] ->
  tx_put t b k [] 0 F_Del now DS_KV = (mkTx (tx_id t) (tx_w t) (tx_pend t ++ [mk_entry t b k [] 0 F_Del now DS_KV]), ROk) /\
  spec_write s (ODelete b k) = (spec_apply_kv s (mk_entry t b k [] 0 F_Del now DS_KV), ROk).
Proof.
  intros s t b k now Hw Hk. destruct k as [|x k]; [contradiction Hk; reflexivity|].
  split.
  - unfold tx_put. rewrite Hw. reflexivity.
  - reflexivity.
Qed.

(** key/value records as Tx.put creates them *)
Definition kv_entry_ok (id : N) (e : entry) : Prop :=
  e_txid e = id /\ (e_ds e = DS_KV -> (e_flag e = F_Set \/ e_flag e = F_Del) /\ e_ts e + e_ttl e < 2 ^ 64).

(** the correspondence with the index list and the committed ids explicit *)
Definition kvrel' (kv : list (bytes * kvidx)) (comm : list N) (s : sstate) : Prop := forall b,
  match alookup kv b with
  | Some ix => ksorted ix /\ kv_ok ix /\
               (forall k r, In (k, r) ix -> nmem (kr_txid r) comm = true) /\
               alookup (s_kv s) b = Some (abs_kv ix)
  | None => alookup (s_kv s) b = None
  end.

Lemma kvrel_kvrel' : forall w s, kvrel w s <-> kvrel' (ix_kv (w_ix w)) (w_committed w) s.
Proof. intros w s. split; intros H; exact H. Qed.

Lemma kvrel'_mono : forall kv comm id s, kvrel' kv comm s -> kvrel' kv (id :: comm) s.
Proof.
  intros kv comm id s H b. specialize (H b). destruct (alookup kv b) as [ix|]; [|exact H].
  destruct H as (Hs & Hok & Hc & Ha). split; [exact Hs|]. split; [exact Hok|]. split; [|exact Ha].
  intros k r Hin. unfold nmem. cbn [existsb]. fold (nmem (kr_txid r) comm).
  rewrite (Hc k r Hin). apply orb_true_r.
Qed.

Lemma ksorted_nil : ksorted [].
Proof. constructor. Qed.

Lemma kv_ok_nil : kv_ok [].
Proof. intros k r H. destruct H. Qed.

(** one key/value record: BPTree.Insert against the specification's put/delete *)
Lemma apply_kv_step : forall kv comm s e fid pos,
  kvrel' kv comm s -> e_ds e = DS_KV -> nmem (e_txid e) comm = true ->
  (e_flag e = F_Set \/ e_flag e = F_Del) -> e_ts e + e_ttl e < 2 ^ 64 ->
  kvrel' (apply_kv kv e fid pos) comm (spec_apply_kv s e).
Proof.
  intros kv comm s e fid pos Hrel Hds Hcomm Hflag Hw b.
  set (b0 := e_bucket e). set (r0 := krec_of e fid pos).
  (* the bucket's index before, and its abstraction *)
  assert (Hold : ksorted (getdef kv b0 []) /\ kv_ok (getdef kv b0 []) /\
                 (forall k r, In (k, r) (getdef kv b0 []) -> nmem (kr_txid r) comm = true) /\
                 getdef (s_kv s) b0 [] = abs_kv (getdef kv b0 [])).
  { pose proof (Hrel b0) as H0. unfold getdef. destruct (alookup kv b0) as [ix|].
    - destruct H0 as (A & B & C & D). rewrite D. split; [exact A|]. split; [exact B|]. split; [exact C|reflexivity].
    - rewrite H0. split; [exact ksorted_nil|]. split; [exact kv_ok_nil|]. split; [|reflexivity].
      intros k r [] . }
  destruct Hold as (Hs0 & Hok0 & Hc0 & Ha0).
  set (ix0 := getdef kv b0 []) in *.
  assert (Hskv : s_kv (spec_apply_kv s e) =
                 aset (s_kv s) b0 (abs_kv (kv_insert ix0 (e_key e) r0))).
  { unfold spec_apply_kv. rewrite Hds. change (DS_KV =? DS_KV) with true. cbv iota.
    fold b0. rewrite Ha0. destruct Hflag as [Hf|Hf]; rewrite Hf.
    - change (F_Set =? F_Set) with true. cbv iota. cbn [s_kv].
      rewrite (abs_insert_put ix0 (e_key e) r0 Hs0 Hf). reflexivity.
    - change (F_Del =? F_Set) with false. cbv iota. cbn [s_kv].
      rewrite (abs_insert_del ix0 (e_key e) r0 Hs0 Hf). reflexivity. }
  rewrite Hskv. unfold apply_kv. fold b0. fold ix0. fold r0.
  destruct (bytes_eqb b0 b) eqn:Eb.
  - apply bytes_eqb_eq in Eb. subst b. rewrite !alookup_aset_same.
    split; [apply kv_insert_sorted; exact Hs0|]. split; [|split; [|reflexivity]].
    + intros k r Hin. apply kv_insert_in in Hin as [Hin|Hin].
      * injection Hin as Hk Hr. subst k r. unfold r0, krec_of. cbn [kr_flag kr_ts kr_ttl].
        split; [destruct Hflag as [Hf|Hf]; [right|left]; exact Hf|exact Hw].
      * exact (Hok0 k r Hin).
    + intros k r Hin. apply kv_insert_in in Hin as [Hin|Hin].
      * injection Hin as Hk Hr. subst k r. unfold r0, krec_of. cbn [kr_txid]. exact Hcomm.
      * exact (Hc0 k r Hin).
  - assert (Hne : b0 <> b) by (intros E; subst b; rewrite IndexFacts.bytes_eqb_refl in Eb; discriminate Eb).
    rewrite !(alookup_aset_other _ b0 b _ Hne). exact (Hrel b).
Qed.

Lemma spec_apply_kv_nonkv : forall s e, e_ds e <> DS_KV -> spec_apply_kv s e = s.
Proof.
  intros s e H. unfold spec_apply_kv. destruct (e_ds e =? DS_KV) eqn:E; [|reflexivity].
  apply N.eqb_eq in E. contradiction.
Qed.

Lemma spec_apply_kv_status : forall s e st, spec_apply_kv s (with_status e st) = spec_apply_kv s e.
Proof. intros s e st. reflexivity. Qed.

Lemma apply_kv_status : forall kv e st fid pos, apply_kv kv (with_status e st) fid pos = apply_kv kv e fid pos.
Proof. intros. reflexivity. Qed.

(** the key/value part of commit_index *)
Definition kv_step (kv : list (bytes * kvidx)) (r : N * N * entry) : list (bytes * kvidx) :=
  let '(fid, pos, e) := r in if e_ds e =? DS_KV then apply_kv kv e fid pos else kv.

Lemma apply_ds_ix_kv : forall strict ix e, ix_kv (apply_ds strict ix e) = ix_kv ix.
Proof.
  intros strict ix e. unfold apply_ds.
  destruct (e_ds e =? DS_Set); [reflexivity|].
  destruct (e_ds e =? DS_ZSet); [reflexivity|].
  destruct (e_ds e =? DS_List); reflexivity.
Qed.

Lemma fold_apply_ds_ix_kv : forall strict (written : list (N * N * entry)) ix,
  ix_kv (fold_left (fun ix r => apply_ds strict ix (snd r)) written ix) = ix_kv ix.
Proof.
  intros strict written. induction written as [|r t IH]; intros ix; [reflexivity|].
  cbn [fold_left]. rewrite IH. apply apply_ds_ix_kv.
Qed.

Lemma commit_index_ix_kv : forall ix written,
  ix_kv (commit_index ix written) = fold_left kv_step written (ix_kv ix).
Proof.
  intros ix written. unfold commit_index. rewrite fold_apply_ds_ix_kv. reflexivity.
Qed.

Definition entry_ok' (comm : list N) (e : entry) : Prop :=
  nmem (e_txid e) comm = true /\
  (e_ds e = DS_KV -> (e_flag e = F_Set \/ e_flag e = F_Del) /\ e_ts e + e_ttl e < 2 ^ 64).

Lemma kv_step_rel : forall kv comm s e fid pos,
  kvrel' kv comm s -> entry_ok' comm e ->
  kvrel' (kv_step kv (fid, pos, e)) comm (spec_apply_kv s e).
Proof.
  intros kv comm s e fid pos Hrel [Hc Hkv]. unfold kv_step.
  destruct (e_ds e =? DS_KV) eqn:E.
  - apply N.eqb_eq in E. destruct (Hkv E) as [Hf Hw].
    apply apply_kv_step; assumption.
  - rewrite spec_apply_kv_nonkv; [exact Hrel|]. intros H. rewrite H in E. discriminate E.
Qed.

Lemma kv_step_status : forall kv fid pos e st,
  kv_step kv (fid, pos, with_status e st) = kv_step kv (fid, pos, e).
Proof. intros. reflexivity. Qed.

Lemma commit_write_rec : forall seg st e last,
  exists fid pos, snd (commit_write seg st e last) = (fid, pos, if last then with_status e St_Committed else e).
Proof. intros seg st e last. unfold commit_write. cbn [snd]. eexists. eexists. reflexivity. Qed.

(** the index after the write loop against the specification after the
    transaction's key/value writes; the commit marker of the last record does
    not enter the index record *)
Lemma commit_loop_rel : forall pend seg mark st kv comm s,
  kvrel' kv comm s -> Forall (entry_ok' comm) pend ->
  kvrel' (fold_left kv_step (snd (commit_loop seg mark st pend)) kv) comm (fold_left spec_apply_kv pend s).
Proof.
  induction pend as [|e rest IH]; intros seg mark st kv comm s Hrel Hall.
  - exact Hrel.
  - inversion Hall as [|x l He Hrest]; subst.
    cbn [commit_loop].
    set (last := mark && match rest with [] => true | _ :: _ => false end).
    destruct (commit_write_rec seg st e last) as (fid & pos & Hr).
    destruct (commit_write seg st e last) as [st1 r]. cbn [snd] in Hr. subst r.
    specialize (IH seg mark st1).
    destruct (commit_loop seg mark st1 rest) as [st2 rs]. cbn [snd] in IH |- *.
    cbn [fold_left]. apply IH; [|exact Hrest].
    assert (Hk : kv_step kv (fid, pos, if last then with_status e St_Committed else e) = kv_step kv (fid, pos, e)).
    { destruct last; [apply kv_step_status|reflexivity]. }
    rewrite Hk. apply kv_step_rel; assumption.
Qed.

(** a successful Commit takes the correspondence to the specification state
    after the transaction's key/value writes, for any mix of buckets, any
    number of segment rotations and any interleaved list/set/sorted-set records *)
Theorem commit_kvrel : forall w s t,
  kvrel w s ->
  Forall (kv_entry_ok (tx_id t)) (tx_pend t) ->
  snd (do_commit None w t) = true ->
  kvrel (fst (do_commit None w t)) (fold_left spec_apply_kv (tx_pend t) s).
Proof.
  intros w s t Hrel Hall Hok. unfold do_commit in *.
  destruct (tx_pend t) as [|e0 rest] eqn:Ep.
  - exact Hrel.
  - destruct (existsb (fun e => o_seg (w_opts w) <? entry_size e) (e0 :: rest)); [discriminate Hok|].
    clear Hok.
    pose proof (commit_loop_rel (e0 :: rest) (o_seg (w_opts w)) true
                  (mkC (w_disk w) (w_maxfid w) (w_woff w) (w_asize w))
                  (ix_kv (w_ix w)) (tx_id t :: w_committed w) s) as H.
    destruct (commit_loop (o_seg (w_opts w)) true (mkC (w_disk w) (w_maxfid w) (w_woff w) (w_asize w)) (e0 :: rest))
      as [st written].
    cbn [fst snd] in H |- *.
    apply kvrel_kvrel'. unfold set_disk. cbn [w_ix w_committed].
    rewrite commit_index_ix_kv. apply H.
    + apply kvrel'_mono. exact Hrel.
    + eapply Forall_impl; [|exact Hall]. intros e [Hid Hkv]. split; [|exact Hkv].
      rewrite Hid. unfold nmem. cbn [existsb]. rewrite N.eqb_refl. reflexivity.
Qed.

(** reopening keeps the correspondence when it rebuilds the same indexes
    (ReplayFacts.reopen_preserves gives the hypothesis) *)
Lemma kvrel_ext : forall w w' s,
  w_ix w' = w_ix w -> (forall id, nmem id (w_committed w') = nmem id (w_committed w)) ->
  kvrel w s -> kvrel w' s.
Proof.
  intros w w' s Hix Hc Hrel b. specialize (Hrel b). rewrite Hix.
  destruct (alookup (ix_kv (w_ix w)) b) as [ix|]; [|exact Hrel].
  destruct Hrel as (A & B & C & D). split; [exact A|]. split; [exact B|]. split; [|exact D].
  intros k r Hin. rewrite Hc. exact (C k r Hin).
Qed.

Lemma kvrel_empty : forall o, kvrel (empty_world o) s_empty.
Proof. intros o b. reflexivity. Qed.
