(** SetFacts.v — the model of ds/set (SetDS.v) behaves like finite sets. *)
From Coq Require Import Permutation Sorted.
From Verif Require Import Bytes BytesFacts ListDS SetDS.

(** * helpers *)

Lemma bytes_eqb_refl : forall a, bytes_eqb a a = true.
Proof. intros a. apply bytes_eqb_eq. reflexivity. Qed.

Lemma bytes_eqb_neq : forall a b, bytes_eqb a b = false <-> a <> b.
Proof.
  intros a b. split.
  - intros H E. apply bytes_eqb_eq in E. congruence.
  - intros H. destruct (bytes_eqb a b) eqn:E; [|reflexivity].
    apply bytes_eqb_eq in E. contradiction.
Qed.

Lemma alookup_aset : forall {V} (m : list (bytes * V)) k v k',
  alookup (aset m k v) k' = if bytes_eqb k k' then Some v else alookup m k'.
Proof.
  intros V m k v k'. induction m as [|[k0 v0] m IH]; cbn.
  - reflexivity.
  - destruct (bytes_eqb k0 k) eqn:E1; cbn.
    + apply bytes_eqb_eq in E1. subst k0. destruct (bytes_eqb k k'); reflexivity.
    + destruct (bytes_eqb k0 k') eqn:E2.
      * destruct (bytes_eqb k k') eqn:E3; [|reflexivity].
        apply bytes_eqb_eq in E2. apply bytes_eqb_eq in E3. subst.
        rewrite bytes_eqb_refl in E1. discriminate.
      * exact IH.
Qed.

Lemma aset_same : forall {V} (m : list (bytes * V)) k v, alookup m k = Some v -> aset m k v = m.
Proof.
  intros V m k v. induction m as [|[k0 v0] m IH]; cbn; intros H.
  - discriminate.
  - destruct (bytes_eqb k0 k) eqn:E.
    + apply bytes_eqb_eq in E. inversion H. subst. reflexivity.
    + rewrite IH by exact H. reflexivity.
Qed.

(** * members *)

Lemma bmem_In : forall x l, bmem x l = true <-> In x l.
Proof.
  intros x l. induction l as [|y r IH]; cbn.
  - split; [discriminate|tauto].
  - rewrite orb_true_iff, bytes_eqb_eq, IH. tauto.
Qed.

Lemma bmem_false : forall x l, bmem x l = false <-> ~ In x l.
Proof.
  intros x l. rewrite <- bmem_In. destruct (bmem x l); split; intros H; congruence.
Qed.

Lemma sadd1_In : forall l x y, In y (sadd1 l x) <-> y = x \/ In y l.
Proof.
  intros l x y. unfold sadd1. destruct (bmem x l) eqn:E.
  - apply bmem_In in E. split; [tauto|]. intros [->|H]; assumption.
  - rewrite in_app_iff. cbn. split; intros H.
    + destruct H as [H|[H|[]]]; [right; exact H|left; symmetry; exact H].
    + destruct H as [H|H]; [right; left; symmetry; exact H|left; exact H].
Qed.

Lemma sadd1_NoDup : forall l x, NoDup l -> NoDup (sadd1 l x).
Proof.
  intros l x H. unfold sadd1. destruct (bmem x l) eqn:E; [exact H|].
  apply bmem_false in E.
  apply (Permutation_NoDup (Permutation_cons_append l x)).
  constructor; assumption.
Qed.

Lemma bremove_In : forall l x y, In y (bremove x l) <-> In y l /\ y <> x.
Proof.
  intros l x y. induction l as [|z r IH]; cbn.
  - tauto.
  - destruct (bytes_eqb z x) eqn:E.
    + apply bytes_eqb_eq in E. subst z. rewrite IH. split.
      * intros [H1 H2]. split; [right; exact H1|exact H2].
      * intros [[H1|H1] H2]; [congruence|split; assumption].
    + apply bytes_eqb_neq in E. cbn. rewrite IH. split.
      * intros [H|[H1 H2]]; [subst; split; [left; reflexivity|exact E]|split; [right; exact H1|exact H2]].
      * intros [[H1|H1] H2]; [left; exact H1|right; split; assumption].
Qed.

Lemma bremove_NoDup : forall l x, NoDup l -> NoDup (bremove x l).
Proof.
  intros l x H. induction H as [|z r Hz Hr IH]; cbn.
  - constructor.
  - destruct (bytes_eqb z x); [exact IH|].
    constructor; [|exact IH]. rewrite bremove_In. tauto.
Qed.

(** * the canonical order *)

Lemma bleb_total : forall a b, bleb a b = false -> bleb b a = true.
Proof.
  intros a b. unfold bleb. rewrite (bcompare_antisym a b).
  destruct (bcompare a b); cbn; congruence.
Qed.

Lemma bleb_trans : forall a b c, bleb a b = true -> bleb b c = true -> bleb a c = true.
Proof.
  intros a b c. unfold bleb.
  destruct (bcompare a b) eqn:E1; try discriminate; intros _;
  destruct (bcompare b c) eqn:E2; try discriminate; intros _.
  - apply bcompare_eq in E1. subst. rewrite E2. reflexivity.
  - apply bcompare_eq in E1. subst. rewrite E2. reflexivity.
  - apply bcompare_eq in E2. subst. rewrite E1. reflexivity.
  - rewrite (bcompare_lt_trans a b c E1 E2). reflexivity.
Qed.

Lemma bleb_antisym : forall a b, bleb a b = true -> bleb b a = true -> a = b.
Proof.
  intros a b. unfold bleb. rewrite (bcompare_antisym a b).
  destruct (bcompare a b) eqn:E; cbn; try discriminate.
  intros _ _. apply bcompare_eq. exact E.
Qed.

Lemma binsert_perm : forall x l, Permutation (binsert x l) (x :: l).
Proof.
  intros x l. induction l as [|y r IH]; cbn.
  - apply Permutation_refl.
  - destruct (bleb x y); [apply Permutation_refl|].
    apply perm_trans with (y :: x :: r); [apply perm_skip; exact IH|apply perm_swap].
Qed.

Lemma bsort_perm : forall l, Permutation (bsort l) l.
Proof.
  intros l. induction l as [|x r IH]; cbn.
  - constructor.
  - apply perm_trans with (x :: bsort r); [apply binsert_perm|apply perm_skip; exact IH].
Qed.

Lemma binsert_sorted : forall x l,
  StronglySorted (fun a b => bleb a b = true) l ->
  StronglySorted (fun a b => bleb a b = true) (binsert x l).
Proof.
  intros x l H. induction H as [|y r Hr IH Hy]; cbn.
  - constructor; constructor.
  - destruct (bleb x y) eqn:E.
    + constructor; [constructor; assumption|].
      constructor; [exact E|].
      rewrite Forall_forall in Hy |- *. intros z Hz.
      apply bleb_trans with y; [exact E|apply Hy; exact Hz].
    + constructor; [exact IH|].
      apply (Permutation_Forall (Permutation_sym (binsert_perm x r))).
      constructor; [apply bleb_total; exact E|exact Hy].
Qed.

Lemma bsort_sorted : forall l, StronglySorted (fun a b => bleb a b = true) (bsort l).
Proof.
  intros l. induction l as [|x r IH]; cbn.
  - constructor.
  - apply binsert_sorted. exact IH.
Qed.

Lemma sorted_perm_eq : forall l1 l2,
  StronglySorted (fun a b => bleb a b = true) l1 ->
  StronglySorted (fun a b => bleb a b = true) l2 ->
  Permutation l1 l2 -> l1 = l2.
Proof.
  intros l1. induction l1 as [|a r1 IH]; intros l2 S1 S2 P.
  - apply Permutation_nil in P. subst. reflexivity.
  - destruct l2 as [|b r2].
    + apply Permutation_sym, Permutation_nil in P. discriminate.
    + inversion S1 as [|? ? S1r F1]; subst. inversion S2 as [|? ? S2r F2]; subst.
      rewrite Forall_forall in F1, F2.
      assert (Eab : a = b).
      { assert (Ha : In a (b :: r2)) by (apply (Permutation_in _ P); left; reflexivity).
        assert (Hb : In b (a :: r1)) by (apply (Permutation_in _ (Permutation_sym P)); left; reflexivity).
        destruct Ha as [Ha|Ha]; [symmetry; exact Ha|].
        destruct Hb as [Hb|Hb]; [exact Hb|].
        apply bleb_antisym; [apply F1; exact Hb|apply F2; exact Ha]. }
      subst b. f_equal. apply IH; [exact S1r|exact S2r|].
      apply Permutation_cons_inv with a. exact P.
Qed.

(** set-valued results are compared as sets: two duplicate-free lists with the
    same members have the same canonical form *)
Lemma bsort_canonical : forall l1 l2, NoDup l1 -> NoDup l2 ->
  (forall x, In x l1 <-> In x l2) -> bsort l1 = bsort l2.
Proof.
  intros l1 l2 N1 N2 H. apply sorted_perm_eq; try apply bsort_sorted.
  apply perm_trans with l1; [apply bsort_perm|].
  apply perm_trans with l2; [|apply Permutation_sym, bsort_perm].
  apply NoDup_Permutation; assumption.
Qed.

(** * difference and union *)

Lemma sdiff_In : forall a b x, In x (sdiff_l a b) <-> In x a /\ ~ In x b.
Proof.
  intros a b x. unfold sdiff_l. rewrite filter_In, negb_true_iff, bmem_false. tauto.
Qed.

Lemma sunion_In : forall a b x, In x (sunion_l a b) <-> In x a \/ In x b.
Proof.
  intros a b x. unfold sunion_l. rewrite in_app_iff, sdiff_In.
  destruct (bmem x a) eqn:E.
  - apply bmem_In in E. tauto.
  - apply bmem_false in E. tauto.
Qed.

Lemma filter_NoDup : forall (f : bytes -> bool) l, NoDup l -> NoDup (filter f l).
Proof.
  intros f l H. induction H as [|z r Hz Hr IH]; cbn.
  - constructor.
  - destruct (f z); [|exact IH]. constructor; [|exact IH].
    rewrite filter_In. tauto.
Qed.

Lemma app_NoDup : forall (a b : list bytes), NoDup a -> NoDup b ->
  (forall x, In x a -> ~ In x b) -> NoDup (a ++ b).
Proof.
  intros a b Ha Hb Hd. induction Ha as [|z r Hz Hr IH]; cbn.
  - exact Hb.
  - constructor.
    + rewrite in_app_iff. intros [H|H]; [contradiction|].
      apply (Hd z); [left; reflexivity|exact H].
    + apply IH. intros x Hx. apply Hd. right. exact Hx.
Qed.

Lemma sdiff_NoDup : forall a b, NoDup a -> NoDup (sdiff_l a b).
Proof. intros a b H. unfold sdiff_l. apply filter_NoDup. exact H. Qed.

Lemma sunion_NoDup : forall a b, NoDup a -> NoDup b -> NoDup (sunion_l a b).
Proof.
  intros a b Ha Hb. unfold sunion_l. apply app_NoDup.
  - exact Ha.
  - apply sdiff_NoDup. exact Hb.
  - intros x Hx. rewrite sdiff_In. tauto.
Qed.

(** * the key -> set map *)

Lemma fold_sadd1_In : forall items l y,
  In y (fold_left sadd1 items l) <-> In y l \/ In y items.
Proof.
  intros items. induction items as [|i r IH]; intros l y; cbn.
  - tauto.
  - rewrite IH, sadd1_In. split.
    + intros [[H|H]|H]; [right; left; symmetry; exact H|left; exact H|right; right; exact H].
    + intros [H|[H|H]]; [left; right; exact H|left; left; symmetry; exact H|right; exact H].
Qed.

Lemma fold_sadd1_NoDup : forall items l, NoDup l -> NoDup (fold_left sadd1 items l).
Proof.
  intros items. induction items as [|i r IH]; intros l H; cbn.
  - exact H.
  - apply IH. apply sadd1_NoDup. exact H.
Qed.

Lemma fold_bremove_In : forall items l y,
  In y (fold_left (fun acc x => bremove x acc) items l) <-> In y l /\ ~ In y items.
Proof.
  intros items. induction items as [|i r IH]; intros l y; cbn.
  - tauto.
  - rewrite IH, bremove_In. split.
    + intros [[H1 H2] H3]. split; [exact H1|]. intros [H|H]; [apply H2; symmetry; exact H|contradiction].
    + intros [H1 H2]. split; [split; [exact H1|]|].
      * intros E. apply H2. left. symmetry. exact E.
      * intros H. apply H2. right. exact H.
Qed.

Lemma fold_bremove_NoDup : forall items l, NoDup l ->
  NoDup (fold_left (fun acc x => bremove x acc) items l).
Proof.
  intros items. induction items as [|i r IH]; intros l H; cbn.
  - exact H.
  - apply IH. apply bremove_NoDup. exact H.
Qed.

(** every set stored under a key stays duplicate-free *)
Definition smap_wf (m : smap) : Prop := forall k l, alookup m k = Some l -> NoDup l.

Lemma s_sadd_wf : forall m k items, smap_wf m -> smap_wf (s_sadd m k items).
Proof.
  intros m k items W k' l. unfold s_sadd. rewrite alookup_aset.
  destruct (bytes_eqb k k') eqn:E.
  - intros [= <-]. apply fold_sadd1_NoDup.
    destruct (alookup m k) as [l0|] eqn:L; [apply (W k l0 L)|constructor].
  - apply W.
Qed.

Lemma s_srem_wf : forall m k items, smap_wf m -> smap_wf (fst (s_srem m k items)).
Proof.
  intros m k items W. unfold s_srem.
  destruct (alookup m k) as [l0|] eqn:L; [|exact W].
  destruct items as [|i0 r]; [exact W|].
  destruct i0 as [|c i0]; [exact W|].
  cbn [fst]. intros k' l. rewrite alookup_aset.
  destruct (bytes_eqb k k') eqn:E.
  - intros [= <-]. apply (fold_bremove_NoDup ((c :: i0) :: r) l0). apply (W k l0 L).
  - apply W.
Qed.

Lemma s_sadd_members : forall m k items x,
  s_ismember (s_sadd m k items) k x = s_ismember m k x || bmem x items.
Proof.
  intros m k items x. unfold s_ismember, s_sadd.
  rewrite alookup_aset, bytes_eqb_refl.
  apply eq_true_iff_eq. rewrite orb_true_iff, !bmem_In, fold_sadd1_In.
  destruct (alookup m k) as [l0|].
  - rewrite bmem_In. tauto.
  - cbn. split; [intros [[]|H]; right; exact H|intros [H|H]; [discriminate|right; exact H]].
Qed.

Lemma s_sadd_other : forall m k k' items, k <> k' -> alookup (s_sadd m k items) k' = alookup m k'.
Proof.
  intros m k k' items H. unfold s_sadd. rewrite alookup_aset.
  apply bytes_eqb_neq in H. rewrite H. reflexivity.
Qed.

Lemma s_srem_members : forall m k items x, snd (s_srem m k items) = true ->
  s_ismember (fst (s_srem m k items)) k x = s_ismember m k x && negb (bmem x items).
Proof.
  intros m k items x. unfold s_srem, s_ismember.
  destruct (alookup m k) as [l0|] eqn:L; [|cbn; discriminate].
  destruct items as [|i0 r]; [cbn; discriminate|].
  destruct i0 as [|c i0]; [cbn; discriminate|].
  intros _. cbn [fst]. rewrite alookup_aset, bytes_eqb_refl.
  apply eq_true_iff_eq.
  rewrite andb_true_iff, negb_true_iff, bmem_false, !bmem_In, fold_bremove_In. tauto.
Qed.

Lemma s_card_members : forall m k l, alookup m k = Some l -> NoDup l ->
  s_card m k = Z.of_nat (length l) /\ (forall x, s_ismember m k x = true <-> In x l).
Proof.
  intros m k l L _. unfold s_card, s_ismember. rewrite L. split.
  - reflexivity.
  - intros x. apply bmem_In.
Qed.

(** SMove as logged by fix ba1e448 (SAdd to the destination, SRem from the
    source) is the in-place Set.SMove *)
Lemma smove_logged_eq : forall m k1 k2 x, s_haskey m k1 = true -> s_haskey m k2 = true ->
  fst (s_srem (s_sadd m k2 [x]) k1 [x]) = fst (s_move m k1 k2 x) /\ snd (s_move m k1 k2 x) = true.
Proof.
  intros m k1 k2 x. unfold s_haskey, s_move.
  destruct (alookup m k1) as [l1|] eqn:L1; [|discriminate].
  destruct (alookup m k2) as [l2|] eqn:L2; [|discriminate].
  intros _ _. cbn [fst snd]. split; [|reflexivity].
  destruct (bmem x l2) eqn:E; [|reflexivity].
  replace (s_sadd m k2 [x]) with m; [reflexivity|].
  unfold s_sadd. rewrite L2. cbn. unfold sadd1. rewrite E.
  symmetry. apply aset_same. exact L2.
Qed.
