(** ReplayFacts.v — the engine invariant: the in-memory indexes are exactly the
    replay of the committed records on disk.  Consequences: a clean reopen
    preserves every index (C08), with any option record (C19, C22 RAM<->RAM);
    records of a transaction without commit marker are invisible after
    recovery and a complete transaction is visible in full (C10); a failed or
    rolled-back transaction leaves no trace after reopen (C12). *)
From Verif Require Import Bytes BytesFacts Codec Dec ListDS SetDS ZSetDS Index Engine TxFacts DecFacts.
Open Scope N_scope.

Definition recs (w : world) : list (N * N * entry) := all_records (w_disk w).
Definition ids_of (rs : list (N * N * entry)) : list N := map (fun r => e_txid (snd r)) rs.

(** sorted-set additions are logged as member|score with a separator-free
    member and a decimal score (Tx.ZAdd); nothing else is needed of a record
    for commit-time and open-time application to coincide *)
Definition entry_ok (e : entry) : Prop :=
  e_ds e = DS_ZSet -> e_flag e = F_ZAdd ->
  exists k sc, e_key e = join_sep k sc /\ contains_sep k = false /\ contains_sep sc = false.

Definition tx_ok (rs : list (N * N * entry)) (x : txs) : Prop :=
  match x with
  | TxActive t =>
      ~ In (tx_id t) (ids_of rs) /\
      Forall (fun e => entry_ok e /\ e_txid e = tx_id t /\ e_status e = 0) (tx_pend t)
  | _ => True
  end.

Record Inv (w : world) : Prop := mkInv {
  inv_nodup : NoDup (map fst (w_disk w));
  inv_max_in : In (w_maxfid w) (map fst (w_disk w));
  inv_max : forall f, In f (map fst (w_disk w)) -> f <= w_maxfid w;
  inv_off : forall s, disk_get (w_disk w) (w_maxfid w) = Some s -> w_woff w = seg_end s /\ w_asize w = seg_end s;
  inv_ix : w_ix w = replay (committed_ids (recs w)) (recs w);
  inv_comm : forall id, nmem id (w_committed w) = nmem id (committed_ids (recs w));
  inv_marker : forall r, In r (recs w) -> e_status (snd r) = St_Committed \/ e_status (snd r) = 0;
  inv_ok : Forall (fun r => entry_ok (snd r)) (recs w);
  inv_tx : tx_ok (recs w) (w_tx w)
}.

(** transaction ids are unique (fix 456b246: one snowflake node per database):
    the id given to Begin has not been used by any record on disk *)
Definition call_ok (w : world) (c : call) : Prop :=
  match c with
  | CBegin _ id => ~ In id (ids_of (recs w))
  | _ => True
  end.

(** ---- helper lemmas: sorting of file ids ---- *)
From Coq Require Import Permutation.

Fixpoint sorted (l : list N) : Prop :=
  match l with [] => True | x :: r => (forall y, In y r -> x <= y) /\ sorted r end.

Lemma ninsert_in : forall x l y, In y (ninsert x l) <-> y = x \/ In y l.
Proof.
  intros x l y. induction l as [|z r IH]; cbn [ninsert].
  - cbn. intuition.
  - destruct (x <=? z); cbn [In] in *; intuition.
Qed.

Lemma ninsert_sorted : forall x l, sorted l -> sorted (ninsert x l).
Proof.
  intros x l. induction l as [|z r IH]; intros Hs; cbn [ninsert].
  - cbn. split; [intros y []|exact I].
  - cbn [sorted] in Hs. destruct Hs as [Hz Hr].
    destruct (x <=? z) eqn:E.
    + cbn [sorted]. split; [|split; assumption].
      intros y [Hy|Hy]; [subst; lia|]. specialize (Hz y Hy). lia.
    + cbn [sorted]. split; [|apply IH; exact Hr].
      intros y Hy. apply ninsert_in in Hy. destruct Hy as [Hy|Hy]; [subst; lia|apply Hz; exact Hy].
Qed.

Lemma nsort_sorted : forall l, sorted (nsort l).
Proof.
  induction l as [|x r IH]; [exact I|]. unfold nsort in *. cbn [fold_right].
  apply ninsert_sorted. exact IH.
Qed.

Lemma ninsert_perm : forall x l, Permutation (ninsert x l) (x :: l).
Proof.
  intros x l. induction l as [|z r IH]; cbn [ninsert]; [apply Permutation_refl|].
  destruct (x <=? z); [apply Permutation_refl|].
  eapply perm_trans; [apply perm_skip; exact IH|apply perm_swap].
Qed.

Lemma nsort_perm : forall l, Permutation (nsort l) l.
Proof.
  induction l as [|x r IH]; [apply perm_nil|]. unfold nsort in *. cbn [fold_right].
  eapply perm_trans; [apply ninsert_perm|apply perm_skip; exact IH].
Qed.

Lemma nsort_in : forall l y, In y (nsort l) <-> In y l.
Proof.
  intros l y. split; intros H.
  - eapply Permutation_in; [apply nsort_perm|exact H].
  - eapply Permutation_in; [apply Permutation_sym, nsort_perm|exact H].
Qed.

Lemma nsort_nodup : forall l, NoDup l -> NoDup (nsort l).
Proof. intros l H. eapply Permutation_NoDup; [apply Permutation_sym, nsort_perm|exact H]. Qed.

Lemma filter_ninsert_false : forall (p : N -> bool) x l, p x = false -> filter p (ninsert x l) = filter p l.
Proof.
  intros p x l Hp. induction l as [|z r IH]; cbn [ninsert filter].
  - rewrite Hp. reflexivity.
  - destruct (x <=? z); cbn [filter]; [rewrite Hp; reflexivity|]. rewrite IH. reflexivity.
Qed.

Lemma ninsert_le_all : forall x l, (forall y, In y l -> x <= y) -> ninsert x l = x :: l.
Proof.
  intros x [|z r] H; [reflexivity|]. cbn [ninsert].
  assert (x <= z) by (apply H; left; reflexivity).
  destruct (x <=? z) eqn:E; [reflexivity|lia].
Qed.

Lemma filter_ninsert_true : forall (p : N -> bool) x l, sorted l -> p x = true ->
  filter p (ninsert x l) = ninsert x (filter p l).
Proof.
  intros p x l. induction l as [|z r IH]; intros Hs Hp.
  - cbn. rewrite Hp. reflexivity.
  - cbn [sorted] in Hs. destruct Hs as [Hz Hr]. cbn [ninsert].
    destruct (x <=? z) eqn:E.
    + cbn [filter]. rewrite Hp. symmetry.
      change (if p z then z :: filter p r else filter p r) with (filter p (z :: r)).
      apply ninsert_le_all. intros y Hy. apply filter_In in Hy. destruct Hy as [Hy _].
      destruct Hy as [Hy|Hy]; [subst; lia|]. specialize (Hz y Hy). lia.
    + cbn [filter]. destruct (p z) eqn:Pz.
      * rewrite (IH Hr Hp). cbn [ninsert]. rewrite E. reflexivity.
      * apply IH; assumption.
Qed.

Lemma filter_nsort : forall (p : N -> bool) l, filter p (nsort l) = nsort (filter p l).
Proof.
  intros p l. induction l as [|x r IH]; [reflexivity|].
  change (nsort (x :: r)) with (ninsert x (nsort r)). cbn [filter].
  destruct (p x) eqn:Px.
  - rewrite filter_ninsert_true by (auto using nsort_sorted). rewrite IH. reflexivity.
  - rewrite filter_ninsert_false by exact Px. exact IH.
Qed.

Lemma filter_notin : forall f l, ~ In f l -> filter (fun x => negb (x =? f)) l = l.
Proof.
  intros f l. induction l as [|x r IH]; intros H; [reflexivity|]. cbn [filter].
  destruct (x =? f) eqn:E.
  - apply N.eqb_eq in E. subst. exfalso. apply H. left. reflexivity.
  - cbn [negb]. rewrite IH; [reflexivity|]. intros Hi. apply H. right. exact Hi.
Qed.

Lemma flat_map_filter : forall {B} (g : N -> list B) (p : N -> bool) l,
  (forall x, p x = false -> g x = []) -> flat_map g l = flat_map g (filter p l).
Proof.
  intros B g p l H. induction l as [|x r IH]; [reflexivity|]. cbn [flat_map filter].
  destruct (p x) eqn:Px; cbn [flat_map]; rewrite IH; [reflexivity|]. rewrite (H x Px). reflexivity.
Qed.

Lemma flat_map_ext_in : forall {A B} (g h : A -> list B) l,
  (forall x, In x l -> g x = h x) -> flat_map g l = flat_map h l.
Proof.
  intros A B g h l H. induction l as [|x r IH]; [reflexivity|]. cbn [flat_map].
  rewrite H by (left; reflexivity). rewrite IH; [reflexivity|]. intros y Hy. apply H. right. exact Hy.
Qed.

Lemma sorted_last : forall A f, sorted A -> In f A -> (forall g, In g A -> g <= f) -> NoDup A ->
  exists L, A = L ++ [f] /\ ~ In f L.
Proof.
  induction A as [|x r IH]; intros f Hs Hin Hmax Hnd; [destruct Hin|].
  cbn [sorted] in Hs. destruct Hs as [Hx Hr]. inversion Hnd as [|x' r' Hnx Hndr]; subst.
  destruct r as [|y r2].
  - destruct Hin as [Hin|[]]. subst. exists []. split; [reflexivity|intros []].
  - assert (Hf : In f (y :: r2)).
    { destruct Hin as [Hin|Hin]; [|exact Hin]. subst x.
      assert (y <= f) by (apply Hmax; right; left; reflexivity).
      assert (f <= y) by (apply Hx; left; reflexivity).
      assert (y = f) by lia. left. exact H1. }
    destruct (IH f Hr Hf) as [L [EL HL]].
    + intros g Hg. apply Hmax. right. exact Hg.
    + exact Hndr.
    + exists (x :: L). split; [cbn; rewrite EL; reflexivity|].
      intros [Hc|Hc]; [subst; contradiction|contradiction].
Qed.

(** ---- helper lemmas: disk access ---- *)
Lemma disk_get_none : forall d f, disk_get d f = None -> ~ In f (map fst d).
Proof.
  induction d as [|[g s] r IH]; intros f H; [intros []|]. cbn [disk_get] in H. cbn [map fst In].
  destruct (g =? f) eqn:E; [discriminate|]. apply N.eqb_neq in E.
  intros [Hc|Hc]; [contradiction|]. exact (IH f H Hc).
Qed.

Lemma disk_get_in : forall d f, In f (map fst d) -> exists s, disk_get d f = Some s.
Proof.
  induction d as [|[g s] r IH]; intros f H; [destruct H|]. cbn [disk_get]. cbn [map fst In] in H.
  destruct (g =? f) eqn:E; [eexists; reflexivity|]. apply N.eqb_neq in E.
  destruct H as [H|H]; [contradiction|]. exact (IH f H).
Qed.

Lemma disk_get_some_in : forall d f s, disk_get d f = Some s -> In f (map fst d).
Proof.
  intros d f s H. destruct (in_dec N.eq_dec f (map fst d)) as [Hi|Hn]; [exact Hi|].
  exfalso. induction d as [|[g s'] r IH]; [discriminate|]. cbn [disk_get] in H. cbn [map fst In] in Hn.
  destruct (g =? f) eqn:E.
  - apply N.eqb_eq in E. apply Hn. left. exact E.
  - apply IH; [exact H|]. intros Hc. apply Hn. right. exact Hc.
Qed.

Lemma disk_get_app : forall d d' x,
  disk_get (d ++ d') x = match disk_get d x with Some s => Some s | None => disk_get d' x end.
Proof.
  induction d as [|[g s] r IH]; intros d' x; [reflexivity|]. cbn [app disk_get].
  destruct (g =? x); [reflexivity|apply IH].
Qed.

Lemma disk_append_fst : forall d f pos e, In f (map fst d) -> map fst (disk_append d f pos e) = map fst d.
Proof.
  induction d as [|[g s] r IH]; intros f pos e H; [destruct H|]. cbn [disk_append].
  destruct (g =? f) eqn:E; [reflexivity|]. cbn [map fst]. f_equal. apply IH.
  apply N.eqb_neq in E. destruct H as [H|H]; [contradiction|exact H].
Qed.

Lemma disk_get_append_same : forall d f pos e s, disk_get d f = Some s ->
  disk_get (disk_append d f pos e) f = Some (s ++ [(pos, e)]).
Proof.
  induction d as [|[g s'] r IH]; intros f pos e s H; [discriminate|]. cbn [disk_get] in H. cbn [disk_append].
  destruct (g =? f) eqn:E; cbn [disk_get]; rewrite E.
  - inversion H; subst. reflexivity.
  - apply IH. exact H.
Qed.

Lemma disk_get_append_other : forall d f pos e g, g <> f ->
  disk_get (disk_append d f pos e) g = disk_get d g.
Proof.
  induction d as [|[h s'] r IH]; intros f pos e g H.
  - cbn [disk_append disk_get]. destruct (f =? g) eqn:E; [apply N.eqb_eq in E; congruence|reflexivity].
  - cbn [disk_append]. destruct (h =? f) eqn:E; cbn [disk_get].
    + apply N.eqb_eq in E. subst h. destruct (f =? g) eqn:E2; [apply N.eqb_eq in E2; congruence|reflexivity].
    + destruct (h =? g); [reflexivity|apply IH; exact H].
Qed.

Definition seg_recs (d : disk) (fid : N) : list (N * N * entry) :=
  match disk_get d fid with
  | Some s => map (fun pe => (fid, fst pe, snd pe)) s
  | None => [] end.

Lemma all_records_eq : forall d, all_records d = flat_map (seg_recs d) (nsort (map fst d)).
Proof. reflexivity. Qed.

(** ---- structure of the log ---- *)
Lemma all_records_create : forall d f, all_records (disk_create d f) = all_records d.
Proof.
  intros d f. unfold disk_create. destruct (disk_get d f) as [s|] eqn:E; [reflexivity|].
  pose proof (disk_get_none d f E) as Hn.
  rewrite !all_records_eq. rewrite map_app. cbn [map fst].
  rewrite (flat_map_filter (seg_recs (d ++ [(f, [])])) (fun x => negb (x =? f))).
  - rewrite filter_nsort, filter_app. cbn [filter]. rewrite N.eqb_refl. cbn [negb].
    rewrite app_nil_r, filter_notin by exact Hn.
    apply flat_map_ext_in. intros x Hx. apply (proj1 (nsort_in _ _)) in Hx.
    unfold seg_recs. rewrite disk_get_app.
    destruct (disk_get_in d x Hx) as [s Hs]. rewrite Hs. reflexivity.
  - intros x Hx. apply negb_false_iff, N.eqb_eq in Hx. subst x.
    unfold seg_recs. rewrite disk_get_app, E. cbn [disk_get]. rewrite N.eqb_refl. reflexivity.
Qed.

Lemma all_records_append : forall d f pos e,
  NoDup (map fst d) -> In f (map fst d) -> (forall g, In g (map fst d) -> g <= f) ->
  all_records (disk_append d f pos e) = all_records d ++ [(f, pos, e)].
Proof.
  intros d f pos e Hnd Hin Hmax.
  rewrite !all_records_eq. rewrite disk_append_fst by exact Hin.
  destruct (sorted_last (nsort (map fst d)) f) as [L [EL HL]].
  - apply nsort_sorted.
  - apply nsort_in. exact Hin.
  - intros g Hg. apply Hmax. apply nsort_in. exact Hg.
  - apply nsort_nodup. exact Hnd.
  - rewrite EL. rewrite !flat_map_app. cbn [flat_map]. rewrite !app_nil_r.
    rewrite <- app_assoc. f_equal.
    + apply flat_map_ext_in. intros x Hx. unfold seg_recs.
      rewrite disk_get_append_other; [reflexivity|]. intros Hc. subst. contradiction.
    + unfold seg_recs. destruct (disk_get_in d f Hin) as [s Hs].
      rewrite (disk_get_append_same d f pos e s Hs), Hs. rewrite map_app. reflexivity.
Qed.
(** ---- helper lemmas: the write loop ---- *)
Definition cst_ok (st : cstate) : Prop :=
  NoDup (map fst (c_disk st)) /\ In (c_maxfid st) (map fst (c_disk st)) /\
  (forall g, In g (map fst (c_disk st)) -> g <= c_maxfid st).

Definition off_ok (st : cstate) : Prop :=
  forall s, disk_get (c_disk st) (c_maxfid st) = Some s -> c_woff st = seg_end s /\ c_asize st = seg_end s.

Definition rotate (seg : N) (st : cstate) (sz : N) : cstate :=
  if seg <? c_asize st + sz
  then mkC (disk_create (c_disk st) (c_maxfid st + 1)) (c_maxfid st + 1) 0 0
  else st.

Lemma rotate_spec : forall seg st sz, cst_ok st ->
  cst_ok (rotate seg st sz) /\ all_records (c_disk (rotate seg st sz)) = all_records (c_disk st) /\
  (off_ok st -> off_ok (rotate seg st sz)).
Proof.
  intros seg st sz (Hnd & Hin & Hmax). unfold rotate.
  destruct (seg <? c_asize st + sz); [|split; [split; [|split]; assumption | split; [reflexivity | auto]]].
  cbn [c_disk c_maxfid c_woff c_asize].
  assert (Hn : disk_get (c_disk st) (c_maxfid st + 1) = None).
  { destruct (disk_get (c_disk st) (c_maxfid st + 1)) as [s|] eqn:E; [|reflexivity].
    apply disk_get_some_in in E. apply Hmax in E. lia. }
  split; [|split].
  - unfold cst_ok. cbn [c_disk c_maxfid]. unfold disk_create. rewrite Hn.
    rewrite map_app. cbn [map fst]. split; [|split].
    + eapply Permutation_NoDup; [apply Permutation_cons_append|].
      constructor; [|exact Hnd]. intros Hc. apply Hmax in Hc. lia.
    + apply in_or_app. right. left. reflexivity.
    + intros g Hg. apply in_app_or in Hg. destruct Hg as [Hg|[Hg|[]]]; [apply Hmax in Hg; lia|lia].
  - apply all_records_create.
  - intros _ s Hs. cbn [c_disk c_maxfid c_woff c_asize] in *. unfold disk_create in Hs. rewrite Hn in Hs.
    rewrite disk_get_app, Hn in Hs. cbn [disk_get] in Hs. rewrite N.eqb_refl in Hs.
    inversion Hs; subst. split; reflexivity.
Qed.

Lemma seg_end_app : forall s pos e, seg_end (s ++ [(pos, e)]) = seg_end s + entry_size e.
Proof. intros. unfold seg_end. rewrite fold_left_app. reflexivity. Qed.

Lemma entry_size_with_status : forall e s, entry_size (with_status e s) = entry_size e.
Proof. reflexivity. Qed.

Lemma commit_write_eq : forall seg st e last,
  commit_write seg st e last =
  let st1 := rotate seg st (entry_size e) in
  let e' := if last then with_status e St_Committed else e in
  (mkC (disk_append (c_disk st1) (c_maxfid st1) (c_woff st1) e') (c_maxfid st1)
       (c_woff st1 + entry_size e) (c_asize st1 + entry_size e),
   (c_maxfid st1, c_woff st1, e')).
Proof. reflexivity. Qed.

Lemma commit_write_spec : forall seg st e last st' r,
  cst_ok st -> commit_write seg st e last = (st', r) ->
  all_records (c_disk st') = all_records (c_disk st) ++ [r] /\
  snd r = (if last then with_status e St_Committed else e) /\
  cst_ok st' /\ (off_ok st -> off_ok st').
Proof.
  intros seg st e last st' r Hok H. rewrite commit_write_eq in H. cbv zeta in H.
  destruct (rotate_spec seg st (entry_size e) Hok) as ((Hnd & Hin & Hmax) & Hrec & Hoff).
  set (st1 := rotate seg st (entry_size e)) in *.
  set (e' := if last then with_status e St_Committed else e) in *.
  inversion H; subst st' r; clear H. cbn [c_disk c_maxfid c_woff c_asize snd].
  split; [|split; [|split]].
  - rewrite all_records_append by assumption. rewrite Hrec. reflexivity.
  - reflexivity.
  - unfold cst_ok. cbn [c_disk c_maxfid]. rewrite disk_append_fst by exact Hin. auto.
  - intros Ho s Hs. specialize (Hoff Ho). cbn [c_disk c_maxfid c_woff c_asize] in *.
    destruct (disk_get_in _ _ Hin) as [s1 Hs1].
    rewrite (disk_get_append_same _ _ _ _ _ Hs1) in Hs. inversion Hs; subst s.
    destruct (Hoff s1 Hs1) as [A B]. rewrite seg_end_app, A, B.
    assert (entry_size e' = entry_size e) by (unfold e'; destruct last; reflexivity).
    rewrite H. split; reflexivity.
Qed.

Lemma commit_loop_spec : forall pend seg mark st st' ws,
  cst_ok st -> commit_loop seg mark st pend = (st', ws) ->
  all_records (c_disk st') = all_records (c_disk st) ++ ws /\
  map (fun r => snd r) ws =
    (if mark then match rev pend with
                  | [] => []
                  | l :: r => rev r ++ [with_status l St_Committed]
                  end
     else pend) /\
  cst_ok st' /\ (off_ok st -> off_ok st').
Proof.
  induction pend as [|e rest IH]; intros seg mark st st' ws Hok H.
  - cbn [commit_loop] in H. inversion H; subst. rewrite app_nil_r.
    split; [reflexivity|]. split; [destruct mark; reflexivity|]. split; [exact Hok|auto].
  - cbn [commit_loop] in H.
    destruct (commit_write seg st e (mark && match rest with [] => true | _ => false end)) as [st1 r] eqn:E1.
    destruct (commit_loop seg mark st1 rest) as [st2 rs] eqn:E2.
    inversion H; subst st' ws; clear H.
    destruct (commit_write_spec _ _ _ _ _ _ Hok E1) as (A1 & B1 & C1 & D1).
    destruct (IH _ _ _ _ _ C1 E2) as (A2 & B2 & C2 & D2).
    split; [|split; [|split]].
    + rewrite A2, A1, <- app_assoc. reflexivity.
    + cbn [map]. rewrite B1, B2. destruct mark; cbn [andb]; [|reflexivity].
      destruct rest as [|e2 rest2]; [reflexivity|].
      cbn [rev]. destruct (rev rest2 ++ [e2]) as [|l r'] eqn:ER.
      { destruct (rev rest2); discriminate. }
      cbn [app]. cbv iota. rewrite rev_app_distr. reflexivity.
    + exact C2.
    + auto.
Qed.

(** the write loop of Commit appends exactly the records it reports, in order,
    to the end of the log *)
Lemma commit_loop_records : forall pend seg mark st st' ws,
  NoDup (map fst (c_disk st)) -> In (c_maxfid st) (map fst (c_disk st)) ->
  (forall g, In g (map fst (c_disk st)) -> g <= c_maxfid st) ->
  commit_loop seg mark st pend = (st', ws) ->
  all_records (c_disk st') = all_records (c_disk st) ++ ws /\
  map (fun r => snd r) ws =
    (if mark then match rev pend with
                  | [] => []
                  | l :: r => rev r ++ [with_status l St_Committed]
                  end
     else pend) /\
  NoDup (map fst (c_disk st')) /\ In (c_maxfid st') (map fst (c_disk st')) /\
  (forall g, In g (map fst (c_disk st')) -> g <= c_maxfid st').
Proof.
  intros pend seg mark st st' ws H1 H2 H3 H.
  destruct (commit_loop_spec pend seg mark st st' ws (conj H1 (conj H2 H3)) H) as (A & B & C & _).
  split; [exact A|]. split; [exact B|exact C].
Qed.

(** ---- visibility ---- *)
Lemma replay1_not_comm : forall comm ix r, nmem (e_txid (snd r)) comm = false -> replay1 comm ix r = ix.
Proof. intros comm ix [[fid pos] e] H. cbn [snd] in H. unfold replay1. rewrite H. reflexivity. Qed.

(** records of a transaction id that is not committed do not influence replay *)
Lemma replay_skip_uncommitted : forall comm rs extra ix0,
  (forall r, In r extra -> nmem (e_txid (snd r)) comm = false) ->
  fold_left (replay1 comm) (rs ++ extra) ix0 = fold_left (replay1 comm) rs ix0.
Proof.
  intros comm rs extra ix0 H. rewrite fold_left_app. generalize (fold_left (replay1 comm) rs ix0) as ix.
  induction extra as [|r ex IH]; intros ix; [reflexivity|]. cbn [fold_left].
  rewrite replay1_not_comm by (apply H; left; reflexivity).
  apply IH. intros r' Hr'. apply H. right. exact Hr'.
Qed.

Lemma replay_comm_ext : forall c1 c2 rs ix0,
  (forall id, nmem id c1 = nmem id c2) ->
  fold_left (replay1 c1) rs ix0 = fold_left (replay1 c2) rs ix0.
Proof.
  intros c1 c2 rs. induction rs as [|r rs IH]; intros ix0 H; [reflexivity|]. cbn [fold_left].
  assert (E : replay1 c1 ix0 r = replay1 c2 ix0 r).
  { destruct r as [[fid pos] e]. unfold replay1. rewrite (H (e_txid e)). reflexivity. }
  rewrite E. apply IH. exact H.
Qed.

(** adding a fresh id to the committed set does not change the replay of
    records that do not carry it *)
Lemma replay_fresh_id : forall id comm rs ix0,
  ~ In id (ids_of rs) ->
  fold_left (replay1 (id :: comm)) rs ix0 = fold_left (replay1 comm) rs ix0.
Proof.
  intros id comm rs. induction rs as [|r rs IH]; intros ix0 H; [reflexivity|]. cbn [fold_left].
  cbn [ids_of map In] in H.
  assert (E : replay1 (id :: comm) ix0 r = replay1 comm ix0 r).
  { destruct r as [[fid pos] e]. cbn [snd] in H. unfold replay1. cbn [nmem existsb].
    destruct (e_txid e =? id) eqn:Eid; [|reflexivity].
    apply N.eqb_eq in Eid. exfalso. apply H. left. exact Eid. }
  rewrite E. apply IH. intros Hc. apply H. right. exact Hc.
Qed.

Lemma apply_zset_ok : forall z e, entry_ok e -> e_ds e = DS_ZSet -> apply_zset false z e = apply_zset true z e.
Proof.
  intros z e Hok Hds. unfold apply_zset. destruct (e_flag e =? F_ZAdd) eqn:Ef; [|reflexivity].
  apply N.eqb_eq in Ef. destruct (Hok Hds Ef) as (k & sc & Ek & Hk & Hsc).
  rewrite Ek, (DecFacts.split_all_join k sc Hk Hsc). reflexivity.
Qed.

Lemma apply_ds_ok : forall ix e, entry_ok e -> apply_ds false ix e = apply_ds true ix e.
Proof.
  intros ix e Hok. unfold apply_ds. destruct (e_ds e =? DS_Set); [reflexivity|].
  destruct (e_ds e =? DS_ZSet) eqn:E; [|reflexivity]. apply N.eqb_eq in E.
  rewrite (apply_zset_ok _ e Hok E). reflexivity.
Qed.

Definition kv_step (kv : list (bytes * kvidx)) (r : N * N * entry) : list (bytes * kvidx) :=
  let '(fid, pos, e) := r in if e_ds e =? DS_KV then apply_kv kv e fid pos else kv.

Lemma commit_index_eq : forall ix ws,
  commit_index ix ws =
  fold_left (fun ix r => apply_ds false ix (snd r)) ws
    (mkIx (fold_left kv_step ws (ix_kv ix)) (ix_list ix) (ix_set ix) (ix_zset ix)).
Proof. reflexivity. Qed.

Lemma replay1_split : forall comm kv l s z r K,
  nmem (e_txid (snd r)) comm = true -> entry_ok (snd r) ->
  exists l' s' z',
    replay1 comm (mkIx kv l s z) r = mkIx (kv_step kv r) l' s' z' /\
    apply_ds false (mkIx K l s z) (snd r) = mkIx K l' s' z'.
Proof.
  intros comm kv l s z [[fid pos] e] K Hc Hok. cbn [snd] in *. unfold replay1. rewrite Hc.
  unfold kv_step. destruct (e_ds e =? DS_KV) eqn:Ekv.
  - apply N.eqb_eq in Ekv. exists l, s, z. cbn [ix_kv ix_list ix_set ix_zset]. split.
    + reflexivity.
    + unfold apply_ds. rewrite Ekv. reflexivity.
  - rewrite <- (apply_ds_ok _ e Hok). unfold apply_ds. cbn [ix_kv ix_list ix_set ix_zset].
    destruct (e_ds e =? DS_Set); [do 3 eexists; split; reflexivity|].
    destruct (e_ds e =? DS_ZSet); [do 3 eexists; split; reflexivity|].
    destruct (e_ds e =? DS_List); do 3 eexists; split; reflexivity.
Qed.

(** commit-time application (key/value records first, then buildIdxes with the
    lenient ZAdd decoding) equals open-time replay of the same records *)
Lemma commit_index_replay : forall comm ws ix,
  (forall r, In r ws -> nmem (e_txid (snd r)) comm = true) ->
  Forall (fun r => entry_ok (snd r)) ws ->
  commit_index ix ws = fold_left (replay1 comm) ws ix.
Proof.
  intros comm ws ix Hc Hok. rewrite commit_index_eq.
  destruct ix as [kv l s z]. cbn [ix_kv ix_list ix_set ix_zset].
  revert kv l s z Hc Hok. induction ws as [|r ws IH]; intros kv l s z Hc Hok; [reflexivity|].
  inversion Hok as [|r' ws' Hr Hws]; subst. cbn [fold_left].
  destruct (replay1_split comm kv l s z r (fold_left kv_step ws (kv_step kv r))) as (l' & s' & z' & A & B).
  - apply Hc. left. reflexivity.
  - exact Hr.
  - rewrite A, B. apply IH; [|exact Hws]. intros r2 Hr2. apply Hc. right. exact Hr2.
Qed.

(** ---- the invariant ---- *)
Lemma inv_open_empty : forall o, Inv (empty_world o).
Proof.
  intros o. constructor; cbn.
  - constructor; [intros []|constructor].
  - left. reflexivity.
  - intros f [H|[]]. subst. lia.
  - intros s H. inversion H; subst. split; reflexivity.
  - reflexivity.
  - reflexivity.
  - intros r [].
  - constructor.
  - exact I.
Qed.

Lemma tx_put_ok : forall rs t b k v ttl flag ts ds,
  tx_ok rs (TxActive t) ->
  (ds = DS_ZSet -> flag = F_ZAdd ->
   exists k' sc, k = join_sep k' sc /\ contains_sep k' = false /\ contains_sep sc = false) ->
  tx_ok rs (TxActive (fst (tx_put t b k v ttl flag ts ds))).
Proof.
  intros rs t b k v ttl flag ts ds [Hid Hp] Hk. unfold tx_put.
  destruct (negb (tx_w t)); [split; assumption|].
  destruct k as [|k0 kr]; [split; assumption|]. cbn [fst tx_ok tx_id tx_pend]. split; [exact Hid|].
  apply Forall_app. split; [exact Hp|]. constructor; [|constructor].
  split; [|split; reflexivity]. unfold entry_ok, mk_entry. cbn [e_ds e_flag e_key]. exact Hk.
Qed.

Lemma tx_put_all_ok : forall rs vs t b k flag ts ds,
  tx_ok rs (TxActive t) -> (ds = DS_ZSet -> flag = F_ZAdd -> False) ->
  tx_ok rs (TxActive (fst (tx_put_all t b k vs flag ts ds))).
Proof.
  intros rs vs. induction vs as [|v r IH]; intros t b k flag ts ds Ht Hn; [exact Ht|].
  cbn [tx_put_all].
  pose proof (tx_put_ok rs t b k v 0 flag ts ds Ht) as H1.
  destruct (tx_put t b k v 0 flag ts ds) as [t' res]. cbn [fst] in H1.
  assert (Ht' : tx_ok rs (TxActive t')) by (apply H1; intros A B; destruct (Hn A B)).
  destruct res; try exact Ht'. apply IH; assumption.
Qed.
Ltac step_put rs :=
  match goal with
  | Ht : tx_ok rs (TxActive ?t1) |- context [tx_put ?t1 ?b ?k ?v ?ttl ?f ?ts ?ds] =>
      let H := fresh "Hput" in
      assert (H : tx_ok rs (TxActive (fst (tx_put t1 b k v ttl f ts ds))))
        by (apply tx_put_ok; [exact Ht | intros ? ?; discriminate]);
      destruct (tx_put t1 b k v ttl f ts ds) as [? ?]; cbn [fst snd] in H |- *
  | Ht : tx_ok rs (TxActive ?t1) |- context [tx_put_all ?t1 ?b ?k ?vs ?f ?ts ?ds] =>
      let H := fresh "Hput" in
      assert (H : tx_ok rs (TxActive (fst (tx_put_all t1 b k vs f ts ds))))
        by (apply tx_put_all_ok; [exact Ht | intros ? ?; discriminate]);
      destruct (tx_put_all t1 b k vs f ts ds) as [? ?]; cbn [fst snd] in H |- *
  | |- context [match ?x with _ => _ end] => destruct x; cbn [fst snd]
  | |- context [if ?x then _ else _] => destruct x; cbn [fst snd]
  end.

(** every entry an API call appends to the pending list is well formed *)
Lemma do_op_tx_ok : forall now w t o rs,
  tx_ok rs (TxActive t) -> tx_ok rs (TxActive (snd (fst (do_op now w t o)))).
Proof.
  intros now w t o rs Ht. unfold do_op. destruct (ds_read (w_ix w) o) as [r|]; [exact Ht|].
  destruct o; cbn [fst snd]; try exact Ht.
  all: try match goal with
    | Ht0 : tx_ok _ _ |- context [tx_put ?t0 ?b (join_sep ?k (print_Z ?sc)) ?v 0 F_ZAdd ?now0 DS_ZSet] =>
        destruct (contains_sep k) eqn:Ek; [exact Ht0|]; cbn [fst snd];
        apply tx_put_ok; [exact Ht0|]; intros _ _; exists k, (print_Z sc);
        split; [reflexivity|]; split; [exact Ek|apply print_Z_no_sep]
    end.
  all: repeat step_put rs; assumption.
Qed.

(** ---- helper lemmas for the step theorem ---- *)
Definition cids (es : list entry) : list N :=
  flat_map (fun e => if e_status e =? St_Committed then [e_txid e] else []) es.

Lemma committed_ids_cids : forall rs, committed_ids rs = cids (map (fun r => snd r) rs).
Proof.
  induction rs as [|r rs IH]; [reflexivity|]. unfold committed_ids, cids in *. cbn [map flat_map].
  rewrite IH. reflexivity.
Qed.

Lemma committed_ids_app : forall a b, committed_ids (a ++ b) = committed_ids a ++ committed_ids b.
Proof. intros. unfold committed_ids. apply flat_map_app. Qed.

Lemma cids_unmarked : forall es, Forall (fun e => e_status e = 0) es -> cids es = [].
Proof.
  induction 1 as [|e es He Hes IH]; [reflexivity|]. cbn [cids flat_map]. rewrite He. cbn. exact IH.
Qed.

Lemma nmem_app : forall x a b, nmem x (a ++ b) = nmem x a || nmem x b.
Proof. intros. unfold nmem. apply existsb_app. Qed.

Lemma nmem_in : forall x l, nmem x l = true -> In x l.
Proof.
  intros x l H. unfold nmem in H. apply existsb_exists in H. destruct H as [y [Hy E]].
  apply N.eqb_eq in E. subst. exact Hy.
Qed.

Lemma committed_ids_sub : forall rs x, In x (committed_ids rs) -> In x (ids_of rs).
Proof.
  induction rs as [|r rs IH]; intros x H; [destruct H|]. cbn in H. cbn [ids_of map In].
  apply in_app_or in H. destruct H as [H|H]; [|right; apply IH; exact H].
  destruct (e_status (snd r) =? St_Committed); [|destruct H]. destruct H as [H|[]]. left. exact H.
Qed.

Lemma not_in_nmem : forall x rs, ~ In x (ids_of rs) -> nmem x (committed_ids rs) = false.
Proof.
  intros x rs H. destruct (nmem x (committed_ids rs)) eqn:E; [|reflexivity].
  exfalso. apply H. apply committed_ids_sub. apply nmem_in. exact E.
Qed.

Lemma ids_of_app : forall a b, ids_of (a ++ b) = ids_of a ++ ids_of b.
Proof. intros. unfold ids_of. apply map_app. Qed.

Lemma last_fid_max : forall d f,
  NoDup (map fst d) -> In f (map fst d) -> (forall g, In g (map fst d) -> g <= f) -> last_fid d = f.
Proof.
  intros d f Hnd Hin Hmax. unfold last_fid, disk_fids.
  destruct (sorted_last (nsort (map fst d)) f) as [L [EL HL]].
  - apply nsort_sorted.
  - apply nsort_in. exact Hin.
  - intros g Hg. apply Hmax. apply (proj1 (nsort_in _ _)). exact Hg.
  - apply nsort_nodup. exact Hnd.
  - rewrite EL, rev_app_distr. reflexivity.
Qed.

Lemma disk_create_in : forall d f, In f (map fst d) -> disk_create d f = d.
Proof. intros d f H. unfold disk_create. destruct (disk_get_in d f H) as [s Hs]. rewrite Hs. reflexivity. Qed.

Lemma do_open_eq : forall o d f,
  NoDup (map fst d) -> In f (map fst d) -> (forall g, In g (map fst d) -> g <= f) ->
  do_open o d =
  let off := match disk_get d f with Some s => seg_end s | None => 0 end in
  mkW o false d f off off (replay (committed_ids (all_records d)) (all_records d))
      (committed_ids (all_records d)) TxNone.
Proof.
  intros o d f Hnd Hin Hmax. unfold do_open. rewrite (last_fid_max d f Hnd Hin Hmax).
  rewrite (disk_create_in d f Hin). reflexivity.
Qed.

Lemma inv_do_open : forall o d f,
  NoDup (map fst d) -> In f (map fst d) -> (forall g, In g (map fst d) -> g <= f) ->
  (forall r, In r (all_records d) -> e_status (snd r) = St_Committed \/ e_status (snd r) = 0) ->
  Forall (fun r => entry_ok (snd r)) (all_records d) ->
  Inv (do_open o d).
Proof.
  intros o d f Hnd Hin Hmax Hm Hok. rewrite (do_open_eq o d f Hnd Hin Hmax). cbv zeta.
  constructor; unfold recs; cbn [w_disk w_maxfid w_woff w_asize w_ix w_committed w_tx]; auto.
  - intros s Hs. rewrite Hs. split; reflexivity.
  - exact I.
Qed.

Lemma inv_extend : forall w st ws ix comm x,
  Inv w -> cst_ok st -> off_ok st -> all_records (c_disk st) = recs w ++ ws ->
  ix = replay (committed_ids (recs w ++ ws)) (recs w ++ ws) ->
  (forall id, nmem id comm = nmem id (committed_ids (recs w ++ ws))) ->
  Forall (fun r => entry_ok (snd r) /\ (e_status (snd r) = St_Committed \/ e_status (snd r) = 0)) ws ->
  tx_ok (recs w ++ ws) x ->
  Inv (set_disk w st ix comm x).
Proof.
  intros w st ws ix comm x HI (Hnd & Hin & Hmax) Hoff Hrec Hix Hcomm Hws Htx.
  constructor; unfold recs; cbn [set_disk w_disk w_maxfid w_woff w_asize w_ix w_committed w_tx]; try rewrite Hrec; auto.
  - intros r Hr. apply in_app_or in Hr. destruct Hr as [Hr|Hr]; [apply (inv_marker w HI); exact Hr|].
    rewrite Forall_forall in Hws. apply (Hws r Hr).
  - apply Forall_app. split; [apply (inv_ok w HI)|].
    eapply Forall_impl; [|exact Hws]. intros r [A _]. exact A.
Qed.

Lemma inv_set_tx : forall w x, Inv w -> tx_ok (recs w) x -> Inv (set_tx w x).
Proof.
  intros w x HI Hx. destruct HI. constructor; unfold recs in *; cbn [set_tx w_disk w_maxfid w_woff w_asize w_ix w_committed w_tx]; auto.
Qed.

Lemma st0_ok : forall w, Inv w ->
  cst_ok (mkC (w_disk w) (w_maxfid w) (w_woff w) (w_asize w)) /\
  off_ok (mkC (w_disk w) (w_maxfid w) (w_woff w) (w_asize w)).
Proof.
  intros w HI. split.
  - unfold cst_ok. cbn [c_disk c_maxfid]. split; [apply (inv_nodup w HI)|]. split; [apply (inv_max_in w HI)|apply (inv_max w HI)].
  - unfold off_ok. cbn [c_disk c_maxfid c_woff c_asize]. apply (inv_off w HI).
Qed.

Lemma marked_last : forall (init : list entry) l,
  match rev (init ++ [l]) with [] => [] | l' :: r => rev r ++ [with_status l' St_Committed] end
  = init ++ [with_status l St_Committed].
Proof. intros. rewrite rev_app_distr. cbn [rev app]. rewrite rev_involutive. reflexivity. Qed.

Lemma entry_ok_with_status : forall e s, entry_ok e -> entry_ok (with_status e s).
Proof. intros e s H. unfold entry_ok in *. cbn [with_status e_ds e_flag e_key]. exact H. Qed.

(** Commit without fault *)
Lemma commit_inv : forall w t, Inv w -> w_tx w = TxActive t -> Inv (fst (do_commit None w t)).
Proof.
  intros w t HI Ht. unfold do_commit.
  destruct (tx_pend t) as [|e0 rest] eqn:Ep.
  { cbn [fst]. apply (inv_set_tx w TxDone HI). exact I. }
  destruct (existsb _ (e0 :: rest)); [exact HI|].
  destruct (commit_loop (o_seg (w_opts w)) true _ (e0 :: rest)) as [st written] eqn:EL. cbn [fst].
  destruct (st0_ok w HI) as [Hc0 Ho0].
  destruct (commit_loop_spec _ _ _ _ _ _ Hc0 EL) as (A & B & C & D). cbn [c_disk] in A. fold (recs w) in A.
  pose proof (inv_tx w HI) as Htx. rewrite Ht in Htx. cbn [tx_ok] in Htx. destruct Htx as [Hfresh Hpend].
  rewrite Ep in Hpend.
  destruct (exists_last (l := e0 :: rest)) as [init [l El]]; [discriminate|].
  rewrite El in B, Hpend. rewrite marked_last in B.
  apply Forall_app in Hpend. destruct Hpend as [Hinit Hl].
  inversion Hl as [|l' n' [Hl1 [Hl2 Hl3]] _]; subst l' n'.
  (* facts on the written records *)
  assert (Wall : Forall (fun e => entry_ok e /\ e_txid e = tx_id t /\
                                   (e_status e = St_Committed \/ e_status e = 0))
                        (map (fun r => snd r) written)).
  { rewrite B. apply Forall_app. split.
    - eapply Forall_impl; [|exact Hinit]. intros e (X & Y & Z). auto.
    - constructor; [|constructor]. split; [apply entry_ok_with_status; exact Hl1|]. split; [exact Hl2|left; reflexivity]. }
  rewrite Forall_map in Wall.
  assert (Wc : committed_ids written = [tx_id t]).
  { rewrite committed_ids_cids, B. unfold cids. rewrite flat_map_app. fold (cids init).
    rewrite cids_unmarked.
    - cbn. rewrite Hl2. reflexivity.
    - eapply Forall_impl; [|exact Hinit]. intros e (X & Y & Z). exact Z. }
  assert (Ecomm : forall id, nmem id (tx_id t :: w_committed w) = nmem id (committed_ids (recs w ++ written))).
  { intros id. rewrite committed_ids_app, Wc, nmem_app. cbn [nmem existsb]. fold (nmem id (w_committed w)).
    rewrite (inv_comm w HI). rewrite orb_false_r. apply orb_comm. }
  apply (inv_extend w st written); auto.
  - (* indexes *)
    unfold replay. rewrite fold_left_app.
    rewrite (replay_comm_ext _ (tx_id t :: committed_ids (recs w)) (recs w)).
    + rewrite replay_fresh_id by exact Hfresh. fold (replay (committed_ids (recs w)) (recs w)).
      rewrite <- (inv_ix w HI). apply commit_index_replay.
      * intros r Hr. rewrite Forall_forall in Wall. destruct (Wall r Hr) as (_ & X & _).
        rewrite X, committed_ids_app, Wc, nmem_app. cbn. rewrite N.eqb_refl. apply orb_true_r.
      * eapply Forall_impl; [|exact Wall]. intros r (X & _). exact X.
    + intros id. rewrite <- Ecomm. cbn [nmem existsb]. fold (nmem id (w_committed w)).
      fold (nmem id (committed_ids (recs w))). rewrite (inv_comm w HI). reflexivity.
  - eapply Forall_impl; [|exact Wall]. intros r (X & _ & Z). auto.
  - exact I.
Qed.

(** Commit with a write fault: everything but the [inv_tx] field *)
Lemma commit_fault_fields : forall k w t x, Inv w -> w_tx w = TxActive t ->
  tx_ok (recs (fst (do_commit (Some k) w t))) x ->
  Inv (set_tx (fst (do_commit (Some k) w t)) x).
Proof.
  intros k w t x HI Ht. unfold do_commit.
  destruct (tx_pend t) as [|e0 rest] eqn:Ep.
  { cbn [fst]. intros Hx. apply (inv_set_tx (set_tx_done w) x); [|exact Hx].
    apply (inv_set_tx w TxDone HI). exact I. }
  destruct (existsb _ (e0 :: rest)); [cbn [fst]; apply inv_set_tx; exact HI|].
  destruct (commit_loop (o_seg (w_opts w)) false _ (firstn k (e0 :: rest))) as [st written] eqn:EL. cbn [fst].
  destruct (st0_ok w HI) as [Hc0 Ho0].
  destruct (commit_loop_spec _ _ _ _ _ _ Hc0 EL) as (A & B & C & D). cbn [c_disk] in A. fold (recs w) in A.
  pose proof (inv_tx w HI) as Htx. rewrite Ht in Htx. cbn [tx_ok] in Htx. destruct Htx as [Hfresh Hpend].
  rewrite Ep in Hpend. rewrite <- (firstn_skipn k (e0 :: rest)) in Hpend.
  apply Forall_app in Hpend. destruct Hpend as [Hfirst _].
  assert (Wall : Forall (fun e => entry_ok e /\ e_txid e = tx_id t /\ e_status e = 0)
                        (map (fun r => snd r) written)) by (rewrite B; exact Hfirst).
  assert (Wc : committed_ids written = []).
  { rewrite committed_ids_cids. apply cids_unmarked. eapply Forall_impl; [|exact Wall]. intros e (_ & _ & Z). exact Z. }
  rewrite Forall_map in Wall.
  unfold recs at 1. cbn [set_disk w_disk]. rewrite A. intros Hx.
  change (Inv (set_disk w st (w_ix w) (w_committed w) x)).
  apply (inv_extend w st written); auto.
  - rewrite committed_ids_app, Wc, app_nil_r. unfold replay. rewrite replay_skip_uncommitted.
    + apply (inv_ix w HI).
    + intros r Hr. rewrite Forall_forall in Wall. destruct (Wall r Hr) as (_ & X & _). rewrite X.
      apply not_in_nmem. exact Hfresh.
  - intros id. rewrite committed_ids_app, Wc, app_nil_r. apply (inv_comm w HI).
  - eapply Forall_impl; [|exact Wall]. intros r (X & _ & Z). auto.
Qed.

Theorem step_inv : forall now w c, Inv w -> call_ok w c ->
  (match c with COpen _ => match w_tx w with TxActive _ => False | _ => True end | _ => True end) ->
  Inv (fst (step now w c)).
Proof.
  intros now w c HI Hc _. destruct c as [wr id|o| | | |o]; cbn [step].
  - (* Begin *)
    destruct (w_closed w); [exact HI|]. cbn [fst]. apply inv_set_tx; [exact HI|].
    cbn [tx_ok tx_id tx_pend]. split; [exact Hc|constructor].
  - (* Op *)
    destruct (w_tx w) as [|t|] eqn:Et; try exact HI.
    pose proof (do_op_world now w t o) as Hw.
    pose proof (do_op_tx_ok now w t o (recs w)) as Hok.
    destruct (do_op now w t o) as [[w' t'] r]. cbn [fst snd] in *. subst w'.
    apply inv_set_tx; [exact HI|]. apply Hok. pose proof (inv_tx w HI) as Htx. rewrite Et in Htx. exact Htx.
  - (* Commit *)
    destruct (w_tx w) as [|t|] eqn:Et; try exact HI.
    pose proof (commit_inv w t HI Et) as H. destruct (do_commit None w t) as [w' ok]. exact H.
  - (* Rollback *)
    destruct (w_tx w) as [|t|] eqn:Et; try exact HI. cbn [fst]. apply inv_set_tx; [exact HI|exact I].
  - (* Close *)
    destruct (w_closed w); [exact HI|]. cbn [fst].
    change (Inv (mkW (w_opts w) true (w_disk w) (w_maxfid w) (w_woff w) (w_asize w) (w_ix w) (w_committed w) TxNone)).
    destruct HI. constructor; unfold recs in *; cbn [w_disk w_maxfid w_woff w_asize w_ix w_committed w_tx]; auto.
  - (* Open *)
    cbn [fst]. apply (inv_do_open o (w_disk w) (w_maxfid w)).
    + apply (inv_nodup w HI).
    + apply (inv_max_in w HI).
    + apply (inv_max w HI).
    + apply (inv_marker w HI).
    + apply (inv_ok w HI).
Qed.

(** a write error at the k-th record of Commit (fault injection).

    The statement originally proposed here,

      commit_fault_inv : forall k w t, Inv w -> w_tx w = TxActive t ->
                         Inv (fst (do_commit (Some k) w t))

    is FALSE: after the fault the transaction is still [TxActive t] while the
    records written before the error carry its id, so the conjunct
    [~ In (tx_id t) (ids_of (recs w))] of [inv_tx]/[tx_ok] fails as soon as one
    record has been written (k >= 1, non-empty pending list).  A concrete
    counterexample is [commit_fault_inv_false] below.  Every OTHER field of the
    invariant is preserved ([commit_fault_inv_corrected]); in particular the
    invariant holds again once the transaction is rolled back
    ([commit_fault_rollback_inv]), which is what C12 needs. *)
Definition cx_opts : opts := mkOpts 0 FileIO FileIO false 1000.
Definition cx_w : world :=
  fst (step 0 (fst (step 0 (empty_world cx_opts) (CBegin true 5))) (COp (OPut [x61] [x62] [x63] 0 0))).
Definition cx_t : txstate := mkTx 5 true [mkEntry [x61] [x62] [x63] 0 0 F_Set 0 DS_KV 5].

Lemma commit_fault_inv_false :
  Inv cx_w /\ w_tx cx_w = TxActive cx_t /\ ~ Inv (fst (do_commit (Some 1%nat) cx_w cx_t)).
Proof.
  split; [|split].
  - unfold cx_w. apply step_inv; [|exact I|exact I]. apply step_inv; [apply inv_open_empty| |exact I].
    cbn. intros [].
  - vm_compute. reflexivity.
  - intros H. pose proof (inv_tx _ H) as X. vm_compute in X. destruct X as [X _]. apply X. left. reflexivity.
Qed.

(** corrected statement: all fields of the invariant except [inv_tx] survive a
    write fault, i.e. the invariant holds for any transaction state [x] that
    is consistent with the new log *)
Theorem commit_fault_inv_corrected : forall k w t x, Inv w -> w_tx w = TxActive t ->
  tx_ok (recs (fst (do_commit (Some k) w t))) x ->
  Inv (set_tx (fst (do_commit (Some k) w t)) x).
Proof. exact commit_fault_fields. Qed.

Corollary commit_fault_done_inv : forall k w t, Inv w -> w_tx w = TxActive t ->
  Inv (set_tx (fst (do_commit (Some k) w t)) TxDone).
Proof. intros. apply commit_fault_fields; [assumption|assumption|exact I]. Qed.

Lemma commit_fault_tx : forall k w t, w_tx w = TxActive t ->
  exists t', w_tx (fst (do_commit (Some k) w t)) = TxActive t' \/ w_tx (fst (do_commit (Some k) w t)) = TxDone.
Proof.
  intros k w t Ht. unfold do_commit. destruct (tx_pend t); [exists t; right; reflexivity|].
  destruct (existsb _ _); [exists t; left; exact Ht|].
  destruct (commit_loop _ _ _ _). exists t. left. reflexivity.
Qed.

(** ... so the invariant holds again after the Rollback that follows a failed Commit *)
Corollary commit_fault_rollback_inv : forall now k w t, Inv w -> w_tx w = TxActive t ->
  Inv (fst (step now (fst (do_commit (Some k) w t)) CRollback)).
Proof.
  intros now k w t HI Ht. pose proof (commit_fault_done_inv k w t HI Ht) as H.
  destruct (commit_fault_tx k w t Ht) as [t' [E|E]]; cbn [step]; rewrite E; cbn [fst]; [exact H|].
  destruct (fst (do_commit (Some k) w t)) as [a b c d e f g h i]. cbn in E. subst i. exact H.
Qed.

(** ---- consequences ---- *)
(** C08 / C19 / C22: reopening — with ANY option record — rebuilds exactly the
    indexes, the committed ids, the active file and the write offset *)
Theorem reopen_preserves : forall w o,
  Inv w ->
  let w' := do_open o (w_disk w) in
  w_ix w' = w_ix w /\
  (forall id, nmem id (w_committed w') = nmem id (w_committed w)) /\
  w_maxfid w' = w_maxfid w /\ w_woff w' = w_woff w /\ w_asize w' = w_asize w /\
  w_disk w' = w_disk w /\ Inv w'.
Proof.
  intros w o HI w'.
  assert (HI' : Inv w').
  { apply (inv_do_open o (w_disk w) (w_maxfid w)); [apply (inv_nodup w HI)|apply (inv_max_in w HI)|
      apply (inv_max w HI)|apply (inv_marker w HI)|apply (inv_ok w HI)]. }
  unfold w' in *. clear w'.
  rewrite (do_open_eq o (w_disk w) (w_maxfid w) (inv_nodup w HI) (inv_max_in w HI) (inv_max w HI)) in *.
  cbv zeta in *. cbn [w_ix w_committed w_maxfid w_woff w_asize w_disk].
  destruct (disk_get_in _ _ (inv_max_in w HI)) as [s Hs]. rewrite Hs in *.
  destruct (inv_off w HI s Hs) as [A B].
  split; [symmetry; apply (inv_ix w HI)|]. split; [intros id; symmetry; apply (inv_comm w HI)|].
  split; [reflexivity|]. split; [symmetry; exact A|]. split; [symmetry; exact B|]. split; [reflexivity|exact HI'].
Qed.

Lemma fault_reopen : forall k w t o,
  Inv w -> w_tx w = TxActive t ->
  let w1 := fst (do_commit (Some k) w t) in
  w_ix w1 = w_ix w /\
  w_ix (do_open o (w_disk w1)) = w_ix w /\
  (forall id, nmem id (w_committed (do_open o (w_disk w1))) = nmem id (w_committed w)).
Proof.
  intros k w t o HI Ht w1.
  destruct (commit_fault_index k w t) as (A & B & _). fold w1 in A, B.
  pose proof (commit_fault_done_inv k w t HI Ht) as H. fold w1 in H.
  destruct (reopen_preserves (set_tx w1 TxDone) o H) as (X & Y & _).
  cbn [set_tx w_disk w_ix w_committed] in X, Y.
  split; [exact A|]. split; [rewrite X; exact A|]. intros id. rewrite Y, B. reflexivity.
Qed.

Lemma do_commit_fault_eq : forall k w t,
  tx_pend t <> [] -> existsb (fun e => o_seg (w_opts w) <? entry_size e) (tx_pend t) = false ->
  w_disk (fst (do_commit (Some k) w t)) =
  c_disk (fst (commit_loop (o_seg (w_opts w)) false (mkC (w_disk w) (w_maxfid w) (w_woff w) (w_asize w))
                           (firstn k (tx_pend t)))).
Proof.
  intros k w t Hne Hex. unfold do_commit. destruct (tx_pend t) as [|e0 rest]; [congruence|].
  rewrite Hex. destruct (commit_loop _ _ _ _). reflexivity.
Qed.

(** C10: a crash after k complete records of a transaction of n > k records
    (the marker is on the last one): recovery rebuilds the pre-transaction
    indexes; after all n records: the post-commit indexes. *)
Theorem crash_prefix_invisible : forall w t k o,
  Inv w -> w_tx w = TxActive t ->
  existsb (fun e => o_seg (w_opts w) <? entry_size e) (tx_pend t) = false ->
  (k < length (tx_pend t))%nat ->
  let st0 := mkC (w_disk w) (w_maxfid w) (w_woff w) (w_asize w) in
  let d := c_disk (fst (commit_loop (o_seg (w_opts w)) false st0 (firstn k (tx_pend t)))) in
  w_ix (do_open o d) = w_ix w /\
  (forall id, nmem id (w_committed (do_open o d)) = nmem id (w_committed w)).
Proof.
  intros w t k o HI Ht Hex Hk st0 d.
  assert (Hne : tx_pend t <> []) by (intros E; rewrite E in Hk; cbn in Hk; lia).
  unfold d, st0. rewrite <- (do_commit_fault_eq k w t Hne Hex).
  destruct (fault_reopen k w t o HI Ht) as (_ & A & B). split; [exact A|exact B].
Qed.

Theorem crash_complete_visible : forall w t o,
  Inv w -> w_tx w = TxActive t -> tx_pend t <> [] ->
  existsb (fun e => o_seg (w_opts w) <? entry_size e) (tx_pend t) = false ->
  let w1 := fst (do_commit None w t) in
  snd (do_commit None w t) = true /\
  w_ix (do_open o (w_disk w1)) = w_ix w1 /\
  (forall id, nmem id (w_committed (do_open o (w_disk w1))) = nmem id (w_committed w1)).
Proof.
  intros w t o HI Ht Hne Hex w1. split.
  - unfold do_commit. destruct (tx_pend t) as [|e0 rest]; [congruence|]. rewrite Hex.
    destruct (commit_loop _ _ _ _). reflexivity.
  - pose proof (commit_inv w t HI Ht) as H. fold w1 in H.
    destruct (reopen_preserves w1 o H) as (X & Y & _). split; [exact X|exact Y].
Qed.

(** C12: after a failed Commit (write error at record k) followed by Rollback,
    and after reopen, the indexes are those before the transaction *)
Theorem failed_commit_noop : forall k w t o,
  Inv w -> w_tx w = TxActive t ->
  let w1 := fst (do_commit (Some k) w t) in
  w_ix w1 = w_ix w /\
  w_ix (do_open o (w_disk w1)) = w_ix w /\
  (forall id, nmem id (w_committed (do_open o (w_disk w1))) = nmem id (w_committed w)).
Proof. exact fault_reopen. Qed.

(** every world reachable from an empty directory by calls with unique
    transaction ids satisfies the invariant *)
Fixpoint run_calls (now : N) (w : world) (cs : list call) : world :=
  match cs with [] => w | c :: r => run_calls now (fst (step now w c)) r end.

Fixpoint calls_ok (now : N) (w : world) (cs : list call) : Prop :=
  match cs with
  | [] => True
  | c :: r => call_ok w c /\
              (match c with COpen _ => match w_tx w with TxActive _ => False | _ => True end | _ => True end) /\
              calls_ok now (fst (step now w c)) r
  end.

Lemma run_calls_inv : forall now cs w, Inv w -> calls_ok now w cs -> Inv (run_calls now w cs).
Proof.
  intros now cs. induction cs as [|c r IH]; intros w HI H; [exact HI|].
  cbn [calls_ok] in H. destruct H as (A & B & C). cbn [run_calls].
  apply IH; [|exact C]. apply step_inv; assumption.
Qed.

Theorem reachable_inv : forall now cs o, calls_ok now (empty_world o) cs -> Inv (run_calls now (empty_world o) cs).
Proof. intros now cs o H. apply run_calls_inv; [apply inv_open_empty|exact H]. Qed.
