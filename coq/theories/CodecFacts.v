(** CodecFacts.v — round trips and corruption detection for Codec.v (proof-only). *)
From Verif Require Import Bytes BytesFacts Crc32 CrcFacts Codec.
From Coq Require Import ZifyN ZifyNat ZifyBool.
Open Scope N_scope.

Lemma fld_here a r n : length a = n -> fld (a ++ r) 0 n = le_dec a.
Proof. intros H. unfold fld, slice. cbn [skipn]. rewrite slice_app_here by exact H. reflexivity. Qed.

Lemma fld_skip a r m k n : length a = m -> fld (a ++ r) (m + k) n = fld r k n.
Proof. intros H. unfold fld, slice. rewrite skipn_app_more by exact H. reflexivity. Qed.

Lemma fld_last a n : length a = n -> fld a 0 n = le_dec a.
Proof. intros H. rewrite <- (app_nil_r a) at 1. apply fld_here. exact H. Qed.

Lemma read_at_fileio_mid0 p x r o :
  o = blen p -> read_at FileIO (p ++ x ++ r) o (blen x) = RdOk x.
Proof.
  intros ->. unfold read_at.
  destruct (blen x =? 0) eqn:E.
  - apply N.eqb_eq in E. unfold blen in E. destruct x; [reflexivity|cbn in E; lia].
  - rewrite !blen_app.
    replace (blen p + blen x <=? blen p + (blen x + blen r)) with true by lia.
    unfold slice. rewrite !to_nat_blen, skipn_app_here, slice_app_here by reflexivity. reflexivity.
Qed.

Lemma read_at_mmap_fileio c off n :
  off + n <= blen c -> read_at MMap c off n = read_at FileIO c off n.
Proof.
  intros H1. unfold read_at.
  replace (blen c <? off) with false by lia.
  replace (off + n <=? blen c) with true by lia.
  destruct (n =? 0) eqn:E; [|reflexivity].
  apply N.eqb_eq in E. subst n. unfold slice. cbn [N.to_nat firstn]. reflexivity.
Qed.

(** a read that lies inside the file gives the bytes there, in both modes *)
Lemma read_at_fileio_mid m p x r o :
  o = blen p -> read_at m (p ++ x ++ r) o (blen x) = RdOk x.
Proof.
  intros ->. destruct m; [apply read_at_fileio_mid0; reflexivity|].
  rewrite read_at_mmap_fileio by (rewrite !blen_app; lia).
  apply read_at_fileio_mid0; reflexivity.
Qed.

(** what DataFile.ReadAt computes on any image framed as
    header(42) ++ bucket ++ key ++ value whose three size fields are right *)
Lemma decode_at_frame m pre h b k v rest :
  length h = 42%nat ->
  fld h 12 4 = blen k -> fld h 16 4 = blen v -> fld h 26 4 = blen b ->
  decode_at m (pre ++ h ++ b ++ k ++ v ++ rest) (blen pre) =
    if (fld h 0 4 =? 0) && (blen k =? 0) && (blen v =? 0) && (fld h 4 8 =? 0) then DecAbsent
    else if crc32 (skipn 4 h ++ b ++ k ++ v) =? fld h 0 4
         then DecOk (mkEntry b k v (fld h 4 8) (fld h 22 4) (fld h 20 2) (fld h 30 2) (fld h 32 2) (fld h 34 8))
                    (fld h 0 4)
         else DecErr ECrc.
Proof.
  intros Hh Hk Hv Hb. unfold decode_at.
  assert (Hs : hdr_size = blen h) by (unfold blen; rewrite Hh; reflexivity).
  rewrite Hs at 1.
  rewrite (read_at_fileio_mid m pre h (b ++ k ++ v ++ rest)) by reflexivity.
  rewrite Hk, Hv, Hb.
  destruct ((fld h 0 4 =? 0) && (blen k =? 0) && (blen v =? 0) && (fld h 4 8 =? 0)); [reflexivity|].
  replace (pre ++ h ++ b ++ k ++ v ++ rest) with ((pre ++ h) ++ b ++ (k ++ v ++ rest))
    by (rewrite <- !app_assoc; reflexivity).
  rewrite (read_at_fileio_mid m (pre ++ h) b (k ++ v ++ rest)) by (rewrite blen_app; lia).
  replace ((pre ++ h) ++ b ++ k ++ v ++ rest) with ((pre ++ h ++ b) ++ k ++ (v ++ rest))
    by (rewrite <- !app_assoc; reflexivity).
  rewrite (read_at_fileio_mid m (pre ++ h ++ b) k (v ++ rest)) by (rewrite !blen_app; lia).
  replace ((pre ++ h ++ b) ++ k ++ v ++ rest) with ((pre ++ h ++ b ++ k) ++ v ++ rest)
    by (rewrite <- !app_assoc; reflexivity).
  rewrite (read_at_fileio_mid m (pre ++ h ++ b ++ k) v rest) by (rewrite !blen_app; lia).
  unfold crc32 at 1. rewrite !crc_update_app. fold (crc32 (skipn 4 h ++ b ++ k ++ v)).
  reflexivity.
Qed.

Definition entry_hdr (e : entry) : bytes := le_enc 4 (crc32 (entry_body e)) ++ entry_hdr_tail e.

Lemma encode_entry_split e : encode_entry e = entry_hdr e ++ e_bucket e ++ e_key e ++ e_value e.
Proof. unfold encode_entry, entry_hdr, entry_body. rewrite <- !app_assoc. reflexivity. Qed.

Lemma length_entry_hdr e : length (entry_hdr e) = 42%nat.
Proof. unfold entry_hdr, entry_hdr_tail. rewrite !app_length, !length_le_enc. reflexivity. Qed.

Lemma skipn4_entry_hdr e : skipn 4 (entry_hdr e) = entry_hdr_tail e.
Proof. unfold entry_hdr. apply skipn_app_here. apply length_le_enc. Qed.

Section Fields.
  Variable e : entry.
  Let L := length_le_enc.

  Ltac fskip m k := rewrite (fld_skip _ _ m k) by apply length_le_enc.

  Lemma fld_crc : fld (entry_hdr e) 0 4 = crc32 (entry_body e).
  Proof.
    unfold entry_hdr. rewrite fld_here by apply L.
    apply le_dec_enc_small. apply crc32_lt.
  Qed.
  Lemma fld_ts : fld (entry_hdr e) 4 8 = e_ts e mod 2^64.
  Proof. unfold entry_hdr, entry_hdr_tail. fskip 4%nat 0%nat. rewrite fld_here by apply L. apply le_dec_enc. Qed.
  Lemma fld_ksz : fld (entry_hdr e) 12 4 = blen (e_key e) mod 2^32.
  Proof. unfold entry_hdr, entry_hdr_tail. fskip 4%nat 8%nat. fskip 8%nat 0%nat.
         rewrite fld_here by apply L. apply le_dec_enc. Qed.
  Lemma fld_vsz : fld (entry_hdr e) 16 4 = blen (e_value e) mod 2^32.
  Proof. unfold entry_hdr, entry_hdr_tail. fskip 4%nat 12%nat. fskip 8%nat 4%nat. fskip 4%nat 0%nat.
         rewrite fld_here by apply L. apply le_dec_enc. Qed.
  Lemma fld_flag : fld (entry_hdr e) 20 2 = e_flag e mod 2^16.
  Proof. unfold entry_hdr, entry_hdr_tail. fskip 4%nat 16%nat. fskip 8%nat 8%nat. fskip 4%nat 4%nat. fskip 4%nat 0%nat.
         rewrite fld_here by apply L. apply le_dec_enc. Qed.
  Lemma fld_ttl : fld (entry_hdr e) 22 4 = e_ttl e mod 2^32.
  Proof. unfold entry_hdr, entry_hdr_tail. fskip 4%nat 18%nat. fskip 8%nat 10%nat. fskip 4%nat 6%nat. fskip 4%nat 2%nat.
         fskip 2%nat 0%nat. rewrite fld_here by apply L. apply le_dec_enc. Qed.
  Lemma fld_bsz : fld (entry_hdr e) 26 4 = blen (e_bucket e) mod 2^32.
  Proof. unfold entry_hdr, entry_hdr_tail. fskip 4%nat 22%nat. fskip 8%nat 14%nat. fskip 4%nat 10%nat. fskip 4%nat 6%nat.
         fskip 2%nat 4%nat. fskip 4%nat 0%nat. rewrite fld_here by apply L. apply le_dec_enc. Qed.
  Lemma fld_status : fld (entry_hdr e) 30 2 = e_status e mod 2^16.
  Proof. unfold entry_hdr, entry_hdr_tail. fskip 4%nat 26%nat. fskip 8%nat 18%nat. fskip 4%nat 14%nat. fskip 4%nat 10%nat.
         fskip 2%nat 8%nat. fskip 4%nat 4%nat. fskip 4%nat 0%nat. rewrite fld_here by apply L. apply le_dec_enc. Qed.
  Lemma fld_ds : fld (entry_hdr e) 32 2 = e_ds e mod 2^16.
  Proof. unfold entry_hdr, entry_hdr_tail. fskip 4%nat 28%nat. fskip 8%nat 20%nat. fskip 4%nat 16%nat. fskip 4%nat 12%nat.
         fskip 2%nat 10%nat. fskip 4%nat 6%nat. fskip 4%nat 2%nat. fskip 2%nat 0%nat.
         rewrite fld_here by apply L. apply le_dec_enc. Qed.
  Lemma fld_txid : fld (entry_hdr e) 34 8 = e_txid e mod 2^64.
  Proof. unfold entry_hdr, entry_hdr_tail. fskip 4%nat 30%nat. fskip 8%nat 22%nat. fskip 4%nat 18%nat. fskip 4%nat 14%nat.
         fskip 2%nat 12%nat. fskip 4%nat 8%nat. fskip 4%nat 4%nat. fskip 2%nat 2%nat. fskip 2%nat 0%nat.
         rewrite fld_last by apply L. apply le_dec_enc. Qed.
End Fields.

(** ** Entry round trip *)
Lemma decode_encode_gen m pre e rest :
  wf_entry e ->
  decode_at m (pre ++ encode_entry e ++ rest) (blen pre) =
    if is_zero_entry e then DecAbsent else DecOk e (crc32 (entry_body e)).
Proof.
  intros (Hts & Httl & Hflag & Hst & Hds & Htx & Hk & Hv & Hb).
  rewrite encode_entry_split, <- !app_assoc.
  rewrite decode_at_frame.
  - rewrite fld_crc, fld_ts, skipn4_entry_hdr, fld_ttl, fld_flag, fld_status, fld_ds, fld_txid.
    rewrite !N.mod_small by assumption.
    fold (entry_body e). unfold is_zero_entry.
    destruct ((crc32 (entry_body e) =? 0) && (blen (e_key e) =? 0) && (blen (e_value e) =? 0) && (e_ts e =? 0));
      [reflexivity|].
    rewrite N.eqb_refl. destruct e; reflexivity.
  - apply length_entry_hdr.
  - rewrite fld_ksz. apply N.mod_small; assumption.
  - rewrite fld_vsz. apply N.mod_small; assumption.
  - rewrite fld_bsz. apply N.mod_small; assumption.
Qed.

Theorem entry_roundtrip m pre e rest :
  wf_entry e -> is_zero_entry e = false ->
  decode_at m (pre ++ encode_entry e ++ rest) (blen pre) = DecOk e (crc32 (entry_body e)).
Proof. intros W Z. rewrite decode_encode_gen by assumption. rewrite Z. reflexivity. Qed.

Theorem entry_zero_shortcut m pre e rest :
  wf_entry e -> is_zero_entry e = true ->
  decode_at m (pre ++ encode_entry e ++ rest) (blen pre) = DecAbsent.
Proof. intros W Z. rewrite decode_encode_gen by assumption. rewrite Z. reflexivity. Qed.

Lemma length_encode_entry e : blen (encode_entry e) = entry_size e.
Proof.
  rewrite encode_entry_split, !blen_app. unfold entry_size, hdr_size, blen at 1.
  rewrite length_entry_hdr. lia.
Qed.



Lemma le_dec_inj a b : length a = length b -> le_dec a = le_dec b -> a = b.
Proof. intros L E. rewrite <- (le_enc_dec a), <- (le_enc_dec b), L, E. reflexivity. Qed.

(** ** Corruption confined to one byte, outside the three size fields, is
    never served as data: the record reads as a CRC error, or as absent
    through the IsZero shortcut.  [T'], [b'], [k'], [v'] are the stored
    header tail and the three variable fields after the corruption; the
    corrupted body differs from the written one in exactly one byte. *)
Theorem entry_byte_corruption_detected m pre e rest T' b' k' v' p x x' q :
  let h' := le_enc 4 (crc32 (entry_body e)) ++ T' in
  length T' = 38%nat ->
  fld h' 12 4 = blen k' -> fld h' 16 4 = blen v' -> fld h' 26 4 = blen b' ->
  entry_body e = p ++ x :: q ->
  T' ++ b' ++ k' ++ v' = p ++ x' :: q ->
  x <> x' ->
  let r := decode_at m (pre ++ h' ++ b' ++ k' ++ v' ++ rest) (blen pre) in
  r = DecErr ECrc \/ r = DecAbsent.
Proof.
  intros h' HT Hk Hv Hb Hbody Hbody' Hx r. subst r.
  rewrite decode_at_frame; try assumption.
  2:{ subst h'. rewrite app_length, length_le_enc, HT. reflexivity. }
  destruct ((fld h' 0 4 =? 0) && (blen k' =? 0) && (blen v' =? 0) && (fld h' 4 8 =? 0)); [right; reflexivity|].
  left.
  assert (E1 : skipn 4 h' = T') by (subst h'; apply skipn_app_here, length_le_enc).
  assert (E2 : fld h' 0 4 = crc32 (entry_body e)).
  { subst h'. rewrite fld_here by apply length_le_enc. apply le_dec_enc_small, crc32_lt. }
  rewrite E1, E2, Hbody', Hbody.
  destruct (crc32 (p ++ x' :: q) =? crc32 (p ++ x :: q)) eqn:E; [|reflexivity].
  apply N.eqb_eq in E. symmetry in E. apply crc32_single_byte in E; [contradiction|exact Hx].
Qed.

(** corruption of the stored checksum itself *)
Theorem entry_crc_field_corruption_detected m pre e rest c4 :
  wf_entry e ->
  length c4 = 4%nat -> c4 <> le_enc 4 (crc32 (entry_body e)) ->
  let r := decode_at m (pre ++ c4 ++ entry_body e ++ rest) (blen pre) in
  r = DecErr ECrc \/ r = DecAbsent.
Proof.
  intros (Hts & Httl & Hflag & Hst & Hds & Htx & Hk & Hv & Hb) Hc Hne r. subst r.
  unfold entry_body. rewrite <- !app_assoc.
  replace (pre ++ c4 ++ entry_hdr_tail e ++ e_bucket e ++ e_key e ++ e_value e ++ rest)
    with (pre ++ (c4 ++ entry_hdr_tail e) ++ e_bucket e ++ e_key e ++ e_value e ++ rest)
    by (rewrite <- !app_assoc; reflexivity).
  assert (F : forall a n, fld (c4 ++ entry_hdr_tail e) (4 + a) n = fld (entry_hdr e) (4 + a) n).
  { intros a n. unfold entry_hdr. rewrite !(fld_skip _ _ 4%nat a); [reflexivity|apply length_le_enc|exact Hc]. }
  rewrite decode_at_frame; try assumption.
  - destruct (_ && _ && _ && _); [right; reflexivity|left].
    rewrite skipn_app_here by exact Hc. rewrite fld_here by exact Hc.
    fold (entry_body e).
    destruct (crc32 (entry_body e) =? le_dec c4) eqn:E; [|reflexivity].
    apply N.eqb_eq in E. exfalso. apply Hne.
    apply le_dec_inj; [rewrite length_le_enc; exact Hc|].
    rewrite le_dec_enc_small by apply crc32_lt. symmetry. exact E.
  - rewrite app_length, Hc. unfold entry_hdr_tail. rewrite !app_length, !length_le_enc. reflexivity.
  - rewrite (F 8%nat), fld_ksz. apply N.mod_small; assumption.
  - rewrite (F 12%nat), fld_vsz. apply N.mod_small; assumption.
  - rewrite (F 22%nat), fld_bsz. apply N.mod_small; assumption.
Qed.

(** ** Truncation under FileIO: a record cut short reads as io.EOF (or as
    absent through the IsZero shortcut when the header survived) *)
Theorem entry_truncation_fileio pre e n :
  wf_entry e -> (n < length (encode_entry e))%nat ->
  let r := decode_at FileIO (pre ++ firstn n (encode_entry e)) (blen pre) in
  r = DecErr EEOF \/ r = DecAbsent.
Proof.
  intros (Hts & Httl & Hflag & Hst & Hds & Htx & Hk & Hv & Hb) Hn r. subst r.
  pose proof (length_encode_entry e) as Hsz. unfold blen at 1 in Hsz. unfold entry_size, hdr_size in Hsz.
  assert (Hc : blen (pre ++ firstn n (encode_entry e)) = blen pre + N.of_nat n).
  { rewrite blen_app. unfold blen at 2. rewrite firstn_length. lia. }
  unfold decode_at.
  destruct (Nat.ltb n 42) eqn:E42.
  - apply Nat.ltb_lt in E42. left. unfold read_at, hdr_size. cbn [N.eqb].
    rewrite Hc. replace (blen pre + 42 <=? blen pre + N.of_nat n) with false by lia. reflexivity.
  - apply Nat.ltb_ge in E42.
    assert (Hsplit : firstn n (encode_entry e) =
                     entry_hdr e ++ firstn (n - 42) (e_bucket e ++ e_key e ++ e_value e)).
    { rewrite encode_entry_split, firstn_app, length_entry_hdr.
      rewrite firstn_all2 by (rewrite length_entry_hdr; lia). reflexivity. }
    assert (Hh : hdr_size = blen (entry_hdr e)) by (unfold blen; rewrite length_entry_hdr; reflexivity).
    rewrite Hsplit in *.
    assert (R : read_at FileIO (pre ++ entry_hdr e ++ firstn (n - 42) (e_bucket e ++ e_key e ++ e_value e))
                  (blen pre) hdr_size = RdOk (entry_hdr e)).
    { rewrite Hh. apply read_at_fileio_mid0. reflexivity. }
    rewrite R.
    rewrite fld_crc, fld_ts, fld_ksz, fld_vsz, fld_bsz.
    rewrite !N.mod_small by assumption.
    destruct (_ && _ && _ && _); [right; reflexivity|left].
    unfold read_at. rewrite Hc. unfold hdr_size.
    destruct (blen (e_bucket e) =? 0) eqn:B0;
    destruct (blen (e_key e) =? 0) eqn:K0;
    destruct (blen (e_value e) =? 0) eqn:V0;
    repeat match goal with
    | |- context [?a <=? ?b] => destruct (a <=? b) eqn:?
    end; try reflexivity; exfalso; lia.
Qed.

(** ** Root-index records *)
Definition rootidx_hdr (r : rootidx) : bytes :=
  le_enc 4 (crc32 (rootidx_body r)) ++ le_enc 8 (ri_fid r) ++ le_enc 8 (ri_rootoff r) ++
  le_enc 4 (blen (ri_start r)) ++ le_enc 4 (blen (ri_end r)).

Lemma encode_rootidx_split r : encode_rootidx r = rootidx_hdr r ++ ri_start r ++ ri_end r.
Proof. unfold encode_rootidx, rootidx_hdr, rootidx_body. rewrite <- !app_assoc. reflexivity. Qed.

Lemma decode_rootidx_frame pre h s e rest :
  length h = 28%nat -> fld h 20 4 = blen s -> fld h 24 4 = blen e ->
  decode_rootidx_at (pre ++ h ++ s ++ e ++ rest) (blen pre) =
    if (fld h 12 8 =? 0) && (fld h 4 8 =? 0) && (blen s =? 0) && (blen e =? 0) then RiAbsent
    else if crc32 (skipn 4 h ++ s ++ e) =? fld h 0 4
         then RiOk (mkRootIdx (fld h 4 8) (fld h 12 8) s e) else RiErr ECrc.
Proof.
  intros Hh Hs He. unfold decode_rootidx_at.
  assert (Hz : ri_hdr_size = blen h) by (unfold blen; rewrite Hh; reflexivity).
  assert (R : read_at FileIO (pre ++ h ++ s ++ e ++ rest) (blen pre) ri_hdr_size = RdOk h).
  { rewrite Hz. apply read_at_fileio_mid0. reflexivity. }
  rewrite R, Hs, He.
  destruct (_ && _ && _ && _); [reflexivity|].
  replace (pre ++ h ++ s ++ e ++ rest) with ((pre ++ h) ++ s ++ (e ++ rest))
    by (rewrite <- !app_assoc; reflexivity).
  rewrite (read_at_fileio_mid0 (pre ++ h) s) by (rewrite blen_app; lia).
  replace ((pre ++ h) ++ s ++ e ++ rest) with ((pre ++ h ++ s) ++ e ++ rest)
    by (rewrite <- !app_assoc; reflexivity).
  rewrite (read_at_fileio_mid0 (pre ++ h ++ s) e) by (rewrite !blen_app; lia).
  unfold crc32 at 1. rewrite !crc_update_app. reflexivity.
Qed.

Definition is_zero_rootidx (r : rootidx) : bool :=
  (ri_rootoff r =? 0) && (ri_fid r =? 0) && (blen (ri_start r) =? 0) && (blen (ri_end r) =? 0).

Theorem rootidx_roundtrip pre r rest :
  wf_rootidx r ->
  decode_rootidx_at (pre ++ encode_rootidx r ++ rest) (blen pre) =
    if is_zero_rootidx r then RiAbsent else RiOk r.
Proof.
  intros (Hf & Ho & Hs & He).
  rewrite encode_rootidx_split, <- !app_assoc.
  assert (L := length_le_enc).
  assert (F0 : fld (rootidx_hdr r) 0 4 = crc32 (rootidx_body r)).
  { unfold rootidx_hdr. rewrite fld_here by apply L. apply le_dec_enc_small, crc32_lt. }
  assert (F1 : fld (rootidx_hdr r) 4 8 = ri_fid r).
  { unfold rootidx_hdr. rewrite (fld_skip _ _ 4%nat 0%nat) by apply L. rewrite fld_here by apply L.
    apply le_dec_enc_small. exact Hf. }
  assert (F2 : fld (rootidx_hdr r) 12 8 = ri_rootoff r).
  { unfold rootidx_hdr. rewrite (fld_skip _ _ 4%nat 8%nat) by apply L. rewrite (fld_skip _ _ 8%nat 0%nat) by apply L.
    rewrite fld_here by apply L. apply le_dec_enc_small. exact Ho. }
  assert (F3 : fld (rootidx_hdr r) 20 4 = blen (ri_start r)).
  { unfold rootidx_hdr. rewrite (fld_skip _ _ 4%nat 16%nat) by apply L. rewrite (fld_skip _ _ 8%nat 8%nat) by apply L.
    rewrite (fld_skip _ _ 8%nat 0%nat) by apply L. rewrite fld_here by apply L. apply le_dec_enc_small. exact Hs. }
  assert (F4 : fld (rootidx_hdr r) 24 4 = blen (ri_end r)).
  { unfold rootidx_hdr. rewrite (fld_skip _ _ 4%nat 20%nat) by apply L. rewrite (fld_skip _ _ 8%nat 12%nat) by apply L.
    rewrite (fld_skip _ _ 8%nat 4%nat) by apply L. rewrite (fld_skip _ _ 4%nat 0%nat) by apply L.
    rewrite fld_last by apply L. apply le_dec_enc_small. exact He. }
  rewrite decode_rootidx_frame; try assumption.
  2:{ unfold rootidx_hdr. rewrite !app_length, !L. reflexivity. }
  rewrite F0, F1, F2. unfold is_zero_rootidx.
  destruct (_ && _ && _ && _); [reflexivity|].
  assert (E : skipn 4 (rootidx_hdr r) ++ ri_start r ++ ri_end r = rootidx_body r).
  { unfold rootidx_hdr. rewrite skipn_app_here by apply L. unfold rootidx_body. rewrite <- !app_assoc. reflexivity. }
  rewrite E, N.eqb_refl. destruct r; reflexivity.
Qed.

(** ** Bucket-meta records *)
Definition bucketmeta_hdr (b : bucketmeta) : bytes :=
  le_enc 4 (crc32 (bucketmeta_body b)) ++ le_enc 4 (blen (bm_start b)) ++ le_enc 4 (blen (bm_end b)).

Theorem bucketmeta_roundtrip b rest :
  wf_bucketmeta b -> decode_bucketmeta (encode_bucketmeta b ++ rest) = BmOk b.
Proof.
  intros (Hs & He). assert (L := length_le_enc).
  assert (Sp : encode_bucketmeta b ++ rest = [] ++ bucketmeta_hdr b ++ bm_start b ++ bm_end b ++ rest).
  { unfold encode_bucketmeta, bucketmeta_hdr, bucketmeta_body. rewrite <- !app_assoc. reflexivity. }
  rewrite Sp. unfold decode_bucketmeta.
  assert (Hz : bm_hdr_size = blen (bucketmeta_hdr b)).
  { unfold blen, bucketmeta_hdr. rewrite !app_length, !L. reflexivity. }
  rewrite Hz at 1. rewrite (read_at_fileio_mid0 [] (bucketmeta_hdr b)) by reflexivity.
  assert (F0 : fld (bucketmeta_hdr b) 0 4 = crc32 (bucketmeta_body b)).
  { unfold bucketmeta_hdr. rewrite fld_here by apply L. apply le_dec_enc_small, crc32_lt. }
  assert (F1 : fld (bucketmeta_hdr b) 4 4 = blen (bm_start b)).
  { unfold bucketmeta_hdr. rewrite (fld_skip _ _ 4%nat 0%nat) by apply L. rewrite fld_here by apply L.
    apply le_dec_enc_small. exact Hs. }
  assert (F2 : fld (bucketmeta_hdr b) 8 4 = blen (bm_end b)).
  { unfold bucketmeta_hdr. rewrite (fld_skip _ _ 4%nat 4%nat) by apply L. rewrite (fld_skip _ _ 4%nat 0%nat) by apply L.
    rewrite fld_last by apply L. apply le_dec_enc_small. exact He. }
  rewrite F0, F1, F2.
  replace ([] ++ bucketmeta_hdr b ++ bm_start b ++ bm_end b ++ rest)
    with (([] ++ bucketmeta_hdr b) ++ bm_start b ++ (bm_end b ++ rest)) by (rewrite <- !app_assoc; reflexivity).
  rewrite (read_at_fileio_mid0 ([] ++ bucketmeta_hdr b) (bm_start b)) by (cbn [app]; lia).
  replace (([] ++ bucketmeta_hdr b) ++ bm_start b ++ bm_end b ++ rest)
    with (([] ++ bucketmeta_hdr b ++ bm_start b) ++ bm_end b ++ rest) by (rewrite <- !app_assoc; reflexivity).
  rewrite (read_at_fileio_mid0 ([] ++ bucketmeta_hdr b ++ bm_start b) (bm_end b)) by (cbn [app]; rewrite !blen_app; lia).
  unfold crc32 at 1. rewrite !crc_update_app.
  assert (E : skipn 4 (bucketmeta_hdr b) ++ bm_start b ++ bm_end b = bucketmeta_body b).
  { unfold bucketmeta_hdr. rewrite skipn_app_here by apply L. unfold bucketmeta_body. rewrite <- !app_assoc. reflexivity. }
  fold (crc32 (skipn 4 (bucketmeta_hdr b) ++ bm_start b ++ bm_end b)).
  rewrite E, N.eqb_refl. destruct b; reflexivity.
Qed.
