(** ApplyFacts.v — the records a mutating list / set / sorted-set call appends to
    the transaction's pending list, applied to the structure index at Commit
    (apply_ds false) or replayed at Open (apply_ds true), have exactly the
    effect the L0 specification gives the call (spec_write) — for the call
    validated against the state the transaction started from (C13 without
    read-after-write, C05/C06/C07 through transactions).

    This is where the logged encodings "count|value", "key|index", "key|start",
    "member|score" are decoded again: DecFacts gives the round trips. *)
From Verif Require Import Bytes BytesFacts Codec Dec DecFacts ListDS ListFacts SetDS ZSetDS Index Engine Spec TxFacts.
From Verif Require Import SetFacts.
Open Scope N_scope.

(** the structure part of the engine's indexes coincides with the specification state *)
Definition dsrel (ix : indexes) (s : sstate) : Prop :=
  ix_list ix = ix_list (s_ds s) /\ ix_set ix = ix_set (s_ds s) /\ ix_zset ix = ix_zset (s_ds s).

(** list keys stored in the index never contain the separator (RPush/LPush reject them) *)
Definition list_keys_ok (ix : indexes) : Prop :=
  forall b l k v, alookup (ix_list ix) b = Some l -> alookup l k = Some v -> contains_sep k = false.

Definition is_ds_write (o : op) : bool :=
  match o with
  | ORPush _ _ _ | OLPush _ _ _ | ORPop _ _ | OLPop _ _ | OLRem _ _ _ _ | OLSet _ _ _ _ | OLTrim _ _ _ _
  | OSAdd _ _ _ | OSRem _ _ _ | OSPop _ _ _ | OSMove1 _ _ _ _ | OSMove2 _ _ _ _ _
  | OZAdd _ _ _ _ | OZRem _ _ | OZRemRangeByRank _ _ _ | OZPopMax _ | OZPopMin _ => true
  | _ => false
  end.


(** ---------- small helpers ---------- *)
Lemma getdef_aset_same : forall {V} (m : list (bytes * V)) b v d, getdef (aset m b v) b d = v.
Proof. intros V m b v d. unfold getdef. rewrite alookup_aset_same. reflexivity. Qed.

Lemma getdef_lookup : forall {V} (m : list (bytes * V)) b v d, alookup m b = Some v -> getdef m b d = v.
Proof. intros V m b v d H. unfold getdef. rewrite H. reflexivity. Qed.

Lemma join_sep_nonempty : forall a b, join_sep a b <> [].
Proof. intros a b. unfold join_sep. destruct a; discriminate. Qed.

(** apply_list / apply_set / apply_zset by flag *)
Lemma apply_list_lpush : forall l e, e_flag e = F_LPush -> apply_list l e = l_lpush l (e_key e) [e_value e].
Proof. intros l e H. unfold apply_list. rewrite H. reflexivity. Qed.
Lemma apply_list_rpush : forall l e, e_flag e = F_RPush -> apply_list l e = l_rpush l (e_key e) [e_value e].
Proof. intros l e H. unfold apply_list. rewrite H. reflexivity. Qed.
Lemma apply_list_lrem : forall l e, e_flag e = F_LRem ->
  apply_list l e = match split_first (e_value e) with
                   | Some (c, v) => fst (l_lrem l (e_key e) (parse_Z c) v)
                   | None => l end.
Proof. intros l e H. unfold apply_list. rewrite H. reflexivity. Qed.
Lemma apply_list_lpop : forall l e, e_flag e = F_LPop -> apply_list l e = fst (l_lpop l (e_key e)).
Proof. intros l e H. unfold apply_list. rewrite H. reflexivity. Qed.
Lemma apply_list_rpop : forall l e, e_flag e = F_RPop -> apply_list l e = fst (l_rpop l (e_key e)).
Proof. intros l e H. unfold apply_list. rewrite H. reflexivity. Qed.
Lemma apply_list_lset : forall l e, e_flag e = F_LSet ->
  apply_list l e = match split_all (e_key e) with
                   | k :: i :: _ => fst (l_lset l k (parse_Z i) (e_value e))
                   | _ => l end.
Proof. intros l e H. unfold apply_list. rewrite H. reflexivity. Qed.
Lemma apply_list_ltrim : forall l e, e_flag e = F_LTrim ->
  apply_list l e = match split_all (e_key e) with
                   | k :: s :: _ => fst (l_ltrim l k (parse_Z s) (parse_Z (e_value e)))
                   | _ => l end.
Proof. intros l e H. unfold apply_list. rewrite H. reflexivity. Qed.

Lemma apply_set_del : forall s e, e_flag e = F_Del -> apply_set s e = fst (s_srem s (e_key e) [e_value e]).
Proof. intros s e H. unfold apply_set. rewrite H. reflexivity. Qed.
Lemma apply_set_set : forall s e, e_flag e = F_Set -> apply_set s e = s_sadd s (e_key e) [e_value e].
Proof. intros s e H. unfold apply_set. rewrite H. reflexivity. Qed.

Lemma apply_zset_zadd : forall strict z e, e_flag e = F_ZAdd ->
  apply_zset strict z e =
    match split_all (e_key e) with
    | k :: sc :: rest =>
        if strict && negb (match rest with [] => true | _ => false end) then z
        else z_put z k (parse_Z sc) (e_value e)
    | _ => z
    end.
Proof. intros strict z e H. unfold apply_zset. rewrite H. reflexivity. Qed.
Lemma apply_zset_zrem : forall strict z e, e_flag e = F_ZRem -> apply_zset strict z e = z_remove z (e_key e).
Proof. intros strict z e H. unfold apply_zset. rewrite H. reflexivity. Qed.
Lemma apply_zset_zremrange : forall strict z e, e_flag e = F_ZRemRange ->
  apply_zset strict z e = snd (z_rankrange z (parse_Z (e_key e)) (parse_Z (e_value e))).
Proof. intros strict z e H. unfold apply_zset. rewrite H. reflexivity. Qed.
Lemma apply_zset_zpopmax : forall strict z e, e_flag e = F_ZPopMax -> apply_zset strict z e = z_popmax z.
Proof. intros strict z e H. unfold apply_zset. rewrite H. reflexivity. Qed.
Lemma apply_zset_zpopmin : forall strict z e, e_flag e = F_ZPopMin -> apply_zset strict z e = z_popmin z.
Proof. intros strict z e H. unfold apply_zset. rewrite H. reflexivity. Qed.

(** single-record lemmas: applying the logged record = the structure call *)
Lemma apply_lrem_record : forall l t b k count v now,
  apply_list l (mk_entry t b k (join_sep (print_Z count) v) 0 F_LRem now DS_List) = fst (l_lrem l k count v).
Proof.
  intros l t b k count v now. rewrite apply_list_lrem by reflexivity.
  unfold mk_entry. cbn [e_value e_key].
  rewrite split_first_join by apply print_Z_no_sep.
  rewrite parse_print_Z. reflexivity.
Qed.

Lemma apply_lset_record : forall l t b k i v now, contains_sep k = false ->
  apply_list l (mk_entry t b (join_sep k (print_Z i)) v 0 F_LSet now DS_List) = fst (l_lset l k i v).
Proof.
  intros l t b k i v now Hk. rewrite apply_list_lset by reflexivity.
  unfold mk_entry. cbn [e_value e_key].
  rewrite split_all_join by (try exact Hk; apply print_Z_no_sep).
  rewrite parse_print_Z. reflexivity.
Qed.

Lemma apply_ltrim_record : forall l t b k s e now, contains_sep k = false ->
  apply_list l (mk_entry t b (join_sep k (print_Z s)) (print_Z e) 0 F_LTrim now DS_List) = fst (l_ltrim l k s e).
Proof.
  intros l t b k s e now Hk. rewrite apply_list_ltrim by reflexivity.
  unfold mk_entry. cbn [e_value e_key].
  rewrite split_all_join by (try exact Hk; apply print_Z_no_sep).
  rewrite !parse_print_Z. reflexivity.
Qed.

Lemma apply_zadd_record : forall strict z t b k sc v now, contains_sep k = false ->
  apply_zset strict z (mk_entry t b (join_sep k (print_Z sc)) v 0 F_ZAdd now DS_ZSet) = z_put z k sc v.
Proof.
  intros strict z t b k sc v now Hk. rewrite apply_zset_zadd by reflexivity.
  unfold mk_entry. cbn [e_value e_key].
  rewrite split_all_join by (try exact Hk; apply print_Z_no_sep).
  rewrite parse_print_Z. cbn [negb]. rewrite andb_false_r. reflexivity.
Qed.

Lemma apply_zremrange_record : forall strict z t b s e now,
  apply_zset strict z (mk_entry t b (print_Z s) (print_Z e) 0 F_ZRemRange now DS_ZSet) = snd (z_rankrange z s e).
Proof.
  intros strict z t b s e now. rewrite apply_zset_zremrange by reflexivity.
  unfold mk_entry. cbn [e_value e_key].
  rewrite !parse_print_Z. reflexivity.
Qed.

(** ---------- apply_ds by structure ---------- *)
Lemma apply_ds_list : forall strict ix e, e_ds e = DS_List ->
  apply_ds strict ix e =
  mkIx (ix_kv ix) (aset (ix_list ix) (e_bucket e) (apply_list (getdef (ix_list ix) (e_bucket e) []) e))
       (ix_set ix) (ix_zset ix).
Proof. intros strict ix e H. unfold apply_ds. rewrite H. reflexivity. Qed.

Lemma apply_ds_set : forall strict ix e, e_ds e = DS_Set ->
  apply_ds strict ix e =
  mkIx (ix_kv ix) (ix_list ix)
       (aset (ix_set ix) (e_bucket e) (apply_set (getdef (ix_set ix) (e_bucket e) []) e)) (ix_zset ix).
Proof. intros strict ix e H. unfold apply_ds. rewrite H. reflexivity. Qed.

Lemma apply_ds_zset : forall strict ix e, e_ds e = DS_ZSet ->
  apply_ds strict ix e =
  mkIx (ix_kv ix) (ix_list ix) (ix_set ix)
       (aset (ix_zset ix) (e_bucket e) (apply_zset strict (getdef (ix_zset ix) (e_bucket e) []) e)).
Proof. intros strict ix e H. unfold apply_ds. rewrite H. reflexivity. Qed.

(** one record applied to indexes related to [s] gives indexes related to the
    specification's update of the same bucket *)
Lemma dsrel_apply_list : forall strict ix s e b f,
  dsrel ix s -> e_ds e = DS_List -> e_bucket e = b ->
  apply_list (getdef (ix_list (s_ds s)) b []) e = f (getdef (ix_list (s_ds s)) b []) ->
  dsrel (apply_ds strict ix e) (upd_list s b f).
Proof.
  intros strict ix s e b f (HL & HS & HZ) Hds Hb Hf.
  rewrite apply_ds_list by exact Hds. rewrite Hb.
  unfold dsrel, upd_list, set_ds_list. cbn [ix_list ix_set ix_zset s_ds].
  rewrite HL, Hf. auto.
Qed.

Lemma dsrel_apply_set : forall strict ix s e b f,
  dsrel ix s -> e_ds e = DS_Set -> e_bucket e = b ->
  apply_set (getdef (ix_set (s_ds s)) b []) e = f (getdef (ix_set (s_ds s)) b []) ->
  dsrel (apply_ds strict ix e) (upd_set s b f).
Proof.
  intros strict ix s e b f (HL & HS & HZ) Hds Hb Hf.
  rewrite apply_ds_set by exact Hds. rewrite Hb.
  unfold dsrel, upd_set, set_ds_set. cbn [ix_list ix_set ix_zset s_ds].
  rewrite HS, Hf. auto.
Qed.

Lemma dsrel_apply_zset : forall strict ix s e b f,
  dsrel ix s -> e_ds e = DS_ZSet -> e_bucket e = b ->
  apply_zset strict (getdef (ix_zset (s_ds s)) b []) e = f (getdef (ix_zset (s_ds s)) b []) ->
  dsrel (apply_ds strict ix e) (upd_zset s b f).
Proof.
  intros strict ix s e b f (HL & HS & HZ) Hds Hb Hf.
  rewrite apply_ds_zset by exact Hds. rewrite Hb.
  unfold dsrel, upd_zset, set_ds_zset. cbn [ix_list ix_set ix_zset s_ds].
  rewrite HZ, Hf. auto.
Qed.

(** the specification's update with the identity function changes nothing
    observable by dsrel only when the bucket exists; we never need that.  What
    we do need: several records for one bucket, applied one by one. *)
Lemma dsrel_fold_list : forall strict b (g : bytes -> entry) (h : lmap -> bytes -> lmap) vs ix s,
  (forall v, e_ds (g v) = DS_List) -> (forall v, e_bucket (g v) = b) ->
  (forall l v, apply_list l (g v) = h l v) ->
  vs <> [] -> dsrel ix s ->
  dsrel (fold_left (apply_ds strict) (map g vs) ix) (upd_list s b (fun l => fold_left h vs l)).
Proof.
  intros strict b g h vs. induction vs as [|v vs IH]; intros ix s Hds Hb Hg Hne Hrel; [congruence|].
  cbn [map fold_left].
  assert (H1 : dsrel (apply_ds strict ix (g v)) (upd_list s b (fun l => h l v))).
  { apply dsrel_apply_list; auto. }
  destruct vs as [|v' vs'].
  - cbn [map fold_left]. exact H1.
  - specialize (IH (apply_ds strict ix (g v)) (upd_list s b (fun l => h l v)) Hds Hb Hg).
    assert (Hne' : v' :: vs' <> []) by discriminate.
    specialize (IH Hne' H1).
    destruct IH as (IL & IS & IZ). 
    unfold dsrel. rewrite IL, IS, IZ.
    unfold upd_list, set_ds_list. cbn [ix_list ix_set ix_zset s_ds].
    rewrite getdef_aset_same, aset_aset. auto.
Qed.

Lemma dsrel_fold_set : forall strict b (g : bytes -> entry) (h : smap -> bytes -> smap) vs ix s,
  (forall v, e_ds (g v) = DS_Set) -> (forall v, e_bucket (g v) = b) ->
  (forall l v, apply_set l (g v) = h l v) ->
  vs <> [] -> dsrel ix s ->
  dsrel (fold_left (apply_ds strict) (map g vs) ix) (upd_set s b (fun l => fold_left h vs l)).
Proof.
  intros strict b g h vs. induction vs as [|v vs IH]; intros ix s Hds Hb Hg Hne Hrel; [congruence|].
  cbn [map fold_left].
  assert (H1 : dsrel (apply_ds strict ix (g v)) (upd_set s b (fun l => h l v))).
  { apply dsrel_apply_set; auto. }
  destruct vs as [|v' vs'].
  - cbn [map fold_left]. exact H1.
  - specialize (IH (apply_ds strict ix (g v)) (upd_set s b (fun l => h l v)) Hds Hb Hg).
    assert (Hne' : v' :: vs' <> []) by discriminate.
    specialize (IH Hne' H1).
    destruct IH as (IL & IS & IZ).
    unfold dsrel. rewrite IL, IS, IZ.
    unfold upd_set, set_ds_set. cbn [ix_list ix_set ix_zset s_ds].
    rewrite getdef_aset_same, aset_aset. auto.
Qed.

(** ---------- Tx.put ---------- *)
Lemma tx_put_ok : forall t b k v ttl flag ts ds, tx_w t = true -> k <> [] ->
  tx_put t b k v ttl flag ts ds =
  (mkTx (tx_id t) (tx_w t) (tx_pend t ++ [mk_entry t b k v ttl flag ts ds]), ROk).
Proof.
  intros t b k v ttl flag ts ds Hw Hk. unfold tx_put. rewrite Hw. cbn [negb].
  destruct k; [congruence|reflexivity].
Qed.

Lemma tx_put_nil : forall t b v ttl flag ts ds, tx_w t = true ->
  tx_put t b [] v ttl flag ts ds = (t, RErr).
Proof. intros t b v ttl flag ts ds Hw. unfold tx_put. rewrite Hw. reflexivity. Qed.

Lemma tx_put_all_ok : forall b k flag ts ds vs t, tx_w t = true -> k <> [] ->
  tx_pend (fst (tx_put_all t b k vs flag ts ds)) =
    tx_pend t ++ map (fun v => mk_entry t b k v 0 flag ts ds) vs /\
  snd (tx_put_all t b k vs flag ts ds) = ROk.
Proof.
  intros b k flag ts ds vs. induction vs as [|v vs IH]; intros t Hw Hk.
  - cbn [tx_put_all map fst snd]. rewrite app_nil_r. auto.
  - cbn [tx_put_all]. rewrite tx_put_ok by assumption.
    set (t1 := mkTx (tx_id t) (tx_w t) (tx_pend t ++ [mk_entry t b k v 0 flag ts ds])).
    assert (Hw1 : tx_w t1 = true) by exact Hw.
    destruct (IH t1 Hw1 Hk) as [I1 I2]. split; [|exact I2].
    rewrite I1. unfold t1. cbn [tx_pend map]. rewrite <- app_assoc. reflexivity.
Qed.

Lemma tx_put_all_nil_key : forall b flag ts ds v vs t, tx_w t = true ->
  tx_put_all t b [] (v :: vs) flag ts ds = (t, RErr).
Proof. intros. cbn [tx_put_all]. rewrite tx_put_nil by assumption. reflexivity. Qed.

(** ---------- the per-call statement ---------- *)
Definition is_fail (r : res) : bool :=
  match r with RErr | RInadmissible | RPanic => true | _ => false end.

(** the shape of ds_write_refines, with its (deliberately trivial) last
    conjunct replaced by what the comment above it says: a failed call appends
    nothing and leaves the specification state alone *)
Definition refines (now : N) (w : world) (t : txstate) (o : op) (s : sstate) : Prop :=
  snd (do_op now w t o) = snd (spec_write s o) /\
  exists es, tx_pend (snd (fst (do_op now w t o))) = tx_pend t ++ es /\
             (forall strict, dsrel (fold_left (apply_ds strict) es (w_ix w)) (fst (spec_write s o))) /\
             (is_fail (snd (do_op now w t o)) = true -> es = [] /\ fst (spec_write s o) = s).

Lemma refines_none : forall now w t o s r,
  do_op now w t o = (w, t, r) -> spec_write s o = (s, r) -> dsrel (w_ix w) s -> refines now w t o s.
Proof.
  intros now w t o s r Hd Hs Hrel. unfold refines. rewrite Hd, Hs. cbn [fst snd].
  split; [reflexivity|]. exists []. rewrite app_nil_r. cbn [fold_left]. auto.
Qed.

Lemma refines_some : forall now w t o s s' r t' es,
  do_op now w t o = (w, t', r) -> tx_pend t' = tx_pend t ++ es ->
  spec_write s o = (s', r) -> is_fail r = false ->
  (forall strict, dsrel (fold_left (apply_ds strict) es (w_ix w)) s') -> refines now w t o s.
Proof.
  intros now w t o s s' r t' es Hd Hp Hs Hr Hrel. unfold refines. rewrite Hd, Hs. cbn [fst snd].
  split; [reflexivity|]. exists es. split; [exact Hp|]. split; [exact Hrel|].
  rewrite Hr. discriminate.
Qed.

Ltac do_op_unfold := unfold do_op; cbv beta iota zeta delta [ds_read].
Ltac spec_unfold := cbv beta iota zeta delta [spec_write].

Lemma upd_list_ext : forall s b f g,
  f (getdef (ix_list (s_ds s)) b []) = g (getdef (ix_list (s_ds s)) b []) -> upd_list s b f = upd_list s b g.
Proof. intros s b f g H. unfold upd_list. rewrite H. reflexivity. Qed.
Lemma upd_set_ext : forall s b f g,
  f (getdef (ix_set (s_ds s)) b []) = g (getdef (ix_set (s_ds s)) b []) -> upd_set s b f = upd_set s b g.
Proof. intros s b f g H. unfold upd_set. rewrite H. reflexivity. Qed.
Lemma upd_zset_ext : forall s b f g,
  f (getdef (ix_zset (s_ds s)) b []) = g (getdef (ix_zset (s_ds s)) b []) -> upd_zset s b f = upd_zset s b g.
Proof. intros s b f g H. unfold upd_zset. rewrite H. reflexivity. Qed.

(** ---------- lists ---------- *)

(** RPush: no side condition (empty key, empty value list, key with a
    separator are all handled identically by model and specification) *)
Lemma ORPush_refines : forall now w t b k vs s,
  dsrel (w_ix w) s -> tx_w t = true -> refines now w t (ORPush b k vs) s.
Proof.
  intros now w t b k vs s Hrel Hw.
  destruct (contains_sep k) eqn:Hsep.
  { apply refines_none with RErr; [do_op_unfold; rewrite Hsep; reflexivity
                                  |spec_unfold; rewrite Hsep; reflexivity|exact Hrel]. }
  destruct vs as [|v vs].
  { apply refines_none with ROk; [do_op_unfold; rewrite Hsep; reflexivity
                                 |spec_unfold; rewrite Hsep; reflexivity|exact Hrel]. }
  destruct k as [|k0 k].
  { apply refines_none with RErr; [do_op_unfold; rewrite Hsep, tx_put_all_nil_key by exact Hw; reflexivity
                                  |spec_unfold; rewrite Hsep; reflexivity|exact Hrel]. }
  assert (Hk : k0 :: k <> []) by discriminate.
  destruct (tx_put_all_ok b (k0 :: k) F_RPush now DS_List (v :: vs) t Hw Hk) as [P1 P2].
  eapply refines_some with (r := ROk).
  - do_op_unfold. rewrite Hsep, P2. reflexivity.
  - exact P1.
  - spec_unfold. rewrite Hsep. cbn [isnil nonempty]. reflexivity.
  - reflexivity.
  - intros strict.
    rewrite (upd_list_ext s b _ (fun l => fold_left (fun m x => l_rpush m (k0 :: k) [x]) (v :: vs) l)).
    + apply dsrel_fold_list; [reflexivity|reflexivity| |discriminate|exact Hrel].
      intros l x. rewrite apply_list_rpush by reflexivity. reflexivity.
    + rewrite rpush_one_by_one by discriminate. reflexivity.
Qed.

Lemma OLPush_refines : forall now w t b k vs s,
  dsrel (w_ix w) s -> tx_w t = true -> refines now w t (OLPush b k vs) s.
Proof.
  intros now w t b k vs s Hrel Hw.
  destruct (contains_sep k) eqn:Hsep.
  { apply refines_none with RErr; [do_op_unfold; rewrite Hsep; reflexivity
                                  |spec_unfold; rewrite Hsep; reflexivity|exact Hrel]. }
  destruct vs as [|v vs].
  { apply refines_none with ROk; [do_op_unfold; rewrite Hsep; reflexivity
                                 |spec_unfold; rewrite Hsep; reflexivity|exact Hrel]. }
  destruct k as [|k0 k].
  { apply refines_none with RErr; [do_op_unfold; rewrite Hsep, tx_put_all_nil_key by exact Hw; reflexivity
                                  |spec_unfold; rewrite Hsep; reflexivity|exact Hrel]. }
  assert (Hk : k0 :: k <> []) by discriminate.
  destruct (tx_put_all_ok b (k0 :: k) F_LPush now DS_List (v :: vs) t Hw Hk) as [P1 P2].
  eapply refines_some with (r := ROk).
  - do_op_unfold. rewrite Hsep, P2. reflexivity.
  - exact P1.
  - spec_unfold. rewrite Hsep. cbn [isnil nonempty]. reflexivity.
  - reflexivity.
  - intros strict.
    rewrite (upd_list_ext s b _ (fun l => fold_left (fun m x => l_lpush m (k0 :: k) [x]) (v :: vs) l)).
    + apply dsrel_fold_list; [reflexivity|reflexivity| |discriminate|exact Hrel].
      intros l x. rewrite apply_list_lpush by reflexivity. reflexivity.
    + rewrite lpush_one_by_one by discriminate. reflexivity.
Qed.

Lemma rpop_rpeek : forall l k,
  match l_rpop l k with (_, LOk v) => l_rpeek l k = LOk v | (_, LErr) => l_rpeek l k = LErr end.
Proof.
  intros l k. unfold l_rpop, l_rpeek. destruct (alookup l k) as [items|]; [|reflexivity].
  destruct (rev items); reflexivity.
Qed.

Lemma lpop_lpeek : forall l k,
  match l_lpop l k with (_, LOk v) => l_lpeek l k = LOk v | (_, LErr) => l_lpeek l k = LErr end.
Proof.
  intros l k. unfold l_lpop, l_lpeek. destruct (alookup l k) as [items|]; [|reflexivity].
  destruct items; reflexivity.
Qed.

(** RPop / LPop: no side condition *)
Lemma ORPop_refines : forall now w t b k s,
  dsrel (w_ix w) s -> tx_w t = true -> refines now w t (ORPop b k) s.
Proof.
  intros now w t b k s Hrel Hw. pose proof Hrel as (HL & HS & HZ).
  destruct (alookup (ix_list (s_ds s)) b) as [l|] eqn:Hb.
  2:{ apply refines_none with RErr; [do_op_unfold; rewrite HL, Hb; reflexivity
                                    |spec_unfold; rewrite Hb; reflexivity|exact Hrel]. }
  pose proof (rpop_rpeek l k) as Hpp.
  destruct (l_rpop l k) as [l' [v|]] eqn:Hpop.
  2:{ apply refines_none with RErr; [do_op_unfold; rewrite HL, Hb, Hpp; reflexivity
                                    |spec_unfold; rewrite Hb, Hpop; reflexivity|exact Hrel]. }
  destruct k as [|k0 k].
  { apply refines_none with RErr; [do_op_unfold; rewrite HL, Hb, Hpp, tx_put_nil by exact Hw; reflexivity
                                  |spec_unfold; rewrite Hb, Hpop; reflexivity|exact Hrel]. }
  eapply refines_some with (r := RVal v) (es := [mk_entry t b (k0 :: k) v 0 F_RPop now DS_List]).
  - do_op_unfold. rewrite HL, Hb, Hpp, tx_put_ok by (exact Hw || discriminate). reflexivity.
  - reflexivity.
  - spec_unfold. rewrite Hb, Hpop. reflexivity.
  - reflexivity.
  - intros strict. cbn [fold_left]. apply dsrel_apply_list; [exact Hrel|reflexivity|reflexivity|].
    rewrite apply_list_rpop by reflexivity. unfold mk_entry. cbn [e_key].
    rewrite (getdef_lookup _ _ _ _ Hb), Hpop. reflexivity.
Qed.

Lemma OLPop_refines : forall now w t b k s,
  dsrel (w_ix w) s -> tx_w t = true -> refines now w t (OLPop b k) s.
Proof.
  intros now w t b k s Hrel Hw. pose proof Hrel as (HL & HS & HZ).
  destruct (alookup (ix_list (s_ds s)) b) as [l|] eqn:Hb.
  2:{ apply refines_none with RErr; [do_op_unfold; rewrite HL, Hb; reflexivity
                                    |spec_unfold; rewrite Hb; reflexivity|exact Hrel]. }
  pose proof (lpop_lpeek l k) as Hpp.
  destruct (l_lpop l k) as [l' [v|]] eqn:Hpop.
  2:{ apply refines_none with RErr; [do_op_unfold; rewrite HL, Hb, Hpp; reflexivity
                                    |spec_unfold; rewrite Hb, Hpop; reflexivity|exact Hrel]. }
  destruct k as [|k0 k].
  { apply refines_none with RErr; [do_op_unfold; rewrite HL, Hb, Hpp, tx_put_nil by exact Hw; reflexivity
                                  |spec_unfold; rewrite Hb, Hpop; reflexivity|exact Hrel]. }
  eapply refines_some with (r := RVal v) (es := [mk_entry t b (k0 :: k) v 0 F_LPop now DS_List]).
  - do_op_unfold. rewrite HL, Hb, Hpp, tx_put_ok by (exact Hw || discriminate). reflexivity.
  - reflexivity.
  - spec_unfold. rewrite Hb, Hpop. reflexivity.
  - reflexivity.
  - intros strict. cbn [fold_left]. apply dsrel_apply_list; [exact Hrel|reflexivity|reflexivity|].
    rewrite apply_list_lpop by reflexivity. unfold mk_entry. cbn [e_key].
    rewrite (getdef_lookup _ _ _ _ Hb), Hpop. reflexivity.
Qed.

(** LRem: the count reported by the validation pass (LRemNum) is the count
    the removal itself reports *)
Lemma lrem_list_num : forall items count v, (count <? - zlen items)%Z = false ->
  snd (lrem_list items count v) = lremnum_list items count v.
Proof.
  intros items count v H. unfold lrem_list. rewrite H.
  destruct (lremnum_list items count v) as [need|] eqn:E; [|reflexivity].
  destruct (need =? 0)%Z eqn:Hn.
  - apply Z.eqb_eq in Hn. subst need. reflexivity.
  - destruct (0 <? (if (count =? 0)%Z then need else count))%Z; reflexivity.
Qed.

Lemma lrem_num_agree : forall l k count v size,
  l_size l k = LOk size -> ((size <? count) || (count <? - size))%Z = false ->
  exists n, l_lremnum l k count v = LOk n /\ snd (l_lrem l k count v) = LOk n.
Proof.
  intros l k count v size Hs Hr. unfold l_size in Hs.
  destruct (alookup l k) as [items|] eqn:Hk; [|discriminate].
  injection Hs as Hs. subst size. apply orb_false_iff in Hr as [H1 H2].
  unfold l_lremnum, l_lrem. rewrite Hk.
  pose proof (lrem_list_num items count v H2) as Hn.
  destruct (lrem_list items count v) as [l' r]. cbn [snd] in *. subst r.
  unfold lremnum_list. rewrite H1. eexists. split; reflexivity.
Qed.

(** LRem: no side condition *)
Lemma OLRem_refines : forall now w t b k count v s,
  dsrel (w_ix w) s -> tx_w t = true -> refines now w t (OLRem b k count v) s.
Proof.
  intros now w t b k count v s Hrel Hw. pose proof Hrel as (HL & HS & HZ).
  destruct (alookup (ix_list (s_ds s)) b) as [l|] eqn:Hb.
  2:{ apply refines_none with RErr; [do_op_unfold; rewrite HL, Hb; reflexivity
                                    |spec_unfold; rewrite Hb; reflexivity|exact Hrel]. }
  destruct (l_size l k) as [size|] eqn:Hsz.
  2:{ apply refines_none with RErr; [do_op_unfold; rewrite HL, Hb, Hsz; reflexivity
                                    |spec_unfold; rewrite Hb, Hsz; reflexivity|exact Hrel]. }
  destruct ((size <? count) || (count <? - size))%Z eqn:Hr.
  { apply refines_none with RErr; [do_op_unfold; rewrite HL, Hb, Hsz, Hr; reflexivity
                                  |spec_unfold; rewrite Hb, Hsz, Hr; reflexivity|exact Hrel]. }
  destruct k as [|k0 k].
  { apply refines_none with RErr; [do_op_unfold; rewrite HL, Hb, Hsz, Hr, tx_put_nil by exact Hw; reflexivity
                                  |spec_unfold; rewrite Hb, Hsz, Hr; reflexivity|exact Hrel]. }
  destruct (lrem_num_agree l (k0 :: k) count v size Hsz Hr) as [n [Hn1 Hn2]].
  destruct (l_lrem l (k0 :: k) count v) as [l' r] eqn:Hrem. cbn [snd] in Hn2. subst r.
  eapply refines_some with (r := RInt n)
    (es := [mk_entry t b (k0 :: k) (join_sep (print_Z count) v) 0 F_LRem now DS_List]).
  - do_op_unfold. rewrite HL, Hb, Hsz, Hr, tx_put_ok by (exact Hw || discriminate). rewrite Hn1. reflexivity.
  - reflexivity.
  - spec_unfold. rewrite Hb, Hsz, Hr. cbn [nonempty]. rewrite Hrem. reflexivity.
  - reflexivity.
  - intros strict. cbn [fold_left]. apply dsrel_apply_list; [exact Hrel|reflexivity|reflexivity|].
    rewrite apply_lrem_record. rewrite (getdef_lookup _ _ _ _ Hb), Hrem. reflexivity.
Qed.

(** LSet / LTrim: the call logs "key|index"; replaying it splits at the FIRST
    separator, so the key itself must be separator-free.  Weakest side
    condition: if the key exists in the bucket then it contains no '|'
    (implied by list_keys_ok; when the key does not exist both sides fail). *)
Lemma OLSet_refines : forall now w t b k i v s,
  dsrel (w_ix w) s -> tx_w t = true ->
  (forall l items, alookup (ix_list (w_ix w)) b = Some l -> alookup l k = Some items -> contains_sep k = false) ->
  refines now w t (OLSet b k i v) s.
Proof.
  intros now w t b k i v s Hrel Hw Hsep. pose proof Hrel as (HL & HS & HZ).
  destruct (alookup (ix_list (s_ds s)) b) as [l|] eqn:Hb.
  2:{ apply refines_none with RErr; [do_op_unfold; rewrite HL, Hb; reflexivity
                                    |spec_unfold; rewrite Hb; reflexivity|exact Hrel]. }
  destruct (alookup l k) as [items|] eqn:Hk.
  2:{ apply refines_none with RErr; [do_op_unfold; unfold l_size; rewrite HL, Hb, Hk; reflexivity
                                    |spec_unfold; unfold l_lset; rewrite Hb, Hk; reflexivity|exact Hrel]. }
  destruct ((i <? 0) || (zlen items <=? i))%Z eqn:Hr.
  { apply refines_none with RErr; [do_op_unfold; unfold l_size; rewrite HL, Hb, Hk, Hr; reflexivity
                                  |spec_unfold; unfold l_lset; rewrite Hb, Hk, orb_comm, Hr; reflexivity|exact Hrel]. }
  assert (Hks : contains_sep k = false).
  { apply (Hsep l items); [rewrite HL; exact Hb|exact Hk]. }
  assert (Hset : l_lset l k i v = (aset l k (set_nth items (Z.to_nat i) v), true)).
  { unfold l_lset. rewrite Hk, orb_comm, Hr. reflexivity. }
  eapply refines_some with (r := ROk)
    (es := [mk_entry t b (join_sep k (print_Z i)) v 0 F_LSet now DS_List]).
  - do_op_unfold. unfold l_size. rewrite HL, Hb, Hk, Hr, tx_put_ok by (exact Hw || apply join_sep_nonempty).
    reflexivity.
  - reflexivity.
  - spec_unfold. rewrite Hb, Hset. reflexivity.
  - reflexivity.
  - intros strict. cbn [fold_left]. apply dsrel_apply_list; [exact Hrel|reflexivity|reflexivity|].
    rewrite apply_lset_record by exact Hks. rewrite (getdef_lookup _ _ _ _ Hb), Hset. reflexivity.
Qed.

Lemma OLTrim_refines : forall now w t b k st en s,
  dsrel (w_ix w) s -> tx_w t = true ->
  (forall l items, alookup (ix_list (w_ix w)) b = Some l -> alookup l k = Some items -> contains_sep k = false) ->
  refines now w t (OLTrim b k st en) s.
Proof.
  intros now w t b k st en s Hrel Hw Hsep. pose proof Hrel as (HL & HS & HZ).
  destruct (alookup (ix_list (s_ds s)) b) as [l|] eqn:Hb.
  2:{ apply refines_none with RErr; [do_op_unfold; rewrite HL, Hb; reflexivity
                                    |spec_unfold; rewrite Hb; reflexivity|exact Hrel]. }
  destruct (alookup l k) as [items|] eqn:Hk.
  2:{ apply refines_none with RErr; [do_op_unfold; rewrite HL, Hb, Hk; reflexivity
                                    |spec_unfold; unfold l_ltrim; rewrite Hb, Hk; reflexivity|exact Hrel]. }
  destruct (lrange_list items st en) as [items'|] eqn:Hr.
  2:{ apply refines_none with RErr; [do_op_unfold; rewrite HL, Hb, Hk, Hr; reflexivity
                                    |spec_unfold; unfold l_ltrim; rewrite Hb, Hk, Hr; reflexivity|exact Hrel]. }
  assert (Hks : contains_sep k = false).
  { apply (Hsep l items); [rewrite HL; exact Hb|exact Hk]. }
  assert (Htrim : l_ltrim l k st en = (aset l k items', true)).
  { unfold l_ltrim. rewrite Hk, Hr. reflexivity. }
  eapply refines_some with (r := ROk)
    (es := [mk_entry t b (join_sep k (print_Z st)) (print_Z en) 0 F_LTrim now DS_List]).
  - do_op_unfold. rewrite HL, Hb, Hk, Hr, tx_put_ok by (exact Hw || apply join_sep_nonempty).
    reflexivity.
  - reflexivity.
  - spec_unfold. rewrite Hb, Htrim. reflexivity.
  - reflexivity.
  - intros strict. cbn [fold_left]. apply dsrel_apply_list; [exact Hrel|reflexivity|reflexivity|].
    rewrite apply_ltrim_record by exact Hks. rewrite (getdef_lookup _ _ _ _ Hb), Htrim. reflexivity.
Qed.

(** ---------- sets ---------- *)

(** SAdd / SRem: no side condition (empty item list: success without records on
    both sides, even for an empty key; empty key otherwise: error on both) *)
Lemma OSAdd_refines : forall now w t b k items s,
  dsrel (w_ix w) s -> tx_w t = true -> refines now w t (OSAdd b k items) s.
Proof.
  intros now w t b k items s Hrel Hw.
  destruct items as [|v vs].
  { apply refines_none with ROk; [do_op_unfold; reflexivity|spec_unfold; reflexivity|exact Hrel]. }
  destruct k as [|k0 k].
  { apply refines_none with RErr; [do_op_unfold; rewrite tx_put_all_nil_key by exact Hw; reflexivity
                                  |spec_unfold; reflexivity|exact Hrel]. }
  assert (Hk : k0 :: k <> []) by discriminate.
  destruct (tx_put_all_ok b (k0 :: k) F_Set now DS_Set (v :: vs) t Hw Hk) as [P1 P2].
  eapply refines_some with (r := ROk).
  - do_op_unfold. rewrite P2. reflexivity.
  - exact P1.
  - spec_unfold. cbn [isnil nonempty]. reflexivity.
  - reflexivity.
  - intros strict.
    apply (dsrel_fold_set strict b (fun x => mk_entry t b (k0 :: k) x 0 F_Set now DS_Set)
             (fun m x => s_sadd m (k0 :: k) [x])); [reflexivity|reflexivity| |discriminate|exact Hrel].
    intros l x. rewrite apply_set_set by reflexivity. reflexivity.
Qed.

Lemma OSRem_refines : forall now w t b k items s,
  dsrel (w_ix w) s -> tx_w t = true -> refines now w t (OSRem b k items) s.
Proof.
  intros now w t b k items s Hrel Hw.
  destruct items as [|v vs].
  { apply refines_none with ROk; [do_op_unfold; reflexivity|spec_unfold; reflexivity|exact Hrel]. }
  destruct k as [|k0 k].
  { apply refines_none with RErr; [do_op_unfold; rewrite tx_put_all_nil_key by exact Hw; reflexivity
                                  |spec_unfold; reflexivity|exact Hrel]. }
  assert (Hk : k0 :: k <> []) by discriminate.
  destruct (tx_put_all_ok b (k0 :: k) F_Del now DS_Set (v :: vs) t Hw Hk) as [P1 P2].
  eapply refines_some with (r := ROk).
  - do_op_unfold. rewrite P2. reflexivity.
  - exact P1.
  - spec_unfold. cbn [isnil nonempty]. reflexivity.
  - reflexivity.
  - intros strict.
    apply (dsrel_fold_set strict b (fun x => mk_entry t b (k0 :: k) x 0 F_Del now DS_Set)
             (fun m x => fst (s_srem m (k0 :: k) [x]))); [reflexivity|reflexivity| |discriminate|exact Hrel].
    intros l x. rewrite apply_set_del by reflexivity. reflexivity.
Qed.

(** SPop: no side condition on the oracle.  [choice] = Some c with c a member:
    both remove c; c not a member: both answer RInadmissible and change
    nothing; [choice] = None (the implementation reported an error): both
    answer RErr for an empty key and RInadmissible otherwise, no record. *)
Lemma OSPop_refines : forall now w t b k choice s,
  dsrel (w_ix w) s -> tx_w t = true -> refines now w t (OSPop b k choice) s.
Proof.
  intros now w t b k choice s Hrel Hw. pose proof Hrel as (HL & HS & HZ).
  destruct (alookup (ix_set (s_ds s)) b) as [m|] eqn:Hb.
  2:{ apply refines_none with RErr; [do_op_unfold; rewrite HS, Hb; reflexivity
                                    |spec_unfold; rewrite Hb; reflexivity|exact Hrel]. }
  destruct (alookup m k) as [members|] eqn:Hk.
  2:{ apply refines_none with RErr; [do_op_unfold; rewrite HS, Hb, Hk; reflexivity
                                    |spec_unfold; rewrite Hb, Hk; reflexivity|exact Hrel]. }
  destruct members as [|m0 ms].
  { apply refines_none with RErr; [do_op_unfold; rewrite HS, Hb, Hk; reflexivity
                                  |spec_unfold; rewrite Hb, Hk; reflexivity|exact Hrel]. }
  destruct choice as [c|].
  2:{ destruct k as [|k0 k].
      - apply refines_none with RErr; [do_op_unfold; rewrite HS, Hb, Hk, tx_put_nil by exact Hw; reflexivity
                                      |spec_unfold; rewrite Hb, Hk; reflexivity|exact Hrel].
      - apply refines_none with RInadmissible;
          [do_op_unfold; rewrite HS, Hb, Hk, tx_put_ok by (exact Hw || discriminate); reflexivity
          |spec_unfold; rewrite Hb, Hk; reflexivity|exact Hrel]. }
  destruct (bmem c (m0 :: ms)) eqn:Hc.
  2:{ apply refines_none with RInadmissible; [do_op_unfold; rewrite HS, Hb, Hk, Hc; reflexivity
                                             |spec_unfold; rewrite Hb, Hk, Hc; reflexivity|exact Hrel]. }
  destruct k as [|k0 k].
  { apply refines_none with RErr; [do_op_unfold; rewrite HS, Hb, Hk, Hc, tx_put_nil by exact Hw; reflexivity
                                  |spec_unfold; rewrite Hb, Hk, Hc; reflexivity|exact Hrel]. }
  eapply refines_some with (r := RVal c) (es := [mk_entry t b (k0 :: k) c 0 F_Del now DS_Set]).
  - do_op_unfold. rewrite HS, Hb, Hk, Hc, tx_put_ok by (exact Hw || discriminate). reflexivity.
  - reflexivity.
  - spec_unfold. rewrite Hb, Hk, Hc. reflexivity.
  - reflexivity.
  - intros strict. cbn [fold_left]. apply dsrel_apply_set; [exact Hrel|reflexivity|reflexivity|].
    rewrite apply_set_del by reflexivity. reflexivity.
Qed.

Lemma upd_set_upd_set : forall s b f g,
  upd_set (upd_set s b f) b g = upd_set s b (fun m => g (f m)).
Proof.
  intros s b f g. unfold upd_set, set_ds_set. cbn [s_ds s_kv ix_kv ix_list ix_set ix_zset].
  rewrite getdef_aset_same, aset_aset. reflexivity.
Qed.

Lemma upd_set_id : forall s b f m,
  alookup (ix_set (s_ds s)) b = Some m -> f m = m -> upd_set s b f = s.
Proof.
  intros s b f m Hb Hf. unfold upd_set, set_ds_set.
  rewrite (getdef_lookup _ _ _ _ Hb), Hf, (aset_same _ _ _ Hb).
  destruct s as [kv [a l c z]]. reflexivity.
Qed.

Lemma s_move_false : forall m k1 k2 x,
  s_haskey m k1 && s_haskey m k2 = false -> s_move m k1 k2 x = (m, false).
Proof.
  intros m k1 k2 x. unfold s_haskey, s_move.
  destruct (alookup m k1); [|reflexivity]. destruct (alookup m k2); [discriminate|reflexivity].
Qed.

Lemma s_sadd_member_id : forall m k l x,
  alookup m k = Some l -> bmem x l = true -> s_sadd m k [x] = m.
Proof.
  intros m k l x Hk Hx. unfold s_sadd. rewrite Hk. cbn [fold_left]. unfold sadd1. rewrite Hx.
  apply aset_same. exact Hk.
Qed.

(** SMove (one bucket).  Side condition: when both keys exist they are
    non-empty.  Tx.put rejects an empty key, Set.SMove does not: on a state
    where the empty key exists (unreachable through the API: no record with an
    empty key is ever logged) the engine answers RErr — and, when only the
    source key is empty, has already logged the SAdd — while the
    specification moves the member.  See smove1_empty_key_disagreement below. *)
Lemma OSMove1_refines : forall now w t b k1 k2 x s,
  dsrel (w_ix w) s -> tx_w t = true ->
  (forall m, alookup (ix_set (w_ix w)) b = Some m -> s_haskey m k1 = true -> s_haskey m k2 = true ->
             k1 <> [] /\ k2 <> []) ->
  refines now w t (OSMove1 b k1 k2 x) s.
Proof.
  intros now w t b k1 k2 x s Hrel Hw Hne. pose proof Hrel as (HL & HS & HZ).
  destruct (alookup (ix_set (s_ds s)) b) as [m|] eqn:Hb.
  2:{ apply refines_none with RErr; [do_op_unfold; rewrite HS, Hb; reflexivity
                                    |spec_unfold; rewrite Hb; reflexivity|exact Hrel]. }
  destruct (s_haskey m k1 && s_haskey m k2) eqn:Hh.
  2:{ apply refines_none with RErr; [do_op_unfold; rewrite HS, Hb, Hh; reflexivity
                                    |spec_unfold; rewrite Hb, s_move_false by exact Hh; reflexivity|exact Hrel]. }
  pose proof Hh as Hh'. apply andb_true_iff in Hh' as [H1 H2].
  assert (Hb' : alookup (ix_set (w_ix w)) b = Some m) by (rewrite HS; exact Hb).
  destruct (Hne m Hb' H1 H2) as [Hk1 Hk2].
  destruct (smove_logged_eq m k1 k2 x H1 H2) as [Hlog Hok].
  destruct (s_move m k1 k2 x) as [m' ok] eqn:Hmv. cbn [fst snd] in Hlog, Hok. subst ok.
  eapply refines_some with (r := RBool true)
    (es := [mk_entry t b k2 x 0 F_Set now DS_Set; mk_entry t b k1 x 0 F_Del now DS_Set]).
  - do_op_unfold. rewrite HS, Hb, Hh. rewrite tx_put_ok by assumption. cbv beta iota.
    rewrite tx_put_ok by assumption. reflexivity.
  - cbn [tx_pend]. rewrite <- app_assoc. reflexivity.
  - spec_unfold. rewrite Hb, Hmv. reflexivity.
  - reflexivity.
  - intros strict. cbn [fold_left].
    assert (E : upd_set s b (fun _ => m') =
                upd_set (upd_set s b (fun m => s_sadd m k2 [x])) b (fun m => fst (s_srem m k1 [x]))).
    { rewrite upd_set_upd_set. apply upd_set_ext. rewrite (getdef_lookup _ _ _ _ Hb). symmetry. exact Hlog. }
    rewrite E.
    apply dsrel_apply_set; [|reflexivity|reflexivity|].
    + apply dsrel_apply_set; [exact Hrel|reflexivity|reflexivity|].
      rewrite apply_set_set by reflexivity. reflexivity.
    + rewrite apply_set_del by reflexivity. reflexivity.
Qed.

(** SMove (two buckets): same side condition; bucket1 = bucket2 is fine. *)
Lemma OSMove2_refines : forall now w t b1 k1 b2 k2 x s,
  dsrel (w_ix w) s -> tx_w t = true ->
  (forall s1 s2, alookup (ix_set (w_ix w)) b1 = Some s1 -> alookup (ix_set (w_ix w)) b2 = Some s2 ->
                 s_haskey s1 k1 = true -> s_haskey s2 k2 = true -> k1 <> [] /\ k2 <> []) ->
  refines now w t (OSMove2 b1 k1 b2 k2 x) s.
Proof.
  intros now w t b1 k1 b2 k2 x s Hrel Hw Hne. pose proof Hrel as (HL & HS & HZ).
  destruct (alookup (ix_set (s_ds s)) b1) as [s1|] eqn:Hb1.
  2:{ apply refines_none with RErr; [do_op_unfold; rewrite HS, Hb1; reflexivity
                                    |spec_unfold; rewrite Hb1; reflexivity|exact Hrel]. }
  destruct (alookup (ix_set (s_ds s)) b2) as [s2|] eqn:Hb2.
  2:{ apply refines_none with RErr; [do_op_unfold; rewrite HS, Hb1, Hb2; reflexivity
                                    |spec_unfold; rewrite Hb1, Hb2; reflexivity|exact Hrel]. }
  destruct (s_haskey s1 k1 && s_haskey s2 k2) eqn:Hh.
  2:{ apply refines_none with RErr; [do_op_unfold; rewrite HS, Hb1, Hb2, Hh; reflexivity
                                    |spec_unfold; rewrite Hb1, Hb2, Hh; reflexivity|exact Hrel]. }
  pose proof Hh as Hh'. apply andb_true_iff in Hh' as [H1 H2].
  assert (Hb1' : alookup (ix_set (w_ix w)) b1 = Some s1) by (rewrite HS; exact Hb1).
  assert (Hb2' : alookup (ix_set (w_ix w)) b2 = Some s2) by (rewrite HS; exact Hb2).
  destruct (Hne s1 s2 Hb1' Hb2' H1 H2) as [Hk1 Hk2].
  eapply refines_some with (r := RBool true)
    (es := [mk_entry t b2 k2 x 0 F_Set now DS_Set; mk_entry t b1 k1 x 0 F_Del now DS_Set]).
  - do_op_unfold. rewrite HS, Hb1, Hb2, Hh. rewrite tx_put_ok by assumption. cbv beta iota.
    rewrite tx_put_ok by assumption. reflexivity.
  - cbn [tx_pend]. rewrite <- app_assoc. reflexivity.
  - spec_unfold. rewrite Hb1, Hb2, Hh. reflexivity.
  - reflexivity.
  - intros strict. cbn [fold_left].
    assert (E : (if bmem x (getdef s2 k2 []) then s else upd_set s b2 (fun m => s_sadd m k2 [x])) =
                upd_set s b2 (fun m => s_sadd m k2 [x])).
    { destruct (bmem x (getdef s2 k2 [])) eqn:Hx; [|reflexivity].
      symmetry. apply upd_set_id with s2; [exact Hb2|].
      unfold s_haskey in H2. destruct (alookup s2 k2) as [l2|] eqn:Hl2; [|discriminate].
      apply s_sadd_member_id with l2; [exact Hl2|].
      rewrite (getdef_lookup _ _ _ _ Hl2) in Hx. exact Hx. }
    rewrite E.
    apply dsrel_apply_set; [|reflexivity|reflexivity|].
    + apply dsrel_apply_set; [exact Hrel|reflexivity|reflexivity|].
      rewrite apply_set_set by reflexivity. reflexivity.
    + rewrite apply_set_del by reflexivity. reflexivity.
Qed.

(** ---------- sorted sets ---------- *)

(** ZAdd: no side condition (a member key with a separator is rejected by
    both; the logged key "k|score" is never empty, and the specification
    accepts an empty member key too) *)
Lemma OZAdd_refines : forall now w t b k sc v s,
  dsrel (w_ix w) s -> tx_w t = true -> refines now w t (OZAdd b k sc v) s.
Proof.
  intros now w t b k sc v s Hrel Hw.
  destruct (contains_sep k) eqn:Hsep.
  { apply refines_none with RErr; [do_op_unfold; rewrite Hsep; reflexivity
                                  |spec_unfold; rewrite Hsep; reflexivity|exact Hrel]. }
  eapply refines_some with (r := ROk)
    (es := [mk_entry t b (join_sep k (print_Z sc)) v 0 F_ZAdd now DS_ZSet]).
  - do_op_unfold. rewrite Hsep, tx_put_ok by (exact Hw || apply join_sep_nonempty). reflexivity.
  - reflexivity.
  - spec_unfold. rewrite Hsep. reflexivity.
  - reflexivity.
  - intros strict. cbn [fold_left]. apply dsrel_apply_zset; [exact Hrel|reflexivity|reflexivity|].
    rewrite apply_zadd_record by exact Hsep. reflexivity.
Qed.

(** ZRem: no side condition (empty key: error on both sides) *)
Lemma OZRem_refines : forall now w t b k s,
  dsrel (w_ix w) s -> tx_w t = true -> refines now w t (OZRem b k) s.
Proof.
  intros now w t b k s Hrel Hw. pose proof Hrel as (HL & HS & HZ).
  destruct (alookup (ix_zset (s_ds s)) b) as [z|] eqn:Hb.
  2:{ apply refines_none with RErr; [do_op_unfold; rewrite HZ, Hb; reflexivity
                                    |spec_unfold; rewrite Hb; reflexivity|exact Hrel]. }
  destruct k as [|k0 k].
  { apply refines_none with RErr; [do_op_unfold; rewrite HZ, Hb, tx_put_nil by exact Hw; reflexivity
                                  |spec_unfold; rewrite Hb; reflexivity|exact Hrel]. }
  eapply refines_some with (r := ROk) (es := [mk_entry t b (k0 :: k) [] 0 F_ZRem now DS_ZSet]).
  - do_op_unfold. rewrite HZ, Hb, tx_put_ok by (exact Hw || discriminate). reflexivity.
  - reflexivity.
  - spec_unfold. rewrite Hb. reflexivity.
  - reflexivity.
  - intros strict. cbn [fold_left]. apply dsrel_apply_zset; [exact Hrel|reflexivity|reflexivity|].
    rewrite apply_zset_zrem by reflexivity. reflexivity.
Qed.

Lemma OZRemRangeByRank_refines : forall now w t b st en s,
  dsrel (w_ix w) s -> tx_w t = true -> refines now w t (OZRemRangeByRank b st en) s.
Proof.
  intros now w t b st en s Hrel Hw. pose proof Hrel as (HL & HS & HZ).
  destruct (alookup (ix_zset (s_ds s)) b) as [z|] eqn:Hb.
  2:{ apply refines_none with RErr; [do_op_unfold; rewrite HZ, Hb; reflexivity
                                    |spec_unfold; rewrite Hb; reflexivity|exact Hrel]. }
  eapply refines_some with (r := ROk) (es := [mk_entry t b (print_Z st) (print_Z en) 0 F_ZRemRange now DS_ZSet]).
  - do_op_unfold. rewrite HZ, Hb, tx_put_ok by (exact Hw || apply print_Z_nonempty). reflexivity.
  - reflexivity.
  - spec_unfold. rewrite Hb. reflexivity.
  - reflexivity.
  - intros strict. cbn [fold_left]. apply dsrel_apply_zset; [exact Hrel|reflexivity|reflexivity|].
    rewrite apply_zremrange_record. reflexivity.
Qed.

Lemma OZPopMax_refines : forall now w t b s,
  dsrel (w_ix w) s -> tx_w t = true -> refines now w t (OZPopMax b) s.
Proof.
  intros now w t b s Hrel Hw. pose proof Hrel as (HL & HS & HZ).
  destruct (alookup (ix_zset (s_ds s)) b) as [z|] eqn:Hb.
  2:{ apply refines_none with RErr; [do_op_unfold; rewrite HZ, Hb; reflexivity
                                    |spec_unfold; rewrite Hb; reflexivity|exact Hrel]. }
  eapply refines_some with (r := RNode (z_peekmax z)) (es := [mk_entry t b [x20] [] 0 F_ZPopMax now DS_ZSet]).
  - do_op_unfold. rewrite HZ, Hb, tx_put_ok by (exact Hw || discriminate). reflexivity.
  - reflexivity.
  - spec_unfold. rewrite Hb. reflexivity.
  - reflexivity.
  - intros strict. cbn [fold_left]. apply dsrel_apply_zset; [exact Hrel|reflexivity|reflexivity|].
    rewrite apply_zset_zpopmax by reflexivity. reflexivity.
Qed.

Lemma OZPopMin_refines : forall now w t b s,
  dsrel (w_ix w) s -> tx_w t = true -> refines now w t (OZPopMin b) s.
Proof.
  intros now w t b s Hrel Hw. pose proof Hrel as (HL & HS & HZ).
  destruct (alookup (ix_zset (s_ds s)) b) as [z|] eqn:Hb.
  2:{ apply refines_none with RErr; [do_op_unfold; rewrite HZ, Hb; reflexivity
                                    |spec_unfold; rewrite Hb; reflexivity|exact Hrel]. }
  eapply refines_some with (r := RNode (z_peekmin z)) (es := [mk_entry t b [x20] [] 0 F_ZPopMin now DS_ZSet]).
  - do_op_unfold. rewrite HZ, Hb, tx_put_ok by (exact Hw || discriminate). reflexivity.
  - reflexivity.
  - spec_unfold. rewrite Hb. reflexivity.
  - reflexivity.
  - intros strict. cbn [fold_left]. apply dsrel_apply_zset; [exact Hrel|reflexivity|reflexivity|].
    rewrite apply_zset_zpopmin by reflexivity. reflexivity.
Qed.

(** ---------- the general statement ---------- *)

(** [ds_write_refines] as first written (hypotheses dsrel, list_keys_ok only)
    is FALSE: nothing excludes a set bucket in which the empty key exists, and
    there SMove disagrees — Tx.put rejects the empty key, Set.SMove (the
    specification) does not.  Such a state is not reachable through the API
    (every logged record has a non-empty key, so replay/commit never create
    the empty set key), hence this is a missing invariant of the statement,
    not a defect of the model.  The concrete example: *)
Definition cx_ix : indexes := mkIx [] [] [([x62], [([], [[x78]]); ([x6b], [])])] [].
Definition cx_w : world := mkW (mkOpts 0 FileIO FileIO false 1000) false [] 0 0 0 cx_ix [] TxNone.
Definition cx_s : sstate := mkS [] cx_ix.
Definition cx_t : txstate := mkTx 1 true [].
Definition cx_o : op := OSMove1 [x62] [] [x6b] [x78].      (* source key empty, destination "k" *)
Definition cx_o' : op := OSMove1 [x62] [x6b] [] [x78].     (* destination key empty *)

Lemma smove1_empty_key_disagreement :
  dsrel (w_ix cx_w) cx_s /\ list_keys_ok (w_ix cx_w) /\ tx_w cx_t = true /\
  (* empty source key: the engine fails AFTER logging the SAdd, the specification moves *)
  snd (do_op 0 cx_w cx_t cx_o) = RErr /\
  tx_pend (snd (fst (do_op 0 cx_w cx_t cx_o))) = [mkEntry [x62] [x6b] [x78] 0 0 F_Set 0 DS_Set 1] /\
  snd (spec_write cx_s cx_o) = RBool true /\
  (* empty destination key: the engine fails, the specification moves *)
  snd (do_op 0 cx_w cx_t cx_o') = RErr /\
  tx_pend (snd (fst (do_op 0 cx_w cx_t cx_o'))) = [] /\
  snd (spec_write cx_s cx_o') = RBool true.
Proof.
  split; [repeat split|].
  split; [intros b l k v H; discriminate H|].
  vm_compute. repeat split.
Qed.

Theorem ds_write_refines_as_stated_is_false :
  ~ (forall now w t o s,
      dsrel (w_ix w) s -> list_keys_ok (w_ix w) -> tx_w t = true -> is_ds_write o = true ->
      let r := do_op now w t o in
      let t' := snd (fst r) in
      snd r = snd (spec_write s o) /\
      exists es, tx_pend t' = tx_pend t ++ es /\
                 (forall strict, dsrel (fold_left (apply_ds strict) es (w_ix w)) (fst (spec_write s o))) /\
                 (fst (spec_write s o) = s \/ es <> [] \/ True)).
Proof.
  intros H.
  destruct smove1_empty_key_disagreement as (H1 & H2 & H3 & H4 & _ & H6 & _).
  specialize (H 0 cx_w cx_t cx_o cx_s H1 H2 H3 eq_refl). cbv zeta in H.
  destruct H as [H _]. rewrite H4, H6 in H. discriminate H.
Qed.

(** the missing invariant: set keys are never empty (Tx.put rejects them) *)
Definition set_keys_ok (ix : indexes) : Prop :=
  forall b m k l, alookup (ix_set ix) b = Some m -> alookup m k = Some l -> k <> [].

(** the per-call side conditions, collected (weakest form) *)
Definition ds_write_side (ix : indexes) (o : op) : Prop :=
  match o with
  | OLSet b k _ _ | OLTrim b k _ _ =>
      forall l items, alookup (ix_list ix) b = Some l -> alookup l k = Some items -> contains_sep k = false
  | OSMove1 b k1 k2 _ =>
      forall m, alookup (ix_set ix) b = Some m -> s_haskey m k1 = true -> s_haskey m k2 = true ->
                k1 <> [] /\ k2 <> []
  | OSMove2 b1 k1 b2 k2 _ =>
      forall s1 s2, alookup (ix_set ix) b1 = Some s1 -> alookup (ix_set ix) b2 = Some s2 ->
                    s_haskey s1 k1 = true -> s_haskey s2 k2 = true -> k1 <> [] /\ k2 <> []
  | _ => True
  end.

Lemma haskey_nonempty : forall ix b m k,
  set_keys_ok ix -> alookup (ix_set ix) b = Some m -> s_haskey m k = true -> k <> [].
Proof.
  intros ix b m k Hok Hb Hk. unfold s_haskey in Hk.
  destruct (alookup m k) as [l|] eqn:Hl; [|discriminate]. exact (Hok b m k l Hb Hl).
Qed.

Lemma invariants_give_side : forall ix o,
  list_keys_ok ix -> set_keys_ok ix -> ds_write_side ix o.
Proof.
  intros ix o HL HS. destruct o; cbn [ds_write_side]; try exact I.
  - intros l items H1 H2. exact (HL _ _ _ _ H1 H2).
  - intros l items H1 H2. exact (HL _ _ _ _ H1 H2).
  - intros m Hb H1 H2. split.
    + exact (haskey_nonempty ix _ m _ HS Hb H1).
    + exact (haskey_nonempty ix _ m _ HS Hb H2).
  - intros s1 s2 Hb1 Hb2 H1 H2. split.
    + exact (haskey_nonempty ix _ s1 _ HS Hb1 H1).
    + exact (haskey_nonempty ix _ s2 _ HS Hb2 H2).
Qed.

(** strongest version: only the per-call side condition is assumed *)
Theorem ds_write_refines_weakest : forall now w t o s,
  dsrel (w_ix w) s -> tx_w t = true -> is_ds_write o = true -> ds_write_side (w_ix w) o ->
  refines now w t o s.
Proof.
  intros now w t o s Hrel Hw Ho Hside.
  destruct o; cbn [is_ds_write] in Ho; try discriminate Ho; cbn [ds_write_side] in Hside.
  - apply ORPush_refines; assumption.
  - apply OLPush_refines; assumption.
  - apply ORPop_refines; assumption.
  - apply OLPop_refines; assumption.
  - apply OLRem_refines; assumption.
  - apply OLSet_refines; assumption.
  - apply OLTrim_refines; assumption.
  - apply OSAdd_refines; assumption.
  - apply OSRem_refines; assumption.
  - apply OSPop_refines; assumption.
  - apply OSMove1_refines; assumption.
  - apply OSMove2_refines; assumption.
  - apply OZAdd_refines; assumption.
  - apply OZPopMax_refines; assumption.
  - apply OZPopMin_refines; assumption.
  - apply OZRem_refines; assumption.
  - apply OZRemRangeByRank_refines; assumption.
Qed.

(** [ds_write_refines] corrected: the extra hypothesis [set_keys_ok], and the
    trivial last conjunct replaced by "a failed call appends nothing and the
    specification state is unchanged" *)
Theorem ds_write_refines_corrected : forall now w t o s,
  dsrel (w_ix w) s -> list_keys_ok (w_ix w) -> set_keys_ok (w_ix w) ->
  tx_w t = true -> is_ds_write o = true ->
  let r := do_op now w t o in
  let t' := snd (fst r) in
  snd r = snd (spec_write s o) /\
  exists es, tx_pend t' = tx_pend t ++ es /\
             (forall strict, dsrel (fold_left (apply_ds strict) es (w_ix w)) (fst (spec_write s o))) /\
             (is_fail (snd r) = true -> es = [] /\ fst (spec_write s o) = s).
Proof.
  intros now w t o s Hrel HL HS Hw Ho. cbv zeta.
  apply ds_write_refines_weakest; try assumption.
  apply invariants_give_side; assumption.
Qed.

(** the SMove side condition is necessary (so it is the weakest one) *)
Lemma OSMove1_side_necessary : forall now w t b k1 k2 x s,
  dsrel (w_ix w) s -> tx_w t = true -> refines now w t (OSMove1 b k1 k2 x) s ->
  ds_write_side (w_ix w) (OSMove1 b k1 k2 x).
Proof.
  intros now w t b k1 k2 x s Hrel Hw [Hres _]. pose proof Hrel as (HL & HS & HZ).
  cbn [ds_write_side]. intros m Hb H1 H2.
  assert (Hspec : snd (spec_write s (OSMove1 b k1 k2 x)) = RBool true).
  { spec_unfold. rewrite <- HS, Hb. destruct (smove_logged_eq m k1 k2 x H1 H2) as [_ Hok].
    destruct (s_move m k1 k2 x) as [m' ok]. cbn [snd] in Hok. subst ok. reflexivity. }
  rewrite Hspec in Hres. revert Hres. do_op_unfold. rewrite Hb, H1, H2. cbn [andb].
  destruct k2 as [|c2 k2].
  { rewrite tx_put_nil by exact Hw. cbn [snd]. discriminate. }
  rewrite tx_put_ok by (exact Hw || discriminate). cbv beta iota.
  destruct k1 as [|c1 k1].
  { rewrite tx_put_nil by exact Hw. cbn [snd]. discriminate. }
  intros _. split; discriminate.
Qed.

Lemma OSMove2_side_necessary : forall now w t b1 k1 b2 k2 x s,
  dsrel (w_ix w) s -> tx_w t = true -> refines now w t (OSMove2 b1 k1 b2 k2 x) s ->
  ds_write_side (w_ix w) (OSMove2 b1 k1 b2 k2 x).
Proof.
  intros now w t b1 k1 b2 k2 x s Hrel Hw [Hres _]. pose proof Hrel as (HL & HS & HZ).
  cbn [ds_write_side]. intros s1 s2 Hb1 Hb2 H1 H2.
  assert (Hspec : snd (spec_write s (OSMove2 b1 k1 b2 k2 x)) = RBool true).
  { spec_unfold. rewrite <- HS, Hb1, Hb2, H1, H2. reflexivity. }
  rewrite Hspec in Hres. revert Hres. do_op_unfold. rewrite Hb1, Hb2, H1, H2. cbn [andb].
  destruct k2 as [|c2 k2].
  { rewrite tx_put_nil by exact Hw. cbn [snd]. discriminate. }
  rewrite tx_put_ok by (exact Hw || discriminate). cbv beta iota.
  destruct k1 as [|c1 k1].
  { rewrite tx_put_nil by exact Hw. cbn [snd]. discriminate. }
  intros _. split; discriminate.
Qed.

(** ---------- list keys stay separator-free ---------- *)
Definition lkeys_ok (l : lmap) : Prop := forall k v, alookup l k = Some v -> contains_sep k = false.

Lemma lkeys_aset_new : forall l k v, lkeys_ok l -> contains_sep k = false -> lkeys_ok (aset l k v).
Proof.
  intros l k v Hl Hk k' v' H. rewrite alookup_aset in H.
  destruct (bytes_eqb k k') eqn:E.
  - apply bytes_eqb_eq in E. subst k'. exact Hk.
  - exact (Hl _ _ H).
Qed.

Lemma lkeys_aset_old : forall l k v x, lkeys_ok l -> alookup l k = Some x -> lkeys_ok (aset l k v).
Proof. intros l k v x Hl Hx. apply lkeys_aset_new; [exact Hl|exact (Hl _ _ Hx)]. Qed.

Lemma apply_list_keys_ok : forall l e, lkeys_ok l ->
  ((e_flag e = F_LPush \/ e_flag e = F_RPush) -> contains_sep (e_key e) = false) ->
  lkeys_ok (apply_list l e).
Proof.
  intros l e Hl Hk. unfold apply_list.
  destruct (e_flag e =? F_LPush) eqn:F1.
  { apply N.eqb_eq in F1. unfold l_lpush. apply lkeys_aset_new; auto. }
  destruct (e_flag e =? F_RPush) eqn:F2.
  { apply N.eqb_eq in F2. unfold l_rpush. apply lkeys_aset_new; auto. }
  destruct (e_flag e =? F_LRem).
  { destruct (split_first (e_value e)) as [[c v]|]; [|exact Hl].
    unfold l_lrem. destruct (alookup l (e_key e)) as [items|] eqn:Hi; [|exact Hl].
    destruct (lrem_list items (parse_Z c) v) as [l' r]. cbn [fst].
    destruct r as [n|]; [|exact Hl]. destruct (n =? 0)%Z; [exact Hl|].
    apply lkeys_aset_old with items; assumption. }
  destruct (e_flag e =? F_LPop).
  { unfold l_lpop. destruct (alookup l (e_key e)) as [[|x r]|] eqn:Hi; cbn [fst]; try exact Hl.
    apply lkeys_aset_old with (x :: r); assumption. }
  destruct (e_flag e =? F_RPop).
  { unfold l_rpop. destruct (alookup l (e_key e)) as [items|] eqn:Hi; [|exact Hl].
    destruct (rev items) as [|x r]; cbn [fst]; [exact Hl|].
    apply lkeys_aset_old with items; assumption. }
  destruct (e_flag e =? F_LSet).
  { destruct (split_all (e_key e)) as [|k [|i rest]]; try exact Hl.
    unfold l_lset. destruct (alookup l k) as [items|] eqn:Hi; [|exact Hl].
    destruct ((zlen items <=? parse_Z i) || (parse_Z i <? 0))%Z; cbn [fst]; [exact Hl|].
    apply lkeys_aset_old with items; assumption. }
  destruct (e_flag e =? F_LTrim).
  { destruct (split_all (e_key e)) as [|k [|i rest]]; try exact Hl.
    unfold l_ltrim. destruct (alookup l k) as [items|] eqn:Hi; [|exact Hl].
    destruct (lrange_list items (parse_Z i) (parse_Z (e_value e))) as [items'|]; cbn [fst]; [|exact Hl].
    apply lkeys_aset_old with items; assumption. }
  exact Hl.
Qed.

Lemma list_keys_ok_getdef : forall ix b, list_keys_ok ix -> lkeys_ok (getdef (ix_list ix) b []).
Proof.
  intros ix b H. unfold getdef. destruct (alookup (ix_list ix) b) as [l|] eqn:Hb.
  - intros k v Hk. exact (H _ _ _ _ Hb Hk).
  - intros k v Hk. discriminate Hk.
Qed.

(** list keys stay separator-free *)
Lemma apply_ds_keys_ok : forall strict ix e,
  list_keys_ok ix ->
  (e_ds e = DS_List -> (e_flag e = F_LPush \/ e_flag e = F_RPush) -> contains_sep (e_key e) = false) ->
  list_keys_ok (apply_ds strict ix e).
Proof.
  intros strict ix e Hok He. unfold apply_ds.
  destruct (e_ds e =? DS_Set); [exact Hok|].
  destruct (e_ds e =? DS_ZSet); [exact Hok|].
  destruct (e_ds e =? DS_List) eqn:D; [|exact Hok].
  apply N.eqb_eq in D.
  intros b l k v Hb Hk. cbn [ix_list] in Hb. rewrite alookup_aset in Hb.
  destruct (bytes_eqb (e_bucket e) b).
  - injection Hb as Hb. subst l.
    exact (apply_list_keys_ok _ e (list_keys_ok_getdef ix (e_bucket e) Hok) (He D) k v Hk).
  - exact (Hok _ _ _ _ Hb Hk).
Qed.

(** ---------- set keys stay non-empty ---------- *)
Definition skeys_ok (m : smap) : Prop := forall k l, alookup m k = Some l -> k <> [].

Lemma skeys_aset_new : forall (m : smap) k v, skeys_ok m -> k <> [] -> skeys_ok (aset m k v).
Proof.
  intros m k v Hm Hk k' v' H. rewrite alookup_aset in H.
  destruct (bytes_eqb k k') eqn:E.
  - apply bytes_eqb_eq in E. subst k'. exact Hk.
  - exact (Hm _ _ H).
Qed.

Lemma apply_set_keys_ok : forall m e, skeys_ok m -> e_key e <> [] -> skeys_ok (apply_set m e).
Proof.
  intros m e Hm Hk. unfold apply_set.
  destruct (e_flag e =? F_Del).
  { unfold s_srem. destruct (alookup m (e_key e)) as [l|]; [|exact Hm].
    destruct (e_value e); cbn [fst]; [exact Hm|]. apply skeys_aset_new; assumption. }
  destruct (e_flag e =? F_Set); [|exact Hm].
  unfold s_sadd. apply skeys_aset_new; assumption.
Qed.

Lemma apply_ds_set_keys_ok : forall strict ix e,
  set_keys_ok ix -> (e_ds e = DS_Set -> e_key e <> []) -> set_keys_ok (apply_ds strict ix e).
Proof.
  intros strict ix e Hok He. unfold apply_ds.
  destruct (e_ds e =? DS_Set) eqn:D.
  - apply N.eqb_eq in D. intros b m k l Hb Hk. cbn [ix_set] in Hb. rewrite alookup_aset in Hb.
    destruct (bytes_eqb (e_bucket e) b).
    + injection Hb as Hb. subst m.
      refine (apply_set_keys_ok _ e _ (He D) k l Hk).
      unfold getdef. destruct (alookup (ix_set ix) (e_bucket e)) as [m0|] eqn:Hm0.
      * intros k' l' H'. exact (Hok _ _ _ _ Hm0 H').
      * intros k' l' H'. discriminate H'.
    + exact (Hok _ _ _ _ Hb Hk).
  - destruct (e_ds e =? DS_ZSet); [exact Hok|].
    destruct (e_ds e =? DS_List); exact Hok.
Qed.

(** every record a transaction logs satisfies the premises of
    apply_ds_keys_ok and apply_ds_set_keys_ok *)
Definition rec_ok (e : entry) : Prop :=
  e_key e <> [] /\
  (e_ds e = DS_List -> (e_flag e = F_LPush \/ e_flag e = F_RPush) -> contains_sep (e_key e) = false).

Lemma tx_put_rec_ok : forall t b k v ttl flag ts ds,
  Forall rec_ok (tx_pend t) ->
  (ds = DS_List -> (flag = F_LPush \/ flag = F_RPush) -> contains_sep k = false) ->
  Forall rec_ok (tx_pend (fst (tx_put t b k v ttl flag ts ds))).
Proof.
  intros t b k v ttl flag ts ds H Hs. unfold tx_put.
  destruct (negb (tx_w t)); [exact H|]. destruct k as [|k0 k]; [exact H|].
  cbn [fst tx_pend]. apply Forall_app. split; [exact H|].
  constructor; [|constructor]. split; [discriminate|exact Hs].
Qed.

Lemma tx_put_all_rec_ok : forall b k flag ts ds vs t,
  Forall rec_ok (tx_pend t) ->
  (ds = DS_List -> (flag = F_LPush \/ flag = F_RPush) -> contains_sep k = false) ->
  Forall rec_ok (tx_pend (fst (tx_put_all t b k vs flag ts ds))).
Proof.
  intros b k flag ts ds vs. induction vs as [|v vs IH]; intros t H Hs.
  - exact H.
  - cbn [tx_put_all]. pose proof (tx_put_rec_ok t b k v 0 flag ts ds H Hs) as E.
    destruct (tx_put t b k v 0 flag ts ds) as [t' r]. cbn [fst] in E.
    destruct r; try exact E. apply IH; assumption.
Qed.

Ltac side_tac :=
  let D := fresh "D" in let F := fresh "F" in
  intros D F; first [cbv in D; discriminate D | destruct F as [F|F]; cbv in F; discriminate F].

Ltac put_step H E t' r :=
  match goal with
  | |- context [tx_put ?t ?b ?k ?v ?ttl ?f ?ts ?ds] =>
      pose proof (tx_put_rec_ok t b k v ttl f ts ds H) as E;
      destruct (tx_put t b k v ttl f ts ds) as [t' r]; cbn [fst] in E
  end.

Lemma do_op_rec_ok : forall now w t o,
  Forall rec_ok (tx_pend t) -> Forall rec_ok (tx_pend (snd (fst (do_op now w t o)))).
Proof.
  intros now w t o H. unfold do_op.
  destruct (ds_read (w_ix w) o) as [r0|]; [exact H|].
  destruct o; try exact H.
  - (* OPut *) cbn [fst snd]. apply tx_put_rec_ok; [exact H|side_tac].
  - (* ODelete *) cbn [fst snd]. apply tx_put_rec_ok; [exact H|side_tac].
  - (* OGet *)
    destruct (alookup (ix_kv (w_ix w)) b); [|exact H]. destruct (kv_find k0 k); [|exact H].
    destruct (negb (nmem (kr_txid k1) (w_committed w))); [exact H|].
    destruct (kr_dead now k1); [exact H|]. destruct (o_mode (w_opts w) =? 0); [exact H|].
    destruct (disk_read (w_disk w) (kr_fid k1) (kr_pos k1)); exact H.
  - (* OGetAll *) destruct (alookup (ix_kv (w_ix w)) b); exact H.
  - (* ORangeScan *) destruct (alookup (ix_kv (w_ix w)) b); [|exact H]. destruct (bltb e s); exact H.
  - (* OPrefixScan *) destruct (alookup (ix_kv (w_ix w)) b); [|exact H].
    destruct (kv_prefix_scan now (fun _ => true) k p off lim). exact H.
  - (* OPrefixSearchScan *) destruct (alookup (ix_kv (w_ix w)) b); [|exact H]. destruct bad; [exact H|].
    destruct (kv_prefix_scan now (fun r => bmem r ms) k p off lim). exact H.
  - (* ORPush *) destruct (contains_sep k) eqn:S; [exact H|]. cbn [fst snd].
    apply tx_put_all_rec_ok; [exact H|intros _ _; exact S].
  - (* OLPush *) destruct (contains_sep k) eqn:S; [exact H|]. cbn [fst snd].
    apply tx_put_all_rec_ok; [exact H|intros _ _; exact S].
  - (* ORPop *) destruct (alookup (ix_list (w_ix w)) b); [|exact H]. destruct (l_rpeek l k); [|exact H].
    put_step H E t' r. destruct r; cbn [fst snd]; apply E; side_tac.
  - (* OLPop *) destruct (alookup (ix_list (w_ix w)) b); [|exact H]. destruct (l_lpeek l k); [|exact H].
    put_step H E t' r. destruct r; cbn [fst snd]; apply E; side_tac.
  - (* OLRem *) destruct (alookup (ix_list (w_ix w)) b); [|exact H]. destruct (l_size l k); [|exact H].
    destruct ((a <? count) || (count <? - a))%Z; [exact H|].
    put_step H E t' r. destruct r; try (cbn [fst snd]; apply E; side_tac).
    destruct (l_lremnum l k count v); cbn [fst snd]; apply E; side_tac.
  - (* OLSet *) destruct (alookup (ix_list (w_ix w)) b); [|exact H]. destruct (l_size l k); [|exact H].
    destruct ((i <? 0) || (a <=? i))%Z; [exact H|]. cbn [fst snd]. apply tx_put_rec_ok; [exact H|side_tac].
  - (* OLTrim *) destruct (alookup (ix_list (w_ix w)) b); [|exact H]. destruct (alookup l k); [|exact H].
    destruct (lrange_list l0 s e); [|exact H]. cbn [fst snd]. apply tx_put_rec_ok; [exact H|side_tac].
  - (* OSAdd *) cbn [fst snd]. apply tx_put_all_rec_ok; [exact H|side_tac].
  - (* OSRem *) cbn [fst snd]. apply tx_put_all_rec_ok; [exact H|side_tac].
  - (* OSPop *) destruct (alookup (ix_set (w_ix w)) b); [|exact H].
    destruct (alookup s k) as [[|m0 ms]|]; try exact H.
    destruct choice as [c|].
    + destruct (bmem c (m0 :: ms)); [|exact H].
      put_step H E t' r. destruct r; cbn [fst snd]; apply E; side_tac.
    + destruct (tx_put t b k [] 0 F_Del now DS_Set) as [t' r]. destruct r; exact H.
  - (* OSMove1 *) destruct (alookup (ix_set (w_ix w)) b); [|exact H].
    destruct (s_haskey s k1 && s_haskey s k2); [|exact H].
    put_step H E t1 r. assert (E1 : Forall rec_ok (tx_pend t1)) by (apply E; side_tac).
    destruct r; try exact E1.
    put_step E1 E' t2 r. destruct r; cbn [fst snd]; apply E'; side_tac.
  - (* OSMove2 *) destruct (alookup (ix_set (w_ix w)) b1); [|exact H].
    destruct (alookup (ix_set (w_ix w)) b2); [|exact H].
    destruct (s_haskey s k1 && s_haskey s0 k2); [|exact H].
    put_step H E t1 r. assert (E1 : Forall rec_ok (tx_pend t1)) by (apply E; side_tac).
    destruct r; try exact E1.
    put_step E1 E' t2 r. destruct r; cbn [fst snd]; apply E'; side_tac.
  - (* OZAdd *) destruct (contains_sep k); [exact H|]. cbn [fst snd]. apply tx_put_rec_ok; [exact H|side_tac].
  - (* OZPopMax *) destruct (alookup (ix_zset (w_ix w)) b); [|exact H].
    put_step H E t' r. destruct r; cbn [fst snd]; apply E; side_tac.
  - (* OZPopMin *) destruct (alookup (ix_zset (w_ix w)) b); [|exact H].
    put_step H E t' r. destruct r; cbn [fst snd]; apply E; side_tac.
  - (* OZRem *) destruct (alookup (ix_zset (w_ix w)) b); [|exact H].
    cbn [fst snd]. apply tx_put_rec_ok; [exact H|side_tac].
  - (* OZRemRangeByRank *) destruct (alookup (ix_zset (w_ix w)) b); [|exact H].
    cbn [fst snd]. apply tx_put_rec_ok; [exact H|side_tac].
Qed.
