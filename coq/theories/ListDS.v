(** ListDS.v — model of ds/list/list.go (type List, map key -> [][]byte).
    Go ints are modelled as Z: every argument is a 64-bit value and the code
    only ever adds a list size to it or negates a value >= -size, so no
    operation on these paths can wrap (stated in DESIGN.md, trusted base). *)
From Verif Require Export Bytes.
Open Scope Z_scope.

(** association list keyed by byte strings (Go map[string]..) *)
Section Assoc.
  Context {V : Type}.
  Fixpoint alookup (m : list (bytes * V)) (k : bytes) : option V :=
    match m with
    | [] => None
    | (k', v) :: r => if bytes_eqb k' k then Some v else alookup r k
    end.
  Fixpoint aset (m : list (bytes * V)) (k : bytes) (v : V) : list (bytes * V) :=
    match m with
    | [] => [(k, v)]
    | (k', v') :: r => if bytes_eqb k' k then (k, v) :: r else (k', v') :: aset r k v
    end.
End Assoc.

Definition lmap := list (bytes * list bytes).

Definition zlen {A} (l : list A) : Z := Z.of_nat (length l).

(** results of the ds-level calls *)
Inductive lres (A : Type) := LOk (a : A) | LErr.
Arguments LOk {A} a.
Arguments LErr {A}.

Definition l_size (m : lmap) (k : bytes) : lres Z :=
  match alookup m k with Some l => LOk (zlen l) | None => LErr end.

(** RPush(key, values...) *)
Definition l_rpush (m : lmap) (k : bytes) (vs : list bytes) : lmap :=
  match vs with
  | [] => m   (* the loop body never runs: the key is not created *)
  | _ => aset m k (match alookup m k with Some l => l ++ vs | None => vs end)
  end.

(** LPush(key, values...): the values end up reversed in front of the old list;
    the key is always (re)created *)
Definition l_lpush (m : lmap) (k : bytes) (vs : list bytes) : lmap :=
  aset m k (rev vs ++ match alookup m k with Some l => l | None => [] end).

Definition l_lpeek (m : lmap) (k : bytes) : lres bytes :=
  match alookup m k with
  | Some (x :: _) => LOk x
  | _ => LErr
  end.

Definition l_rpeek (m : lmap) (k : bytes) : lres bytes :=
  match alookup m k with
  | Some l => match rev l with x :: _ => LOk x | [] => LErr end
  | None => LErr
  end.

Definition l_lpop (m : lmap) (k : bytes) : lmap * lres bytes :=
  match alookup m k with
  | Some (x :: r) => (aset m k r, LOk x)
  | _ => (m, LErr)
  end.

Definition l_rpop (m : lmap) (k : bytes) : lmap * lres bytes :=
  match alookup m k with
  | Some l => match rev l with
              | x :: r => (aset m k (rev r), LOk x)
              | [] => (m, LErr)
              end
  | None => (m, LErr)
  end.

(** the normalisation prelude of List.LRange (after fix 1256c12), written as
    the Go statement sequence *)
Definition lrange_norm (size st en : Z) : Z * Z :=
  let en := if (0 <=? st) && (en <? 0) then size + en else en in
  let st := if (st <? 0) && (0 <=? en) then size + st else st in
  let '(st, en) := if (st <? 0) && (en <? 0) then (size + st, size + en) else (st, en) in
  let st := if st <? 0 then 0 else st in
  let en := if size <=? en then size - 1 else en in
  (st, en).

(** Go slice l[a:b] for 0 <= a <= b <= len *)
Definition zslice {A} (l : list A) (a b : Z) : list A :=
  firstn (Z.to_nat (b - a)) (skipn (Z.to_nat a) l).

Definition lrange_list (l : list bytes) (st en : Z) : lres (list bytes) :=
  let '(s, e) := lrange_norm (zlen l) st en in
  if e <? s then LErr else LOk (zslice l s (e + 1)).

Definition l_lrange (m : lmap) (k : bytes) (st en : Z) : lres (list bytes) :=
  match alookup m k with
  | Some l => lrange_list l st en
  | None => LErr
  end.

(** the counting loop of LRemNum: stops counting once [c] > 0 matches were seen *)
Definition count_upto (l : list bytes) (c : Z) (v : bytes) : Z :=
  fold_left (fun r x => if (0 <? c) && (r =? c) then r
                        else if bytes_eqb x v then r + 1 else r) l 0.

(** List.LRemNum (after fix 27699f1) *)
Definition lremnum_list (l : list bytes) (count : Z) (v : bytes) : lres Z :=
  let size := zlen l in
  if size <? count then LErr
  else
    let c := if count <? - size then - size else count in
    let c := if c <? 0 then - c else c in
    LOk (count_upto l c v).

Definition l_lremnum (m : lmap) (k : bytes) (count : Z) (v : bytes) : lres Z :=
  match alookup m k with Some l => lremnum_list l count v | None => LErr end.

(** remove the first [n] elements equal to [v], scanning from the head *)
Fixpoint remove_first (n : nat) (v : bytes) (l : list bytes) : list bytes :=
  match l with
  | [] => []
  | x :: r =>
      match n with
      | O => l
      | S n' => if bytes_eqb x v then remove_first n' v r else x :: remove_first n v r
      end
  end.

(** List.LRem *)
Definition lrem_list (l : list bytes) (count : Z) (v : bytes) : list bytes * lres Z :=
  let size := zlen l in
  let count := if count <? - size then - size else count in
  match lremnum_list l count v with
  | LErr => (l, LErr)
  | LOk need =>
      if need =? 0 then (l, LOk 0)
      else
        let count := if count =? 0 then need else count in
        if 0 <? count then (remove_first (Z.to_nat count) v l, LOk need)
        else (rev (remove_first (Z.to_nat (- count)) v (rev l)), LOk need)
  end.

Definition l_lrem (m : lmap) (k : bytes) (count : Z) (v : bytes) : lmap * lres Z :=
  match alookup m k with
  | Some l => let '(l', r) := lrem_list l count v in
              (match r with LOk n => if n =? 0 then m else aset m k l' | LErr => m end, r)
  | None => (m, LErr)
  end.

Fixpoint set_nth (l : list bytes) (i : nat) (v : bytes) : list bytes :=
  match l, i with
  | [], _ => []
  | _ :: r, O => v :: r
  | x :: r, S i' => x :: set_nth r i' v
  end.

Definition l_lset (m : lmap) (k : bytes) (i : Z) (v : bytes) : lmap * bool :=
  match alookup m k with
  | Some l => if (zlen l <=? i) || (i <? 0) then (m, false)
              else (aset m k (set_nth l (Z.to_nat i) v), true)
  | None => (m, false)
  end.

Definition l_ltrim (m : lmap) (k : bytes) (st en : Z) : lmap * bool :=
  match alookup m k with
  | Some l => match lrange_list l st en with
              | LOk l' => (aset m k l', true)
              | LErr => (m, false)
              end
  | None => (m, false)
  end.
