(** Codec.v — on-disk record formats.
    Models entry.go (Entry.Encode/Size/IsZero/GetCrc), datafile.go
    (DataFile.ReadAt, readMetaData), rwmanger_fileio.go / rwmanger_mmap.go
    (ReadAt semantics), bptree_root_idx.go (Encode, ReadBPTreeRootIdxAt),
    bucket_meta.go (Encode, ReadBucketMeta). *)
From Verif Require Export Bytes Crc32.
Open Scope N_scope.

Inductive rwmode := FileIO | MMap.

(** A data entry.  Sizes are not stored: they are the lengths of the byte
    strings, as in every Entry the library constructs (Tx.put). *)
Record entry := mkEntry {
  e_bucket : bytes;
  e_key    : bytes;
  e_value  : bytes;
  e_ts     : N;   (* uint64 *)
  e_ttl    : N;   (* uint32 *)
  e_flag   : N;   (* uint16 *)
  e_status : N;   (* uint16 *)
  e_ds     : N;   (* uint16 *)
  e_txid   : N    (* uint64 *)
}.

Definition hdr_size : N := 42.

Definition entry_size (e : entry) : N :=
  hdr_size + blen (e_key e) + blen (e_value e) + blen (e_bucket e).

(** bytes 4..42 of the header (setEntryHeaderBuf) *)
Definition entry_hdr_tail (e : entry) : bytes :=
  le_enc 8 (e_ts e) ++ le_enc 4 (blen (e_key e)) ++ le_enc 4 (blen (e_value e)) ++
  le_enc 2 (e_flag e) ++ le_enc 4 (e_ttl e) ++ le_enc 4 (blen (e_bucket e)) ++
  le_enc 2 (e_status e) ++ le_enc 2 (e_ds e) ++ le_enc 8 (e_txid e).

Definition entry_body (e : entry) : bytes :=
  entry_hdr_tail e ++ e_bucket e ++ e_key e ++ e_value e.

(** Entry.Encode *)
Definition encode_entry (e : entry) : bytes :=
  le_enc 4 (crc32 (entry_body e)) ++ entry_body e.

(** Outcome of a ReadAt of [n] bytes at [off] on a file with content [c].
    FileIO: os.File.ReadAt — io.EOF when fewer than n bytes are available
    (n = 0 succeeds at any offset).  MMap (after fix a72e8ce): error when
    off > len, io.EOF on a short read, otherwise the bytes. *)
Inductive read_res := RdOk (b : bytes) | RdEOF | RdOOB.

Definition read_at (m : rwmode) (c : bytes) (off n : N) : read_res :=
  let len := blen c in
  match m with
  | FileIO =>
      if n =? 0 then RdOk []
      else if off + n <=? len then RdOk (slice c (N.to_nat off) (N.to_nat n))
      else RdEOF
  | MMap =>
      if len <? off then RdOOB
      else if off + n <=? len then RdOk (slice c (N.to_nat off) (N.to_nat n))
      else RdEOF
  end.

Inductive dec_err := EEOF | EOOB | ECrc.
Inductive dec_res := DecOk (e : entry) (crc : N) | DecAbsent | DecErr (k : dec_err).

Definition rd_err (r : read_res) : dec_err :=
  match r with RdEOF => EEOF | _ => EOOB end.

Definition fld (h : bytes) (a n : nat) : N := le_dec (slice h a n).

(** DataFile.ReadAt *)
Definition decode_at (m : rwmode) (c : bytes) (off : N) : dec_res :=
  match read_at m c off hdr_size with
  | RdOk h =>
      let crc := fld h 0 4 in
      let ts := fld h 4 8 in
      let ksz := fld h 12 4 in
      let vsz := fld h 16 4 in
      let flag := fld h 20 2 in
      let ttl := fld h 22 4 in
      let bsz := fld h 26 4 in
      let status := fld h 30 2 in
      let ds := fld h 32 2 in
      let txid := fld h 34 8 in
      if (crc =? 0) && (ksz =? 0) && (vsz =? 0) && (ts =? 0) then DecAbsent
      else
        match read_at m c (off + hdr_size) bsz with
        | RdOk b =>
          match read_at m c (off + hdr_size + bsz) ksz with
          | RdOk k =>
            match read_at m c (off + hdr_size + bsz + ksz) vsz with
            | RdOk v =>
                let crc' := crc_update (crc_update (crc_update (crc32 (skipn 4 h)) b) k) v in
                if crc' =? crc
                then DecOk (mkEntry b k v ts ttl flag status ds txid) crc
                else DecErr ECrc
            | r => DecErr (rd_err r)
            end
          | r => DecErr (rd_err r)
          end
        | r => DecErr (rd_err r)
        end
  | r => DecErr (rd_err r)
  end.

(** well-formed field widths: what the Go types can hold *)
Definition wf_entry (e : entry) : Prop :=
  e_ts e < 2^64 /\ e_ttl e < 2^32 /\ e_flag e < 2^16 /\ e_status e < 2^16 /\
  e_ds e < 2^16 /\ e_txid e < 2^64 /\
  blen (e_key e) < 2^32 /\ blen (e_value e) < 2^32 /\ blen (e_bucket e) < 2^32.

Definition wf_entryb (e : entry) : bool :=
  (e_ts e <? 2^64) && (e_ttl e <? 2^32) && (e_flag e <? 2^16) && (e_status e <? 2^16) &&
  (e_ds e <? 2^16) && (e_txid e <? 2^64) &&
  (blen (e_key e) <? 2^32) && (blen (e_value e) <? 2^32) && (blen (e_bucket e) <? 2^32).

(** the IsZero shortcut: such a record reads back as "absent" *)
Definition is_zero_entry (e : entry) : bool :=
  (crc32 (entry_body e) =? 0) && (blen (e_key e) =? 0) && (blen (e_value e) =? 0) && (e_ts e =? 0).

(** ---- sparse-mode root index record (bptree_root_idx.go) ---- *)
Record rootidx := mkRootIdx { ri_fid : N; ri_rootoff : N; ri_start : bytes; ri_end : bytes }.

Definition ri_hdr_size : N := 28.
Definition rootidx_size (r : rootidx) : N := ri_hdr_size + blen (ri_start r) + blen (ri_end r).
Definition rootidx_body (r : rootidx) : bytes :=
  le_enc 8 (ri_fid r) ++ le_enc 8 (ri_rootoff r) ++ le_enc 4 (blen (ri_start r)) ++
  le_enc 4 (blen (ri_end r)) ++ ri_start r ++ ri_end r.
Definition encode_rootidx (r : rootidx) : bytes :=
  le_enc 4 (crc32 (rootidx_body r)) ++ rootidx_body r.

Inductive ri_res := RiOk (r : rootidx) | RiAbsent | RiErr (k : dec_err).

(** ReadBPTreeRootIdxAt (always os.File.ReadAt = FileIO semantics).
    Note: IsZero is evaluated before the crc field is loaded, i.e. with
    crc = 0 (the code sets bri.crc only afterwards). *)
Definition decode_rootidx_at (c : bytes) (off : N) : ri_res :=
  match read_at FileIO c off ri_hdr_size with
  | RdOk h =>
      let crc := fld h 0 4 in
      let fid := fld h 4 8 in
      let ro := fld h 12 8 in
      let ssz := fld h 20 4 in
      let esz := fld h 24 4 in
      if (ro =? 0) && (fid =? 0) && (ssz =? 0) && (esz =? 0) then RiAbsent
      else
        match read_at FileIO c (off + ri_hdr_size) ssz with
        | RdOk s =>
          match read_at FileIO c (off + ri_hdr_size + ssz) esz with
          | RdOk e =>
              let crc' := crc_update (crc_update (crc32 (skipn 4 h)) s) e in
              if crc' =? crc then RiOk (mkRootIdx fid ro s e) else RiErr ECrc
          | r => RiErr (rd_err r)
          end
        | r => RiErr (rd_err r)
        end
  | r => RiErr (rd_err r)
  end.

Definition wf_rootidx (r : rootidx) : Prop :=
  ri_fid r < 2^64 /\ ri_rootoff r < 2^64 /\ blen (ri_start r) < 2^32 /\ blen (ri_end r) < 2^32.

(** ---- bucket meta record (bucket_meta.go) ---- *)
Record bucketmeta := mkBucketMeta { bm_start : bytes; bm_end : bytes }.

Definition bm_hdr_size : N := 12.
Definition bucketmeta_body (b : bucketmeta) : bytes :=
  le_enc 4 (blen (bm_start b)) ++ le_enc 4 (blen (bm_end b)) ++ bm_start b ++ bm_end b.
Definition encode_bucketmeta (b : bucketmeta) : bytes :=
  le_enc 4 (crc32 (bucketmeta_body b)) ++ bucketmeta_body b.

Inductive bm_res := BmOk (b : bucketmeta) | BmErr (k : dec_err).

(** ReadBucketMeta (reads at offset 0 of its own file) *)
Definition decode_bucketmeta (c : bytes) : bm_res :=
  match read_at FileIO c 0 bm_hdr_size with
  | RdOk h =>
      let crc := fld h 0 4 in
      let ssz := fld h 4 4 in
      let esz := fld h 8 4 in
      match read_at FileIO c bm_hdr_size ssz with
      | RdOk s =>
        match read_at FileIO c (bm_hdr_size + ssz) esz with
        | RdOk e =>
            let crc' := crc_update (crc_update (crc32 (skipn 4 h)) s) e in
            if crc' =? crc then BmOk (mkBucketMeta s e) else BmErr ECrc
        | r => BmErr (rd_err r)
        end
      | r => BmErr (rd_err r)
      end
  | r => BmErr (rd_err r)
  end.

Definition wf_bucketmeta (b : bucketmeta) : Prop :=
  blen (bm_start b) < 2^32 /\ blen (bm_end b) < 2^32.
