(** PowerLoss.v — C11 for the engine model: the event trace of one Commit, what
    a power loss leaves on stable storage at every cut point of that trace,
    and what Open rebuilds from it.

    1. [commit_trace w t]: the concrete events (record writes with file id and
       offset, syncs, segment creations at rotation) that [do_commit None w t]
       issues, derived from the [written] list of [commit_loop].
    2. [apply_durable] / [apply_volatile]: stable storage / page cache after a
       prefix of the trace.
    3. [commit_trace_synced]: with SyncEnable every write is followed at once
       by the sync of its file; the trace maps onto the abstract traces of
       Trace.v ([commit_trace_abstract_synced], [power_loss_abstract]).
    4. [power_loss_prefix]: the durable directory at every cut point is the
       directory after the first k records of the transaction — or that
       directory plus the (empty) segment just created by a rotation, the case
       the naive statement misses ([rotation_cut_is_no_prefix_disk]).
    5. [power_loss_recovers*]: Open of the BYTES of the durable directory (any
       non-decoding tail in one file) yields the pre-transaction indexes while
       the trace is incomplete and the post-commit indexes once it is complete. *)
From Verif Require Import Bytes BytesFacts Crc32 CrcFacts Codec CodecFacts Scan ScanFacts.
From Verif Require Import Dec ListDS SetDS ZSetDS Index Engine TxFacts DecFacts ReplayFacts Merge MergeFacts.
From Verif Require Import DiskBytes Trace TraceFacts.
From Coq Require Import Lia ZifyN ZifyNat ZifyBool.
Open Scope N_scope.

Local Opaque crc32 encode_entry.

(** ------------------------------------------------------------------ *)
(** * 1. The event trace of one Commit                                   *)
(** ------------------------------------------------------------------ *)
Inductive pev :=
| PWrite (fid off : N) (e : entry)     (* WriteAt of one record *)
| PSync (fid : N)                      (* Sync of a data file *)
| PCreate (fid : N).                   (* creation of a new segment (rotation) *)

(** the events of one iteration of the write loop: [cur] is the active file
    before the iteration; the record went to file [f] at offset [pos]; when
    [f] is not [cur] the loop rotated first *)
Definition write_events (sync : bool) (cur : N) (r : N * N * entry) : list pev :=
  (if fst (fst r) =? cur then [] else [PCreate (fst (fst r))]) ++
  PWrite (fst (fst r)) (snd (fst r)) (snd r) :: (if sync then [PSync (fst (fst r))] else []).

Fixpoint trace_of (sync : bool) (cur : N) (ws : list (N * N * entry)) : list pev :=
  match ws with
  | [] => []
  | r :: rest => write_events sync cur r ++ trace_of sync (fst (fst r)) rest
  end.

Definition st_of (w : world) : cstate := mkC (w_disk w) (w_maxfid w) (w_woff w) (w_asize w).

(** what [do_commit None w t] issues: nothing for an empty or a rejected
    transaction, otherwise the events of the records [commit_loop] reports *)
Definition commit_trace (w : world) (t : txstate) : list pev :=
  match tx_pend t with
  | [] => []
  | pend =>
      let seg := o_seg (w_opts w) in
      if existsb (fun e => seg <? entry_size e) pend then []
      else trace_of (o_sync (w_opts w)) (w_maxfid w) (snd (commit_loop seg true (st_of w) pend))
  end.

(** ------------------------------------------------------------------ *)
(** * 2. Stable storage and page cache after a trace                     *)
(** ------------------------------------------------------------------ *)
Definition rec_fid (r : N * N * entry) : N := fst (fst r).

(** the pending writes of file [f] reach the disk, in order *)
Definition flush (f : N) (d : disk) (pending : list (N * N * entry)) : disk :=
  fold_left (fun d r => if rec_fid r =? f then disk_append d f (snd (fst r)) (snd r) else d) pending d.

(** [pending]: the writes not yet covered by a sync of their file.  A write
    becomes durable at the next sync of its file; a creation is durable at
    once (the property assumes the directory entry survives). *)
Fixpoint apply_dur (d : disk) (pending : list (N * N * entry)) (tr : list pev) : disk :=
  match tr with
  | [] => d
  | PWrite f off e :: r => apply_dur d (pending ++ [(f, off, e)]) r
  | PSync f :: r => apply_dur (flush f d pending) (filter (fun x => negb (rec_fid x =? f)) pending) r
  | PCreate f :: r => apply_dur (disk_create d f) pending r
  end.

Definition apply_durable (d : disk) (tr : list pev) : disk := apply_dur d [] tr.

Definition apply_ev (d : disk) (ev : pev) : disk :=
  match ev with
  | PWrite f off e => disk_append d f off e
  | PSync _ => d
  | PCreate f => disk_create d f
  end.

Definition apply_volatile (d : disk) (tr : list pev) : disk := fold_left apply_ev tr d.

(** ------------------------------------------------------------------ *)
(** * 3. With SyncEnable the trace alternates write / sync               *)
(** ------------------------------------------------------------------ *)
(** [Trace.synced_writes] over the concrete events (creations are neutral) *)
Fixpoint psynced (tr : list pev) : Prop :=
  match tr with
  | [] => True
  | PWrite f _ _ :: PSync g :: t => f = g /\ psynced t
  | PWrite _ _ _ :: _ => False
  | PSync _ :: t => psynced t
  | PCreate _ :: t => psynced t
  end.

Lemma trace_of_psynced : forall ws cur, psynced (trace_of true cur ws).
Proof.
  induction ws as [|r rest IH]; intros cur; [exact I|].
  cbn [trace_of]. unfold write_events.
  destruct (fst (fst r) =? cur); cbn [app psynced].
  - split; [reflexivity|apply IH].
  - split; [reflexivity|apply IH].
Qed.

(** (3) the Commit of the engine model, run with SyncEnable, syncs the data
    file after every record write *)
Theorem commit_trace_synced : forall w t,
  o_sync (w_opts w) = true -> psynced (commit_trace w t).
Proof.
  intros w t Hs. unfold commit_trace.
  destruct (tx_pend t) as [|e0 rest]; [exact I|]. cbv zeta.
  destruct (existsb _ (e0 :: rest)); [exact I|].
  rewrite Hs. apply trace_of_psynced.
Qed.

(** the abstract trace (Trace.v): file ids as naturals, the records numbered
    in write order, creations dropped *)
Fixpoint to_ev (i : nat) (tr : list pev) : list ev :=
  match tr with
  | [] => []
  | PWrite f _ _ :: r => EWrite (N.to_nat f) i :: to_ev (S i) r
  | PSync f :: r => ESync (N.to_nat f) :: to_ev i r
  | PCreate _ :: r => to_ev i r
  end.

Fixpoint numbered (i : nat) (ws : list (N * N * entry)) : list (nat * nat) :=
  match ws with [] => [] | r :: rest => (N.to_nat (fst (fst r)), i) :: numbered (S i) rest end.

Lemma to_ev_trace_of : forall sync ws cur i,
  to_ev i (trace_of sync cur ws) = commit_events sync (numbered i ws).
Proof.
  intros sync. induction ws as [|r rest IH]; intros cur i; [reflexivity|].
  cbn [trace_of numbered]. unfold write_events, commit_events. cbn [flat_map fst snd].
  fold (commit_events sync (numbered (S i) rest)). rewrite <- (IH (fst (fst r)) (S i)).
  destruct (fst (fst r) =? cur); destruct sync; reflexivity.
Qed.

(** the trace of Commit IS the abstract trace [Trace.commit_events] of the
    records the write loop reports *)
Theorem commit_trace_abstract : forall w t,
  tx_pend t <> [] ->
  existsb (fun e => o_seg (w_opts w) <? entry_size e) (tx_pend t) = false ->
  to_ev 0 (commit_trace w t) =
  commit_events (o_sync (w_opts w))
    (numbered 0 (snd (commit_loop (o_seg (w_opts w)) true (st_of w) (tx_pend t)))).
Proof.
  intros w t Hne Hex. unfold commit_trace.
  destruct (tx_pend t) as [|e0 rest]; [congruence|]. cbv zeta. rewrite Hex.
  apply to_ev_trace_of.
Qed.

Lemma psynced_to_ev_trace_of : forall ws cur i, synced_writes (to_ev i (trace_of true cur ws)).
Proof. intros ws cur i. rewrite to_ev_trace_of. apply commit_events_synced. Qed.

Theorem commit_trace_abstract_synced : forall w t,
  o_sync (w_opts w) = true -> synced_writes (to_ev 0 (commit_trace w t)).
Proof.
  intros w t Hs. unfold commit_trace.
  destruct (tx_pend t) as [|e0 rest]; [exact I|]. cbv zeta.
  destruct (existsb _ (e0 :: rest)); [exact I|].
  rewrite Hs. apply psynced_to_ev_trace_of.
Qed.

(** a cut of the concrete trace is a cut of the abstract one *)
Lemma to_ev_firstn : forall tr i j, exists j', to_ev i (firstn j tr) = firstn j' (to_ev i tr).
Proof.
  induction tr as [|ev tr IH]; intros i j.
  - exists 0%nat. destruct j; reflexivity.
  - destruct j as [|j]; [exists 0%nat; reflexivity|].
    cbn [firstn]. destruct ev as [f off e|f|f]; cbn [to_ev].
    + destruct (IH (S i) j) as [j' Hj]. exists (S j'). cbn [firstn]. rewrite Hj. reflexivity.
    + destruct (IH i j) as [j' Hj]. exists (S j'). cbn [firstn]. rewrite Hj. reflexivity.
    + exact (IH i j).
Qed.

(** hence the abstract theorem of TraceFacts applies at every cut point of the
    engine's Commit: each file's durable record list is its volatile one minus
    at most the record whose write was in flight *)
Theorem power_loss_abstract : forall w t j f,
  o_sync (w_opts w) = true ->
  let tr := to_ev 0 (firstn j (commit_trace w t)) in
  dur tr f = vol tr f \/
  exists p g r, tr = p ++ [EWrite g r] /\ synced_writes p /\
                vol tr f = dur tr f ++ (if Nat.eqb g f then [r] else []).
Proof.
  intros w t j f Hs tr. unfold tr.
  destruct (to_ev_firstn (commit_trace w t) 0 j) as [j' Hj]. rewrite Hj.
  apply power_loss_loses_at_most_inflight_write. apply commit_trace_abstract_synced. exact Hs.
Qed.

(** ------------------------------------------------------------------ *)
(** * 4. The durable directory at a cut point                            *)
(** ------------------------------------------------------------------ *)
Definition isnil {A} (l : list A) : bool := match l with [] => true | _ => false end.

Lemma commit_loop_cons : forall seg mark st e rest,
  commit_loop seg mark st (e :: rest) =
  (fst (commit_loop seg mark (fst (commit_write seg st e (mark && isnil rest))) rest),
   snd (commit_write seg st e (mark && isnil rest)) ::
   snd (commit_loop seg mark (fst (commit_write seg st e (mark && isnil rest))) rest)).
Proof.
  intros seg mark st e rest. unfold isnil. cbn [commit_loop].
  destruct (commit_write seg st e _) as [st1 r].
  cbn [fst snd]. destruct (commit_loop seg mark st1 rest) as [st2 rs]. reflexivity.
Qed.

(** where one iteration of the loop writes, and what it does to the disk *)
Lemma commit_write_shape : forall seg st e last,
  let st1 := fst (commit_write seg st e last) in
  let r := snd (commit_write seg st e last) in
  let rot := seg <? c_asize st + entry_size e in
  fst (fst r) = c_maxfid st1 /\
  fst (fst r) = (if rot then c_maxfid st + 1 else c_maxfid st) /\
  c_disk st1 = disk_append (if rot then disk_create (c_disk st) (c_maxfid st + 1) else c_disk st)
                           (fst (fst r)) (snd (fst r)) (snd r).
Proof.
  intros seg st e last. rewrite commit_write_eq. cbv zeta. cbn [fst snd c_disk c_maxfid].
  unfold rotate. destruct (seg <? c_asize st + entry_size e); cbn [c_disk c_maxfid c_woff].
  - split; [reflexivity|]. split; reflexivity.
  - split; [reflexivity|]. split; reflexivity.
Qed.

Local Opaque commit_write.

(** the events of one iteration, run to the end on stable storage *)
Lemma apply_dur_group : forall d cur r rest,
  apply_dur d [] (write_events true cur r ++ rest) =
  apply_dur (disk_append (if rec_fid r =? cur then d else disk_create d (rec_fid r))
                         (rec_fid r) (snd (fst r)) (snd r)) [] rest.
Proof.
  intros d cur [[f pos] e] rest. unfold write_events, rec_fid. cbn [fst snd].
  destruct (f =? cur); cbn [app apply_dur flush fold_left filter rec_fid fst snd];
    rewrite N.eqb_refl; cbn [negb]; reflexivity.
Qed.

(** ... and cut short: nothing yet, or only the creation of the new segment *)
Lemma apply_dur_group_cut : forall d cur r j,
  (j < length (write_events true cur r))%nat ->
  apply_dur d [] (firstn j (write_events true cur r)) = d \/
  ((rec_fid r =? cur) = false /\
   apply_dur d [] (firstn j (write_events true cur r)) = disk_create d (rec_fid r)).
Proof.
  intros d cur [[f pos] e] j. unfold write_events, rec_fid. cbn [fst snd].
  destruct (f =? cur); cbn [app length]; intros Hj.
  - destruct j as [|[|j]]; [left; reflexivity|left; reflexivity|lia].
  - destruct j as [|[|[|j]]]; [left; reflexivity|right; split; reflexivity|right; split; reflexivity|lia].
Qed.

Lemma length_write_events : forall sync cur r, (1 <= length (write_events sync cur r))%nat.
Proof.
  intros sync cur r. unfold write_events. rewrite app_length. cbn [length]. lia.
Qed.

(** the general form of (4), for the write loop started in any state *)
Lemma durable_prefix_gen : forall pend seg st j,
  let tr := trace_of true (c_maxfid st) (snd (commit_loop seg true st pend)) in
  let D := apply_dur (c_disk st) [] (firstn j tr) in
  exists k, (k <= length pend)%nat /\
    ((k < length pend)%nat ->
       let stk := fst (commit_loop seg false st (firstn k pend)) in
       D = c_disk stk \/
       (D = disk_create (c_disk stk) (c_maxfid stk + 1) /\
        exists e, nth_error pend k = Some e /\ (seg <? c_asize stk + entry_size e) = true)) /\
    (k = length pend -> D = c_disk (fst (commit_loop seg true st pend))) /\
    ((length tr <= j)%nat <-> k = length pend).
Proof.
  induction pend as [|e rest IH]; intros seg st j tr D.
  - exists 0%nat. subst tr D. cbn [commit_loop snd trace_of length]. rewrite firstn_nil.
    split; [lia|]. split; [intros H; cbn [length] in H; lia|]. split; [reflexivity|]. split; intros; lia.
  - subst tr D. rewrite commit_loop_cons. cbn [fst snd trace_of andb].
    set (st1 := fst (commit_write seg st e (isnil rest))).
    set (r := snd (commit_write seg st e (isnil rest))).
    destruct (commit_write_shape seg st e (isnil rest)) as (Hf & Hrot & Hd).
    fold st1 in Hf, Hd. fold r in Hf, Hrot, Hd.
    set (g := write_events true (c_maxfid st) r).
    rewrite Hf.
    set (tr1 := trace_of true (c_maxfid st1) (snd (commit_loop seg true st1 rest))).
    rewrite firstn_app, app_length.
    destruct (Nat.ltb j (length g)) eqn:Ej.
    + (* the cut falls inside the first iteration: k = 0 *)
      apply Nat.ltb_lt in Ej. replace (j - length g)%nat with 0%nat by lia.
      cbn [firstn]. rewrite app_nil_r. exists 0%nat. cbn [firstn commit_loop fst length].
      split; [lia|]. split; [|split; [intros H; lia|split; intros; lia]].
      intros _. destruct (apply_dur_group_cut (c_disk st) (c_maxfid st) r j Ej) as [H|[Hne H]]; fold g in H.
      * left. exact H.
      * right. unfold rec_fid in Hne, H. split.
        { rewrite H. f_equal. rewrite Hrot.
          destruct (seg <? c_asize st + entry_size e) eqn:Er; [reflexivity|].
          rewrite Hrot, N.eqb_refl in Hne. discriminate Hne. }
        exists e. cbn [nth_error]. split; [reflexivity|].
        destruct (seg <? c_asize st + entry_size e) eqn:Er; [reflexivity|].
        rewrite Hrot, N.eqb_refl in Hne. discriminate Hne.
    + (* the first record is durable: the rest of the loop, from [st1] *)
      apply Nat.ltb_ge in Ej. rewrite firstn_all2 by exact Ej.
      unfold g. rewrite apply_dur_group. fold g. unfold rec_fid.
      assert (Hd1 : disk_append (if fst (fst r) =? c_maxfid st then c_disk st
                                 else disk_create (c_disk st) (fst (fst r)))
                                (fst (fst r)) (snd (fst r)) (snd r) = c_disk st1).
      { rewrite Hd. f_equal. rewrite Hrot.
        destruct (seg <? c_asize st + entry_size e).
        - replace (c_maxfid st + 1 =? c_maxfid st) with false by lia. reflexivity.
        - rewrite N.eqb_refl. reflexivity. }
      rewrite Hd1.
      destruct (IH seg st1 (j - length g)%nat) as (k & Hk & Hlt & Heq & Hlen).
      exists (S k). cbn [length]. split; [lia|]. split; [|split].
      * intros HSk. assert (Hk' : (k < length rest)%nat) by lia.
        assert (Hnn : isnil rest = false).
        { destruct rest; [cbn [length] in Hk'; lia|reflexivity]. }
        cbn [firstn nth_error]. rewrite commit_loop_cons. cbn [andb fst].
        assert (Est : fst (commit_write seg st e false) = st1).
        { unfold st1. rewrite Hnn. reflexivity. }
        rewrite Est. exact (Hlt Hk').
      * intros HSk. apply Heq. lia.
      * pose proof (length_write_events true (c_maxfid st) r) as Hg. fold g in Hg.
        fold tr1 in Hlen.
        split; intros H.
        { f_equal. apply Hlen. lia. }
        { assert (Hk' : k = length rest) by lia. apply Hlen in Hk'. lia. }
Qed.

(** (4) MAIN THEOREM.  Commit with SyncEnable, every record fitting a segment
    (so that Commit succeeds).  At every cut point [j] of the trace the durable
    directory is, for some [k <= n]:
    - [k < n]: the directory after the first [k] records of the transaction
      (the directories [crash_prefix_invisible] quantifies over), or that
      directory plus the still empty segment [maxfid + 1] when record [k] does
      not fit the active file and the cut falls between the creation of the
      new segment and the sync of the first write into it;
    - [k = n]: the directory of the world Commit returns (the directory of
      [crash_complete_visible]);
    and [k = n] exactly when the trace is complete. *)
Theorem power_loss_prefix : forall w t j,
  o_sync (w_opts w) = true ->
  existsb (fun e => o_seg (w_opts w) <? entry_size e) (tx_pend t) = false ->
  let seg := o_seg (w_opts w) in
  let n := length (tx_pend t) in
  let tr := commit_trace w t in
  let D := apply_durable (w_disk w) (firstn j tr) in
  snd (do_commit None w t) = true /\
  exists k, (k <= n)%nat /\
    ((k < n)%nat ->
       let stk := fst (commit_loop seg false (st_of w) (firstn k (tx_pend t))) in
       D = c_disk stk \/
       (D = disk_create (c_disk stk) (c_maxfid stk + 1) /\
        exists e, nth_error (tx_pend t) k = Some e /\ (seg <? c_asize stk + entry_size e) = true)) /\
    (k = n -> D = w_disk (fst (do_commit None w t))) /\
    ((length tr <= j)%nat <-> k = n).
Proof.
  intros w t j Hs Hex seg n tr D. subst seg n tr D.
  unfold commit_trace, do_commit, apply_durable.
  destruct (tx_pend t) as [|e0 rest] eqn:Ep.
  - split; [reflexivity|]. exists 0%nat. rewrite firstn_nil. cbn [length fst snd apply_dur set_tx_done w_disk].
    split; [lia|]. split; [intros H; lia|]. split; [reflexivity|]. split; intros; lia.
  - cbv zeta. rewrite Hex, Hs.
    pose proof (durable_prefix_gen (e0 :: rest) (o_seg (w_opts w)) (st_of w) j) as H.
    cbv zeta in H. change (c_maxfid (st_of w)) with (w_maxfid w) in H.
    change (c_disk (st_of w)) with (w_disk w) in H.
    change (mkC (w_disk w) (w_maxfid w) (w_woff w) (w_asize w)) with (st_of w).
    destruct (commit_loop (o_seg (w_opts w)) true (st_of w) (e0 :: rest)) as [st' ws].
    cbn [fst snd set_disk w_disk] in *. split; [reflexivity|exact H].
Qed.

(** the post-commit directory is durable once Commit has returned, and not
    before *)
Corollary power_loss_complete : forall w t j,
  o_sync (w_opts w) = true ->
  existsb (fun e => o_seg (w_opts w) <? entry_size e) (tx_pend t) = false ->
  (length (commit_trace w t) <= j)%nat ->
  apply_durable (w_disk w) (firstn j (commit_trace w t)) = w_disk (fst (do_commit None w t)).
Proof.
  intros w t j Hs Hex Hj.
  destruct (power_loss_prefix w t j Hs Hex) as (_ & k & _ & _ & Heq & Hlen).
  cbv zeta in *. apply Heq. apply Hlen. exact Hj.
Qed.

(** ---- the page cache ---- *)
Lemma psynced_ind2 : forall (P : list pev -> Prop),
  P [] ->
  (forall g t, psynced t -> P t -> P (PSync g :: t)) ->
  (forall g t, psynced t -> P t -> P (PCreate g :: t)) ->
  (forall f off e t, psynced t -> P t -> P (PWrite f off e :: PSync f :: t)) ->
  forall tr, psynced tr -> P tr.
Proof.
  intros P Hnil Hsync Hcreate Hwrite.
  assert (Hn : forall n tr, (length tr <= n)%nat -> psynced tr -> P tr).
  { induction n as [|n IHn]; intros tr Hlen Hsw.
    - destruct tr as [|ev t]; [exact Hnil|cbn [length] in Hlen; lia].
    - destruct tr as [|ev t]; [exact Hnil|].
      destruct ev as [f off e|g|g].
      + destruct t as [|ev' t']; [cbn [psynced] in Hsw; contradiction|].
        destruct ev' as [f' off' e'|g'|g']; cbn [psynced] in Hsw; try contradiction.
        destruct Hsw as [Heq Hsw]. subst g'. apply Hwrite; [exact Hsw|].
        apply IHn; [cbn [length] in Hlen; lia|exact Hsw].
      + cbn [psynced] in Hsw. apply Hsync; [exact Hsw|]. apply IHn; [cbn [length] in Hlen; lia|exact Hsw].
      + cbn [psynced] in Hsw. apply Hcreate; [exact Hsw|]. apply IHn; [cbn [length] in Hlen; lia|exact Hsw]. }
  intros tr Hsw. apply (Hn (length tr) tr); [lia|exact Hsw].
Qed.

(** on a trace that syncs after every write the page cache is never more than
    one event ahead of stable storage *)
Lemma volatile_durable_gap : forall tr, psynced tr -> forall d j,
  apply_volatile d (firstn j tr) = apply_durable d (firstn j tr) \/
  apply_volatile d (firstn j tr) = apply_durable d (firstn (S j) tr).
Proof.
  intros tr Hsw. unfold apply_volatile, apply_durable.
  induction Hsw as [|g t Hsw IH|g t Hsw IH|f off e t Hsw IH] using psynced_ind2; intros d j.
  - left. rewrite firstn_nil. reflexivity.
  - destruct j as [|j]; [left; reflexivity|].
    cbn [firstn fold_left apply_ev apply_dur flush filter]. exact (IH d j).
  - destruct j as [|j]; [left; reflexivity|].
    cbn [firstn fold_left apply_ev apply_dur]. exact (IH (disk_create d g) j).
  - destruct j as [|[|j]]; [left; reflexivity| |].
    + right. cbn [firstn fold_left apply_ev apply_dur app flush filter rec_fid fst snd].
      rewrite N.eqb_refl. reflexivity.
    + cbn [firstn fold_left apply_ev apply_dur app flush filter rec_fid fst snd].
      rewrite N.eqb_refl. cbn [negb]. exact (IH (disk_append d f off e) j).
Qed.

(** hence what the page cache holds at a cut point of Commit is the durable
    directory of that cut point or of the next one: a power loss that happens
    to keep unsynced content leaves a directory [power_loss_prefix] describes *)
Theorem power_loss_volatile : forall w t j,
  o_sync (w_opts w) = true ->
  apply_volatile (w_disk w) (firstn j (commit_trace w t)) =
    apply_durable (w_disk w) (firstn j (commit_trace w t)) \/
  apply_volatile (w_disk w) (firstn j (commit_trace w t)) =
    apply_durable (w_disk w) (firstn (S j) (commit_trace w t)).
Proof.
  intros w t j Hs. apply volatile_durable_gap. apply commit_trace_synced. exact Hs.
Qed.

(** the whole trace, replayed on the page cache, is the disk Commit returns *)
Corollary commit_trace_volatile : forall w t,
  o_sync (w_opts w) = true ->
  existsb (fun e => o_seg (w_opts w) <? entry_size e) (tx_pend t) = false ->
  apply_volatile (w_disk w) (commit_trace w t) = w_disk (fst (do_commit None w t)).
Proof.
  intros w t Hs Hex.
  pose proof (power_loss_volatile w t (length (commit_trace w t)) Hs) as H.
  rewrite firstn_all in H.
  rewrite (firstn_all2 (n := S (length (commit_trace w t)))) in H by lia.
  rewrite <- (firstn_all (commit_trace w t)) in H at 2 4.
  rewrite (power_loss_complete w t _ Hs Hex (le_n _)) in H. destruct H as [H|H]; exact H.
Qed.

(** ---- the statement without the rotation case is false ---- *)
(** segment size 50, SyncEnable; one committed 45-byte record fills the active
    file 0, a second transaction holds one more 45-byte record: its Commit
    rotates to file 1 *)
Definition pl_o : opts := mkOpts 0 FileIO FileIO true 50.
Definition pl_calls : list call :=
  [CBegin true 1; COp (OPut [x62] [x6b] [x76] 0 0); CCommit;
   CBegin true 2; COp (OPut [x62] [x6c] [x77] 0 0)].
Definition pl_w : world := run_calls 0 (empty_world pl_o) pl_calls.
Definition pl_e : entry := mkEntry [x62] [x6c] [x77] 0 0 F_Set 0 DS_KV 2.
Definition pl_t : txstate := mkTx 2 true [pl_e].

(** a cut right after the creation of the new segment (or after the write into
    it, before its sync): the durable directory holds the empty file 1, which
    NO directory "after k records" holds — neither a [commit_loop] prefix disk
    nor the disk of the world Commit returns.  Moreover the directory after
    all [n] records is the MARKED one: the unmarked [commit_loop false] disk of
    [firstn n] is not what is durable at the end of the trace. *)
Example rotation_cut_is_no_prefix_disk :
  calls_ok 0 (empty_world pl_o) pl_calls /\
  o_sync (w_opts pl_w) = true /\ w_tx pl_w = TxActive pl_t /\
  existsb (fun e => o_seg (w_opts pl_w) <? entry_size e) (tx_pend pl_t) = false /\
  commit_trace pl_w pl_t = [PCreate 1; PWrite 1 0 (with_status pl_e St_Committed); PSync 1] /\
  (forall j, (j = 1 \/ j = 2)%nat ->
     apply_durable (w_disk pl_w) (firstn j (commit_trace pl_w pl_t)) = w_disk pl_w ++ [(1, [])] /\
     (forall k, apply_durable (w_disk pl_w) (firstn j (commit_trace pl_w pl_t)) <>
                c_disk (fst (commit_loop (o_seg (w_opts pl_w)) false (st_of pl_w) (firstn k (tx_pend pl_t))))) /\
     apply_durable (w_disk pl_w) (firstn j (commit_trace pl_w pl_t)) <> w_disk (fst (do_commit None pl_w pl_t))) /\
  apply_durable (w_disk pl_w) (commit_trace pl_w pl_t) <>
    c_disk (fst (commit_loop (o_seg (w_opts pl_w)) false (st_of pl_w) (firstn 1 (tx_pend pl_t)))).
Proof.
  split; [vm_compute; repeat split; intros H; intuition discriminate|].
  split; [vm_compute; reflexivity|].
  split; [vm_compute; reflexivity|].
  split; [vm_compute; reflexivity|].
  split; [vm_compute; reflexivity|].
  split.
  - intros j [Hj|Hj]; subst j.
    + split; [vm_compute; reflexivity|]. split.
      * intros k. destruct k as [|k].
        { vm_compute. discriminate. }
        replace (firstn (S k) (tx_pend pl_t)) with (tx_pend pl_t) by (destruct k; reflexivity).
        vm_compute. discriminate.
      * vm_compute. discriminate.
    + split; [vm_compute; reflexivity|]. split.
      * intros k. destruct k as [|k].
        { vm_compute. discriminate. }
        replace (firstn (S k) (tx_pend pl_t)) with (tx_pend pl_t) by (destruct k; reflexivity).
        vm_compute. discriminate.
      * vm_compute. discriminate.
  - vm_compute. discriminate.
Qed.

(** ------------------------------------------------------------------ *)
(** * 5. Recovery from the durable directory                             *)
(** ------------------------------------------------------------------ *)
(** Open's indexes and committed ids are a function of the records alone: an
    empty segment more or less changes nothing *)
Lemma do_open_records : forall o d,
  w_ix (do_open o d) = replay (committed_ids (all_records d)) (all_records d) /\
  w_committed (do_open o d) = committed_ids (all_records d).
Proof.
  intros o d. unfold do_open. cbn [w_ix w_committed]. rewrite all_records_create.
  split; reflexivity.
Qed.

Lemma do_open_create : forall o d f,
  w_ix (do_open o (disk_create d f)) = w_ix (do_open o d) /\
  w_committed (do_open o (disk_create d f)) = w_committed (do_open o d).
Proof.
  intros o d f.
  destruct (do_open_records o (disk_create d f)) as [A B].
  destruct (do_open_records o d) as [A' B'].
  rewrite A, B, A', B', all_records_create. split; reflexivity.
Qed.

Lemma nodup_create : forall d f, NoDup (map fst d) -> NoDup (map fst (disk_create d f)).
Proof.
  intros d f H. unfold disk_create. destruct (disk_get d f) as [s|] eqn:E; [exact H|].
  apply disk_get_none in E. rewrite map_app. cbn [map fst].
  eapply Permutation.Permutation_NoDup; [apply Permutation.Permutation_cons_append|].
  constructor; assumption.
Qed.

(** the durable directory at any cut point is a well-formed directory of good
    records, and the record-level Open of it rebuilds the pre-transaction
    indexes while the trace is incomplete, the post-commit ones afterwards *)
Lemma durable_disk_ok : forall w t j o,
  Inv w -> WInv w -> BInv w -> w_tx w = TxActive t ->
  o_sync (w_opts w) = true ->
  existsb (fun e => o_seg (w_opts w) <? entry_size e) (tx_pend t) = false ->
  let tr := commit_trace w t in
  let D := apply_durable (w_disk w) (firstn j tr) in
  let w1 := fst (do_commit None w t) in
  NoDup (map fst D) /\ disk_wf D /\ disk_entries_ok D /\
  (((j < length tr)%nat /\ w_ix (do_open o D) = w_ix w /\
    (forall id, nmem id (w_committed (do_open o D)) = nmem id (w_committed w))) \/
   ((length tr <= j)%nat /\ w_ix (do_open o D) = w_ix w1 /\
    (forall id, nmem id (w_committed (do_open o D)) = nmem id (w_committed w1)))).
Proof.
  intros w t j o HI HW HB Ht Hs Hex tr D w1. subst tr D w1.
  destruct (power_loss_prefix w t j Hs Hex) as (_ & k & Hk & Hlt & Heq & Hlen).
  cbv zeta in Hlt, Heq, Hlen.
  set (tr := commit_trace w t) in *.
  set (D := apply_durable (w_disk w) (firstn j tr)) in *.
  set (w1 := fst (do_commit None w t)) in *.
  pose proof (bi_tx w HB) as Hp. rewrite Ht in Hp.
  destruct (Nat.eq_dec k (length (tx_pend t))) as [E|E].
  - (* the trace is complete *)
    rewrite (Heq E).
    pose proof (commit_inv w t HI Ht) as HI1. fold w1 in HI1.
    assert (E1 : fst (step 0 w CCommit) = w1).
    { cbn [step]. rewrite Ht. unfold w1. destruct (do_commit None w t) as [w' ok]. reflexivity. }
    pose proof (step_winv 0 w CCommit HW I) as HW1. rewrite E1 in HW1.
    destruct (wi_w2 w1 HW1) as (_ & Hwf & _).
    pose proof (do_commit_entries None w t (bi_disk w HB) (bi_seg w HB) (proj2 Hp)) as Hd. fold w1 in Hd.
    destruct (reopen_preserves w1 o HI1) as (X & Y & _).
    split; [exact (inv_nodup w1 HI1)|]. split; [exact Hwf|]. split; [exact Hd|].
    right. split; [apply Hlen; exact E|]. split; [exact X|exact Y].
  - (* k < n records are durable *)
    assert (Hk' : (k < length (tx_pend t))%nat) by lia.
    specialize (Hlt Hk').
    destruct (crash_prefix_invisible w t k o HI Ht Hex Hk') as [A B].
    change (mkC (w_disk w) (w_maxfid w) (w_woff w) (w_asize w)) with (st_of w) in A, B.
    destruct (st0_ok w HI) as [Hc0 Ho0].
    change (mkC (w_disk w) (w_maxfid w) (w_woff w) (w_asize w)) with (st_of w) in Hc0, Ho0.
    destruct (wi_w2 w HW) as (_ & Hwf & _).
    assert (Hg : Forall entry_good (firstn k (tx_pend t))).
    { apply Forall_firstn_keep. destruct Hp as [_ Hp].
      pose proof (existsb_size_false _ _ Hex) as Hsz. rewrite Forall_forall in *. intros e He.
      apply (fields_ok_good (o_seg (w_opts w))); [exact (bi_seg w HB)|apply Hp; exact He|apply Hsz; exact He]. }
    pose proof (commit_loop_entries (firstn k (tx_pend t)) (o_seg (w_opts w)) false (st_of w) (bi_disk w HB) Hg) as Hd.
    destruct (commit_loop (o_seg (w_opts w)) false (st_of w) (firstn k (tx_pend t))) as [stk ws] eqn:EL.
    destruct (commit_loop_spec _ _ _ _ _ _ Hc0 EL) as (_ & _ & (Hnd & _ & _) & _).
    pose proof (commit_loop_wf _ _ _ _ _ _ Hc0 Ho0 Hwf EL) as Hwf'.
    cbn [fst] in *.
    assert (Hnc : ~ (length tr <= j)%nat) by (intros H; apply Hlen in H; contradiction).
    destruct Hlt as [HD|[HD _]]; rewrite HD.
    + split; [exact Hnd|]. split; [exact Hwf'|]. split; [exact Hd|].
      left. split; [lia|]. split; [exact A|exact B].
    + destruct (do_open_create o (c_disk stk) (c_maxfid stk + 1)) as [X Y].
      split; [apply nodup_create; exact Hnd|]. split; [apply disk_wf_create; exact Hwf'|].
      split; [apply disk_entries_ok_create; exact Hd|].
      left. split; [lia|]. split; [rewrite X; exact A|]. intros id. rewrite Y. apply B.
Qed.

(** (5) over BYTES, general form: the data files of the durable directory, one
    of them ([f], in practice the file of the in-flight write) ending — after
    its durable records — in any bytes that do not decode to a record *)
Theorem power_loss_recovers_inv : forall w t j o f tail,
  Inv w -> WInv w -> BInv w -> w_tx w = TxActive t ->
  o_sync (w_opts w) = true ->
  existsb (fun e => o_seg (w_opts w) <? entry_size e) (tx_pend t) = false ->
  let tr := commit_trace w t in
  let D := apply_durable (w_disk w) (firstn j tr) in
  let w1 := fst (do_commit None w t) in
  (forall s, disk_get D f = Some s -> no_record_at (o_load o) (seg_entries s) tail) ->
  exists w',
    open_bytes o (bytes_of_disk_torn (o_seg o) D f tail) = Some w' /\
    (((j < length tr)%nat /\ w_ix w' = w_ix w /\
      (forall id, nmem id (w_committed w') = nmem id (w_committed w))) \/
     ((length tr <= j)%nat /\ w_ix w' = w_ix w1 /\
      (forall id, nmem id (w_committed w') = nmem id (w_committed w1)))).
Proof.
  intros w t j o f tail HI HW HB Ht Hs Hex tr D w1 Hno.
  destruct (durable_disk_ok w t j o HI HW HB Ht Hs Hex) as (Hnd & Hwf & Hok & Hix).
  fold tr in Hix. fold D in Hnd, Hwf, Hok, Hix. fold w1 in Hix.
  exists (do_open o D). split; [|exact Hix].
  apply open_bytes_torn; assumption.
Qed.

(** ... and with every file intact (zero padding up to the segment size) *)
Theorem power_loss_recovers_clean_inv : forall w t j o,
  Inv w -> WInv w -> BInv w -> w_tx w = TxActive t ->
  o_sync (w_opts w) = true ->
  existsb (fun e => o_seg (w_opts w) <? entry_size e) (tx_pend t) = false ->
  let tr := commit_trace w t in
  let D := apply_durable (w_disk w) (firstn j tr) in
  let w1 := fst (do_commit None w t) in
  exists w',
    open_bytes o (bytes_of_disk (o_seg o) D) = Some w' /\
    (((j < length tr)%nat /\ w_ix w' = w_ix w /\
      (forall id, nmem id (w_committed w') = nmem id (w_committed w))) \/
     ((length tr <= j)%nat /\ w_ix w' = w_ix w1 /\
      (forall id, nmem id (w_committed w') = nmem id (w_committed w1)))).
Proof.
  intros w t j o HI HW HB Ht Hs Hex tr D w1.
  destruct (durable_disk_ok w t j o HI HW HB Ht Hs Hex) as (Hnd & Hwf & Hok & Hix).
  fold tr in Hix. fold D in Hnd, Hwf, Hok, Hix. fold w1 in Hix.
  exists (do_open o D). split; [|exact Hix].
  apply open_bytes_of_disk; assumption.
Qed.

(** every world reached by engine calls satisfies the three invariants *)
Lemma reachable_invs : forall now cs o0,
  now < 2^64 -> seg_size_ok o0 ->
  calls_ok now (empty_world o0) cs -> Forall call_sizes_ok cs ->
  let w := run_calls now (empty_world o0) cs in
  Inv w /\ WInv w /\ BInv w.
Proof.
  intros now cs o0 Hnow Ho Hcalls Hsz w.
  destruct (calls_as_acts now cs (empty_world o0) Hcalls) as [Hacts Hrun].
  pose proof (reachable_winv now (map ACall cs) o0 Hacts) as HW. rewrite Hrun in HW.
  split; [exact (reachable_inv now cs o0 Hcalls)|]. split; [exact HW|].
  exact (run_calls_binv now cs (empty_world o0) Hnow (binv_empty o0 Ho) Hsz).
Qed.

(** (5) COROLLARY, for every world reachable by engine calls (the hypotheses
    of [DiskBytes.crash_prefix_invisible_bytes_reachable]), a transaction [t]
    in progress, SyncEnable: power is lost after [j] events of Commit; Open of
    the bytes on stable storage — with any options — never fails and rebuilds
    - the indexes and committed ids of BEFORE the transaction as long as
      Commit has not returned ([j < length tr]): no partial transaction;
    - those of the world Commit returned once it has ([length tr <= j]): the
      transaction is present. *)
Theorem power_loss_recovers : forall now cs o0 t j o f tail,
  now < 2^64 -> seg_size_ok o0 ->
  calls_ok now (empty_world o0) cs -> Forall call_sizes_ok cs ->
  let w := run_calls now (empty_world o0) cs in
  w_tx w = TxActive t ->
  o_sync (w_opts w) = true ->
  existsb (fun e => o_seg (w_opts w) <? entry_size e) (tx_pend t) = false ->
  let tr := commit_trace w t in
  let D := apply_durable (w_disk w) (firstn j tr) in
  let w1 := fst (do_commit None w t) in
  (forall s, disk_get D f = Some s -> no_record_at (o_load o) (seg_entries s) tail) ->
  exists w',
    open_bytes o (bytes_of_disk_torn (o_seg o) D f tail) = Some w' /\
    (((j < length tr)%nat /\ w_ix w' = w_ix w /\
      (forall id, nmem id (w_committed w') = nmem id (w_committed w))) \/
     ((length tr <= j)%nat /\ w_ix w' = w_ix w1 /\
      (forall id, nmem id (w_committed w') = nmem id (w_committed w1)))).
Proof.
  intros now cs o0 t j o f tail Hnow Ho Hcalls Hsz w Ht Hs Hex tr D w1 Hno.
  destruct (reachable_invs now cs o0 Hnow Ho Hcalls Hsz) as (HI & HW & HB). fold w in HI, HW, HB.
  exact (power_loss_recovers_inv w t j o f tail HI HW HB Ht Hs Hex Hno).
Qed.

(** the tails for which nothing is left to assume: zeros (the untouched rest
    of the pre-allocated file) ... *)
Corollary power_loss_recovers_zeros : forall now cs o0 t j o f pad,
  now < 2^64 -> seg_size_ok o0 ->
  calls_ok now (empty_world o0) cs -> Forall call_sizes_ok cs ->
  let w := run_calls now (empty_world o0) cs in
  w_tx w = TxActive t ->
  o_sync (w_opts w) = true ->
  existsb (fun e => o_seg (w_opts w) <? entry_size e) (tx_pend t) = false ->
  let tr := commit_trace w t in
  let D := apply_durable (w_disk w) (firstn j tr) in
  let w1 := fst (do_commit None w t) in
  exists w',
    open_bytes o (bytes_of_disk_torn (o_seg o) D f (zeros pad)) = Some w' /\
    (((j < length tr)%nat /\ w_ix w' = w_ix w /\
      (forall id, nmem id (w_committed w') = nmem id (w_committed w))) \/
     ((length tr <= j)%nat /\ w_ix w' = w_ix w1 /\
      (forall id, nmem id (w_committed w') = nmem id (w_committed w1)))).
Proof.
  intros now cs o0 t j o f pad Hnow Ho Hcalls Hsz w Ht Hs Hex tr D w1.
  apply (power_loss_recovers now cs o0 t j o f (zeros pad)); try assumption.
  intros s _. apply no_record_zeros.
Qed.

(** ... a proper prefix of the in-flight record [e] with the file ending at
    the cut (either read mode) ... *)
Corollary power_loss_recovers_eof : forall now cs o0 t j o f e m,
  now < 2^64 -> seg_size_ok o0 ->
  calls_ok now (empty_world o0) cs -> Forall call_sizes_ok cs ->
  let w := run_calls now (empty_world o0) cs in
  w_tx w = TxActive t ->
  o_sync (w_opts w) = true ->
  existsb (fun e => o_seg (w_opts w) <? entry_size e) (tx_pend t) = false ->
  wf_entry e -> (m < length (encode_entry e))%nat ->
  let tr := commit_trace w t in
  let D := apply_durable (w_disk w) (firstn j tr) in
  let w1 := fst (do_commit None w t) in
  exists w',
    open_bytes o (bytes_of_disk_torn (o_seg o) D f (firstn m (encode_entry e))) = Some w' /\
    (((j < length tr)%nat /\ w_ix w' = w_ix w /\
      (forall id, nmem id (w_committed w') = nmem id (w_committed w))) \/
     ((length tr <= j)%nat /\ w_ix w' = w_ix w1 /\
      (forall id, nmem id (w_committed w') = nmem id (w_committed w1)))).
Proof.
  intros now cs o0 t j o f e m Hnow Ho Hcalls Hsz w Ht Hs Hex We Hm tr D w1.
  apply (power_loss_recovers now cs o0 t j o f (firstn m (encode_entry e))); try assumption.
  intros s _. apply no_record_torn_eof; assumption.
Qed.

(** ... and every data file intact *)
Corollary power_loss_recovers_clean : forall now cs o0 t j o,
  now < 2^64 -> seg_size_ok o0 ->
  calls_ok now (empty_world o0) cs -> Forall call_sizes_ok cs ->
  let w := run_calls now (empty_world o0) cs in
  w_tx w = TxActive t ->
  o_sync (w_opts w) = true ->
  existsb (fun e => o_seg (w_opts w) <? entry_size e) (tx_pend t) = false ->
  let tr := commit_trace w t in
  let D := apply_durable (w_disk w) (firstn j tr) in
  let w1 := fst (do_commit None w t) in
  exists w',
    open_bytes o (bytes_of_disk (o_seg o) D) = Some w' /\
    (((j < length tr)%nat /\ w_ix w' = w_ix w /\
      (forall id, nmem id (w_committed w') = nmem id (w_committed w))) \/
     ((length tr <= j)%nat /\ w_ix w' = w_ix w1 /\
      (forall id, nmem id (w_committed w') = nmem id (w_committed w1)))).
Proof.
  intros now cs o0 t j o Hnow Ho Hcalls Hsz w Ht Hs Hex tr D w1.
  destruct (reachable_invs now cs o0 Hnow Ho Hcalls Hsz) as (HI & HW & HB). fold w in HI, HW, HB.
  exact (power_loss_recovers_clean_inv w t j o HI HW HB Ht Hs Hex).
Qed.

(** ------------------------------------------------------------------ *)
(** * Remarks                                                            *)
(** ------------------------------------------------------------------ *)
(** the trace is faithful to the loop: a creation is issued exactly when the
    record does not fit the active file ([commit_write] rotates), the write
    goes to the (possibly new) active file at its write offset *)
Lemma write_events_commit_write : forall sync seg st e last,
  let r := snd (commit_write seg st e last) in
  let st1 := rotate seg st (entry_size e) in
  write_events sync (c_maxfid st) r =
  (if seg <? c_asize st + entry_size e then [PCreate (c_maxfid st + 1)] else []) ++
  PWrite (c_maxfid st1) (c_woff st1) (if last then with_status e St_Committed else e) ::
  (if sync then [PSync (c_maxfid st1)] else []).
Proof.
  intros sync seg st e last. rewrite commit_write_eq. cbv zeta. unfold write_events, rotate. cbn [fst snd].
  destruct (seg <? c_asize st + entry_size e); cbn [c_maxfid c_woff].
  - replace (c_maxfid st + 1 =? c_maxfid st) with false by lia. reflexivity.
  - rewrite N.eqb_refl. reflexivity.
Qed.

(** without SyncEnable nothing of the transaction is durable when Commit
    returns: [pl_calls] replayed with SyncEnable off *)
Definition pl_o_nosync : opts := mkOpts 0 FileIO FileIO false 50.
Definition pl_w_nosync : world := run_calls 0 (empty_world pl_o_nosync) pl_calls.

Example no_sync_nothing_durable :
  w_tx pl_w_nosync = TxActive pl_t /\
  snd (do_commit None pl_w_nosync pl_t) = true /\
  commit_trace pl_w_nosync pl_t = [PCreate 1; PWrite 1 0 (with_status pl_e St_Committed)] /\
  apply_durable (w_disk pl_w_nosync) (commit_trace pl_w_nosync pl_t) = w_disk pl_w_nosync ++ [(1, [])] /\
  apply_volatile (w_disk pl_w_nosync) (commit_trace pl_w_nosync pl_t) =
    w_disk (fst (do_commit None pl_w_nosync pl_t)).
Proof. vm_compute. repeat split; reflexivity. Qed.

(** ---- axiom audit ---- *)
Print Assumptions commit_trace_synced.
Print Assumptions commit_trace_abstract.
Print Assumptions commit_trace_abstract_synced.
Print Assumptions power_loss_abstract.
Print Assumptions power_loss_prefix.
Print Assumptions power_loss_complete.
Print Assumptions power_loss_volatile.
Print Assumptions commit_trace_volatile.
Print Assumptions rotation_cut_is_no_prefix_disk.
Print Assumptions write_events_commit_write.
Print Assumptions no_sync_nothing_durable.
Print Assumptions power_loss_recovers_inv.
Print Assumptions power_loss_recovers.
Print Assumptions power_loss_recovers_zeros.
Print Assumptions power_loss_recovers_eof.
Print Assumptions power_loss_recovers_clean.
