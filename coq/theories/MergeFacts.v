(** MergeFacts.v — Merge does not change the logical key/value contents (C15):
    on the engine model (Merge.v) every step of Merge keeps the correspondence
    [kvrel] with the SAME specification state.

    Contents
    - the four small lemmas (refused / closed / filters / not superseded);
    - [merge_file_kvrel_corrected] (TARGET 1) under [idx_loc_sound], [idx_latest];
    - the invariant [MInv], [commit_minv], [merge_file_minv] (preservation);
    - [merge_kvrel_corrected] (TARGET 2) under [MInv];
    - reachability: [reachable_minv] (engine calls), [open_minv] (Open on any
      well-formed directory), [WInv] / [reachable_winv] (calls AND Merges),
      [merge_kvrel_reachable], [merge_kvrel_reachable_gen] (no invariant
      hypothesis left);
    - [merge_file_kvrel_as_stated_false], [merge_kvrel_as_stated_false]: the
      statements as first proposed are false (offsets unconstrained);
    - [merge_file_failed_keeps_records], [merge_failed_rewrite_keeps_data]: a
      step of Merge whose rewrite transaction is rejected keeps the old file
      (the former finding merge_failed_rewrite_loses_data is gone);
    - remark [merge_breaks_idx_on_disk_and_inv]. *)
From Coq Require Import Sorted.
From Verif Require Import Bytes BytesFacts Codec Dec ListDS ListFacts SetDS ZSetDS Index Engine Spec TxFacts IndexFacts ReplayFacts KVRefine Merge.
From Coq Require Import Lia ZifyN ZifyNat ZifyBool.
Open Scope N_scope.

(** every index record points at the record on disk it was built from *)
Definition idx_on_disk (w : world) : Prop := forall b ix k r,
  alookup (ix_kv (w_ix w)) b = Some ix -> In (k, r) ix ->
  exists e, disk_read (w_disk w) (kr_fid r) (kr_pos r) = Some e /\
            e_bucket e = b /\ e_key e = k /\ e_value e = kr_val r /\ e_ts e = kr_ts r /\ e_ttl e = kr_ttl r /\
            e_flag e = kr_flag r /\ e_ds e = DS_KV.

(** ------------------------------------------------------------------ *)
(** * The four small lemmas                                             *)
(** ------------------------------------------------------------------ *)

(** Merge of a database with fewer than two data files is refused and changes nothing *)
Lemma merge_refused_noop : forall now w txid0,
  (length (disk_fids (w_disk w)) < 2)%nat -> do_merge now w txid0 = (w, false).
Proof.
  intros now w txid0 H. unfold do_merge. destruct (w_closed w); [reflexivity|].
  destruct (disk_fids (w_disk w)) as [|a [|b l]]; [reflexivity|reflexivity|].
  cbn [length] in H. lia.
Qed.

(** Merge on a closed database is refused (fix 1913c0f) *)
Lemma merge_closed_noop : forall now w txid0, w_closed w = true -> do_merge now w txid0 = (w, false).
Proof. intros now w txid0 H. unfold do_merge. rewrite H. reflexivity. Qed.

(** dead records are never rewritten: deleted, expired, list/zset removal
    records, and records of transactions that never committed *)
Lemma merge_keep_filters : forall now w fid pos e,
  merge_keep now w fid pos e = true ->
  is_filter now e = false /\ nmem (e_txid e) (w_committed w) = true.
Proof.
  intros now w fid pos e H. unfold merge_keep in H.
  destruct (is_filter now e); [discriminate H|].
  destruct (nmem (e_txid e) (w_committed w)); [|discriminate H].
  split; reflexivity.
Qed.

(** a superseded key/value record (the index points at a newer one) is never rewritten *)
Lemma merge_keep_not_superseded : forall now w fid pos e ix r,
  merge_keep now w fid pos e = true -> e_ds e = DS_KV ->
  alookup (ix_kv (w_ix w)) (e_bucket e) = Some ix -> kv_find ix (e_key e) = Some r ->
  kr_flag r = F_Set /\ (kr_fid r < fid \/ (kr_fid r = fid /\ kr_pos r <= pos)).
Proof.
  intros now w fid pos e ix r H Hds Hix Hr. unfold merge_keep in H.
  destruct (is_filter now e); [discriminate H|].
  destruct (negb (nmem (e_txid e) (w_committed w))); [discriminate H|].
  rewrite Hds in H. change (DS_KV =? DS_KV) with true in H. cbv iota in H.
  rewrite Hix, Hr in H.
  destruct ((fid <? kr_fid r) || ((kr_fid r =? fid) && (pos <? kr_pos r))) eqn:En; [discriminate H|].
  unfold pending_keep in H. rewrite Hds in H. change (DS_KV =? DS_KV) with true in H. cbv iota in H.
  rewrite Hix, Hr in H. apply N.eqb_eq in H. split; [exact H|]. lia.
Qed.

(** ------------------------------------------------------------------ *)
(** * Locations, index lookups, and the invariants Merge relies on      *)
(** ------------------------------------------------------------------ *)

(** lexicographic order on record locations (file id, offset) *)
Definition loc_lt (f p f' p' : N) : Prop := f < f' \/ (f = f' /\ p < p').
Definition loc_le (f p f' p' : N) : Prop := f < f' \/ (f = f' /\ p <= p').

Ltac locs := unfold loc_lt, loc_le in *; lia.

(** the index record of (bucket, key) — what BPTree.Find returns *)
Definition kvl (kv : list (bytes * kvidx)) (b k : bytes) : option krec :=
  match alookup kv b with Some ix => kv_find ix k | None => None end.

(** record [e] is the record the index record [r] of (b, k) was built from *)
Definition rec_matches (e : entry) (b k : bytes) (r : krec) : Prop :=
  e_bucket e = b /\ e_key e = k /\ e_value e = kr_val r /\ e_ts e = kr_ts r /\ e_ttl e = kr_ttl r /\
  e_flag e = kr_flag r /\ e_ds e = DS_KV.

(** INVARIANT [loc_sound] (weak form of [idx_on_disk]): IF a record is still
    on disk at the location an index record points at, it is the record the
    index record was built from.  Unlike [idx_on_disk] it does not require the
    record to be still there: Merge removes the files that hold the deleted /
    expired records while the index keeps pointing at them, so [idx_on_disk]
    itself is NOT preserved by [merge_file] (see [merge_breaks_idx_on_disk_and_inv]).
    Needed: to know that the record [merge_keep] keeps for a key carries the
    value/timestamp/ttl the index (hence the specification) holds.
    Preserved by do_commit and merge_file: yes, as part of [MInv] below. *)
Definition loc_sound (kv : list (bytes * kvidx)) (rs : list (N * N * entry)) : Prop :=
  forall b k r e, kvl kv b k = Some r -> In (kr_fid r, kr_pos r, e) rs -> rec_matches e b k r.

(** INVARIANT [latest]: no committed key/value record of the same bucket and
    key lies on disk at a later location than the one the index points at.
    Needed: [merge_keep] only compares locations; this makes "not superseded"
    mean "is the record the index points at".
    Preserved by do_commit and merge_file: yes, as part of [MInv] below. *)
Definition latest (kv : list (bytes * kvidx)) (rs : list (N * N * entry)) (comm : list N) : Prop :=
  forall f p e r, In (f, p, e) rs -> e_ds e = DS_KV -> nmem (e_txid e) comm = true ->
    kvl kv (e_bucket e) (e_key e) = Some r -> loc_le f p (kr_fid r) (kr_pos r).

Definition idx_loc_sound (w : world) : Prop := loc_sound (ix_kv (w_ix w)) (recs w).
Definition idx_latest (w : world) : Prop := latest (ix_kv (w_ix w)) (recs w) (w_committed w).

(** ---- the log as a set of located records ---- *)
Lemma in_all_records : forall d f p e,
  In (f, p, e) (all_records d) <-> exists s, disk_get d f = Some s /\ In (p, e) s.
Proof.
  intros d f p e. unfold all_records. rewrite in_flat_map. split.
  - intros [g [Hg Hin]]. destruct (disk_get d g) as [s|] eqn:Eg; [|destruct Hin].
    apply in_map_iff in Hin. destruct Hin as [[p0 e0] [Heq Hin]]. cbn [fst snd] in Heq.
    injection Heq as E1 E2 E3. subst g p0 e0. exists s. split; [exact Eg|exact Hin].
  - intros [s [Hs Hin]]. exists f. split.
    + unfold disk_fids. apply nsort_in. exact (disk_get_some_in d f s Hs).
    + rewrite Hs. apply in_map_iff. exists (p, e). split; [reflexivity|exact Hin].
Qed.

Lemma disk_get_remove : forall d fid f,
  disk_get (disk_remove d fid) f = if f =? fid then None else disk_get d f.
Proof.
  intros d fid f. induction d as [|[g s] r IH]; cbn [disk_remove filter disk_get fst].
  - destruct (f =? fid); reflexivity.
  - fold (disk_remove r fid). destruct (g =? fid) eqn:E1; cbn [negb].
    + rewrite IH. destruct (f =? fid) eqn:E2; [reflexivity|].
      destruct (g =? f) eqn:E3; [lia|reflexivity].
    + cbn [disk_get]. rewrite IH. destruct (g =? f) eqn:E3; [|reflexivity].
      destruct (f =? fid) eqn:E2; [lia|reflexivity].
Qed.

Lemma in_recs_remove : forall d fid x, In x (all_records (disk_remove d fid)) -> In x (all_records d).
Proof.
  intros d fid [[f p] e] H. apply in_all_records in H. destruct H as [s [Hs Hin]].
  rewrite disk_get_remove in Hs. destruct (f =? fid); [discriminate Hs|].
  apply in_all_records. exists s. split; assumption.
Qed.

Lemma in_recs_fid : forall d f p e, In (f, p, e) (all_records d) -> In f (map fst d).
Proof.
  intros d f p e H. apply in_all_records in H. destruct H as [s [Hs _]]. exact (disk_get_some_in d f s Hs).
Qed.

(** ---- small facts on the index and the specification map ---- *)
Lemma aset_same : forall {V} (m : list (bytes * V)) k v, alookup m k = Some v -> aset m k v = m.
Proof.
  intros V m k v. induction m as [|[k1 v1] m IH]; intros H; [discriminate H|].
  cbn [alookup] in H. cbn [aset]. destruct (bytes_eqb k1 k) eqn:E.
  - apply bytes_eqb_eq in E. subst k1. injection H as H. subst v1. reflexivity.
  - rewrite (IH H). reflexivity.
Qed.

Lemma kv_insert_same : forall ix k r, ksorted ix -> kv_find ix k = Some r -> kv_insert ix k r = ix.
Proof.
  induction ix as [|[k' r'] t IH]; intros k r Hs H; [discriminate H|].
  cbn [kv_find] in H. cbn [kv_insert]. apply ksorted_inv in Hs as [Hst Hfa].
  destruct (bytes_eqb k' k) eqn:E.
  - apply bytes_eqb_eq in E. subst k'. injection H as H. subst r'. rewrite bcompare_refl. reflexivity.
  - pose proof (kv_find_in t k r H) as Hin. rewrite Forall_forall in Hfa.
    pose proof (Hfa (k, r) Hin) as Hlt. cbn [fst] in Hlt. apply bltb_lt in Hlt.
    rewrite (bcompare_antisym k' k), Hlt. cbn [CompOpp]. rewrite (IH k r Hst H). reflexivity.
Qed.

(** re-putting the binding a sorted map already holds is the identity *)
Lemma skv_put_same : forall ix k r, ksorted ix -> kv_find ix k = Some r -> kr_flag r = F_Set ->
  skv_put (abs_kv ix) k (mkV (kr_val r) (kr_ts r) (kr_ttl r)) = abs_kv ix.
Proof.
  intros ix k r Hs Hf Hfl. rewrite <- (abs_insert_put ix k r Hs Hfl). rewrite (kv_insert_same ix k r Hs Hf). reflexivity.
Qed.

Lemma entry_size_pos : forall e, 0 < entry_size e.
Proof. intros e. unfold entry_size, hdr_size. lia. Qed.

(** what [merge_keep] says of a key/value record *)
Lemma merge_keep_kv : forall now w fid pos e,
  merge_keep now w fid pos e = true -> e_ds e = DS_KV ->
  exists r, kvl (ix_kv (w_ix w)) (e_bucket e) (e_key e) = Some r /\ kr_flag r = F_Set /\
            loc_le (kr_fid r) (kr_pos r) fid pos /\ nmem (e_txid e) (w_committed w) = true.
Proof.
  intros now w fid pos e H Hds.
  destruct (merge_keep_filters now w fid pos e H) as [_ Hc].
  unfold kvl. destruct (alookup (ix_kv (w_ix w)) (e_bucket e)) as [ix|] eqn:Eix.
  - destruct (kv_find ix (e_key e)) as [r|] eqn:Er.
    + destruct (merge_keep_not_superseded now w fid pos e ix r H Hds Eix Er) as [A B].
      exists r. split; [reflexivity|]. split; [exact A|]. split; [locs|exact Hc].
    + exfalso. unfold merge_keep in H. destruct (is_filter now e); [discriminate H|].
      rewrite Hc in H. cbn [negb] in H. rewrite Hds in H. change (DS_KV =? DS_KV) with true in H. cbv iota in H.
      rewrite Eix, Er in H. unfold pending_keep in H. rewrite Hds in H. change (DS_KV =? DS_KV) with true in H.
      cbv iota in H. rewrite Eix, Er in H. discriminate H.
  - exfalso. unfold merge_keep in H. destruct (is_filter now e); [discriminate H|].
    rewrite Hc in H. cbn [negb] in H. rewrite Hds in H. change (DS_KV =? DS_KV) with true in H. cbv iota in H.
    rewrite Eix in H. unfold pending_keep in H. rewrite Hds in H. change (DS_KV =? DS_KV) with true in H.
    cbv iota in H. rewrite Eix in H. discriminate H.
Qed.

(** the record Merge writes for a kept record *)
Definition rewrite_entry (txid : N) (pe : N * entry) : entry :=
  let e := snd pe in mkEntry (e_bucket e) (e_key e) (e_value e) (e_ts e) (e_ttl e) (e_flag e) 0 (e_ds e) txid.

(** a kept key/value record re-puts what the specification state already holds *)
Lemma kept_entry_noop : forall now w s fid seg txid pe,
  kvrel w s -> idx_loc_sound w -> idx_latest w ->
  disk_get (w_disk w) fid = Some seg -> In pe seg -> merge_keep now w fid (fst pe) (snd pe) = true ->
  kv_entry_ok txid (rewrite_entry txid pe) /\ spec_apply_kv s (rewrite_entry txid pe) = s.
Proof.
  intros now w s fid seg txid [pos e] Hrel Hloc Hlat Hseg Hin Hkeep. cbn [fst snd] in Hkeep.
  unfold kv_entry_ok, rewrite_entry. cbn [snd e_txid e_ds e_flag e_ts e_ttl].
  destruct (e_ds e =? DS_KV) eqn:Eds.
  - apply N.eqb_eq in Eds.
    destruct (merge_keep_kv now w fid pos e Hkeep Eds) as (r & Hr & Hfl & Hle & Hc).
    assert (Hrec : In (fid, pos, e) (recs w)).
    { unfold recs. apply in_all_records. exists seg. split; assumption. }
    pose proof (Hlat fid pos e r Hrec Eds Hc Hr) as Hge.
    assert (Ef : kr_fid r = fid) by locs. assert (Ep : kr_pos r = pos) by locs.
    assert (Hrec' : In (kr_fid r, kr_pos r, e) (recs w)) by (rewrite Ef, Ep; exact Hrec).
    destruct (Hloc (e_bucket e) (e_key e) r e Hr Hrec') as (_ & _ & Hv & Hts & Httl & Hflag & _).
    unfold kvl in Hr. pose proof (Hrel (e_bucket e)) as Hb.
    destruct (alookup (ix_kv (w_ix w)) (e_bucket e)) as [ix|] eqn:Eix; [|discriminate Hr].
    destruct Hb as (Hs & Hok & _ & Ha).
    destruct (Hok (e_key e) r (kv_find_in ix (e_key e) r Hr)) as [_ Hbound].
    split.
    + split; [reflexivity|]. intros _. split; [left; rewrite Hflag; exact Hfl|rewrite Hts, Httl; exact Hbound].
    + unfold spec_apply_kv. cbn [e_ds e_flag e_bucket e_key e_value e_ts e_ttl].
      rewrite Eds. change (DS_KV =? DS_KV) with true. cbv iota.
      rewrite Hflag, Hfl. change (F_Set =? F_Set) with true. cbv iota.
      unfold getdef. rewrite Ha. rewrite Hv, Hts, Httl.
      rewrite (skv_put_same ix (e_key e) r Hs Hr Hfl). rewrite (aset_same _ _ _ Ha).
      destruct s; reflexivity.
  - split.
    + split; [reflexivity|]. intros H. rewrite H in Eds. discriminate Eds.
    + apply spec_apply_kv_nonkv. cbn [e_ds]. intros H. rewrite H in Eds. discriminate Eds.
Qed.

Lemma fold_spec_noop : forall pend s, Forall (fun e => spec_apply_kv s e = s) pend -> fold_left spec_apply_kv pend s = s.
Proof.
  intros pend s H. induction H as [|e l He Hl IH]; [reflexivity|]. cbn [fold_left]. rewrite He. exact IH.
Qed.

Lemma do_commit_false : forall w t w', do_commit None w t = (w', false) -> w' = w.
Proof.
  intros w t w' H. unfold do_commit in H. destruct (tx_pend t) as [|e0 rest]; [discriminate H|].
  destruct (existsb _ (e0 :: rest)); [injection H as H; symmetry; exact H|].
  destruct (commit_loop _ _ _ _). discriminate H.
Qed.

(** [merge_file] with its parts named *)
Definition merge_pend (now : N) (w : world) (fid txid : N) (seg : segment) : list entry :=
  map (rewrite_entry txid) (filter (fun pe => merge_keep now w fid (fst pe) (snd pe)) seg).

Definition new_file (w : world) : world :=
  mkW (w_opts w) (w_closed w) (disk_create (w_disk w) (w_maxfid w + 1)) (w_maxfid w + 1) 0 0
      (w_ix w) (w_committed w) (w_tx w).

Definition drop_file (w2 : world) (fid : N) (x : txs) : world :=
  mkW (w_opts w2) (w_closed w2) (disk_remove (w_disk w2) fid) (w_maxfid w2) (w_woff w2) (w_asize w2)
      (w_ix w2) (w_committed w2) x.

(** when the rewrite transaction is rejected nothing was written ([do_commit_false]):
    the world is the one with the fresh (empty) active file, the old file stays,
    and the flag is false;
    when there is nothing to rewrite the file is removed, after a fresh active
    file was started if it was the active one (fix "Merge replaces an active
    segment that holds only dead records") *)
Lemma merge_file_eq : forall now w fid txid,
  merge_file now w fid txid =
  match disk_get (w_disk w) fid with
  | None => (w, true)
  | Some seg =>
      match merge_pend now w fid txid seg with
      | [] => (if fid =? w_maxfid w then drop_file (new_file w) fid (w_tx w) else drop_file w fid (w_tx w), true)
      | pend => if snd (do_commit None (new_file w) (mkTx txid true pend))
                then (drop_file (fst (do_commit None (new_file w) (mkTx txid true pend))) fid (w_tx w), true)
                else (new_file w, false)
      end
  end.
Proof.
  intros now w fid txid. unfold merge_file. destruct (disk_get (w_disk w) fid) as [seg|]; [|reflexivity].
  change (map _ (filter _ seg)) with (merge_pend now w fid txid seg).
  destruct (merge_pend now w fid txid seg) as [|e0 rest]; [destruct (fid =? w_maxfid w); reflexivity|].
  change (mkW (w_opts w) (w_closed w) (disk_create (w_disk w) (w_maxfid w + 1)) (w_maxfid w + 1) 0 0
              (w_ix w) (w_committed w) (w_tx w)) with (new_file w).
  destruct (do_commit None (new_file w) (mkTx txid true (e0 :: rest))) as [w2 ok] eqn:Ec. cbn [fst snd].
  destruct ok; [reflexivity|]. rewrite (do_commit_false _ _ _ Ec). reflexivity.
Qed.

(** ------------------------------------------------------------------ *)
(** * TARGET 1 (corrected): rewriting one file keeps the key/value contents *)
(** ------------------------------------------------------------------ *)
(** The statement proposed first (hypotheses [Inv w], [kvrel w s],
    [idx_on_disk w], no active transaction, fresh [txid]) is FALSE: see
    [merge_file_kvrel_as_stated_false] below.  What is
    needed is [idx_loc_sound] and [idx_latest]; [Inv], the transaction state
    and the freshness of [txid] are NOT needed for this step. *)
Theorem merge_file_kvrel_corrected : forall now w s fid txid,
  kvrel w s -> idx_loc_sound w -> idx_latest w ->
  kvrel (fst (merge_file now w fid txid)) s.
Proof.
  intros now w s fid txid Hrel Hloc Hlat. rewrite merge_file_eq.
  destruct (disk_get (w_disk w) fid) as [seg|] eqn:Eseg; [|exact Hrel].
  assert (Hall : Forall (fun e => kv_entry_ok txid e /\ spec_apply_kv s e = s) (merge_pend now w fid txid seg)).
  { unfold merge_pend. apply Forall_forall. intros e' He'. apply in_map_iff in He'.
    destruct He' as [pe [Epe Hpe]]. subst e'. apply filter_In in Hpe. destruct Hpe as [Hin Hkeep].
    exact (kept_entry_noop now w s fid seg txid pe Hrel Hloc Hlat Eseg Hin Hkeep). }
  destruct (merge_pend now w fid txid seg) as [|e0 rest] eqn:Epend.
  - cbn [fst]. destruct (fid =? w_maxfid w); intros b; exact (Hrel b).
  - cbv beta iota zeta. assert (Hrel1 : kvrel (new_file w) s) by (intros b; exact (Hrel b)).
    destruct (do_commit None (new_file w) (mkTx txid true (e0 :: rest))) as [w2 ok] eqn:Ec.
    cbn [fst snd]. destruct ok; cbn [fst]; [|exact Hrel1].
    assert (Hrel2 : kvrel w2 s).
    { pose proof (commit_kvrel (new_file w) s (mkTx txid true (e0 :: rest)) Hrel1) as H.
      rewrite Ec in H. cbn [tx_id tx_pend fst snd] in H.
      rewrite fold_spec_noop in H.
      + apply H; [|reflexivity]. eapply Forall_impl; [|exact Hall]. intros e [A _]. exact A.
      + eapply Forall_impl; [|exact Hall]. intros e [_ B]. exact B. }
    intros b. exact (Hrel2 b).
Qed.

(** ------------------------------------------------------------------ *)
(** * The invariant [MInv] and its preservation                         *)
(** ------------------------------------------------------------------ *)

(** [LogIx kv rs comm hf hp]: the key/value index [kv] against the located
    records [rs], the committed ids [comm] and the write head (hf, hp):
    - every bucket index is key-sorted,
    - every record, and every location the index points at, lies strictly
      before the write head (so a record appended at or after the head can
      neither collide with a record nor be pointed at by a stale index record),
    - [loc_sound] and [latest]. *)
Record LogIx (kv : list (bytes * kvidx)) (rs : list (N * N * entry)) (comm : list N) (hf hp : N) : Prop := mkLogIx {
  li_sorted : forall b ix, alookup kv b = Some ix -> ksorted ix;
  li_recs : forall f p e, In (f, p, e) rs -> loc_lt f p hf hp;
  li_bound : forall b k r, kvl kv b k = Some r -> loc_lt (kr_fid r) (kr_pos r) hf hp;
  li_loc : loc_sound kv rs;
  li_latest : latest kv rs comm
}.

(** the invariant of the worlds on which Merge is shown correct; it does NOT
    mention the specification state, the transaction, nor the replay equation
    [inv_ix] of [Inv] (which Merge breaks: the index keeps its records for
    deleted / expired keys whose log records Merge drops) *)
Record MInv (w : world) : Prop := mkMInv {
  mi_nodup : NoDup (map fst (w_disk w));
  mi_max_in : In (w_maxfid w) (map fst (w_disk w));
  mi_max : forall f, In f (map fst (w_disk w)) -> f <= w_maxfid w;
  mi_log : LogIx (ix_kv (w_ix w)) (recs w) (w_committed w) (w_maxfid w) (w_woff w)
}.

Lemma minv_loc_sound : forall w, MInv w -> idx_loc_sound w.
Proof. intros w H. exact (li_loc _ _ _ _ _ (mi_log w H)). Qed.

Lemma minv_latest : forall w, MInv w -> idx_latest w.
Proof. intros w H. exact (li_latest _ _ _ _ _ (mi_log w H)). Qed.

(** ---- one record appended to the log, indexed iff committed key/value ---- *)
Definition ix_step (comm : list N) (kv : list (bytes * kvidx)) (r : N * N * entry) : list (bytes * kvidx) :=
  let '(f, p, e) := r in
  if nmem (e_txid e) comm && (e_ds e =? DS_KV) then apply_kv kv e f p else kv.

Lemma getdef_sorted : forall kv b, (forall b ix, alookup kv b = Some ix -> ksorted ix) -> ksorted (getdef kv b []).
Proof.
  intros kv b H. unfold getdef. destruct (alookup kv b) as [ix|] eqn:E; [exact (H b ix E)|exact ksorted_nil].
Qed.

Lemma apply_kv_sorted : forall kv e f p, (forall b ix, alookup kv b = Some ix -> ksorted ix) ->
  forall b ix, alookup (apply_kv kv e f p) b = Some ix -> ksorted ix.
Proof.
  intros kv e f p H b ix Hb. unfold apply_kv in Hb.
  destruct (bytes_eqb (e_bucket e) b) eqn:E.
  - apply bytes_eqb_eq in E. subst b. rewrite alookup_aset_same in Hb. injection Hb as Hb. subst ix.
    apply kv_insert_sorted. apply getdef_sorted. exact H.
  - assert (Hne : e_bucket e <> b) by (intros X; subst b; rewrite IndexFacts.bytes_eqb_refl in E; discriminate E).
    rewrite (alookup_aset_other _ _ _ _ Hne) in Hb. exact (H b ix Hb).
Qed.

Lemma kvl_apply_kv : forall kv e f p b k, (forall b ix, alookup kv b = Some ix -> ksorted ix) ->
  kvl (apply_kv kv e f p) b k =
  if bytes_eqb (e_bucket e) b && bytes_eqb (e_key e) k then Some (krec_of e f p) else kvl kv b k.
Proof.
  intros kv e f p b k H. unfold kvl, apply_kv.
  destruct (bytes_eqb (e_bucket e) b) eqn:E; cbn [andb].
  - apply bytes_eqb_eq in E. subst b. rewrite alookup_aset_same.
    destruct (bytes_eqb (e_key e) k) eqn:Ek.
    + apply bytes_eqb_eq in Ek. subst k. apply kv_find_insert_same. apply getdef_sorted. exact H.
    + assert (Hne : k <> e_key e) by (intros X; subst k; rewrite IndexFacts.bytes_eqb_refl in Ek; discriminate Ek).
      rewrite (kv_find_insert_other _ _ _ _ Hne). unfold getdef.
      destruct (alookup kv (e_bucket e)); reflexivity.
  - assert (Hne : e_bucket e <> b) by (intros X; subst b; rewrite IndexFacts.bytes_eqb_refl in E; discriminate E).
    rewrite (alookup_aset_other _ _ _ _ Hne). reflexivity.
Qed.

Lemma logix_step : forall kv rs comm hf hp f p e hf' hp',
  LogIx kv rs comm hf hp -> loc_le hf hp f p -> loc_lt f p hf' hp' ->
  LogIx (ix_step comm kv (f, p, e)) (rs ++ [(f, p, e)]) comm hf' hp'.
Proof.
  intros kv rs comm hf hp f p e hf' hp' [Hs Hr Hb Hl Ht] Hle Hlt. unfold ix_step.
  destruct (nmem (e_txid e) comm && (e_ds e =? DS_KV)) eqn:Ec.
  - apply andb_true_iff in Ec. destruct Ec as [Ecomm Eds]. apply N.eqb_eq in Eds.
    constructor.
    + exact (apply_kv_sorted kv e f p Hs).
    + intros f0 p0 e0 Hin. apply in_app_or in Hin. destruct Hin as [Hin|[Hin|[]]].
      * pose proof (Hr f0 p0 e0 Hin). locs.
      * injection Hin as E1 E2 E3. subst f0 p0 e0. exact Hlt.
    + intros b k r Hk. rewrite (kvl_apply_kv kv e f p b k Hs) in Hk.
      destruct (bytes_eqb (e_bucket e) b && bytes_eqb (e_key e) k).
      * injection Hk as Hk. subst r. cbn [krec_of kr_fid kr_pos]. exact Hlt.
      * pose proof (Hb b k r Hk). locs.
    + intros b k r e0 Hk Hin. rewrite (kvl_apply_kv kv e f p b k Hs) in Hk.
      destruct (bytes_eqb (e_bucket e) b && bytes_eqb (e_key e) k) eqn:Ebk.
      * injection Hk as Hk. subst r. cbn [krec_of kr_fid kr_pos] in Hin.
        apply in_app_or in Hin. destruct Hin as [Hin|[Hin|[]]].
        -- pose proof (Hr f p e0 Hin). exfalso. locs.
        -- injection Hin as E3. subst e0. apply andb_true_iff in Ebk. destruct Ebk as [E1 E2].
           apply bytes_eqb_eq in E1. apply bytes_eqb_eq in E2.
           unfold rec_matches, krec_of. cbn [kr_val kr_ts kr_ttl kr_flag]. repeat split; assumption.
      * apply in_app_or in Hin. destruct Hin as [Hin|[Hin|[]]].
        -- exact (Hl b k r e0 Hk Hin).
        -- injection Hin as E1 E2 E3. pose proof (Hb b k r Hk). exfalso. locs.
    + intros f0 p0 e0 r Hin Hds Hc Hk. rewrite (kvl_apply_kv kv e f p _ _ Hs) in Hk.
      apply in_app_or in Hin. destruct Hin as [Hin|[Hin|[]]].
      * destruct (bytes_eqb (e_bucket e) (e_bucket e0) && bytes_eqb (e_key e) (e_key e0)).
        -- injection Hk as Hk. subst r. cbn [krec_of kr_fid kr_pos]. pose proof (Hr f0 p0 e0 Hin). locs.
        -- exact (Ht f0 p0 e0 r Hin Hds Hc Hk).
      * injection Hin as E1 E2 E3. subst f0 p0 e0. rewrite !IndexFacts.bytes_eqb_refl in Hk. cbn [andb] in Hk.
        injection Hk as Hk. subst r. cbn [krec_of kr_fid kr_pos]. locs.
  - constructor.
    + exact Hs.
    + intros f0 p0 e0 Hin. apply in_app_or in Hin. destruct Hin as [Hin|[Hin|[]]].
      * pose proof (Hr f0 p0 e0 Hin). locs.
      * injection Hin as E1 E2 E3. subst f0 p0 e0. exact Hlt.
    + intros b k r Hk. pose proof (Hb b k r Hk). locs.
    + intros b k r e0 Hk Hin. apply in_app_or in Hin. destruct Hin as [Hin|[Hin|[]]].
      * exact (Hl b k r e0 Hk Hin).
      * injection Hin as E1 E2 E3. pose proof (Hb b k r Hk). exfalso. locs.
    + intros f0 p0 e0 r Hin Hds Hc Hk. apply in_app_or in Hin. destruct Hin as [Hin|[Hin|[]]].
      * exact (Ht f0 p0 e0 r Hin Hds Hc Hk).
      * injection Hin as E1 E2 E3. subst f0 p0 e0. rewrite Hc, Hds in Ec. discriminate Ec.
Qed.

(** ---- a run of records appended in increasing locations ---- *)
Fixpoint locs_from (hf hp : N) (ws : list (N * N * entry)) : Prop :=
  match ws with
  | [] => True
  | (f, p, e) :: t => loc_le hf hp f p /\ locs_from f (p + entry_size e) t
  end.

Fixpoint head_after (hf hp : N) (ws : list (N * N * entry)) : N * N :=
  match ws with
  | [] => (hf, hp)
  | (f, p, e) :: t => head_after f (p + entry_size e) t
  end.

Lemma logix_fold : forall ws kv rs comm hf hp,
  LogIx kv rs comm hf hp -> locs_from hf hp ws ->
  LogIx (fold_left (ix_step comm) ws kv) (rs ++ ws) comm (fst (head_after hf hp ws)) (snd (head_after hf hp ws)).
Proof.
  induction ws as [|[[f p] e] t IH]; intros kv rs comm hf hp H Hl.
  - cbn [fold_left head_after fst snd]. rewrite app_nil_r. exact H.
  - cbn [locs_from] in Hl. destruct Hl as [Hle Hrest]. cbn [fold_left head_after].
    replace (rs ++ (f, p, e) :: t) with ((rs ++ [(f, p, e)]) ++ t) by (rewrite <- app_assoc; reflexivity).
    apply IH; [|exact Hrest].
    apply (logix_step kv rs comm hf hp f p e f (p + entry_size e) H Hle).
    pose proof (entry_size_pos e). locs.
Qed.

Lemma locs_from_head_le : forall ws hf hp, locs_from hf hp ws ->
  loc_le hf hp (fst (head_after hf hp ws)) (snd (head_after hf hp ws)).
Proof.
  induction ws as [|[[f p] e] t IH]; intros hf hp H.
  - cbn [head_after fst snd]. locs.
  - cbn [locs_from] in H. destruct H as [Hle Hrest]. cbn [head_after].
    pose proof (IH _ _ Hrest) as H2. locs.
Qed.

(** weakenings *)
Lemma logix_sub : forall kv rs rs' comm hf hp,
  LogIx kv rs comm hf hp -> (forall x, In x rs' -> In x rs) -> LogIx kv rs' comm hf hp.
Proof.
  intros kv rs rs' comm hf hp [Hs Hr Hb Hl Ht] Hsub. constructor.
  - exact Hs.
  - intros f p e Hin. exact (Hr f p e (Hsub _ Hin)).
  - exact Hb.
  - intros b k r e Hk Hin. exact (Hl b k r e Hk (Hsub _ Hin)).
  - intros f p e r Hin. exact (Ht f p e r (Hsub _ Hin)).
Qed.

Lemma logix_head : forall kv rs comm hf hp hf' hp',
  LogIx kv rs comm hf hp -> loc_le hf hp hf' hp' -> LogIx kv rs comm hf' hp'.
Proof.
  intros kv rs comm hf hp hf' hp' [Hs Hr Hb Hl Ht] Hle. constructor; try assumption.
  - intros f p e Hin. pose proof (Hr f p e Hin). locs.
  - intros b k r Hk. pose proof (Hb b k r Hk). locs.
Qed.

(** a transaction id carried by no record can be added to the committed set *)
Lemma logix_fresh : forall kv rs comm hf hp id,
  LogIx kv rs comm hf hp -> ~ In id (ids_of rs) -> LogIx kv rs (id :: comm) hf hp.
Proof.
  intros kv rs comm hf hp id [Hs Hr Hb Hl Ht] Hfresh. constructor; try assumption.
  intros f p e r Hin Hds Hc Hk. apply (Ht f p e r Hin Hds); [|exact Hk].
  unfold nmem in Hc. cbn [existsb] in Hc. apply orb_true_iff in Hc. destruct Hc as [Hc|Hc]; [|exact Hc].
  apply N.eqb_eq in Hc. exfalso. apply Hfresh. unfold ids_of. apply in_map_iff.
  exists (f, p, e). split; [exact Hc|exact Hin].
Qed.

Lemma logix_comm_ext : forall kv rs c1 c2 hf hp,
  (forall id, nmem id c2 = nmem id c1) -> LogIx kv rs c1 hf hp -> LogIx kv rs c2 hf hp.
Proof.
  intros kv rs c1 c2 hf hp Hc [Hs Hr Hb Hl Ht]. constructor; try assumption.
  intros f p e r Hin Hds Hcm Hk. rewrite Hc in Hcm. exact (Ht f p e r Hin Hds Hcm Hk).
Qed.

(** ---- the write loop of Commit appends at increasing locations ---- *)
Lemma commit_loop_locs : forall pend seg mark st st' ws,
  commit_loop seg mark st pend = (st', ws) ->
  locs_from (c_maxfid st) (c_woff st) ws /\
  head_after (c_maxfid st) (c_woff st) ws = (c_maxfid st', c_woff st').
Proof.
  induction pend as [|e rest IH]; intros seg mark st st' ws H.
  - cbn [commit_loop] in H. injection H as E1 E2. subst st' ws. split; [exact I|reflexivity].
  - cbn [commit_loop] in H. rewrite commit_write_eq in H. cbv zeta in H.
    set (last := mark && match rest with [] => true | _ :: _ => false end) in H.
    set (st1 := rotate seg st (entry_size e)) in H.
    set (e' := if last then with_status e St_Committed else e) in H.
    cbv beta iota in H.
    destruct (commit_loop seg mark
                (mkC (disk_append (c_disk st1) (c_maxfid st1) (c_woff st1) e') (c_maxfid st1)
                     (c_woff st1 + entry_size e) (c_asize st1 + entry_size e)) rest) as [st2 rs] eqn:E2.
    injection H as E3 E4. subst st' ws.
    destruct (IH _ _ _ _ _ E2) as [A B]. cbn [c_maxfid c_woff] in A, B.
    assert (Hsz : entry_size e' = entry_size e) by (unfold e'; destruct last; reflexivity).
    assert (Hrot : loc_le (c_maxfid st) (c_woff st) (c_maxfid st1) (c_woff st1)).
    { unfold st1, rotate. destruct (seg <? c_asize st + entry_size e); cbn [c_maxfid c_woff]; locs. }
    cbn [locs_from head_after]. rewrite Hsz. split; [split; [exact Hrot|exact A]|exact B].
Qed.

Lemma commit_loop_written : forall pend seg mark st st' ws r,
  commit_loop seg mark st pend = (st', ws) -> In r ws ->
  exists e, In e pend /\ (snd r = e \/ snd r = with_status e St_Committed).
Proof.
  induction pend as [|e rest IH]; intros seg mark st st' ws r H Hin.
  - cbn [commit_loop] in H. injection H as E1 E2. subst ws. destruct Hin.
  - cbn [commit_loop] in H.
    set (last := mark && match rest with [] => true | _ :: _ => false end) in H.
    destruct (commit_write_rec seg st e last) as (fid & pos & Hr).
    destruct (commit_write seg st e last) as [st1 r1]. cbn [snd] in Hr. subst r1.
    destruct (commit_loop seg mark st1 rest) as [st2 rs] eqn:E2.
    injection H as E3 E4. subst st' ws. destruct Hin as [Hin|Hin].
    + subst r. cbn [snd]. exists e. split; [left; reflexivity|]. destruct last; [right|left]; reflexivity.
    + destruct (IH _ _ _ _ _ r E2 Hin) as [e1 [He1 Hs1]]. exists e1. split; [right; exact He1|exact Hs1].
Qed.

Lemma fold_ix_step_committed : forall comm ws kv,
  (forall r, In r ws -> nmem (e_txid (snd r)) comm = true) ->
  fold_left KVRefine.kv_step ws kv = fold_left (ix_step comm) ws kv.
Proof.
  intros comm ws. induction ws as [|[[f p] e] t IH]; intros kv H; [reflexivity|].
  cbn [fold_left]. rewrite IH by (intros r Hr; apply H; right; exact Hr).
  f_equal. unfold KVRefine.kv_step, ix_step.
  pose proof (H (f, p, e) (or_introl eq_refl)) as Hc. cbn [snd] in Hc. rewrite Hc. reflexivity.
Qed.

(** ---- Commit preserves [MInv] ---- *)
Lemma set_tx_done_minv : forall w, MInv w -> MInv (set_tx_done w).
Proof. intros w [A B C D]. constructor; assumption. Qed.

Theorem commit_minv : forall w t,
  MInv w -> ~ In (tx_id t) (ids_of (recs w)) -> Forall (fun e => e_txid e = tx_id t) (tx_pend t) ->
  MInv (fst (do_commit None w t)) /\
  (forall r, In r (recs (fst (do_commit None w t))) -> In r (recs w) \/ e_txid (snd r) = tx_id t) /\
  w_maxfid w <= w_maxfid (fst (do_commit None w t)).
Proof.
  intros w t HM Hfresh Hids. unfold do_commit.
  destruct (tx_pend t) as [|e0 rest] eqn:Ep.
  { cbn [fst]. split; [apply set_tx_done_minv; exact HM|]. split; [|cbn [set_tx_done w_maxfid]; lia].
    intros r Hr. left. exact Hr. }
  destruct (existsb _ (e0 :: rest)).
  { cbn [fst]. split; [exact HM|]. split; [|lia]. intros r Hr. left. exact Hr. }
  destruct (commit_loop (o_seg (w_opts w)) true (mkC (w_disk w) (w_maxfid w) (w_woff w) (w_asize w)) (e0 :: rest))
    as [st written] eqn:EL.
  cbn [fst]. destruct HM as [Hnd Hin Hmax Hlog].
  destruct (commit_loop_records (e0 :: rest) (o_seg (w_opts w)) true
              (mkC (w_disk w) (w_maxfid w) (w_woff w) (w_asize w)) st written Hnd Hin Hmax EL)
    as (A & _ & Hnd' & Hin' & Hmax').
  cbn [c_disk] in A. fold (recs w) in A.
  destruct (commit_loop_locs _ _ _ _ _ _ EL) as [Hlocs Hhead]. cbn [c_maxfid c_woff] in Hlocs, Hhead.
  assert (Hw : forall r, In r written -> e_txid (snd r) = tx_id t).
  { intros r Hr. destruct (commit_loop_written _ _ _ _ _ _ r EL Hr) as [e [He Hs]].
    rewrite Forall_forall in Hids. specialize (Hids e He).
    destruct Hs as [Hs|Hs]; rewrite Hs; [exact Hids|cbn [with_status e_txid]; exact Hids]. }
  split.
  - constructor; unfold recs; cbn [set_disk w_disk w_maxfid w_woff w_ix w_committed]; try assumption.
    rewrite A. rewrite commit_index_ix_kv.
    rewrite (fold_ix_step_committed (tx_id t :: w_committed w)).
    + pose proof (logix_fold written (ix_kv (w_ix w)) (recs w) (tx_id t :: w_committed w) (w_maxfid w) (w_woff w)
                    (logix_fresh _ _ _ _ _ _ Hlog Hfresh) Hlocs) as H.
      rewrite Hhead in H. exact H.
    + intros r Hr. rewrite (Hw r Hr). unfold nmem. cbn [existsb]. rewrite N.eqb_refl. reflexivity.
  - split.
    + intros r Hr. unfold recs in Hr. cbn [set_disk w_disk] in Hr. rewrite A in Hr.
      apply in_app_or in Hr. destruct Hr as [Hr|Hr]; [left; exact Hr|right; exact (Hw r Hr)].
    + cbn [set_disk w_maxfid]. pose proof (locs_from_head_le _ _ _ Hlocs) as Hle. rewrite Hhead in Hle.
      cbn [fst snd] in Hle. locs.
Qed.

(** ---- [merge_file] preserves [MInv] ---- *)
Lemma new_file_minv : forall w, MInv w -> MInv (new_file w) /\ recs (new_file w) = recs w.
Proof.
  intros w [Hnd Hin Hmax Hlog].
  pose proof (rotate_spec 0 (mkC (w_disk w) (w_maxfid w) (w_woff w) (w_asize w)) 1
                (conj Hnd (conj Hin Hmax))) as H.
  unfold rotate in H. cbn [c_disk c_maxfid c_woff c_asize] in H.
  assert (E : (0 <? w_asize w + 1) = true) by lia. rewrite E in H. cbn [c_disk c_maxfid] in H.
  destruct H as ((Hnd' & Hin' & Hmax') & Hrec & _). cbn [c_disk c_maxfid] in Hnd', Hin', Hmax'.
  split.
  - constructor; unfold recs; cbn [new_file w_disk w_maxfid w_woff w_ix w_committed]; try assumption.
    rewrite Hrec. apply (logix_head _ _ _ (w_maxfid w) (w_woff w)); [exact Hlog|locs].
  - unfold recs. cbn [new_file w_disk]. exact Hrec.
Qed.

Lemma map_fst_remove : forall d fid, map fst (disk_remove d fid) = filter (fun g => negb (g =? fid)) (map fst d).
Proof.
  intros d fid. induction d as [|[g s] r IH]; [reflexivity|].
  cbn [disk_remove filter map fst]. fold (disk_remove r fid).
  destruct (negb (g =? fid)); cbn [map fst]; rewrite IH; reflexivity.
Qed.

Lemma drop_file_minv : forall w fid x, MInv w -> fid <> w_maxfid w -> MInv (drop_file w fid x).
Proof.
  intros w fid x [Hnd Hin Hmax Hlog] Hne.
  constructor; unfold recs; cbn [drop_file w_disk w_maxfid w_woff w_ix w_committed].
  - rewrite map_fst_remove. apply NoDup_filter. exact Hnd.
  - rewrite map_fst_remove. apply filter_In. split; [exact Hin|].
    destruct (w_maxfid w =? fid) eqn:E; [lia|reflexivity].
  - intros f Hf. rewrite map_fst_remove in Hf. apply filter_In in Hf. destruct Hf as [Hf _]. exact (Hmax f Hf).
  - apply (logix_sub _ (recs w)); [exact Hlog|]. intros r Hr. exact (in_recs_remove _ _ _ Hr).
Qed.

Lemma merge_pend_txid : forall now w fid txid seg e, In e (merge_pend now w fid txid seg) -> e_txid e = txid.
Proof.
  intros now w fid txid seg e H. unfold merge_pend in H. apply in_map_iff in H.
  destruct H as [pe [E _]]. subst e. reflexivity.
Qed.

(** PRESERVATION: one step of Merge keeps [MInv], provided its transaction id
    is carried by no record on disk; and every record of the new log is an old
    one or carries that id *)
Theorem merge_file_minv : forall now w fid txid,
  MInv w -> ~ In txid (ids_of (recs w)) ->
  MInv (fst (merge_file now w fid txid)) /\
  (forall r, In r (recs (fst (merge_file now w fid txid))) -> In r (recs w) \/ e_txid (snd r) = txid).
Proof.
  intros now w fid txid HM Hfresh. rewrite merge_file_eq.
  destruct (disk_get (w_disk w) fid) as [seg|] eqn:Eseg; [|split; [exact HM|intros r Hr; left; exact Hr]].
  assert (Hfid : fid <= w_maxfid w) by (apply (mi_max w HM); exact (disk_get_some_in _ _ _ Eseg)).
  destruct (merge_pend now w fid txid seg) as [|e0 rest] eqn:Epend.
  - cbn [fst]. destruct (fid =? w_maxfid w) eqn:E.
    + destruct (new_file_minv w HM) as [HM1 Hrecs1]. split.
      * apply drop_file_minv; [exact HM1|cbn [new_file w_maxfid]; lia].
      * intros r Hr. left. rewrite <- Hrecs1. unfold recs in Hr. cbn [drop_file w_disk] in Hr.
        exact (in_recs_remove _ _ _ Hr).
    + split.
      * apply drop_file_minv; [exact HM|lia].
      * intros r Hr. left. unfold recs in Hr. cbn [drop_file w_disk] in Hr. exact (in_recs_remove _ _ _ Hr).
  - cbv beta iota zeta. destruct (new_file_minv w HM) as [HM1 Hrecs1].
    destruct (commit_minv (new_file w) (mkTx txid true (e0 :: rest)) HM1) as (HM2 & Hsub & Hmono).
    + cbn [tx_id]. rewrite Hrecs1. exact Hfresh.
    + cbn [tx_id tx_pend]. rewrite <- Epend. apply Forall_forall. intros e He.
      exact (merge_pend_txid _ _ _ _ _ _ He).
    + cbn [new_file w_maxfid] in Hmono. cbn [tx_id] in Hsub.
      destruct (do_commit None (new_file w) (mkTx txid true (e0 :: rest))) as [w2 ok].
      cbn [fst snd] in *. destruct ok; cbn [fst].
      * split.
        -- apply drop_file_minv; [exact HM2|lia].
        -- intros r Hr. unfold recs in Hr. cbn [drop_file w_disk] in Hr. apply in_recs_remove in Hr.
           destruct (Hsub r Hr) as [H|H]; [left; rewrite <- Hrecs1; exact H|right; exact H].
      * split; [exact HM1|]. intros r Hr. left. rewrite <- Hrecs1. exact Hr.
Qed.

(** NO LOSS ON FAILURE: a step of Merge whose rewrite transaction is rejected
    (flag false) removes nothing: every record of the old log is still on disk *)
Lemma in_recs_create : forall d f x, In x (all_records d) -> In x (all_records (disk_create d f)).
Proof.
  intros d f [[g p] e] H. unfold disk_create. destruct (disk_get d f); [exact H|].
  apply in_all_records in H. destruct H as [s [Hs Hin]]. apply in_all_records. exists s.
  split; [|exact Hin]. rewrite disk_get_app, Hs. reflexivity.
Qed.

Lemma merge_file_failed_keeps_records : forall now w fid txid,
  snd (merge_file now w fid txid) = false ->
  forall r, In r (recs w) -> In r (recs (fst (merge_file now w fid txid))).
Proof.
  intros now w fid txid. rewrite merge_file_eq.
  destruct (disk_get (w_disk w) fid) as [seg|]; [|intros H; discriminate H].
  destruct (merge_pend now w fid txid seg) as [|e0 rest]; [intros H; discriminate H|].
  cbv beta iota zeta.
  destruct (snd (do_commit None (new_file w) (mkTx txid true (e0 :: rest)))); [intros H; discriminate H|].
  intros _ r Hr. cbn [fst]. unfold recs. cbn [new_file w_disk]. apply in_recs_create. exact Hr.
Qed.

(** ... and a failed step leaves every data file in place with its contents *)
Lemma merge_file_failed_keeps_files : forall now w fid txid,
  snd (merge_file now w fid txid) = false ->
  forall f s, disk_get (w_disk w) f = Some s -> disk_get (w_disk (fst (merge_file now w fid txid))) f = Some s.
Proof.
  intros now w fid txid. rewrite merge_file_eq.
  destruct (disk_get (w_disk w) fid) as [seg|]; [|intros H; discriminate H].
  destruct (merge_pend now w fid txid seg) as [|e0 rest]; [intros H; discriminate H|].
  cbv beta iota zeta.
  destruct (snd (do_commit None (new_file w) (mkTx txid true (e0 :: rest)))); [intros H; discriminate H|].
  intros _ f s Hs. cbn [fst new_file w_disk]. unfold disk_create.
  destruct (disk_get (w_disk w) (w_maxfid w + 1)); [exact Hs|]. rewrite disk_get_app, Hs. reflexivity.
Qed.

(** ------------------------------------------------------------------ *)
(** * TARGET 2 (corrected): the whole Merge keeps the key/value contents *)
(** ------------------------------------------------------------------ *)
Lemma merge_files_ok : forall fids now w s txid,
  kvrel w s -> MInv w -> (forall k, ~ In (txid + k) (ids_of (recs w))) ->
  kvrel (fst (merge_files now w fids txid)) s /\ MInv (fst (merge_files now w fids txid)).
Proof.
  induction fids as [|f r IH]; intros now w s txid Hrel HM Hfresh; [split; assumption|].
  cbn [merge_files].
  assert (Hf0 : ~ In txid (ids_of (recs w))) by (rewrite <- (N.add_0_r txid); apply Hfresh).
  destruct (merge_file_minv now w f txid HM Hf0) as [HM' Hsub].
  pose proof (merge_file_kvrel_corrected now w s f txid Hrel (minv_loc_sound w HM) (minv_latest w HM)) as Hrel'.
  destruct (merge_file now w f txid) as [w1 ok]. cbn [fst] in *.
  destruct ok; [|cbn [fst]; split; assumption].
  apply IH.
  - exact Hrel'.
  - exact HM'.
  - intros k Hin. unfold ids_of in Hin. apply in_map_iff in Hin. destruct Hin as [x [Ex Hx]].
    destruct (Hsub x Hx) as [H|H].
    + apply (Hfresh (1 + k)). unfold ids_of. apply in_map_iff. exists x. split; [lia|exact H].
    + lia.
Qed.

Theorem merge_kvrel_corrected : forall now w s txid0,
  kvrel w s -> MInv w -> (forall k, ~ In (txid0 + k) (ids_of (recs w))) ->
  kvrel (fst (do_merge now w txid0)) s /\ MInv (fst (do_merge now w txid0)).
Proof.
  intros now w s txid0 Hrel HM Hfresh. unfold do_merge.
  destruct (w_closed w); [split; assumption|].
  destruct (disk_fids (w_disk w)) as [|a [|b l]]; [split; assumption|split; assumption|].
  apply merge_files_ok; assumption.
Qed.

(** ------------------------------------------------------------------ *)
(** * [MInv] is reachable                                               *)
(** ------------------------------------------------------------------ *)
(** [MInv] only reads the disk, the active-file head, the key/value index and
    the committed ids *)
Lemma minv_ext : forall w w',
  w_disk w' = w_disk w -> w_maxfid w' = w_maxfid w -> w_woff w' = w_woff w -> w_ix w' = w_ix w ->
  (forall id, nmem id (w_committed w') = nmem id (w_committed w)) -> MInv w -> MInv w'.
Proof.
  intros w w' Hd Hm Ho Hi Hc [Hnd Hin Hmax Hlog].
  constructor; unfold recs in *; rewrite ?Hd, ?Hm, ?Ho, ?Hi; try assumption.
  exact (logix_comm_ext _ _ _ _ _ _ Hc Hlog).
Qed.

Lemma minv_empty : forall o, MInv (empty_world o).
Proof.
  intros o. constructor; cbn.
  - constructor; [intros []|constructor].
  - left. reflexivity.
  - intros f [H|[]]. subst. lia.
  - constructor.
    + intros b ix H. discriminate H.
    + intros f p e [].
    + intros b k r H. discriminate H.
    + intros b k r e H. discriminate H.
    + intros f p e r [].
Qed.

(** every call of the engine keeps [MInv]; Begin/Op/Commit/Rollback/Close need
    only the transaction part of [Inv] (fresh id, pending records carry it),
    Open uses [reopen_preserves], hence the replay equation of [Inv] *)
Theorem step_minv : forall now w c, Inv w -> MInv w -> call_ok w c -> MInv (fst (step now w c)).
Proof.
  intros now w c HI HM Hc. destruct c as [wr id|o| | | |o]; cbn [step].
  - destruct (w_closed w); [exact HM|]. cbn [fst]. apply (minv_ext w); try reflexivity. exact HM.
  - destruct (w_tx w) as [|t|] eqn:Et; try exact HM.
    pose proof (do_op_world now w t o) as Hw.
    destruct (do_op now w t o) as [[w' t'] r]. cbn [fst snd] in *. subst w'.
    apply (minv_ext w); try reflexivity. exact HM.
  - destruct (w_tx w) as [|t|] eqn:Et; try exact HM.
    pose proof (inv_tx w HI) as Htx. rewrite Et in Htx. cbn [tx_ok] in Htx. destruct Htx as [Hfresh Hpend].
    destruct (commit_minv w t HM Hfresh) as (H & _ & _).
    + eapply Forall_impl; [|exact Hpend]. intros e (_ & X & _). exact X.
    + destruct (do_commit None w t) as [w' ok]. exact H.
  - destruct (w_tx w) as [|t|] eqn:Et; try exact HM. cbn [fst]. apply (minv_ext w); try reflexivity. exact HM.
  - destruct (w_closed w); [exact HM|]. cbn [fst]. apply (minv_ext w); try reflexivity. exact HM.
  - cbn [fst]. destruct (reopen_preserves w o HI) as (A & B & C & D & _ & F & _).
    apply (minv_ext w); assumption.
Qed.

Lemma run_calls_minv : forall now cs w, Inv w -> MInv w -> calls_ok now w cs -> MInv (run_calls now w cs).
Proof.
  intros now cs. induction cs as [|c r IH]; intros w HI HM H; [exact HM|].
  cbn [calls_ok] in H. destruct H as (A & B & C). cbn [run_calls].
  apply IH; [apply step_inv; assumption|apply step_minv; assumption|exact C].
Qed.

(** every world reachable from an empty directory by engine calls with unique
    transaction ids satisfies [MInv] *)
Theorem reachable_minv : forall now cs o, calls_ok now (empty_world o) cs -> MInv (run_calls now (empty_world o) cs).
Proof. intros now cs o H. apply run_calls_minv; [apply inv_open_empty|apply minv_empty|exact H]. Qed.

(** TARGET 2 for reachable worlds: no invariant hypothesis is left *)
Corollary merge_kvrel_reachable : forall now0 cs o now s txid0,
  calls_ok now0 (empty_world o) cs ->
  let w := run_calls now0 (empty_world o) cs in
  kvrel w s -> (forall k, ~ In (txid0 + k) (ids_of (recs w))) ->
  kvrel (fst (do_merge now w txid0)) s.
Proof.
  intros now0 cs o now s txid0 Hcalls w Hrel Hfresh.
  exact (proj1 (merge_kvrel_corrected now w s txid0 Hrel (reachable_minv now0 cs o Hcalls) Hfresh)).
Qed.

(** ---- relation with the proposed [idx_on_disk] ---- *)
(** [idx_on_disk] gives [idx_loc_sound] as soon as a location holds at most
    one record *)
Definition loc_unique (w : world) : Prop :=
  forall f p e e', In (f, p, e) (recs w) -> In (f, p, e') (recs w) -> e = e'.

Lemma seg_read_in : forall s p e, seg_read s p = Some e -> In (p, e) s.
Proof.
  induction s as [|[p0 e0] t IH]; intros p e H; [discriminate H|]. cbn [seg_read] in H.
  destruct (p0 =? p) eqn:E.
  - apply N.eqb_eq in E. subst p0. injection H as H. subst e0. left. reflexivity.
  - right. exact (IH p e H).
Qed.

Lemma idx_on_disk_loc_sound : forall w, idx_on_disk w -> loc_unique w -> idx_loc_sound w.
Proof.
  intros w Hd Hu b k r e Hk Hin. unfold kvl in Hk.
  destruct (alookup (ix_kv (w_ix w)) b) as [ix|] eqn:Eix; [|discriminate Hk].
  destruct (Hd b ix k r Eix (kv_find_in ix k r Hk)) as (e0 & Hread & Hm).
  assert (Hin0 : In (kr_fid r, kr_pos r, e0) (recs w)).
  { unfold disk_read in Hread. destruct (disk_get (w_disk w) (kr_fid r)) as [s|] eqn:Es; [|discriminate Hread].
    unfold recs. apply in_all_records. exists s. split; [exact Es|exact (seg_read_in s _ _ Hread)]. }
  rewrite (Hu _ _ e e0 Hin Hin0). exact Hm.
Qed.

(** ------------------------------------------------------------------ *)
(** * The proposed statement of TARGET 1 is false                       *)
(** ------------------------------------------------------------------ *)
(** [Inv], [kvrel] and [idx_on_disk] do not constrain the offsets recorded in
    a segment.  In the world below (obtained by Open on a directory whose one
    segment lists offset 100 before offset 0 — not a state the engine itself
    produces) the index points at the later-listed, expired record at offset 0;
    [merge_keep] compares offsets only, finds the older record at offset 100
    "not superseded", and rewrites it: the key comes back to life with its old
    value.  [idx_latest] is exactly what excludes this. *)
Definition cx_o : opts := mkOpts 0 FileIO FileIO false 1000.
Definition cx_b : bytes := [x62].
Definition cx_k : bytes := [x6b].
Definition cx_e1 : entry := mkEntry cx_b cx_k [x31] 0 0 F_Set 1 DS_KV 1.
Definition cx_e2 : entry := mkEntry cx_b cx_k [x32] 0 1 F_Set 1 DS_KV 2.
Definition cx_d : disk := [(0, [(100, cx_e1); (0, cx_e2)])].
Definition cx_mw : world := do_open cx_o cx_d.
Definition cx_r : krec := mkK F_Set 0 1 2 0 0 [x32].
Definition cx_s : sstate := mkS [(cx_b, [(cx_k, mkV [x32] 0 1)])] ix_empty.

Lemma cx_ix : ix_kv (w_ix cx_mw) = [(cx_b, [(cx_k, cx_r)])].
Proof. vm_compute. reflexivity. Qed.

Lemma cx_inv : Inv cx_mw.
Proof.
  apply (inv_do_open cx_o cx_d 0).
  - cbn. constructor; [intros []|constructor].
  - cbn. left. reflexivity.
  - cbn. intros g [H|[]]. subst. lia.
  - intros r Hr. vm_compute in Hr. destruct Hr as [Hr|[Hr|[]]]; subst r; left; reflexivity.
  - apply Forall_forall. intros r Hr. vm_compute in Hr.
    destruct Hr as [Hr|[Hr|[]]]; subst r; intros H; discriminate H.
Qed.

Lemma cx_kvrel : kvrel cx_mw cx_s.
Proof.
  intros b. rewrite cx_ix. cbn [alookup cx_s s_kv].
  destruct (bytes_eqb cx_b b) eqn:E; [|reflexivity].
  split; [|split; [|split]].
  - constructor; constructor.
  - intros k r [H|[]]. injection H as H1 H2. subst k r. cbn. split; [right; reflexivity|reflexivity].
  - intros k r [H|[]]. injection H as H1 H2. subst k r. vm_compute. reflexivity.
  - vm_compute. reflexivity.
Qed.

Lemma cx_on_disk : idx_on_disk cx_mw.
Proof.
  intros b ix k r Hb Hin. rewrite cx_ix in Hb. cbn [alookup] in Hb.
  destruct (bytes_eqb cx_b b) eqn:E; [|discriminate Hb]. apply bytes_eqb_eq in E. subst b.
  injection Hb as Hb. subst ix. destruct Hin as [H|[]]. injection H as H1 H2. subst k r.
  exists cx_e2. vm_compute. repeat split; reflexivity.
Qed.

Theorem merge_file_kvrel_as_stated_false :
  ~ (forall now w s fid txid,
       Inv w -> kvrel w s -> idx_on_disk w -> w_tx w = TxNone \/ w_tx w = TxDone ->
       ~ In txid (ids_of (recs w)) ->
       kvrel (fst (merge_file now w fid txid)) s).
Proof.
  intros H.
  assert (Hfresh : ~ In 77 (ids_of (recs cx_mw))).
  { vm_compute. intros [X|[X|[]]]; discriminate X. }
  pose proof (H 100 cx_mw cx_s 0 77 cx_inv cx_kvrel cx_on_disk (or_introl eq_refl) Hfresh cx_b) as X.
  assert (E : ix_kv (w_ix (fst (merge_file 100 cx_mw 0 77))) = [(cx_b, [(cx_k, mkK F_Set 0 0 77 1 0 [x31])])])
    by (vm_compute; reflexivity).
  rewrite E in X. cbn [alookup] in X. rewrite IndexFacts.bytes_eqb_refl in X.
  destruct X as (_ & _ & _ & X). vm_compute in X. discriminate X.
Qed.

(** the same example against the whole Merge needs a second file; the
    statement of TARGET 2 as proposed fails for the same reason *)
Definition cx_d2 : disk := [(0, [(100, cx_e1); (0, cx_e2)]); (1, [])].
Definition cx_mw2 : world := do_open cx_o cx_d2.

Lemma cx_inv2 : Inv cx_mw2.
Proof.
  apply (inv_do_open cx_o cx_d2 1).
  - cbn. constructor; [intros [H|[]]; discriminate H|]. constructor; [intros []|constructor].
  - cbn. right. left. reflexivity.
  - cbn. intros g [H|[H|[]]]; subst; lia.
  - intros r Hr. vm_compute in Hr. destruct Hr as [Hr|[Hr|[]]]; subst r; left; reflexivity.
  - apply Forall_forall. intros r Hr. vm_compute in Hr.
    destruct Hr as [Hr|[Hr|[]]]; subst r; intros H; discriminate H.
Qed.

Lemma cx_ix2 : ix_kv (w_ix cx_mw2) = [(cx_b, [(cx_k, cx_r)])].
Proof. vm_compute. reflexivity. Qed.

Lemma cx_kvrel2 : kvrel cx_mw2 cx_s.
Proof.
  intros b. rewrite cx_ix2. cbn [alookup cx_s s_kv].
  destruct (bytes_eqb cx_b b) eqn:E; [|reflexivity].
  split; [|split; [|split]].
  - constructor; constructor.
  - intros k r [H|[]]. injection H as H1 H2. subst k r. cbn. split; [right; reflexivity|reflexivity].
  - intros k r [H|[]]. injection H as H1 H2. subst k r. vm_compute. reflexivity.
  - vm_compute. reflexivity.
Qed.

Lemma cx_on_disk2 : idx_on_disk cx_mw2.
Proof.
  intros b ix k r Hb Hin. rewrite cx_ix2 in Hb. cbn [alookup] in Hb.
  destruct (bytes_eqb cx_b b) eqn:E; [|discriminate Hb]. apply bytes_eqb_eq in E. subst b.
  injection Hb as Hb. subst ix. destruct Hin as [H|[]]. injection H as H1 H2. subst k r.
  exists cx_e2. vm_compute. repeat split; reflexivity.
Qed.

Theorem merge_kvrel_as_stated_false :
  ~ (forall now w s txid0,
       Inv w -> kvrel w s -> idx_on_disk w -> w_tx w = TxNone \/ w_tx w = TxDone ->
       (forall k, ~ In (txid0 + k) (ids_of (recs w))) ->
       kvrel (fst (do_merge now w txid0)) s).
Proof.
  intros H.
  assert (Hfresh : forall k, ~ In (77 + k) (ids_of (recs cx_mw2))).
  { assert (E : ids_of (recs cx_mw2) = [1; 2]) by (vm_compute; reflexivity).
    intros k Hin. rewrite E in Hin. destruct Hin as [X|[X|[]]]; lia. }
  pose proof (H 100 cx_mw2 cx_s 77 cx_inv2 cx_kvrel2 cx_on_disk2 (or_introl eq_refl) Hfresh cx_b) as X.
  assert (E : ix_kv (w_ix (fst (do_merge 100 cx_mw2 77))) = [(cx_b, [(cx_k, mkK F_Set 0 0 77 2 0 [x31])])])
    by (vm_compute; reflexivity).
  rewrite E in X. cbn [alookup] in X. rewrite IndexFacts.bytes_eqb_refl in X.
  destruct X as (_ & _ & _ & X). vm_compute in X. discriminate X.
Qed.

(** ------------------------------------------------------------------ *)
(** * A failed rewrite no longer loses data                              *)
(** ------------------------------------------------------------------ *)
(** [do_commit] rejects a transaction that holds a record larger than the
    segment size; this happens to the rewrite transaction of Merge as soon as
    the database was reopened with a smaller segment size than the one its
    records were written under.  The first model of Merge discarded the status
    of that commit and removed the old file unconditionally: the live records
    were then neither rewritten nor kept and every key was lost at the next
    Open (former finding [merge_failed_rewrite_loses_data]).  With the fix
    "Merge stops when a rewrite transaction fails" [merge_file] keeps the old
    file and reports the failure ([merge_file_failed_keeps_records] above), and
    on the very same history (engine calls only) nothing is lost any more. *)
Definition ov_o50 : opts := mkOpts 0 FileIO FileIO false 50.
Definition ov_o10 : opts := mkOpts 0 FileIO FileIO false 10.
Definition ov_calls : list call :=
  [CBegin true 1; COp (OPut cx_b [x31] [x76] 0 0); CCommit;
   CBegin true 2; COp (OPut cx_b [x32] [x76] 0 0); CCommit; COpen ov_o10].
Definition ov_w0 : world := run_calls 0 (empty_world ov_o50) ov_calls.
Definition ov_w1 : world := fst (do_merge 0 ov_w0 10).
Definition ov_get (w : world) : res :=
  snd (step 0 (fst (step 0 w (CBegin false 99))) (COp (OGet cx_b [x31]))).

Lemma ov_calls_ok : calls_ok 0 (empty_world ov_o50) ov_calls.
Proof. vm_compute. repeat split; try exact I; [intros []|intros [X|[]]; discriminate X]. Qed.

Example merge_failed_rewrite_keeps_data :
  ov_get ov_w0 = REntry [x31] [x76] /\                    (* before Merge: the key is there *)
  snd (do_merge 0 ov_w0 10) = false /\                    (* the rewrite is rejected: Merge reports the failure *)
  map fst (w_disk ov_w1) = [0; 1; 2] /\                   (* both old data files are still there (2 = the empty new segment) *)
  disk_get (w_disk ov_w1) 0 = disk_get (w_disk ov_w0) 0 /\ (* ... with their contents *)
  disk_get (w_disk ov_w1) 1 = disk_get (w_disk ov_w0) 1 /\
  recs ov_w1 = recs ov_w0 /\                              (* the log holds exactly the same records *)
  ov_get ov_w1 = REntry [x31] [x76] /\                    (* the key is still read *)
  ov_get (do_open ov_o10 (w_disk ov_w1)) = REntry [x31] [x76] /\   (* and still found after a reopen *)
  ov_get (do_open ov_o50 (w_disk ov_w1)) = REntry [x31] [x76].
Proof. vm_compute. repeat split; reflexivity. Qed.

(** ------------------------------------------------------------------ *)
(** * [MInv] is established by Open on any well-formed directory         *)
(** ------------------------------------------------------------------ *)
(** This closes the loop after a Merge: Merge breaks the replay equation of
    [Inv] (so [reopen_preserves] is no longer available), but it keeps the
    directory well formed, and Open on a well-formed directory yields [MInv]
    from scratch. *)

(** a segment is well formed when every record sits at the sum of the sizes
    of the records before it (what appending to a file produces) *)
Fixpoint seg_wf (off : N) (s : segment) : Prop :=
  match s with [] => True | (p, e) :: t => p = off /\ seg_wf (off + entry_size e) t end.

Definition disk_wf (d : disk) : Prop := forall f s, disk_get d f = Some s -> seg_wf 0 s.

Definition seg_end_from (off : N) (s : segment) : N := fold_left (fun a pe => a + entry_size (snd pe)) s off.

Lemma seg_end_from_ge : forall s off, off <= seg_end_from off s.
Proof.
  induction s as [|[p e] t IH]; intros off; cbn [seg_end_from fold_left]; [lia|].
  pose proof (IH (off + entry_size (snd (p, e)))) as H. unfold seg_end_from in H. cbn [snd] in *. lia.
Qed.

Lemma seg_wf_in : forall s off p e, seg_wf off s -> In (p, e) s -> off <= p /\ p + entry_size e <= seg_end_from off s.
Proof.
  induction s as [|[p0 e0] t IH]; intros off p e Hwf Hin; [destruct Hin|].
  cbn [seg_wf] in Hwf. destruct Hwf as [Hp Ht]. cbn [seg_end_from fold_left snd].
  destruct Hin as [Hin|Hin].
  - injection Hin as E1 E2. subst p0 e0 p. split; [lia|].
    pose proof (seg_end_from_ge t (off + entry_size e)) as H. unfold seg_end_from in H. exact H.
  - destruct (IH _ p e Ht Hin) as [A B]. unfold seg_end_from in B. split; [lia|exact B].
Qed.

Lemma seg_wf_app : forall s off e, seg_wf off s -> seg_wf off (s ++ [(seg_end_from off s, e)]).
Proof.
  induction s as [|[p0 e0] t IH]; intros off e H.
  - cbn. split; [reflexivity|exact I].
  - cbn [seg_wf] in H. destruct H as [Hp Ht]. cbn [app seg_wf seg_end_from fold_left snd].
    split; [exact Hp|]. apply (IH _ e Ht).
Qed.

Lemma locs_from_app : forall a b hf hp,
  locs_from hf hp a -> locs_from (fst (head_after hf hp a)) (snd (head_after hf hp a)) b ->
  locs_from hf hp (a ++ b).
Proof.
  induction a as [|[[f p] e] t IH]; intros b hf hp Ha Hb; [exact Hb|].
  cbn [locs_from] in Ha. destruct Ha as [Hle Ht]. cbn [app locs_from]. split; [exact Hle|].
  apply IH; [exact Ht|exact Hb].
Qed.

Lemma head_after_app : forall a b hf hp,
  head_after hf hp (a ++ b) = head_after (fst (head_after hf hp a)) (snd (head_after hf hp a)) b.
Proof.
  induction a as [|[[f p] e] t IH]; intros b hf hp; [reflexivity|]. cbn [app head_after]. apply IH.
Qed.

Lemma head_after_le : forall ws hf hp hf' hp',
  (forall f p e, In (f, p, e) ws -> loc_le f (p + entry_size e) hf' hp') -> loc_le hf hp hf' hp' ->
  loc_le (fst (head_after hf hp ws)) (snd (head_after hf hp ws)) hf' hp'.
Proof.
  induction ws as [|[[f p] e] t IH]; intros hf hp hf' hp' Hall Hle; [exact Hle|].
  cbn [head_after]. apply IH.
  - intros f0 p0 e0 Hin. apply Hall. right. exact Hin.
  - apply Hall. left. reflexivity.
Qed.

Lemma seg_wf_locs : forall s off f hf hp, seg_wf off s -> loc_le hf hp f off ->
  let l := map (fun pe : N * entry => (f, fst pe, snd pe)) s in
  locs_from hf hp l /\ (head_after hf hp l = (hf, hp) \/ fst (head_after hf hp l) = f).
Proof.
  induction s as [|[p e] t IH]; intros off f hf hp Hwf Hle; cbv zeta.
  - cbn. split; [exact I|left; reflexivity].
  - cbn [seg_wf] in Hwf. destruct Hwf as [Hp Ht]. subst p. cbn [map fst snd locs_from head_after].
    assert (Hle2 : loc_le f (off + entry_size e) f (off + entry_size e)) by locs.
    destruct (IH (off + entry_size e) f f (off + entry_size e) Ht Hle2) as [A B]. cbv zeta in A, B.
    split; [split; [exact Hle|exact A]|]. right. destruct B as [B|B]; [rewrite B; reflexivity|exact B].
Qed.

Lemma locs_flat : forall d L hf hp,
  disk_wf d -> sorted L -> NoDup L -> (forall f, In f L -> loc_le hf hp f 0) ->
  locs_from hf hp (flat_map (seg_recs d) L).
Proof.
  intros d L. induction L as [|f L' IH]; intros hf hp Hwf Hs Hnd Hle; [exact I|].
  cbn [sorted] in Hs. destruct Hs as [Hf Hs']. inversion Hnd as [|x l Hnotin Hnd']; subst.
  cbn [flat_map].
  assert (Hseg : locs_from hf hp (seg_recs d f) /\
                 (head_after hf hp (seg_recs d f) = (hf, hp) \/ fst (head_after hf hp (seg_recs d f)) = f)).
  { unfold seg_recs. destruct (disk_get d f) as [s|] eqn:Es.
    - apply (seg_wf_locs s 0 f hf hp (Hwf f s Es)). apply Hle. left. reflexivity.
    - cbn. split; [exact I|left; reflexivity]. }
  destruct Hseg as [A B]. apply locs_from_app; [exact A|].
  apply IH; try assumption.
  intros g Hg. destruct B as [B|B].
  - rewrite B. cbn [fst snd]. apply Hle. right. exact Hg.
  - assert (f < g).
    { pose proof (Hf g Hg). assert (f <> g) by (intros E; subst g; contradiction). lia. }
    unfold loc_le. left. rewrite B. assumption.
Qed.

Lemma all_records_locs : forall d, NoDup (map fst d) -> disk_wf d -> locs_from 0 0 (all_records d).
Proof.
  intros d Hnd Hwf. rewrite all_records_eq. apply locs_flat.
  - exact Hwf.
  - apply nsort_sorted.
  - apply nsort_nodup. exact Hnd.
  - intros f _. locs.
Qed.

Lemma ix_kv_replay1 : forall comm ix r, ix_kv (replay1 comm ix r) = ix_step comm (ix_kv ix) r.
Proof.
  intros comm ix [[f p] e]. unfold replay1, ix_step.
  destruct (nmem (e_txid e) comm); cbn [andb]; [|reflexivity].
  destruct (e_ds e =? DS_KV); [reflexivity|]. apply apply_ds_ix_kv.
Qed.

Lemma ix_kv_replay : forall comm rs ix,
  ix_kv (fold_left (replay1 comm) rs ix) = fold_left (ix_step comm) rs (ix_kv ix).
Proof.
  intros comm rs. induction rs as [|r t IH]; intros ix; [reflexivity|].
  cbn [fold_left]. rewrite IH, ix_kv_replay1. reflexivity.
Qed.

Lemma logix_nil : forall comm, LogIx [] [] comm 0 0.
Proof.
  intros comm. constructor.
  - intros b ix H. discriminate H.
  - intros f p e [].
  - intros b k r H. discriminate H.
  - intros b k r e H. discriminate H.
  - intros f p e r [].
Qed.

Theorem open_minv : forall o d f,
  NoDup (map fst d) -> In f (map fst d) -> (forall g, In g (map fst d) -> g <= f) -> disk_wf d ->
  MInv (do_open o d).
Proof.
  intros o d f Hnd Hin Hmax Hwf. rewrite (do_open_eq o d f Hnd Hin Hmax). cbv zeta.
  constructor; unfold recs; cbn [w_disk w_maxfid w_woff w_ix w_committed]; try assumption.
  unfold replay. rewrite ix_kv_replay. cbn [ix_empty ix_kv].
  set (comm := committed_ids (all_records d)).
  pose proof (logix_fold (all_records d) [] [] comm 0 0 (logix_nil comm) (all_records_locs d Hnd Hwf)) as H.
  cbn [app] in H. eapply logix_head; [exact H|].
  apply head_after_le; [|destruct (disk_get d f); locs].
  intros g p e Hg. pose proof (Hmax g (in_recs_fid d g p e Hg)) as Hgf.
  destruct (N.eq_dec g f) as [E|E]; [|locs]. subst g.
  apply in_all_records in Hg. destruct Hg as [s [Hs Hps]]. rewrite Hs.
  destruct (seg_wf_in s 0 p e (Hwf f s Hs) Hps) as [_ B]. unfold seg_end. unfold seg_end_from in B. locs.
Qed.

(** ------------------------------------------------------------------ *)
(** * The full invariant [WInv]: preserved by every engine call AND by Merge *)
(** ------------------------------------------------------------------ *)
Definition off_okw (w : world) : Prop :=
  forall s, disk_get (w_disk w) (w_maxfid w) = Some s -> w_woff w = seg_end s /\ w_asize w = seg_end s.

(** everything but the transaction state *)
Definition W2 (w : world) : Prop := MInv w /\ disk_wf (w_disk w) /\ off_okw w.

Record WInv (w : world) : Prop := mkWInv {
  wi_w2 : W2 w;
  wi_tx : tx_ok (recs w) (w_tx w)
}.

Lemma disk_wf_create : forall d f, disk_wf d -> disk_wf (disk_create d f).
Proof.
  intros d f H. unfold disk_create. destruct (disk_get d f) as [s0|] eqn:E; [exact H|].
  intros g s Hg. rewrite disk_get_app in Hg. destruct (disk_get d g) as [s1|] eqn:Eg.
  - injection Hg as Hg. subst s1. exact (H g s Eg).
  - cbn [disk_get] in Hg. destruct (f =? g); [|discriminate Hg]. injection Hg as Hg. subst s. exact I.
Qed.

Lemma disk_wf_append : forall d f s e, disk_wf d -> disk_get d f = Some s ->
  disk_wf (disk_append d f (seg_end s) e).
Proof.
  intros d f s e H Hs g s' Hg. destruct (N.eq_dec g f) as [E|E].
  - subst g. rewrite (disk_get_append_same d f _ e s Hs) in Hg. injection Hg as Hg. subst s'.
    apply (seg_wf_app s 0 e). exact (H f s Hs).
  - rewrite (disk_get_append_other d f _ e g E) in Hg. exact (H g s' Hg).
Qed.

Lemma commit_write_wf : forall seg st e last st' r,
  cst_ok st -> off_ok st -> disk_wf (c_disk st) -> commit_write seg st e last = (st', r) ->
  disk_wf (c_disk st').
Proof.
  intros seg st e last st' r Hok Hoff Hwf H. rewrite commit_write_eq in H. cbv zeta in H.
  destruct (rotate_spec seg st (entry_size e) Hok) as ((Hnd & Hin & Hmax) & _ & Hoff1).
  specialize (Hoff1 Hoff).
  assert (Hwf1 : disk_wf (c_disk (rotate seg st (entry_size e)))).
  { unfold rotate. destruct (seg <? c_asize st + entry_size e); [|exact Hwf].
    cbn [c_disk]. apply disk_wf_create. exact Hwf. }
  set (st1 := rotate seg st (entry_size e)) in *.
  injection H as E1 E2. subst st'. cbn [c_disk].
  destruct (disk_get_in _ _ Hin) as [s1 Hs1]. destruct (Hoff1 s1 Hs1) as [A _]. rewrite A.
  apply disk_wf_append; assumption.
Qed.

Lemma commit_loop_wf : forall pend seg mark st st' ws,
  cst_ok st -> off_ok st -> disk_wf (c_disk st) -> commit_loop seg mark st pend = (st', ws) ->
  disk_wf (c_disk st').
Proof.
  induction pend as [|e rest IH]; intros seg mark st st' ws Hok Hoff Hwf H.
  - cbn [commit_loop] in H. injection H as E1 E2. subst st'. exact Hwf.
  - cbn [commit_loop] in H.
    destruct (commit_write seg st e (mark && match rest with [] => true | _ => false end)) as [st1 r] eqn:E1.
    destruct (commit_loop seg mark st1 rest) as [st2 rs] eqn:E2.
    injection H as E3 E4. subst st' ws.
    destruct (commit_write_spec _ _ _ _ _ _ Hok E1) as (_ & _ & Hok1 & Hoff1).
    apply (IH _ _ _ _ _ Hok1 (Hoff1 Hoff) (commit_write_wf _ _ _ _ _ _ Hok Hoff Hwf E1) E2).
Qed.

Lemma commit_wf : forall w t, MInv w -> disk_wf (w_disk w) -> off_okw w ->
  disk_wf (w_disk (fst (do_commit None w t))) /\ off_okw (fst (do_commit None w t)).
Proof.
  intros w t HM Hwf Hoff. unfold do_commit.
  destruct (tx_pend t) as [|e0 rest]; [split; assumption|].
  destruct (existsb _ (e0 :: rest)); [split; assumption|].
  destruct (commit_loop (o_seg (w_opts w)) true (mkC (w_disk w) (w_maxfid w) (w_woff w) (w_asize w)) (e0 :: rest))
    as [st written] eqn:EL.
  cbn [fst]. destruct HM as [Hnd Hin Hmax _].
  assert (Hc0 : cst_ok (mkC (w_disk w) (w_maxfid w) (w_woff w) (w_asize w))) by (repeat split; assumption).
  assert (Ho0 : off_ok (mkC (w_disk w) (w_maxfid w) (w_woff w) (w_asize w))) by exact Hoff.
  destruct (commit_loop_spec _ _ _ _ _ _ Hc0 EL) as (_ & _ & _ & D).
  split.
  - cbn [set_disk w_disk]. exact (commit_loop_wf _ _ _ _ _ _ Hc0 Ho0 Hwf EL).
  - exact (D Ho0).
Qed.

Lemma new_file_w2 : forall w, W2 w -> W2 (new_file w) /\ recs (new_file w) = recs w.
Proof.
  intros w (HM & Hwf & Hoff). destruct (new_file_minv w HM) as [HM1 Hr]. split; [|exact Hr].
  split; [exact HM1|]. split.
  - cbn [new_file w_disk]. apply disk_wf_create. exact Hwf.
  - intros s Hs. cbn [new_file w_disk w_maxfid w_woff w_asize] in *.
    assert (Hn : disk_get (w_disk w) (w_maxfid w + 1) = None).
    { destruct (disk_get (w_disk w) (w_maxfid w + 1)) as [s0|] eqn:E; [|reflexivity].
      apply disk_get_some_in in E. apply (mi_max w HM) in E. lia. }
    unfold disk_create in Hs. rewrite Hn in Hs. rewrite disk_get_app, Hn in Hs. cbn [disk_get] in Hs.
    rewrite N.eqb_refl in Hs. injection Hs as Hs. subst s. split; reflexivity.
Qed.

Lemma drop_file_w2 : forall w fid x, W2 w -> fid <> w_maxfid w -> W2 (drop_file w fid x).
Proof.
  intros w fid x (HM & Hwf & Hoff) Hne. split; [apply drop_file_minv; assumption|]. split.
  - intros g s Hg. cbn [drop_file w_disk] in Hg. rewrite disk_get_remove in Hg.
    destruct (g =? fid); [discriminate Hg|]. exact (Hwf g s Hg).
  - intros s Hs. cbn [drop_file w_disk w_maxfid w_woff w_asize] in *. rewrite disk_get_remove in Hs.
    destruct (w_maxfid w =? fid); [discriminate Hs|]. exact (Hoff s Hs).
Qed.

Theorem merge_file_w2 : forall now w fid txid,
  W2 w -> ~ In txid (ids_of (recs w)) -> W2 (fst (merge_file now w fid txid)).
Proof.
  intros now w fid txid HW Hfresh. rewrite merge_file_eq.
  destruct (disk_get (w_disk w) fid) as [seg|] eqn:Eseg; [|exact HW].
  assert (Hfid : fid <= w_maxfid w).
  { destruct HW as (HM & _). apply (mi_max w HM). exact (disk_get_some_in _ _ _ Eseg). }
  destruct (merge_pend now w fid txid seg) as [|e0 rest] eqn:Epend.
  - cbn [fst]. destruct (fid =? w_maxfid w) eqn:E.
    + destruct (new_file_w2 w HW) as [HW1 _]. apply drop_file_w2; [exact HW1|cbn [new_file w_maxfid]; lia].
    + apply drop_file_w2; [exact HW|lia].
  - cbv beta iota zeta. destruct (new_file_w2 w HW) as [(HM1 & Hwf1 & Hoff1) Hrecs1].
    destruct (commit_minv (new_file w) (mkTx txid true (e0 :: rest)) HM1) as (HM2 & _ & Hmono).
    + cbn [tx_id]. rewrite Hrecs1. exact Hfresh.
    + cbn [tx_id tx_pend]. rewrite <- Epend. apply Forall_forall. intros e He.
      exact (merge_pend_txid _ _ _ _ _ _ He).
    + destruct (commit_wf (new_file w) (mkTx txid true (e0 :: rest)) HM1 Hwf1 Hoff1) as [Hwf2 Hoff2].
      cbn [new_file w_maxfid] in Hmono.
      destruct (do_commit None (new_file w) (mkTx txid true (e0 :: rest))) as [w2 ok].
      cbn [fst snd] in *. destruct ok; cbn [fst].
      * apply drop_file_w2; [split; [exact HM2|split; assumption]|lia].
      * split; [exact HM1|split; assumption].
Qed.

Lemma merge_file_tx : forall now w fid txid, w_tx (fst (merge_file now w fid txid)) = w_tx w.
Proof.
  intros now w fid txid. rewrite merge_file_eq. destruct (disk_get (w_disk w) fid); [|reflexivity].
  destruct (merge_pend now w fid txid s); [cbn [fst]; destruct (fid =? w_maxfid w); reflexivity|].
  cbv beta iota zeta. destruct (snd (do_commit None (new_file w) (mkTx txid true (e :: l)))); reflexivity.
Qed.

Lemma merge_files_w2 : forall fids now w txid,
  W2 w -> (forall k, ~ In (txid + k) (ids_of (recs w))) ->
  W2 (fst (merge_files now w fids txid)) /\ w_tx (fst (merge_files now w fids txid)) = w_tx w.
Proof.
  induction fids as [|f r IH]; intros now w txid HW Hfresh; [split; [exact HW|reflexivity]|].
  cbn [merge_files].
  assert (Hf0 : ~ In txid (ids_of (recs w))) by (rewrite <- (N.add_0_r txid); apply Hfresh).
  destruct HW as (HM & Hrest).
  destruct (merge_file_minv now w f txid HM Hf0) as [_ Hsub].
  pose proof (merge_file_w2 now w f txid (conj HM Hrest) Hf0) as HW1.
  pose proof (merge_file_tx now w f txid) as Htx1.
  destruct (merge_file now w f txid) as [w1 ok]. cbn [fst] in *.
  destruct ok; [|cbn [fst]; split; assumption].
  destruct (IH now w1 (txid + 1)) as [A B].
  - exact HW1.
  - intros k Hin. unfold ids_of in Hin. apply in_map_iff in Hin. destruct Hin as [x [Ex Hx]].
    destruct (Hsub x Hx) as [H|H].
    + apply (Hfresh (1 + k)). unfold ids_of. apply in_map_iff. exists x. split; [lia|exact H].
    + lia.
  - split; [exact A|]. rewrite B. exact Htx1.
Qed.

(** Merge keeps [WInv] (it is run outside any transaction) *)
Theorem do_merge_winv : forall now w txid0,
  WInv w -> w_tx w = TxNone \/ w_tx w = TxDone -> (forall k, ~ In (txid0 + k) (ids_of (recs w))) ->
  WInv (fst (do_merge now w txid0)).
Proof.
  intros now w txid0 HW Htx Hfresh. unfold do_merge.
  destruct (w_closed w); [exact HW|].
  destruct (disk_fids (w_disk w)) as [|a [|b l]]; [exact HW|exact HW|].
  destruct (merge_files_w2 (a :: b :: l) now w txid0 (wi_w2 w HW) Hfresh) as [A B].
  constructor; [exact A|]. rewrite B. destruct Htx as [E|E]; rewrite E; exact I.
Qed.

(** ---- every engine call keeps [WInv] (no appeal to [Inv]) ---- *)
Lemma w2_ext : forall w w',
  w_disk w' = w_disk w -> w_maxfid w' = w_maxfid w -> w_woff w' = w_woff w -> w_asize w' = w_asize w ->
  w_ix w' = w_ix w -> (forall id, nmem id (w_committed w') = nmem id (w_committed w)) -> W2 w -> W2 w'.
Proof.
  intros w w' Hd Hm Ho Ha Hi Hc (HM & Hwf & Hoff). split; [exact (minv_ext w w' Hd Hm Ho Hi Hc HM)|].
  split; [rewrite Hd; exact Hwf|]. unfold off_okw. rewrite Hd, Hm, Ho, Ha. exact Hoff.
Qed.

Lemma do_commit_tx : forall w t,
  fst (do_commit None w t) = w \/ w_tx (fst (do_commit None w t)) = TxDone.
Proof.
  intros w t. unfold do_commit. destruct (tx_pend t) as [|e0 rest]; [right; reflexivity|].
  destruct (existsb _ (e0 :: rest)); [left; reflexivity|].
  destruct (commit_loop _ _ _ _). right. reflexivity.
Qed.

Lemma winv_empty : forall o, WInv (empty_world o).
Proof.
  intros o. constructor; [|exact I]. split; [apply minv_empty|]. split.
  - intros f s H. change (w_disk (empty_world o)) with [(0, @nil (N * entry))] in H. cbn [disk_get] in H.
    destruct (0 =? f) eqn:E; [|discriminate H]. injection H as H. subst s. exact I.
  - intros s H. change (w_disk (empty_world o)) with [(0, @nil (N * entry))] in H.
    change (w_maxfid (empty_world o)) with 0 in H. cbn [disk_get] in H. rewrite N.eqb_refl in H.
    injection H as H. subst s. split; reflexivity.
Qed.

Theorem step_winv : forall now w c, WInv w -> call_ok w c -> WInv (fst (step now w c)).
Proof.
  intros now w c [HW Htx] Hc. destruct c as [wr id|o| | | |o]; cbn [step].
  - destruct (w_closed w); [constructor; assumption|]. cbn [fst]. constructor.
    + apply (w2_ext w); try reflexivity. exact HW.
    + cbn [set_tx w_tx tx_ok tx_id tx_pend]. split; [exact Hc|constructor].
  - destruct (w_tx w) as [|t|] eqn:Et; try (cbn [fst]; constructor; [exact HW|rewrite Et; exact I]).
    pose proof (do_op_world now w t o) as Hw.
    pose proof (do_op_tx_ok now w t o (recs w) Htx) as Hok.
    destruct (do_op now w t o) as [[w' t'] r]. cbn [fst snd] in *. subst w'. constructor.
    + apply (w2_ext w); try reflexivity. exact HW.
    + exact Hok.
  - destruct (w_tx w) as [|t|] eqn:Et; try (cbn [fst]; constructor; [exact HW|rewrite Et; exact I]).
    cbn [tx_ok] in Htx. destruct Htx as [Hfresh Hpend].
    destruct HW as (HM & Hwf & Hoff).
    assert (Hids : Forall (fun e => e_txid e = tx_id t) (tx_pend t)).
    { eapply Forall_impl; [|exact Hpend]. intros e (_ & X & _). exact X. }
    destruct (commit_minv w t HM Hfresh Hids) as (HM' & _ & _).
    destruct (commit_wf w t HM Hwf Hoff) as [Hwf' Hoff'].
    pose proof (do_commit_tx w t) as Hx.
    destruct (do_commit None w t) as [w' ok]. cbn [fst] in *. constructor.
    + split; [exact HM'|split; assumption].
    + destruct Hx as [Hx|Hx]; [subst w'; rewrite Et; split; assumption|rewrite Hx; exact I].
  - destruct (w_tx w) as [|t|] eqn:Et; try (cbn [fst]; constructor; [exact HW|rewrite Et; exact I]).
    cbn [fst]. constructor; [|exact I]. apply (w2_ext w); try reflexivity. exact HW.
  - destruct (w_closed w); [constructor; assumption|]. cbn [fst]. constructor; [|exact I].
    apply (w2_ext w); try reflexivity. exact HW.
  - cbn [fst]. destruct HW as (HM & Hwf & Hoff). destruct HM as [Hnd Hin Hmax Hlog].
    constructor.
    + split; [exact (open_minv o (w_disk w) (w_maxfid w) Hnd Hin Hmax Hwf)|].
      rewrite (do_open_eq o (w_disk w) (w_maxfid w) Hnd Hin Hmax). cbv zeta. split.
      * exact Hwf.
      * intros s Hs. cbn [w_disk w_maxfid w_woff w_asize] in *. rewrite Hs. split; reflexivity.
    + rewrite (do_open_eq o (w_disk w) (w_maxfid w) Hnd Hin Hmax). exact I.
Qed.

(** ---- histories of engine calls and Merges ---- *)
Inductive act := ACall (c : call) | AMerge (now txid0 : N).

Definition act_step (now0 : N) (w : world) (a : act) : world :=
  match a with
  | ACall c => fst (step now0 w c)
  | AMerge now txid0 => fst (do_merge now w txid0)
  end.

(** ids are unique: Begin gets an id no record carries, Merge (run outside any
    transaction) a range of such ids *)
Definition act_ok (w : world) (a : act) : Prop :=
  match a with
  | ACall c => call_ok w c
  | AMerge _ txid0 => (w_tx w = TxNone \/ w_tx w = TxDone) /\ forall k, ~ In (txid0 + k) (ids_of (recs w))
  end.

Fixpoint run_acts (now0 : N) (w : world) (l : list act) : world :=
  match l with [] => w | a :: r => run_acts now0 (act_step now0 w a) r end.

Fixpoint acts_ok (now0 : N) (w : world) (l : list act) : Prop :=
  match l with [] => True | a :: r => act_ok w a /\ acts_ok now0 (act_step now0 w a) r end.

Lemma act_step_winv : forall now0 w a, WInv w -> act_ok w a -> WInv (act_step now0 w a).
Proof.
  intros now0 w [c|now txid0] HW Hok; cbn [act_step act_ok] in *.
  - apply step_winv; assumption.
  - destruct Hok as [Htx Hfresh]. apply do_merge_winv; assumption.
Qed.

(** every world reachable from an empty directory by engine calls (including
    Close / Open with any options) AND Merges satisfies [WInv], hence [MInv] *)
Theorem reachable_winv : forall now0 l o, acts_ok now0 (empty_world o) l -> WInv (run_acts now0 (empty_world o) l).
Proof.
  intros now0 l o. generalize (winv_empty o). generalize (empty_world o).
  induction l as [|a r IH]; intros w HW H; [exact HW|].
  cbn [acts_ok] in H. destruct H as [A B]. cbn [run_acts]. apply IH; [|exact B].
  apply act_step_winv; assumption.
Qed.

(** TARGET 2, final form: in every world reachable by calls and Merges, Merge
    keeps the correspondence with the same specification state *)
Theorem merge_kvrel_reachable_gen : forall now0 l o now s txid0,
  acts_ok now0 (empty_world o) l ->
  let w := run_acts now0 (empty_world o) l in
  kvrel w s -> (forall k, ~ In (txid0 + k) (ids_of (recs w))) ->
  kvrel (fst (do_merge now w txid0)) s.
Proof.
  intros now0 l o now s txid0 Hacts w Hrel Hfresh.
  destruct (wi_w2 w (reachable_winv now0 l o Hacts)) as (HM & _).
  exact (proj1 (merge_kvrel_corrected now w s txid0 Hrel HM Hfresh)).
Qed.

(** ------------------------------------------------------------------ *)
(** * Remark: Merge preserves neither [idx_on_disk] nor [Inv]            *)
(** ------------------------------------------------------------------ *)
(** After Put k1, Delete k1 (same file) and Put k2 (next file), Merge drops
    the first file: both its records are dead.  The index keeps its tombstone
    for k1, which now points into a file that no longer exists, so
    [idx_on_disk] fails; and the index is no longer the replay of the log (the
    replay has no record for k1), so [inv_ix], hence [Inv], fails.  Both hold
    before the Merge.  This is why the iteration in [merge_kvrel_corrected]
    runs on [MInv] ([loc_sound] instead of [idx_on_disk], no replay equation). *)
Definition st_o : opts := mkOpts 0 FileIO FileIO false 100.
Definition st_calls : list call :=
  [CBegin true 1; COp (OPut cx_b [x31] [x76] 0 0); CCommit;
   CBegin true 2; COp (ODelete cx_b [x31]); CCommit;
   CBegin true 3; COp (OPut cx_b [x32] [x76] 0 0); CCommit].
Definition st_w0 : world := run_calls 0 (empty_world st_o) st_calls.
Definition st_w1 : world := fst (do_merge 0 st_w0 10).
Definition st_r1 : krec := mkK F_Del 0 0 2 0 45 [].
Definition st_r2 : krec := mkK F_Set 0 0 3 1 0 [x76].

Lemma st_calls_ok : calls_ok 0 (empty_world st_o) st_calls.
Proof.
  vm_compute. repeat split; try exact I.
  - intros [].
  - intros [X|[]]; discriminate X.
  - intros [X|[X|[]]]; discriminate X.
Qed.

Lemma st_ix0 : ix_kv (w_ix st_w0) = [(cx_b, [([x31], st_r1); ([x32], st_r2)])].
Proof. vm_compute. reflexivity. Qed.

Lemma st_ix1 : ix_kv (w_ix st_w1) = [(cx_b, [([x31], st_r1); ([x32], mkK F_Set 0 0 11 2 0 [x76])])].
Proof. vm_compute. reflexivity. Qed.

Example merge_breaks_idx_on_disk_and_inv :
  Inv st_w0 /\ idx_on_disk st_w0 /\ ~ idx_on_disk st_w1 /\ ~ Inv st_w1.
Proof.
  split; [apply reachable_inv; exact st_calls_ok|]. split; [|split].
  - intros b ix k r Hb Hin. rewrite st_ix0 in Hb. cbn [alookup] in Hb.
    destruct (bytes_eqb cx_b b) eqn:E; [|discriminate Hb]. apply bytes_eqb_eq in E. subst b.
    injection Hb as Hb. subst ix. destruct Hin as [H|[H|[]]]; injection H as H1 H2; subst k r.
    + exists (mkEntry cx_b [x31] [] 0 0 F_Del 1 DS_KV 2). vm_compute. repeat split; reflexivity.
    + exists (mkEntry cx_b [x32] [x76] 0 0 F_Set 1 DS_KV 3). vm_compute. repeat split; reflexivity.
  - intros H.
    assert (Hb : alookup (ix_kv (w_ix st_w1)) cx_b = Some [([x31], st_r1); ([x32], mkK F_Set 0 0 11 2 0 [x76])]).
    { rewrite st_ix1. reflexivity. }
    destruct (H cx_b _ [x31] st_r1 Hb (or_introl eq_refl)) as (e & Hread & _).
    vm_compute in Hread. discriminate Hread.
  - intros H. pose proof (f_equal ix_kv (inv_ix _ H)) as X. rewrite st_ix1 in X.
    vm_compute in X. discriminate X.
Qed.
