(** Engine.v — executable model of the nutsdb engine in the two RAM index modes:
    db.go (Open/buildIndexes/parseDataFiles/buildHintIdx/build*Idx, Close),
    tx.go (Begin/put/Commit/rotateActiveFile/Rollback/build*Idx),
    tx_bptree.go (Get/GetAll/RangeScan/PrefixScan/PrefixSearchScan/Delete),
    tx_list.go, tx_set.go, tx_zset.go.

    Disk: a directory of data segments; a segment is the list of the records
    appended to it with their offsets.  Codec.v/CodecFacts.v tie that list to
    the bytes (decode (encode e) = e; an incomplete record ends the scan), so
    a segment here is what parseDataFiles reads from it. *)
From Verif Require Export Bytes Codec Dec ListDS SetDS ZSetDS Index.
Open Scope N_scope.

(** flags and structure codes (db.go const blocks) *)
Definition F_Del : N := 0.      Definition F_Set : N := 1.
Definition F_LPush : N := 2.    Definition F_RPush : N := 3.
Definition F_LRem : N := 4.     Definition F_LPop : N := 5.
Definition F_RPop : N := 6.     Definition F_LSet : N := 7.
Definition F_LTrim : N := 8.    Definition F_ZAdd : N := 9.
Definition F_ZRem : N := 10.    Definition F_ZRemRange : N := 11.
Definition F_ZPopMax : N := 12. Definition F_ZPopMin : N := 13.
Definition DS_Set : N := 0.     Definition DS_ZSet : N := 1.
Definition DS_KV : N := 2.      Definition DS_List : N := 3.
Definition St_Committed : N := 1.

Record opts := mkOpts { o_mode : N; o_rw : rwmode; o_load : rwmode; o_sync : bool; o_seg : N }.

Record indexes := mkIx {
  ix_kv : list (bytes * kvidx);
  ix_list : list (bytes * lmap);
  ix_set : list (bytes * smap);
  ix_zset : list (bytes * zset)
}.
Definition ix_empty : indexes := mkIx [] [] [] [].

Definition segment := list (N * entry).          (* (offset, record) oldest first *)
Definition disk := list (N * segment).           (* (file id, content) *)

(** ---------- results of API calls (projected observables) ---------- *)
Inductive res :=
| ROk | RErr | RPanic | RNil
| REntry (k v : bytes)
| REntries (es : list (bytes * bytes)) (off : Z)
| RInt (z : Z) | RBool (b : bool)
| RVal (v : bytes)
| RList (l : list bytes)
| RNodes (l : list znode)
| RNode (o : option znode)
| RInadmissible.

(** ---------- applying a committed record to the structure indexes ----------
    [strict] = true is DB.build*Idx (open-time replay), false is Tx.build*Idx
    (commit time): the only textual difference left after fixes e489c1f and
    d811c33 is the len(keyAndScore)==2 test of the replay. *)
Definition getdef {V} (m : list (bytes * V)) (b : bytes) (d : V) : V :=
  match alookup m b with Some v => v | None => d end.

Definition apply_set (s : smap) (e : entry) : smap :=
  if e_flag e =? F_Del then fst (s_srem s (e_key e) [e_value e])
  else if e_flag e =? F_Set then s_sadd s (e_key e) [e_value e]
  else s.

Definition apply_zset (strict : bool) (z : zset) (e : entry) : zset :=
  let f := e_flag e in
  if f =? F_ZAdd then
    match split_all (e_key e) with
    | k :: sc :: rest =>
        if strict && negb (match rest with [] => true | _ => false end) then z
        else z_put z k (parse_Z sc) (e_value e)
    | _ => z
    end
  else if f =? F_ZRem then z_remove z (e_key e)
  else if f =? F_ZRemRange then snd (z_rankrange z (parse_Z (e_key e)) (parse_Z (e_value e)))
  else if f =? F_ZPopMax then z_popmax z
  else if f =? F_ZPopMin then z_popmin z
  else z.

Definition apply_list (l : lmap) (e : entry) : lmap :=
  let f := e_flag e in
  if f =? F_LPush then l_lpush l (e_key e) [e_value e]
  else if f =? F_RPush then l_rpush l (e_key e) [e_value e]
  else if f =? F_LRem then
    match split_first (e_value e) with
    | Some (c, v) => fst (l_lrem l (e_key e) (parse_Z c) v)
    | None => l
    end
  else if f =? F_LPop then fst (l_lpop l (e_key e))
  else if f =? F_RPop then fst (l_rpop l (e_key e))
  else if f =? F_LSet then
    match split_all (e_key e) with
    | k :: i :: _ => fst (l_lset l k (parse_Z i) (e_value e))
    | _ => l
    end
  else if f =? F_LTrim then
    match split_all (e_key e) with
    | k :: s :: _ => fst (l_ltrim l k (parse_Z s) (parse_Z (e_value e)))
    | _ => l
    end
  else l.

Definition apply_ds (strict : bool) (ix : indexes) (e : entry) : indexes :=
  let b := e_bucket e in
  if e_ds e =? DS_Set then
    mkIx (ix_kv ix) (ix_list ix) (aset (ix_set ix) b (apply_set (getdef (ix_set ix) b []) e)) (ix_zset ix)
  else if e_ds e =? DS_ZSet then
    mkIx (ix_kv ix) (ix_list ix) (ix_set ix) (aset (ix_zset ix) b (apply_zset strict (getdef (ix_zset ix) b []) e))
  else if e_ds e =? DS_List then
    mkIx (ix_kv ix) (aset (ix_list ix) b (apply_list (getdef (ix_list ix) b []) e)) (ix_set ix) (ix_zset ix)
  else ix.

Definition krec_of (e : entry) (fid pos : N) : krec :=
  mkK (e_flag e) (e_ts e) (e_ttl e) (e_txid e) fid pos (e_value e).

Definition apply_kv (kv : list (bytes * kvidx)) (e : entry) (fid pos : N) : list (bytes * kvidx) :=
  aset kv (e_bucket e) (kv_insert (getdef kv (e_bucket e) []) (e_key e) (krec_of e fid pos)).

(** ---------- the world ---------- *)
Record txstate := mkTx { tx_id : N; tx_w : bool; tx_pend : list entry }.
Inductive txs := TxNone | TxActive (t : txstate) | TxDone.

Record world := mkW {
  w_opts : opts;
  w_closed : bool;
  w_disk : disk;
  w_maxfid : N;       (* DB.MaxFileID = id of the active file *)
  w_woff : N;         (* ActiveFile.writeOff *)
  w_asize : N;        (* ActiveFile.ActualSize *)
  w_ix : indexes;
  w_committed : list N;
  w_tx : txs
}.

Definition nmem (x : N) (l : list N) : bool := existsb (N.eqb x) l.

Fixpoint disk_get (d : disk) (fid : N) : option segment :=
  match d with [] => None | (f, s) :: r => if f =? fid then Some s else disk_get r fid end.

Fixpoint disk_append (d : disk) (fid : N) (pos : N) (e : entry) : disk :=
  match d with
  | [] => [(fid, [(pos, e)])]
  | (f, s) :: r => if f =? fid then (f, s ++ [(pos, e)]) :: r else (f, s) :: disk_append r fid pos e
  end.

Definition disk_create (d : disk) (fid : N) : disk :=
  match disk_get d fid with Some _ => d | None => d ++ [(fid, [])] end.

Fixpoint seg_read (s : segment) (pos : N) : option entry :=
  match s with [] => None | (p, e) :: r => if p =? pos then Some e else seg_read r pos end.

(** DataFile.ReadAt(pos) on segment fid as the read paths use it (the file is
    created when missing, and an all-zero header reads as (nil, nil)) *)
Definition disk_read (d : disk) (fid pos : N) : option entry :=
  match disk_get d fid with Some s => seg_read s pos | None => None end.

Definition seg_end (s : segment) : N := fold_left (fun a pe => a + entry_size (snd pe)) s 0.

(** insertion sort of file ids (sort.Ints) *)
Fixpoint ninsert (x : N) (l : list N) : list N :=
  match l with [] => [x] | y :: r => if x <=? y then x :: l else y :: ninsert x r end.
Definition nsort (l : list N) : list N := fold_right ninsert [] l.
Definition disk_fids (d : disk) : list N := nsort (map fst d).

(** ---------- Open ---------- *)
Definition with_status (e : entry) (st : N) : entry :=
  mkEntry (e_bucket e) (e_key e) (e_value e) (e_ts e) (e_ttl e) (e_flag e) st (e_ds e) (e_txid e).

(** parseDataFiles: all records of all segments in file-id order, with positions *)
Definition all_records (d : disk) : list (N * N * entry) :=
  flat_map (fun fid => match disk_get d fid with
                       | Some s => map (fun pe => (fid, fst pe, snd pe)) s
                       | None => [] end) (disk_fids d).

Definition committed_ids (rs : list (N * N * entry)) : list N :=
  flat_map (fun r => let e := snd r in if e_status e =? St_Committed then [e_txid e] else []) rs.

(** buildHintIdx: replay the records whose transaction id is committed *)
Definition replay1 (comm : list N) (ix : indexes) (r : N * N * entry) : indexes :=
  let '(fid, pos, e) := r in
  if nmem (e_txid e) comm then
    if e_ds e =? DS_KV then
      mkIx (apply_kv (ix_kv ix) (with_status e St_Committed) fid pos) (ix_list ix) (ix_set ix) (ix_zset ix)
    else apply_ds true ix e
  else ix.

Definition replay (comm : list N) (rs : list (N * N * entry)) : indexes :=
  fold_left (replay1 comm) rs ix_empty.

Definition last_fid (d : disk) : N := match rev (disk_fids d) with f :: _ => f | [] => 0 end.

Definition do_open (o : opts) (d : disk) : world :=
  let maxfid := last_fid d in
  let d1 := disk_create d maxfid in               (* setActiveFile creates it *)
  let off := match disk_get d1 maxfid with Some s => seg_end s | None => 0 end in
  let rs := all_records d1 in
  let comm := committed_ids rs in
  mkW o false d1 maxfid off off (replay comm rs) comm TxNone.

(** ---------- transactions ---------- *)
Definition mk_entry (t : txstate) (b k v : bytes) (ttl flag ts ds : N) : entry :=
  mkEntry b k v ts ttl flag 0 ds (tx_id t).

(** Tx.put *)
Definition tx_put (t : txstate) (b k v : bytes) (ttl flag ts ds : N) : txstate * res :=
  if negb (tx_w t) then (t, RErr)
  else match k with
       | [] => (t, RErr)
       | _ => (mkTx (tx_id t) (tx_w t) (tx_pend t ++ [mk_entry t b k v ttl flag ts ds]), ROk)
       end.

Fixpoint tx_put_all (t : txstate) (b k : bytes) (vs : list bytes) (flag ts ds : N) : txstate * res :=
  match vs with
  | [] => (t, ROk)
  | v :: r => match tx_put t b k v 0 flag ts ds with
              | (t', ROk) => tx_put_all t' b k r flag ts ds
              | (t', e) => (t', e)
              end
  end.

Definition set_tx_done (w : world) : world :=
  mkW (w_opts w) (w_closed w) (w_disk w) (w_maxfid w) (w_woff w) (w_asize w) (w_ix w) (w_committed w) TxDone.

(** state threaded through the write loop of Commit *)
Record cstate := mkC { c_disk : disk; c_maxfid : N; c_woff : N; c_asize : N }.

(** one iteration of the write loop: rotate when the record does not fit,
    append it (the last record of the transaction carries the commit marker).
    Returns the new state and where the record went. *)
Definition commit_write (seg : N) (st : cstate) (e : entry) (last : bool) : cstate * (N * N * entry) :=
  let sz := entry_size e in
  let st1 :=
    if seg <? c_asize st + sz
    then mkC (disk_create (c_disk st) (c_maxfid st + 1)) (c_maxfid st + 1) 0 0
    else st in
  let e' := if last then with_status e St_Committed else e in
  let pos := c_woff st1 in
  (mkC (disk_append (c_disk st1) (c_maxfid st1) pos e') (c_maxfid st1) (pos + sz) (c_asize st1 + sz),
   (c_maxfid st1, pos, e')).

(** [mark] = the list ends with the last record of the transaction *)
Fixpoint commit_loop (seg : N) (mark : bool) (st : cstate) (pend : list entry) : cstate * list (N * N * entry) :=
  match pend with
  | [] => (st, [])
  | e :: rest =>
      let '(st1, r) := commit_write seg st e (mark && match rest with [] => true | _ => false end) in
      let '(st2, rs) := commit_loop seg mark st1 rest in
      (st2, r :: rs)
  end.

Definition set_disk (w : world) (st : cstate) (ix : indexes) (comm : list N) (x : txs) : world :=
  mkW (w_opts w) (w_closed w) (c_disk st) (c_maxfid st) (c_woff st) (c_asize st) ix comm x.

(** index updates of a committed transaction: first the key/value records
    (in write order), then buildIdxes for the other structures *)
Definition commit_index (ix : indexes) (written : list (N * N * entry)) : indexes :=
  let kv := fold_left (fun kv r => let '(fid, pos, e) := r in
                                   if e_ds e =? DS_KV then apply_kv kv e fid pos else kv) written (ix_kv ix) in
  fold_left (fun ix r => apply_ds false ix (snd r)) written (mkIx kv (ix_list ix) (ix_set ix) (ix_zset ix)).

(** Tx.Commit on an active transaction (after fix d75ae6f): an oversized entry
    rejects the transaction before anything is written.
    [fault] = Some k models an I/O error reported by the k-th write (0-based):
    the records before it are on disk, nothing is indexed. *)
Definition do_commit (fault : option nat) (w : world) (t : txstate) : world * bool :=
  match tx_pend t with
  | [] => (set_tx_done w, true)
  | pend =>
      let seg := o_seg (w_opts w) in
      if existsb (fun e => seg <? entry_size e) pend then (w, false)
      else
        let st0 := mkC (w_disk w) (w_maxfid w) (w_woff w) (w_asize w) in
        match fault with
        | Some k =>
            let '(st, _) := commit_loop seg false st0 (firstn k pend) in
            (* the records written before the error carry no marker *)
            (set_disk w st (w_ix w) (w_committed w) (TxActive t), false)
        | None =>
            let '(st, written) := commit_loop seg true st0 pend in
            (set_disk w st (commit_index (w_ix w) written) (tx_id t :: w_committed w) TxDone, true)
        end
  end.

(** ---------- API calls inside a transaction ---------- *)
Inductive op :=
| OPut (b k v : bytes) (ttl ts : N)
| ODelete (b k : bytes)
| OGet (b k : bytes)
| OGetAll (b : bytes)
| ORangeScan (b s e : bytes)
| OPrefixScan (b p : bytes) (off lim : Z)
| OPrefixSearchScan (b p : bytes) (bad : bool) (ms : list bytes) (off lim : Z)
| ORPush (b k : bytes) (vs : list bytes)
| OLPush (b k : bytes) (vs : list bytes)
| ORPop (b k : bytes) | OLPop (b k : bytes) | ORPeek (b k : bytes) | OLPeek (b k : bytes)
| OLSize (b k : bytes)
| OLRange (b k : bytes) (s e : Z)
| OLRem (b k : bytes) (count : Z) (v : bytes)
| OLSet (b k : bytes) (i : Z) (v : bytes)
| OLTrim (b k : bytes) (s e : Z)
| OSAdd (b k : bytes) (items : list bytes)
| OSRem (b k : bytes) (items : list bytes)
| OSAreMembers (b k : bytes) (items : list bytes)
| OSIsMember (b k x : bytes)
| OSMembers (b k : bytes)
| OSHasKey (b k : bytes)
| OSPop (b k : bytes) (choice : option bytes)
| OSCard (b k : bytes)
| OSDiff1 (b k1 k2 : bytes)
| OSDiff2 (b1 k1 b2 k2 : bytes)
| OSMove1 (b k1 k2 x : bytes)
| OSMove2 (b1 k1 b2 k2 x : bytes)
| OSUnion1 (b k1 k2 : bytes)
| OSUnion2 (b1 k1 b2 k2 : bytes)
| OZAdd (b k : bytes) (score : Z) (v : bytes)
| OZMembers (b : bytes)
| OZCard (b : bytes)
| OZCount (b : bytes) (s e lim : Z) (exs exe : bool)
| OZPopMax (b : bytes) | OZPopMin (b : bytes) | OZPeekMax (b : bytes) | OZPeekMin (b : bytes)
| OZRangeByScore (b : bytes) (s e lim : Z) (exs exe : bool)
| OZRangeByRank (b : bytes) (s e : Z)
| OZRem (b k : bytes)
| OZRemRangeByRank (b : bytes) (s e : Z)
| OZRank (b k : bytes) | OZRevRank (b k : bytes) | OZScore (b k : bytes) | OZGetByKey (b k : bytes).

Definition pairs_of (rs : kvidx) : list (bytes * bytes) := map (fun kr => (fst kr, kr_val (snd kr))) rs.

(** materialise scan results: HintKeyValAndRAMIdxMode serves the value kept in
    the index, HintKeyAndRAMIdxMode reads the record back from its segment *)
Fixpoint items_of (mode : N) (d : disk) (rs : kvidx) : option (list (bytes * bytes)) :=
  match rs with
  | [] => Some []
  | (k, r) :: t =>
      match items_of mode d t with
      | None => None
      | Some tl =>
          if mode =? 0 then Some ((k, kr_val r) :: tl)
          else match disk_read d (kr_fid r) (kr_pos r) with
               | Some e => Some ((e_key e, e_value e) :: tl)
               | None => None
               end
      end
  end.

Definition entries_res (w : world) (rs : kvidx) (off : Z) : res :=
  match rs with
  | [] => RErr
  | _ => match items_of (o_mode (w_opts w)) (w_disk w) rs with
         | Some es => REntries es off
         | None => RNil
         end
  end.

Definition set_ix_set (ix : indexes) (s : list (bytes * smap)) : indexes :=
  mkIx (ix_kv ix) (ix_list ix) s (ix_zset ix).
Definition set_w_ix (w : world) (ix : indexes) : world :=
  mkW (w_opts w) (w_closed w) (w_disk w) (w_maxfid w) (w_woff w) (w_asize w) ix (w_committed w) (w_tx w).

Definition lres_val (r : lres bytes) : res := match r with LOk v => RVal v | LErr => RErr end.
Definition opt_list (o : option (list bytes)) : res := match o with Some l => RList l | None => RErr end.

(** the read-only list / set / sorted-set calls: a function of the structure
    indexes alone (shared with the L0 specification, Spec.v) *)
Definition ds_read (ix : indexes) (o : op) : option res :=
  match o with
  | ORPeek b k => Some match alookup (ix_list ix) b with None => RErr | Some l => lres_val (l_rpeek l k) end
  | OLPeek b k => Some match alookup (ix_list ix) b with None => RErr | Some l => lres_val (l_lpeek l k) end
  | OLSize b k =>
      Some match alookup (ix_list ix) b with
           | None => RErr
           | Some l => match l_size l k with LOk n => RInt n | LErr => RErr end
           end
  | OLRange b k s e =>
      Some match alookup (ix_list ix) b with
           | None => RErr
           | Some l => match l_lrange l k s e with LOk x => RList x | LErr => RErr end
           end
  | OSAreMembers b k items =>
      Some match alookup (ix_set ix) b with
           | None => RErr
           | Some s => if s_aremembers s k items then RBool true else RErr
           end
  | OSIsMember b k x =>
      Some match alookup (ix_set ix) b with
           | None => RErr
           | Some s => if s_ismember s k x then RBool true else RErr
           end
  | OSMembers b k => Some match alookup (ix_set ix) b with None => RErr | Some s => opt_list (s_members s k) end
  | OSHasKey b k => Some match alookup (ix_set ix) b with None => RErr | Some s => RBool (s_haskey s k) end
  | OSCard b k => Some match alookup (ix_set ix) b with None => RErr | Some s => RInt (s_card s k) end
  | OSDiff1 b k1 k2 => Some match alookup (ix_set ix) b with None => RErr | Some s => opt_list (s_diff s k1 k2) end
  | OSDiff2 b1 k1 b2 k2 =>
      Some match alookup (ix_set ix) b1, alookup (ix_set ix) b2 with
           | Some s1, Some s2 => RList (bsort (sdiff_l (getdef s1 k1 []) (getdef s2 k2 [])))
           | _, _ => RErr
           end
  | OSUnion1 b k1 k2 => Some match alookup (ix_set ix) b with None => RErr | Some s => opt_list (s_union s k1 k2) end
  | OSUnion2 b1 k1 b2 k2 =>
      Some match alookup (ix_set ix) b1, alookup (ix_set ix) b2 with
           | Some s1, Some s2 =>
               match alookup s1 k1, alookup s2 k2 with
               | Some a, Some c => RList (bsort (sunion_l a c))
               | _, _ => RErr
               end
           | _, _ => RErr
           end
  | OZMembers b => Some match alookup (ix_zset ix) b with None => RErr | Some z => RNodes z end
  | OZCard b => Some match alookup (ix_zset ix) b with None => RErr | Some z => RInt (zlen z) end
  | OZCount b s e lim exs exe =>
      Some match alookup (ix_zset ix) b with
           | None => RErr
           | Some z => RInt (zlen (z_scorerange z s e lim exs exe))
           end
  | OZPeekMax b => Some match alookup (ix_zset ix) b with None => RErr | Some z => RNode (z_peekmax z) end
  | OZPeekMin b => Some match alookup (ix_zset ix) b with None => RErr | Some z => RNode (z_peekmin z) end
  | OZRangeByScore b s e lim exs exe =>
      Some match alookup (ix_zset ix) b with
           | None => RErr
           | Some z => RNodes (z_scorerange z s e lim exs exe)
           end
  | OZRangeByRank b s e =>
      Some match alookup (ix_zset ix) b with None => RErr | Some z => RNodes (fst (z_rankrange z s e)) end
  | OZRank b k => Some match alookup (ix_zset ix) b with None => RErr | Some z => RInt (z_rank z k) end
  | OZRevRank b k => Some match alookup (ix_zset ix) b with None => RErr | Some z => RInt (z_revrank z k) end
  | OZScore b k =>
      Some match alookup (ix_zset ix) b with
           | None => RErr
           | Some z => match z_find z k with Some n => RInt (z_score n) | None => RErr end
           end
  | OZGetByKey b k =>
      Some match alookup (ix_zset ix) b with
           | None => RErr
           | Some z => match z_find z k with Some n => RNode (Some n) | None => RErr end
           end
  | _ => None
  end.

(** one API call on an active transaction *)
Definition do_op (now : N) (w : world) (t : txstate) (o : op) : world * txstate * res :=
  let ix := w_ix w in
  let ret (r : res) := (w, t, r) in
  let retp (p : txstate * res) := (w, fst p, snd p) in
  match ds_read ix o with
  | Some r => ret r
  | None =>
  match o with
  | OPut b k v ttl ts => retp (tx_put t b k v ttl F_Set ts DS_KV)
  | ODelete b k => retp (tx_put t b k [] 0 F_Del now DS_KV)
  | OGet b k =>
      match alookup (ix_kv ix) b with
      | None => ret RErr
      | Some kx =>
          match kv_find kx k with
          | None => ret RErr
          | Some r =>
              if negb (nmem (kr_txid r) (w_committed w)) then ret RErr
              else if kr_dead now r then ret RErr
              else if o_mode (w_opts w) =? 0 then ret (REntry k (kr_val r))
              else match disk_read (w_disk w) (kr_fid r) (kr_pos r) with
                   | Some e => ret (REntry (e_key e) (e_value e))
                   | None => ret RNil
                   end
          end
      end
  | OGetAll b =>
      match alookup (ix_kv ix) b with
      | None => ret RErr
      | Some kx => ret (entries_res w (wrap_items now (-1) kx 0) 0)
      end
  | ORangeScan b s e =>
      match alookup (ix_kv ix) b with
      | None => ret RErr
      | Some kx =>
          if bltb e s then ret RErr
          else ret (entries_res w (wrap_items now (-1) (kv_range kx s e) 0) 0)
      end
  | OPrefixScan b p off lim =>
      match alookup (ix_kv ix) b with
      | None => ret RErr
      | Some kx =>
          let '(rs, coff) := kv_prefix_scan now (fun _ => true) kx p off lim in
          ret (entries_res w (wrap_items now lim rs 0) coff)
      end
  | OPrefixSearchScan b p bad ms off lim =>
      match alookup (ix_kv ix) b with
      | None => ret RErr
      | Some kx =>
          if bad then ret RErr
          else
            let '(rs, coff) := kv_prefix_scan now (fun r => bmem r ms) kx p off lim in
            ret (entries_res w (wrap_items now lim rs 0) coff)
      end
  (* ---- lists ---- *)
  | ORPush b k vs => if contains_sep k then ret RErr else retp (tx_put_all t b k vs F_RPush now DS_List)
  | OLPush b k vs => if contains_sep k then ret RErr else retp (tx_put_all t b k vs F_LPush now DS_List)
  | ORPop b k =>
      match alookup (ix_list ix) b with
      | None => ret RErr
      | Some l => match l_rpeek l k with
                  | LErr => ret RErr
                  | LOk v => match tx_put t b k v 0 F_RPop now DS_List with
                             | (t', ROk) => (w, t', RVal v)
                             | (t', r) => (w, t', r)
                             end
                  end
      end
  | OLPop b k =>
      match alookup (ix_list ix) b with
      | None => ret RErr
      | Some l => match l_lpeek l k with
                  | LErr => ret RErr
                  | LOk v => match tx_put t b k v 0 F_LPop now DS_List with
                             | (t', ROk) => (w, t', RVal v)
                             | (t', r) => (w, t', r)
                             end
                  end
      end
  | OLRem b k count v =>
      match alookup (ix_list ix) b with
      | None => ret RErr
      | Some l =>
          match l_size l k with
          | LErr => ret RErr
          | LOk size =>
              if ((size <? count) || (count <? - size))%Z then ret RErr
              else match tx_put t b k (join_sep (print_Z count) v) 0 F_LRem now DS_List with
                   | (t', ROk) => match l_lremnum l k count v with
                                  | LOk n => (w, t', RInt n)
                                  | LErr => (w, t', RErr)
                                  end
                   | (t', r) => (w, t', r)
                   end
          end
      end
  | OLSet b k i v =>
      match alookup (ix_list ix) b with
      | None => ret RErr
      | Some l =>
          match l_size l k with
          | LErr => ret RErr
          | LOk size =>
              if ((i <? 0) || (size <=? i))%Z then ret RErr
              else retp (tx_put t b (join_sep k (print_Z i)) v 0 F_LSet now DS_List)
          end
      end
  | OLTrim b k s e =>
      match alookup (ix_list ix) b with
      | None => ret RErr
      | Some l =>
          match alookup l k with
          | None => ret RErr
          | Some items =>
              match lrange_list items s e with
              | LErr => ret RErr
              | LOk _ => retp (tx_put t b (join_sep k (print_Z s)) (print_Z e) 0 F_LTrim now DS_List)
              end
          end
      end
  (* ---- sets ---- *)
  | OSAdd b k items => retp (tx_put_all t b k items F_Set now DS_Set)
  | OSRem b k items => retp (tx_put_all t b k items F_Del now DS_Set)
  | OSPop b k choice =>
      match alookup (ix_set ix) b with
      | None => ret RErr
      | Some s =>
          match alookup s k with
          | None | Some [] => ret RErr
          | Some members =>
              match choice with
              | Some c =>
                  if bmem c members then
                    match tx_put t b k c 0 F_Del now DS_Set with
                    | (t', ROk) => (w, t', RVal c)
                    | (t', r) => (w, t', r)
                    end
                  else ret RInadmissible
              | None =>
                  (* the implementation reported an error: only possible when put rejects the write *)
                  match tx_put t b k [] 0 F_Del now DS_Set with
                  | (_, ROk) => ret RInadmissible
                  | (_, r) => ret r
                  end
              end
          end
      end
  | OSMove1 b k1 k2 x =>
      match alookup (ix_set ix) b with
      | None => ret RErr
      | Some s =>
          if s_haskey s k1 && s_haskey s k2 then
            (* Tx.sMove (fix ba1e448): add to the destination, remove from the source *)
            match tx_put t b k2 x 0 F_Set now DS_Set with
            | (t1, ROk) => match tx_put t1 b k1 x 0 F_Del now DS_Set with
                           | (t2, ROk) => (w, t2, RBool true)
                           | (t2, r) => (w, t2, r)
                           end
            | (t1, r) => (w, t1, r)
            end
          else ret RErr
      end
  | OSMove2 b1 k1 b2 k2 x =>
      match alookup (ix_set ix) b1, alookup (ix_set ix) b2 with
      | Some s1, Some s2 =>
          if s_haskey s1 k1 && s_haskey s2 k2 then
            match tx_put t b2 k2 x 0 F_Set now DS_Set with
            | (t1, ROk) => match tx_put t1 b1 k1 x 0 F_Del now DS_Set with
                           | (t2, ROk) => (w, t2, RBool true)
                           | (t2, r) => (w, t2, r)
                           end
            | (t1, r) => (w, t1, r)
            end
          else ret RErr
      | _, _ => ret RErr
      end
  (* ---- sorted sets ---- *)
  | OZAdd b k sc v =>
      if contains_sep k then ret RErr
      else retp (tx_put t b (join_sep k (print_Z sc)) v 0 F_ZAdd now DS_ZSet)
  | OZPopMax b =>
      match alookup (ix_zset ix) b with
      | None => ret RErr
      | Some z => match tx_put t b [x20] [] 0 F_ZPopMax now DS_ZSet with
                  | (t', ROk) => (w, t', RNode (z_peekmax z))
                  | (t', r) => (w, t', r)
                  end
      end
  | OZPopMin b =>
      match alookup (ix_zset ix) b with
      | None => ret RErr
      | Some z => match tx_put t b [x20] [] 0 F_ZPopMin now DS_ZSet with
                  | (t', ROk) => (w, t', RNode (z_peekmin z))
                  | (t', r) => (w, t', r)
                  end
      end
  | OZRem b k =>
      match alookup (ix_zset ix) b with
      | None => ret RErr
      | Some _ => retp (tx_put t b k [] 0 F_ZRem now DS_ZSet)
      end
  | OZRemRangeByRank b s e =>
      match alookup (ix_zset ix) b with
      | None => ret RErr
      | Some _ => retp (tx_put t b (print_Z s) (print_Z e) 0 F_ZRemRange now DS_ZSet)
      end
  | _ => ret RErr   (* read-only structure calls are answered by ds_read above *)
  end
  end.

(** ---------- top-level calls ---------- *)
Inductive call :=
| CBegin (writable : bool) (txid : N)
| COp (o : op)
| CCommit
| CRollback
| CClose
| COpen (o : opts).

Definition set_tx (w : world) (x : txs) : world :=
  mkW (w_opts w) (w_closed w) (w_disk w) (w_maxfid w) (w_woff w) (w_asize w) (w_ix w) (w_committed w) x.

Definition step (now : N) (w : world) (c : call) : world * res :=
  match c with
  | COpen o => (do_open o (w_disk w), ROk)
  | CClose =>
      if w_closed w then (w, RErr)
      else (mkW (w_opts w) true (w_disk w) (w_maxfid w) (w_woff w) (w_asize w) (w_ix w) (w_committed w) TxNone, ROk)
  | CBegin wr id =>
      if w_closed w then (w, RErr) else (set_tx w (TxActive (mkTx id wr [])), ROk)
  | COp o =>
      match w_tx w with
      | TxActive t => let '(w', t', r) := do_op now w t o in (set_tx w' (TxActive t'), r)
      | _ => (w, RErr)
      end
  | CCommit =>
      match w_tx w with
      | TxActive t => let '(w', ok) := do_commit None w t in (w', if ok then ROk else RErr)
      | _ => (w, RErr)
      end
  | CRollback =>
      match w_tx w with
      | TxActive _ => (set_tx w TxDone, ROk)
      | _ => (w, RErr)
      end
  end.

Definition empty_world (o : opts) : world := do_open o [].
