(** Spec.v — L0: the property text made executable.

    A database is a map  bucket -> structure  with no log, no files, no pending
    writes, no record encoding and no commit protocol:
      * key/value bucket : key -> (value, timestamp, ttl); a pair is live when
        ttl = 0 or now < timestamp + ttl;
      * list bucket      : key -> sequence (Redis list semantics, ListFacts.v);
      * set bucket       : key -> finite set (SetFacts.v);
      * sorted-set bucket: nodes ordered by (score, key) (ZSetFacts.v).
    A write transaction works on a private copy of the state: each call is
    applied at once and returns what the structure returns (serial semantics,
    C13); Commit installs the copy; Rollback or a failed Commit discards it
    (C12).  Read-only transactions reject every mutating call.

    The API's error conventions (which calls answer "not found" with an error,
    that an empty key is rejected, that list and sorted-set member keys may not
    contain '|') are part of this specification. *)
From Verif Require Export Engine.
Open Scope N_scope.

Record kvval := mkV { v_val : bytes; v_ts : N; v_ttl : N }.
Definition skv := list (bytes * kvval).       (* sorted by key; deleted keys are absent *)

Definition v_live (now : N) (v : kvval) : bool := (v_ttl v =? 0) || (now <? v_ts v + v_ttl v).

Fixpoint skv_put (m : skv) (k : bytes) (v : kvval) : skv :=
  match m with
  | [] => [(k, v)]
  | (k', v') :: t =>
      match bcompare k k' with
      | Eq => (k, v) :: t
      | Lt => (k, v) :: m
      | Gt => (k', v') :: skv_put t k v
      end
  end.

Fixpoint skv_del (m : skv) (k : bytes) : skv :=
  match m with
  | [] => []
  | (k', v') :: t => if bytes_eqb k' k then t else (k', v') :: skv_del t k
  end.

Fixpoint skv_get (m : skv) (k : bytes) : option kvval :=
  match m with
  | [] => None
  | (k', v) :: t => if bytes_eqb k' k then Some v else skv_get t k
  end.

(** the live pairs, ascending *)
Definition skv_live (now : N) (m : skv) : list (bytes * bytes) :=
  map (fun kv => (fst kv, v_val (snd kv))) (filter (fun kv => v_live now (snd kv)) m).

Definition pairs_res (es : list (bytes * bytes)) (off : Z) : res :=
  match es with [] => RErr | _ => REntries es off end.

Record sstate := mkS {
  s_kv : list (bytes * skv);
  s_ds : indexes                 (* list/set/sorted-set buckets; the kv field is unused *)
}.
Definition s_empty : sstate := mkS [] ix_empty.

Definition set_ds_list (ix : indexes) (l : list (bytes * lmap)) := mkIx (ix_kv ix) l (ix_set ix) (ix_zset ix).
Definition set_ds_set (ix : indexes) (l : list (bytes * smap)) := mkIx (ix_kv ix) (ix_list ix) l (ix_zset ix).
Definition set_ds_zset (ix : indexes) (l : list (bytes * zset)) := mkIx (ix_kv ix) (ix_list ix) (ix_set ix) l.

Definition zmin (a b : Z) := Z.min a b.

(** key/value reads *)
Definition spec_kv_read (now : N) (s : sstate) (o : op) : option res :=
  match o with
  | OGet b k =>
      Some match alookup (s_kv s) b with
           | None => RErr
           | Some m => match skv_get m k with
                       | Some v => if v_live now v then REntry k (v_val v) else RErr
                       | None => RErr
                       end
           end
  | OGetAll b =>
      Some match alookup (s_kv s) b with
           | None => RErr
           | Some m => pairs_res (skv_live now m) 0
           end
  | ORangeScan b st en =>
      Some match alookup (s_kv s) b with
           | None => RErr
           | Some m =>
               if bltb en st then RErr
               else pairs_res (filter (fun kv => bleb st (fst kv) && bleb (fst kv) en) (skv_live now m)) 0
           end
  | OPrefixScan b p off lim =>
      Some match alookup (s_kv s) b with
           | None => RErr
           | Some m =>
               let l := filter (fun kv => has_prefix (fst kv) p) (skv_live now m) in
               let coff := zmin (Z.max off 0) (zlen l) in
               let rest := skipn (Z.to_nat coff) l in
               if (0 <? lim)%Z then pairs_res (firstn (Z.to_nat lim) rest) coff
               else if (lim =? -1)%Z then pairs_res rest coff
               else RErr
           end
  | OPrefixSearchScan b p bad ms off lim =>
      Some match alookup (s_kv s) b with
           | None => RErr
           | Some m =>
               if bad then RErr
               else
                 let l := filter (fun kv => has_prefix (fst kv) p) (skv_live now m) in
                 let coff := zmin (Z.max off 0) (zlen l) in
                 let rest := filter (fun kv => bmem (skipn (length p) (fst kv)) ms) (skipn (Z.to_nat coff) l) in
                 if (0 <? lim)%Z then pairs_res (firstn (Z.to_nat lim) rest) coff
                 else if (lim =? -1)%Z then pairs_res rest coff
                 else RErr
           end
  | _ => None
  end.

Definition upd_list (s : sstate) (b : bytes) (f : lmap -> lmap) : sstate :=
  mkS (s_kv s) (set_ds_list (s_ds s) (aset (ix_list (s_ds s)) b (f (getdef (ix_list (s_ds s)) b [])))).
Definition upd_set (s : sstate) (b : bytes) (f : smap -> smap) : sstate :=
  mkS (s_kv s) (set_ds_set (s_ds s) (aset (ix_set (s_ds s)) b (f (getdef (ix_set (s_ds s)) b [])))).
Definition upd_zset (s : sstate) (b : bytes) (f : zset -> zset) : sstate :=
  mkS (s_kv s) (set_ds_zset (s_ds s) (aset (ix_zset (s_ds s)) b (f (getdef (ix_zset (s_ds s)) b [])))).

Definition nonempty (k : bytes) : bool := match k with [] => false | _ => true end.
Definition isnil {A} (l : list A) : bool := match l with [] => true | _ => false end.

(** mutating calls of a write transaction, applied at once *)
Definition spec_write (s : sstate) (o : op) : sstate * res :=
  let ds := s_ds s in
  match o with
  | OPut b k v ttl ts =>
      if nonempty k then (mkS (aset (s_kv s) b (skv_put (getdef (s_kv s) b []) k (mkV v ts ttl))) ds, ROk)
      else (s, RErr)
  | ODelete b k =>
      if nonempty k then (mkS (aset (s_kv s) b (skv_del (getdef (s_kv s) b []) k)) ds, ROk)
      else (s, RErr)
  | ORPush b k vs =>
      if contains_sep k then (s, RErr)
      else if isnil vs then (s, ROk)
      else if nonempty k then (upd_list s b (fun l => l_rpush l k vs), ROk) else (s, RErr)
  | OLPush b k vs =>
      if contains_sep k then (s, RErr)
      else if isnil vs then (s, ROk)
      else if nonempty k then (upd_list s b (fun l => l_lpush l k vs), ROk) else (s, RErr)
  | ORPop b k =>
      match alookup (ix_list ds) b with
      | None => (s, RErr)
      | Some l => match l_rpop l k with
                  | (l', LOk v) => if nonempty k then (upd_list s b (fun _ => l'), RVal v) else (s, RErr)
                  | (_, LErr) => (s, RErr)
                  end
      end
  | OLPop b k =>
      match alookup (ix_list ds) b with
      | None => (s, RErr)
      | Some l => match l_lpop l k with
                  | (l', LOk v) => if nonempty k then (upd_list s b (fun _ => l'), RVal v) else (s, RErr)
                  | (_, LErr) => (s, RErr)
                  end
      end
  | OLRem b k count v =>
      match alookup (ix_list ds) b with
      | None => (s, RErr)
      | Some l =>
          match l_size l k with
          | LErr => (s, RErr)
          | LOk size =>
              if ((size <? count) || (count <? - size))%Z then (s, RErr)
              else if nonempty k then
                match l_lrem l k count v with
                | (l', LOk n) => (upd_list s b (fun _ => l'), RInt n)
                | (_, LErr) => (s, RErr)
                end
              else (s, RErr)
          end
      end
  | OLSet b k i v =>
      match alookup (ix_list ds) b with
      | None => (s, RErr)
      | Some l => match l_lset l k i v with
                  | (l', true) => (upd_list s b (fun _ => l'), ROk)
                  | (_, false) => (s, RErr)
                  end
      end
  | OLTrim b k st en =>
      match alookup (ix_list ds) b with
      | None => (s, RErr)
      | Some l => match l_ltrim l k st en with
                  | (l', true) => (upd_list s b (fun _ => l'), ROk)
                  | (_, false) => (s, RErr)
                  end
      end
  | OSAdd b k items =>
      if isnil items then (s, ROk)
      else if nonempty k then (upd_set s b (fun m => fold_left (fun m x => s_sadd m k [x]) items m), ROk)
      else (s, RErr)
  | OSRem b k items =>
      if isnil items then (s, ROk)
      else if nonempty k then (upd_set s b (fun m => fold_left (fun m x => fst (s_srem m k [x])) items m), ROk)
      else (s, RErr)
  | OSPop b k choice =>
      match alookup (ix_set ds) b with
      | None => (s, RErr)
      | Some m =>
          match alookup m k with
          | None | Some [] => (s, RErr)
          | Some members =>
              match choice with
              | Some c => if bmem c members
                          then if nonempty k then (upd_set s b (fun m => fst (s_srem m k [c])), RVal c) else (s, RErr)
                          else (s, RInadmissible)
              | None => if nonempty k then (s, RInadmissible) else (s, RErr)
              end
          end
      end
  | OSMove1 b k1 k2 x =>
      match alookup (ix_set ds) b with
      | None => (s, RErr)
      | Some m => match s_move m k1 k2 x with
                  | (m', true) => (upd_set s b (fun _ => m'), RBool true)
                  | (_, false) => (s, RErr)
                  end
      end
  | OSMove2 b1 k1 b2 k2 x =>
      match alookup (ix_set ds) b1, alookup (ix_set ds) b2 with
      | Some s1, Some s2 =>
          if s_haskey s1 k1 && s_haskey s2 k2 then
            let st1 := if bmem x (getdef s2 k2 []) then s else upd_set s b2 (fun m => s_sadd m k2 [x]) in
            (upd_set st1 b1 (fun m => fst (s_srem m k1 [x])), RBool true)
          else (s, RErr)
      | _, _ => (s, RErr)
      end
  | OZAdd b k sc v =>
      if contains_sep k then (s, RErr) else (upd_zset s b (fun z => z_put z k sc v), ROk)
  | OZRem b k =>
      match alookup (ix_zset ds) b with
      | None => (s, RErr)
      | Some _ => if nonempty k then (upd_zset s b (fun z => z_remove z k), ROk) else (s, RErr)
      end
  | OZRemRangeByRank b st en =>
      match alookup (ix_zset ds) b with
      | None => (s, RErr)
      | Some _ => (upd_zset s b (fun z => snd (z_rankrange z st en)), ROk)
      end
  | OZPopMax b =>
      match alookup (ix_zset ds) b with
      | None => (s, RErr)
      | Some z => (upd_zset s b z_popmax, RNode (z_peekmax z))
      end
  | OZPopMin b =>
      match alookup (ix_zset ds) b with
      | None => (s, RErr)
      | Some z => (upd_zset s b z_popmin, RNode (z_peekmin z))
      end
  | _ => (s, RErr)
  end.

(** is the call a mutating one (rejected by read-only transactions)?  The
    validation that precedes the write is still performed first. *)
Definition is_write (o : op) : bool :=
  match o with
  | OPut _ _ _ _ _ | ODelete _ _ | ORPush _ _ _ | OLPush _ _ _ | ORPop _ _ | OLPop _ _
  | OLRem _ _ _ _ | OLSet _ _ _ _ | OLTrim _ _ _ _ | OSAdd _ _ _ | OSRem _ _ _ | OSPop _ _ _
  | OSMove1 _ _ _ _ | OSMove2 _ _ _ _ _ | OZAdd _ _ _ _ | OZRem _ _ | OZRemRangeByRank _ _ _
  | OZPopMax _ | OZPopMin _ => true
  | _ => false
  end.

Definition spec_op (now : N) (writable : bool) (s : sstate) (o : op) : sstate * res :=
  match ds_read (s_ds s) o with
  | Some r => (s, r)
  | None =>
      match spec_kv_read now s o with
      | Some r => (s, r)
      | None =>
          let '(s', r) := spec_write s o in
          if writable then (s', r)
          else (* a read-only transaction: the call fails and changes nothing *)
            (s, match o, r with
                | ORPush _ _ [], ROk | OLPush _ _ [], ROk | OSAdd _ _ [], ROk | OSRem _ _ [], ROk => ROk
                | _, _ => RErr
                end)
      end
  end.

(** ---- the transactional wrapper ---- *)
Inductive stx := SNone | SActive (writable : bool) (work : sstate) | SDone.
Record sworld := mkSW { sw_closed : bool; sw_state : sstate; sw_tx : stx }.

Definition sworld0 : sworld := mkSW false s_empty SNone.

(** [commit_ok] is the outcome the implementation reported for Commit: the
    specification does not say when a commit fails, only what a failed one
    must (not) do. *)
Definition spec_step (now : N) (commit_ok : bool) (w : sworld) (c : call) : sworld * res :=
  match c with
  | COpen _ => (mkSW false (sw_state w) SNone, ROk)          (* C08: a reopen preserves the state *)
  | CClose => if sw_closed w then (w, RErr) else (mkSW true (sw_state w) SNone, ROk)
  | CBegin wr _ =>
      if sw_closed w then (w, RErr) else (mkSW false (sw_state w) (SActive wr (sw_state w)), ROk)
  | COp o =>
      match sw_tx w with
      | SActive wr work => let '(work', r) := spec_op now wr work o in
                           (mkSW (sw_closed w) (sw_state w) (SActive wr work'), r)
      | _ => (w, RErr)
      end
  | CCommit =>
      match sw_tx w with
      | SActive wr work =>
          if commit_ok then (mkSW (sw_closed w) (if wr then work else sw_state w) SDone, ROk)
          else (w, RErr)
      | _ => (w, RErr)
      end
  | CRollback =>
      match sw_tx w with
      | SActive _ _ => (mkSW (sw_closed w) (sw_state w) SDone, ROk)
      | _ => (w, RErr)
      end
  end.
