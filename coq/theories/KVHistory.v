(** KVHistory.v — C01 for every history: run the engine model and the L0
    specification side by side on ANY sequence of calls (transactions with any
    mix of calls on all structures, rollbacks, failed commits, Close/Open with
    any options); after every prefix of the history the key/value indexes of
    the engine correspond (kvrel) to the specification's committed state, and
    hence (KVRefine.kv_reads_refine) every key/value read returns the
    specification's answer. *)
From Coq Require Import Sorted.
From Verif Require Import Bytes BytesFacts Codec Dec ListDS ListFacts SetDS SetFacts ZSetDS Index Engine Spec TxFacts IndexFacts ReplayFacts KVRefine Merge MergeFacts.
From Coq Require Import Lia ZifyN ZifyNat ZifyBool.
Open Scope N_scope.

(** one call of the history with the clock reading at that moment *)
Definition tcall := (N * call)%type.

Definition res_ok (r : res) : bool := match r with ROk => true | _ => false end.

(** engine and specification side by side; the specification is told whether
    the engine's Commit succeeded (it does not decide that itself) *)
Fixpoint run_both (w : world) (sw : sworld) (cs : list tcall) : world * sworld :=
  match cs with
  | [] => (w, sw)
  | (now, c) :: r =>
      let '(w', res) := step now w c in
      let sw' := fst (spec_step now (res_ok res) sw c) in
      run_both w' sw' r
  end.

(** the hypothesis of C01 on the written data: timestamp + TTL does not wrap
    in uint64 (IsExpired adds them with wrap-around; the L0 rule does not), and
    the clock readings used as Delete timestamps are 64-bit values *)
Definition call_kv_ok (tc : tcall) : Prop :=
  match snd tc with
  | COp (OPut _ _ _ ttl ts) => ts + ttl < 2 ^ 64
  | COp (ODelete _ _) => fst tc < 2 ^ 64
  | _ => True
  end.

(** transaction ids are unique and Open is not called inside a transaction
    (ReplayFacts.calls_ok with a per-call clock) *)
Fixpoint tcalls_ok (w : world) (cs : list tcall) : Prop :=
  match cs with
  | [] => True
  | (now, c) :: r =>
      call_ok w c /\
      (match c with COpen _ => match w_tx w with TxActive _ => False | _ => True end | _ => True end) /\
      tcalls_ok (fst (step now w c)) r
  end.


Local Opaque N.pow.

(** the pending key/value records of the open transaction are what the
    specification's working copy has applied so far; a read-only transaction
    has no pending record *)
Definition tx_rel (w : world) (sw : sworld) : Prop :=
  match w_tx w, sw_tx sw with
  | TxActive t, SActive wr work =>
      tx_w t = wr /\ (tx_w t = false -> tx_pend t = []) /\
      Forall (kv_entry_ok (tx_id t)) (tx_pend t) /\
      s_kv work = s_kv (fold_left spec_apply_kv (tx_pend t) (sw_state sw))
  | TxNone, SNone => True
  | TxDone, SDone => True
  | TxNone, SDone | TxDone, SNone => True
  | _, _ => False
  end.

(** ---- only the key/value part of the specification state matters ---- *)
Lemma spec_apply_kv_skv : forall s1 s2 e, s_kv s1 = s_kv s2 ->
  s_kv (spec_apply_kv s1 e) = s_kv (spec_apply_kv s2 e).
Proof.
  intros s1 s2 e H. unfold spec_apply_kv.
  destruct (e_ds e =? DS_KV); [|exact H].
  destruct (e_flag e =? F_Set); cbn [s_kv]; rewrite H; reflexivity.
Qed.

Lemma fold_spec_apply_kv_skv : forall es s1 s2, s_kv s1 = s_kv s2 ->
  s_kv (fold_left spec_apply_kv es s1) = s_kv (fold_left spec_apply_kv es s2).
Proof.
  induction es as [|e es IH]; intros s1 s2 H; [exact H|].
  cbn [fold_left]. apply IH. apply spec_apply_kv_skv. exact H.
Qed.

Lemma kvrel_skv : forall w s s', s_kv s = s_kv s' -> kvrel w s -> kvrel w s'.
Proof.
  intros w s s' H Hrel b. specialize (Hrel b). rewrite <- H. exact Hrel.
Qed.

(** ---- how a call extends the pending list ---- *)
(** [t'] is [t] with records of the other structures appended *)
Definition nonkv_ext (t t' : txstate) : Prop :=
  tx_id t' = tx_id t /\ tx_w t' = tx_w t /\
  exists ext, tx_pend t' = tx_pend t ++ ext /\
              Forall (fun e => e_txid e = tx_id t /\ e_ds e <> DS_KV) ext.

Lemma nonkv_refl : forall t, nonkv_ext t t.
Proof.
  intros t. split; [reflexivity|]. split; [reflexivity|]. exists []. split; [symmetry; apply app_nil_r|constructor].
Qed.

Lemma nonkv_trans : forall t1 t2 t3, nonkv_ext t1 t2 -> nonkv_ext t2 t3 -> nonkv_ext t1 t3.
Proof.
  intros t1 t2 t3 (I1 & W1 & x1 & P1 & F1) (I2 & W2 & x2 & P2 & F2).
  split; [rewrite I2; exact I1|]. split; [rewrite W2; exact W1|].
  exists (x1 ++ x2). split; [rewrite P2, P1, app_assoc; reflexivity|].
  apply Forall_app. split; [exact F1|].
  eapply Forall_impl; [|exact F2]. intros e [A B]. split; [rewrite A; exact I1|exact B].
Qed.

Lemma tx_put_nonkv : forall t b k v ttl flag ts ds, (ds =? DS_KV) = false ->
  nonkv_ext t (fst (tx_put t b k v ttl flag ts ds)).
Proof.
  intros t b k v ttl flag ts ds Hds. unfold tx_put.
  destruct (negb (tx_w t)); [apply nonkv_refl|].
  destruct k as [|x k]; [apply nonkv_refl|]. cbn [fst].
  split; [reflexivity|]. split; [reflexivity|].
  eexists. split; [reflexivity|]. constructor; [|constructor].
  cbn [mk_entry e_txid e_ds]. split; [reflexivity|].
  intros E. rewrite E in Hds. discriminate Hds.
Qed.

Lemma tx_put_all_nonkv : forall vs t b k flag ts ds, (ds =? DS_KV) = false ->
  nonkv_ext t (fst (tx_put_all t b k vs flag ts ds)).
Proof.
  induction vs as [|v r IH]; intros t b k flag ts ds Hds; cbn [tx_put_all]; [apply nonkv_refl|].
  pose proof (tx_put_nonkv t b k v 0 flag ts ds Hds) as H1.
  destruct (tx_put t b k v 0 flag ts ds) as [t' res]. cbn [fst] in H1.
  destruct res; try exact H1.
  eapply nonkv_trans; [exact H1|]. apply IH. exact Hds.
Qed.

Definition not_kv_write (o : op) : Prop :=
  match o with OPut _ _ _ _ _ | ODelete _ _ => False | _ => True end.

Local Opaque tx_put tx_put_all.

(** every call but Put/Delete appends only list / set / sorted-set records *)
Lemma do_op_nonkv : forall now w t o, not_kv_write o -> nonkv_ext t (snd (fst (do_op now w t o))).
Proof.
  intros now w t o Ho. unfold do_op.
  destruct (ds_read (w_ix w) o) as [r|]; [apply nonkv_refl|].
  destruct o; try contradiction Ho; clear Ho; cbn [fst snd];
  repeat match goal with
  | |- context [tx_put_all ?t ?b ?k ?vs ?f ?ts ?ds] =>
      let H := fresh "Hpa" in
      pose proof (tx_put_all_nonkv vs t b k f ts ds eq_refl) as H;
      destruct (tx_put_all t b k vs f ts ds) as [? ?]; cbn [fst snd] in H |- *
  | |- context [tx_put ?t ?b ?k ?v ?ttl ?f ?ts ?ds] =>
      let H := fresh "Hp" in
      pose proof (tx_put_nonkv t b k v ttl f ts ds eq_refl) as H;
      destruct (tx_put t b k v ttl f ts ds) as [? ?]; cbn [fst snd] in H |- *
  | |- context [match ?x with _ => _ end] => destruct x; cbn [fst snd]
  | |- context [if ?x then _ else _] => destruct x; cbn [fst snd]
  end; eauto using nonkv_refl, nonkv_trans.
Qed.

(** ---- the specification side: only Put/Delete change the key/value buckets ---- *)
Lemma spec_write_skv : forall s o, not_kv_write o -> s_kv (fst (spec_write s o)) = s_kv s.
Proof.
  intros s o Ho. destruct o; try contradiction Ho; clear Ho; unfold spec_write;
  repeat match goal with
  | |- context [match ?x with _ => _ end] => destruct x
  | |- context [if ?x then _ else _] => destruct x
  end; reflexivity.
Qed.

Lemma spec_op_skv : forall now wr s o, not_kv_write o -> s_kv (fst (spec_op now wr s o)) = s_kv s.
Proof.
  intros now wr s o Ho. unfold spec_op.
  destruct (ds_read (s_ds s) o) as [r|]; [reflexivity|].
  destruct (spec_kv_read now s o) as [r|]; [reflexivity|].
  pose proof (spec_write_skv s o Ho) as H.
  destruct (spec_write s o) as [s' r]. cbn [fst] in H.
  destruct wr; [exact H|reflexivity].
Qed.

Lemma spec_op_readonly : forall now s o, s_kv (fst (spec_op now false s o)) = s_kv s.
Proof.
  intros now s o. unfold spec_op.
  destruct (ds_read (s_ds s) o) as [r|]; [reflexivity|].
  destruct (spec_kv_read now s o) as [r|]; [reflexivity|].
  destruct (spec_write s o) as [s' r]. reflexivity.
Qed.

Lemma spec_op_put : forall now s b k v ttl ts,
  fst (spec_op now true s (OPut b k v ttl ts)) = fst (spec_write s (OPut b k v ttl ts)).
Proof.
  intros. unfold spec_op. cbn [ds_read spec_kv_read].
  destruct (spec_write s (OPut b k v ttl ts)) as [s' r]. reflexivity.
Qed.

Lemma spec_op_delete : forall now s b k,
  fst (spec_op now true s (ODelete b k)) = fst (spec_write s (ODelete b k)).
Proof.
  intros. unfold spec_op. cbn [ds_read spec_kv_read].
  destruct (spec_write s (ODelete b k)) as [s' r]. reflexivity.
Qed.

Lemma do_op_put : forall now w t b k v ttl ts,
  snd (fst (do_op now w t (OPut b k v ttl ts))) = fst (tx_put t b k v ttl F_Set ts DS_KV).
Proof. intros. reflexivity. Qed.

Lemma do_op_delete : forall now w t b k,
  snd (fst (do_op now w t (ODelete b k))) = fst (tx_put t b k [] 0 F_Del now DS_KV).
Proof. intros. reflexivity. Qed.

Local Transparent tx_put.
Lemma tx_put_empty_key : forall t b v ttl flag ts ds, fst (tx_put t b [] v ttl flag ts ds) = t.
Proof. intros. unfold tx_put. destruct (negb (tx_w t)); reflexivity. Qed.
Local Opaque tx_put.

(** one call inside a transaction: what it appends to the pending list is,
    on the key/value buckets, what the specification does to its working copy *)
Definition op_rel (now : N) (t t' : txstate) (work : sstate) (o : op) : Prop :=
  tx_id t' = tx_id t /\ tx_w t' = tx_w t /\
  exists ext, tx_pend t' = tx_pend t ++ ext /\
              Forall (kv_entry_ok (tx_id t)) ext /\
              s_kv (fst (spec_op now (tx_w t) work o)) = s_kv (fold_left spec_apply_kv ext work).

Lemma op_rel_same : forall now t work o,
  s_kv (fst (spec_op now (tx_w t) work o)) = s_kv work -> op_rel now t t work o.
Proof.
  intros now t work o H. split; [reflexivity|]. split; [reflexivity|].
  exists []. split; [symmetry; apply app_nil_r|]. split; [constructor|exact H].
Qed.

Lemma do_op_rel : forall now w t o work,
  call_kv_ok (now, COp o) ->
  op_rel now t (snd (fst (do_op now w t o))) work o.
Proof.
  intros now w t o work Hok.
  assert (Hgen : not_kv_write o -> op_rel now t (snd (fst (do_op now w t o))) work o).
  { intros Ho. destruct (do_op_nonkv now w t o Ho) as (Hid & Hw & ext & Hp & Hall).
    split; [exact Hid|]. split; [exact Hw|]. exists ext. split; [exact Hp|]. split.
    - eapply Forall_impl; [|exact Hall]. intros e [A B]. split; [exact A|]. intros C. contradiction.
    - rewrite spec_op_skv by exact Ho. rewrite fold_spec_noop; [reflexivity|].
      eapply Forall_impl; [|exact Hall]. intros e [A B]. apply spec_apply_kv_nonkv. exact B. }
  destruct o; try (apply Hgen; exact I); clear Hgen.
  - (* Put *)
    rewrite do_op_put. cbn [call_kv_ok snd fst] in Hok.
    destruct (tx_w t) eqn:Ew.
    + destruct k as [|x k].
      * rewrite tx_put_empty_key. apply op_rel_same. rewrite Ew, spec_op_put. reflexivity.
      * assert (Hk : x :: k <> []) by discriminate.
        destruct (put_is_spec_write work t b (x :: k) v ttl ts Ew Hk) as [Hp Hs].
        rewrite Hp. cbn [fst]. split; [reflexivity|]. split; [reflexivity|].
        eexists. split; [reflexivity|]. split.
        -- constructor; [|constructor]. split; [reflexivity|]. intros _. split; [left; reflexivity|].
           cbn [mk_entry e_ts e_ttl]. exact Hok.
        -- rewrite Ew, spec_op_put, Hs. reflexivity.
    + rewrite tx_put_readonly by exact Ew. cbn [fst]. apply op_rel_same. rewrite Ew. apply spec_op_readonly.
  - (* Delete *)
    rewrite do_op_delete. cbn [call_kv_ok snd fst] in Hok.
    destruct (tx_w t) eqn:Ew.
    + destruct k as [|x k].
      * rewrite tx_put_empty_key. apply op_rel_same. rewrite Ew, spec_op_delete. reflexivity.
      * assert (Hk : x :: k <> []) by discriminate.
        destruct (delete_is_spec_write work t b (x :: k) now Ew Hk) as [Hp Hs].
        rewrite Hp. cbn [fst]. split; [reflexivity|]. split; [reflexivity|].
        eexists. split; [reflexivity|]. split.
        -- constructor; [|constructor]. split; [reflexivity|]. intros _. split; [right; reflexivity|].
           cbn [mk_entry e_ts e_ttl]. lia.
        -- rewrite Ew, spec_op_delete, Hs. reflexivity.
    + rewrite tx_put_readonly by exact Ew. cbn [fst]. apply op_rel_same. rewrite Ew. apply spec_op_readonly.
Qed.

(** ---- Commit ---- *)
Local Opaque commit_loop.

Lemma do_commit_cases : forall w t,
  (snd (do_commit None w t) = false /\ fst (do_commit None w t) = w) \/
  (snd (do_commit None w t) = true /\ w_tx (fst (do_commit None w t)) = TxDone /\
   w_closed (fst (do_commit None w t)) = w_closed w).
Proof.
  intros w t. unfold do_commit. destruct (tx_pend t) as [|e0 rest]; [right; repeat split|].
  destruct (existsb _ (e0 :: rest)); [left; split; reflexivity|].
  destruct (commit_loop _ _ _ _) as [st written]. right. repeat split.
Qed.

(** a call outside a transaction fails on both sides *)
Lemma tx_rel_inactive : forall w sw,
  tx_rel w sw -> (forall t, w_tx w <> TxActive t) -> forall wr work, sw_tx sw <> SActive wr work.
Proof.
  intros w sw H Hn wr work E. unfold tx_rel in H. rewrite E in H.
  destruct (w_tx w) as [|t|]; try contradiction. exact (Hn t eq_refl).
Qed.

(** TARGET: the joint invariant is preserved by every call *)
Theorem step_both_inv : forall now w sw c,
  Inv w -> kvrel w (sw_state sw) -> tx_rel w sw -> w_closed w = sw_closed sw ->
  call_ok w c -> call_kv_ok (now, c) ->
  (match c with COpen _ => match w_tx w with TxActive _ => False | _ => True end | _ => True end) ->
  let '(w', res) := step now w c in
  let sw' := fst (spec_step now (res_ok res) sw c) in
  Inv w' /\ kvrel w' (sw_state sw') /\ tx_rel w' sw' /\ w_closed w' = sw_closed sw'.
Proof.
  intros now w sw c HI Hrel Htx Hcl Hc Hkv Hopen.
  pose proof (step_inv now w c HI Hc Hopen) as HI'.
  assert (Hidle : (forall t, w_tx w <> TxActive t) -> forall r,
            Inv w /\ kvrel w (sw_state (fst (match sw_tx sw with
                                             | SActive wr work => r wr work
                                             | _ => (sw, RErr) end))) /\
            tx_rel w (fst (match sw_tx sw with SActive wr work => r wr work | _ => (sw, RErr) end)) /\
            w_closed w = sw_closed (fst (match sw_tx sw with SActive wr work => r wr work | _ => (sw, RErr) end))).
  { intros Hn r. pose proof (tx_rel_inactive w sw Htx Hn) as Hs.
    destruct (sw_tx sw) as [|wr work|] eqn:Es; [|exfalso; exact (Hs wr work eq_refl)|];
      cbn [fst]; (split; [exact HI|]; split; [exact Hrel|]; split; [exact Htx|exact Hcl]). }
  destruct c as [wr id|o| | | |o]; cbn [step] in *.
  - (* Begin *)
    cbn [spec_step]. rewrite <- Hcl. destruct (w_closed w) eqn:Ec; cbv beta iota zeta; cbn [fst].
    + split; [exact HI|]. split; [exact Hrel|]. split; [exact Htx|]. rewrite Ec. exact Hcl.
    + cbn [fst] in HI'. split; [exact HI'|]. split; [exact Hrel|]. split; [|exact Ec].
      unfold tx_rel. cbn [set_tx w_tx sw_tx sw_state tx_w tx_pend tx_id fold_left].
      split; [reflexivity|]. split; [reflexivity|]. split; [constructor|reflexivity].
  - (* Op *)
    destruct (w_tx w) as [|t|] eqn:Et.
    + cbv beta iota zeta. cbn [spec_step]. apply Hidle. intros t E. discriminate E.
    + unfold tx_rel in Htx. rewrite Et in Htx.
      destruct (sw_tx sw) as [|wr work|] eqn:Es; try contradiction.
      destruct Htx as (Hw & Hro & Hall & Hs).
      pose proof (do_op_world now w t o) as Hwd.
      pose proof (do_op_rel now w t o work Hkv) as Hop.
      pose proof (do_op_readonly now w t o) as Hrd.
      destruct (do_op now w t o) as [[w1 t1] r]. cbn [fst snd] in Hwd, Hop, Hrd, HI'. subst w1.
      cbv beta iota zeta. cbn [spec_step]. rewrite Es.
      destruct Hop as (Hid & Hw1 & ext & Hp & Hext & Hsk). rewrite Hw in Hsk.
      destruct (spec_op now wr work o) as [work' r']. cbn [fst sw_state sw_closed] in Hsk |- *.
      split; [exact HI'|]. split; [exact Hrel|]. split; [|exact Hcl].
      unfold tx_rel. cbn [set_tx w_tx sw_tx sw_state].
      split; [rewrite Hw1; exact Hw|]. split; [|split].
      * intros H. rewrite Hw1 in H. apply Hrd; [exact H|apply Hro; exact H].
      * rewrite Hp, Hid. apply Forall_app. split; [exact Hall|exact Hext].
      * rewrite Hp, fold_left_app, Hsk. apply fold_spec_apply_kv_skv. exact Hs.
    + cbv beta iota zeta. cbn [spec_step]. apply Hidle. intros t E. discriminate E.
  - (* Commit *)
    destruct (w_tx w) as [|t|] eqn:Et.
    + cbv beta iota zeta. cbn [spec_step res_ok]. apply Hidle. intros t E. discriminate E.
    + unfold tx_rel in Htx. rewrite Et in Htx.
      destruct (sw_tx sw) as [|wr work|] eqn:Es; try contradiction.
      destruct Htx as (Hw & Hro & Hall & Hs).
      pose proof (commit_kvrel w (sw_state sw) t Hrel Hall) as Hck.
      destruct (do_commit_cases w t) as [[Hf Hw0]|(Hok & Hdone & Hcl')];
        destruct (do_commit None w t) as [w1 ok]; cbn [fst snd] in *; subst ok; cbv beta iota zeta;
        cbn [res_ok spec_step]; rewrite Es; cbn [fst sw_state sw_closed sw_tx].
      * subst w1. split; [exact HI|]. split; [exact Hrel|]. split; [|exact Hcl].
        unfold tx_rel. rewrite Et, Es. repeat split; assumption.
      * specialize (Hck eq_refl). split; [exact HI'|]. split; [|split].
        -- destruct wr.
           ++ eapply kvrel_skv; [|exact Hck]. symmetry. exact Hs.
           ++ rewrite (Hro Hw) in Hck. exact Hck.
        -- unfold tx_rel. rewrite Hdone. cbn [sw_tx]. exact I.
        -- rewrite Hcl'. exact Hcl.
    + cbv beta iota zeta. cbn [spec_step res_ok]. apply Hidle. intros t E. discriminate E.
  - (* Rollback *)
    destruct (w_tx w) as [|t|] eqn:Et.
    + cbv beta iota zeta. cbn [spec_step res_ok]. apply Hidle. intros t E. discriminate E.
    + unfold tx_rel in Htx. rewrite Et in Htx.
      destruct (sw_tx sw) as [|wr work|] eqn:Es; try contradiction.
      cbv beta iota zeta. cbn [spec_step]. rewrite Es. cbn [fst sw_state sw_closed] in HI' |- *.
      split; [exact HI'|]. split; [exact Hrel|]. split; [exact I|exact Hcl].
    + cbv beta iota zeta. cbn [spec_step res_ok]. apply Hidle. intros t E. discriminate E.
  - (* Close *)
    cbn [spec_step]. rewrite <- Hcl. destruct (w_closed w) eqn:Ec; cbv beta iota zeta; cbn [fst].
    + split; [exact HI|]. split; [exact Hrel|]. split; [exact Htx|]. rewrite Ec. exact Hcl.
    + cbn [fst] in HI'. split; [exact HI'|]. split; [exact Hrel|]. split; [exact I|reflexivity].
  - (* Open *)
    cbv beta iota zeta. cbn [spec_step fst sw_state sw_closed] in HI' |- *.
    destruct (reopen_preserves w o HI) as (Hix & Hcomm & _).
    split; [exact HI'|]. split; [|split; [exact I|reflexivity]].
    exact (kvrel_ext w (do_open o (w_disk w)) (sw_state sw) Hix Hcomm Hrel).
Qed.

(** ---- every history ---- *)
Definition joint (w : world) (sw : sworld) : Prop :=
  Inv w /\ kvrel w (sw_state sw) /\ tx_rel w sw /\ w_closed w = sw_closed sw.

Lemma joint_init : forall o, joint (empty_world o) sworld0.
Proof.
  intros o. split; [apply inv_open_empty|]. split; [apply kvrel_empty|]. split; [exact I|reflexivity].
Qed.

Lemma run_both_joint : forall cs w sw,
  joint w sw -> tcalls_ok w cs -> Forall call_kv_ok cs ->
  joint (fst (run_both w sw cs)) (snd (run_both w sw cs)).
Proof.
  induction cs as [|[now c] r IH]; intros w sw HJ Hok Hkv; [exact HJ|].
  cbn [run_both tcalls_ok] in *. destruct Hok as (Hc & Ho & Hr).
  inversion Hkv as [|x l Hk Hkr]; subst x l.
  destruct HJ as (HI & Hrel & Htx & Hcl).
  pose proof (step_both_inv now w sw c HI Hrel Htx Hcl Hc Hk Ho) as H.
  destruct (step now w c) as [w' res]. cbn [fst] in Hr. cbv zeta in H.
  apply IH; [exact H|exact Hr|exact Hkr].
Qed.

(** C01 for every history *)
Theorem history_kvrel : forall cs o,
  tcalls_ok (empty_world o) cs -> Forall call_kv_ok cs ->
  let '(w, sw) := run_both (empty_world o) sworld0 cs in
  kvrel w (sw_state sw).
Proof.
  intros cs o Hok Hkv.
  pose proof (run_both_joint cs _ _ (joint_init o) Hok Hkv) as HJ.
  destruct (run_both (empty_world o) sworld0 cs) as [w sw]. cbn [fst snd] in HJ.
  exact (proj1 (proj2 HJ)).
Qed.

(** ---- reads in the mode that goes back to the segment ----
    A history may reopen the database with any option record, so the world at
    the end need not be in the mode it started in.  Every reachable world has
    well-formed segments (MergeFacts.WInv) and its index is the replay of its
    log (Inv): every index record points at the record it was built from, and
    the read paths of both RAM modes agree. *)
Lemma seg_read_wf : forall s off p e, seg_wf off s -> In (p, e) s -> seg_read s p = Some e.
Proof.
  induction s as [|[p0 e0] t IH]; intros off p e Hwf Hin; [destruct Hin|].
  cbn [seg_wf] in Hwf. destruct Hwf as [Hp Hwf]. cbn [seg_read].
  destruct Hin as [Hin|Hin].
  - injection Hin as E1 E2. rewrite E1, E2, N.eqb_refl. reflexivity.
  - destruct (seg_wf_in t _ p e Hwf Hin) as [Hle _].
    pose proof (entry_size_pos e0) as Hpos.
    destruct (p0 =? p) eqn:E; [apply N.eqb_eq in E; lia|].
    exact (IH _ _ _ Hwf Hin).
Qed.

Lemma disk_read_wf : forall d f p e, disk_wf d -> In (f, p, e) (all_records d) -> disk_read d f p = Some e.
Proof.
  intros d f p e Hwf Hin. apply in_all_records in Hin. destruct Hin as (s & Hs & Hin).
  unfold disk_read. rewrite Hs. exact (seg_read_wf s 0 p e (Hwf f s Hs) Hin).
Qed.

(** every index record was built from a record of the log *)
Definition kv_src (kv : list (bytes * kvidx)) (rs : list (N * N * entry)) : Prop :=
  forall b ix k r, alookup kv b = Some ix -> In (k, r) ix ->
  exists e, In (kr_fid r, kr_pos r, e) rs /\ e_key e = k /\ e_value e = kr_val r.

Lemma ix_step_src : forall comm kv x rs, kv_src kv rs -> In x rs -> kv_src (ix_step comm kv x) rs.
Proof.
  intros comm kv [[f p] e] rs H Hx. unfold ix_step.
  destruct (nmem (e_txid e) comm && (e_ds e =? DS_KV)); [|exact H].
  unfold apply_kv. intros b ix k r Hb Hin. rewrite alookup_aset in Hb.
  destruct (bytes_eqb (e_bucket e) b) eqn:Eb.
  - injection Hb as Hb. subst ix. apply kv_insert_in in Hin. destruct Hin as [Hin|Hin].
    + injection Hin as E1 E2. subst k r. exists e. cbn [krec_of kr_fid kr_pos kr_val].
      split; [exact Hx|]. split; reflexivity.
    + unfold getdef in Hin. destruct (alookup kv (e_bucket e)) as [ix0|] eqn:E0; [|destruct Hin].
      exact (H (e_bucket e) ix0 k r E0 Hin).
  - exact (H b ix k r Hb Hin).
Qed.

Lemma fold_ix_step_src : forall comm l kv rs,
  kv_src kv rs -> (forall x, In x l -> In x rs) -> kv_src (fold_left (ix_step comm) l kv) rs.
Proof.
  intros comm l. induction l as [|x l IH]; intros kv rs H Hl; [exact H|].
  cbn [fold_left]. apply IH.
  - apply ix_step_src; [exact H|]. apply Hl. left. reflexivity.
  - intros y Hy. apply Hl. right. exact Hy.
Qed.

Lemma inv_on_disk : forall w, Inv w -> disk_wf (w_disk w) -> on_disk w.
Proof.
  intros w HI Hwf b ix k r Hb Hin. rewrite (inv_ix w HI) in Hb. unfold replay in Hb.
  rewrite ix_kv_replay in Hb.
  assert (H0 : kv_src (ix_kv ix_empty) (recs w)).
  { intros b0 ix0 k0 r0 H. discriminate H. }
  destruct (fold_ix_step_src (committed_ids (recs w)) (recs w) _ (recs w) H0 (fun x Hx => Hx) b ix k r Hb Hin)
    as (e & He & Hk & Hv).
  exists e. split; [|split; [exact Hk|exact Hv]].
  apply disk_read_wf; [exact Hwf|exact He].
Qed.

Lemma run_both_winv : forall cs w sw, WInv w -> tcalls_ok w cs -> WInv (fst (run_both w sw cs)).
Proof.
  induction cs as [|[now c] r IH]; intros w sw HW Hok; [exact HW|].
  cbn [run_both tcalls_ok] in *. destruct Hok as (Hc & _ & Hr).
  pose proof (step_winv now w c HW Hc) as H.
  destruct (step now w c) as [w' res]. cbn [fst] in Hr, H. apply IH; [exact H|exact Hr].
Qed.

Lemma with_mode_self : forall w, with_mode w (o_mode (w_opts w)) = w.
Proof. intros [[m rw ld sy sg] cl d mf wo asz ix cm tx]. reflexivity. Qed.

(** every key/value read at the end of any history returns the specification's
    answer, whatever the option records of the Opens in the history (both RAM
    index modes) *)
Theorem history_reads_refine_any_mode : forall cs o now t rd,
  tcalls_ok (empty_world o) cs -> Forall call_kv_ok cs ->
  is_kv_read rd = true ->
  let '(w, sw) := run_both (empty_world o) sworld0 cs in
  Some (snd (do_op now w t rd)) = spec_kv_read now (sw_state sw) rd.
Proof.
  intros cs o now t rd Hok Hkv Hrd.
  pose proof (run_both_joint cs _ _ (joint_init o) Hok Hkv) as HJ.
  pose proof (run_both_winv cs _ sworld0 (winv_empty o) Hok) as HW.
  destruct (run_both (empty_world o) sworld0 cs) as [w sw]. cbn [fst snd] in HJ, HW.
  destruct HJ as (HI & Hrel & _).
  assert (Hd : on_disk w).
  { apply inv_on_disk; [exact HI|]. destruct (wi_w2 w HW) as (_ & Hwf & _). exact Hwf. }
  pose proof (kv_reads_mode_irrelevant now w t rd (o_mode (w_opts w)) Hd Hrd) as Hmi.
  rewrite with_mode_self in Hmi. rewrite Hmi.
  assert (Hrel0 : kvrel (with_mode w 0) (sw_state sw)).
  { apply (kvrel_ext w); [reflexivity|reflexivity|exact Hrel]. }
  exact (proj2 (proj2 (kv_reads_refine now (with_mode w 0) (sw_state sw) t rd eq_refl Hrel0 Hrd))).
Qed.

(** ... and therefore every key/value read at the end of any history returns
    the specification's answer (the hypothesis on the initial mode is not
    needed: see history_reads_refine_any_mode) *)
Theorem history_reads_refine : forall cs o now t rd,
  o_mode o = 0 -> tcalls_ok (empty_world o) cs -> Forall call_kv_ok cs ->
  is_kv_read rd = true ->
  let '(w, sw) := run_both (empty_world o) sworld0 cs in
  Some (snd (do_op now w t rd)) = spec_kv_read now (sw_state sw) rd.
Proof.
  intros cs o now t rd _ Hok Hkv Hrd.
  exact (history_reads_refine_any_mode cs o now t rd Hok Hkv Hrd).
Qed.

Print Assumptions step_both_inv.
Print Assumptions history_kvrel.
Print Assumptions history_reads_refine.
Print Assumptions history_reads_refine_any_mode.
