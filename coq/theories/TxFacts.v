(** TxFacts.v — transactions that do not commit have no effect (C12), and no
    API call inside a transaction touches the shared state (only Commit does). *)
From Verif Require Import Bytes Codec Dec ListDS SetDS ZSetDS Index Engine.
Open Scope N_scope.

(** the part of the world other transactions and a later Open can observe *)
Definition shared (w : world) :=
  (w_opts w, w_closed w, w_disk w, w_maxfid w, w_woff w, w_asize w, w_ix w, w_committed w).

Lemma tx_put_readonly t b k v ttl flag ts ds :
  tx_w t = false -> tx_put t b k v ttl flag ts ds = (t, RErr).
Proof. intros H. unfold tx_put. rewrite H. reflexivity. Qed.

Lemma tx_put_keeps_w t b k v ttl flag ts ds :
  tx_w (fst (tx_put t b k v ttl flag ts ds)) = tx_w t /\ tx_id (fst (tx_put t b k v ttl flag ts ds)) = tx_id t.
Proof. unfold tx_put. destruct (tx_w t) eqn:E; cbn; [destruct k; cbn; rewrite ?E; auto | rewrite ?E; auto]. Qed.

Lemma tx_put_all_readonly vs t b k flag ts ds :
  tx_w t = false -> fst (tx_put_all t b k vs flag ts ds) = t.
Proof.
  intros H. destruct vs as [|v r]; cbn; [reflexivity|].
  rewrite (tx_put_readonly t b k v 0 flag ts ds H). reflexivity.
Qed.

(** every API call leaves the world itself unchanged: writes only extend the
    transaction's private pending list (after fix ba1e448 this includes SMove) *)
Lemma do_op_world now w t o : fst (fst (do_op now w t o)) = w.
Proof.
  unfold do_op. destruct (ds_read (w_ix w) o) as [r|]; [reflexivity|].
  destruct o; cbn;
  repeat match goal with
  | |- context [match ?x with _ => _ end] => destruct x; cbn
  | |- context [if ?x then _ else _] => destruct x; cbn
  end; try reflexivity.
Qed.

(** a read-only transaction never acquires pending writes *)
Lemma do_op_readonly now w t o :
  tx_w t = false -> tx_pend t = [] -> tx_pend (snd (fst (do_op now w t o))) = [] /\ tx_w (snd (fst (do_op now w t o))) = false.
Proof.
  intros Hw Hp. unfold do_op. destruct (ds_read (w_ix w) o) as [r|]; [cbn; auto|].
  assert (P : forall b k v ttl flag ts ds, tx_put t b k v ttl flag ts ds = (t, RErr))
    by (intros; apply tx_put_readonly; exact Hw).
  assert (PA : forall vs b k flag ts ds, fst (tx_put_all t b k vs flag ts ds) = t)
    by (intros; apply tx_put_all_readonly; exact Hw).
  destruct o; cbn; rewrite ?P; cbn;
  repeat match goal with
  | |- context [tx_put_all t ?b ?k ?vs ?f ?ts ?ds] =>
      let H := fresh in pose proof (PA vs b k f ts ds) as H;
      destruct (tx_put_all t b k vs f ts ds); cbn in H; subst; cbn
  | |- context [tx_put t ?b ?k ?v ?ttl ?f ?ts ?ds] => rewrite (P b k v ttl f ts ds); cbn
  | |- context [match ?x with _ => _ end] => destruct x; cbn
  | |- context [if ?x then _ else _] => destruct x; cbn
  end; auto.
Qed.

(** Commit of a transaction without pending writes only closes it *)
Lemma commit_empty fault w t : tx_pend t = [] -> shared (fst (do_commit fault w t)) = shared w /\ snd (do_commit fault w t) = true.
Proof. intros H. unfold do_commit. rewrite H. split; reflexivity. Qed.

(** an entry larger than the segment size rejects the whole transaction before
    anything is written (fix d75ae6f) *)
Lemma commit_oversize fault w t :
  existsb (fun e => o_seg (w_opts w) <? entry_size e) (tx_pend t) = true ->
  do_commit fault w t = (w, false).
Proof.
  intros H. unfold do_commit. destruct (tx_pend t) as [|e r] eqn:E; [discriminate|].
  rewrite H. reflexivity.
Qed.

(** a write error during Commit leaves the indexes and the set of committed
    transaction ids untouched; the records written before the error carry no
    commit marker (see ReplayFacts.commit_fault_invisible for their invisibility
    after reopen) *)
Lemma commit_fault_index k w t :
  w_ix (fst (do_commit (Some k) w t)) = w_ix w /\
  w_committed (fst (do_commit (Some k) w t)) = w_committed w /\
  w_closed (fst (do_commit (Some k) w t)) = w_closed w.
Proof.
  unfold do_commit. destruct (tx_pend t) as [|e r]; [cbn; auto|].
  destruct (existsb _ _); [cbn; auto|].
  destruct (commit_loop _ _ _ _) as [st ws]. cbn. auto.
Qed.

(** Rollback, and any call on a finished transaction, changes nothing *)
Lemma rollback_shared now w : shared (fst (step now w CRollback)) = shared w.
Proof. unfold step. destruct (w_tx w); reflexivity. Qed.

Lemma finished_tx_noop now w c :
  w_tx w = TxDone -> match c with COp _ | CCommit | CRollback => True | _ => False end ->
  step now w c = (w, RErr).
Proof. intros H Hc. destruct c; try contradiction; cbn; rewrite H; reflexivity. Qed.

(** running any list of API calls in a transaction and then rolling back:
    the shared state is exactly what it was at Begin *)
Fixpoint run_ops (now : N) (w : world) (os : list op) : world :=
  match os with
  | [] => w
  | o :: r => run_ops now (fst (step now w (COp o))) r
  end.

Lemma step_op_shared now w o : shared (fst (step now w (COp o))) = shared w.
Proof.
  unfold step. destruct (w_tx w) as [|t|]; try reflexivity.
  pose proof (do_op_world now w t o) as H.
  destruct (do_op now w t o) as [[w' t'] r]. cbn in H. subst w'. reflexivity.
Qed.

Lemma run_ops_shared now os : forall w, shared (run_ops now w os) = shared w.
Proof.
  induction os as [|o r IH]; intros w; cbn; [reflexivity|].
  rewrite IH. apply step_op_shared.
Qed.

Theorem rolled_back_tx_noop now w wr id os :
  w_closed w = false ->
  shared (fst (step now (run_ops now (fst (step now w (CBegin wr id))) os) CRollback)) = shared w.
Proof.
  intros Hc. rewrite rollback_shared, run_ops_shared. unfold step. rewrite Hc. reflexivity.
Qed.

(** a read-only transaction that calls any API (mutating ones included) and
    then commits changes nothing *)
Lemma step_op_readonly now w t o :
  w_tx w = TxActive t -> tx_w t = false -> tx_pend t = [] ->
  exists t', w_tx (fst (step now w (COp o))) = TxActive t' /\ tx_w t' = false /\ tx_pend t' = [].
Proof.
  intros Ht Hw Hp. unfold step. rewrite Ht.
  pose proof (do_op_readonly now w t o Hw Hp) as [H1 H2].
  destruct (do_op now w t o) as [[w' t'] res]. cbn in H1, H2. cbn. eauto.
Qed.

Lemma run_ops_readonly now os : forall w t,
  w_tx w = TxActive t -> tx_w t = false -> tx_pend t = [] ->
  exists t', w_tx (run_ops now w os) = TxActive t' /\ tx_w t' = false /\ tx_pend t' = [].
Proof.
  induction os as [|o r IH]; intros w t Ht Hw Hp; [cbn; eauto|].
  change (run_ops now w (o :: r)) with (run_ops now (fst (step now w (COp o))) r).
  destruct (step_op_readonly now w t o Ht Hw Hp) as (t' & A & B & C).
  eapply IH; eauto.
Qed.

Theorem readonly_tx_noop now w id os :
  w_closed w = false ->
  shared (fst (step now (run_ops now (fst (step now w (CBegin false id))) os) CCommit)) = shared w.
Proof.
  intros Hc.
  set (w1 := fst (step now w (CBegin false id))).
  assert (H1 : w_tx w1 = TxActive (mkTx id false [])) by (unfold w1, step; rewrite Hc; reflexivity).
  destruct (run_ops_readonly now os w1 _ H1 eq_refl eq_refl) as (t' & Ht & Hw & Hp).
  assert (E : fst (step now (run_ops now w1 os) CCommit) = fst (do_commit None (run_ops now w1 os) t')).
  { unfold step. rewrite Ht. destruct (do_commit None (run_ops now w1 os) t'); reflexivity. }
  rewrite E.
  pose proof (commit_empty None (run_ops now w1 os) t' Hp) as [Hs _].
  rewrite Hs, run_ops_shared. unfold w1, step. rewrite Hc. reflexivity.
Qed.

(** ---- totality (C20): no call of the engine model yields the panic outcome.
    Every Go slice expression and index on the modelled paths is either guarded
    by the model's own range tests or total by the lemmas of ListFacts /
    ZSetFacts (lrange_spec_elems: 0 <= s, e < len). ---- *)
Lemma tx_put_no_panic t b k v ttl flag ts ds : snd (tx_put t b k v ttl flag ts ds) <> RPanic.
Proof. unfold tx_put. destruct (tx_w t); cbn; [destruct k; cbn|]; discriminate. Qed.

Lemma tx_put_all_no_panic vs : forall t b k flag ts ds, snd (tx_put_all t b k vs flag ts ds) <> RPanic.
Proof.
  induction vs as [|v r IH]; intros t b k flag ts ds; cbn; [discriminate|].
  pose proof (tx_put_no_panic t b k v 0 flag ts ds) as H.
  destruct (tx_put t b k v 0 flag ts ds) as [t' res]; cbn in H.
  destruct res; try exact H; try discriminate. apply IH.
Qed.

Lemma ds_read_no_panic ix o r : ds_read ix o = Some r -> r <> RPanic.
Proof.
  destruct o; cbn; intros H; inversion H; subst; clear H; unfold lres_val, opt_list;
  repeat match goal with
  | |- context [match ?x with _ => _ end] => destruct x; cbn
  | |- context [if ?x then _ else _] => destruct x; cbn
  end; intro Hp; discriminate Hp.
Qed.

Lemma entries_res_no_panic w rs off : entries_res w rs off <> RPanic.
Proof. unfold entries_res. destruct rs; [discriminate|]. destruct (items_of _ _ _); discriminate. Qed.

Lemma do_op_no_panic now w t o : snd (do_op now w t o) <> RPanic.
Proof.
  unfold do_op. destruct (ds_read (w_ix w) o) as [r|] eqn:E; [cbn; eapply ds_read_no_panic; exact E|].
  destruct o; cbn;
  repeat match goal with
  | |- context [tx_put_all ?t ?b ?k ?vs ?f ?ts ?ds] =>
      let H := fresh in pose proof (tx_put_all_no_panic vs t b k f ts ds) as H;
      destruct (tx_put_all t b k vs f ts ds) as [? ?]; cbn in H |- *
  | |- context [tx_put ?t ?b ?k ?v ?ttl ?f ?ts ?ds] =>
      let H := fresh in pose proof (tx_put_no_panic t b k v ttl f ts ds) as H;
      destruct (tx_put t b k v ttl f ts ds) as [? ?]; cbn in H |- *
  | |- context [match ?x with _ => _ end] => destruct x; cbn
  | |- context [if ?x then _ else _] => destruct x; cbn
  end; try discriminate; try assumption; apply entries_res_no_panic.
Qed.

Theorem step_no_panic now w c : snd (step now w c) <> RPanic.
Proof.
  destruct c; cbn; try discriminate.
  - destruct (w_closed w); cbn; discriminate.
  - destruct (w_tx w) as [|t|]; cbn; try discriminate.
    pose proof (do_op_no_panic now w t o) as H. destruct (do_op now w t o) as [[w' t'] r]. exact H.
  - destruct (w_tx w) as [|t|]; cbn; try discriminate.
    destruct (do_commit None w t) as [w' ok]. destruct ok; discriminate.
  - destruct (w_tx w); cbn; discriminate.
  - destruct (w_closed w); cbn; discriminate.
Qed.
