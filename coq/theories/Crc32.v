(** Crc32.v — CRC-32/IEEE (reflected polynomial 0xEDB88320), bit by bit.
    Models hash/crc32.ChecksumIEEE and crc32.Update(crc, IEEETable, p). *)
From Verif Require Export Bytes.
Open Scope N_scope.

Definition poly : N := 0xEDB88320.
Definition mask32 : N := 0xFFFFFFFF.

Definition crc_step (c : N) : N :=
  if N.odd c then N.lxor (N.div2 c) poly else N.div2 c.

Definition crc_byte (c : N) (b : byte) : N :=
  let c0 := N.lxor c (b2n b) in
  crc_step (crc_step (crc_step (crc_step (crc_step (crc_step (crc_step (crc_step c0))))))).

(** the raw register update over a byte string *)
Definition crc_raw (c : N) (data : bytes) : N := fold_left crc_byte data c.

(** crc32.Update(crc, IEEETable, data) *)
Definition crc_update (crc : N) (data : bytes) : N :=
  N.lxor (crc_raw (N.lxor crc mask32) data) mask32.

(** crc32.ChecksumIEEE(data) *)
Definition crc32 (data : bytes) : N := crc_update 0 data.
