(** Merge.v — model of DB.Merge (db.go) in the RAM index modes, after the fixes
    recorded in known_findings.json: for every data file in ascending id order,
    collect the records that are still live, rewrite them in one internal write
    transaction into a new segment (which becomes the active file), then remove
    the old file. *)
From Verif Require Export Engine.
Open Scope N_scope.

(** isFilterEntry *)
Definition is_filter (now : N) (e : entry) : bool :=
  let f := e_flag e in
  (f =? F_Del) || (f =? F_RPop) || (f =? F_LPop) || (f =? F_LRem) || (f =? F_LTrim) || (f =? F_ZRem) ||
  (f =? F_ZRemRange) || (f =? F_ZPopMax) || (f =? F_ZPopMin) || is_expired now (e_ttl e) (e_ts e).

(** getPendingMergeEntries: is the record still needed? *)
Definition pending_keep (ix : indexes) (e : entry) : bool :=
  let b := e_bucket e in
  if e_ds e =? DS_KV then
    match alookup (ix_kv ix) b with
    | Some kx => match kv_find kx (e_key e) with Some r => kr_flag r =? F_Set | None => false end
    | None => false
    end
  else if e_ds e =? DS_Set then
    match alookup (ix_set ix) b with Some s => s_ismember s (e_key e) (e_value e) | None => false end
  else if e_ds e =? DS_ZSet then
    match split_all (e_key e) with
    | [k; sc] => match alookup (ix_zset ix) b with
                 | Some z => match z_find z k with
                             | Some n => (z_score n =? parse_Z sc)%Z && bytes_eqb (z_val n) (e_value e)
                             | None => false
                             end
                 | None => false
                 end
    | _ => false
    end
  else if e_ds e =? DS_List then
    ((e_flag e =? F_RPush) || (e_flag e =? F_LPush)) &&
    match alookup (ix_list ix) b with
    | Some l => match alookup l (e_key e) with Some items => bmem (e_value e) items | None => false end
    | None => false
    end
  else false.

(** the per-record decision of the scan loop of Merge *)
Definition merge_keep (now : N) (w : world) (fid pos : N) (e : entry) : bool :=
  if is_filter now e then false
  else if negb (nmem (e_txid e) (w_committed w)) then false        (* records of transactions that never committed *)
  else
    let newer :=
      if e_ds e =? DS_KV then
        match alookup (ix_kv (w_ix w)) (e_bucket e) with
        | Some kx => match kv_find kx (e_key e) with
                     | Some r => (fid <? kr_fid r) || ((kr_fid r =? fid) && (pos <? kr_pos r))
                     | None => false
                     end
        | None => false
        end
      else false in
    if newer then false else pending_keep (w_ix w) e.

Definition disk_remove (d : disk) (fid : N) : disk := filter (fun fs => negb (fst fs =? fid)) d.

(** reWriteData + the removal of the merged file.  [txid] is the id of the
    internal transaction (never observable; the driver invents fresh ones).
    Returns the new world and whether Merge may go on: when the rewrite
    transaction fails (fix: "Merge stops when a rewrite transaction fails") the
    old file stays and Merge returns the error. *)
Definition merge_file (now : N) (w : world) (fid : N) (txid : N) : world * bool :=
  match disk_get (w_disk w) fid with
  | None => (w, true)
  | Some seg =>
      let pend := map (fun pe => let e := snd pe in
                                 mkEntry (e_bucket e) (e_key e) (e_value e) (e_ts e) (e_ttl e) (e_flag e) 0 (e_ds e) txid)
                      (filter (fun pe => merge_keep now w fid (fst pe) (snd pe)) seg) in
      match pend with
      | [] =>
          (* nothing to rewrite: the file is removed; when it is the active one a fresh
             active segment is started first (fix "Merge replaces an active segment that
             holds only dead records"), so that removal records referring to positions do
             not outlive the records of the older files *)
          if fid =? w_maxfid w then
            let nf := w_maxfid w + 1 in
            (mkW (w_opts w) (w_closed w) (disk_remove (disk_create (w_disk w) nf) fid) nf 0 0
                 (w_ix w) (w_committed w) (w_tx w), true)
          else (mkW (w_opts w) (w_closed w) (disk_remove (w_disk w) fid) (w_maxfid w) (w_woff w) (w_asize w)
                    (w_ix w) (w_committed w) (w_tx w), true)
      | _ =>
          let nf := w_maxfid w + 1 in
          let w1 := mkW (w_opts w) (w_closed w) (disk_create (w_disk w) nf) nf 0 0 (w_ix w) (w_committed w) (w_tx w) in
          let '(w2, ok) := do_commit None w1 (mkTx txid true pend) in
          if ok then
            (mkW (w_opts w2) (w_closed w2) (disk_remove (w_disk w2) fid) (w_maxfid w2) (w_woff w2) (w_asize w2)
                 (w_ix w2) (w_committed w2) (w_tx w), true)
          else
            (mkW (w_opts w2) (w_closed w2) (w_disk w2) (w_maxfid w2) (w_woff w2) (w_asize w2)
                 (w_ix w2) (w_committed w2) (w_tx w), false)
      end
  end.

Fixpoint merge_files (now : N) (w : world) (fids : list N) (txid : N) : world * bool :=
  match fids with
  | [] => (w, true)
  | f :: r => let '(w1, ok) := merge_file now w f txid in
              if ok then merge_files now w1 r (txid + 1) else (w1, false)
  end.

(** DB.Merge: (world, success) *)
Definition do_merge (now : N) (w : world) (txid0 : N) : world * bool :=
  if w_closed w then (w, false)
  else
    let fids := disk_fids (w_disk w) in
    match fids with
    | [] | [_] => (w, false)
    | _ => merge_files now w fids txid0
    end.
