(** Conc.v — the lock protocol of nutsdb transactions (db.mu, a sync.RWMutex):
    Begin(true) takes the write lock, Begin(false) the read lock, and the lock is
    held until Commit/Rollback.  Threads run their transactions as sequences of
    atomic steps on the shared state, interleaved arbitrarily subject to the
    lock.  Generic in the state and the result type; the engine instance is
    state = world, step = Engine.step. *)
From Coq Require Import List Arith Lia Bool.
Import ListNotations.

Section Conc.
  Variable State : Type.
  Variable Res : Type.

  Definition stepfn := State -> State * Res.

  Record tx := mkTxn { tx_write : bool; tx_steps : list stepfn }.

  (** a read-only transaction never changes the shared state *)
  Definition pure_step (f : stepfn) : Prop := forall s, fst (f s) = s.
  Definition tx_ok (t : tx) : Prop := tx_write t = false -> Forall pure_step (tx_steps t).

  Inductive lockst := LFree | LWriter (i : nat) | LReaders (is : list nat).

  (** a thread: transactions still to run; the one in progress (its remaining
      steps and the results so far); the results of the finished ones *)
  Record thread := mkTh {
    th_todo : list tx;
    th_cur : option (tx * list stepfn * list Res);
    th_done : list (list Res)
  }.

  Record sys := mkSys {
    s_state : State;
    s_lock : lockst;
    s_threads : list thread;
    s_log : list (nat * tx * list Res)     (* finished transactions in the order they released the lock *)
  }.

  Definition set_thread (ths : list thread) (i : nat) (th : thread) : list thread :=
    firstn i ths ++ th :: skipn (S i) ths.

  Definition remove_reader (i : nat) (l : list nat) : list nat := filter (fun j => negb (Nat.eqb j i)) l.

  (** lock acquisition as sync.RWMutex allows it *)
  Definition acquire (l : lockst) (write : bool) (i : nat) : option lockst :=
    match l, write with
    | LFree, true => Some (LWriter i)
    | LFree, false => Some (LReaders [i])
    | LReaders is, false => Some (LReaders (i :: is))
    | _, _ => None
    end.

  Definition release (l : lockst) (i : nat) : lockst :=
    match l with
    | LWriter _ => LFree
    | LReaders is => match remove_reader i is with [] => LFree | r => LReaders r end
    | LFree => LFree
    end.

  Inductive sstep : sys -> sys -> Prop :=
  | st_begin : forall S i th t rest l',
      nth_error (s_threads S) i = Some th -> th_cur th = None -> th_todo th = t :: rest ->
      acquire (s_lock S) (tx_write t) i = Some l' ->
      sstep S (mkSys (s_state S) l' (set_thread (s_threads S) i (mkTh rest (Some (t, tx_steps t, [])) (th_done th))) (s_log S))
  | st_op : forall S i th t f fs rs,
      nth_error (s_threads S) i = Some th -> th_cur th = Some (t, f :: fs, rs) ->
      sstep S (mkSys (fst (f (s_state S))) (s_lock S)
                     (set_thread (s_threads S) i (mkTh (th_todo th) (Some (t, fs, rs ++ [snd (f (s_state S))])) (th_done th)))
                     (s_log S))
  | st_end : forall S i th t rs,
      nth_error (s_threads S) i = Some th -> th_cur th = Some (t, [], rs) ->
      sstep S (mkSys (s_state S) (release (s_lock S) i)
                     (set_thread (s_threads S) i (mkTh (th_todo th) None (th_done th ++ [rs])))
                     (s_log S ++ [(i, t, rs)])).

  Inductive reach : sys -> sys -> Prop :=
  | reach_refl : forall S, reach S S
  | reach_step : forall S1 S2 S3, reach S1 S2 -> sstep S2 S3 -> reach S1 S3.

  (** serial execution of one transaction: all its steps, atomically *)
  Fixpoint run_steps (fs : list stepfn) (s : State) : State * list Res :=
    match fs with
    | [] => (s, [])
    | f :: r => let '(s1, x) := f s in let '(s2, xs) := run_steps r s1 in (s2, x :: xs)
    end.

  (** serial execution of a list of transactions in order *)
  Fixpoint run_serial (ts : list tx) (s : State) : State * list (list Res) :=
    match ts with
    | [] => (s, [])
    | t :: r => let '(s1, x) := run_steps (tx_steps t) s in let '(s2, xs) := run_serial r s1 in (s2, x :: xs)
    end.

  Definition init (s0 : State) (progs : list (list tx)) : sys :=
    mkSys s0 LFree (map (fun p => mkTh p None []) progs) [].

  Definition quiescent (S : sys) : Prop := Forall (fun th => th_cur th = None) (s_threads S).
End Conc.
