(** Index.v — the per-bucket key/value index (bptree.go's BPTree as used by the
    RAM index modes), at the level of its flattened leaf chain: a list of
    (key, record) sorted strictly by bytes.Compare.  Keys are never removed
    (Delete stores a tombstone record).  The scans are the Go loops of
    findRange / getAll / PrefixScan / PrefixSearchScan run over that chain
    (node boundaries are unobservable: every loop continues into the next
    leaf with j = 0). *)
From Verif Require Export Bytes ListDS.
Open Scope N_scope.

Record krec := mkK {
  kr_flag : N; kr_ts : N; kr_ttl : N; kr_txid : N;
  kr_fid : N; kr_pos : N; kr_val : bytes
}.

Definition kvidx := list (bytes * krec).

Definition DataDeleteFlag : N := 0.
Definition DataSetFlag : N := 1.

(** record.go IsExpired(ttl, timestamp) with the clock as an argument; the
    uint64 addition wraps *)
Definition is_expired (now ttl ts : N) : bool :=
  if ((0 <? ttl) && (now <? (ttl + ts) mod 2 ^ 64)) || (ttl =? 0) then false else true.

Definition kr_dead (now : N) (r : krec) : bool :=
  (kr_flag r =? DataDeleteFlag) || is_expired now (kr_ttl r) (kr_ts r).

(** BPTree.Insert: replace the record of an existing key, else insert in order *)
Fixpoint kv_insert (ix : kvidx) (k : bytes) (r : krec) : kvidx :=
  match ix with
  | [] => [(k, r)]
  | (k', r') :: t =>
      match bcompare k k' with
      | Eq => (k, r) :: t
      | Lt => (k, r) :: ix
      | Gt => (k', r') :: kv_insert t k r
      end
  end.

Fixpoint kv_find (ix : kvidx) (k : bytes) : option krec :=
  match ix with
  | [] => None
  | (k', r) :: t => if bytes_eqb k' k then Some r else kv_find t k
  end.

(** findRange(start, end): skip keys < start, collect while key <= end *)
Fixpoint kv_range (ix : kvidx) (st en : bytes) : kvidx :=
  match ix with
  | [] => []
  | (k, r) :: t =>
      if bltb k st then kv_range t st en
      else (fix collect (l : kvidx) : kvidx :=
              match l with
              | [] => []
              | (k', r') :: t' => if bltb en k' then [] else (k', r') :: collect t'
              end) ix
  end.

(** PrefixScan(prefix, offsetNum, limitNum) after fix 4f50de5.
    [pmatch] is the regexp verdict on the key remainder (always true for the
    plain prefix scan).  Returns the collected records and the value of coff.
    State of the Go loop: coff, numFound. *)
Fixpoint prefix_walk (now : N) (pmatch : bytes -> bool) (prefix : bytes) (offn limn : Z)
         (l : kvidx) (coff found : Z) : kvidx * Z :=
  match l with
  | [] => ([], coff)
  | (k, r) :: t =>
      if negb (has_prefix k prefix) then ([], coff)
      else if kr_dead now r then prefix_walk now pmatch prefix offn limn t coff found
      else if (coff <? offn)%Z then prefix_walk now pmatch prefix offn limn t (coff + 1)%Z found
      else if negb (pmatch (skipn (length prefix) k)) then prefix_walk now pmatch prefix offn limn t coff found
      else
        let found' := (found + 1)%Z in
        if ((0 <? limn) && (found' =? limn))%Z then ([(k, r)], coff)
        else let '(rs, c) := prefix_walk now pmatch prefix offn limn t coff found' in ((k, r) :: rs, c)
  end.

Fixpoint drop_below (l : kvidx) (prefix : bytes) : kvidx :=
  match l with
  | [] => []
  | (k, r) :: t => if bltb k prefix then drop_below t prefix else l
  end.

Definition kv_prefix_scan (now : N) (pmatch : bytes -> bool) (ix : kvidx) (prefix : bytes)
           (offn limn : Z) : kvidx * Z :=
  prefix_walk now pmatch prefix offn limn (drop_below ix prefix) 0%Z 0%Z.

(** getHintIdxDataItemsWrapper: drop dead records; keep while the limit allows
    (limit > 0: at most limit; limit = -1: all; any other limit: none) *)
Fixpoint wrap_items (now : N) (limn : Z) (rs : kvidx) (acc : Z) : kvidx :=
  match rs with
  | [] => []
  | (k, r) :: t =>
      if kr_dead now r then wrap_items now limn t acc
      else if (((0 <? limn) && (acc <? limn)) || (limn =? -1))%Z
           then (k, r) :: wrap_items now limn t (acc + 1)%Z
           else wrap_items now limn t acc
  end.
