(** DiskBytes.v — the bridge between the record-level disk of Engine.v and the
    BYTES the real Open reads.

    [bytes_of_disk] lays a record-level directory out as data files (the
    encodings of the records back to back, zero padding up to the segment
    size); [open_bytes] is Open as the library runs it: scan every data file
    with [Scan.scan_segment] in the StartFileLoadingMode of the options, fail
    when a scan fails, rebuild the indexes from the recovered records.

    [open_bytes_of_disk] (part 3): on the bytes of a well-formed directory
    whose records fit the header widths and have a non-empty key, the byte-level
    Open IS the record-level [do_open], in both read modes, full segments
    included.  Part 4 lifts the record-level theorems (C08/C09 reopen, C10
    crash) to bytes for every reachable world. *)
From Verif Require Import Bytes BytesFacts Crc32 CrcFacts Codec CodecFacts Scan ScanFacts.
From Verif Require Import Dec ListDS SetDS ZSetDS Index Engine TxFacts DecFacts ReplayFacts Merge MergeFacts.
From Coq Require Import Lia ZifyN ZifyNat ZifyBool.
Open Scope N_scope.

Local Opaque crc32 encode_entry.

(** ------------------------------------------------------------------ *)
(** * 1. The bytes of a directory                                        *)
(** ------------------------------------------------------------------ *)
Definition seg_entries (s : segment) : list entry := map snd s.

(** the data file of a segment created with size [size]: the records back to
    back, then zeros up to [size] (N subtraction is truncated: a segment that
    is longer than [size] gets no padding — the file is simply longer) *)
Definition bytes_of_segment (size : N) (s : segment) : bytes :=
  seg_bytes (seg_entries s) (N.to_nat (size - seg_end s)).

Definition bytes_of_disk (size : N) (d : disk) : list (N * bytes) :=
  map (fun fs => (fst fs, bytes_of_segment size (snd fs))) d.

(** ------------------------------------------------------------------ *)
(** * 2. Open over bytes                                                 *)
(** ------------------------------------------------------------------ *)
(** parseDataFiles: every data file is scanned in the StartFileLoadingMode
    ([o_load]; [o_rw] is the mode of the active file's writer) *)
Fixpoint scan_files (m : rwmode) (seg : N) (files : list (N * bytes)) : option disk :=
  match files with
  | [] => Some []
  | (f, c) :: r =>
      match scan_segment m seg c with
      | (rs, ScanStop) =>
          match scan_files m seg r with
          | Some d => Some ((f, rs) :: d)
          | None => None
          end
      | (_, ScanFail) => None
      end
  end.

Definition open_bytes (o : opts) (files : list (N * bytes)) : option world :=
  match scan_files (o_load o) (o_seg o) files with
  | Some d => Some (do_open o d)
  | None => None
  end.

(** ------------------------------------------------------------------ *)
(** * 3. Open over the bytes of a directory = [do_open]                  *)
(** ------------------------------------------------------------------ *)
(** what Tx.put guarantees of a record, beyond the field widths: the key is
    not empty, so the record is never mistaken for the all-zero header *)
Definition entry_good (e : entry) : Prop := wf_entry e /\ e_key e <> [].

Definition seg_entries_ok (s : segment) : Prop := Forall (fun pe => entry_good (snd pe)) s.
Definition disk_entries_ok (d : disk) : Prop := Forall (fun fs => seg_entries_ok (snd fs)) d.

(** every segment of the list (not only the first one under each id) is
    contiguous from offset 0 *)
Definition segs_wf (d : disk) : Prop := Forall (fun fs => seg_wf 0 (snd fs)) d.

Lemma nonempty_key_not_zero : forall e, e_key e <> [] -> is_zero_entry e = false.
Proof.
  intros e Hk. unfold is_zero_entry.
  assert (E : (blen (e_key e) =? 0) = false).
  { apply N.eqb_neq. unfold blen. destruct (e_key e) as [|x r]; [congruence|]. cbn [length]. lia. }
  rewrite E. rewrite andb_false_r. reflexivity.
Qed.

Lemma entry_good_scan : forall e, entry_good e -> wf_entry e /\ is_zero_entry e = false.
Proof. intros e [W K]. split; [exact W|apply nonempty_key_not_zero; exact K]. Qed.

Lemma seg_entries_good : forall s, seg_entries_ok s ->
  Forall (fun e => wf_entry e /\ is_zero_entry e = false) (seg_entries s).
Proof.
  intros s H. unfold seg_entries. apply Forall_map.
  eapply Forall_impl; [|exact H]. intros pe Hpe. apply entry_good_scan. exact Hpe.
Qed.

(** a contiguous segment is its list of records with the offsets recomputed *)
Lemma with_offsets_seg_wf : forall s off, seg_wf off s -> with_offsets off (seg_entries s) = s.
Proof.
  induction s as [|[p e] t IH]; intros off H; [reflexivity|].
  cbn [seg_wf] in H. destruct H as [Hp Ht]. subst p.
  cbn [seg_entries map snd with_offsets]. f_equal. apply IH. exact Ht.
Qed.

Lemma scan_bytes_of_segment : forall m seg size s,
  seg_wf 0 s -> seg_entries_ok s ->
  scan_segment m seg (bytes_of_segment size s) = (s, ScanStop).
Proof.
  intros m seg size s Hwf Hok. unfold bytes_of_segment.
  rewrite scan_recovers_records by (apply seg_entries_good; exact Hok).
  rewrite with_offsets_seg_wf by exact Hwf. reflexivity.
Qed.

Lemma scan_files_bytes_of_disk : forall m seg size d,
  segs_wf d -> disk_entries_ok d -> scan_files m seg (bytes_of_disk size d) = Some d.
Proof.
  intros m seg size d. induction d as [|[f s] r IH]; intros Hwf Hok; [reflexivity|].
  inversion Hwf as [|x l Hs Hr]; subst. inversion Hok as [|x l Hs' Hr']; subst.
  cbn [bytes_of_disk map fst snd scan_files] in *.
  rewrite scan_bytes_of_segment by assumption.
  fold (bytes_of_disk size r). rewrite IH by assumption. reflexivity.
Qed.

Lemma disk_wf_segs_wf : forall d, NoDup (map fst d) -> disk_wf d -> segs_wf d.
Proof.
  induction d as [|[f s] r IH]; intros Hnd Hwf; [constructor|].
  cbn [map fst] in Hnd. inversion Hnd as [|x l Hnotin Hnd']; subst.
  constructor.
  - cbn [snd]. apply (Hwf f s). cbn [disk_get]. rewrite N.eqb_refl. reflexivity.
  - apply IH; [exact Hnd'|]. intros g s' Hg. apply (Hwf g s'). cbn [disk_get].
    destruct (f =? g) eqn:E; [|exact Hg].
    apply N.eqb_eq in E. subst g. exfalso. apply Hnotin. exact (disk_get_some_in _ _ _ Hg).
Qed.

(** PART 3, list form: no hypothesis on file ids *)
Theorem open_bytes_of_segs : forall o size d,
  segs_wf d -> disk_entries_ok d ->
  open_bytes o (bytes_of_disk size d) = Some (do_open o d).
Proof.
  intros o size d Hwf Hok. unfold open_bytes.
  rewrite scan_files_bytes_of_disk by assumption. reflexivity.
Qed.

(** PART 3: the byte-level Open of the bytes of a well-formed directory is the
    record-level Open — whatever the read mode [o_load o] (FileIO or MMap),
    whatever the padding (a segment filled to its last byte has none) *)
Theorem open_bytes_of_disk : forall o d,
  NoDup (map fst d) -> disk_wf d -> disk_entries_ok d ->
  open_bytes o (bytes_of_disk (o_seg o) d) = Some (do_open o d).
Proof.
  intros o d Hnd Hwf Hok. apply open_bytes_of_segs; [|exact Hok].
  apply disk_wf_segs_wf; assumption.
Qed.

(** the data file of a contiguous segment is [max size (seg_end s)] bytes long *)
Lemma blen_concat_seg : forall s, blen (concat (map encode_entry (seg_entries s))) = seg_end s.
Proof.
  intros s. unfold seg_end.
  assert (G : forall s a, fold_left (fun a (pe : N * entry) => a + entry_size (snd pe)) s a =
                          a + blen (concat (map encode_entry (seg_entries s)))).
  { clear. induction s as [|[p e] t IH]; intros a.
    - cbn. lia.
    - cbn [fold_left seg_entries map concat snd]. rewrite IH, blen_app, length_encode_entry.
      unfold seg_entries. lia. }
  rewrite G. lia.
Qed.

Lemma blen_bytes_of_segment : forall size s, blen (bytes_of_segment size s) = N.max size (seg_end s).
Proof.
  intros size s. unfold bytes_of_segment, seg_bytes.
  rewrite blen_app, blen_zeros, blen_concat_seg. lia.
Qed.

(** ------------------------------------------------------------------ *)
(** * 4a. Every record of a reachable directory is [entry_good]          *)
(** ------------------------------------------------------------------ *)
(** The variable-length fields of a record are bounded by the size check of
    Commit (an entry larger than the segment size is rejected, fix d75ae6f)
    as soon as the segment size itself is at most 4 GiB; the fixed-width
    fields come from the arguments of the calls (ttl uint32, timestamp and
    transaction id uint64), which is what [call_sizes_ok] states. *)
Definition seg_size_ok (o : opts) : Prop := o_seg o < 2^32 + hdr_size.

Definition fields_ok (e : entry) : Prop :=
  e_ts e < 2^64 /\ e_ttl e < 2^32 /\ e_flag e < 2^16 /\ e_status e < 2^16 /\
  e_ds e < 2^16 /\ e_txid e < 2^64 /\ e_key e <> [].

Definition pend_ok (t : txstate) : Prop := tx_id t < 2^64 /\ Forall fields_ok (tx_pend t).

Definition op_sizes_ok (o : op) : Prop :=
  match o with OPut _ _ _ ttl ts => ttl < 2^32 /\ ts < 2^64 | _ => True end.

Definition call_sizes_ok (c : call) : Prop :=
  match c with
  | CBegin _ id => id < 2^64
  | COp o => op_sizes_ok o
  | COpen o => seg_size_ok o
  | _ => True
  end.

Lemma fields_ok_good : forall seg e,
  seg < 2^32 + hdr_size -> fields_ok e -> entry_size e <= seg -> entry_good e.
Proof.
  intros seg e Hseg (H1 & H2 & H3 & H4 & H5 & H6 & H7) Hsz.
  unfold entry_size, hdr_size in *. change (2^32) with 4294967296 in *.
  split; [|exact H7]. unfold wf_entry. change (2^32) with 4294967296.
  repeat split; try assumption; lia.
Qed.

Lemma entry_good_fields : forall e, entry_good e -> fields_ok e.
Proof.
  intros e [(H1 & H2 & H3 & H4 & H5 & H6 & _) K]. unfold fields_ok. repeat split; assumption.
Qed.

Lemma entry_good_with_status : forall e, entry_good e -> entry_good (with_status e St_Committed).
Proof.
  intros e [(H1 & H2 & H3 & H4 & H5 & H6 & H7 & H8 & H9) K]. split; [|exact K].
  unfold wf_entry, with_status. cbn [e_ts e_ttl e_flag e_status e_ds e_txid e_key e_value e_bucket].
  repeat split; assumption.
Qed.

(** ---- Tx.put ---- *)
Lemma tx_put_pend_ok : forall t b k v ttl flag ts ds,
  pend_ok t -> ts < 2^64 -> ttl < 2^32 -> flag < 2^16 -> ds < 2^16 ->
  pend_ok (fst (tx_put t b k v ttl flag ts ds)).
Proof.
  intros t b k v ttl flag ts ds [Hid Hp] Hts Httl Hf Hds. unfold tx_put.
  destruct (negb (tx_w t)); [split; assumption|].
  destruct k as [|k0 kr]; [split; assumption|]. cbn [fst]. split; [exact Hid|].
  cbn [tx_pend]. apply Forall_app. split; [exact Hp|]. constructor; [|constructor].
  unfold fields_ok, mk_entry. cbn [e_ts e_ttl e_flag e_status e_ds e_txid e_key].
  repeat split; try assumption; try reflexivity; discriminate.
Qed.

Lemma tx_put_all_pend_ok : forall vs t b k flag ts ds,
  pend_ok t -> ts < 2^64 -> flag < 2^16 -> ds < 2^16 ->
  pend_ok (fst (tx_put_all t b k vs flag ts ds)).
Proof.
  induction vs as [|v r IH]; intros t b k flag ts ds Ht Hts Hf Hds; [exact Ht|].
  cbn [tx_put_all].
  assert (H1 : pend_ok (fst (tx_put t b k v 0 flag ts ds))).
  { apply tx_put_pend_ok; try assumption. reflexivity. }
  destruct (tx_put t b k v 0 flag ts ds) as [t' res]. cbn [fst] in H1.
  destruct res; try exact H1. apply IH; assumption.
Qed.

Ltac small_const := first [assumption | reflexivity].

Ltac step_put_sz :=
  match goal with
  | Ht : pend_ok ?t1 |- context [tx_put ?t1 ?b ?k ?v ?ttl ?f ?ts ?ds] =>
      let H := fresh "Hput" in
      assert (H : pend_ok (fst (tx_put t1 b k v ttl f ts ds)))
        by (apply tx_put_pend_ok; small_const);
      destruct (tx_put t1 b k v ttl f ts ds) as [? ?]; cbn [fst snd] in H |- *
  | Ht : pend_ok ?t1 |- context [tx_put_all ?t1 ?b ?k ?vs ?f ?ts ?ds] =>
      let H := fresh "Hput" in
      assert (H : pend_ok (fst (tx_put_all t1 b k vs f ts ds)))
        by (apply tx_put_all_pend_ok; small_const);
      destruct (tx_put_all t1 b k vs f ts ds) as [? ?]; cbn [fst snd] in H |- *
  | |- context [match ?x with _ => _ end] => destruct x; cbn [fst snd]
  | |- context [if ?x then _ else _] => destruct x; cbn [fst snd]
  end.

(** every record an API call appends to the pending list has bounded fields *)
Lemma do_op_pend_ok : forall now w t o,
  now < 2^64 -> op_sizes_ok o -> pend_ok t -> pend_ok (snd (fst (do_op now w t o))).
Proof.
  intros now w t o Hnow Hop Ht. unfold do_op.
  destruct (ds_read (w_ix w) o) as [r|]; [exact Ht|].
  destruct o; cbn [fst snd]; try exact Ht.
  1:{ cbn [op_sizes_ok] in Hop. destruct Hop as [Httl Hts]. apply tx_put_pend_ok; small_const. }
  all: repeat step_put_sz; assumption.
Qed.

(** ---- the disk operations ---- *)
Lemma disk_entries_ok_create : forall d f, disk_entries_ok d -> disk_entries_ok (disk_create d f).
Proof.
  intros d f H. unfold disk_create. destruct (disk_get d f); [exact H|].
  apply Forall_app. split; [exact H|]. constructor; [|constructor]. constructor.
Qed.

Lemma disk_entries_ok_append : forall d f pos e,
  disk_entries_ok d -> entry_good e -> disk_entries_ok (disk_append d f pos e).
Proof.
  induction d as [|[g s] r IH]; intros f pos e H He.
  - cbn [disk_append]. constructor; [|constructor]. constructor; [exact He|constructor].
  - inversion H as [|x l Hs Hr]; subst. cbn [disk_append]. destruct (g =? f).
    + constructor; [|exact Hr]. cbn [snd] in *. apply Forall_app. split; [exact Hs|].
      constructor; [exact He|constructor].
    + constructor; [exact Hs|]. apply IH; assumption.
Qed.

Lemma disk_entries_ok_remove : forall d f, disk_entries_ok d -> disk_entries_ok (disk_remove d f).
Proof.
  intros d f H. unfold disk_remove, disk_entries_ok in *. rewrite Forall_forall in *.
  intros x Hx. apply filter_In in Hx. apply H. exact (proj1 Hx).
Qed.

Lemma disk_entries_ok_get : forall d f s, disk_entries_ok d -> disk_get d f = Some s -> seg_entries_ok s.
Proof.
  induction d as [|[g s0] r IH]; intros f s H Hg; [discriminate Hg|].
  inversion H as [|x l Hs Hr]; subst. cbn [disk_get] in Hg. destruct (g =? f).
  - injection Hg as Hg. subst s0. exact Hs.
  - exact (IH f s Hr Hg).
Qed.

(** ---- the write loop of Commit ---- *)
Lemma commit_write_entries : forall seg st e last,
  disk_entries_ok (c_disk st) -> entry_good e ->
  disk_entries_ok (c_disk (fst (commit_write seg st e last))).
Proof.
  intros seg st e last Hd He. rewrite commit_write_eq. cbv zeta. cbn [fst c_disk].
  apply disk_entries_ok_append.
  - unfold rotate. destruct (seg <? c_asize st + entry_size e); [|exact Hd].
    cbn [c_disk]. apply disk_entries_ok_create. exact Hd.
  - destruct last; [apply entry_good_with_status|]; exact He.
Qed.

Lemma commit_loop_entries : forall pend seg mark st,
  disk_entries_ok (c_disk st) -> Forall entry_good pend ->
  disk_entries_ok (c_disk (fst (commit_loop seg mark st pend))).
Proof.
  induction pend as [|e rest IH]; intros seg mark st Hd Hp; [exact Hd|].
  inversion Hp as [|x l He Hr]; subst. cbn [commit_loop].
  pose proof (commit_write_entries seg st e (mark && match rest with [] => true | _ => false end) Hd He) as H1.
  destruct (commit_write seg st e (mark && match rest with [] => true | _ => false end)) as [st1 r].
  cbn [fst] in H1.
  pose proof (IH seg mark st1 H1 Hr) as H2.
  destruct (commit_loop seg mark st1 rest) as [st2 rs]. cbn [fst] in *. exact H2.
Qed.

Lemma existsb_size_false : forall seg pend,
  existsb (fun e => seg <? entry_size e) pend = false -> Forall (fun e => entry_size e <= seg) pend.
Proof.
  intros seg pend H. apply Forall_forall. intros e He.
  destruct (seg <? entry_size e) eqn:E; [|lia].
  assert (X : existsb (fun e => seg <? entry_size e) pend = true).
  { apply existsb_exists. exists e. split; assumption. }
  rewrite X in H. discriminate H.
Qed.

Lemma Forall_firstn_keep : forall {A} (P : A -> Prop) k l, Forall P l -> Forall P (firstn k l).
Proof.
  intros A P. induction k as [|k IH]; intros l H; [constructor|].
  destruct l as [|x r]; [constructor|]. inversion H as [|y l' Hx Hr]; subst.
  cbn [firstn]. constructor; [exact Hx|apply IH; exact Hr].
Qed.

(** Commit (with or without a write fault) writes good records only: the
    size check bounds the three variable-length fields *)
Lemma do_commit_entries : forall fault w t,
  disk_entries_ok (w_disk w) -> seg_size_ok (w_opts w) -> Forall fields_ok (tx_pend t) ->
  disk_entries_ok (w_disk (fst (do_commit fault w t))).
Proof.
  intros fault w t Hd Hseg Hp. unfold do_commit.
  destruct (tx_pend t) as [|e0 rest] eqn:Ep; [exact Hd|].
  destruct (existsb (fun e => o_seg (w_opts w) <? entry_size e) (e0 :: rest)) eqn:Ex; [exact Hd|].
  assert (Hg : Forall entry_good (e0 :: rest)).
  { apply existsb_size_false in Ex. rewrite Forall_forall in *. intros e He.
    apply (fields_ok_good (o_seg (w_opts w))); [exact Hseg|apply Hp; exact He|apply Ex; exact He]. }
  destruct fault as [k|].
  - assert (Hk : Forall entry_good (firstn k (e0 :: rest))).
    { apply Forall_firstn_keep. exact Hg. }
    pose proof (commit_loop_entries (firstn k (e0 :: rest)) (o_seg (w_opts w)) false
                  (mkC (w_disk w) (w_maxfid w) (w_woff w) (w_asize w)) Hd Hk) as H.
    destruct (commit_loop _ _ _ _) as [st ws]. cbn [fst set_disk w_disk] in *. exact H.
  - pose proof (commit_loop_entries (e0 :: rest) (o_seg (w_opts w)) true
                  (mkC (w_disk w) (w_maxfid w) (w_woff w) (w_asize w)) Hd Hg) as H.
    destruct (commit_loop _ _ _ _) as [st ws]. cbn [fst set_disk w_disk] in *. exact H.
Qed.

(** the same when the records are known to be good beforehand (Merge rewrites
    records that are already on disk): no bound on the segment size is needed *)
Lemma do_commit_entries_good : forall w t,
  disk_entries_ok (w_disk w) -> Forall entry_good (tx_pend t) ->
  disk_entries_ok (w_disk (fst (do_commit None w t))).
Proof.
  intros w t Hd Hg. unfold do_commit.
  destruct (tx_pend t) as [|e0 rest] eqn:Ep; [exact Hd|].
  destruct (existsb (fun e => o_seg (w_opts w) <? entry_size e) (e0 :: rest)) eqn:Ex; [exact Hd|].
  pose proof (commit_loop_entries (e0 :: rest) (o_seg (w_opts w)) true
                (mkC (w_disk w) (w_maxfid w) (w_woff w) (w_asize w)) Hd Hg) as H.
  destruct (commit_loop _ _ _ _) as [st ws]. cbn [fst set_disk w_disk] in *. exact H.
Qed.

Lemma do_commit_opts : forall fault w t, w_opts (fst (do_commit fault w t)) = w_opts w.
Proof.
  intros fault w t. unfold do_commit. destruct (tx_pend t) as [|e0 rest]; [reflexivity|].
  destruct (existsb _ (e0 :: rest)); [reflexivity|].
  destruct fault as [k|]; destruct (commit_loop _ _ _ _); reflexivity.
Qed.

(** ---- the invariant ---- *)
Record BInv (w : world) : Prop := mkBInv {
  bi_disk : disk_entries_ok (w_disk w);
  bi_seg : seg_size_ok (w_opts w);
  bi_tx : match w_tx w with TxActive t => pend_ok t | _ => True end
}.

Lemma binv_empty : forall o, seg_size_ok o -> BInv (empty_world o).
Proof.
  intros o Ho. constructor.
  - change (w_disk (empty_world o)) with [(0, @nil (N * entry))]. constructor; [constructor|constructor].
  - exact Ho.
  - exact I.
Qed.

Lemma binv_open : forall o d, disk_entries_ok d -> seg_size_ok o -> BInv (do_open o d).
Proof.
  intros o d Hd Ho. unfold do_open. constructor; cbn [w_disk w_opts w_tx].
  - apply disk_entries_ok_create. exact Hd.
  - exact Ho.
  - exact I.
Qed.

Theorem step_binv : forall now w c,
  now < 2^64 -> BInv w -> call_sizes_ok c -> BInv (fst (step now w c)).
Proof.
  intros now w c Hnow [Hd Hs Ht] Hc. destruct c as [wr id|o| | | |o]; cbn [step].
  - destruct (w_closed w); cbn [fst]; constructor; try assumption.
    cbn [set_tx w_tx]. split; [exact Hc|constructor].
  - destruct (w_tx w) as [|t|] eqn:Et; try (cbn [fst]; constructor; [exact Hd|exact Hs|rewrite Et; exact I]).
    pose proof (do_op_world now w t o) as Hw.
    pose proof (do_op_pend_ok now w t o Hnow Hc Ht) as Hp.
    destruct (do_op now w t o) as [[w' t'] r]. cbn [fst snd] in *. subst w'.
    constructor; cbn [set_tx w_disk w_opts w_tx]; assumption.
  - destruct (w_tx w) as [|t|] eqn:Et; try (cbn [fst]; constructor; [exact Hd|exact Hs|rewrite Et; exact I]).
    pose proof (do_commit_entries None w t Hd Hs (proj2 Ht)) as Hd'.
    pose proof (do_commit_opts None w t) as Ho'.
    pose proof (do_commit_tx w t) as Hx.
    destruct (do_commit None w t) as [w' ok]. cbn [fst] in *. constructor.
    + exact Hd'.
    + rewrite Ho'. exact Hs.
    + destruct Hx as [Hx|Hx]; [subst w'; rewrite Et; exact Ht|rewrite Hx; exact I].
  - destruct (w_tx w) as [|t|] eqn:Et; try (cbn [fst]; constructor; [exact Hd|exact Hs|rewrite Et; exact I]).
    cbn [fst]. constructor; cbn [set_tx w_disk w_opts w_tx]; [exact Hd|exact Hs|exact I].
  - destruct (w_closed w); cbn [fst]; constructor; try assumption; exact I.
  - cbn [fst]. apply binv_open; [exact Hd|exact Hc].
Qed.

(** ---- Merge ---- *)
Lemma rewrite_entry_good : forall txid pe, txid < 2^64 -> entry_good (snd pe) -> entry_good (rewrite_entry txid pe).
Proof.
  intros txid pe Hid [(H1 & H2 & H3 & H4 & H5 & H6 & H7 & H8 & H9) K]. split; [|exact K].
  unfold wf_entry, rewrite_entry. cbn [e_ts e_ttl e_flag e_status e_ds e_txid e_key e_value e_bucket].
  repeat split; assumption.
Qed.

Lemma merge_pend_good : forall now w fid txid seg,
  txid < 2^64 -> seg_entries_ok seg -> Forall entry_good (merge_pend now w fid txid seg).
Proof.
  intros now w fid txid seg Hid Hs. unfold merge_pend. apply Forall_map.
  unfold seg_entries_ok in Hs. rewrite Forall_forall in *. intros pe Hpe.
  apply filter_In in Hpe. apply rewrite_entry_good; [exact Hid|]. apply Hs. exact (proj1 Hpe).
Qed.

Lemma new_file_binv : forall w, BInv w -> BInv (new_file w).
Proof.
  intros w [Hd Hs Ht]. constructor; cbn [new_file w_disk w_opts w_tx]; try assumption.
  apply disk_entries_ok_create. exact Hd.
Qed.

Lemma drop_file_binv : forall w2 w fid,
  disk_entries_ok (w_disk w2) -> w_opts w2 = w_opts w -> BInv w -> BInv (drop_file w2 fid (w_tx w)).
Proof.
  intros w2 w fid Hd Ho [_ Hs Ht]. constructor; cbn [drop_file w_disk w_opts w_tx].
  - apply disk_entries_ok_remove. exact Hd.
  - rewrite Ho. exact Hs.
  - exact Ht.
Qed.

Theorem merge_file_binv : forall now w fid txid,
  BInv w -> txid < 2^64 -> BInv (fst (merge_file now w fid txid)).
Proof.
  intros now w fid txid HB Hid. rewrite merge_file_eq.
  destruct (disk_get (w_disk w) fid) as [seg|] eqn:Eseg; [|exact HB].
  pose proof (merge_pend_good now w fid txid seg Hid (disk_entries_ok_get _ _ _ (bi_disk w HB) Eseg)) as Hg.
  destruct (merge_pend now w fid txid seg) as [|e0 rest].
  - cbn [fst]. destruct (fid =? w_maxfid w).
    + apply (drop_file_binv (new_file w) w); [exact (bi_disk _ (new_file_binv w HB))|reflexivity|exact HB].
    + apply (drop_file_binv w w); [exact (bi_disk w HB)|reflexivity|exact HB].
  - cbv beta iota zeta.
    pose proof (new_file_binv w HB) as HB1.
    pose proof (do_commit_entries_good (new_file w) (mkTx txid true (e0 :: rest)) (bi_disk _ HB1) Hg) as Hd2.
    pose proof (do_commit_opts None (new_file w) (mkTx txid true (e0 :: rest))) as Ho2.
    destruct (do_commit None (new_file w) (mkTx txid true (e0 :: rest))) as [w2 ok].
    cbn [fst snd] in *. destruct ok; cbn [fst].
    + apply (drop_file_binv w2 w); [exact Hd2|exact Ho2|exact HB].
    + exact HB1.
Qed.

Lemma merge_files_binv : forall fids now w txid,
  BInv w -> txid + N.of_nat (length fids) <= 2^64 -> BInv (fst (merge_files now w fids txid)).
Proof.
  induction fids as [|f r IH]; intros now w txid HB Hid; [exact HB|].
  cbn [merge_files]. cbn [length] in Hid.
  assert (Hid0 : txid < 2^64) by lia.
  pose proof (merge_file_binv now w f txid HB Hid0) as HB1.
  destruct (merge_file now w f txid) as [w1 ok]. cbn [fst] in *.
  destruct ok; [|exact HB1]. apply IH; [exact HB1|lia].
Qed.

Lemma length_nsort : forall l, length (nsort l) = length l.
Proof. intros l. apply Permutation.Permutation_length. apply nsort_perm. Qed.

(** Merge keeps the invariant when the ids of its internal transactions (one
    per data file, [txid0], [txid0 + 1], ...) fit 64 bits *)
Theorem do_merge_binv : forall now w txid0,
  BInv w -> txid0 + N.of_nat (length (w_disk w)) <= 2^64 -> BInv (fst (do_merge now w txid0)).
Proof.
  intros now w txid0 HB Hid. unfold do_merge.
  destruct (w_closed w); [exact HB|].
  assert (Hl : length (disk_fids (w_disk w)) = length (w_disk w)).
  { unfold disk_fids. rewrite length_nsort, map_length. reflexivity. }
  destruct (disk_fids (w_disk w)) as [|a [|b l]] eqn:Ef; [exact HB|exact HB|].
  apply merge_files_binv; [exact HB|]. rewrite Hl. exact Hid.
Qed.

(** ---- histories ---- *)
Definition act_sizes_ok (w : world) (a : act) : Prop :=
  match a with
  | ACall c => call_sizes_ok c
  | AMerge _ txid0 => txid0 + N.of_nat (length (w_disk w)) <= 2^64
  end.

Fixpoint acts_sizes_ok (now0 : N) (w : world) (l : list act) : Prop :=
  match l with [] => True | a :: r => act_sizes_ok w a /\ acts_sizes_ok now0 (act_step now0 w a) r end.

Lemma act_step_binv : forall now0 w a, now0 < 2^64 -> BInv w -> act_sizes_ok w a -> BInv (act_step now0 w a).
Proof.
  intros now0 w [c|now txid0] Hnow HB Hok; cbn [act_step act_sizes_ok] in *.
  - apply step_binv; assumption.
  - apply do_merge_binv; assumption.
Qed.

Lemma run_acts_binv : forall now0 l w,
  now0 < 2^64 -> BInv w -> acts_sizes_ok now0 w l -> BInv (run_acts now0 w l).
Proof.
  intros now0 l. induction l as [|a r IH]; intros w Hnow HB H; [exact HB|].
  cbn [acts_sizes_ok] in H. destruct H as [A B]. cbn [run_acts]. apply IH; [exact Hnow| |exact B].
  apply act_step_binv; assumption.
Qed.

Lemma run_calls_binv : forall now cs w,
  now < 2^64 -> BInv w -> Forall call_sizes_ok cs -> BInv (run_calls now w cs).
Proof.
  intros now cs. induction cs as [|c r IH]; intros w Hnow HB H; [exact HB|].
  inversion H as [|x l Hc Hr]; subst. cbn [run_calls]. apply IH; [exact Hnow| |exact Hr].
  apply step_binv; assumption.
Qed.

(** a history of engine calls is a history of acts *)
Lemma calls_as_acts : forall now cs w,
  calls_ok now w cs -> acts_ok now w (map ACall cs) /\ run_acts now w (map ACall cs) = run_calls now w cs.
Proof.
  intros now cs. induction cs as [|c r IH]; intros w H; [split; [exact I|reflexivity]|].
  cbn [calls_ok] in H. destruct H as (A & _ & C).
  destruct (IH _ C) as [IH1 IH2]. cbn [map acts_ok run_acts run_calls act_step act_ok].
  split; [split; assumption|exact IH2].
Qed.

(** ------------------------------------------------------------------ *)
(** * 4a. The reopen theorems over BYTES                                 *)
(** ------------------------------------------------------------------ *)
(** In every world reachable by engine calls and Merges (any interleaving of
    Close / Open with any options), the byte-level Open of the data files, with
    ANY options [o'] (either loading mode, any segment size), is the
    record-level Open; the directory it rebuilds satisfies [MInv]. *)
Theorem reachable_open_bytes : forall now0 l o o',
  now0 < 2^64 -> seg_size_ok o ->
  acts_ok now0 (empty_world o) l -> acts_sizes_ok now0 (empty_world o) l ->
  let w := run_acts now0 (empty_world o) l in
  open_bytes o' (bytes_of_disk (o_seg o') (w_disk w)) = Some (do_open o' (w_disk w)) /\
  MInv (do_open o' (w_disk w)).
Proof.
  intros now0 l o o' Hnow Ho Hacts Hsz w.
  destruct (wi_w2 w (reachable_winv now0 l o Hacts)) as (HM & Hwf & _).
  pose proof (run_acts_binv now0 l (empty_world o) Hnow (binv_empty o Ho) Hsz) as HB. fold w in HB.
  split.
  - apply open_bytes_of_disk; [exact (mi_nodup w HM)|exact Hwf|exact (bi_disk w HB)].
  - exact (open_minv o' (w_disk w) (w_maxfid w) (mi_nodup w HM) (mi_max_in w HM) (mi_max w HM) Hwf).
Qed.

(** C08 / C09 / C19 / C22 over bytes: in every world reachable by engine calls
    (the histories of ReplayFacts), opening the BYTES of the directory with any
    options rebuilds exactly the indexes, the committed ids, the active file
    and the write offset of the running process *)
Theorem reachable_reopen_bytes : forall now cs o o',
  now < 2^64 -> seg_size_ok o ->
  calls_ok now (empty_world o) cs -> Forall call_sizes_ok cs ->
  let w := run_calls now (empty_world o) cs in
  exists w',
    open_bytes o' (bytes_of_disk (o_seg o') (w_disk w)) = Some w' /\
    w_ix w' = w_ix w /\
    (forall id, nmem id (w_committed w') = nmem id (w_committed w)) /\
    w_maxfid w' = w_maxfid w /\ w_woff w' = w_woff w /\ w_asize w' = w_asize w /\
    w_disk w' = w_disk w /\ Inv w'.
Proof.
  intros now cs o o' Hnow Ho Hcalls Hsz w.
  destruct (calls_as_acts now cs (empty_world o) Hcalls) as [Hacts Hrun].
  pose proof (reachable_winv now (map ACall cs) o Hacts) as HW. rewrite Hrun in HW. fold w in HW.
  destruct (wi_w2 w HW) as (HM & Hwf & _).
  pose proof (run_calls_binv now cs (empty_world o) Hnow (binv_empty o Ho) Hsz) as HB. fold w in HB.
  pose proof (reachable_inv now cs o Hcalls) as HI. fold w in HI.
  exists (do_open o' (w_disk w)). split.
  - apply open_bytes_of_disk; [exact (mi_nodup w HM)|exact Hwf|exact (bi_disk w HB)].
  - exact (reopen_preserves w o' HI).
Qed.

(** the [COpen] call of the model IS the byte-level Open of the data files, in
    every reachable world: the whole-history theorems (HistoryRefine) speak
    about the bytes *)
Corollary open_call_is_open_bytes : forall now0 l o o',
  now0 < 2^64 -> seg_size_ok o ->
  acts_ok now0 (empty_world o) l -> acts_sizes_ok now0 (empty_world o) l ->
  let w := run_acts now0 (empty_world o) l in
  open_bytes o' (bytes_of_disk (o_seg o') (w_disk w)) = Some (fst (step now0 w (COpen o'))).
Proof.
  intros now0 l o o' Hnow Ho Hacts Hsz w. cbn [step fst].
  exact (proj1 (reachable_open_bytes now0 l o o' Hnow Ho Hacts Hsz)).
Qed.

(** ------------------------------------------------------------------ *)
(** * 4b. The crash theorem over BYTES                                   *)
(** ------------------------------------------------------------------ *)
(** [tail] (what follows the last complete record of a file) does not start
    with a decodable record *)
Definition no_record_at (m : rwmode) (es : list entry) (tail : bytes) : Prop :=
  forall e crc, decode_at m (concat (map encode_entry es) ++ tail) (blen (concat (map encode_entry es))) <> DecOk e crc.

(** a data file whose complete records are those of [s], followed by [tail] *)
Definition torn_file (s : segment) (tail : bytes) : bytes :=
  concat (map encode_entry (seg_entries s)) ++ tail.

(** the data files of [d], the file [f] ending in [tail] instead of zeros *)
Definition bytes_of_disk_torn (size : N) (d : disk) (f : N) (tail : bytes) : list (N * bytes) :=
  map (fun fs => (fst fs, if fst fs =? f then torn_file (snd fs) tail else bytes_of_segment size (snd fs))) d.

Lemma scan_torn_file : forall m seg s tail,
  seg_wf 0 s -> seg_entries_ok s -> no_record_at m (seg_entries s) tail ->
  scan_segment m seg (torn_file s tail) = (s, ScanStop).
Proof.
  intros m seg s tail Hwf Hok Hno. unfold torn_file.
  rewrite scan_stops_at_torn_tail; [|apply seg_entries_good; exact Hok|exact Hno].
  rewrite with_offsets_seg_wf by exact Hwf. reflexivity.
Qed.

Lemma scan_files_torn : forall m seg size f tail d,
  segs_wf d -> disk_entries_ok d ->
  (forall s, In (f, s) d -> no_record_at m (seg_entries s) tail) ->
  scan_files m seg (bytes_of_disk_torn size d f tail) = Some d.
Proof.
  intros m seg size f tail d. induction d as [|[g s] r IH]; intros Hwf Hok Hno; [reflexivity|].
  inversion Hwf as [|x l Hs Hr]; subst. inversion Hok as [|x l Hs' Hr']; subst.
  cbn [bytes_of_disk_torn map fst snd scan_files] in *.
  assert (Hscan : scan_segment m seg (if g =? f then torn_file s tail else bytes_of_segment size s) = (s, ScanStop)).
  { destruct (g =? f) eqn:E.
    - apply N.eqb_eq in E. subst g. apply scan_torn_file; try assumption. apply Hno. left. reflexivity.
    - apply scan_bytes_of_segment; assumption. }
  rewrite Hscan. fold (bytes_of_disk_torn size r f tail).
  rewrite IH; [reflexivity|assumption|assumption|]. intros s0 Hin. apply Hno. right. exact Hin.
Qed.

Lemma in_disk_get : forall d f s, NoDup (map fst d) -> In (f, s) d -> disk_get d f = Some s.
Proof.
  induction d as [|[g s0] r IH]; intros f s Hnd Hin; [destruct Hin|].
  cbn [map fst] in Hnd. inversion Hnd as [|x l Hnotin Hnd']; subst. cbn [disk_get].
  destruct Hin as [Hin|Hin].
  - injection Hin as E1 E2. subst g s0. rewrite N.eqb_refl. reflexivity.
  - destruct (g =? f) eqn:E; [|exact (IH f s Hnd' Hin)].
    apply N.eqb_eq in E. subst g. exfalso. apply Hnotin.
    change f with (fst (f, s)). apply in_map. exact Hin.
Qed.

(** PART 4b, generic form: when the file [f] of a well-formed directory ends,
    after its complete records, in bytes that do not decode to a record (a
    torn write), the byte-level Open recovers exactly the complete records:
    it is the record-level Open of [d] *)
Theorem open_bytes_torn : forall o d f tail,
  NoDup (map fst d) -> disk_wf d -> disk_entries_ok d ->
  (forall s, disk_get d f = Some s -> no_record_at (o_load o) (seg_entries s) tail) ->
  open_bytes o (bytes_of_disk_torn (o_seg o) d f tail) = Some (do_open o d).
Proof.
  intros o d f tail Hnd Hwf Hok Hno. unfold open_bytes.
  rewrite scan_files_torn; [reflexivity|apply disk_wf_segs_wf; assumption|exact Hok|].
  intros s Hin. apply Hno. apply in_disk_get; assumption.
Qed.

(** ---- tails that provably hold no record ---- *)
(** zeros (the untouched rest of the pre-allocated file) *)
Lemma no_record_zeros : forall m es k, no_record_at m es (zeros k).
Proof. intros m es k e crc. apply decode_zeros_not_ok. Qed.

(** a decoded record has the three lengths announced by the header *)
Lemma decode_ok_sizes : forall m c off e crc, decode_at m c off = DecOk e crc ->
  exists h, read_at m c off hdr_size = RdOk h /\
            blen (e_key e) = fld h 12 4 /\ blen (e_value e) = fld h 16 4 /\ blen (e_bucket e) = fld h 26 4.
Proof.
  intros m c off e crc. unfold decode_at.
  destruct (read_at m c off hdr_size) as [h| |] eqn:R0; [|discriminate|discriminate].
  cbv zeta.
  destruct (_ && _ && _ && _); [discriminate|].
  destruct (read_at m c (off + hdr_size) (fld h 26 4)) as [b| |] eqn:R1; [|discriminate|discriminate].
  destruct (read_at m c (off + hdr_size + fld h 26 4) (fld h 12 4)) as [k| |] eqn:R2; [|discriminate|discriminate].
  destruct (read_at m c (off + hdr_size + fld h 26 4 + fld h 12 4) (fld h 16 4)) as [v| |] eqn:R3; [|discriminate|discriminate].
  destruct (_ =? _); [|discriminate].
  intros H. inversion H. subst e. clear H.
  exists h. cbn [e_key e_value e_bucket].
  apply read_at_ok in R1, R2, R3. split; [reflexivity|].
  split; [exact (proj1 R2)|]. split; [exact (proj1 R3)|exact (proj1 R1)].
Qed.

(** a record cut short by the crash, the file ending at the cut: not decoded,
    in BOTH read modes (ScanFacts has the FileIO half) *)
Lemma torn_at_eof_not_decoded_any : forall m pre e n e' crc,
  wf_entry e -> (n < length (encode_entry e))%nat ->
  decode_at m (pre ++ firstn n (encode_entry e)) (blen pre) <> DecOk e' crc.
Proof.
  intros m pre e n e' crc (Hts & Httl & Hflag & Hst & Hds & Htx & Hk & Hv & Hb) Hn D.
  pose proof (length_encode_entry e) as Hsz. unfold blen at 1 in Hsz.
  assert (Hc : blen (pre ++ firstn n (encode_entry e)) = blen pre + N.of_nat n).
  { rewrite blen_app. unfold blen at 2. rewrite firstn_length. lia. }
  pose proof (decode_ok_inside _ _ _ _ _ D) as Hin. rewrite Hc in Hin.
  destruct (Nat.ltb n 42) eqn:E42.
  - apply Nat.ltb_lt in E42. pose proof (entry_size_ge e'). lia.
  - apply Nat.ltb_ge in E42.
    destruct (decode_ok_sizes _ _ _ _ _ D) as (h & R & Sk & Sv & Sb).
    assert (Hsplit : firstn n (encode_entry e) =
                     entry_hdr e ++ firstn (n - 42) (e_bucket e ++ e_key e ++ e_value e)).
    { rewrite encode_entry_split, firstn_app, length_entry_hdr.
      rewrite firstn_all2 by (rewrite length_entry_hdr; lia). reflexivity. }
    assert (Hh : hdr_size = blen (entry_hdr e)) by (unfold blen; rewrite length_entry_hdr; reflexivity).
    rewrite Hsplit, Hh in R.
    rewrite (read_at_fileio_mid m pre (entry_hdr e) _ (blen pre) eq_refl) in R.
    injection R as R. subst h.
    rewrite fld_ksz in Sk. rewrite fld_vsz in Sv. rewrite fld_bsz in Sb.
    rewrite N.mod_small in Sk, Sv, Sb by assumption.
    unfold entry_size in *. lia.
Qed.

Lemma no_record_torn_eof : forall m es e n,
  wf_entry e -> (n < length (encode_entry e))%nat -> no_record_at m es (firstn n (encode_entry e)).
Proof. intros m es e n W Hn e' crc. apply torn_at_eof_not_decoded_any; assumption. Qed.

(** C10 over bytes.  A crash after [k] complete records of a transaction of
    more than [k] records: whatever the file [f] (in practice the active one)
    holds after its complete records — as long as it does not decode to a
    record — the byte-level Open rebuilds the pre-transaction indexes. *)
Theorem crash_prefix_invisible_bytes : forall w t k o f tail,
  Inv w -> disk_wf (w_disk w) -> BInv w -> w_tx w = TxActive t ->
  existsb (fun e => o_seg (w_opts w) <? entry_size e) (tx_pend t) = false ->
  (k < length (tx_pend t))%nat ->
  let st0 := mkC (w_disk w) (w_maxfid w) (w_woff w) (w_asize w) in
  let d := c_disk (fst (commit_loop (o_seg (w_opts w)) false st0 (firstn k (tx_pend t)))) in
  (forall s, disk_get d f = Some s -> no_record_at (o_load o) (seg_entries s) tail) ->
  exists w',
    open_bytes o (bytes_of_disk_torn (o_seg o) d f tail) = Some w' /\
    w_ix w' = w_ix w /\
    (forall id, nmem id (w_committed w') = nmem id (w_committed w)).
Proof.
  intros w t k o f tail HI Hwf HB Ht Hex Hk st0 d Hno.
  destruct (crash_prefix_invisible w t k o HI Ht Hex Hk) as [A B]. fold st0 in A, B. fold d in A, B.
  exists (do_open o d). split; [|split; [exact A|exact B]].
  destruct (st0_ok w HI) as [Hc0 Ho0]. fold st0 in Hc0, Ho0.
  assert (Hg : Forall entry_good (firstn k (tx_pend t))).
  { apply Forall_firstn_keep. pose proof (bi_tx w HB) as Hp. rewrite Ht in Hp. destruct Hp as [_ Hp].
    apply existsb_size_false in Hex. rewrite Forall_forall in *. intros e He.
    apply (fields_ok_good (o_seg (w_opts w))); [exact (bi_seg w HB)|apply Hp; exact He|apply Hex; exact He]. }
  pose proof (commit_loop_entries (firstn k (tx_pend t)) (o_seg (w_opts w)) false st0 (bi_disk w HB) Hg) as Hd.
  fold d in Hd.
  destruct (commit_loop (o_seg (w_opts w)) false st0 (firstn k (tx_pend t))) as [st' ws] eqn:EL.
  destruct (commit_loop_spec _ _ _ _ _ _ Hc0 EL) as (_ & _ & (Hnd & _ & _) & _).
  pose proof (commit_loop_wf _ _ _ _ _ _ Hc0 Ho0 Hwf EL) as Hwf'.
  cbn [fst] in d. subst d.
  apply open_bytes_torn; assumption.
Qed.

(** ... and after all its records (the last one carries the marker) the
    byte-level Open rebuilds the post-commit indexes *)
Theorem crash_complete_visible_bytes : forall w t o,
  Inv w -> WInv w -> BInv w -> w_tx w = TxActive t -> tx_pend t <> [] ->
  existsb (fun e => o_seg (w_opts w) <? entry_size e) (tx_pend t) = false ->
  let w1 := fst (do_commit None w t) in
  snd (do_commit None w t) = true /\
  exists w',
    open_bytes o (bytes_of_disk (o_seg o) (w_disk w1)) = Some w' /\
    w_ix w' = w_ix w1 /\
    (forall id, nmem id (w_committed w') = nmem id (w_committed w1)).
Proof.
  intros w t o HI HW HB Ht Hne Hex w1.
  destruct (crash_complete_visible w t o HI Ht Hne Hex) as (A & B & C). fold w1 in B, C.
  split; [exact A|]. exists (do_open o (w_disk w1)). split; [|split; [exact B|exact C]].
  assert (E : fst (step 0 w CCommit) = w1).
  { cbn [step]. rewrite Ht. unfold w1. destruct (do_commit None w t) as [w' ok]. reflexivity. }
  pose proof (step_winv 0 w CCommit HW I) as HW1. rewrite E in HW1.
  pose proof (do_commit_entries None w t (bi_disk w HB) (bi_seg w HB)) as Hd.
  pose proof (bi_tx w HB) as Hp. rewrite Ht in Hp. specialize (Hd (proj2 Hp)). fold w1 in Hd.
  destruct (wi_w2 w1 HW1) as (HM & Hwf & _).
  apply open_bytes_of_disk; [exact (mi_nodup w1 HM)|exact Hwf|exact Hd].
Qed.

(** the same for a world reached by engine calls: all the invariants hold *)
Corollary crash_prefix_invisible_bytes_reachable : forall now cs o0 t k o f tail,
  now < 2^64 -> seg_size_ok o0 ->
  calls_ok now (empty_world o0) cs -> Forall call_sizes_ok cs ->
  let w := run_calls now (empty_world o0) cs in
  w_tx w = TxActive t ->
  existsb (fun e => o_seg (w_opts w) <? entry_size e) (tx_pend t) = false ->
  (k < length (tx_pend t))%nat ->
  let st0 := mkC (w_disk w) (w_maxfid w) (w_woff w) (w_asize w) in
  let d := c_disk (fst (commit_loop (o_seg (w_opts w)) false st0 (firstn k (tx_pend t)))) in
  (forall s, disk_get d f = Some s -> no_record_at (o_load o) (seg_entries s) tail) ->
  exists w',
    open_bytes o (bytes_of_disk_torn (o_seg o) d f tail) = Some w' /\
    w_ix w' = w_ix w /\
    (forall id, nmem id (w_committed w') = nmem id (w_committed w)).
Proof.
  intros now cs o0 t k o f tail Hnow Ho Hcalls Hsz w Ht Hex Hk st0 d Hno.
  destruct (calls_as_acts now cs (empty_world o0) Hcalls) as [Hacts Hrun].
  pose proof (reachable_winv now (map ACall cs) o0 Hacts) as HW. rewrite Hrun in HW. fold w in HW.
  destruct (wi_w2 w HW) as (_ & Hwf & _).
  pose proof (run_calls_binv now cs (empty_world o0) Hnow (binv_empty o0 Ho) Hsz) as HB. fold w in HB.
  pose proof (reachable_inv now cs o0 Hcalls) as HI. fold w in HI.
  exact (crash_prefix_invisible_bytes w t k o f tail HI Hwf HB Ht Hex Hk Hno).
Qed.

(** the two tails for which nothing is left to assume: the rest of the file is
    still all zeros (the crash hit between two records), or the file ends
    inside the next record [e] (either read mode) *)
Corollary crash_prefix_invisible_bytes_zeros : forall w t k o f pad,
  Inv w -> disk_wf (w_disk w) -> BInv w -> w_tx w = TxActive t ->
  existsb (fun e => o_seg (w_opts w) <? entry_size e) (tx_pend t) = false ->
  (k < length (tx_pend t))%nat ->
  let st0 := mkC (w_disk w) (w_maxfid w) (w_woff w) (w_asize w) in
  let d := c_disk (fst (commit_loop (o_seg (w_opts w)) false st0 (firstn k (tx_pend t)))) in
  exists w',
    open_bytes o (bytes_of_disk_torn (o_seg o) d f (zeros pad)) = Some w' /\
    w_ix w' = w_ix w /\
    (forall id, nmem id (w_committed w') = nmem id (w_committed w)).
Proof.
  intros w t k o f pad HI Hwf HB Ht Hex Hk st0 d.
  apply crash_prefix_invisible_bytes; try assumption. intros s _. apply no_record_zeros.
Qed.

Corollary crash_prefix_invisible_bytes_eof : forall w t k o f e n,
  Inv w -> disk_wf (w_disk w) -> BInv w -> w_tx w = TxActive t ->
  existsb (fun e => o_seg (w_opts w) <? entry_size e) (tx_pend t) = false ->
  (k < length (tx_pend t))%nat ->
  wf_entry e -> (n < length (encode_entry e))%nat ->
  let st0 := mkC (w_disk w) (w_maxfid w) (w_woff w) (w_asize w) in
  let d := c_disk (fst (commit_loop (o_seg (w_opts w)) false st0 (firstn k (tx_pend t)))) in
  exists w',
    open_bytes o (bytes_of_disk_torn (o_seg o) d f (firstn n (encode_entry e))) = Some w' /\
    w_ix w' = w_ix w /\
    (forall id, nmem id (w_committed w') = nmem id (w_committed w)).
Proof.
  intros w t k o f e n HI Hwf HB Ht Hex Hk W Hn st0 d.
  apply crash_prefix_invisible_bytes; try assumption. intros s _. apply no_record_torn_eof; assumption.
Qed.

(** ------------------------------------------------------------------ *)
(** * Remarks, side conditions and counterexamples                       *)
(** ------------------------------------------------------------------ *)
(** a segment filled to its last byte has no padding at all: the file is
    exactly the encodings, and [open_bytes_of_disk] covers it *)
Lemma bytes_of_segment_full : forall size s,
  size <= seg_end s -> bytes_of_segment size s = concat (map encode_entry (seg_entries s)).
Proof.
  intros size s H. unfold bytes_of_segment, seg_bytes.
  replace (N.to_nat (size - seg_end s)) with 0%nat by lia. cbn [zeros repeat]. apply app_nil_r.
Qed.

(** (i) [disk_wf] alone is not enough: it speaks of the FIRST segment under
    each file id only; with a duplicated id the shadowed segment need not be
    contiguous and the scan returns other offsets.  Hence [NoDup (map fst d)]
    in [open_bytes_of_disk] (it holds in every reachable world), or [segs_wf]. *)
Definition dup_e : entry := mkEntry [x62] [x6b] [x76] 0 0 F_Set 1 DS_KV 1.
Definition dup_d : disk := [(0, []); (0, [(5, dup_e)])].
Definition dup_o : opts := mkOpts 0 FileIO FileIO false 100.

Example disk_wf_without_nodup_is_not_enough :
  disk_wf dup_d /\ disk_entries_ok dup_d /\
  open_bytes dup_o (bytes_of_disk (o_seg dup_o) dup_d) <> Some (do_open dup_o dup_d).
Proof.
  split; [|split].
  - intros f s H. cbn [dup_d disk_get] in H. destruct (0 =? f); [|destruct (0 =? f)]; try discriminate H.
    injection H as H. subst s. exact I.
  - constructor; [constructor|]. constructor; [|constructor]. constructor; [|constructor].
    split; [|discriminate]. vm_compute. repeat split; reflexivity.
  - intros H. apply (f_equal (option_map w_disk)) in H. vm_compute in H. discriminate H.
Qed.

(** (ii) a torn record followed by zeros.  The hypothesis [no_record_at] of
    [open_bytes_torn] cannot be dropped for a tail of the form
    [firstn n (encode_entry e) ++ zeros k]: when the bytes the crash lost are
    themselves zeros the file holds the COMPLETE record, and the scan returns
    it.  (When they are not, the CRC comparison decides; CRC-32 detects every
    single-byte difference, [CrcFacts.crc32_single_byte], but not every
    difference, so no unconditional theorem exists for this tail.) *)
Definition tz_e : entry := mkEntry [x62] [x6b] [x00] 0 0 F_Set 0 DS_KV 1.

Example torn_then_zeros_may_be_complete :
  wf_entry tz_e /\ e_key tz_e <> [] /\ (44 < length (encode_entry tz_e))%nat /\
  firstn 44 (encode_entry tz_e) ++ zeros 10 = encode_entry tz_e ++ zeros 9 /\
  ~ no_record_at FileIO [] (firstn 44 (encode_entry tz_e) ++ zeros 10) /\
  ~ no_record_at MMap [] (firstn 44 (encode_entry tz_e) ++ zeros 10) /\
  scan_segment FileIO 100 (torn_file [] (firstn 44 (encode_entry tz_e) ++ zeros 10)) = ([(0, tz_e)], ScanStop).
Proof.
  split; [vm_compute; repeat split; reflexivity|].
  split; [discriminate|].
  split; [vm_compute; lia|].
  split; [vm_compute; reflexivity|].
  split; [|split].
  - intros H. apply (H tz_e (crc32 (entry_body tz_e))). vm_compute. reflexivity.
  - intros H. apply (H tz_e (crc32 (entry_body tz_e))). vm_compute. reflexivity.
  - vm_compute. reflexivity.
Qed.

(** (iii) segments longer than the segment size.  After a reopen with a
    smaller segment size the data files are longer than [o_seg]
    ([bytes_of_segment] then adds no padding and [open_bytes_of_disk] needs no
    bound).  A loader that only SEES the first [o_seg] bytes of each file (a
    memory mapping of [o_seg] bytes) is modelled by [clip]: it agrees with the
    record-level Open when no segment is longer than [o_seg], and loses
    records otherwise — on a directory reachable by engine calls. *)
Definition clip (size : N) (c : bytes) : bytes := firstn (N.to_nat size) c.
Definition clip_files (size : N) (files : list (N * bytes)) : list (N * bytes) :=
  map (fun fc => (fst fc, clip size (snd fc))) files.

Lemma clip_bytes_of_segment : forall size s,
  seg_end s <= size -> clip size (bytes_of_segment size s) = bytes_of_segment size s.
Proof.
  intros size s H. unfold clip. apply firstn_all2.
  pose proof (blen_bytes_of_segment size s) as L. unfold blen in L. lia.
Qed.

Theorem open_bytes_clipped : forall o d,
  NoDup (map fst d) -> disk_wf d -> disk_entries_ok d ->
  Forall (fun fs => seg_end (snd fs) <= o_seg o) d ->
  open_bytes o (clip_files (o_seg o) (bytes_of_disk (o_seg o) d)) = Some (do_open o d).
Proof.
  intros o d Hnd Hwf Hok Hlen.
  assert (E : clip_files (o_seg o) (bytes_of_disk (o_seg o) d) = bytes_of_disk (o_seg o) d).
  { clear Hnd Hwf Hok. induction Hlen as [|[f s] r Hs Hr IH]; [reflexivity|].
    cbn [bytes_of_disk clip_files map fst snd] in *. rewrite clip_bytes_of_segment by exact Hs.
    f_equal. exact IH. }
  rewrite E. apply open_bytes_of_disk; assumption.
Qed.

(** [ov_w0] (MergeFacts): two Puts under segment size 50, then Open with
    segment size 10; both data files are 45 bytes long *)
Example clipped_open_loses_long_segments :
  calls_ok 0 (empty_world ov_o50) ov_calls /\
  map (fun fs => seg_end (snd fs)) (w_disk ov_w0) = [45; 45] /\
  open_bytes ov_o10 (bytes_of_disk (o_seg ov_o10) (w_disk ov_w0)) = Some (do_open ov_o10 (w_disk ov_w0)) /\
  option_map (fun w => ix_kv (w_ix w))
    (open_bytes ov_o10 (clip_files (o_seg ov_o10) (bytes_of_disk (o_seg ov_o10) (w_disk ov_w0)))) = Some [] /\
  ix_kv (w_ix (do_open ov_o10 (w_disk ov_w0))) <> [].
Proof.
  split; [exact ov_calls_ok|].
  split; [vm_compute; reflexivity|].
  split; [vm_compute; reflexivity|].
  split; [vm_compute; reflexivity|].
  vm_compute. discriminate.
Qed.

(** (iv) no side condition is needed at the end of a memory-mapped segment: a
    read that starts exactly at the end of the file is a short read (io.EOF),
    not the "offset out of mapped region" error, so [scan_never_fails] and
    [open_bytes_of_disk] hold in MMap mode for a segment filled to its last
    byte.  [open_bytes] never fails at all: *)
Theorem scan_files_total : forall m seg files, scan_files m seg files <> None.
Proof.
  intros m seg files. induction files as [|[f c] r IH]; [discriminate|].
  cbn [scan_files]. pose proof (scan_never_fails m seg c) as H.
  destruct (scan_segment m seg c) as [rs en]. cbn [snd] in H. subst en.
  destruct (scan_files m seg r); [discriminate|exact IH].
Qed.

Theorem open_bytes_never_fails : forall o files, open_bytes o files <> None.
Proof.
  intros o files. unfold open_bytes. pose proof (scan_files_total (o_load o) (o_seg o) files) as H.
  destruct (scan_files (o_load o) (o_seg o) files); [discriminate|]. exfalso. apply H. reflexivity.
Qed.

(** ---- axiom audit ---- *)
Print Assumptions open_bytes_of_disk.
Print Assumptions open_bytes_of_segs.
Print Assumptions step_binv.
Print Assumptions do_merge_binv.
Print Assumptions reachable_open_bytes.
Print Assumptions reachable_reopen_bytes.
Print Assumptions open_bytes_torn.
Print Assumptions crash_prefix_invisible_bytes.
Print Assumptions crash_prefix_invisible_bytes_reachable.
Print Assumptions crash_complete_visible_bytes.
Print Assumptions open_call_is_open_bytes.
Print Assumptions crash_prefix_invisible_bytes_zeros.
Print Assumptions crash_prefix_invisible_bytes_eof.
Print Assumptions open_bytes_clipped.
Print Assumptions open_bytes_never_fails.
Print Assumptions disk_wf_without_nodup_is_not_enough.
Print Assumptions torn_then_zeros_may_be_complete.
Print Assumptions clipped_open_loses_long_segments.
