(** SparseFacts.v — reads in the sparse index mode, which consult the active
    segment and then the sealed segments newest first, return what the single
    merged index (latest record per key = the RAM index modes) returns (C02). *)
From Coq Require Import Sorted.
From Verif Require Import Bytes BytesFacts ListDS Index IndexFacts Sparse.
Open Scope N_scope.

(** well-formedness of the per-segment data: every index is key-sorted and the
    root-index range of a sealed segment covers its keys *)
Definition sealed_wf (s : sealed) : Prop :=
  ksorted (sg_idx s) /\ forall k r, In (k, r) (sg_idx s) -> bleb (sg_start s) k = true /\ bleb k (sg_end s) = true.
Definition sparse_wf (sp : sparse) : Prop := ksorted (sp_active sp) /\ Forall sealed_wf (sp_sealed sp).

(** ---- helpers: kv_find on sorted association lists ---- *)
Lemma kv_find_cons : forall k' r t k,
  kv_find ((k', r) :: t) k = if bytes_eqb k' k then Some r else kv_find t k.
Proof. intros. reflexivity. Qed.

Lemma kv_find_some_in : forall ix k r, kv_find ix k = Some r -> In (k, r) ix.
Proof.
  induction ix as [|[k' r'] t IH]; intros k r H.
  - discriminate H.
  - rewrite kv_find_cons in H. destruct (bytes_eqb k' k) eqn:E.
    + apply bytes_eqb_eq in E. subst k'. injection H as H. subst r'. left. reflexivity.
    + right. apply IH. exact H.
Qed.

Lemma kv_find_above_none : forall t k, Forall (fun kr => bltb k (fst kr) = true) t -> kv_find t k = None.
Proof.
  induction t as [|[k' r'] t IH]; intros k Hf; [reflexivity|].
  inversion Hf as [|x l Hk Hft]; subst. cbn [fst] in Hk.
  rewrite kv_find_cons. apply bltb_neq in Hk.
  rewrite (bytes_eqb_neq k' k) by congruence. apply IH. exact Hft.
Qed.

Lemma bytes_eqb_false_neq : forall a b, bytes_eqb a b = false -> a <> b.
Proof. intros a b H Heq. subst b. rewrite bytes_eqb_refl in H. discriminate H. Qed.

Lemma kv_find_in_sorted : forall ix k r, ksorted ix -> In (k, r) ix -> kv_find ix k = Some r.
Proof.
  induction ix as [|[k' r'] t IH]; intros k r Hs Hin; [destruct Hin|].
  apply ksorted_inv in Hs as [Hst Hlt]. rewrite kv_find_cons. destruct Hin as [Hin|Hin].
  - injection Hin as Hk Hr. subst k' r'. rewrite bytes_eqb_refl. reflexivity.
  - rewrite Forall_forall in Hlt. pose proof (Hlt _ Hin) as Hk. cbn [fst] in Hk.
    apply bltb_neq in Hk. rewrite (bytes_eqb_neq k' k Hk). apply IH; assumption.
Qed.

(** two sorted association lists that agree on every lookup are equal *)
Lemma ksorted_ext : forall a b, ksorted a -> ksorted b ->
  (forall k, kv_find a k = kv_find b k) -> a = b.
Proof.
  induction a as [|[k1 r1] t1 IH]; intros b Ha Hb Hext.
  - destruct b as [|[k2 r2] t2]; [reflexivity|].
    specialize (Hext k2). rewrite kv_find_cons, bytes_eqb_refl in Hext. discriminate Hext.
  - destruct b as [|[k2 r2] t2].
    + specialize (Hext k1). rewrite kv_find_cons, bytes_eqb_refl in Hext. discriminate Hext.
    + pose proof (ksorted_inv _ _ _ Ha) as [Hs1 Hl1].
      pose proof (ksorted_inv _ _ _ Hb) as [Hs2 Hl2].
      assert (Hk : k1 = k2).
      { pose proof (Hext k1) as E1. pose proof (Hext k2) as E2.
        rewrite !kv_find_cons in E1, E2. rewrite bytes_eqb_refl in E1, E2.
        destruct (bytes_eqb k2 k1) eqn:E21.
        - apply bytes_eqb_eq in E21. symmetry. exact E21.
        - destruct (bytes_eqb k1 k2) eqn:E12.
          + apply bytes_eqb_eq in E12. exact E12.
          + exfalso. symmetry in E1. apply kv_find_some_in in E1. apply kv_find_some_in in E2.
            rewrite Forall_forall in Hl1, Hl2.
            pose proof (Hl2 _ E1) as L1. pose proof (Hl1 _ E2) as L2. cbn [fst] in L1, L2.
            pose proof (bltb_trans _ _ _ L1 L2) as L. rewrite bltb_irrefl in L. discriminate L. }
      subst k2.
      assert (Hr : r1 = r2).
      { specialize (Hext k1). rewrite !kv_find_cons, bytes_eqb_refl in Hext. congruence. }
      subst r2. f_equal. apply IH; [exact Hs1|exact Hs2|].
      intros k. destruct (bytes_eqb k1 k) eqn:E.
      * apply bytes_eqb_eq in E. subst k.
        rewrite (kv_find_above_none _ _ Hl1), (kv_find_above_none _ _ Hl2). reflexivity.
      * specialize (Hext k). rewrite !kv_find_cons, E in Hext. exact Hext.
Qed.

Lemma kv_find_app : forall a b k,
  kv_find (a ++ b) k = match kv_find a k with Some r => Some r | None => kv_find b k end.
Proof.
  induction a as [|[k' r'] t IH]; intros b k; [reflexivity|].
  rewrite <- app_comm_cons, !kv_find_cons. destruct (bytes_eqb k' k); [reflexivity|apply IH].
Qed.

(** filtering by a predicate on the key *)
Lemma kv_find_filter_key : forall (P : bytes -> bool) ix k,
  kv_find (filter (fun kr => P (fst kr)) ix) k = if P k then kv_find ix k else None.
Proof.
  induction ix as [|[k' r'] t IH]; intros k.
  - cbn [filter kv_find]. destruct (P k); reflexivity.
  - cbn [filter fst]. destruct (P k') eqn:EP.
    + rewrite !kv_find_cons. destruct (bytes_eqb k' k) eqn:E.
      * apply bytes_eqb_eq in E. subst k'. rewrite EP. reflexivity.
      * apply IH.
    + rewrite kv_find_cons. destruct (bytes_eqb k' k) eqn:E.
      * apply bytes_eqb_eq in E. subst k'. rewrite IH, EP. reflexivity.
      * apply IH.
Qed.

Lemma kv_find_filter_ext : forall (P : bytes -> bool) (f : bytes * krec -> bool) ix k,
  (forall kr, f kr = P (fst kr)) ->
  kv_find (filter f ix) k = if P k then kv_find ix k else None.
Proof.
  intros P f ix k Hf. rewrite (filter_ext f (fun kr => P (fst kr)) Hf). apply kv_find_filter_key.
Qed.

Lemma Forall_filter : forall {A} (Q : A -> Prop) (f : A -> bool) l, Forall Q l -> Forall Q (filter f l).
Proof.
  intros A Q f l H. apply Forall_forall. intros x Hx. apply filter_In in Hx as [Hx _].
  rewrite Forall_forall in H. apply H. exact Hx.
Qed.

Lemma filter_ksorted : forall (f : bytes * krec -> bool) ix, ksorted ix -> ksorted (filter f ix).
Proof.
  induction ix as [|[k r] t IH]; intros Hs; [constructor|].
  apply ksorted_inv in Hs as [Hst Hlt]. cbn [filter]. destruct (f (k, r)).
  - apply ksorted_cons; [apply IH; exact Hst|apply Forall_filter; exact Hlt].
  - apply IH. exact Hst.
Qed.

Lemma bleb_trans : forall a b c, bleb a b = true -> bleb b c = true -> bleb a c = true.
Proof.
  intros a b c H1 H2. rewrite (bleb_bltb a c). destruct (bltb c a) eqn:E; [|reflexivity].
  pose proof (bltb_le_trans _ _ _ E H1) as L. rewrite (bleb_bltb b c), L in H2. discriminate H2.
Qed.

(** ---- first_wins ---- *)
Lemma first_wins_sorted : forall l seen, ksorted seen -> ksorted (first_wins l seen).
Proof.
  induction l as [|[k r] t IH]; intros seen Hs; cbn [first_wins]; [exact Hs|].
  destruct (kv_find seen k).
  - apply IH. exact Hs.
  - apply IH. apply kv_insert_sorted. exact Hs.
Qed.

Lemma kv_find_first_wins : forall l seen k, ksorted seen ->
  kv_find (first_wins l seen) k =
    match kv_find seen k with Some r => Some r | None => kv_find l k end.
Proof.
  induction l as [|[k0 r0] t IH]; intros seen k Hs; cbn [first_wins].
  - cbn [kv_find]. destruct (kv_find seen k); reflexivity.
  - rewrite kv_find_cons. destruct (kv_find seen k0) eqn:E0.
    + rewrite (IH seen k Hs). destruct (kv_find seen k) eqn:Ek; [reflexivity|].
      destruct (bytes_eqb k0 k) eqn:E; [|reflexivity].
      apply bytes_eqb_eq in E. subst k0. rewrite Ek in E0. discriminate E0.
    + rewrite (IH (kv_insert seen k0 r0) k (kv_insert_sorted _ _ _ Hs)).
      destruct (bytes_eqb k0 k) eqn:E.
      * apply bytes_eqb_eq in E. subst k0. rewrite (kv_find_insert_same _ _ _ Hs), E0. reflexivity.
      * apply bytes_eqb_false_neq in E.
        rewrite (kv_find_insert_other seen k0 k r0) by congruence. reflexivity.
Qed.

Lemma kv_find_first_wins_nil : forall l k, kv_find (first_wins l []) k = kv_find l k.
Proof. intros l k. rewrite kv_find_first_wins by constructor. reflexivity. Qed.

(** ---- merged_index ---- *)
Definition ins_all (acc ix : kvidx) : kvidx :=
  fold_left (fun a kr => kv_insert a (fst kr) (snd kr)) ix acc.

Lemma ins_all_cons : forall acc k r t, ins_all acc ((k, r) :: t) = ins_all (kv_insert acc k r) t.
Proof. intros. reflexivity. Qed.

Lemma ins_all_sorted : forall ix acc, ksorted acc -> ksorted (ins_all acc ix).
Proof.
  induction ix as [|[k r] t IH]; intros acc Hs; [exact Hs|].
  rewrite ins_all_cons. apply IH. apply kv_insert_sorted. exact Hs.
Qed.

Lemma ins_all_find : forall ix acc k, ksorted acc -> ksorted ix ->
  kv_find (ins_all acc ix) k = match kv_find ix k with Some r => Some r | None => kv_find acc k end.
Proof.
  induction ix as [|[k0 r0] t IH]; intros acc k Ha Hi; [reflexivity|].
  apply ksorted_inv in Hi as [Hst Hlt].
  rewrite ins_all_cons, (IH (kv_insert acc k0 r0) k (kv_insert_sorted _ _ _ Ha) Hst), kv_find_cons.
  destruct (bytes_eqb k0 k) eqn:E.
  - apply bytes_eqb_eq in E. subst k0.
    rewrite (kv_find_above_none _ _ Hlt). apply kv_find_insert_same. exact Ha.
  - apply bytes_eqb_false_neq in E.
    rewrite (kv_find_insert_other acc k0 k r0) by congruence. reflexivity.
Qed.

Definition sealed_merged (ss : list sealed) : kvidx :=
  fold_left ins_all (rev (map sg_idx ss)) [].

Lemma sealed_merged_cons : forall s r, sealed_merged (s :: r) = ins_all (sealed_merged r) (sg_idx s).
Proof.
  intros s r. unfold sealed_merged. cbn [map rev]. rewrite fold_left_app. reflexivity.
Qed.

Lemma merged_index_eq : forall sp, merged_index sp = ins_all (sealed_merged (sp_sealed sp)) (sp_active sp).
Proof.
  intros sp. unfold merged_index, all_segments_oldest_first. rewrite fold_left_app. reflexivity.
Qed.

Lemma sealed_merged_sorted : forall ss, ksorted (sealed_merged ss).
Proof.
  induction ss as [|s r IH]; [constructor|].
  rewrite sealed_merged_cons. apply ins_all_sorted. exact IH.
Qed.

Lemma sealed_wf_find_range : forall s k x, sealed_wf s -> kv_find (sg_idx s) k = Some x ->
  bleb (sg_start s) k = true /\ bleb k (sg_end s) = true.
Proof.
  intros s k x [_ Hr] Hf. apply (Hr k x). apply kv_find_some_in. exact Hf.
Qed.

Lemma sealed_find_wf_cons : forall s r k, sealed_wf s ->
  sealed_find (s :: r) k =
    match kv_find (sg_idx s) k with Some x => Some x | None => sealed_find r k end.
Proof.
  intros s r k Hwf. cbn [sealed_find].
  destruct (bleb (sg_start s) k && bleb k (sg_end s)) eqn:E; [reflexivity|].
  destruct (kv_find (sg_idx s) k) eqn:Ef; [|reflexivity].
  apply (sealed_wf_find_range s k _ Hwf) in Ef as [E1 E2]. rewrite E1, E2 in E. discriminate E.
Qed.

Lemma sealed_merged_find : forall ss k, Forall sealed_wf ss ->
  kv_find (sealed_merged ss) k = sealed_find ss k.
Proof.
  induction ss as [|s r IH]; intros k Hwf; [reflexivity|].
  inversion Hwf as [|x l Hs Hr]; subst.
  rewrite sealed_merged_cons, (sealed_find_wf_cons s r k Hs).
  rewrite ins_all_find; [|apply sealed_merged_sorted|destruct Hs as [Hs _]; exact Hs].
  rewrite (IH k Hr). reflexivity.
Qed.

Lemma merged_index_sorted : forall sp, sparse_wf sp -> ksorted (merged_index sp).
Proof.
  intros sp _. rewrite merged_index_eq. apply ins_all_sorted. apply sealed_merged_sorted.
Qed.

(** the merged index holds, for every key, the record of the newest segment that has the key *)
Lemma merged_index_find : forall sp k, sparse_wf sp ->
  kv_find (merged_index sp) k =
    match kv_find (sp_active sp) k with
    | Some r => Some r
    | None => sealed_find (sp_sealed sp) k
    end.
Proof.
  intros sp k [Ha Hs]. rewrite merged_index_eq.
  rewrite ins_all_find; [|apply sealed_merged_sorted|exact Ha].
  rewrite (sealed_merged_find _ k Hs). reflexivity.
Qed.

(** Get *)
Theorem sparse_get_refines : forall now sp k, sparse_wf sp ->
  sparse_get now sp k =
    match kv_find (merged_index sp) k with
    | Some r => if kr_dead now r then None else Some r
    | None => None
    end.
Proof.
  intros now sp k Hwf. rewrite (merged_index_find sp k Hwf). unfold sparse_get.
  destruct (kv_find (sp_active sp) k); reflexivity.
Qed.

(** ---- scans: lookup in the concatenation of the per-segment selections ---- *)
Lemma kv_find_flat_map_key : forall (P : bytes -> bool) (G : sealed -> kvidx) ss k,
  Forall sealed_wf ss ->
  (forall s, In s ss -> kv_find (G s) k = if P k then kv_find (sg_idx s) k else None) ->
  kv_find (flat_map G ss) k = if P k then sealed_find ss k else None.
Proof.
  induction ss as [|s r IH]; intros k Hwf HG.
  - cbn [flat_map kv_find sealed_find]. destruct (P k); reflexivity.
  - inversion Hwf as [|x l Hs Hr]; subst.
    cbn [flat_map]. rewrite kv_find_app, (HG s (or_introl eq_refl)), (sealed_find_wf_cons s r k Hs).
    rewrite (IH k Hr) by (intros s' Hin; apply HG; right; exact Hin).
    destruct (P k); [reflexivity|reflexivity].
Qed.

(** RangeScan (and GetAll, a RangeScan over the bucket's key range) *)
Theorem sparse_range_refines : forall now sp st en, sparse_wf sp ->
  sparse_range now sp st en =
    filter (fun kr => negb (kr_dead now (snd kr))) (kv_range (merged_index sp) st en).
Proof.
  intros now sp st en Hwf. pose proof Hwf as [Ha Hs].
  unfold sparse_range, process_scan. f_equal.
  set (P := fun k : bytes => bleb st k && bleb k en).
  apply ksorted_ext.
  - apply first_wins_sorted. constructor.
  - rewrite (kv_range_spec _ st en (merged_index_sorted sp Hwf)). apply filter_ksorted.
    apply merged_index_sorted. exact Hwf.
  - intros k. rewrite kv_find_first_wins_nil, kv_find_app.
    rewrite (kv_range_spec _ st en (merged_index_sorted sp Hwf)).
    rewrite (kv_range_spec _ st en Ha).
    rewrite (kv_find_filter_ext P _ (merged_index sp) k) by (intros kr; reflexivity).
    rewrite (kv_find_filter_ext P _ (sp_active sp) k) by (intros kr; reflexivity).
    rewrite (merged_index_find sp k Hwf).
    rewrite (kv_find_flat_map_key P).
    + destruct (P k); [reflexivity|reflexivity].
    + exact Hs.
    + intros s Hin. rewrite Forall_forall in Hs. pose proof (Hs s Hin) as Hws.
      destruct (bleb st (sg_end s) && bleb (sg_start s) en) eqn:Eov.
      * destruct Hws as [Hss _]. rewrite (kv_range_spec _ st en Hss).
        apply (kv_find_filter_ext P). intros kr. reflexivity.
      * cbn [kv_find]. destruct (P k) eqn:EP; [|reflexivity].
        destruct (kv_find (sg_idx s) k) eqn:Ef; [|reflexivity].
        apply (sealed_wf_find_range s k _ Hws) in Ef as [E1 E2].
        unfold P in EP. apply andb_true_iff in EP as [P1 P2].
        rewrite (bleb_trans _ _ _ P1 E2), (bleb_trans _ _ _ E1 P2) in Eov. discriminate Eov.
Qed.

(** PrefixScan without offset and limit *)
Theorem sparse_prefix_refines : forall now sp p, sparse_wf sp ->
  sparse_prefix now sp p =
    filter (fun kr => negb (kr_dead now (snd kr))) (with_prefix (merged_index sp) p).
Proof.
  intros now sp p Hwf. pose proof Hwf as [Ha Hs].
  unfold sparse_prefix, process_scan. f_equal.
  set (P := fun k : bytes => has_prefix k p).
  apply ksorted_ext.
  - apply first_wins_sorted. constructor.
  - unfold with_prefix. apply filter_ksorted. apply merged_index_sorted. exact Hwf.
  - intros k. rewrite kv_find_first_wins_nil, kv_find_app. unfold with_prefix.
    rewrite (kv_find_filter_ext P _ (merged_index sp) k) by (intros kr; reflexivity).
    rewrite (kv_find_filter_ext P _ (sp_active sp) k) by (intros kr; reflexivity).
    rewrite (merged_index_find sp k Hwf).
    rewrite (kv_find_flat_map_key P).
    + destruct (P k); [reflexivity|reflexivity].
    + exact Hs.
    + intros s Hin. apply (kv_find_filter_ext P). intros kr. reflexivity.
Qed.
