(** FrameFacts.v — buckets are isolated namespaces (C04): applying a record of
    bucket A changes nothing that a read of bucket B <> A can see, for every
    pair of byte-string names (prefixes of each other, empty, ...). *)
From Verif Require Import Bytes BytesFacts Codec Dec ListDS ListFacts SetDS ZSetDS Index Engine IndexFacts.
Open Scope N_scope.

(** what a read of bucket [b] can see of the indexes *)
Definition bucket_view (ix : indexes) (b : bytes) :=
  (alookup (ix_kv ix) b, alookup (ix_list ix) b, alookup (ix_set ix) b, alookup (ix_zset ix) b).

Lemma apply_kv_frame kv e fid pos b : b <> e_bucket e -> alookup (apply_kv kv e fid pos) b = alookup kv b.
Proof. intros H. unfold apply_kv. apply alookup_aset_other. congruence. Qed.

Lemma apply_ds_frame strict ix e b : b <> e_bucket e -> bucket_view (apply_ds strict ix e) b = bucket_view ix b.
Proof.
  intros H. unfold apply_ds, bucket_view.
  destruct (e_ds e =? DS_Set); [cbn; rewrite alookup_aset_other by congruence; reflexivity|].
  destruct (e_ds e =? DS_ZSet); [cbn; rewrite alookup_aset_other by congruence; reflexivity|].
  destruct (e_ds e =? DS_List); [cbn; rewrite alookup_aset_other by congruence; reflexivity|].
  reflexivity.
Qed.

(** open-time replay of one record *)
Lemma replay1_frame comm ix r b : b <> e_bucket (snd r) -> bucket_view (replay1 comm ix r) b = bucket_view ix b.
Proof.
  destruct r as [[fid pos] e]. cbn [snd]. intros H. unfold replay1.
  destruct (nmem (e_txid e) comm); [|reflexivity].
  destruct (e_ds e =? DS_KV).
  - unfold bucket_view; cbn. rewrite apply_kv_frame by (cbn; exact H). reflexivity.
  - apply apply_ds_frame. exact H.
Qed.

Lemma replay_frame comm rs b : forall ix,
  (forall r, In r rs -> b <> e_bucket (snd r)) ->
  bucket_view (fold_left (replay1 comm) rs ix) b = bucket_view ix b.
Proof.
  induction rs as [|r rs IH]; intros ix H; cbn; [reflexivity|].
  rewrite IH by (intros; apply H; right; assumption).
  apply replay1_frame. apply H. left. reflexivity.
Qed.

(** commit-time index update of a whole transaction *)
Lemma commit_index_frame ix ws b :
  (forall r, In r ws -> b <> e_bucket (snd r)) -> bucket_view (commit_index ix ws) b = bucket_view ix b.
Proof.
  intros H. unfold commit_index.
  set (kvf := fun (kv : list (bytes * kvidx)) (r : N * N * entry) =>
               let '(fid, pos, e) := r in if e_ds e =? DS_KV then apply_kv kv e fid pos else kv).
  assert (KV : forall ws kv, (forall r, In r ws -> b <> e_bucket (snd r)) ->
                             alookup (fold_left kvf ws kv) b = alookup kv b).
  { clear. induction ws as [|r ws IH]; intros kv H; cbn; [reflexivity|].
    rewrite IH by (intros; apply H; right; assumption).
    destruct r as [[fid pos] e]. cbn. destruct (e_ds e =? DS_KV); [|reflexivity].
    apply apply_kv_frame. apply (H (fid, pos, e)). left. reflexivity. }
  assert (DS : forall (ws : list (N * N * entry)) ix0, (forall r, In r ws -> b <> e_bucket (snd r)) ->
                 bucket_view (fold_left (fun ix (r : N * N * entry) => apply_ds false ix (snd r)) ws ix0) b = bucket_view ix0 b).
  { clear. induction ws as [|r ws IH]; intros ix0 H; cbn; [reflexivity|].
    rewrite IH by (intros; apply H; right; assumption).
    apply apply_ds_frame. apply H. left. reflexivity. }
  rewrite DS by exact H. unfold bucket_view; cbn. rewrite KV by exact H. reflexivity.
Qed.

(** the same key in two buckets: each bucket keeps its own record *)
Lemma same_key_two_buckets kv e1 e2 f1 p1 f2 p2 :
  e_bucket e1 <> e_bucket e2 ->
  IndexFacts.ksorted (getdef kv (e_bucket e1) []) -> IndexFacts.ksorted (getdef kv (e_bucket e2) []) ->
  let kv' := apply_kv (apply_kv kv e1 f1 p1) e2 f2 p2 in
  (exists ix1, alookup kv' (e_bucket e1) = Some ix1 /\ kv_find ix1 (e_key e1) = Some (krec_of e1 f1 p1)) /\
  (exists ix2, alookup kv' (e_bucket e2) = Some ix2 /\ kv_find ix2 (e_key e2) = Some (krec_of e2 f2 p2)).
Proof.
  intros Hb S1 S2 kv'. subst kv'. split.
  - rewrite apply_kv_frame by exact Hb. unfold apply_kv. rewrite alookup_aset_same.
    eexists; split; [reflexivity|]. apply IndexFacts.kv_find_insert_same. exact S1.
  - unfold apply_kv at 1. rewrite alookup_aset_same.
    eexists; split; [reflexivity|]. apply IndexFacts.kv_find_insert_same.
    unfold getdef. rewrite apply_kv_frame by congruence. exact S2.
Qed.
