(** HistoryMergeDS.v — "what remains" of HistoryMerge.v: set and sorted-set
    RESULTS inside a history after a Merge that IS followed by an Open.
    Histories are HistoryMerge's ([tact], [run_m], [run_m_res]); lists stay
    excluded ([Forall no_push]: no RPush / LPush, hence no list record at all).

    THEOREM C [history_merge_ds_refines] (route R1; + [.._mono],
    [history_merge_ds_state_refines], [.._prefix]): under the hypotheses of
    HistoryMerge's Theorem A with "no Open follows a Merge" REPLACED by the
    side condition [opens_nonempty] — at every Open that follows a Merge
      (i)  no set bucket, no set key, no sorted-set bucket of the
           specification's state is empty ([no_empty_ds], finding F30), and
      (ii) the Merges since the last Open succeeded or were refused
           ([merge_good]; a Merge that stops on a rejected rewrite transaction
           leaves a log whose sorted-set records no longer replay) —
    EVERY call returns exactly the specification's result.
    [opens_before_merges_nonempty]: the old condition implies the new one;
    [history_merge_refines_no_push_again], [history_merge_refines_gen].

    THEOREM D [history_merge_ds_refines_upto] (route R2; + [history_merge_ds_state_upto],
    [history_merge_ds_refines_untouched]): without (i).  Every call agrees UP
    TO F30 ([upto_f30]): the result is the specification's, or the call looks
    at an empty structure of the specification's state ([touches_empty]) and
    the engine answers as the specification does on a state without some of
    the empty structures.  The engine's structure indexes are the
    specification's minus some empty ones ([dle]: "dsrel up to empty").
    Needs (ii) and [smoves_clear]: no SMove of a write transaction looks at an
    empty key (there the specification moves and the engine refuses, and the
    two states part for good: [smoves_clear_needed]).
    Corollary: if no call looks at an empty structure, all results agree exactly.

    How.  The engine is compared with a SHADOW specification world: the
    specification run from the structure indexes the engine rebuilt at the last
    Open that followed a Merge.  Engine vs. shadow: HistoryMerge's [K] and [D],
    unchanged.  Shadow vs. specification: a relation on specification states
    kept by every call — [seqv] (same up to Go's map order: member order, key
    order, bucket order; part 1) for Theorem C, [sleqv] (and up to missing
    empty structures; part 9) for Theorem D.  At an Open after a Merge the
    rebuilt indexes are related to the running ones by
      - [reopen_sets_sle] / [reopen_sets_sseq]: same memberships (MergeDS), and
        every bucket / key of the rebuilt index is one of the running index —
        new invariant [RI]: every committed set record of the log has its
        bucket (SAdd: its key) in the index (part 3);
      - [reopen_zsets_zle]: new invariant [ZG] (part 4): the replay of the log
        gives the sorted sets of the index up to empty ones; kept by Commit
        (same records applied on both sides) and Open, established by every
        successful Merge (MergeDS.clean_replay), lost by a Merge that fails;
      - [NL] (part 2): no list record in the log or pending.

    Part 8 / 11: every added hypothesis is needed ([no_empty_needed] and
    [no_empty_needed_other_kinds], [merge_success_needed], [no_push_needed],
    [smoves_clear_needed], [merge_success_needed_upto]; the clocks and the
    guard: [clock_hypothesis_needed_ds], [guard_needed_ds]).
    Part 7: the state relations after every prefix, also for HistoryMerge's
    Theorem A ([history_merge_state_refines_prefix]). *)
From Coq Require Import Sorted Lia Permutation.
From Verif Require Import Bytes BytesFacts Codec Dec DecFacts ListDS ListFacts SetDS SetFacts ZSetDS Index Engine Spec
  TxFacts IndexFacts ReplayFacts KVRefine ApplyFacts Merge MergeFacts MergeDS KVHistory DSHistory HistoryRefine MergeCrash
  HistoryMerge.
Open Scope N_scope.

Local Opaque N.pow.
Local Opaque commit_loop.

(** ================= part 1: specification states that differ in Go's map order ================= *)
(** After Merge and a reopen the set index is rebuilt from the rewritten SAdd
    records: the members of a set come back in another order, the keys of a
    bucket and the buckets too.  No call can tell (SetDS: every list-valued
    result is sorted, SPop takes its member from the oracle). *)

(** two duplicate-free member lists with the same members *)
Definition leq (l1 l2 : list bytes) : Prop := NoDup l1 /\ NoDup l2 /\ forall x, bmem x l1 = bmem x l2.

Definition oleq (o1 o2 : option (list bytes)) : Prop :=
  match o1, o2 with Some l1, Some l2 => leq l1 l2 | None, None => True | _, _ => False end.
Definition smeq (s1 s2 : smap) : Prop := forall k, oleq (alookup s1 k) (alookup s2 k).
Definition osmeq (o1 o2 : option smap) : Prop :=
  match o1, o2 with Some s1, Some s2 => smeq s1 s2 | None, None => True | _, _ => False end.
Definition sseq (S1 S2 : list (bytes * smap)) : Prop := forall b, osmeq (alookup S1 b) (alookup S2 b).
Definition zeq (Z1 Z2 : list (bytes * zset)) : Prop := forall b, alookup Z1 b = alookup Z2 b.

(** the structure parts of two index records: same lists, same sets up to
    order, same sorted sets up to the order of the buckets *)
Definition deq (i1 i2 : indexes) : Prop :=
  ix_list i1 = ix_list i2 /\ sseq (ix_set i1) (ix_set i2) /\ zeq (ix_zset i1) (ix_zset i2).

Definition seqv (s1 s2 : sstate) : Prop := s_kv s1 = s_kv s2 /\ deq (s_ds s1) (s_ds s2).

Lemma leq_In : forall l1 l2 x, leq l1 l2 -> (In x l1 <-> In x l2).
Proof. intros l1 l2 x (_ & _ & H). rewrite <- !bmem_In, (H x). reflexivity. Qed.

Lemma leq_refl : forall l, NoDup l -> leq l l.
Proof. intros l H. split; [exact H|]. split; [exact H|reflexivity]. Qed.

Lemma leq_sym : forall a b, leq a b -> leq b a.
Proof. intros a b (A & B & C). split; [exact B|]. split; [exact A|]. intros x. symmetry. apply C. Qed.

Lemma leq_trans : forall a b c, leq a b -> leq b c -> leq a c.
Proof.
  intros a b c (A & B & C) (_ & D & E). split; [exact A|]. split; [exact D|].
  intros x. rewrite (C x). apply E.
Qed.

Lemma leq_nil : leq [] [].
Proof. apply leq_refl. constructor. Qed.

Lemma leq_length : forall l1 l2, leq l1 l2 -> length l1 = length l2.
Proof.
  intros l1 l2 H. apply Permutation_length. destruct H as (A & B & C).
  apply NoDup_Permutation; [exact A|exact B|]. intros x. rewrite <- !bmem_In, (C x). reflexivity.
Qed.

Lemma leq_nil_l : forall l, leq [] l -> l = [].
Proof. intros l H. apply leq_length in H. destruct l; [reflexivity|discriminate H]. Qed.

Lemma leq_nil_r : forall l, leq l [] -> l = [].
Proof. intros l H. apply leq_nil_l. apply leq_sym. exact H. Qed.

Lemma leq_bsort : forall l1 l2, leq l1 l2 -> bsort l1 = bsort l2.
Proof.
  intros l1 l2 H. pose proof H as (A & B & _). apply bsort_canonical; [exact A|exact B|].
  intros x. apply leq_In. exact H.
Qed.

Lemma leq_sadd1 : forall l1 l2 x, leq l1 l2 -> leq (sadd1 l1 x) (sadd1 l2 x).
Proof.
  intros l1 l2 x (A & B & C). split; [apply sadd1_NoDup; exact A|]. split; [apply sadd1_NoDup; exact B|].
  intros y. rewrite !bmem_sadd1, (C y). reflexivity.
Qed.

Lemma leq_bremove : forall l1 l2 x, leq l1 l2 -> leq (bremove x l1) (bremove x l2).
Proof.
  intros l1 l2 x (A & B & C). split; [apply bremove_NoDup; exact A|]. split; [apply bremove_NoDup; exact B|].
  intros y. rewrite !bmem_bremove, (C y). reflexivity.
Qed.

Lemma leq_of_In : forall l1 l2, NoDup l1 -> NoDup l2 -> (forall x, In x l1 <-> In x l2) -> leq l1 l2.
Proof.
  intros l1 l2 A B H. split; [exact A|]. split; [exact B|]. intros x.
  destruct (bmem x l1) eqn:E1; destruct (bmem x l2) eqn:E2; try reflexivity.
  - apply bmem_In in E1. apply H in E1. apply bmem_In in E1. congruence.
  - apply bmem_In in E2. apply H in E2. apply bmem_In in E2. congruence.
Qed.

Lemma leq_sdiff : forall a a' b b', leq a a' -> leq b b' -> leq (sdiff_l a b) (sdiff_l a' b').
Proof.
  intros a a' b b' Ha Hb. apply leq_of_In.
  - apply sdiff_NoDup. exact (proj1 Ha).
  - apply sdiff_NoDup. exact (proj1 (proj2 Ha)).
  - intros x. rewrite !sdiff_In, (leq_In a a' x Ha), (leq_In b b' x Hb). reflexivity.
Qed.

Lemma leq_sunion : forall a a' b b', leq a a' -> leq b b' -> leq (sunion_l a b) (sunion_l a' b').
Proof.
  intros a a' b b' Ha Hb. apply leq_of_In.
  - apply sunion_NoDup; [exact (proj1 Ha)|exact (proj1 Hb)].
  - apply sunion_NoDup; [exact (proj1 (proj2 Ha))|exact (proj1 (proj2 Hb))].
  - intros x. rewrite !sunion_In, (leq_In a a' x Ha), (leq_In b b' x Hb). reflexivity.
Qed.

Lemma smeq_sym : forall a b, smeq a b -> smeq b a.
Proof.
  intros a b H k. specialize (H k). unfold oleq in *.
  destruct (alookup a k); destruct (alookup b k); try exact H. apply leq_sym. exact H.
Qed.

Lemma smeq_trans : forall a b c, smeq a b -> smeq b c -> smeq a c.
Proof.
  intros a b c H1 H2 k. specialize (H1 k). specialize (H2 k). unfold oleq in *.
  destruct (alookup a k); destruct (alookup b k); destruct (alookup c k); try contradiction; try exact I.
  exact (leq_trans _ _ _ H1 H2).
Qed.

Lemma smeq_nil : smeq [] [].
Proof. intros k. exact I. Qed.

Lemma sseq_sym : forall a b, sseq a b -> sseq b a.
Proof.
  intros a b H k. specialize (H k). unfold osmeq in *.
  destruct (alookup a k); destruct (alookup b k); try exact H. apply smeq_sym. exact H.
Qed.

Lemma sseq_trans : forall a b c, sseq a b -> sseq b c -> sseq a c.
Proof.
  intros a b c H1 H2 k. specialize (H1 k). specialize (H2 k). unfold osmeq in *.
  destruct (alookup a k); destruct (alookup b k); destruct (alookup c k); try contradiction; try exact I.
  exact (smeq_trans _ _ _ H1 H2).
Qed.

Lemma deq_sym : forall a b, deq a b -> deq b a.
Proof.
  intros a b (A & B & C). split; [symmetry; exact A|]. split; [apply sseq_sym; exact B|].
  intros k. symmetry. apply C.
Qed.

Lemma deq_trans : forall a b c, deq a b -> deq b c -> deq a c.
Proof.
  intros a b c (A & B & C) (D & E & F). split; [rewrite A; exact D|]. split; [exact (sseq_trans _ _ _ B E)|].
  intros k. rewrite (C k). apply F.
Qed.

Lemma smeq_aset : forall s1 s2 k l1 l2, smeq s1 s2 -> leq l1 l2 -> smeq (aset s1 k l1) (aset s2 k l2).
Proof.
  intros s1 s2 k l1 l2 H Hl k'. rewrite !alookup_aset. destruct (bytes_eqb k k'); [exact Hl|exact (H k')].
Qed.

Lemma smeq_getdef : forall s1 s2 k, smeq s1 s2 -> leq (getdef s1 k []) (getdef s2 k []).
Proof.
  intros s1 s2 k H. specialize (H k). unfold getdef, oleq in *.
  destruct (alookup s1 k); destruct (alookup s2 k); try contradiction; [exact H|exact leq_nil].
Qed.

Lemma smeq_sadd : forall s1 s2 k x, smeq s1 s2 -> smeq (s_sadd s1 k [x]) (s_sadd s2 k [x]).
Proof.
  intros s1 s2 k x H. unfold s_sadd. cbn [fold_left]. apply smeq_aset; [exact H|].
  apply leq_sadd1. exact (smeq_getdef s1 s2 k H).
Qed.

Lemma smeq_srem : forall s1 s2 k x, smeq s1 s2 ->
  smeq (fst (s_srem s1 k [x])) (fst (s_srem s2 k [x])) /\ snd (s_srem s1 k [x]) = snd (s_srem s2 k [x]).
Proof.
  intros s1 s2 k x H. unfold s_srem. pose proof (H k) as Hk. unfold oleq in Hk.
  destruct (alookup s1 k) as [l1|]; destruct (alookup s2 k) as [l2|]; try contradiction.
  - destruct x as [|x0 xr]; [split; [exact H|reflexivity]|]. cbn [fst snd fold_left].
    split; [|reflexivity]. apply smeq_aset; [exact H|]. apply leq_bremove. exact Hk.
  - split; [exact H|reflexivity].
Qed.

Lemma smeq_fold_sadd : forall items s1 s2 k, smeq s1 s2 ->
  smeq (fold_left (fun m x => s_sadd m k [x]) items s1) (fold_left (fun m x => s_sadd m k [x]) items s2).
Proof.
  induction items as [|x r IH]; intros s1 s2 k H; [exact H|]. cbn [fold_left]. apply IH. apply smeq_sadd. exact H.
Qed.

Lemma smeq_fold_srem : forall items s1 s2 k, smeq s1 s2 ->
  smeq (fold_left (fun m x => fst (s_srem m k [x])) items s1) (fold_left (fun m x => fst (s_srem m k [x])) items s2).
Proof.
  induction items as [|x r IH]; intros s1 s2 k H; [exact H|]. cbn [fold_left]. apply IH.
  exact (proj1 (smeq_srem s1 s2 k x H)).
Qed.

(** the read-only set functions *)
Lemma smeq_ismember : forall s1 s2 k x, smeq s1 s2 -> s_ismember s1 k x = s_ismember s2 k x.
Proof.
  intros s1 s2 k x H. specialize (H k). unfold s_ismember, oleq in *.
  destruct (alookup s1 k); destruct (alookup s2 k); try contradiction; [|reflexivity].
  exact (proj2 (proj2 H) x).
Qed.

Lemma smeq_aremembers : forall s1 s2 k items, smeq s1 s2 -> s_aremembers s1 k items = s_aremembers s2 k items.
Proof.
  intros s1 s2 k items H. specialize (H k). unfold s_aremembers, oleq in *.
  destruct (alookup s1 k) as [l1|]; destruct (alookup s2 k) as [l2|]; try contradiction; [|reflexivity].
  induction items as [|x r IH]; [reflexivity|]. cbn [forallb]. rewrite IH, (proj2 (proj2 H) x). reflexivity.
Qed.

Lemma smeq_members : forall s1 s2 k, smeq s1 s2 -> s_members s1 k = s_members s2 k.
Proof.
  intros s1 s2 k H. specialize (H k). unfold s_members, oleq in *.
  destruct (alookup s1 k); destruct (alookup s2 k); try contradiction; [|reflexivity].
  rewrite (leq_bsort _ _ H). reflexivity.
Qed.

Lemma smeq_haskey : forall s1 s2 k, smeq s1 s2 -> s_haskey s1 k = s_haskey s2 k.
Proof.
  intros s1 s2 k H. specialize (H k). unfold s_haskey, oleq in *.
  destruct (alookup s1 k); destruct (alookup s2 k); try contradiction; reflexivity.
Qed.

Lemma smeq_card : forall s1 s2 k, smeq s1 s2 -> s_card s1 k = s_card s2 k.
Proof.
  intros s1 s2 k H. specialize (H k). unfold s_card, oleq in *.
  destruct (alookup s1 k); destruct (alookup s2 k); try contradiction; [|reflexivity].
  unfold zlen. rewrite (leq_length _ _ H). reflexivity.
Qed.

Lemma smeq_diff : forall s1 s2 k1 k2, smeq s1 s2 -> s_diff s1 k1 k2 = s_diff s2 k1 k2.
Proof.
  intros s1 s2 k1 k2 H. pose proof (H k1) as H1. pose proof (H k2) as H2. unfold s_diff, oleq in *.
  destruct (alookup s1 k1); destruct (alookup s2 k1); try contradiction; [|reflexivity].
  destruct (alookup s1 k2); destruct (alookup s2 k2); try contradiction; [|reflexivity].
  rewrite (leq_bsort _ _ (leq_sdiff _ _ _ _ H1 H2)). reflexivity.
Qed.

Lemma smeq_union : forall s1 s2 k1 k2, smeq s1 s2 -> s_union s1 k1 k2 = s_union s2 k1 k2.
Proof.
  intros s1 s2 k1 k2 H. pose proof (H k1) as H1. pose proof (H k2) as H2. unfold s_union, oleq in *.
  destruct (alookup s1 k1); destruct (alookup s2 k1); try contradiction; [|reflexivity].
  destruct (alookup s1 k2); destruct (alookup s2 k2); try contradiction; [|reflexivity].
  rewrite (leq_bsort _ _ (leq_sunion _ _ _ _ H1 H2)). reflexivity.
Qed.

(** the read-only structure calls cannot tell two such indexes apart *)
Lemma ds_read_deq : forall i1 i2 o, deq i1 i2 -> ds_read i1 o = ds_read i2 o.
Proof.
  intros i1 i2 o (HL & HS & HZ).
  destruct o; try reflexivity; cbn [ds_read]; rewrite <- ?HL; try reflexivity;
    try (rewrite <- (HZ b); reflexivity).
  - (* SAreMembers *)
    pose proof (HS b) as Hb. unfold osmeq in Hb.
    destruct (alookup (ix_set i1) b) as [s1|]; destruct (alookup (ix_set i2) b) as [s2|]; try contradiction; [|reflexivity].
    rewrite (smeq_aremembers _ _ k items Hb). reflexivity.
  - pose proof (HS b) as Hb. unfold osmeq in Hb.
    destruct (alookup (ix_set i1) b) as [s1|]; destruct (alookup (ix_set i2) b) as [s2|]; try contradiction; [|reflexivity].
    rewrite (smeq_ismember _ _ k x Hb). reflexivity.
  - pose proof (HS b) as Hb. unfold osmeq in Hb.
    destruct (alookup (ix_set i1) b) as [s1|]; destruct (alookup (ix_set i2) b) as [s2|]; try contradiction; [|reflexivity].
    rewrite (smeq_members _ _ k Hb). reflexivity.
  - pose proof (HS b) as Hb. unfold osmeq in Hb.
    destruct (alookup (ix_set i1) b) as [s1|]; destruct (alookup (ix_set i2) b) as [s2|]; try contradiction; [|reflexivity].
    rewrite (smeq_haskey _ _ k Hb). reflexivity.
  - pose proof (HS b) as Hb. unfold osmeq in Hb.
    destruct (alookup (ix_set i1) b) as [s1|]; destruct (alookup (ix_set i2) b) as [s2|]; try contradiction; [|reflexivity].
    rewrite (smeq_card _ _ k Hb). reflexivity.
  - pose proof (HS b) as Hb. unfold osmeq in Hb.
    destruct (alookup (ix_set i1) b) as [s1|]; destruct (alookup (ix_set i2) b) as [s2|]; try contradiction; [|reflexivity].
    rewrite (smeq_diff _ _ k1 k2 Hb). reflexivity.
  - (* SDiff2 *)
    pose proof (HS b1) as Hb1. pose proof (HS b2) as Hb2. unfold osmeq in Hb1, Hb2.
    destruct (alookup (ix_set i1) b1) as [s1|]; destruct (alookup (ix_set i2) b1) as [s2|]; try contradiction; [|reflexivity].
    destruct (alookup (ix_set i1) b2) as [s3|]; destruct (alookup (ix_set i2) b2) as [s4|]; try contradiction; [|reflexivity].
    rewrite (leq_bsort _ _ (leq_sdiff _ _ _ _ (smeq_getdef _ _ k1 Hb1) (smeq_getdef _ _ k2 Hb2))). reflexivity.
  - pose proof (HS b) as Hb. unfold osmeq in Hb.
    destruct (alookup (ix_set i1) b) as [s1|]; destruct (alookup (ix_set i2) b) as [s2|]; try contradiction; [|reflexivity].
    rewrite (smeq_union _ _ k1 k2 Hb). reflexivity.
  - (* SUnion2 *)
    pose proof (HS b1) as Hb1. pose proof (HS b2) as Hb2. unfold osmeq in Hb1, Hb2.
    destruct (alookup (ix_set i1) b1) as [s1|]; destruct (alookup (ix_set i2) b1) as [s2|]; try contradiction; [|reflexivity].
    destruct (alookup (ix_set i1) b2) as [s3|]; destruct (alookup (ix_set i2) b2) as [s4|]; try contradiction; [|reflexivity].
    pose proof (Hb1 k1) as H1. pose proof (Hb2 k2) as H2. unfold oleq in H1, H2.
    destruct (alookup s1 k1); destruct (alookup s2 k1); try contradiction; [|reflexivity].
    destruct (alookup s3 k2); destruct (alookup s4 k2); try contradiction; [|reflexivity].
    rewrite (leq_bsort _ _ (leq_sunion _ _ _ _ H1 H2)). reflexivity.
Qed.

(** the mutating calls *)
Lemma seqv_upd_list : forall s1 s2 b f, seqv s1 s2 -> seqv (upd_list s1 b f) (upd_list s2 b f).
Proof.
  intros s1 s2 b f (Hk & HL & HS & HZ). unfold upd_list, seqv, deq, set_ds_list. cbn [s_kv s_ds ix_list ix_set ix_zset].
  rewrite HL. repeat split; assumption.
Qed.

Lemma zeq_getdef : forall Z1 Z2 b, zeq Z1 Z2 -> getdef Z1 b [] = getdef Z2 b [].
Proof. intros Z1 Z2 b H. unfold getdef. rewrite (H b). reflexivity. Qed.

Lemma seqv_upd_zset : forall s1 s2 b f, seqv s1 s2 -> seqv (upd_zset s1 b f) (upd_zset s2 b f).
Proof.
  intros s1 s2 b f (Hk & HL & HS & HZ). unfold upd_zset, seqv, deq, set_ds_zset. cbn [s_kv s_ds ix_list ix_set ix_zset].
  split; [exact Hk|]. split; [exact HL|]. split; [exact HS|].
  intros b'. rewrite !alookup_aset, (zeq_getdef _ _ b HZ), (HZ b'). reflexivity.
Qed.

Lemma sseq_getdef : forall S1 S2 b, sseq S1 S2 -> smeq (getdef S1 b []) (getdef S2 b []).
Proof.
  intros S1 S2 b H. specialize (H b). unfold getdef, osmeq in *.
  destruct (alookup S1 b); destruct (alookup S2 b); try contradiction; [exact H|exact smeq_nil].
Qed.

Lemma seqv_upd_set : forall s1 s2 b f1 f2, seqv s1 s2 ->
  (forall m1 m2, smeq m1 m2 -> smeq (f1 m1) (f2 m2)) -> seqv (upd_set s1 b f1) (upd_set s2 b f2).
Proof.
  intros s1 s2 b f1 f2 (Hk & HL & HS & HZ) Hf. unfold upd_set, seqv, deq, set_ds_set. cbn [s_kv s_ds ix_list ix_set ix_zset].
  split; [exact Hk|]. split; [exact HL|]. split; [|exact HZ].
  intros b'. rewrite !alookup_aset. destruct (bytes_eqb b b'); [|exact (HS b')].
  cbn [osmeq]. apply Hf. exact (sseq_getdef _ _ b HS).
Qed.

Lemma smeq_move : forall s1 s2 k1 k2 x, smeq s1 s2 ->
  smeq (fst (s_move s1 k1 k2 x)) (fst (s_move s2 k1 k2 x)) /\ snd (s_move s1 k1 k2 x) = snd (s_move s2 k1 k2 x).
Proof.
  intros s1 s2 k1 k2 x H. unfold s_move. pose proof (H k1) as H1. pose proof (H k2) as H2. unfold oleq in H1, H2.
  destruct (alookup s1 k1) as [a1|]; destruct (alookup s2 k1) as [a2|]; try contradiction; [|split; [exact H|reflexivity]].
  destruct (alookup s1 k2) as [c1|]; destruct (alookup s2 k2) as [c2|]; try contradiction; [|split; [exact H|reflexivity]].
  cbn [snd]. split; [|reflexivity]. cbn [fst]. rewrite (proj2 (proj2 H2) x).
  destruct (bmem x c2).
  - exact (proj1 (smeq_srem s1 s2 k1 x H)).
  - exact (proj1 (smeq_srem _ _ k1 x (smeq_sadd s1 s2 k2 x H))).
Qed.

Ltac same_case H :=
  repeat match goal with
         | |- context [match ?x with _ => _ end] => destruct x
         end;
  (split; [reflexivity|first [exact H | apply seqv_upd_list; exact H | apply seqv_upd_zset; exact H]]).

Lemma spec_write_seqv : forall s1 s2 o, seqv s1 s2 ->
  snd (spec_write s1 o) = snd (spec_write s2 o) /\ seqv (fst (spec_write s1 o)) (fst (spec_write s2 o)).
Proof.
  intros s1 s2 o H. pose proof H as (Hk & HL & HS & HZ).
  destruct o; try (cbn [spec_write fst snd]; split; [reflexivity|exact H]).
  - (* Put *)
    unfold spec_write. destruct (nonempty k); cbn [fst snd]; [|split; [reflexivity|exact H]].
    split; [reflexivity|]. split; [cbn [s_kv]; rewrite Hk; reflexivity|exact (conj HL (conj HS HZ))].
  - unfold spec_write. destruct (nonempty k); cbn [fst snd]; [|split; [reflexivity|exact H]].
    split; [reflexivity|]. split; [cbn [s_kv]; rewrite Hk; reflexivity|exact (conj HL (conj HS HZ))].
  - unfold spec_write. same_case H.
  - unfold spec_write. same_case H.
  - unfold spec_write. rewrite <- HL. same_case H.
  - unfold spec_write. rewrite <- HL. same_case H.
  - unfold spec_write. rewrite <- HL. same_case H.
  - unfold spec_write. rewrite <- HL. same_case H.
  - unfold spec_write. rewrite <- HL. same_case H.
  - (* SAdd *)
    unfold spec_write. destruct (isnil items); [split; [reflexivity|exact H]|].
    destruct (nonempty k); [|split; [reflexivity|exact H]]. cbn [fst snd]. split; [reflexivity|].
    apply seqv_upd_set; [exact H|]. intros m1 m2 Hm. apply smeq_fold_sadd. exact Hm.
  - (* SRem *)
    unfold spec_write. destruct (isnil items); [split; [reflexivity|exact H]|].
    destruct (nonempty k); [|split; [reflexivity|exact H]]. cbn [fst snd]. split; [reflexivity|].
    apply seqv_upd_set; [exact H|]. intros m1 m2 Hm. apply smeq_fold_srem. exact Hm.
  - (* SPop *)
    unfold spec_write. pose proof (HS b) as Hb. unfold osmeq in Hb.
    destruct (alookup (ix_set (s_ds s1)) b) as [m1|]; destruct (alookup (ix_set (s_ds s2)) b) as [m2|];
      try contradiction; [|split; [reflexivity|exact H]].
    pose proof (Hb k) as Hkk. unfold oleq in Hkk.
    destruct (alookup m1 k) as [l1|]; destruct (alookup m2 k) as [l2|]; try contradiction; [|split; [reflexivity|exact H]].
    destruct l1 as [|a1 r1]; destruct l2 as [|a2 r2].
    + split; [reflexivity|exact H].
    + apply leq_nil_l in Hkk. discriminate Hkk.
    + apply leq_nil_r in Hkk. discriminate Hkk.
    + destruct choice as [c|].
      * rewrite (proj2 (proj2 Hkk) c). destruct (bmem c (a2 :: r2)); [|split; [reflexivity|exact H]].
        destruct (nonempty k); [|split; [reflexivity|exact H]]. cbn [fst snd]. split; [reflexivity|].
        apply seqv_upd_set; [exact H|]. intros x1 x2 Hx. exact (proj1 (smeq_srem x1 x2 k c Hx)).
      * destruct (nonempty k); split; try reflexivity; exact H.
  - (* SMove1 *)
    unfold spec_write. pose proof (HS b) as Hb. unfold osmeq in Hb.
    destruct (alookup (ix_set (s_ds s1)) b) as [m1|]; destruct (alookup (ix_set (s_ds s2)) b) as [m2|];
      try contradiction; [|split; [reflexivity|exact H]].
    destruct (smeq_move m1 m2 k1 k2 x Hb) as [A B].
    destruct (s_move m1 k1 k2 x) as [m1' r1]. destruct (s_move m2 k1 k2 x) as [m2' r2]. cbn [fst snd] in A, B. subst r2.
    destruct r1; [|split; [reflexivity|exact H]]. cbn [fst snd]. split; [reflexivity|].
    apply seqv_upd_set; [exact H|]. intros _ _ _. exact A.
  - (* SMove2 *)
    unfold spec_write. pose proof (HS b1) as Hb1. pose proof (HS b2) as Hb2. unfold osmeq in Hb1, Hb2.
    destruct (alookup (ix_set (s_ds s1)) b1) as [m1|]; destruct (alookup (ix_set (s_ds s2)) b1) as [m2|];
      try contradiction; [|split; [reflexivity|exact H]].
    destruct (alookup (ix_set (s_ds s1)) b2) as [m3|]; destruct (alookup (ix_set (s_ds s2)) b2) as [m4|];
      try contradiction; [|split; [reflexivity|exact H]].
    rewrite (smeq_haskey m1 m2 k1 Hb1), (smeq_haskey m3 m4 k2 Hb2).
    destruct (s_haskey m2 k1 && s_haskey m4 k2); [|split; [reflexivity|exact H]].
    cbn [fst snd]. split; [reflexivity|].
    rewrite (proj2 (proj2 (smeq_getdef m3 m4 k2 Hb2)) x).
    apply seqv_upd_set.
    + destruct (bmem x (getdef m4 k2 [])); [exact H|].
      apply seqv_upd_set; [exact H|]. intros x1 x2 Hx. apply smeq_sadd. exact Hx.
    + intros x1 x2 Hx. exact (proj1 (smeq_srem x1 x2 k1 x Hx)).
  - unfold spec_write. same_case H.
  - unfold spec_write. rewrite <- (HZ b). same_case H.
  - unfold spec_write. rewrite <- (HZ b). same_case H.
  - unfold spec_write. rewrite <- (HZ b). same_case H.
  - unfold spec_write. rewrite <- (HZ b). same_case H.
Qed.

Lemma spec_op_seqv : forall now wr s1 s2 o, seqv s1 s2 ->
  snd (spec_op now wr s1 o) = snd (spec_op now wr s2 o) /\ seqv (fst (spec_op now wr s1 o)) (fst (spec_op now wr s2 o)).
Proof.
  intros now wr s1 s2 o H. unfold spec_op. rewrite (ds_read_deq _ _ o (proj2 H)).
  destruct (ds_read (s_ds s2) o) as [r|]; [split; [reflexivity|exact H]|].
  rewrite (spec_kv_read_local now s1 s2 o) by (intros x _; rewrite (proj1 H); reflexivity).
  destruct (spec_kv_read now s2 o) as [r|]; [split; [reflexivity|exact H]|].
  destruct (spec_write_seqv s1 s2 o H) as [A B].
  destruct (spec_write s1 o) as [s1' r1]. destruct (spec_write s2 o) as [s2' r2]. cbn [fst snd] in A, B. subst r2.
  destruct wr; cbn [fst snd]; [split; [reflexivity|exact B]|split; [reflexivity|exact H]].
Qed.

(** two specification worlds that differ in Go's map order only *)
Definition SE (a b : sworld) : Prop :=
  sw_closed a = sw_closed b /\ seqv (sw_state a) (sw_state b) /\
  match sw_tx a, sw_tx b with
  | SNone, SNone => True
  | SDone, SDone => True
  | SActive wa sa, SActive wb sb => wa = wb /\ seqv sa sb
  | _, _ => False
  end.

Lemma spec_step_SE : forall now ok a b c, SE a b ->
  snd (spec_step now ok a c) = snd (spec_step now ok b c) /\ SE (fst (spec_step now ok a c)) (fst (spec_step now ok b c)).
Proof.
  intros now ok a b c H. pose proof H as (Hc & Hs & Ht).
  destruct c as [wr id|o| | | |o]; cbn [spec_step].
  - rewrite <- Hc. destruct (sw_closed a); [split; [reflexivity|exact H]|].
    cbn [fst snd]. split; [reflexivity|]. split; [reflexivity|]. split; [exact Hs|]. cbn [sw_tx]. split; [reflexivity|exact Hs].
  - destruct (sw_tx a) as [|wa sa|]; destruct (sw_tx b) as [|wb sb|]; try contradiction; try (split; [reflexivity|exact H]).
    destruct Ht as [Hw Hsab]. subst wb.
    destruct (spec_op_seqv now wa sa sb o Hsab) as [A B].
    destruct (spec_op now wa sa o) as [sa' ra]. destruct (spec_op now wa sb o) as [sb' rb]. cbn [fst snd] in *. subst rb.
    split; [reflexivity|]. split; [exact Hc|]. split; [exact Hs|]. cbn [sw_tx]. split; [reflexivity|exact B].
  - destruct (sw_tx a) as [|wa sa|] eqn:Ea; destruct (sw_tx b) as [|wb sb|] eqn:Eb; try contradiction;
      try (split; [reflexivity|exact H]).
    destruct Ht as [Hw Hsab]. subst wb. destruct ok; [|split; [reflexivity|exact H]].
    cbn [fst snd]. split; [reflexivity|]. split; [exact Hc|]. cbn [sw_state sw_tx]. split; [|exact I].
    destruct wa; [exact Hsab|exact Hs].
  - destruct (sw_tx a) as [|wa sa|] eqn:Ea; destruct (sw_tx b) as [|wb sb|] eqn:Eb; try contradiction;
      try (split; [reflexivity|exact H]).
    cbn [fst snd]. split; [reflexivity|]. split; [exact Hc|]. split; [exact Hs|exact I].
  - rewrite <- Hc. destruct (sw_closed a); [split; [reflexivity|exact H]|].
    cbn [fst snd]. split; [reflexivity|]. split; [reflexivity|]. split; [exact Hs|exact I].
  - cbn [fst snd]. split; [reflexivity|]. split; [reflexivity|]. split; [exact Hs|exact I].
Qed.

Lemma seqv_refl_of : forall s, (forall b m, alookup (ix_set (s_ds s)) b = Some m -> smap_wf m) -> seqv s s.
Proof.
  intros s H. split; [reflexivity|]. split; [reflexivity|]. split; [|intros b; reflexivity].
  intros b. unfold osmeq. destruct (alookup (ix_set (s_ds s)) b) as [m|] eqn:E; [|exact I].
  intros k. unfold oleq. destruct (alookup m k) as [l|] eqn:Ek; [|exact I]. apply leq_refl. exact (H b m E k l Ek).
Qed.

Lemma SE_init : SE sworld0 sworld0.
Proof.
  split; [reflexivity|]. split; [|exact I]. apply seqv_refl_of. intros b m E. discriminate E.
Qed.

(** ================= part 2: no list record anywhere (histories without RPush / LPush) ================= *)
Definition nolist (e : entry) : Prop := e_ds e <> DS_List.

Record NL (w : world) : Prop := mkNL {
  nl_ix : ix_list (w_ix w) = [];
  nl_recs : forall r, In r (recs w) -> nolist (snd r);
  nl_pend : match w_tx w with TxActive t => Forall nolist (tx_pend t) | _ => True end
}.

Lemma nolist_esim : forall e e', esim e e' -> nolist e -> nolist e'.
Proof. intros e e' (_ & _ & _ & _ & A & _) H. unfold nolist. rewrite A. exact H. Qed.

Lemma tx_put_nolist : forall t b k v ttl flag ts ds,
  Forall nolist (tx_pend t) -> ds <> DS_List -> Forall nolist (tx_pend (fst (tx_put t b k v ttl flag ts ds))).
Proof.
  intros t b k v ttl flag ts ds H Hs. unfold tx_put.
  destruct (negb (tx_w t)); [exact H|]. destruct k as [|k0 k]; [exact H|].
  cbn [fst tx_pend]. apply Forall_app. split; [exact H|]. constructor; [exact Hs|constructor].
Qed.

Lemma tx_put_all_nolist : forall b k flag ts ds vs t,
  Forall nolist (tx_pend t) -> ds <> DS_List -> Forall nolist (tx_pend (fst (tx_put_all t b k vs flag ts ds))).
Proof.
  intros b k flag ts ds vs. induction vs as [|v vs IH]; intros t H Hs.
  - exact H.
  - cbn [tx_put_all]. pose proof (tx_put_nolist t b k v 0 flag ts ds H Hs) as E.
    destruct (tx_put t b k v 0 flag ts ds) as [t' r]. cbn [fst] in E.
    destruct r; try exact E. apply IH; assumption.
Qed.

Ltac nl_side := intros D; cbv in D; discriminate D.

Ltac nl_put_step H E t' r :=
  match goal with
  | |- context [tx_put ?t ?b ?k ?v ?ttl ?f ?ts ?ds] =>
      pose proof (tx_put_nolist t b k v ttl f ts ds H) as E;
      destruct (tx_put t b k v ttl f ts ds) as [t' r]; cbn [fst] in E
  end.

Lemma do_op_nolist : forall now w t o,
  ix_list (w_ix w) = [] -> is_push o = false ->
  Forall nolist (tx_pend t) -> Forall nolist (tx_pend (snd (fst (do_op now w t o)))).
Proof.
  intros now w t o Hnil Hp H. unfold do_op.
  destruct (ds_read (w_ix w) o) as [r0|]; [exact H|].
  destruct o; try discriminate Hp; try exact H; rewrite ?Hnil; cbn [alookup]; try exact H.
  - cbn [fst snd]. apply tx_put_nolist; [exact H|nl_side].
  - cbn [fst snd]. apply tx_put_nolist; [exact H|nl_side].
  - destruct (alookup (ix_kv (w_ix w)) b); [|exact H]. destruct (kv_find k0 k); [|exact H].
    destruct (negb (nmem (kr_txid k1) (w_committed w))); [exact H|].
    destruct (kr_dead now k1); [exact H|]. destruct (o_mode (w_opts w) =? 0); [exact H|].
    destruct (disk_read (w_disk w) (kr_fid k1) (kr_pos k1)); exact H.
  - destruct (alookup (ix_kv (w_ix w)) b); exact H.
  - destruct (alookup (ix_kv (w_ix w)) b); [|exact H]. destruct (bltb e s); exact H.
  - destruct (alookup (ix_kv (w_ix w)) b); [|exact H].
    destruct (kv_prefix_scan now (fun _ => true) k p off lim). exact H.
  - destruct (alookup (ix_kv (w_ix w)) b); [|exact H]. destruct bad; [exact H|].
    destruct (kv_prefix_scan now (fun r => bmem r ms) k p off lim). exact H.
  - cbn [fst snd]. apply tx_put_all_nolist; [exact H|nl_side].
  - cbn [fst snd]. apply tx_put_all_nolist; [exact H|nl_side].
  - destruct (alookup (ix_set (w_ix w)) b); [|exact H].
    destruct (alookup s k) as [[|m0 ms]|]; try exact H.
    destruct choice as [c|].
    + destruct (bmem c (m0 :: ms)); [|exact H].
      nl_put_step H E t' r. destruct r; cbn [fst snd]; apply E; nl_side.
    + destruct (tx_put t b k [] 0 F_Del now DS_Set) as [t' r]. destruct r; exact H.
  - destruct (alookup (ix_set (w_ix w)) b); [|exact H].
    destruct (s_haskey s k1 && s_haskey s k2); [|exact H].
    nl_put_step H E t1 r. assert (E1 : Forall nolist (tx_pend t1)) by (apply E; nl_side).
    destruct r; try exact E1.
    nl_put_step E1 E' t2 r. destruct r; cbn [fst snd]; apply E'; nl_side.
  - destruct (alookup (ix_set (w_ix w)) b1); [|exact H].
    destruct (alookup (ix_set (w_ix w)) b2); [|exact H].
    destruct (s_haskey s k1 && s_haskey s0 k2); [|exact H].
    nl_put_step H E t1 r. assert (E1 : Forall nolist (tx_pend t1)) by (apply E; nl_side).
    destruct r; try exact E1.
    nl_put_step E1 E' t2 r. destruct r; cbn [fst snd]; apply E'; nl_side.
  - destruct (contains_sep k); [exact H|]. cbn [fst snd]. apply tx_put_nolist; [exact H|nl_side].
  - destruct (alookup (ix_zset (w_ix w)) b); [|exact H].
    nl_put_step H E t' r. destruct r; cbn [fst snd]; apply E; nl_side.
  - destruct (alookup (ix_zset (w_ix w)) b); [|exact H].
    nl_put_step H E t' r. destruct r; cbn [fst snd]; apply E; nl_side.
  - destruct (alookup (ix_zset (w_ix w)) b); [|exact H].
    cbn [fst snd]. apply tx_put_nolist; [exact H|nl_side].
  - destruct (alookup (ix_zset (w_ix w)) b); [|exact H].
    cbn [fst snd]. apply tx_put_nolist; [exact H|nl_side].
Qed.

Lemma replay1_ix_list : forall comm ix r, nolist (snd r) -> ix_list (replay1 comm ix r) = ix_list ix.
Proof.
  intros comm ix [[f p] e] H. cbn [snd] in H. unfold replay1. destruct (nmem (e_txid e) comm); [|reflexivity].
  destruct (e_ds e =? DS_KV); [reflexivity|]. apply apply_ds_ix_list. exact H.
Qed.

Lemma replay_ix_list : forall comm rs ix, (forall r, In r rs -> nolist (snd r)) ->
  ix_list (fold_left (replay1 comm) rs ix) = ix_list ix.
Proof.
  intros comm rs. induction rs as [|r t IH]; intros ix H; [reflexivity|]. cbn [fold_left].
  rewrite IH by (intros r' Hr'; apply H; right; exact Hr'). apply replay1_ix_list. apply H. left. reflexivity.
Qed.

Lemma open_NL : forall w o, MInv w -> NL w -> NL (do_open o (w_disk w)).
Proof.
  intros w o HM [N1 N2 N3].
  rewrite (do_open_eq o (w_disk w) (w_maxfid w) (mi_nodup w HM) (mi_max_in w HM) (mi_max w HM)). cbv zeta.
  constructor; unfold recs; cbn [w_disk w_ix w_committed w_tx]; fold (recs w).
  - unfold replay. rewrite replay_ix_list; [reflexivity|exact N2].
  - exact N2.
  - exact I.
Qed.

Lemma commit_NL : forall w t, WInv w -> NL w -> w_tx w = TxActive t -> NL (fst (do_commit None w t)).
Proof.
  intros w t HW HN Ht. destruct (wi_w2 w HW) as (HM & _).
  pose proof (nl_pend w HN) as Hp. rewrite Ht in Hp.
  pose proof (do_commit_ix_list w t Hp) as Hix.
  destruct (tx_pend t) as [|e0 rest] eqn:Ep.
  { unfold do_commit. rewrite Ep. cbn [fst]. destruct HN as [N1 N2 N3].
    constructor; unfold recs in *; cbn [set_tx_done w_disk w_ix w_committed w_tx]; try assumption. exact I. }
  destruct (do_commit None w t) as [w' ok] eqn:Ec. cbn [fst] in *. destruct ok.
  2:{ rewrite (do_commit_false _ _ _ Ec). exact HN. }
  destruct (do_commit_ok w t w' HM Ec) as (ws0 & rl & l & A & B & C & _ & El & Hl & _ & _ & Htx').
  { rewrite Ep. discriminate. }
  rewrite Ep in El. destruct HN as [N1 N2 N3].
  constructor.
  - rewrite Hix. exact N1.
  - rewrite A. intros r Hin. apply in_app_or in Hin. destruct Hin as [Hin|Hin]; [exact (N2 r Hin)|].
    destruct (written_sound ws0 rl l r Hl Hin) as (e & He & Hsim & _). rewrite <- El in He.
    rewrite Forall_forall in Hp. exact (nolist_esim _ _ Hsim (Hp e He)).
  - rewrite Htx'. exact I.
Qed.

Lemma merge_file_nlrecs : forall now w f txid, MInv w -> ~ In txid (ids_of (recs w)) ->
  (forall r, In r (recs w) -> nolist (snd r)) ->
  forall r, In r (recs (fst (merge_file now w f txid))) -> nolist (snd r).
Proof.
  intros now w f txid HM Hf H r Hr.
  destruct (merge_file_cases now w f txid HM Hf) as (_ & _ & _ & _ & Hc).
  destruct Hc as [(E & _)|(W & _ & E & _ & Hsound & _)]; rewrite E in Hr; [exact (H r Hr)|].
  apply in_app_or in Hr. destruct Hr as [Hr|Hr].
  - apply filter_In in Hr. exact (H r (proj1 Hr)).
  - destruct (Hsound r Hr) as (_ & _ & r0 & (Hin0 & _) & Hsim). exact (nolist_esim _ _ Hsim (H r0 Hin0)).
Qed.

Lemma merge_NL : forall now w txid0, W2 w -> NL w ->
  (forall k, ~ In (txid0 + k) (ids_of (recs w))) -> NL (fst (do_merge now w txid0)).
Proof.
  intros now w txid0 HW [N1 N2 N3] Hfresh.
  destruct (do_merge_frame now w txid0) as (Ftx & _ & _).
  constructor.
  - rewrite (merge_list_unchanged now w txid0 (no_list_items_nil _ N1)). exact N1.
  - apply (do_merge_ind (fun w => forall r, In r (recs w) -> nolist (snd r)) now); try assumption.
    intros w0 f txid HW0 H0 Hf _. exact (merge_file_nlrecs now w0 f txid (proj1 HW0) Hf H0).
  - rewrite Ftx. exact N3.
Qed.

Lemma step_NL : forall now w c, WInv w -> NL w -> no_push (TCall now c) -> NL (fst (step now w c)).
Proof.
  intros now w c HW HN Hp. destruct c as [wr id|o| | | |o]; cbn [step].
  - destruct (w_closed w); [exact HN|]. cbn [fst]. destruct HN as [N1 N2 N3].
    constructor; unfold recs in *; cbn [set_tx w_disk w_ix w_committed w_tx tx_pend]; try assumption. constructor.
  - destruct (w_tx w) as [|t|] eqn:Et; try exact HN.
    pose proof (do_op_world now w t o) as Hw.
    pose proof (nl_pend w HN) as Hpp. rewrite Et in Hpp.
    pose proof (do_op_nolist now w t o (nl_ix w HN) Hp Hpp) as Hok.
    destruct (do_op now w t o) as [[w' t'] r]. cbn [fst snd] in *. subst w'.
    destruct HN as [N1 N2 N3].
    constructor; unfold recs in *; cbn [set_tx w_disk w_ix w_committed w_tx tx_pend]; assumption.
  - destruct (w_tx w) as [|t|] eqn:Et; try exact HN.
    pose proof (commit_NL w t HW HN Et) as H. destruct (do_commit None w t) as [w' ok]. exact H.
  - destruct (w_tx w) as [|t|] eqn:Et; try exact HN. cbn [fst]. destruct HN as [N1 N2 N3].
    constructor; unfold recs in *; cbn [set_tx w_disk w_ix w_committed w_tx]; try assumption; exact I.
  - destruct (w_closed w); [exact HN|]. cbn [fst]. destruct HN as [N1 N2 N3].
    constructor; unfold recs in *; cbn [w_disk w_ix w_committed w_tx]; try assumption; exact I.
  - cbn [fst]. apply open_NL; [exact (proj1 (wi_w2 w HW))|exact HN].
Qed.

Lemma NL_empty : forall o, NL (empty_world o).
Proof. intros o. constructor; cbn; [reflexivity|intros r []|exact I]. Qed.

(** ================= part 3: the buckets and keys of the set index come from the log ================= *)
(** [S'] has every bucket and every key of [S] *)
Definition skeys_le (S S' : list (bytes * smap)) : Prop :=
  forall b s, alookup S b = Some s ->
    exists s', alookup S' b = Some s' /\ forall k, alookup s k <> None -> alookup s' k <> None.

(** the bucket of a set record exists in [S], and the key of an SAdd record *)
Definition has_rec (e : entry) (S : list (bytes * smap)) : Prop :=
  e_ds e = DS_Set ->
  exists s, alookup S (e_bucket e) = Some s /\ (e_flag e = F_Set -> alookup s (e_key e) <> None).

Lemma skeys_le_refl : forall S, skeys_le S S.
Proof. intros S b s H. exists s. split; [exact H|intros k Hk; exact Hk]. Qed.

Lemma skeys_le_trans : forall A B C, skeys_le A B -> skeys_le B C -> skeys_le A C.
Proof.
  intros A B C H1 H2 b s Hb. destruct (H1 b s Hb) as (s' & Hb' & Hk'). destruct (H2 b s' Hb') as (s'' & Hb'' & Hk'').
  exists s''. split; [exact Hb''|]. intros k Hk. exact (Hk'' k (Hk' k Hk)).
Qed.

Lemma has_rec_le : forall e S S', has_rec e S -> skeys_le S S' -> has_rec e S'.
Proof.
  intros e S S' H Hle Hd. destruct (H Hd) as (s & Hb & Hk). destruct (Hle _ s Hb) as (s' & Hb' & Hk').
  exists s'. split; [exact Hb'|]. intros Hf. exact (Hk' _ (Hk Hf)).
Qed.

Lemma has_rec_esim : forall e e' S, esim e e' -> has_rec e S -> has_rec e' S.
Proof.
  intros e e' S (A1 & A2 & _ & A4 & A5 & _) H. unfold has_rec. rewrite A1, A2, A4, A5. exact H.
Qed.

Lemma aset_keeps_key : forall (s : smap) k l k', alookup s k' <> None -> alookup (aset s k l) k' <> None.
Proof.
  intros s k l k' H. rewrite alookup_aset. destruct (bytes_eqb k k'); [discriminate|exact H].
Qed.

Lemma apply_set_keys : forall s e k, alookup s k <> None -> alookup (apply_set s e) k <> None.
Proof.
  intros s e k H. unfold apply_set. destruct (e_flag e =? F_Del).
  - unfold s_srem. destruct (alookup s (e_key e)); [|exact H].
    destruct (e_value e); [exact H|]. cbn [fst]. apply aset_keeps_key. exact H.
  - destruct (e_flag e =? F_Set); [|exact H]. unfold s_sadd. apply aset_keeps_key. exact H.
Qed.

Lemma apply_set_has : forall s e, e_flag e = F_Set -> alookup (apply_set s e) (e_key e) <> None.
Proof.
  intros s e H. unfold apply_set. rewrite H. change (F_Set =? F_Del) with false. change (F_Set =? F_Set) with true.
  cbv iota. unfold s_sadd. rewrite alookup_aset, SetFacts.bytes_eqb_refl. discriminate.
Qed.

Lemma apply_set_keys_inv : forall s e k, alookup (apply_set s e) k <> None ->
  alookup s k <> None \/ (e_flag e = F_Set /\ k = e_key e).
Proof.
  intros s e k H. unfold apply_set in H. destruct (e_flag e =? F_Del) eqn:Ed.
  - left. unfold s_srem in H. destruct (alookup s (e_key e)) as [l|] eqn:El; [|exact H].
    destruct (e_value e); [exact H|]. cbn [fst] in H. rewrite alookup_aset in H.
    destruct (bytes_eqb (e_key e) k) eqn:Ek; [|exact H]. apply bytes_eqb_eq in Ek. subst k. rewrite El. discriminate.
  - destruct (e_flag e =? F_Set) eqn:Es; [|left; exact H]. unfold s_sadd in H. rewrite alookup_aset in H.
    destruct (bytes_eqb (e_key e) k) eqn:Ek; [|left; exact H]. apply bytes_eqb_eq in Ek. apply N.eqb_eq in Es.
    right. split; [exact Es|symmetry; exact Ek].
Qed.

Lemma ix_set_apply_ds : forall strict ix e,
  ix_set (apply_ds strict ix e) =
  if e_ds e =? DS_Set then aset (ix_set ix) (e_bucket e) (apply_set (getdef (ix_set ix) (e_bucket e) []) e)
  else ix_set ix.
Proof.
  intros strict ix e. unfold apply_ds. destruct (e_ds e =? DS_Set); [reflexivity|].
  destruct (e_ds e =? DS_ZSet); [reflexivity|]. destruct (e_ds e =? DS_List); reflexivity.
Qed.

Lemma apply_ds_keys_le : forall strict ix e, skeys_le (ix_set ix) (ix_set (apply_ds strict ix e)).
Proof.
  intros strict ix e. rewrite ix_set_apply_ds. destruct (e_ds e =? DS_Set); [|apply skeys_le_refl].
  intros b s Hb. rewrite alookup_aset. destruct (bytes_eqb (e_bucket e) b) eqn:Eb.
  - apply bytes_eqb_eq in Eb. subst b. eexists. split; [reflexivity|]. intros k Hk.
    apply apply_set_keys. unfold getdef. rewrite Hb. exact Hk.
  - exists s. split; [exact Hb|intros k Hk; exact Hk].
Qed.

Lemma apply_ds_has : forall strict ix e, has_rec e (ix_set (apply_ds strict ix e)).
Proof.
  intros strict ix e Hd. rewrite ix_set_apply_ds, Hd. change (DS_Set =? DS_Set) with true. cbv iota.
  eexists. split; [rewrite alookup_aset, SetFacts.bytes_eqb_refl; reflexivity|]. apply apply_set_has.
Qed.

(** applying a record whose bucket (and key) [S] has keeps the index inside [S] *)
Lemma apply_ds_keys_into : forall strict ix e S,
  has_rec e S -> skeys_le (ix_set ix) S -> skeys_le (ix_set (apply_ds strict ix e)) S.
Proof.
  intros strict ix e S Hh Hle. rewrite ix_set_apply_ds. destruct (e_ds e =? DS_Set) eqn:Ed; [|exact Hle].
  apply N.eqb_eq in Ed. destruct (Hh Ed) as (sc & Hbc & Hkc).
  intros b s Hb. rewrite alookup_aset in Hb. destruct (bytes_eqb (e_bucket e) b) eqn:Eb; [|exact (Hle b s Hb)].
  apply bytes_eqb_eq in Eb. subst b. injection Hb as Hb. subst s. exists sc. split; [exact Hbc|].
  intros k Hk. destruct (apply_set_keys_inv _ _ _ Hk) as [Hold|[Hf Ek]].
  - unfold getdef in Hold. destruct (alookup (ix_set ix) (e_bucket e)) as [s0|] eqn:E0; [|exfalso; apply Hold; reflexivity].
    destruct (Hle _ s0 E0) as (s' & Hb' & Hk'). rewrite Hbc in Hb'. injection Hb' as Hb'. subst s'. exact (Hk' k Hold).
  - subst k. exact (Hkc Hf).
Qed.

(** folds: commit-time application and open-time replay *)
Lemma fold_apply_keys : forall (ws : list (N * N * entry)) ix,
  let ix' := fold_left (fun ix0 r => apply_ds false ix0 (snd r)) ws ix in
  skeys_le (ix_set ix) (ix_set ix') /\ forall r, In r ws -> has_rec (snd r) (ix_set ix').
Proof.
  induction ws as [|r t IH]; intros ix; cbv zeta; cbn [fold_left].
  - split; [apply skeys_le_refl|intros r []].
  - destruct (IH (apply_ds false ix (snd r))) as [A B]. cbv zeta in A, B. split.
    + exact (skeys_le_trans _ _ _ (apply_ds_keys_le false ix (snd r)) A).
    + intros r' [Hr'|Hr']; [subst r'; exact (has_rec_le _ _ _ (apply_ds_has false ix (snd r)) A)|exact (B r' Hr')].
Qed.

Lemma ix_set_replay1 : forall comm ix r,
  ix_set (replay1 comm ix r) =
  if nmem (e_txid (snd r)) comm then ix_set (apply_ds true ix (snd r)) else ix_set ix.
Proof.
  intros comm ix [[f p] e]. cbn [snd]. unfold replay1. destruct (nmem (e_txid e) comm); [|reflexivity].
  destruct (e_ds e =? DS_KV) eqn:E; [|reflexivity]. apply N.eqb_eq in E.
  rewrite ix_set_apply_ds, E. reflexivity.
Qed.

Lemma fold_replay_keys : forall comm rs ix,
  let ix' := fold_left (replay1 comm) rs ix in
  skeys_le (ix_set ix) (ix_set ix') /\
  forall r, In r rs -> nmem (e_txid (snd r)) comm = true -> has_rec (snd r) (ix_set ix').
Proof.
  intros comm. induction rs as [|r t IH]; intros ix; cbv zeta; cbn [fold_left].
  - split; [apply skeys_le_refl|intros r []].
  - destruct (IH (replay1 comm ix r)) as [A B]. cbv zeta in A, B.
    assert (Hle : skeys_le (ix_set ix) (ix_set (replay1 comm ix r))).
    { rewrite ix_set_replay1. destruct (nmem (e_txid (snd r)) comm); [apply apply_ds_keys_le|apply skeys_le_refl]. }
    split; [exact (skeys_le_trans _ _ _ Hle A)|].
    intros r' [Hr'|Hr'] Hc; [|exact (B r' Hr' Hc)]. subst r'.
    apply (has_rec_le _ (ix_set (replay1 comm ix r))); [|exact A].
    rewrite ix_set_replay1, Hc. apply apply_ds_has.
Qed.

Lemma fold_replay_keys_into : forall comm S rs ix,
  (forall r, In r rs -> nmem (e_txid (snd r)) comm = true -> has_rec (snd r) S) ->
  skeys_le (ix_set ix) S -> skeys_le (ix_set (fold_left (replay1 comm) rs ix)) S.
Proof.
  intros comm S. induction rs as [|r t IH]; intros ix H Hle; [exact Hle|]. cbn [fold_left].
  apply IH; [intros r' Hr'; apply H; right; exact Hr'|].
  rewrite ix_set_replay1. destruct (nmem (e_txid (snd r)) comm) eqn:Ec; [|exact Hle].
  apply apply_ds_keys_into; [apply H; [left; reflexivity|exact Ec]|exact Hle].
Qed.

(** THE INVARIANT: every committed set record of the log has its bucket in
    the set index, every committed SAdd record its key (keys and buckets are
    never removed from the index of the running process) *)
Definition RI (w : world) : Prop :=
  forall r, In r (recs w) -> nmem (e_txid (snd r)) (w_committed w) = true -> has_rec (snd r) (ix_set (w_ix w)).

Lemma RI_empty : forall o, RI (empty_world o).
Proof. intros o r []. Qed.

Lemma open_RI : forall w o, MInv w -> RI (do_open o (w_disk w)).
Proof.
  intros w o HM.
  rewrite (do_open_eq o (w_disk w) (w_maxfid w) (mi_nodup w HM) (mi_max_in w HM) (mi_max w HM)). cbv zeta.
  unfold RI, recs. cbn [w_disk w_ix w_committed]. unfold replay.
  exact (proj2 (fold_replay_keys _ _ ix_empty)).
Qed.

Lemma commit_RI : forall w t, WInv w -> RI w -> w_tx w = TxActive t -> RI (fst (do_commit None w t)).
Proof.
  intros w t HW HR Ht. destruct (wi_w2 w HW) as (HM & _).
  pose proof (wi_tx w HW) as Htx. rewrite Ht in Htx. cbn [tx_ok] in Htx. destruct Htx as [Hfresh Hpend].
  destruct (tx_pend t) as [|e0 rest] eqn:Ep.
  { unfold do_commit. rewrite Ep. exact HR. }
  destruct (do_commit None w t) as [w' ok] eqn:Ec. cbn [fst]. destruct ok.
  2:{ rewrite (do_commit_false _ _ _ Ec). exact HR. }
  destruct (do_commit_ok w t w' HM Ec) as (ws0 & rl & l & A & B & C & _).
  { rewrite Ep. discriminate. }
  unfold RI. rewrite A, B, C, ix_set_commit_index.
  destruct (fold_apply_keys (ws0 ++ [rl]) (w_ix w)) as [F1 F2]. cbv zeta in F1, F2.
  intros r Hin Hc. apply in_app_or in Hin. destruct Hin as [Hin|Hin]; [|exact (F2 r Hin)].
  rewrite (fresh_not_comm _ _ _ r Hfresh Hin) in Hc. exact (has_rec_le _ _ _ (HR r Hin Hc) F1).
Qed.

Lemma merge_file_RI : forall now w f txid, MInv w -> ~ In txid (ids_of (recs w)) ->
  RI w -> RI (fst (merge_file now w f txid)).
Proof.
  intros now w f txid HM Hf HR.
  destruct (merge_file_cases now w f txid HM Hf) as (_ & HS & _ & _ & Hc).
  set (w' := fst (merge_file now w f txid)) in *.
  unfold RI. rewrite HS.
  destruct Hc as [(E & Ec & _)|(W & _ & E & Hcomm & Hsound & _)]; rewrite E.
  - rewrite Ec. exact HR.
  - intros r Hin Hc. apply in_app_or in Hin. destruct Hin as [Hin|Hin].
    + apply filter_In in Hin. destruct Hin as [Hin _]. apply (HR r Hin).
      destruct Hcomm as [(_ & Ec & _)|(ws0 & rl & _ & _ & Ec & _)]; rewrite Ec in Hc; [exact Hc|].
      rewrite (fresh_not_comm txid (recs w) _ r Hf Hin) in Hc. exact Hc.
    + destruct (Hsound r Hin) as (_ & _ & r0 & (Hin0 & _ & Hk0) & Hsim).
      apply (has_rec_esim _ _ _ Hsim). apply (HR r0 Hin0). exact (proj2 (merge_keep_filters _ _ _ _ _ Hk0)).
Qed.

Lemma merge_RI : forall now w txid0, W2 w -> RI w ->
  (forall k, ~ In (txid0 + k) (ids_of (recs w))) -> RI (fst (do_merge now w txid0)).
Proof.
  intros now w txid0. apply (do_merge_ind RI now). intros w0 f txid HW0 H0 Hf _.
  exact (merge_file_RI now w0 f txid (proj1 HW0) Hf H0).
Qed.

Lemma step_RI : forall now w c, WInv w -> RI w -> RI (fst (step now w c)).
Proof.
  intros now w c HW HR. destruct c as [wr id|o| | | |o]; cbn [step].
  - destruct (w_closed w); exact HR.
  - destruct (w_tx w) as [|t|] eqn:Et; try exact HR.
    pose proof (do_op_world now w t o) as Hw.
    destruct (do_op now w t o) as [[w' t'] r]. cbn [fst snd] in *. subst w'. exact HR.
  - destruct (w_tx w) as [|t|] eqn:Et; try exact HR.
    pose proof (commit_RI w t HW HR Et) as H. destruct (do_commit None w t) as [w' ok]. exact H.
  - destruct (w_tx w) as [|t|] eqn:Et; exact HR.
  - destruct (w_closed w); exact HR.
  - cbn [fst]. apply open_RI. exact (proj1 (wi_w2 w HW)).
Qed.

(** a reopen rebuilds a set index inside the one of the running process *)
Lemma reopen_sets_le : forall w o, MInv w -> DSInv w -> RI w ->
  skeys_le (ix_set (w_ix (do_open o (w_disk w)))) (ix_set (w_ix w)).
Proof.
  intros w o HM HD HR.
  rewrite (do_open_eq o (w_disk w) (w_maxfid w) (mi_nodup w HM) (mi_max_in w HM) (mi_max w HM)). cbv zeta.
  cbn [w_ix]. fold (recs w). unfold replay. apply fold_replay_keys_into.
  - intros r Hr Hc. rewrite (comm_agree w HD r Hr) in Hc. exact (HR r Hr Hc).
  - intros b s Hb. discriminate Hb.
Qed.

(** no bucket without key, no key without member *)
Definition sne (S : list (bytes * smap)) : Prop :=
  forall b s, alookup S b = Some s ->
    (exists k l, alookup s k = Some l) /\ forall k l, alookup s k = Some l -> l <> [].

Lemma sseq_of_members : forall S1 S2, set_wf S1 -> set_wf S2 ->
  (forall b k x, ismem S2 b k x = ismem S1 b k x) -> skeys_le S2 S1 -> sne S1 -> sseq S1 S2.
Proof.
  intros S1 S2 H1 H2 Heq Hle Hne b. unfold osmeq.
  destruct (alookup S1 b) as [s1|] eqn:E1.
  - destruct (Hne b s1 E1) as [(k0 & l0 & Hk0) Hall].
    assert (E2 : exists s2, alookup S2 b = Some s2).
    { pose proof (Hall k0 l0 Hk0) as Hn. destruct l0 as [|x0 r0]; [contradiction Hn; reflexivity|].
      pose proof (Heq b k0 x0) as Hm. rewrite (ismem_lookup S1 b s1 k0 _ x0 E1 Hk0) in Hm.
      cbn [bmem] in Hm. rewrite SetFacts.bytes_eqb_refl in Hm. cbn [orb] in Hm.
      unfold ismem in Hm. destruct (alookup S2 b) as [s2|]; [exists s2; reflexivity|discriminate Hm]. }
    destruct E2 as [s2 E2]. rewrite E2. intros k. unfold oleq.
    destruct (alookup s1 k) as [l1|] eqn:Ek1.
    + pose proof (Hall k l1 Ek1) as Hn. destruct l1 as [|x1 r1]; [contradiction Hn; reflexivity|].
      pose proof (Heq b k x1) as Hm. rewrite (ismem_lookup S1 b s1 k _ x1 E1 Ek1) in Hm.
      cbn [bmem] in Hm. rewrite SetFacts.bytes_eqb_refl in Hm. cbn [orb] in Hm.
      unfold ismem in Hm. rewrite E2 in Hm. unfold s_ismember in Hm.
      destruct (alookup s2 k) as [l2|] eqn:Ek2; [|discriminate Hm].
      split; [exact (H1 b s1 E1 k _ Ek1)|]. split; [exact (H2 b s2 E2 k _ Ek2)|].
      intros x. rewrite <- (ismem_lookup S1 b s1 k _ x E1 Ek1), <- (ismem_lookup S2 b s2 k _ x E2 Ek2).
      symmetry. apply Heq.
    + destruct (alookup s2 k) as [l2|] eqn:Ek2; [|exact I].
      destruct (Hle b s2 E2) as (s1' & E1' & Hk'). rewrite E1 in E1'. injection E1' as E1'. subst s1'.
      apply (Hk' k); [rewrite Ek2; discriminate|exact Ek1].
  - destruct (alookup S2 b) as [s2|] eqn:E2; [|exact I].
    destruct (Hle b s2 E2) as (s1' & E1' & _). rewrite E1 in E1'. discriminate E1'.
Qed.

(** (sets) in every world that satisfies the invariants — in particular after
    any number of Merges, successful or not — a reopen rebuilds the set index
    of the running process up to Go's map order, provided no bucket and no key
    of it is empty *)
Theorem reopen_sets_sseq : forall w o, MInv w -> DSInv w -> RI w -> sne (ix_set (w_ix w)) ->
  sseq (ix_set (w_ix w)) (ix_set (w_ix (do_open o (w_disk w)))).
Proof.
  intros w o HM HD HR Hne. apply sseq_of_members.
  - exact (di_swf w HD).
  - exact (di_swf _ (open_dsinv w o HM HD)).
  - exact (reopen_set_members w o HM HD).
  - exact (reopen_sets_le w o HM HD HR).
  - exact Hne.
Qed.

(** ================= part 4: sorted sets — a log that replays to the index ================= *)
(** [Z'] is [Z] without some of its empty sorted sets *)
Definition zle (Z' Z : list (bytes * zset)) : Prop :=
  forall b, match alookup Z' b with
            | Some z => alookup Z b = Some z
            | None => alookup Z b = None \/ alookup Z b = Some []
            end.

Definition zne (Z : list (bytes * zset)) : Prop := forall b z, alookup Z b = Some z -> z <> [].

Lemma zle_refl : forall Z, zle Z Z.
Proof. intros Z b. destruct (alookup Z b); [reflexivity|left; reflexivity]. Qed.

Lemma zle_getdef : forall Z' Z b, zle Z' Z -> getdef Z' b [] = getdef Z b [].
Proof.
  intros Z' Z b H. specialize (H b). unfold getdef. destruct (alookup Z' b) as [z|]; [rewrite H; reflexivity|].
  destruct H as [H|H]; rewrite H; reflexivity.
Qed.

Lemma zeq_of_zle : forall Z' Z, zle Z' Z -> zne Z -> zeq Z Z'.
Proof.
  intros Z' Z H Hne b. specialize (H b). destruct (alookup Z' b) as [z|]; [exact H|].
  destruct H as [H|H]; [exact H|]. exfalso. exact (Hne b [] H eq_refl).
Qed.

Definition zstep (strict : bool) (Z : list (bytes * zset)) (r : N * N * entry) : list (bytes * zset) :=
  if e_ds (snd r) =? DS_ZSet
  then aset Z (e_bucket (snd r)) (apply_zset strict (getdef Z (e_bucket (snd r)) []) (snd r))
  else Z.

Lemma zle_zstep : forall strict Z' Z r, zle Z' Z -> zle (zstep strict Z' r) (zstep strict Z r).
Proof.
  intros strict Z' Z r H. unfold zstep. destruct (e_ds (snd r) =? DS_ZSet); [|exact H].
  rewrite (zle_getdef Z' Z _ H). intros b. rewrite !alookup_aset.
  destruct (bytes_eqb (e_bucket (snd r)) b); [reflexivity|exact (H b)].
Qed.

Lemma zle_fold : forall strict ws Z' Z, zle Z' Z -> zle (fold_left (zstep strict) ws Z') (fold_left (zstep strict) ws Z).
Proof.
  intros strict. induction ws as [|r t IH]; intros Z' Z H; [exact H|]. cbn [fold_left]. apply IH. apply zle_zstep. exact H.
Qed.

Lemma ix_zset_fold_apply : forall (ws : list (N * N * entry)) ix,
  ix_zset (fold_left (fun ix0 r => apply_ds false ix0 (snd r)) ws ix) = fold_left (zstep false) ws (ix_zset ix).
Proof.
  induction ws as [|r t IH]; intros ix; [reflexivity|]. cbn [fold_left]. rewrite IH, ix_zset_apply_ds. reflexivity.
Qed.

Lemma ix_zset_commit_index : forall ix ws, ix_zset (commit_index ix ws) = fold_left (zstep false) ws (ix_zset ix).
Proof. intros ix ws. rewrite commit_index_eq, ix_zset_fold_apply. reflexivity. Qed.

(** THE INVARIANT (it does not survive a Merge that fails half-way): the
    replay of the log gives the sorted sets of the index, up to empty ones *)
Definition ZG (w : world) : Prop := zle (ix_zset (replay (w_committed w) (recs w))) (ix_zset (w_ix w)).

Lemma ZG_empty : forall o, ZG (empty_world o).
Proof. intros o. apply zle_refl. Qed.

Lemma open_ZG : forall w o, MInv w -> ZG (do_open o (w_disk w)).
Proof.
  intros w o HM.
  rewrite (do_open_eq o (w_disk w) (w_maxfid w) (mi_nodup w HM) (mi_max_in w HM) (mi_max w HM)). cbv zeta.
  unfold ZG, recs. cbn [w_disk w_ix w_committed]. apply zle_refl.
Qed.

Lemma commit_ZG : forall w t, WInv w -> ZG w -> w_tx w = TxActive t -> ZG (fst (do_commit None w t)).
Proof.
  intros w t HW HZ Ht. destruct (wi_w2 w HW) as (HM & _).
  pose proof (wi_tx w HW) as Htx. rewrite Ht in Htx. cbn [tx_ok] in Htx. destruct Htx as [Hfresh Hpend].
  destruct (tx_pend t) as [|e0 rest] eqn:Ep.
  { unfold do_commit. rewrite Ep. exact HZ. }
  destruct (do_commit None w t) as [w' ok] eqn:Ec. cbn [fst]. destruct ok.
  2:{ rewrite (do_commit_false _ _ _ Ec). exact HZ. }
  destruct (do_commit_ok w t w' HM Ec) as (ws0 & rl & l & A & B & C & _ & El & Hl & _).
  { rewrite Ep. discriminate. }
  rewrite Ep in El.
  assert (Hw : forall r, In r (ws0 ++ [rl]) -> e_txid (snd r) = tx_id t /\ entry_ok (snd r)).
  { intros r Hr. destruct (written_sound ws0 rl l r Hl Hr) as (e & He & Hsim & Hid). rewrite <- El in He.
    rewrite Forall_forall in Hpend. destruct (Hpend e He) as (X & Y & _). split; [rewrite Hid; exact Y|].
    exact (entry_ok_esim _ _ Hsim X). }
  unfold ZG. rewrite A, B, C. unfold replay. rewrite fold_left_app.
  rewrite (replay_fresh_id (tx_id t) (w_committed w) (recs w) ix_empty Hfresh).
  fold (replay (w_committed w) (recs w)).
  rewrite <- (commit_index_replay (tx_id t :: w_committed w) (ws0 ++ [rl]) (replay (w_committed w) (recs w))).
  - rewrite !ix_zset_commit_index. apply zle_fold. exact HZ.
  - intros r Hr. rewrite (proj1 (Hw r Hr)), nmem_cons, N.eqb_refl. reflexivity.
  - apply Forall_forall. intros r Hr. exact (proj2 (Hw r Hr)).
Qed.

Lemma step_ZG : forall now w c, WInv w -> ZG w -> ZG (fst (step now w c)).
Proof.
  intros now w c HW HZ. destruct c as [wr id|o| | | |o]; cbn [step].
  - destruct (w_closed w); exact HZ.
  - destruct (w_tx w) as [|t|] eqn:Et; try exact HZ.
    pose proof (do_op_world now w t o) as Hw.
    destruct (do_op now w t o) as [[w' t'] r]. cbn [fst snd] in *. subst w'. exact HZ.
  - destruct (w_tx w) as [|t|] eqn:Et; try exact HZ.
    pose proof (commit_ZG w t HW HZ Et) as H. destruct (do_commit None w t) as [w' ok]. exact H.
  - destruct (w_tx w) as [|t|] eqn:Et; exact HZ.
  - destruct (w_closed w); exact HZ.
  - cbn [fst]. apply open_ZG. exact (proj1 (wi_w2 w HW)).
Qed.

(** a successful Merge leaves a log of clean records: [ZG] holds afterwards
    whatever the log was before *)
Lemma merge_ok_ZG : forall now w txid0,
  W2 w -> DSInv w -> ZInv w -> (forall k, ~ In (txid0 + k) (ids_of (recs w))) ->
  snd (do_merge now w txid0) = true -> ZG (fst (do_merge now w txid0)).
Proof.
  intros now w txid0 HW HD HZ Hfresh Hok.
  destruct (do_merge_zinv now w txid0 HW HD HZ Hfresh) as [HD1 [Z1 Z2]].
  assert (Hcl : forall r, In r (recs (fst (do_merge now w txid0))) ->
                zclean (ix_zset (w_ix (fst (do_merge now w txid0)))) (w_committed (fst (do_merge now w txid0))) r).
  { rewrite (proj2 (merge_ds_unchanged now w txid0)).
    revert Hok. unfold do_merge. destruct (w_closed w); [intros X; discriminate X|].
    pose proof (low_files_init w (proj1 HW)) as Hlow.
    assert (HQ : forall r, In r (recs w) -> In (fid_of r) (disk_fids (w_disk w)) \/ zclean (ix_zset (w_ix w)) (w_committed w) r).
    { intros [[g p] e] Hin. left. unfold fid_of, disk_fids. cbn [fst]. apply nsort_in. exact (in_recs_fid _ _ _ _ Hin). }
    destruct (disk_fids (w_disk w)) as [|a [|c l]]; [intros X; discriminate X|intros X; discriminate X|].
    intros Hok r Hr.
    exact (merge_files_clean_all now (ix_zset (w_ix w)) (a :: c :: l) w txid0 HW HD eq_refl Hfresh Hlow HQ Hok r Hr). }
  unfold ZG. intros b.
  rewrite (clean_replay _ _ Z1 _ Hcl Z2 b).
  destruct (alookup (ix_zset (w_ix (fst (do_merge now w txid0)))) b) as [[|n z]|];
    [right; reflexivity|reflexivity|left; reflexivity].
Qed.

(** Merge is refused (and changes nothing) on a closed database and when there are fewer than two data files *)
Definition merge_refused (w : world) : bool := w_closed w || (length (disk_fids (w_disk w)) <? 2)%nat.

Lemma merge_refused_same : forall now w txid0, merge_refused w = true -> fst (do_merge now w txid0) = w.
Proof.
  intros now w txid0 H. unfold merge_refused in H. apply orb_true_iff in H. destruct H as [H|H].
  - rewrite (merge_closed_noop now w txid0 H). reflexivity.
  - apply Nat.ltb_lt in H. rewrite (merge_refused_noop now w txid0 H). reflexivity.
Qed.

(** does the log still replay to the sorted sets after this Merge? *)
Definition merge_good (g : bool) (now : N) (w : world) (txid0 : N) : bool :=
  snd (do_merge now w txid0) || (g && merge_refused w).

Lemma merge_ZG : forall g now w txid0,
  W2 w -> DSInv w -> ZInv w -> (forall k, ~ In (txid0 + k) (ids_of (recs w))) ->
  (g = true -> ZG w) -> merge_good g now w txid0 = true -> ZG (fst (do_merge now w txid0)).
Proof.
  intros g now w txid0 HW HD HZ Hfresh Hg H. unfold merge_good in H. apply orb_true_iff in H. destruct H as [H|H].
  - exact (merge_ok_ZG now w txid0 HW HD HZ Hfresh H).
  - apply andb_true_iff in H. destruct H as [H1 H2]. rewrite (merge_refused_same now w txid0 H2). exact (Hg H1).
Qed.

Lemma replay_comm_ext_in : forall c1 c2 rs ix0,
  (forall r, In r rs -> nmem (e_txid (snd r)) c1 = nmem (e_txid (snd r)) c2) ->
  fold_left (replay1 c1) rs ix0 = fold_left (replay1 c2) rs ix0.
Proof.
  intros c1 c2 rs. induction rs as [|r rs IH]; intros ix0 H; [reflexivity|]. cbn [fold_left].
  assert (E : replay1 c1 ix0 r = replay1 c2 ix0 r).
  { pose proof (H r (or_introl eq_refl)) as Hr. destruct r as [[fid pos] e]. cbn [snd] in Hr.
    unfold replay1. rewrite Hr. reflexivity. }
  rewrite E. apply IH. intros r' Hr'. apply H. right. exact Hr'.
Qed.

(** (sorted sets) a reopen of a world whose log replays to its sorted sets *)
Theorem reopen_zsets_zle : forall w o, MInv w -> DSInv w -> ZG w ->
  zle (ix_zset (w_ix (do_open o (w_disk w)))) (ix_zset (w_ix w)).
Proof.
  intros w o HM HD HZ.
  rewrite (do_open_eq o (w_disk w) (w_maxfid w) (mi_nodup w HM) (mi_max_in w HM) (mi_max w HM)). cbv zeta.
  cbn [w_ix]. fold (recs w). unfold replay.
  rewrite (replay_comm_ext_in _ (w_committed w) (recs w) ix_empty); [exact HZ|].
  exact (comm_agree w HD).
Qed.

(** ================= part 5: the side condition and the invariant of the run ================= *)
(** no set bucket without key, no set key without member, no sorted-set bucket without node *)
Definition no_empty_ds (ix : indexes) : bool :=
  forallb (fun bs : bytes * smap =>
             negb (isnil (snd bs)) && forallb (fun kl : bytes * list bytes => negb (isnil (snd kl))) (snd bs)) (ix_set ix) &&
  forallb (fun bz : bytes * zset => negb (isnil (snd bz))) (ix_zset ix).

Lemma alookup_In : forall {V} (m : list (bytes * V)) k v, alookup m k = Some v -> exists k', In (k', v) m.
Proof.
  intros V m k v. induction m as [|[k0 v0] t IH]; intros H; [discriminate H|]. cbn [alookup] in H.
  destruct (bytes_eqb k0 k).
  - injection H as H. subst v0. exists k0. left. reflexivity.
  - destruct (IH H) as [k' Hk']. exists k'. right. exact Hk'.
Qed.

Lemma no_empty_ds_spec : forall ix, no_empty_ds ix = true -> sne (ix_set ix) /\ zne (ix_zset ix).
Proof.
  intros ix H. unfold no_empty_ds in H. apply andb_true_iff in H. destruct H as [HS HZ].
  rewrite forallb_forall in HS. rewrite forallb_forall in HZ. split.
  - intros b s Hb. destruct (alookup_In _ _ _ Hb) as [b' Hin]. specialize (HS _ Hin). cbn [snd] in HS.
    apply andb_true_iff in HS. destruct HS as [H1 H2]. split.
    + destruct s as [|[k l] t]; [discriminate H1|]. exists k, l. cbn [alookup]. rewrite SetFacts.bytes_eqb_refl. reflexivity.
    + intros k l Hk. destruct (alookup_In _ _ _ Hk) as [k' Hin']. rewrite forallb_forall in H2.
      specialize (H2 _ Hin'). cbn [snd] in H2. intros E. subst l. discriminate H2.
  - intros b z Hb. destruct (alookup_In _ _ _ Hb) as [b' Hin]. specialize (HZ _ Hin). cbn [snd] in HZ.
    intros E. subst z. discriminate HZ.
Qed.

Lemma sne_sseq : forall S1 S2, sseq S1 S2 -> sne S1 -> sne S2.
Proof.
  intros S1 S2 He Hn b s2 Hb. pose proof (He b) as Hbb. rewrite Hb in Hbb. unfold osmeq in Hbb.
  destruct (alookup S1 b) as [s1|] eqn:E1; [|contradiction]. destruct (Hn b s1 E1) as [(k & l & Hk) Hall]. split.
  - pose proof (Hbb k) as Hkk. rewrite Hk in Hkk. unfold oleq in Hkk.
    destruct (alookup s2 k) as [l2|] eqn:E2; [|contradiction]. exists k, l2. exact E2.
  - intros k' l2 Hk'. pose proof (Hbb k') as Hkk. rewrite Hk' in Hkk. unfold oleq in Hkk.
    destruct (alookup s1 k') as [l1|] eqn:E2; [|contradiction]. intros E. subst l2.
    apply leq_nil_r in Hkk. exact (Hall k' l1 E2 Hkk).
Qed.

Lemma zne_zeq : forall Z1 Z2, zeq Z1 Z2 -> zne Z1 -> zne Z2.
Proof. intros Z1 Z2 He Hn b z Hb. rewrite <- (He b) in Hb. exact (Hn b z Hb). Qed.

Lemma sseq_refl : forall S, set_wf S -> sseq S S.
Proof.
  intros S H b. unfold osmeq. destruct (alookup S b) as [m|] eqn:E; [|exact I].
  intros k. unfold oleq. destruct (alookup m k) as [l|] eqn:Ek; [|exact I]. apply leq_refl. exact (H b m E k l Ek).
Qed.

Lemma deq_of_dsrel : forall ix s, dsrel ix s -> set_wf (ix_set ix) -> deq (s_ds s) ix.
Proof.
  intros ix s (A & B & C) H. split; [symmetry; exact A|]. split.
  - rewrite <- B. apply sseq_refl. exact H.
  - intros b. rewrite C. reflexivity.
Qed.

(** [K] looks at the key/value part of the specification state only *)
Lemma K_transfer : forall m x T a wr w sw ds,
  K m x T a wr w sw -> sw_tx sw = SNone ->
  K m x T a wr w (mkSW (sw_closed sw) (mkS (s_kv (sw_state sw)) ds) SNone).
Proof.
  intros m x T a wr w sw ds (H1 & H2 & H3 & H4 & (s' & Hrel & Hsl & Hex) & Hwf & Htx & Hcl & Hct & Htk) Hn.
  split; [exact H1|]. split; [exact H2|]. split; [exact H3|]. split; [exact H4|]. split.
  { exists s'. split; [exact Hrel|]. split.
    - apply (same_live_skv T (sw_state sw) s'); [reflexivity|reflexivity|exact Hsl].
    - exact Hex. }
  split; [apply (skv_wf_skv (sw_state sw)); [reflexivity|exact Hwf]|].
  split.
  { unfold tx_rel in *. rewrite Hn in Htx. cbn [sw_tx]. exact Htx. }
  split; [exact Hcl|]. split; [exact Hct|].
  unfold tx_kv. cbn [sw_tx]. destruct (w_tx w); exact I.
Qed.

(** the invariant of the run: [sh] is the SHADOW specification world — the
    specification run from the structure indexes the engine rebuilt at the last
    Open that followed a Merge; the engine refines it exactly (HistoryMerge's
    [K] and [D]) and it differs from the specification proper in Go's map
    order only ([SE]).  [g]: the log still replays to the sorted sets. *)
Definition Q (m x : bool) (T : N) (a : bool) (wr : list (N * bytes)) (g : bool)
             (w : world) (sw sh : sworld) : Prop :=
  K m x T a wr w sh /\ D a wr w sh /\ SE sw sh /\ NL w /\ RI w /\ ZInv w /\ (g = true -> ZG w).

Lemma Q_init : forall o, Q false true 0 false [] true (empty_world o) sworld0 sworld0.
Proof.
  intros o. split; [apply K_init|]. split; [apply D_init|]. split; [apply SE_init|].
  split; [apply NL_empty|]. split; [apply RI_empty|]. split; [apply zinv_empty|]. intros _. apply ZG_empty.
Qed.

(** at an Open that follows a Merge: the log replays to the sorted sets, and
    nothing in the specification's sets and sorted sets is empty *)
Definition open_head (m g : bool) (sw : sworld) (c : call) : Prop :=
  match c with
  | COpen _ => m = true -> g = true /\ no_empty_ds (s_ds (sw_state sw)) = true
  | _ => True
  end.

Definition gcall (g : bool) (c : call) : bool := match c with COpen _ => true | _ => g end.

Local Opaque do_commit do_merge do_open.

(** an Open that follows a Merge: the shadow restarts from the rebuilt indexes *)
Lemma open_Q : forall (now : N) x T a wr g w sw sh o,
  Q true x T a wr g w sw sh -> open_ok w (COpen o) ->
  g = true -> no_empty_ds (s_ds (sw_state sw)) = true ->
  exists sh',
    Q true (xnext true x (COpen o)) T a wr true (do_open o (w_disk w)) (mkSW false (sw_state sw) SNone) sh'.
Proof.
  intros now x T a wr g w sw sh o (HK & HD & HE & HN & HR & HZI & HZG) Ho Hg Hne.
  pose proof HK as (HW & HDS & _).
  pose proof (proj1 (wi_w2 w HW)) as HM.
  destruct (step_K now true x T a wr w sh (COpen o) HK I I Ho I I) as [_ HK'].
  cbn [step spec_step fst snd gnext res_ok] in HK'.
  set (w' := do_open o (w_disk w)) in *.
  pose proof (K_transfer _ _ _ _ _ _ _ (w_ix w') HK' eq_refl) as HK''. cbn [sw_closed sw_state] in HK''.
  exists (mkSW false (mkS (s_kv (sw_state sh)) (w_ix w')) SNone).
  pose proof (open_NL w o HM HN) as HN'. fold w' in HN'.
  destruct HD as (Hds & HLK & HSK & _).
  destruct HE as (Hcl & (Hkv & Hdeq) & _).
  (* the engine's structure indexes and the specification's *)
  assert (Hdw : deq (s_ds (sw_state sw)) (w_ix w)).
  { apply (deq_trans _ (s_ds (sw_state sh))); [exact Hdeq|]. exact (deq_of_dsrel _ _ Hds (di_swf w HDS)). }
  destruct (no_empty_ds_spec _ Hne) as [Hsne Hzne].
  assert (Hsne' : sne (ix_set (w_ix w))) by exact (sne_sseq _ _ (proj1 (proj2 Hdw)) Hsne).
  assert (Hzne' : zne (ix_zset (w_ix w))) by exact (zne_zeq _ _ (proj2 (proj2 Hdw)) Hzne).
  assert (Hdo : deq (w_ix w) (w_ix w')).
  { split; [rewrite (nl_ix w HN), (nl_ix w' HN'); reflexivity|]. split.
    - exact (reopen_sets_sseq w o HM HDS HR Hsne').
    - exact (zeq_of_zle _ _ (reopen_zsets_zle w o HM HDS (HZG Hg)) Hzne'). }
  split; [exact HK''|]. split.
  { (* D *)
    split; [repeat split|]. split.
    - intros b l k v Hb. rewrite (nl_ix w' HN') in Hb. discriminate Hb.
    - split.
      + intros b s k l Hb Hk.
        destruct (reopen_sets_le w o HM HDS HR b s Hb) as (s0 & Hb0 & Hk0).
        destruct (alookup s0 k) as [l0|] eqn:E0; [exact (HSK b s0 k l0 Hb0 E0)|].
        exfalso. apply (Hk0 k); [rewrite Hk; discriminate|exact E0].
      + apply tx_ds_inactive. intros t E. unfold w' in E.
        replace (w_tx (do_open o (w_disk w))) with TxNone in E by reflexivity. discriminate E. }
  split.
  { (* SE *)
    split; [reflexivity|]. cbn [sw_state sw_tx]. split; [|exact I].
    split; [cbn [s_kv]; exact Hkv|]. cbn [s_ds]. exact (deq_trans _ _ _ Hdw Hdo). }
  split; [exact HN'|]. split; [exact (open_RI w o HM)|]. split; [exact (open_zinv w o HM)|].
  intros _. exact (open_ZG w o HM).
Qed.

(** one call *)
Lemma step_Q : forall now m x T a wr g w sw sh c,
  Q m x T a wr g w sw sh -> call_ok w c -> call_kv_ok (now, c) -> open_ok w c -> no_push (TCall now c) ->
  guard_head a wr c = true -> clock_head x T w now c -> open_head m g sw c ->
  snd (step now w c) = snd (spec_step now (res_ok (snd (step now w c))) sw c) /\
  exists sh',
    Q m (xnext m x c) T (fst (gnext a wr c)) (snd (gnext a wr c)) (gcall g c)
      (fst (step now w c)) (fst (spec_step now (res_ok (snd (step now w c))) sw c)) sh'.
Proof.
  intros now m x T a wr g w sw sh c HQ Hc Hkv Ho Hnp Hg Hclk Hoh.
  pose proof HQ as (HK & HD & HE & HN & HR & HZI & HZG).
  pose proof HK as (HW & HDS & _).
  destruct (step_K now m x T a wr w sh c HK Hc Hkv Ho (guard_head_kvguard a wr c Hg) Hclk) as [Hres1 HK'].
  destruct (spec_step_SE now (res_ok (snd (step now w c))) sw sh c HE) as [Hres3 HE'].
  assert (Hopen : (exists o, c = COpen o /\ m = true) \/ open_before_merge m c).
  { destruct c; try (right; exact I). cbn [open_before_merge]. destruct m; [left; exists o; split; reflexivity|right; reflexivity]. }
  destruct Hopen as [(o & Ec & Em)|Hom].
  - (* an Open after a Merge *)
    subst c m. cbn [open_head] in Hoh. destruct (Hoh eq_refl) as [Hg1 Hne].
    split; [reflexivity|].
    destruct (open_Q now x T a wr g w sw sh o HQ Ho Hg1 Hne) as [sh' HQ'].
    exists sh'. cbn [step spec_step fst snd gnext gcall]. exact HQ'.
  - destruct (step_D now m x T a wr w sh c HK HD Hc Hkv Ho Hg Hom) as [Hres2 HD'].
    split.
    + rewrite Hres3. destruct (kvish c) eqn:Ek; [exact (Hres1 eq_refl)|]. apply Hres2.
      destruct c as [| o | | | |]; try discriminate Ek. cbn [kvish ds_call] in *.
      unfold is_kv_op in Ek. apply orb_false_iff in Ek. exact (proj1 Ek).
    + exists (fst (spec_step now (res_ok (snd (step now w c))) sh c)).
      split; [exact HK'|]. split; [exact HD'|]. split; [exact HE'|].
      split; [exact (step_NL now w c HW HN Hnp)|]. split; [exact (step_RI now w c HW HR)|].
      split; [exact (step_zinv now w c HW HZI Hc)|].
      intros Hg'. destruct c as [wr0 id|o| | | |o]; cbn [gcall] in Hg';
        try exact (step_ZG now w _ HW (HZG Hg')).
      cbn [step fst]. exact (open_ZG w o (proj1 (wi_w2 w HW))).
Qed.

(** Merge *)
Lemma merge_Q : forall m x T a wr g w sw sh n txid0,
  Q m x T a wr g w sw sh -> merge_ok w txid0 ->
  Q true x (N.max T n) a wr (merge_good g n w txid0) (fst (do_merge n w txid0)) sw sh.
Proof.
  intros m x T a wr g w sw sh n txid0 (HK & HD & HE & HN & HR & HZI & HZG) [Hnt Hfresh].
  pose proof HK as (HW & HDS & _). pose proof (wi_w2 w HW) as HW2.
  split; [exact (merge_K m x T a wr w sh n txid0 HK Hnt Hfresh)|].
  split; [exact (merge_D a wr w sh n txid0 HD Hnt (no_list_items_nil _ (nl_ix w HN)))|].
  split; [exact HE|].
  split; [exact (merge_NL n w txid0 HW2 HN Hfresh)|].
  split; [exact (merge_RI n w txid0 HW2 HR Hfresh)|].
  split; [exact (proj2 (do_merge_zinv n w txid0 HW2 HDS HZI Hfresh))|].
  intros Hg. exact (merge_ZG g n w txid0 HW2 HDS HZI Hfresh HZG Hg).
Qed.

(** THE SIDE CONDITION on the history, over the side-by-side run: at every
    Open that follows a Merge
      - no set bucket, no set key and no sorted-set bucket of the
        specification's state is empty (finding F30), and
      - every Merge since the last Open either succeeded or was refused (a
        Merge that stops half-way, on a rejected rewrite transaction, leaves
        a log whose sorted-set records no longer replay to the index). *)
Fixpoint opens_nonempty (m g : bool) (w : world) (sw : sworld) (l : list tact) : Prop :=
  match l with
  | [] => True
  | TCall now c :: r =>
      open_head m g sw c /\
      let '(w', res) := step now w c in
      opens_nonempty m (gcall g c) w' (fst (spec_step now (res_ok res) sw c)) r
  | TMerge n txid0 :: r =>
      opens_nonempty true (merge_good g n w txid0) (fst (do_merge n w txid0)) sw r
  end.

Lemma run_Q : forall l m x T a wr g w sw sh,
  Q m x T a wr g w sw sh -> tacts_ok w l -> Forall tact_kv_ok l -> Forall no_push l ->
  hist_guard_corrected a wr (calls_of l) = true -> clocks_ok m x T w l ->
  opens_nonempty m g w sw l ->
  Forall agree (run_m_res w sw l) /\
  exists m' x' T' a' wr' g' sh',
    Q m' x' T' a' wr' g' (fst (run_m w sw l)) (snd (run_m w sw l)) sh'.
Proof.
  induction l as [|[now c|n txid0] r IH]; intros m x T a wr g w sw sh HQ Hok Hkv Hnp Hg Hclk Hon.
  - split; [constructor|]. exists m, x, T, a, wr, g, sh. exact HQ.
  - cbn [tacts_ok calls_of clocks_ok opens_nonempty] in *.
    rewrite hist_guard_corrected_cons in Hg. apply andb_true_iff in Hg as [Hg1 Hg2].
    destruct Hok as (Hc & Ho & Hr). destruct Hclk as [Hc1 Hc2]. destruct Hon as [Hon1 Hon2].
    inversion Hkv as [|y l' Hk Hkr]; subst y l'. cbn [tact_kv_ok] in Hk.
    inversion Hnp as [|y l' Hp Hpr]; subst y l'.
    destruct (step_Q now m x T a wr g w sw sh c HQ Hc Hk Ho Hp Hg1 Hc1 Hon1) as [Hres [sh' HQ']].
    cbn [run_m_res run_m].
    destruct (step now w c) as [w' res]. cbn [fst snd] in *.
    destruct (spec_step now (res_ok res) sw c) as [sw' sres]. cbn [fst snd] in *.
    destruct (IH _ _ _ _ _ _ w' sw' sh' HQ' Hr Hkr Hpr Hg2 Hc2 Hon2) as [IH1 IH2].
    split; [constructor; [exact Hres|exact IH1]|exact IH2].
  - cbn [tacts_ok calls_of clocks_ok opens_nonempty run_m_res run_m] in *.
    destruct Hok as (Hmo & Hr).
    inversion Hkv as [|y l' _ Hkr]; subst y l'. inversion Hnp as [|y l' _ Hpr]; subst y l'.
    apply (IH true x (N.max T n) a wr (merge_good g n w txid0) _ sw sh); try assumption.
    exact (merge_Q m x T a wr g w sw sh n txid0 HQ Hmo).
Qed.

(** ================= part 6: THEOREM C ================= *)
(** THEOREM C: every history of calls and Merges without RPush / LPush in which
    - ids are unique, Open is not called inside a transaction, Merge runs
      outside transactions with fresh internal ids ([tacts_ok]),
    - timestamp + TTL does not wrap ([tact_kv_ok]),
    - the calls satisfy the guard of HistoryRefine ([hist_guard_corrected]),
    - key/value reads are made at clocks not earlier than the earlier Merges'
      (or, until an Open follows a Merge, in mode 0) ([clocks_ok]),
    - at every Open that follows a Merge nothing in the specification's sets
      and sorted sets is empty and the Merges since the last Open succeeded or
      were refused ([opens_nonempty]):
    EVERY call — key/value, set, sorted set, list — returns exactly the
    specification's result.  Opens may follow Merges. *)
Theorem history_merge_ds_refines : forall l o,
  tacts_ok (empty_world o) l -> Forall tact_kv_ok l -> Forall no_push l ->
  hist_guard_corrected false [] (calls_of l) = true ->
  clocks_ok false true 0 (empty_world o) l ->
  opens_nonempty false true (empty_world o) sworld0 l ->
  Forall agree (run_m_res (empty_world o) sworld0 l).
Proof.
  intros l o Hok Hkv Hnp Hg Hclk Hon.
  exact (proj1 (run_Q l false true 0 false [] true _ _ _ (Q_init o) Hok Hkv Hnp Hg Hclk Hon)).
Qed.

Corollary history_merge_ds_refines_mono : forall l o,
  tacts_ok (empty_world o) l -> Forall tact_kv_ok l -> Forall no_push l ->
  hist_guard_corrected false [] (calls_of l) = true -> clocks_mono 0 l ->
  opens_nonempty false true (empty_world o) sworld0 l ->
  Forall agree (run_m_res (empty_world o) sworld0 l).
Proof.
  intros l o Hok Hkv Hnp Hg Hclk Hon. apply history_merge_ds_refines; try assumption.
  apply clocks_mono_ok. exact Hclk.
Qed.

(** ... and at the end of such a history: the structure indexes of the engine
    are those of the specification up to Go's map order, the key/value index
    abstracts to a state with the specification's live pairs *)
Theorem history_merge_ds_state_refines : forall l o,
  tacts_ok (empty_world o) l -> Forall tact_kv_ok l -> Forall no_push l ->
  hist_guard_corrected false [] (calls_of l) = true ->
  clocks_ok false true 0 (empty_world o) l ->
  opens_nonempty false true (empty_world o) sworld0 l ->
  let '(w, sw) := run_m (empty_world o) sworld0 l in
  deq (s_ds (sw_state sw)) (w_ix w) /\
  (exists T s', kvrel w s' /\ kv_same_live T (sw_state sw) s') /\
  list_keys_ok (w_ix w) /\ set_keys_ok (w_ix w) /\ w_closed w = sw_closed sw.
Proof.
  intros l o Hok Hkv Hnp Hg Hclk Hon.
  destruct (proj2 (run_Q l false true 0 false [] true _ _ _ (Q_init o) Hok Hkv Hnp Hg Hclk Hon))
    as (m' & x' & T' & a' & wr' & g' & sh' & HK & HD & HE & _).
  destruct (run_m (empty_world o) sworld0 l) as [w sw]. cbn [fst snd] in *.
  destruct HK as (_ & HDS & _ & _ & (s' & Hrel & Hsl & _) & _ & _ & Hcl & _).
  destruct HD as (Hds & HLK & HSK & _).
  destruct HE as (Hc & (Hkv' & Hdeq) & _).
  split.
  { apply (deq_trans _ (s_ds (sw_state sh'))); [exact Hdeq|]. exact (deq_of_dsrel _ _ Hds (di_swf w HDS)). }
  split.
  { exists T', s'. split; [exact Hrel|]. apply (same_live_skv T' (sw_state sh') s'); [symmetry; exact Hkv'|reflexivity|exact Hsl]. }
  split; [exact HLK|]. split; [exact HSK|]. rewrite Hc. exact Hcl.
Qed.

(** the new side condition is implied by the old one ("no Open follows a Merge") *)
Lemma opens_before_merges_nonempty : forall l m g w sw,
  opens_before_merges m l -> opens_nonempty m g w sw l.
Proof.
  induction l as [|[now c|n txid0] r IH]; intros m g w sw H; [exact I| |].
  - cbn [opens_before_merges opens_nonempty] in *. destruct H as [H1 H2]. split.
    + destruct c; try exact I. cbn [open_head open_before_merge] in *. intros E. rewrite H1 in E. discriminate E.
    + destruct (step now w c) as [w' res]. apply IH. exact H2.
  - cbn [opens_before_merges opens_nonempty] in *. apply IH. exact H.
Qed.

(** THEOREM A of HistoryMerge (histories without RPush / LPush) is the special case *)
Corollary history_merge_refines_no_push_again : forall l o,
  tacts_ok (empty_world o) l -> Forall tact_kv_ok l ->
  hist_guard_corrected false [] (calls_of l) = true ->
  clocks_mono 0 l -> opens_before_merges false l -> Forall no_push l ->
  Forall agree (run_m_res (empty_world o) sworld0 l).
Proof.
  intros l o Hok Hkv Hg Hclk Hom Hp. apply history_merge_ds_refines_mono; try assumption.
  apply opens_before_merges_nonempty. exact Hom.
Qed.

(** Theorems A and C together: lists are allowed (empty whenever Merge runs)
    as long as no Open follows a Merge *)
Corollary history_merge_refines_gen : forall l o,
  tacts_ok (empty_world o) l -> Forall tact_kv_ok l ->
  hist_guard_corrected false [] (calls_of l) = true ->
  clocks_ok false true 0 (empty_world o) l ->
  (opens_before_merges false l /\ merges_listless (empty_world o) sworld0 l) \/
  (Forall no_push l /\ opens_nonempty false true (empty_world o) sworld0 l) ->
  Forall agree (run_m_res (empty_world o) sworld0 l).
Proof.
  intros l o Hok Hkv Hg Hclk [[H1 H2]|[H1 H2]].
  - apply history_merge_refines; assumption.
  - apply history_merge_ds_refines; assumption.
Qed.

(** the two halves of the side condition, separately *)
Fixpoint opens_full (m : bool) (w : world) (sw : sworld) (l : list tact) : Prop :=
  match l with
  | [] => True
  | TCall now c :: r =>
      match c with COpen _ => m = true -> no_empty_ds (s_ds (sw_state sw)) = true | _ => True end /\
      let '(w', res) := step now w c in opens_full m w' (fst (spec_step now (res_ok res) sw c)) r
  | TMerge n txid0 :: r => opens_full true (fst (do_merge n w txid0)) sw r
  end.

Fixpoint opens_replayable (m g : bool) (w : world) (l : list tact) : Prop :=
  match l with
  | [] => True
  | TCall now c :: r =>
      match c with COpen _ => m = true -> g = true | _ => True end /\
      opens_replayable m (gcall g c) (fst (step now w c)) r
  | TMerge n txid0 :: r => opens_replayable true (merge_good g n w txid0) (fst (do_merge n w txid0)) r
  end.

Lemma opens_nonempty_split : forall l m g w sw,
  opens_nonempty m g w sw l <-> opens_full m w sw l /\ opens_replayable m g w l.
Proof.
  induction l as [|[now c|n txid0] r IH]; intros m g w sw; [split; [intros _; split; exact I|intros _; exact I]| |].
  - cbn [opens_nonempty opens_full opens_replayable].
    destruct (step now w c) as [w' res] eqn:Es. cbn [fst]. rewrite IH. split.
    + intros (H1 & H2 & H3). destruct c; cbn [open_head] in H1; repeat split; try exact I; try assumption;
        intros E; exact (proj1 (H1 E)) || exact (proj2 (H1 E)).
    + intros ((H1 & H2) & (H3 & H4)). split; [|split; assumption].
      destruct c; cbn [open_head]; try exact I. intros E. split; [exact (H3 E)|exact (H1 E)].
  - cbn [opens_nonempty opens_full opens_replayable]. apply IH.
Qed.

(** a sufficient condition for the second half: every Merge succeeds or is refused *)
Fixpoint merges_succeed (w : world) (l : list tact) : Prop :=
  match l with
  | [] => True
  | TCall now c :: r => merges_succeed (fst (step now w c)) r
  | TMerge n txid0 :: r =>
      (snd (do_merge n w txid0) = true \/ merge_refused w = true) /\ merges_succeed (fst (do_merge n w txid0)) r
  end.

Lemma merges_succeed_replayable : forall l m w, merges_succeed w l -> opens_replayable m true w l.
Proof.
  induction l as [|[now c|n txid0] r IH]; intros m w H; [exact I| |].
  - cbn [merges_succeed opens_replayable] in *. split; [destruct c; try exact I; intros _; reflexivity|].
    replace (gcall true c) with true by (destruct c; reflexivity). apply IH. exact H.
  - cbn [merges_succeed opens_replayable] in *. destruct H as [H1 H2].
    replace (merge_good true n w txid0) with true; [apply IH; exact H2|].
    unfold merge_good. destruct H1 as [H1|H1]; rewrite H1; [reflexivity|]. cbn [andb]. rewrite orb_true_r. reflexivity.
Qed.

(** ================= part 7: the state relation after every prefix ================= *)
Lemma tacts_ok_firstn : forall l n w, tacts_ok w l -> tacts_ok w (firstn n l).
Proof.
  induction l as [|[now c|m txid0] r IH]; intros n w H; destruct n as [|n]; try exact I; cbn [firstn tacts_ok] in *.
  - destruct H as (A & B & C). split; [exact A|]. split; [exact B|exact (IH n _ C)].
  - destruct H as (A & C). split; [exact A|exact (IH n _ C)].
Qed.

Lemma Forall_firstn' : forall {A} (P : A -> Prop) l n, Forall P l -> Forall P (firstn n l).
Proof.
  intros A P l. induction l as [|x r IH]; intros n H; destruct n as [|n]; try constructor.
  - inversion H; assumption.
  - inversion H; subst. apply IH. assumption.
Qed.

Lemma guard_firstn : forall l n a wr,
  hist_guard_corrected a wr (calls_of l) = true -> hist_guard_corrected a wr (calls_of (firstn n l)) = true.
Proof.
  induction l as [|[now c|m txid0] r IH]; intros n a wr H; destruct n as [|n]; try reflexivity; cbn [firstn calls_of] in *.
  - rewrite hist_guard_corrected_cons in H |- *. apply andb_true_iff in H as [H1 H2]. rewrite H1. cbn [andb].
    exact (IH n _ _ H2).
  - exact (IH n _ _ H).
Qed.

Lemma clocks_ok_firstn : forall l n m x T w, clocks_ok m x T w l -> clocks_ok m x T w (firstn n l).
Proof.
  induction l as [|[now c|k txid0] r IH]; intros n m x T w H; destruct n as [|n]; try exact I; cbn [firstn clocks_ok] in *.
  - destruct H as [A B]. split; [exact A|exact (IH n _ _ _ _ B)].
  - exact (IH n _ _ _ _ H).
Qed.

Lemma opens_before_merges_firstn : forall l n m, opens_before_merges m l -> opens_before_merges m (firstn n l).
Proof.
  induction l as [|[now c|k txid0] r IH]; intros n m H; destruct n as [|n]; try exact I; cbn [firstn opens_before_merges] in *.
  - destruct H as [A B]. split; [exact A|exact (IH n _ B)].
  - exact (IH n _ H).
Qed.

Lemma merges_listless_firstn : forall l n w sw, merges_listless w sw l -> merges_listless w sw (firstn n l).
Proof.
  induction l as [|[now c|k txid0] r IH]; intros n w sw H; destruct n as [|n]; try exact I; cbn [firstn merges_listless] in *.
  - destruct (step now w c) as [w' res]. exact (IH n _ _ H).
  - destruct H as [A B]. split; [exact A|exact (IH n _ _ B)].
Qed.

Lemma opens_nonempty_firstn : forall l n m g w sw, opens_nonempty m g w sw l -> opens_nonempty m g w sw (firstn n l).
Proof.
  induction l as [|[now c|k txid0] r IH]; intros n m g w sw H; destruct n as [|n]; try exact I; cbn [firstn opens_nonempty] in *.
  - destruct H as [A B]. split; [exact A|]. destruct (step now w c) as [w' res]. exact (IH n _ _ _ _ B).
  - exact (IH n _ _ _ _ H).
Qed.

(** [history_merge_state_refines] of HistoryMerge after EVERY prefix of the history *)
Corollary history_merge_state_refines_prefix : forall l o n,
  tacts_ok (empty_world o) l -> Forall tact_kv_ok l ->
  hist_guard_corrected false [] (calls_of l) = true ->
  clocks_ok false true 0 (empty_world o) l ->
  opens_before_merges false l -> merges_listless (empty_world o) sworld0 l ->
  let '(w, sw) := run_m (empty_world o) sworld0 (firstn n l) in
  kvrel w (sw_state sw) /\ dsrel (w_ix w) (sw_state sw) /\
  list_keys_ok (w_ix w) /\ set_keys_ok (w_ix w) /\ w_closed w = sw_closed sw.
Proof.
  intros l o n Hok Hkv Hg Hclk Hom Hll. apply history_merge_state_refines.
  - apply tacts_ok_firstn. exact Hok.
  - apply Forall_firstn'. exact Hkv.
  - apply guard_firstn. exact Hg.
  - apply clocks_ok_firstn. exact Hclk.
  - apply opens_before_merges_firstn. exact Hom.
  - apply merges_listless_firstn. exact Hll.
Qed.

(** ... and the state relation of Theorem C after every prefix *)
Corollary history_merge_ds_state_refines_prefix : forall l o n,
  tacts_ok (empty_world o) l -> Forall tact_kv_ok l -> Forall no_push l ->
  hist_guard_corrected false [] (calls_of l) = true ->
  clocks_ok false true 0 (empty_world o) l ->
  opens_nonempty false true (empty_world o) sworld0 l ->
  let '(w, sw) := run_m (empty_world o) sworld0 (firstn n l) in
  deq (s_ds (sw_state sw)) (w_ix w) /\
  (exists T s', kvrel w s' /\ kv_same_live T (sw_state sw) s') /\
  list_keys_ok (w_ix w) /\ set_keys_ok (w_ix w) /\ w_closed w = sw_closed sw.
Proof.
  intros l o n Hok Hkv Hnp Hg Hclk Hon. apply history_merge_ds_state_refines.
  - apply tacts_ok_firstn. exact Hok.
  - apply Forall_firstn'. exact Hkv.
  - apply Forall_firstn'. exact Hnp.
  - apply guard_firstn. exact Hg.
  - apply clocks_ok_firstn. exact Hclk.
  - apply opens_nonempty_firstn. exact Hon.
Qed.

(** ================= part 8: the hypotheses are needed ================= *)
From Coq.Strings Require Import Byte.

Ltac solve_merge_ok ids :=
  split; [first [left; vm_compute; reflexivity | right; vm_compute; reflexivity]|];
  match goal with
  | |- forall k, ~ In _ (ids_of (recs ?w)) =>
      let E := fresh "E" in
      assert (E : ids_of (recs w) = ids) by (vm_compute; reflexivity);
      let k := fresh "k" in let Hin := fresh "Hin" in
      intros k Hin; rewrite E in Hin; repeat (destruct Hin as [Hin|Hin]; [lia|]); destruct Hin
  end.

(** (1) NOTHING EMPTY AT AN OPEN THAT FOLLOWS A MERGE (finding F30).
    Three kinds of emptiness, three histories; each satisfies every other
    hypothesis of Theorem C (every Merge succeeds).
    (1a) a set key without member: [hm_f30] of HistoryMerge (SAdd k x; SRem k x). *)
Theorem no_empty_needed :
  ~ (forall l o,
       tacts_ok (empty_world o) l -> Forall tact_kv_ok l -> Forall no_push l ->
       hist_guard_corrected false [] (calls_of l) = true -> clocks_mono 0 l ->
       opens_replayable false true (empty_world o) l ->
       Forall agree (run_m_res (empty_world o) sworld0 l)).
Proof.
  intros H. destruct hm_f30_spec as (H1 & H2 & H3 & H4 & _).
  assert (H5 : opens_replayable false true (empty_world hm_o0) hm_f30).
  { vm_compute. repeat split; try exact I; intros _; reflexivity. }
  specialize (H hm_f30 hm_o0 hm_f30_ok H1 H4 H2 H3 H5).
  rewrite Forall_forall in H.
  assert (Hin : In (COp (OSHasKey [x62] [x6b]), (RBool false, RBool true)) (run_m_res (empty_world hm_o0) sworld0 hm_f30)).
  { vm_compute. in_list. }
  specialize (H _ Hin). discriminate H.
Qed.

(** (1b) a sorted-set bucket without node (ZAdd; ZRem): ZCard answers "not found" after the reopen *)
Definition ds_zempty : list tact :=
  [TCall 0 (CBegin true 1); TCall 0 (COp (OZAdd [x62] [x61] 1 [x76])); TCall 0 CCommit;
   TCall 0 (CBegin true 2); TCall 0 (COp (OZRem [x62] [x61])); TCall 0 CCommit;
   TCall 0 (CBegin true 3); TCall 0 (COp (OPut [x63] [x33] [x76] 0 0)); TCall 0 CCommit] ++
  [TMerge 0 10; TCall 0 (COpen hm_o0); TCall 0 (CBegin false 4); TCall 0 (COp (OZCard [x62]))].

(** (1c) a set bucket without key (SRem on a bucket that does not exist creates it) *)
Definition ds_bempty : list tact :=
  [TCall 0 (CBegin true 1); TCall 0 (COp (OSRem [x62] [x6b] [[x78]])); TCall 0 CCommit;
   TCall 0 (CBegin true 2); TCall 0 (COp (OPut [x63] [x32] [x76] 0 0)); TCall 0 CCommit;
   TCall 0 (CBegin true 3); TCall 0 (COp (OPut [x63] [x33] [x76] 0 0)); TCall 0 CCommit] ++
  [TMerge 0 10; TCall 0 (COpen hm_o0); TCall 0 (CBegin false 4); TCall 0 (COp (OSHasKey [x62] [x6b]))].

Lemma ds_zempty_ok : tacts_ok (empty_world hm_o0) ds_zempty.
Proof. apply tacts_ok_app; [solve_tacts|]. cbn [tacts_ok]. split; [solve_merge_ok [1; 2; 3]|solve_tacts]. Qed.

Lemma ds_bempty_ok : tacts_ok (empty_world hm_o0) ds_bempty.
Proof. apply tacts_ok_app; [solve_tacts|]. cbn [tacts_ok]. split; [solve_merge_ok [1; 2; 3]|solve_tacts]. Qed.

Example no_empty_needed_other_kinds :
  (Forall tact_kv_ok ds_zempty /\ Forall no_push ds_zempty /\
   hist_guard_corrected false [] (calls_of ds_zempty) = true /\ clocks_mono 0 ds_zempty /\
   opens_replayable false true (empty_world hm_o0) ds_zempty /\
   map snd (run_m_res (empty_world hm_o0) sworld0 ds_zempty) =
     [(ROk, ROk); (ROk, ROk); (ROk, ROk); (ROk, ROk); (ROk, ROk); (ROk, ROk); (ROk, ROk); (ROk, ROk); (ROk, ROk);
      (ROk, ROk); (ROk, ROk); (RErr, RInt 0)]) /\
  (Forall tact_kv_ok ds_bempty /\ Forall no_push ds_bempty /\
   hist_guard_corrected false [] (calls_of ds_bempty) = true /\ clocks_mono 0 ds_bempty /\
   opens_replayable false true (empty_world hm_o0) ds_bempty /\
   map snd (run_m_res (empty_world hm_o0) sworld0 ds_bempty) =
     [(ROk, ROk); (ROk, ROk); (ROk, ROk); (ROk, ROk); (ROk, ROk); (ROk, ROk); (ROk, ROk); (ROk, ROk); (ROk, ROk);
      (ROk, ROk); (ROk, ROk); (RErr, RBool false)]).
Proof.
  split.
  - split; [repeat constructor; vm_compute; reflexivity|]. split; [repeat constructor|].
    split; [vm_compute; reflexivity|]. split; [cbn [ds_zempty app clocks_mono]; repeat split; intros E; discriminate E|].
    split; [vm_compute; repeat split; try exact I; intros _; reflexivity|vm_compute; reflexivity].
  - split; [repeat constructor; vm_compute; reflexivity|]. split; [repeat constructor|].
    split; [vm_compute; reflexivity|]. split; [cbn [ds_bempty app clocks_mono]; repeat split; intros E; discriminate E|].
    split; [vm_compute; repeat split; try exact I; intros _; reflexivity|vm_compute; reflexivity].
Qed.

(** (2) THE MERGES SINCE THE LAST OPEN SUCCEEDED (or were refused).  ZAdd a 1 |
    ZAdd b 2; ZPopMin (pops a): node b is live, nothing is empty.  The
    database is reopened with a segment size smaller than its records; Merge
    drops the first file (nothing live), then the rewrite transaction of the
    second file is rejected and Merge stops.  Replayed without the first
    file, ZPopMin pops b: after the next Open the live node is lost
    (MergeDS.merge_failed_rewrite_reopen_loses_zset_node as a history). *)
Definition ds_o150 : opts := mkOpts 0 FileIO FileIO false 150.
Definition ds_o10 : opts := mkOpts 0 FileIO FileIO false 10.
Definition ds_failed : list tact :=
  [TCall 0 (CBegin true 1); TCall 0 (COp (OZAdd [x62] [x61] 1 (repeat x61 100))); TCall 0 CCommit;
   TCall 0 (CBegin true 2); TCall 0 (COp (OZAdd [x62] [x62] 2 [x76])); TCall 0 CCommit;
   TCall 0 (CBegin true 3); TCall 0 (COp (OZPopMin [x62])); TCall 0 CCommit;
   TCall 0 (COpen ds_o10)] ++
  [TMerge 0 10; TCall 0 (COpen ds_o150); TCall 0 (CBegin false 4); TCall 0 (COp (OZMembers [x62]))].

Lemma ds_failed_ok : tacts_ok (empty_world ds_o150) ds_failed.
Proof. apply tacts_ok_app; [solve_tacts|]. cbn [tacts_ok]. split; [solve_merge_ok [1; 2; 3]|solve_tacts]. Qed.

Lemma ds_failed_spec :
  Forall tact_kv_ok ds_failed /\ Forall no_push ds_failed /\
  hist_guard_corrected false [] (calls_of ds_failed) = true /\ clocks_mono 0 ds_failed /\
  opens_full false (empty_world ds_o150) sworld0 ds_failed /\
  ~ opens_replayable false true (empty_world ds_o150) ds_failed /\
  snd (do_merge 0 (run_w (empty_world ds_o150) (firstn 10 ds_failed)) 10) = false /\
  merge_refused (run_w (empty_world ds_o150) (firstn 10 ds_failed)) = false.
Proof.
  split; [repeat constructor; vm_compute; reflexivity|]. split; [repeat constructor|].
  split; [vm_compute; reflexivity|]. split; [cbn [ds_failed app clocks_mono]; repeat split; intros E; discriminate E|].
  split; [vm_compute; repeat split; try exact I; intros _; reflexivity|].
  split; [|split; vm_compute; reflexivity].
  intros H. vm_compute in H. decompose [and] H.
  match goal with X : true = true -> false = true |- _ => discriminate (X eq_refl) end.
Qed.

Theorem merge_success_needed :
  ~ (forall l o,
       tacts_ok (empty_world o) l -> Forall tact_kv_ok l -> Forall no_push l ->
       hist_guard_corrected false [] (calls_of l) = true -> clocks_mono 0 l ->
       opens_full false (empty_world o) sworld0 l ->
       Forall agree (run_m_res (empty_world o) sworld0 l)).
Proof.
  intros H. destruct ds_failed_spec as (H1 & H2 & H3 & H4 & H5 & _).
  specialize (H ds_failed ds_o150 ds_failed_ok H1 H2 H3 H4 H5).
  rewrite Forall_forall in H.
  assert (Hin : In (COp (OZMembers [x62]), (RNodes [], RNodes [mkZ [x62] 2 [x76]]))
                   (run_m_res (empty_world ds_o150) sworld0 ds_failed)).
  { vm_compute. in_list. }
  specialize (H _ Hin). discriminate H.
Qed.

(** (3) NO RPUSH / LPUSH.  "Every list is empty whenever Merge runs"
    ([merges_listless], enough for Theorem A) is not enough once an Open
    follows a Merge: RPush k x; LPop k leaves the list key k empty; Merge
    drops both records; after the reopen the list bucket is gone (F30 for
    lists). *)
Definition ds_list : list tact :=
  [TCall 0 (CBegin true 1); TCall 0 (COp (ORPush [x62] [x6b] [[x78]])); TCall 0 CCommit;
   TCall 0 (CBegin true 2); TCall 0 (COp (OLPop [x62] [x6b])); TCall 0 CCommit;
   TCall 0 (CBegin true 3); TCall 0 (COp (OPut [x63] [x33] [x76] 0 0)); TCall 0 CCommit] ++
  [TMerge 0 10; TCall 0 (COpen hm_o0); TCall 0 (CBegin false 4); TCall 0 (COp (OLSize [x62] [x6b]))].

Lemma ds_list_ok : tacts_ok (empty_world hm_o0) ds_list.
Proof. apply tacts_ok_app; [solve_tacts|]. cbn [tacts_ok]. split; [solve_merge_ok [1; 2; 3]|solve_tacts]. Qed.

Lemma no_list_items_b : forall ix,
  forallb (fun bl : bytes * lmap => forallb (fun kl : bytes * list bytes => isnil (snd kl)) (snd bl)) (ix_list ix) = true ->
  no_list_items ix.
Proof.
  intros ix H b l k items Hb Hk. rewrite forallb_forall in H.
  destruct (alookup_In _ _ _ Hb) as [b' Hin]. specialize (H _ Hin). cbn [snd] in H. rewrite forallb_forall in H.
  destruct (alookup_In _ _ _ Hk) as [k' Hin']. specialize (H _ Hin'). cbn [snd] in H.
  destruct items; [reflexivity|discriminate H].
Qed.

Definition list_items_nil (ix : indexes) : bool :=
  forallb (fun bl : bytes * lmap => forallb (fun kl : bytes * list bytes => isnil (snd kl)) (snd bl)) (ix_list ix).

Fixpoint merges_listless_b (w : world) (sw : sworld) (l : list tact) : bool :=
  match l with
  | [] => true
  | TCall now c :: r =>
      let '(w', res) := step now w c in merges_listless_b w' (fst (spec_step now (res_ok res) sw c)) r
  | TMerge n txid0 :: r =>
      list_items_nil (s_ds (sw_state sw)) && merges_listless_b (fst (do_merge n w txid0)) sw r
  end.

Lemma merges_listless_b_ok : forall l w sw, merges_listless_b w sw l = true -> merges_listless w sw l.
Proof.
  induction l as [|[now c|n txid0] r IH]; intros w sw H; [exact I| |]; cbn [merges_listless_b merges_listless] in *.
  - destruct (step now w c) as [w' res]. apply IH. exact H.
  - apply andb_true_iff in H. destruct H as [H1 H2]. split; [apply no_list_items_b; exact H1|apply IH; exact H2].
Qed.

Theorem no_push_needed :
  ~ (forall l o,
       tacts_ok (empty_world o) l -> Forall tact_kv_ok l ->
       hist_guard_corrected false [] (calls_of l) = true -> clocks_mono 0 l ->
       merges_listless (empty_world o) sworld0 l ->
       opens_nonempty false true (empty_world o) sworld0 l ->
       Forall agree (run_m_res (empty_world o) sworld0 l)).
Proof.
  intros H.
  assert (H1 : Forall tact_kv_ok ds_list) by (repeat constructor; vm_compute; reflexivity).
  assert (H2 : hist_guard_corrected false [] (calls_of ds_list) = true) by (vm_compute; reflexivity).
  assert (H3 : clocks_mono 0 ds_list) by (cbn [ds_list app clocks_mono]; repeat split; intros E; discriminate E).
  assert (H4 : merges_listless (empty_world hm_o0) sworld0 ds_list).
  { apply merges_listless_b_ok. vm_compute. reflexivity. }
  assert (H5 : opens_nonempty false true (empty_world hm_o0) sworld0 ds_list).
  { vm_compute. repeat split; try exact I. }
  specialize (H ds_list hm_o0 ds_list_ok H1 H2 H3 H4 H5).
  rewrite Forall_forall in H.
  assert (Hin : In (COp (OLSize [x62] [x6b]), (RErr, RInt 0)) (run_m_res (empty_world hm_o0) sworld0 ds_list)).
  { vm_compute. in_list. }
  specialize (H _ Hin). discriminate H.
Qed.

(** (4) THE CLOCKS and (5) THE GUARD: the counterexamples of HistoryMerge have
    no Open after a Merge, hence satisfy the new side condition *)
Theorem clock_hypothesis_needed_ds :
  ~ (forall l o,
       tacts_ok (empty_world o) l -> Forall tact_kv_ok l -> Forall no_push l ->
       hist_guard_corrected false [] (calls_of l) = true ->
       opens_nonempty false true (empty_world o) sworld0 l ->
       Forall agree (run_m_res (empty_world o) sworld0 l)).
Proof.
  intros H. destruct hm_clock1_spec as (H1 & H2 & H3 & H4 & _).
  specialize (H hm_clock1 hm_o1 hm_clock1_ok H1 H4 H2 (opens_before_merges_nonempty _ _ _ _ _ H3)).
  rewrite Forall_forall in H.
  assert (Hin : In (COp (OGet hm_b [x31]), (RNil, REntry [x31] [x76])) (run_m_res (empty_world hm_o1) sworld0 hm_clock1)).
  { vm_compute. in_list. }
  specialize (H _ Hin). discriminate H.
Qed.

Theorem guard_needed_ds :
  ~ (forall l o,
       tacts_ok (empty_world o) l -> Forall tact_kv_ok l -> Forall no_push l -> clocks_mono 0 l ->
       opens_nonempty false true (empty_world o) sworld0 l ->
       Forall agree (run_m_res (empty_world o) sworld0 l)).
Proof.
  intros H. destruct hm_guard_spec as (H1 & H2 & _ & H3 & H4 & H5 & _).
  specialize (H hm_guard hm_o0 H1 H2 H5 H3 (opens_before_merges_nonempty _ _ _ _ _ H4)).
  rewrite Forall_forall in H.
  assert (Hin : In (COp (OGet hm_b [x6b]), (RErr, REntry [x6b] [x31])) (run_m_res (empty_world hm_o0) sworld0 hm_guard)).
  { vm_compute. in_list. }
  specialize (H _ Hin). discriminate H.
Qed.

(** ================= part 9 (R2): specification states up to EMPTY structures ================= *)
(** Without the hypothesis "nothing is empty at the Open": the rebuilt indexes
    are the specification's structures minus some empty ones.
    [mle m' m]: the set bucket [m'] is [m] without some of its empty keys (and up to order). *)
Definition mle (m' m : smap) : Prop :=
  smap_wf m' /\ smap_wf m /\ (forall k x, s_ismember m' k x = s_ismember m k x) /\
  (forall k, alookup m' k <> None -> alookup m k <> None).

Definition omle (o' o : option smap) : Prop :=
  match o', o with
  | Some m', Some m => mle m' m
  | None, Some m => mle [] m          (* a bucket all of whose keys are empty may be missing *)
  | None, None => True
  | Some _, None => False
  end.

Definition sle (S' S : list (bytes * smap)) : Prop := forall b, omle (alookup S' b) (alookup S b).

(** [i'] (engine side) is [i] (specification side) without some empty set
    keys / set buckets / sorted-set buckets *)
Definition dle (i' i : indexes) : Prop :=
  ix_list i' = ix_list i /\ sle (ix_set i') (ix_set i) /\ zle (ix_zset i') (ix_zset i).

Definition sleqv (s' s : sstate) : Prop := s_kv s' = s_kv s /\ dle (s_ds s') (s_ds s).

Lemma smap_wf_nil : smap_wf [].
Proof. intros k l H. discriminate H. Qed.

Lemma mle_refl : forall m, smap_wf m -> mle m m.
Proof. intros m H. split; [exact H|]. split; [exact H|]. split; [reflexivity|intros k Hk; exact Hk]. Qed.

Lemma mle_trans : forall a b c, mle a b -> mle b c -> mle a c.
Proof.
  intros a b c (A1 & A2 & A3 & A4) (B1 & B2 & B3 & B4). split; [exact A1|]. split; [exact B2|]. split.
  - intros k x. rewrite A3. apply B3.
  - intros k Hk. exact (B4 k (A4 k Hk)).
Qed.

Lemma mle_nil_l : forall m m', mle m' m -> mle [] m' -> mle [] m.
Proof. intros m m' H1 H2. exact (mle_trans _ _ _ H2 H1). Qed.

Lemma sle_trans : forall A B C, sle A B -> sle B C -> sle A C.
Proof.
  intros A B C H1 H2 b. specialize (H1 b). specialize (H2 b). unfold omle in *.
  destruct (alookup A b) as [a|]; destruct (alookup B b) as [m|]; destruct (alookup C b) as [c|];
    try contradiction; try exact I.
  - exact (mle_trans _ _ _ H1 H2).
  - exact (mle_trans _ _ _ H1 H2).
  - exact H2.
Qed.

Lemma zle_trans : forall A B C, zle A B -> zle B C -> zle A C.
Proof.
  intros A B C H1 H2 b. specialize (H1 b). specialize (H2 b).
  destruct (alookup A b) as [a|].
  - rewrite H1 in H2. exact H2.
  - destruct H1 as [H1|H1]; rewrite H1 in H2; [exact H2|right; exact H2].
Qed.

Lemma dle_trans : forall a b c, dle a b -> dle b c -> dle a c.
Proof.
  intros a b c (A & B & C) (D & E & F). split; [rewrite A; exact D|].
  split; [exact (sle_trans _ _ _ B E)|exact (zle_trans _ _ _ C F)].
Qed.

(** memberships, well-formedness and "keys inside" give [sle] *)
Lemma sle_of_members : forall S' S, set_wf S' -> set_wf S ->
  (forall b k x, ismem S' b k x = ismem S b k x) -> skeys_le S' S -> sle S' S.
Proof.
  intros S' S W' W Heq Hle b. unfold omle.
  destruct (alookup S' b) as [m'|] eqn:E'; destruct (alookup S b) as [m|] eqn:E.
  - split; [exact (W' b m' E')|]. split; [exact (W b m E)|]. split.
    + intros k x. pose proof (Heq b k x) as H. unfold ismem in H. rewrite E', E in H. exact H.
    + destruct (Hle b m' E') as (m0 & E0 & Hk). rewrite E in E0. injection E0 as E0. subst m0. exact Hk.
  - destruct (Hle b m' E') as (m0 & E0 & _). rewrite E in E0. discriminate E0.
  - split; [exact smap_wf_nil|]. split; [exact (W b m E)|]. split.
    + intros k x. pose proof (Heq b k x) as H. unfold ismem in H. rewrite E', E in H. exact H.
    + intros k Hk. exfalso. apply Hk. reflexivity.
  - exact I.
Qed.

(** (sets) a reopen in any world that satisfies the invariants, empties or not *)
Theorem reopen_sets_sle : forall w o, MInv w -> DSInv w -> RI w ->
  sle (ix_set (w_ix (do_open o (w_disk w)))) (ix_set (w_ix w)).
Proof.
  intros w o HM HD HR. apply sle_of_members.
  - exact (di_swf _ (open_dsinv w o HM HD)).
  - exact (di_swf w HD).
  - exact (reopen_set_members w o HM HD).
  - exact (reopen_sets_le w o HM HD HR).
Qed.

Lemma sle_refl : forall S, set_wf S -> sle S S.
Proof.
  intros S H b. unfold omle. destruct (alookup S b) as [m|] eqn:E; [|exact I]. apply mle_refl. exact (H b m E).
Qed.

Lemma mle_of_smeq : forall m1 m2, smeq m1 m2 -> mle m2 m1.
Proof.
  intros m1 m2 H. split; [|split; [|split]].
  - intros k l Hk. specialize (H k). rewrite Hk in H. unfold oleq in H. destruct (alookup m1 k); [|contradiction].
    exact (proj1 (proj2 H)).
  - intros k l Hk. specialize (H k). rewrite Hk in H. unfold oleq in H. destruct (alookup m2 k); [|contradiction].
    exact (proj1 H).
  - intros k x. symmetry. apply smeq_ismember. exact H.
  - intros k Hk. specialize (H k). unfold oleq in H. destruct (alookup m2 k); [|contradiction Hk; reflexivity].
    destruct (alookup m1 k); [discriminate|contradiction].
Qed.

(** the relation of part 1 (order only) is a special case *)
Lemma dle_of_deq : forall i1 i2, deq i1 i2 -> dle i2 i1.
Proof.
  intros i1 i2 (A & B & C). split; [symmetry; exact A|]. split.
  - intros b. specialize (B b). unfold osmeq in B. unfold omle.
    destruct (alookup (ix_set i1) b) as [m1|]; destruct (alookup (ix_set i2) b) as [m2|]; try contradiction; [|exact I].
    apply mle_of_smeq. exact B.
  - intros b. rewrite <- (C b). destruct (alookup (ix_zset i1) b); [reflexivity|left; reflexivity].
Qed.

(** consequences of [mle] for one key *)
Lemma all_false_nil : forall l : list bytes, (forall x, bmem x l = false) -> l = [].
Proof.
  intros [|x r] H; [reflexivity|]. specialize (H x). cbn [bmem] in H. rewrite SetFacts.bytes_eqb_refl in H. discriminate H.
Qed.

Lemma mle_key : forall m' m k, mle m' m ->
  match alookup m' k, alookup m k with
  | Some l', Some l => leq l' l
  | None, Some l => l = []
  | None, None => True
  | Some _, None => False
  end.
Proof.
  intros m' m k (W' & W & Hm & Hk).
  destruct (alookup m' k) as [l'|] eqn:E'; destruct (alookup m k) as [l|] eqn:E.
  - split; [exact (W' k l' E')|]. split; [exact (W k l E)|].
    intros x. pose proof (Hm k x) as H. unfold s_ismember in H. rewrite E', E in H. exact H.
  - apply (Hk k); [rewrite E'; discriminate|exact E].
  - apply all_false_nil. intros x. pose proof (Hm k x) as H. unfold s_ismember in H. rewrite E', E in H. symmetry. exact H.
  - exact I.
Qed.

Lemma mle_getdef : forall S' S b, sle S' S -> mle (getdef S' b []) (getdef S b []).
Proof.
  intros S' S b H. specialize (H b). unfold getdef, omle in *.
  destruct (alookup S' b); destruct (alookup S b); try contradiction; try exact H. apply mle_refl. exact smap_wf_nil.
Qed.

Lemma s_ismember_sadd : forall m k x k' y,
  s_ismember (s_sadd m k [x]) k' y = if bytes_eqb k k' then bytes_eqb x y || s_ismember m k y else s_ismember m k' y.
Proof.
  intros m k x k' y. unfold s_sadd. cbn [fold_left]. rewrite s_ismember_aset.
  destruct (bytes_eqb k k'); [|reflexivity]. rewrite bmem_sadd1. unfold s_ismember.
  destruct (alookup m k); reflexivity.
Qed.

Lemma s_ismember_srem : forall m k x k' y,
  s_ismember (fst (s_srem m k [x])) k' y =
  if bytes_eqb k k' then match x with [] => s_ismember m k y | _ => negb (bytes_eqb x y) && s_ismember m k y end
  else s_ismember m k' y.
Proof.
  intros m k x k' y. unfold s_srem. destruct (alookup m k) as [l|] eqn:E.
  - destruct x as [|x0 xr].
    + cbn [fst]. destruct (bytes_eqb k k') eqn:Ek; [|reflexivity]. apply bytes_eqb_eq in Ek. subst k'. reflexivity.
    + cbn [fst fold_left]. rewrite s_ismember_aset. destruct (bytes_eqb k k'); [|reflexivity].
      rewrite bmem_bremove. unfold s_ismember. rewrite E. reflexivity.
  - cbn [fst]. destruct (bytes_eqb k k') eqn:Ek; [|reflexivity]. apply bytes_eqb_eq in Ek. subst k'.
    unfold s_ismember. rewrite E. destruct x; [reflexivity|]. rewrite andb_false_r. reflexivity.
Qed.

Lemma mle_sadd : forall m' m k x, mle m' m -> mle (s_sadd m' k [x]) (s_sadd m k [x]).
Proof.
  intros m' m k x (W' & W & Hm & Hk). split; [apply s_sadd_wf; exact W'|]. split; [apply s_sadd_wf; exact W|]. split.
  - intros k' y. rewrite !s_ismember_sadd, !Hm. reflexivity.
  - intros k' H. unfold s_sadd in *. rewrite alookup_aset in *. destruct (bytes_eqb k k'); [discriminate|exact (Hk k' H)].
Qed.

Lemma srem_keys : forall (m : smap) k x k', alookup (fst (s_srem m k [x])) k' <> None <-> alookup m k' <> None.
Proof.
  intros m k x k'. unfold s_srem. destruct (alookup m k) as [l|] eqn:E; [|reflexivity].
  destruct x as [|x0 xr]; [reflexivity|]. cbn [fst]. rewrite alookup_aset.
  destruct (bytes_eqb k k') eqn:Ek; [|reflexivity]. apply bytes_eqb_eq in Ek. subst k'. rewrite E.
  split; intros _; discriminate.
Qed.

Lemma mle_srem : forall m' m k x, mle m' m -> mle (fst (s_srem m' k [x])) (fst (s_srem m k [x])).
Proof.
  intros m' m k x (W' & W & Hm & Hk). split; [apply s_srem_wf; exact W'|]. split; [apply s_srem_wf; exact W|]. split.
  - intros k' y. rewrite !s_ismember_srem, !Hm. reflexivity.
  - intros k' H. apply srem_keys. apply srem_keys in H. exact (Hk k' H).
Qed.

Lemma mle_fold_sadd : forall items m' m k, mle m' m ->
  mle (fold_left (fun m x => s_sadd m k [x]) items m') (fold_left (fun m x => s_sadd m k [x]) items m).
Proof.
  induction items as [|x r IH]; intros m' m k H; [exact H|]. cbn [fold_left]. apply IH. apply mle_sadd. exact H.
Qed.

Lemma mle_fold_srem : forall items m' m k, mle m' m ->
  mle (fold_left (fun m x => fst (s_srem m k [x])) items m') (fold_left (fun m x => fst (s_srem m k [x])) items m).
Proof.
  induction items as [|x r IH]; intros m' m k H; [exact H|]. cbn [fold_left]. apply IH. apply mle_srem. exact H.
Qed.

(** which calls look at an EMPTY structure of the (specification's) indexes:
    a set bucket without member, a set key without member, a sorted-set bucket
    without node.  SAdd, SRem, SIsMember, SPop and ZAdd never tell. *)
Definition bucket_dead (S : list (bytes * smap)) (b : bytes) : bool :=
  match alookup S b with
  | Some m => forallb (fun kl : bytes * list bytes => match alookup m (fst kl) with Some [] => true | _ => false end) m
  | None => false
  end.

Definition key_empty (S : list (bytes * smap)) (b k : bytes) : bool :=
  match alookup S b with
  | Some m => match alookup m k with Some [] => true | _ => false end
  | None => false
  end.

Definition zbucket_empty (Z : list (bytes * zset)) (b : bytes) : bool :=
  match alookup Z b with Some [] => true | _ => false end.

Definition touches_empty (ix : indexes) (o : op) : bool :=
  let S := ix_set ix in
  let Z := ix_zset ix in
  match o with
  | OSAreMembers b k _ | OSMembers b k | OSHasKey b k => bucket_dead S b || key_empty S b k
  | OSCard b _ => bucket_dead S b
  | OSDiff1 b k1 k2 | OSMove1 b k1 k2 _ | OSUnion1 b k1 k2 => bucket_dead S b || key_empty S b k1 || key_empty S b k2
  | OSDiff2 b1 _ b2 _ => bucket_dead S b1 || bucket_dead S b2
  | OSMove2 b1 k1 b2 k2 _ | OSUnion2 b1 k1 b2 k2 =>
      bucket_dead S b1 || bucket_dead S b2 || key_empty S b1 k1 || key_empty S b2 k2
  | OZMembers b | OZCard b | OZCount b _ _ _ _ _ | OZPopMax b | OZPopMin b | OZPeekMax b | OZPeekMin b
  | OZRangeByScore b _ _ _ _ _ | OZRangeByRank b _ _ | OZRem b _ | OZRemRangeByRank b _ _
  | OZRank b _ | OZRevRank b _ | OZScore b _ | OZGetByKey b _ => zbucket_empty Z b
  | _ => false
  end.

Lemma In_alookup : forall {V} (m : list (bytes * V)) k v, In (k, v) m -> exists v', alookup m k = Some v'.
Proof.
  intros V m k v. induction m as [|[k0 v0] t IH]; intros H; [destruct H|]. cbn [alookup].
  destruct (bytes_eqb k0 k) eqn:E; [exists v0; reflexivity|].
  destruct H as [H|H]; [injection H as H1 H2; subst k0; rewrite SetFacts.bytes_eqb_refl in E; discriminate E|exact (IH H)].
Qed.

(** a bucket that may be missing on the engine side is dead *)
Lemma mle_nil_dead : forall m, mle [] m ->
  forallb (fun kl : bytes * list bytes => match alookup m (fst kl) with Some [] => true | _ => false end) m = true.
Proof.
  intros m H. apply forallb_forall. intros [k l0] Hin. cbn [fst].
  destruct (In_alookup m k l0 Hin) as [l Hl]. rewrite Hl.
  pose proof (mle_key [] m k H) as Hk. cbn [alookup] in Hk. rewrite Hl in Hk. subst l. reflexivity.
Qed.

Lemma sle_bucket : forall S' S b, sle S' S -> bucket_dead S b = false ->
  match alookup S' b, alookup S b with
  | Some m', Some m => mle m' m
  | None, None => True
  | _, _ => False
  end.
Proof.
  intros S' S b H Hd. specialize (H b). unfold omle in H. unfold bucket_dead in Hd.
  destruct (alookup S' b) as [m'|]; destruct (alookup S b) as [m|]; try exact H.
  rewrite (mle_nil_dead m H) in Hd. discriminate Hd.
Qed.

Lemma mle_key_strict : forall m' m k, mle m' m ->
  match alookup m k with Some [] => true | _ => false end = false -> oleq (alookup m' k) (alookup m k).
Proof.
  intros m' m k H Hk. pose proof (mle_key m' m k H) as Hkk. unfold oleq.
  destruct (alookup m' k) as [l'|]; destruct (alookup m k) as [l|]; try exact Hkk.
  subst l. discriminate Hk.
Qed.

(** the read-only set functions, from the relation at the keys they look at *)
Lemma oleq_aremembers : forall s1 s2 k items, oleq (alookup s1 k) (alookup s2 k) -> s_aremembers s1 k items = s_aremembers s2 k items.
Proof.
  intros s1 s2 k items H. unfold s_aremembers, oleq in *.
  destruct (alookup s1 k) as [l1|]; destruct (alookup s2 k) as [l2|]; try contradiction; [|reflexivity].
  induction items as [|x r IH]; [reflexivity|]. cbn [forallb]. rewrite IH, (proj2 (proj2 H) x). reflexivity.
Qed.

Lemma oleq_members : forall s1 s2 k, oleq (alookup s1 k) (alookup s2 k) -> s_members s1 k = s_members s2 k.
Proof.
  intros s1 s2 k H. unfold s_members, oleq in *.
  destruct (alookup s1 k); destruct (alookup s2 k); try contradiction; [|reflexivity].
  rewrite (leq_bsort _ _ H). reflexivity.
Qed.

Lemma oleq_haskey : forall s1 s2 k, oleq (alookup s1 k) (alookup s2 k) -> s_haskey s1 k = s_haskey s2 k.
Proof.
  intros s1 s2 k H. unfold s_haskey, oleq in *.
  destruct (alookup s1 k); destruct (alookup s2 k); try contradiction; reflexivity.
Qed.

Lemma oleq_getdef : forall (s1 s2 : smap) k, oleq (alookup s1 k) (alookup s2 k) -> leq (getdef s1 k []) (getdef s2 k []).
Proof.
  intros s1 s2 k H. unfold getdef, oleq in *.
  destruct (alookup s1 k); destruct (alookup s2 k); try contradiction; [exact H|exact leq_nil].
Qed.

Lemma mle_card : forall m' m k, mle m' m -> s_card m' k = s_card m k.
Proof.
  intros m' m k H. pose proof (mle_key m' m k H) as Hk. unfold s_card.
  destruct (alookup m' k) as [l'|]; destruct (alookup m k) as [l|]; try contradiction; try reflexivity.
  - unfold zlen. rewrite (leq_length _ _ Hk). reflexivity.
  - subst l. reflexivity.
Qed.

Lemma mle_getdef_key : forall m' m k, mle m' m -> leq (getdef m' k []) (getdef m k []).
Proof.
  intros m' m k H. pose proof (mle_key m' m k H) as Hk. unfold getdef.
  destruct (alookup m' k) as [l'|]; destruct (alookup m k) as [l|]; try contradiction; try exact Hk; try exact leq_nil.
  subst l. exact leq_nil.
Qed.

Lemma oleq_diff : forall s1 s2 k1 k2, oleq (alookup s1 k1) (alookup s2 k1) -> oleq (alookup s1 k2) (alookup s2 k2) ->
  s_diff s1 k1 k2 = s_diff s2 k1 k2.
Proof.
  intros s1 s2 k1 k2 H1 H2. unfold s_diff, oleq in *.
  destruct (alookup s1 k1); destruct (alookup s2 k1); try contradiction; [|reflexivity].
  destruct (alookup s1 k2); destruct (alookup s2 k2); try contradiction; [|reflexivity].
  rewrite (leq_bsort _ _ (leq_sdiff _ _ _ _ H1 H2)). reflexivity.
Qed.

Lemma oleq_union : forall s1 s2 k1 k2, oleq (alookup s1 k1) (alookup s2 k1) -> oleq (alookup s1 k2) (alookup s2 k2) ->
  s_union s1 k1 k2 = s_union s2 k1 k2.
Proof.
  intros s1 s2 k1 k2 H1 H2. unfold s_union, oleq in *.
  destruct (alookup s1 k1); destruct (alookup s2 k1); try contradiction; [|reflexivity].
  destruct (alookup s1 k2); destruct (alookup s2 k2); try contradiction; [|reflexivity].
  rewrite (leq_bsort _ _ (leq_sunion _ _ _ _ H1 H2)). reflexivity.
Qed.

Lemma zle_bucket : forall Z' Z b, zle Z' Z -> zbucket_empty Z b = false -> alookup Z' b = alookup Z b.
Proof.
  intros Z' Z b H He. specialize (H b). unfold zbucket_empty in He.
  destruct (alookup Z' b) as [z|]; [symmetry; exact H|].
  destruct H as [H|H]; rewrite H in *; [reflexivity|discriminate He].
Qed.

Ltac bucket_cases HS b Hd :=
  let Hb := fresh "Hb" in
  pose proof (sle_bucket _ _ b HS Hd) as Hb;
  match type of Hb with
  | match alookup ?S1 b with _ => _ end =>
      destruct (alookup S1 b) as [?m'|] eqn:?E';
      match type of Hb with
      | match alookup ?S2 b with _ => _ end => destruct (alookup S2 b) as [?m|] eqn:?E; try contradiction
      end
  end.

(** a read-only structure call that does not look at an empty structure cannot tell *)
Lemma ds_read_dle : forall i' i o, dle i' i -> touches_empty i o = false -> ds_read i' o = ds_read i o.
Proof.
  intros i' i o (HL & HS & HZ) Ht.
  destruct o; try reflexivity; cbn [ds_read]; rewrite ?HL; try reflexivity;
    cbn [touches_empty] in Ht; try (rewrite (zle_bucket _ _ b HZ Ht); reflexivity).
  - (* SAreMembers *)
    apply orb_false_iff in Ht. destruct Ht as [Hd Hk]. unfold key_empty in Hk. bucket_cases HS b Hd; [|reflexivity].
    rewrite (oleq_aremembers _ _ k items (mle_key_strict _ _ k Hb Hk)). reflexivity.
  - (* SIsMember *)
    pose proof (HS b) as Hb. unfold omle in Hb.
    destruct (alookup (ix_set i') b) as [m'|]; destruct (alookup (ix_set i) b) as [m|]; try contradiction; try reflexivity.
    + rewrite (proj1 (proj2 (proj2 Hb)) k x). reflexivity.
    + rewrite <- (proj1 (proj2 (proj2 Hb)) k x). reflexivity.
  - (* SMembers *)
    apply orb_false_iff in Ht. destruct Ht as [Hd Hk]. unfold key_empty in Hk. bucket_cases HS b Hd; [|reflexivity].
    rewrite (oleq_members _ _ k (mle_key_strict _ _ k Hb Hk)). reflexivity.
  - (* SHasKey *)
    apply orb_false_iff in Ht. destruct Ht as [Hd Hk]. unfold key_empty in Hk. bucket_cases HS b Hd; [|reflexivity].
    rewrite (oleq_haskey _ _ k (mle_key_strict _ _ k Hb Hk)). reflexivity.
  - (* SCard *)
    bucket_cases HS b Ht; [|reflexivity]. rewrite (mle_card _ _ k Hb). reflexivity.
  - (* SDiff1 *)
    apply orb_false_iff in Ht. destruct Ht as [Ht Hk2]. apply orb_false_iff in Ht. destruct Ht as [Hd Hk1].
    unfold key_empty in Hk1, Hk2. bucket_cases HS b Hd; [|reflexivity].
    rewrite (oleq_diff _ _ k1 k2 (mle_key_strict _ _ k1 Hb Hk1) (mle_key_strict _ _ k2 Hb Hk2)). reflexivity.
  - (* SDiff2 *)
    apply orb_false_iff in Ht. destruct Ht as [Hd1 Hd2].
    bucket_cases HS b1 Hd1; [|reflexivity]. bucket_cases HS b2 Hd2; [|reflexivity].
    rewrite (leq_bsort _ _ (leq_sdiff _ _ _ _ (mle_getdef_key _ _ k1 Hb) (mle_getdef_key _ _ k2 Hb0))). reflexivity.
  - (* SUnion1 *)
    apply orb_false_iff in Ht. destruct Ht as [Ht Hk2]. apply orb_false_iff in Ht. destruct Ht as [Hd Hk1].
    unfold key_empty in Hk1, Hk2. bucket_cases HS b Hd; [|reflexivity].
    rewrite (oleq_union _ _ k1 k2 (mle_key_strict _ _ k1 Hb Hk1) (mle_key_strict _ _ k2 Hb Hk2)). reflexivity.
  - (* SUnion2 *)
    apply orb_false_iff in Ht. destruct Ht as [Ht Hk2]. apply orb_false_iff in Ht. destruct Ht as [Ht Hk1].
    apply orb_false_iff in Ht. destruct Ht as [Hd1 Hd2]. unfold key_empty in Hk1, Hk2.
    bucket_cases HS b1 Hd1; [|reflexivity]. bucket_cases HS b2 Hd2; [|reflexivity].
    pose proof (mle_key_strict _ _ k1 Hb Hk1) as H1. pose proof (mle_key_strict _ _ k2 Hb0 Hk2) as H2.
    unfold oleq in H1, H2.
    destruct (alookup m' k1); destruct (alookup m k1); try contradiction; [|reflexivity].
    destruct (alookup m'0 k2); destruct (alookup m0 k2); try contradiction; [|reflexivity].
    rewrite (leq_bsort _ _ (leq_sunion _ _ _ _ H1 H2)). reflexivity.
Qed.

(** the mutating calls *)
Lemma sleqv_upd_list : forall s' s b f, sleqv s' s -> sleqv (upd_list s' b f) (upd_list s b f).
Proof.
  intros s' s b f (Hk & HL & HS & HZ). unfold upd_list, sleqv, dle, set_ds_list. cbn [s_kv s_ds ix_list ix_set ix_zset].
  rewrite HL. repeat split; assumption.
Qed.

Lemma sleqv_upd_zset : forall s' s b f, sleqv s' s -> sleqv (upd_zset s' b f) (upd_zset s b f).
Proof.
  intros s' s b f (Hk & HL & HS & HZ). unfold upd_zset, sleqv, dle, set_ds_zset. cbn [s_kv s_ds ix_list ix_set ix_zset].
  split; [exact Hk|]. split; [exact HL|]. split; [exact HS|].
  rewrite (zle_getdef _ _ b HZ). intros b'. rewrite !alookup_aset.
  destruct (bytes_eqb b b'); [reflexivity|exact (HZ b')].
Qed.

(** the engine side has no such bucket, the specification's is empty and stays empty *)
Lemma sleqv_zset_right : forall s' s b f, sleqv s' s ->
  alookup (ix_zset (s_ds s')) b = None -> alookup (ix_zset (s_ds s)) b = Some [] -> f [] = [] ->
  sleqv s' (upd_zset s b f).
Proof.
  intros s' s b f (Hk & HL & HS & HZ) E' E Hf. unfold upd_zset, sleqv, dle, set_ds_zset. cbn [s_kv s_ds ix_list ix_set ix_zset].
  split; [exact Hk|]. split; [exact HL|]. split; [exact HS|].
  intros b'. rewrite alookup_aset. destruct (bytes_eqb b b') eqn:Eb; [|exact (HZ b')].
  apply bytes_eqb_eq in Eb. subst b'. rewrite E'. right. unfold getdef. rewrite E, Hf. reflexivity.
Qed.

Lemma sleqv_upd_set : forall s' s b f' f, sleqv s' s ->
  (forall m' m, mle m' m -> mle (f' m') (f m)) -> sleqv (upd_set s' b f') (upd_set s b f).
Proof.
  intros s' s b f' f (Hk & HL & HS & HZ) Hf. unfold upd_set, sleqv, dle, set_ds_set. cbn [s_kv s_ds ix_list ix_set ix_zset].
  split; [exact Hk|]. split; [exact HL|]. split; [|exact HZ].
  intros b'. rewrite !alookup_aset. destruct (bytes_eqb b b'); [|exact (HS b')].
  cbn [omle]. apply Hf. exact (mle_getdef _ _ b HS).
Qed.

Lemma z_rankrange_nil : forall st en, snd (z_rankrange [] st en) = [].
Proof.
  intros st en. unfold z_rankrange. destruct (z_sanitize (zlen (@nil znode)) st en) as [s e].
  destruct (e <? s)%Z; cbn [snd]; rewrite firstn_nil, !skipn_nil; reflexivity.
Qed.

Lemma mle_move : forall m' m k1 k2 x, mle m' m ->
  oleq (alookup m' k1) (alookup m k1) -> oleq (alookup m' k2) (alookup m k2) ->
  mle (fst (s_move m' k1 k2 x)) (fst (s_move m k1 k2 x)) /\ snd (s_move m' k1 k2 x) = snd (s_move m k1 k2 x).
Proof.
  intros m' m k1 k2 x H H1 H2. unfold s_move, oleq in *.
  destruct (alookup m' k1) as [a1|]; destruct (alookup m k1) as [a2|]; try contradiction; [|split; [exact H|reflexivity]].
  destruct (alookup m' k2) as [c1|]; destruct (alookup m k2) as [c2|]; try contradiction; [|split; [exact H|reflexivity]].
  cbn [fst snd]. split; [|reflexivity]. rewrite (proj2 (proj2 H2) x). destruct (bmem x c2).
  - apply mle_srem. exact H.
  - apply mle_srem. apply mle_sadd. exact H.
Qed.

(** SMove looks at two keys: when one of them is empty in the specification
    and missing in the engine, the specification moves and the engine refuses
    — the states then differ by more than empty structures *)
Definition smove_clear (ix : indexes) (o : op) : Prop :=
  match o with
  | OSMove1 _ _ _ _ | OSMove2 _ _ _ _ _ => touches_empty ix o = false
  | _ => True
  end.

Ltac same_case_le H :=
  repeat match goal with
         | |- context [match ?x with _ => _ end] => destruct x
         end;
  (split; [first [exact H | apply sleqv_upd_list; exact H | apply sleqv_upd_zset; exact H]|intros _; reflexivity]).

Lemma spec_write_dle : forall s' s o, sleqv s' s -> smove_clear (s_ds s) o ->
  sleqv (fst (spec_write s' o)) (fst (spec_write s o)) /\
  (touches_empty (s_ds s) o = false -> snd (spec_write s' o) = snd (spec_write s o)).
Proof.
  intros s' s o H Hsm. pose proof H as (Hk & HL & HS & HZ).
  destruct o; try (cbn [spec_write fst snd]; split; [exact H|intros _; reflexivity]).
  - (* Put *)
    unfold spec_write. destruct (nonempty k); cbn [fst snd]; [|split; [exact H|intros _; reflexivity]].
    split; [|intros _; reflexivity]. split; [cbn [s_kv]; rewrite Hk; reflexivity|exact (conj HL (conj HS HZ))].
  - unfold spec_write. destruct (nonempty k); cbn [fst snd]; [|split; [exact H|intros _; reflexivity]].
    split; [|intros _; reflexivity]. split; [cbn [s_kv]; rewrite Hk; reflexivity|exact (conj HL (conj HS HZ))].
  - unfold spec_write. same_case_le H.
  - unfold spec_write. same_case_le H.
  - unfold spec_write. rewrite HL. same_case_le H.
  - unfold spec_write. rewrite HL. same_case_le H.
  - unfold spec_write. rewrite HL. same_case_le H.
  - unfold spec_write. rewrite HL. same_case_le H.
  - unfold spec_write. rewrite HL. same_case_le H.
  - (* SAdd *)
    unfold spec_write. destruct (isnil items); [split; [exact H|intros _; reflexivity]|].
    destruct (nonempty k); [|split; [exact H|intros _; reflexivity]]. cbn [fst snd]. split; [|intros _; reflexivity].
    apply sleqv_upd_set; [exact H|]. intros m1 m2 Hm. apply mle_fold_sadd. exact Hm.
  - (* SRem *)
    unfold spec_write. destruct (isnil items); [split; [exact H|intros _; reflexivity]|].
    destruct (nonempty k); [|split; [exact H|intros _; reflexivity]]. cbn [fst snd]. split; [|intros _; reflexivity].
    apply sleqv_upd_set; [exact H|]. intros m1 m2 Hm. apply mle_fold_srem. exact Hm.
  - (* SPop *)
    unfold spec_write. pose proof (HS b) as Hb. unfold omle in Hb.
    destruct (alookup (ix_set (s_ds s')) b) as [m'|]; destruct (alookup (ix_set (s_ds s)) b) as [m|];
      try contradiction; try (split; [exact H|intros _; reflexivity]).
    + pose proof (mle_key m' m k Hb) as Hkk.
      destruct (alookup m' k) as [l'|]; destruct (alookup m k) as [l|]; try contradiction;
        try (split; [exact H|intros _; reflexivity]).
      * destruct l' as [|a1 r1]; destruct l as [|a2 r2].
        -- split; [exact H|intros _; reflexivity].
        -- apply leq_nil_l in Hkk. discriminate Hkk.
        -- apply leq_nil_r in Hkk. discriminate Hkk.
        -- destruct choice as [c|].
           ++ rewrite (proj2 (proj2 Hkk) c). destruct (bmem c (a2 :: r2)); [|split; [exact H|intros _; reflexivity]].
              destruct (nonempty k); [|split; [exact H|intros _; reflexivity]]. cbn [fst snd]. split; [|intros _; reflexivity].
              apply sleqv_upd_set; [exact H|]. intros x1 x2 Hx. apply mle_srem. exact Hx.
           ++ destruct (nonempty k); (split; [exact H|intros _; reflexivity]).
      * subst l. split; [exact H|intros _; reflexivity].
    + pose proof (mle_key [] m k Hb) as Hkk. cbn [alookup] in Hkk.
      destruct (alookup m k) as [l|]; [subst l|]; (split; [exact H|intros _; reflexivity]).
  - (* SMove1 *)
    cbn [smove_clear touches_empty] in Hsm.
    apply orb_false_iff in Hsm. destruct Hsm as [Hsm Hk2]. apply orb_false_iff in Hsm. destruct Hsm as [Hd Hk1].
    unfold key_empty in Hk1, Hk2. unfold spec_write.
    bucket_cases HS b Hd; [|split; [exact H|intros _; reflexivity]].
    destruct (mle_move m' m k1 k2 x Hb (mle_key_strict _ _ k1 Hb Hk1) (mle_key_strict _ _ k2 Hb Hk2)) as [A B].
    destruct (s_move m' k1 k2 x) as [n' r']. destruct (s_move m k1 k2 x) as [n r]. cbn [fst snd] in A, B. subst r'.
    destruct r; [|split; [exact H|intros _; reflexivity]]. cbn [fst snd]. split; [|intros _; reflexivity].
    apply sleqv_upd_set; [exact H|]. intros _ _ _. exact A.
  - (* SMove2 *)
    cbn [smove_clear touches_empty] in Hsm.
    apply orb_false_iff in Hsm. destruct Hsm as [Hsm Hk2]. apply orb_false_iff in Hsm. destruct Hsm as [Hsm Hk1].
    apply orb_false_iff in Hsm. destruct Hsm as [Hd1 Hd2]. unfold key_empty in Hk1, Hk2. unfold spec_write.
    bucket_cases HS b1 Hd1; [|split; [exact H|intros _; reflexivity]].
    bucket_cases HS b2 Hd2; [|split; [exact H|intros _; reflexivity]].
    pose proof (mle_key_strict _ _ k1 Hb Hk1) as O1. pose proof (mle_key_strict _ _ k2 Hb0 Hk2) as O2.
    rewrite (oleq_haskey _ _ k1 O1), (oleq_haskey _ _ k2 O2).
    destruct (s_haskey m k1 && s_haskey m0 k2); [|split; [exact H|intros _; reflexivity]].
    cbn [fst snd]. split; [|intros _; reflexivity].
    rewrite (proj2 (proj2 (oleq_getdef _ _ k2 O2)) x).
    apply sleqv_upd_set.
    + destruct (bmem x (getdef m0 k2 [])); [exact H|].
      apply sleqv_upd_set; [exact H|]. intros x1 x2 Hx. apply mle_sadd. exact Hx.
    + intros x1 x2 Hx. apply mle_srem. exact Hx.
  - (* ZAdd *)
    unfold spec_write. same_case_le H.
  - (* ZPopMax *)
    unfold spec_write. cbn [touches_empty]. unfold zbucket_empty. pose proof (HZ b) as Hb.
    destruct (alookup (ix_zset (s_ds s')) b) as [z'|] eqn:E'.
    + rewrite Hb. split; [apply sleqv_upd_zset; exact H|intros _; reflexivity].
    + destruct Hb as [Hb|Hb]; rewrite Hb; cbn [fst snd]; [split; [exact H|intros _; reflexivity]|].
      split; [exact (sleqv_zset_right s' s b z_popmax H E' Hb eq_refl)|intros X; discriminate X].
  - (* ZPopMin *)
    unfold spec_write. cbn [touches_empty]. unfold zbucket_empty. pose proof (HZ b) as Hb.
    destruct (alookup (ix_zset (s_ds s')) b) as [z'|] eqn:E'.
    + rewrite Hb. split; [apply sleqv_upd_zset; exact H|intros _; reflexivity].
    + destruct Hb as [Hb|Hb]; rewrite Hb; cbn [fst snd]; [split; [exact H|intros _; reflexivity]|].
      split; [exact (sleqv_zset_right s' s b z_popmin H E' Hb eq_refl)|intros X; discriminate X].
  - (* ZRem *)
    unfold spec_write. cbn [touches_empty]. unfold zbucket_empty. pose proof (HZ b) as Hb.
    destruct (alookup (ix_zset (s_ds s')) b) as [z'|] eqn:E'.
    + rewrite Hb. destruct (nonempty k); cbn [fst snd]; (split; [first [apply sleqv_upd_zset; exact H|exact H]|intros _; reflexivity]).
    + destruct Hb as [Hb|Hb]; rewrite Hb; cbn [fst snd]; [split; [exact H|intros _; reflexivity]|].
      destruct (nonempty k); cbn [fst snd]; [|split; [exact H|intros _; reflexivity]].
      split; [exact (sleqv_zset_right s' s b (fun z => z_remove z k) H E' Hb eq_refl)|intros X; discriminate X].
  - (* ZRemRangeByRank *)
    unfold spec_write. cbn [touches_empty]. unfold zbucket_empty. pose proof (HZ b) as Hb.
    destruct (alookup (ix_zset (s_ds s')) b) as [z'|] eqn:E'.
    + rewrite Hb. split; [apply sleqv_upd_zset; exact H|intros _; reflexivity].
    + destruct Hb as [Hb|Hb]; rewrite Hb; cbn [fst snd]; [split; [exact H|intros _; reflexivity]|].
      split; [exact (sleqv_zset_right s' s b (fun z => snd (z_rankrange z s0 e)) H E' Hb (z_rankrange_nil s0 e))|intros X; discriminate X].
Qed.

Lemma ds_read_shape : forall i1 i2 o,
  match ds_read i1 o, ds_read i2 o with Some _, Some _ | None, None => True | _, _ => False end.
Proof. intros i1 i2 o. destruct o; cbn [ds_read]; exact I. Qed.

Lemma smove_clear_of : forall ix o, touches_empty ix o = false -> smove_clear ix o.
Proof. intros ix o H. destruct o; try exact I; exact H. Qed.

Lemma spec_op_dle : forall now wr s' s o, sleqv s' s -> (wr = true -> smove_clear (s_ds s) o) ->
  sleqv (fst (spec_op now wr s' o)) (fst (spec_op now wr s o)) /\
  (touches_empty (s_ds s) o = false -> snd (spec_op now wr s' o) = snd (spec_op now wr s o)).
Proof.
  intros now wr s' s o H Hsm. unfold spec_op.
  pose proof (ds_read_shape (s_ds s') (s_ds s) o) as Hsh.
  pose proof (ds_read_dle (s_ds s') (s_ds s) o (proj2 H)) as Hrd.
  destruct (ds_read (s_ds s') o) as [r'|]; destruct (ds_read (s_ds s) o) as [r|]; try contradiction.
  { cbn [fst snd]. split; [exact H|]. intros Ht. specialize (Hrd Ht). injection Hrd as Hrd. exact Hrd. }
  rewrite (spec_kv_read_local now s' s o) by (intros x _; rewrite (proj1 H); reflexivity).
  destruct (spec_kv_read now s o) as [r|]; [split; [exact H|intros _; reflexivity]|].
  destruct wr.
  - destruct (spec_write_dle s' s o H (Hsm eq_refl)) as [A B].
    destruct (spec_write s' o) as [s1' r1]. destruct (spec_write s o) as [s1 r2]. cbn [fst snd] in *.
    split; [exact A|exact B].
  - split.
    + destruct (spec_write s' o) as [s1' r1]. destruct (spec_write s o) as [s1 r2]. cbn [fst]. exact H.
    + intros Ht. destruct (spec_write_dle s' s o H (smove_clear_of _ _ Ht)) as [_ B]. specialize (B Ht).
      destruct (spec_write s' o) as [s1' r1]. destruct (spec_write s o) as [s1 r2]. cbn [fst snd] in *. subst r2. reflexivity.
Qed.

(** the SHADOW specification world [sh] is the specification world [sw]
    without some empty structures *)
Definition SLE (sw sh : sworld) : Prop :=
  sw_closed sw = sw_closed sh /\ sleqv (sw_state sh) (sw_state sw) /\
  match sw_tx sw, sw_tx sh with
  | SNone, SNone => True
  | SDone, SDone => True
  | SActive wa sa, SActive wb sb => wa = wb /\ sleqv sb sa
  | _, _ => False
  end.

Definition smove_head (sw : sworld) (c : call) : Prop :=
  match c, sw_tx sw with
  | COp o, SActive true work => smove_clear (s_ds work) o
  | _, _ => True
  end.

(** AGREEMENT UP TO F30: the engine's result is the specification's, or the
    call looks at a structure that is empty in the specification's (working)
    state and the engine answers as the specification does on a state without
    some of the empty structures *)
Definition upto_f30 (now : N) (sw : sworld) (c : call) (res sres : res) : Prop :=
  res = sres \/
  match c, sw_tx sw with
  | COp o, SActive wr work =>
      touches_empty (s_ds work) o = true /\ exists s', sleqv s' work /\ res = snd (spec_op now wr s' o)
  | _, _ => False
  end.

Lemma spec_step_SLE : forall now ok sw sh c, SLE sw sh -> smove_head sw c ->
  SLE (fst (spec_step now ok sw c)) (fst (spec_step now ok sh c)) /\
  upto_f30 now sw c (snd (spec_step now ok sh c)) (snd (spec_step now ok sw c)).
Proof.
  intros now ok a b c H Hsm. pose proof H as (Hc & Hs & Ht).
  destruct c as [wr id|o| | | |o]; cbn [spec_step].
  - rewrite <- Hc. destruct (sw_closed a); [split; [exact H|left; reflexivity]|].
    cbn [fst snd]. split; [|left; reflexivity]. split; [reflexivity|]. split; [exact Hs|]. cbn [sw_tx]. split; [reflexivity|exact Hs].
  - unfold upto_f30, smove_head in *.
    destruct (sw_tx a) as [|wa sa|]; destruct (sw_tx b) as [|wb sb|]; try contradiction; try (split; [exact H|left; reflexivity]).
    destruct Ht as [Hw Hsab]. subst wb.
    assert (Hsm' : wa = true -> smove_clear (s_ds sa) o) by (intros E; subst wa; exact Hsm).
    destruct (spec_op_dle now wa sb sa o Hsab Hsm') as [A B].
    destruct (touches_empty (s_ds sa) o) eqn:Et.
    + split.
      * destruct (spec_op now wa sa o) as [sa' ra]. destruct (spec_op now wa sb o) as [sb' rb]. cbn [fst snd] in *.
        split; [exact Hc|]. split; [exact Hs|]. cbn [sw_tx]. split; [reflexivity|exact A].
      * right. split; [reflexivity|]. exists sb. split; [exact Hsab|].
        destruct (spec_op now wa sa o) as [sa' ra]. destruct (spec_op now wa sb o) as [sb' rb]. reflexivity.
    + specialize (B eq_refl).
      destruct (spec_op now wa sa o) as [sa' ra]. destruct (spec_op now wa sb o) as [sb' rb]. cbn [fst snd] in *. subst rb.
      split; [|left; reflexivity]. split; [exact Hc|]. split; [exact Hs|]. cbn [sw_tx]. split; [reflexivity|exact A].
  - destruct (sw_tx a) as [|wa sa|] eqn:Ea; destruct (sw_tx b) as [|wb sb|] eqn:Eb; try contradiction;
      try (split; [exact H|left; reflexivity]).
    destruct Ht as [Hw Hsab]. subst wb. destruct ok; [|split; [exact H|left; reflexivity]].
    cbn [fst snd]. split; [|left; reflexivity]. split; [exact Hc|]. cbn [sw_state sw_tx]. split; [|exact I].
    destruct wa; [exact Hsab|exact Hs].
  - destruct (sw_tx a) as [|wa sa|] eqn:Ea; destruct (sw_tx b) as [|wb sb|] eqn:Eb; try contradiction;
      try (split; [exact H|left; reflexivity]).
    cbn [fst snd]. split; [|left; reflexivity]. split; [exact Hc|]. split; [exact Hs|exact I].
  - rewrite <- Hc. destruct (sw_closed a); [split; [exact H|left; reflexivity]|].
    cbn [fst snd]. split; [|left; reflexivity]. split; [reflexivity|]. split; [exact Hs|exact I].
  - cbn [fst snd]. split; [|left; reflexivity]. split; [reflexivity|]. split; [exact Hs|exact I].
Qed.

Lemma sleqv_refl_of : forall s, set_wf (ix_set (s_ds s)) -> sleqv s s.
Proof.
  intros s H. split; [reflexivity|]. split; [reflexivity|]. split; [apply sle_refl; exact H|apply zle_refl].
Qed.

Lemma SLE_init : SLE sworld0 sworld0.
Proof.
  split; [reflexivity|]. split; [|exact I]. apply sleqv_refl_of. intros b m E. discriminate E.
Qed.

Lemma dle_of_dsrel : forall ix s, dsrel ix s -> set_wf (ix_set ix) -> dle ix (s_ds s).
Proof.
  intros ix s (A & B & C) H. split; [exact A|]. split.
  - rewrite <- B. apply sle_refl. exact H.
  - rewrite <- C. apply zle_refl.
Qed.

(** ================= part 10 (R2): the run ================= *)
Definition Q2 (m x : bool) (T : N) (a : bool) (wr : list (N * bytes)) (g : bool)
              (w : world) (sw sh : sworld) : Prop :=
  K m x T a wr w sh /\ D a wr w sh /\ SLE sw sh /\ NL w /\ RI w /\ ZInv w /\ (g = true -> ZG w).

Lemma Q2_init : forall o, Q2 false true 0 false [] true (empty_world o) sworld0 sworld0.
Proof.
  intros o. split; [apply K_init|]. split; [apply D_init|]. split; [apply SLE_init|].
  split; [apply NL_empty|]. split; [apply RI_empty|]. split; [apply zinv_empty|]. intros _. apply ZG_empty.
Qed.

Lemma open_Q2 : forall (now : N) x T a wr g w sw sh o,
  Q2 true x T a wr g w sw sh -> open_ok w (COpen o) -> g = true ->
  exists sh',
    Q2 true (xnext true x (COpen o)) T a wr true (do_open o (w_disk w)) (mkSW false (sw_state sw) SNone) sh'.
Proof.
  intros now x T a wr g w sw sh o (HK & HD & HE & HN & HR & HZI & HZG) Ho Hg.
  pose proof HK as (HW & HDS & _).
  pose proof (proj1 (wi_w2 w HW)) as HM.
  destruct (step_K now true x T a wr w sh (COpen o) HK I I Ho I I) as [_ HK'].
  cbn [step spec_step fst snd gnext res_ok] in HK'.
  set (w' := do_open o (w_disk w)) in *.
  pose proof (K_transfer _ _ _ _ _ _ _ (w_ix w') HK' eq_refl) as HK''. cbn [sw_closed sw_state] in HK''.
  exists (mkSW false (mkS (s_kv (sw_state sh)) (w_ix w')) SNone).
  pose proof (open_NL w o HM HN) as HN'. fold w' in HN'.
  destruct HD as (Hds & HLK & HSK & _).
  destruct HE as (Hcl & (Hkv & Hdle) & _).
  assert (Hdo : dle (w_ix w') (w_ix w)).
  { split; [rewrite (nl_ix w HN), (nl_ix w' HN'); reflexivity|]. split.
    - exact (reopen_sets_sle w o HM HDS HR).
    - exact (reopen_zsets_zle w o HM HDS (HZG Hg)). }
  split; [exact HK''|]. split.
  { split; [repeat split|]. split.
    - intros b l k v Hb. rewrite (nl_ix w' HN') in Hb. discriminate Hb.
    - split.
      + intros b s k l Hb Hk.
        destruct (reopen_sets_le w o HM HDS HR b s Hb) as (s0 & Hb0 & Hk0).
        destruct (alookup s0 k) as [l0|] eqn:E0; [exact (HSK b s0 k l0 Hb0 E0)|].
        exfalso. apply (Hk0 k); [rewrite Hk; discriminate|exact E0].
      + apply tx_ds_inactive. intros t E. unfold w' in E.
        replace (w_tx (do_open o (w_disk w))) with TxNone in E by reflexivity. discriminate E. }
  split.
  { split; [reflexivity|]. cbn [sw_state sw_tx]. split; [|exact I].
    split; [cbn [s_kv]; exact Hkv|]. cbn [s_ds].
    apply (dle_trans _ (w_ix w)); [exact Hdo|].
    apply (dle_trans _ (s_ds (sw_state sh))); [exact (dle_of_dsrel _ _ Hds (di_swf w HDS))|exact Hdle]. }
  split; [exact HN'|]. split; [exact (open_RI w o HM)|]. split; [exact (open_zinv w o HM)|].
  intros _. exact (open_ZG w o HM).
Qed.

Definition open_head2 (m g : bool) (c : call) : Prop :=
  match c with COpen _ => m = true -> g = true | _ => True end.

Lemma step_Q2 : forall now m x T a wr g w sw sh c,
  Q2 m x T a wr g w sw sh -> call_ok w c -> call_kv_ok (now, c) -> open_ok w c -> no_push (TCall now c) ->
  guard_head a wr c = true -> clock_head x T w now c -> open_head2 m g c -> smove_head sw c ->
  upto_f30 now sw c (snd (step now w c)) (snd (spec_step now (res_ok (snd (step now w c))) sw c)) /\
  exists sh',
    Q2 m (xnext m x c) T (fst (gnext a wr c)) (snd (gnext a wr c)) (gcall g c)
       (fst (step now w c)) (fst (spec_step now (res_ok (snd (step now w c))) sw c)) sh'.
Proof.
  intros now m x T a wr g w sw sh c HQ Hc Hkv Ho Hnp Hg Hclk Hoh Hsm.
  pose proof HQ as (HK & HD & HE & HN & HR & HZI & HZG).
  pose proof HK as (HW & HDS & _).
  destruct (step_K now m x T a wr w sh c HK Hc Hkv Ho (guard_head_kvguard a wr c Hg) Hclk) as [Hres1 HK'].
  destruct (spec_step_SLE now (res_ok (snd (step now w c))) sw sh c HE Hsm) as [HE' Hres3].
  assert (Hopen : (exists o, c = COpen o /\ m = true) \/ open_before_merge m c).
  { destruct c; try (right; exact I). cbn [open_before_merge]. destruct m; [left; exists o; split; reflexivity|right; reflexivity]. }
  destruct Hopen as [(o & Ec & Em)|Hom].
  - subst c m. cbn [open_head2] in Hoh. pose proof (Hoh eq_refl) as Hg1.
    split; [left; reflexivity|].
    destruct (open_Q2 now x T a wr g w sw sh o HQ Ho Hg1) as [sh' HQ'].
    exists sh'. cbn [step spec_step fst snd gnext gcall]. exact HQ'.
  - destruct (step_D now m x T a wr w sh c HK HD Hc Hkv Ho Hg Hom) as [Hres2 HD'].
    assert (Hres : snd (step now w c) = snd (spec_step now (res_ok (snd (step now w c))) sh c)).
    { destruct (kvish c) eqn:Ek; [exact (Hres1 eq_refl)|]. apply Hres2.
      destruct c as [| o | | | |]; try discriminate Ek. cbn [kvish ds_call] in *.
      unfold is_kv_op in Ek. apply orb_false_iff in Ek. exact (proj1 Ek). }
    split; [rewrite <- Hres in Hres3; exact Hres3|].
    exists (fst (spec_step now (res_ok (snd (step now w c))) sh c)).
    split; [exact HK'|]. split; [exact HD'|]. split; [exact HE'|].
    split; [exact (step_NL now w c HW HN Hnp)|]. split; [exact (step_RI now w c HW HR)|].
    split; [exact (step_zinv now w c HW HZI Hc)|].
    intros Hg'. destruct c as [wr0 id|o| | | |o]; cbn [gcall] in Hg';
      try exact (step_ZG now w _ HW (HZG Hg')).
    cbn [step fst]. exact (open_ZG w o (proj1 (wi_w2 w HW))).
Qed.

Lemma merge_Q2 : forall m x T a wr g w sw sh n txid0,
  Q2 m x T a wr g w sw sh -> merge_ok w txid0 ->
  Q2 true x (N.max T n) a wr (merge_good g n w txid0) (fst (do_merge n w txid0)) sw sh.
Proof.
  intros m x T a wr g w sw sh n txid0 (HK & HD & HE & HN & HR & HZI & HZG) [Hnt Hfresh].
  pose proof HK as (HW & HDS & _). pose proof (wi_w2 w HW) as HW2.
  split; [exact (merge_K m x T a wr w sh n txid0 HK Hnt Hfresh)|].
  split; [exact (merge_D a wr w sh n txid0 HD Hnt (no_list_items_nil _ (nl_ix w HN)))|].
  split; [exact HE|].
  split; [exact (merge_NL n w txid0 HW2 HN Hfresh)|].
  split; [exact (merge_RI n w txid0 HW2 HR Hfresh)|].
  split; [exact (proj2 (do_merge_zinv n w txid0 HW2 HDS HZI Hfresh))|].
  intros Hg. exact (merge_ZG g n w txid0 HW2 HDS HZI Hfresh HZG Hg).
Qed.

(** every call agrees up to F30 *)
Fixpoint run_upto (w : world) (sw : sworld) (l : list tact) : Prop :=
  match l with
  | [] => True
  | TCall now c :: r =>
      let '(w', res) := step now w c in
      let '(sw', sres) := spec_step now (res_ok res) sw c in
      upto_f30 now sw c res sres /\ run_upto w' sw' r
  | TMerge n txid0 :: r => run_upto (fst (do_merge n w txid0)) sw r
  end.

(** no SMove of a write transaction looks at an empty key or bucket *)
Fixpoint smoves_clear (w : world) (sw : sworld) (l : list tact) : Prop :=
  match l with
  | [] => True
  | TCall now c :: r =>
      smove_head sw c /\
      let '(w', res) := step now w c in smoves_clear w' (fst (spec_step now (res_ok res) sw c)) r
  | TMerge n txid0 :: r => smoves_clear (fst (do_merge n w txid0)) sw r
  end.

Lemma run_Q2 : forall l m x T a wr g w sw sh,
  Q2 m x T a wr g w sw sh -> tacts_ok w l -> Forall tact_kv_ok l -> Forall no_push l ->
  hist_guard_corrected a wr (calls_of l) = true -> clocks_ok m x T w l ->
  opens_replayable m g w l -> smoves_clear w sw l ->
  run_upto w sw l /\
  exists m' x' T' a' wr' g' sh',
    Q2 m' x' T' a' wr' g' (fst (run_m w sw l)) (snd (run_m w sw l)) sh'.
Proof.
  induction l as [|[now c|n txid0] r IH]; intros m x T a wr g w sw sh HQ Hok Hkv Hnp Hg Hclk Hon Hsm.
  - split; [exact I|]. exists m, x, T, a, wr, g, sh. exact HQ.
  - cbn [tacts_ok calls_of clocks_ok opens_replayable smoves_clear] in *.
    rewrite hist_guard_corrected_cons in Hg. apply andb_true_iff in Hg as [Hg1 Hg2].
    destruct Hok as (Hc & Ho & Hr). destruct Hclk as [Hc1 Hc2]. destruct Hon as [Hon1 Hon2]. destruct Hsm as [Hsm1 Hsm2].
    inversion Hkv as [|y l' Hk Hkr]; subst y l'. cbn [tact_kv_ok] in Hk.
    inversion Hnp as [|y l' Hp Hpr]; subst y l'.
    assert (Hoh : open_head2 m g c) by (destruct c; try exact I; exact Hon1).
    destruct (step_Q2 now m x T a wr g w sw sh c HQ Hc Hk Ho Hp Hg1 Hc1 Hoh Hsm1) as [Hres [sh' HQ']].
    cbn [run_upto run_m].
    destruct (step now w c) as [w' res]. cbn [fst snd] in *.
    destruct (spec_step now (res_ok res) sw c) as [sw' sres]. cbn [fst snd] in *.
    destruct (IH _ _ _ _ _ _ w' sw' sh' HQ' Hr Hkr Hpr Hg2 Hc2 Hon2 Hsm2) as [IH1 IH2].
    split; [split; [exact Hres|exact IH1]|exact IH2].
  - cbn [tacts_ok calls_of clocks_ok opens_replayable smoves_clear run_upto run_m] in *.
    destruct Hok as (Hmo & Hr).
    inversion Hkv as [|y l' _ Hkr]; subst y l'. inversion Hnp as [|y l' _ Hpr]; subst y l'.
    apply (IH true x (N.max T n) a wr (merge_good g n w txid0) _ sw sh); try assumption.
    exact (merge_Q2 m x T a wr g w sw sh n txid0 HQ Hmo).
Qed.

(** THEOREM D (route R2): every history of calls and Merges without RPush /
    LPush — Opens anywhere, empty sets and sorted sets anywhere — such that
    [tacts_ok], [tact_kv_ok], the guard, the clocks as in Theorem C, and
    - at every Open that follows a Merge the Merges since the last Open
      succeeded or were refused ([opens_replayable]),
    - no SMove of a write transaction looks at an empty key or at a bucket
      without member ([smoves_clear]):
    EVERY call agrees with the specification UP TO F30 ([upto_f30]). *)
Theorem history_merge_ds_refines_upto : forall l o,
  tacts_ok (empty_world o) l -> Forall tact_kv_ok l -> Forall no_push l ->
  hist_guard_corrected false [] (calls_of l) = true ->
  clocks_ok false true 0 (empty_world o) l ->
  opens_replayable false true (empty_world o) l ->
  smoves_clear (empty_world o) sworld0 l ->
  run_upto (empty_world o) sworld0 l.
Proof.
  intros l o Hok Hkv Hnp Hg Hclk Hon Hsm.
  exact (proj1 (run_Q2 l false true 0 false [] true _ _ _ (Q2_init o) Hok Hkv Hnp Hg Hclk Hon Hsm)).
Qed.

(** ... and the engine's structure indexes are, at the end, the
    specification's without some empty sets / keys / sorted sets *)
Theorem history_merge_ds_state_upto : forall l o,
  tacts_ok (empty_world o) l -> Forall tact_kv_ok l -> Forall no_push l ->
  hist_guard_corrected false [] (calls_of l) = true ->
  clocks_ok false true 0 (empty_world o) l ->
  opens_replayable false true (empty_world o) l ->
  smoves_clear (empty_world o) sworld0 l ->
  let '(w, sw) := run_m (empty_world o) sworld0 l in
  dle (w_ix w) (s_ds (sw_state sw)) /\
  (exists T s', kvrel w s' /\ kv_same_live T (sw_state sw) s') /\ w_closed w = sw_closed sw.
Proof.
  intros l o Hok Hkv Hnp Hg Hclk Hon Hsm.
  destruct (proj2 (run_Q2 l false true 0 false [] true _ _ _ (Q2_init o) Hok Hkv Hnp Hg Hclk Hon Hsm))
    as (m' & x' & T' & a' & wr' & g' & sh' & HK & HD & HE & _).
  destruct (run_m (empty_world o) sworld0 l) as [w sw]. cbn [fst snd] in *.
  destruct HK as (_ & HDS & _ & _ & (s' & Hrel & Hsl & _) & _ & _ & Hcl & _).
  destruct HD as (Hds & _).
  destruct HE as (Hc & (Hkv' & Hdle) & _).
  split.
  { apply (dle_trans _ (s_ds (sw_state sh'))); [exact (dle_of_dsrel _ _ Hds (di_swf w HDS))|exact Hdle]. }
  split.
  { exists T', s'. split; [exact Hrel|]. apply (same_live_skv T' (sw_state sh') s'); [exact Hkv'|reflexivity|exact Hsl]. }
  rewrite Hc. exact Hcl.
Qed.

(** ---- the calls that do not look at an empty structure agree exactly ---- *)
Definition touch_of (sw : sworld) (c : call) : bool :=
  match c, sw_tx sw with
  | COp o, SActive _ work => touches_empty (s_ds work) o
  | _, _ => false
  end.

(** the results with, for every call, whether it looks at an empty structure of the specification *)
Fixpoint run_m_touch (w : world) (sw : sworld) (l : list tact) : list (call * (res * res) * bool) :=
  match l with
  | [] => []
  | TCall now c :: r =>
      let '(w', res) := step now w c in
      let '(sw', sres) := spec_step now (res_ok res) sw c in
      (c, (res, sres), touch_of sw c) :: run_m_touch w' sw' r
  | TMerge n txid0 :: r => run_m_touch (fst (do_merge n w txid0)) sw r
  end.

Lemma run_m_touch_res : forall l w sw, map fst (run_m_touch w sw l) = run_m_res w sw l.
Proof.
  induction l as [|[now c|n txid0] r IH]; intros w sw; [reflexivity| |]; cbn [run_m_touch run_m_res].
  - destruct (step now w c) as [w' res]. destruct (spec_step now (res_ok res) sw c) as [sw' sres].
    cbn [map fst]. rewrite IH. reflexivity.
  - apply IH.
Qed.

Lemma upto_touch : forall now sw c res sres, upto_f30 now sw c res sres -> touch_of sw c = false -> res = sres.
Proof.
  intros now sw c res sres [H|H] Ht; [exact H|]. unfold touch_of in Ht.
  destruct c; try contradiction. destruct (sw_tx sw); try contradiction. destruct H as [H _]. congruence.
Qed.

Lemma run_upto_touch : forall l w sw, run_upto w sw l ->
  Forall (fun p => snd p = false -> agree (fst p)) (run_m_touch w sw l).
Proof.
  induction l as [|[now c|n txid0] r IH]; intros w sw H; [constructor| |]; cbn [run_upto run_m_touch] in *.
  - destruct (step now w c) as [w' res]. destruct (spec_step now (res_ok res) sw c) as [sw' sres].
    destruct H as [H1 H2]. constructor; [|exact (IH _ _ H2)].
    cbn [fst snd]. intros Ht. exact (upto_touch now sw c res sres H1 Ht).
  - exact (IH _ _ H).
Qed.

Lemma untouched_smoves_clear : forall l w sw,
  Forall (fun p => snd p = false) (run_m_touch w sw l) -> smoves_clear w sw l.
Proof.
  induction l as [|[now c|n txid0] r IH]; intros w sw H; [exact I| |]; cbn [run_m_touch smoves_clear] in *.
  - destruct (step now w c) as [w' res]. destruct (spec_step now (res_ok res) sw c) as [sw' sres] eqn:Es.
    inversion H as [|y l' H1 H2]; subst y l'. cbn [snd fst] in *. split; [|exact (IH _ _ H2)].
    unfold smove_head, touch_of in *. destruct c; try exact I. destruct (sw_tx sw) as [|wr0 work|]; try exact I.
    destruct wr0; [|exact I]. apply smove_clear_of. exact H1.
  - exact (IH _ _ H).
Qed.

(** COROLLARY (a third sufficient condition for exact agreement): if no call
    looks at an empty set bucket, set key or sorted-set bucket of the
    specification's state — empty structures may exist, also at the Opens that
    follow Merges — every call returns exactly the specification's result *)
Corollary history_merge_ds_refines_untouched : forall l o,
  tacts_ok (empty_world o) l -> Forall tact_kv_ok l -> Forall no_push l ->
  hist_guard_corrected false [] (calls_of l) = true ->
  clocks_ok false true 0 (empty_world o) l ->
  opens_replayable false true (empty_world o) l ->
  Forall (fun p => snd p = false) (run_m_touch (empty_world o) sworld0 l) ->
  Forall agree (run_m_res (empty_world o) sworld0 l).
Proof.
  intros l o Hok Hkv Hnp Hg Hclk Hon Hu.
  pose proof (history_merge_ds_refines_upto l o Hok Hkv Hnp Hg Hclk Hon (untouched_smoves_clear _ _ _ Hu)) as H.
  apply run_upto_touch in H. rewrite <- run_m_touch_res. apply Forall_forall. intros q Hq.
  apply in_map_iff in Hq. destruct Hq as [p [E Hp]]. subst q.
  rewrite Forall_forall in H, Hu. exact (H p Hp (Hu p Hp)).
Qed.

(** a history without SMove satisfies [smoves_clear] *)
Definition no_smove (a : tact) : Prop :=
  match a with TCall _ (COp (OSMove1 _ _ _ _)) | TCall _ (COp (OSMove2 _ _ _ _ _)) => False | _ => True end.

Lemma no_smove_smoves_clear : forall l w sw, Forall no_smove l -> smoves_clear w sw l.
Proof.
  induction l as [|[now c|n txid0] r IH]; intros w sw H; [exact I| |]; cbn [smoves_clear];
    inversion H as [|y l' H1 H2]; subst y l'.
  - split; [|destruct (step now w c) as [w' res]; exact (IH _ _ H2)].
    unfold smove_head. destruct c; try exact I. destruct (sw_tx sw) as [|wr0 work|]; try exact I.
    destruct wr0; [|exact I]. destruct o; try exact I; contradiction H1.
  - exact (IH _ _ H2).
Qed.

(** ================= part 11 (R2): the hypotheses are needed, the exception is real ================= *)
(** (6) SMOVE MUST NOT LOOK AT AN EMPTY KEY.  SAdd k x; SRem k x leaves the key
    k empty; after Merge and the reopen the engine has no key k.  SMove k -> l
    of z: the engine refuses (no such key), the specification moves — z is not
    in k, but SMove adds it to l all the same.  From then on the two states
    differ in a NON-empty set: SIsMember l z. *)
Definition ds_smove : list tact :=
  [TCall 0 (CBegin true 1); TCall 0 (COp (OSAdd [x62] [x6b] [[x78]])); TCall 0 CCommit;
   TCall 0 (CBegin true 2); TCall 0 (COp (OSRem [x62] [x6b] [[x78]])); TCall 0 CCommit;
   TCall 0 (CBegin true 3); TCall 0 (COp (OSAdd [x62] [x6c] [[x79]])); TCall 0 CCommit] ++
  [TMerge 0 10; TCall 0 (COpen hm_o0);
   TCall 0 (CBegin true 4); TCall 0 (COp (OSMove1 [x62] [x6b] [x6c] [x7a])); TCall 0 CCommit;
   TCall 0 (CBegin false 5); TCall 0 (COp (OSIsMember [x62] [x6c] [x7a]))].

Lemma ds_smove_ok : tacts_ok (empty_world hm_o0) ds_smove.
Proof. apply tacts_ok_app; [solve_tacts|]. cbn [tacts_ok]. split; [solve_merge_ok [1; 2; 3]|solve_tacts]. Qed.

Theorem smoves_clear_needed :
  ~ (forall l o,
       tacts_ok (empty_world o) l -> Forall tact_kv_ok l -> Forall no_push l ->
       hist_guard_corrected false [] (calls_of l) = true -> clocks_mono 0 l ->
       opens_replayable false true (empty_world o) l ->
       run_upto (empty_world o) sworld0 l).
Proof.
  intros H.
  assert (H1 : Forall tact_kv_ok ds_smove) by (repeat constructor; vm_compute; reflexivity).
  assert (H2 : Forall no_push ds_smove) by (repeat constructor).
  assert (H3 : hist_guard_corrected false [] (calls_of ds_smove) = true) by (vm_compute; reflexivity).
  assert (H4 : clocks_mono 0 ds_smove) by (cbn [ds_smove app clocks_mono]; repeat split; intros E; discriminate E).
  assert (H5 : opens_replayable false true (empty_world hm_o0) ds_smove).
  { vm_compute. repeat split; try exact I; intros _; reflexivity. }
  specialize (H ds_smove hm_o0 ds_smove_ok H1 H2 H3 H4 H5).
  apply run_upto_touch in H. rewrite Forall_forall in H.
  assert (Hin : In (COp (OSIsMember [x62] [x6c] [x7a]), (RErr, RBool true), false)
                   (run_m_touch (empty_world hm_o0) sworld0 ds_smove)).
  { vm_compute. in_list. }
  specialize (H _ Hin eq_refl). discriminate H.
Qed.

(** (7) the Merges since the last Open succeeded: needed for agreement up to
    F30 as well ([ds_failed]: the lost node is in a non-empty sorted set) *)
Theorem merge_success_needed_upto :
  ~ (forall l o,
       tacts_ok (empty_world o) l -> Forall tact_kv_ok l -> Forall no_push l ->
       hist_guard_corrected false [] (calls_of l) = true -> clocks_mono 0 l ->
       smoves_clear (empty_world o) sworld0 l ->
       run_upto (empty_world o) sworld0 l).
Proof.
  intros H. destruct ds_failed_spec as (H1 & H2 & H3 & H4 & _).
  assert (H5 : smoves_clear (empty_world ds_o150) sworld0 ds_failed).
  { apply untouched_smoves_clear. vm_compute. repeat constructor. }
  specialize (H ds_failed ds_o150 ds_failed_ok H1 H2 H3 H4 H5).
  apply run_upto_touch in H. rewrite Forall_forall in H.
  assert (Hin : In (COp (OZMembers [x62]), (RNodes [], RNodes [mkZ [x62] 2 [x76]]), false)
                   (run_m_touch (empty_world ds_o150) sworld0 ds_failed)).
  { vm_compute. in_list. }
  specialize (H _ Hin eq_refl). discriminate H.
Qed.

(** (8) Theorem D at work: the three histories of (1) — an empty set key, an
    empty sorted set, a set bucket without key, each followed by Merge, an
    Open and a call that looks at the empty structure — satisfy its
    hypotheses; the one result that differs belongs to a call that looks at
    the empty structure *)
Example upto_f30_on_the_f30_histories :
  run_upto (empty_world hm_o0) sworld0 hm_f30 /\
  run_upto (empty_world hm_o0) sworld0 ds_zempty /\
  run_upto (empty_world hm_o0) sworld0 ds_bempty /\
  map (fun p => (snd (fst p), snd p)) (run_m_touch (empty_world hm_o0) sworld0 hm_f30) =
    [((ROk, ROk), false); ((ROk, ROk), false); ((ROk, ROk), false); ((ROk, ROk), false); ((ROk, ROk), false);
     ((ROk, ROk), false); ((ROk, ROk), false); ((ROk, ROk), false); ((ROk, ROk), false); ((ROk, ROk), false);
     ((ROk, ROk), false); ((RBool false, RBool true), true)].
Proof.
  destruct hm_f30_spec as (A1 & A2 & A3 & A4 & _).
  destruct no_empty_needed_other_kinds as ((B1 & B2 & B3 & B4 & B5 & _) & (C1 & C2 & C3 & C4 & C5 & _)).
  split; [|split; [|split]].
  - apply (history_merge_ds_refines_upto _ _ hm_f30_ok A1 A4 A2 (clocks_mono_ok _ _ _ _ _ A3)).
    + vm_compute. repeat split; try exact I; intros _; reflexivity.
    + apply no_smove_smoves_clear. repeat constructor.
  - apply (history_merge_ds_refines_upto _ _ ds_zempty_ok B1 B2 B3 (clocks_mono_ok _ _ _ _ _ B4) B5).
    apply no_smove_smoves_clear. repeat constructor.
  - apply (history_merge_ds_refines_upto _ _ ds_bempty_ok C1 C2 C3 (clocks_mono_ok _ _ _ _ _ C4) C5).
    apply no_smove_smoves_clear. repeat constructor.
  - vm_compute. reflexivity.
Qed.

Print Assumptions history_merge_ds_refines.
Print Assumptions history_merge_ds_refines_mono.
Print Assumptions history_merge_ds_state_refines.
Print Assumptions history_merge_ds_state_refines_prefix.
Print Assumptions history_merge_state_refines_prefix.
Print Assumptions history_merge_refines_no_push_again.
Print Assumptions history_merge_refines_gen.
Print Assumptions opens_before_merges_nonempty.
Print Assumptions opens_nonempty_split.
Print Assumptions merges_succeed_replayable.
Print Assumptions reopen_sets_sseq.
Print Assumptions reopen_sets_sle.
Print Assumptions reopen_zsets_zle.
Print Assumptions history_merge_ds_refines_upto.
Print Assumptions history_merge_ds_state_upto.
Print Assumptions history_merge_ds_refines_untouched.
Print Assumptions no_smove_smoves_clear.
Print Assumptions dle_of_deq.
Print Assumptions no_empty_needed.
Print Assumptions no_empty_needed_other_kinds.
Print Assumptions merge_success_needed.
Print Assumptions ds_failed_spec.
Print Assumptions no_push_needed.
Print Assumptions clock_hypothesis_needed_ds.
Print Assumptions guard_needed_ds.
Print Assumptions smoves_clear_needed.
Print Assumptions merge_success_needed_upto.
Print Assumptions upto_f30_on_the_f30_histories.
