(** Bytes.v — byte strings, little-endian integers, lexicographic order.
    Models: encoding/binary.LittleEndian.{PutUintNN,UintNN}, bytes.Compare,
    bytes.HasPrefix, bytes.Equal.  Stdlib only. *)
From Coq Require Export List NArith ZArith Bool Lia.
From Coq.Strings Require Export Byte.
Export ListNotations.
Open Scope N_scope.

Definition bytes := list byte.

Definition b2n (b : byte) : N := Byte.to_N b.
Definition n2b (n : N) : byte :=
  match Byte.of_N (n mod 256) with Some b => b | None => x00 end.

Definition byte_eqb (a b : byte) : bool := Byte.eqb a b.

Fixpoint bytes_eqb (a b : bytes) : bool :=
  match a, b with
  | [], [] => true
  | x :: a', y :: b' => byte_eqb x y && bytes_eqb a' b'
  | _, _ => false
  end.

(** bytes.Compare *)
Fixpoint bcompare (a b : bytes) : comparison :=
  match a, b with
  | [], [] => Eq
  | [], _ :: _ => Lt
  | _ :: _, [] => Gt
  | x :: a', y :: b' =>
      match N.compare (b2n x) (b2n y) with
      | Eq => bcompare a' b'
      | c => c
      end
  end.

Definition bltb (a b : bytes) : bool := match bcompare a b with Lt => true | _ => false end.
Definition bleb (a b : bytes) : bool := match bcompare a b with Gt => false | _ => true end.

(** bytes.HasPrefix s p *)
Fixpoint has_prefix (s p : bytes) {struct p} : bool :=
  match p, s with
  | [], _ => true
  | _ :: _, [] => false
  | y :: p', x :: s' => byte_eqb x y && has_prefix s' p'
  end.

Definition blen (b : bytes) : N := N.of_nat (length b).

(** little-endian encoding of [v] on [n] bytes (truncating, as Go's PutUintNN
    after the conversion to the fixed-width type) *)
Fixpoint le_enc (n : nat) (v : N) : bytes :=
  match n with
  | O => []
  | S n' => n2b v :: le_enc n' (v / 256)
  end.

Fixpoint le_dec (bs : bytes) : N :=
  match bs with
  | [] => 0
  | b :: bs' => b2n b + 256 * le_dec bs'
  end.

(** slice [bs[off : off+n]] when in range *)
Definition slice (bs : bytes) (off n : nat) : bytes := firstn n (skipn off bs).

Definition zeros (n : nat) : bytes := repeat x00 n.

Fixpoint all_zero (bs : bytes) : bool :=
  match bs with [] => true | b :: r => byte_eqb b x00 && all_zero r end.
