(** Sparse.v — HintBPTSparseIdxMode (tx_bptree.go getByHintBPTSparseIdx*,
    RangeScan / rangeScanOnDisk, prefixScanByHintBPTSparseIdx / prefixScanOnDisk,
    processEntriesScanOnDisk) for ONE bucket, at the level of the per-segment
    key lists: the active segment's in-memory index and, for every sealed
    segment, the sorted list of its latest record per key together with the
    [start, end] key range stored in its root-index record.  The on-disk B+ tree
    traversal (FindLeafOnDisk, ReadNode) is abstracted to lookup in that sorted
    list.  Segments are kept newest first (SortFID by descending file id). *)
From Verif Require Export Bytes ListDS Index.
Open Scope N_scope.

Record sealed := mkSealed { sg_idx : kvidx; sg_start : bytes; sg_end : bytes }.

Record sparse := mkSparse { sp_active : kvidx; sp_sealed : list sealed (* newest first *) }.

(** getByHintBPTSparseIdx: active index first, then the sealed segments newest
    first; the first segment that holds the key decides *)
Fixpoint sealed_find (ss : list sealed) (k : bytes) : option krec :=
  match ss with
  | [] => None
  | s :: r =>
      if bleb (sg_start s) k && bleb k (sg_end s) then
        match kv_find (sg_idx s) k with Some x => Some x | None => sealed_find r k end
      else sealed_find r k
  end.

Definition sparse_get (now : N) (sp : sparse) (k : bytes) : option krec :=
  match kv_find (sp_active sp) k with
  | Some r => if kr_dead now r then None else Some r
  | None => match sealed_find (sp_sealed sp) k with
            | Some r => if kr_dead now r then None else Some r
            | None => None
            end
  end.

(** processEntriesScanOnDisk: first occurrence of each key wins (the input is
    ordered newest first), dead records dropped, result sorted by key *)
Fixpoint first_wins (l : kvidx) (seen : kvidx) : kvidx :=
  match l with
  | [] => seen
  | (k, r) :: t => match kv_find seen k with
                   | Some _ => first_wins t seen
                   | None => first_wins t (kv_insert seen k r)
                   end
  end.

Definition process_scan (now : N) (l : kvidx) : kvidx :=
  filter (fun kr => negb (kr_dead now (snd kr))) (first_wins l []).

(** RangeScan in sparse mode (after fix of the overlap test): the active
    index's range, then every sealed segment whose key range overlaps *)
Definition sparse_range (now : N) (sp : sparse) (st en : bytes) : kvidx :=
  process_scan now
    (kv_range (sp_active sp) st en ++
     flat_map (fun s => if bleb st (sg_end s) && bleb (sg_start s) en then kv_range (sg_idx s) st en else [])
              (sp_sealed sp)).

(** PrefixScan without offset and limit (after fix bb812a1): all records with
    the prefix from the active index (dead ones included: they shadow) and
    from every sealed segment *)
Definition with_prefix (ix : kvidx) (p : bytes) : kvidx := filter (fun kr => has_prefix (fst kr) p) ix.

Definition sparse_prefix (now : N) (sp : sparse) (p : bytes) : kvidx :=
  process_scan now (with_prefix (sp_active sp) p ++ flat_map (fun s => with_prefix (sg_idx s) p) (sp_sealed sp)).

(** ---- the reference: one index holding the latest record of every key ---- *)
(** the records of the segments oldest first, as one insertion sequence *)
Definition all_segments_oldest_first (sp : sparse) : list kvidx := rev (map sg_idx (sp_sealed sp)) ++ [sp_active sp].

Definition merged_index (sp : sparse) : kvidx :=
  fold_left (fun acc ix => fold_left (fun a kr => kv_insert a (fst kr) (snd kr)) ix acc) (all_segments_oldest_first sp) [].
