(** Dec.v — decimal printing/parsing of Go ints and the '|' separator handling.
    Models strconv.Itoa / strconv2.IntToStr, strconv.Atoi with the error
    ignored (the callers write `x, _ := strconv2.StrToInt(..)`), strings.Split
    and strings.SplitN(s, "|", 2) as used by tx.go / db.go. *)
From Verif Require Export Bytes.
Open Scope N_scope.

Definition digit (d : N) : byte := n2b (48 + d).

Fixpoint print_N_fuel (fuel : nat) (n : N) (acc : bytes) : bytes :=
  match fuel with
  | O => acc
  | S f =>
      let acc' := digit (n mod 10) :: acc in
      if n / 10 =? 0 then acc' else print_N_fuel f (n / 10) acc'
  end.

(** a number has no more decimal digits than binary digits *)
Definition print_N (n : N) : bytes := print_N_fuel (S (N.size_nat n)) n [].

Definition print_Z (z : Z) : bytes :=
  match z with
  | Z0 => [x30]
  | Zpos p => print_N (Npos p)
  | Zneg p => x2d :: print_N (Npos p)
  end.

Definition digit_val (b : byte) : option N :=
  let n := b2n b in if (48 <=? n) && (n <=? 57) then Some (n - 48) else None.

Fixpoint parse_digits (bs : bytes) (acc : N) : option N :=
  match bs with
  | [] => Some acc
  | b :: r => match digit_val b with
              | Some d => parse_digits r (10 * acc + d)
              | None => None
              end
  end.

(** Atoi with its error dropped: 0 on a syntax error *)
Definition parse_Z (bs : bytes) : Z :=
  match bs with
  | [] => 0%Z
  | b :: r =>
      if byte_eqb b x2d then
        match r with
        | [] => 0%Z
        | _ => match parse_digits r 0 with Some n => (- Z.of_N n)%Z | None => 0%Z end
        end
      else if byte_eqb b x2b then
        match r with
        | [] => 0%Z
        | _ => match parse_digits r 0 with Some n => Z.of_N n | None => 0%Z end
        end
      else match parse_digits bs 0 with Some n => Z.of_N n | None => 0%Z end
  end.

Definition sep : byte := x7c.   (* '|' *)

(** strings.SplitN(s, "|", 2): None when there is no separator (Go returns a
    one-element slice and the callers' [1] would panic) *)
Fixpoint split_first (bs : bytes) : option (bytes * bytes) :=
  match bs with
  | [] => None
  | b :: r =>
      if byte_eqb b sep then Some ([], r)
      else match split_first r with
           | Some (h, t) => Some (b :: h, t)
           | None => None
           end
  end.

(** strings.Split(s, "|") *)
Fixpoint split_all (bs : bytes) : list bytes :=
  match bs with
  | [] => [[]]
  | b :: r =>
      if byte_eqb b sep then [] :: split_all r
      else match split_all r with
           | h :: t => (b :: h) :: t
           | [] => [[b]]
           end
  end.

Fixpoint contains_sep (bs : bytes) : bool :=
  match bs with [] => false | b :: r => byte_eqb b sep || contains_sep r end.

Definition join_sep (a b : bytes) : bytes := a ++ sep :: b.
