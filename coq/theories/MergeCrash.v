(** MergeCrash.v — C16: if the process dies at ANY point during Merge,
    reopening yields the same logical contents as before the Merge started.

    Key/value data (sections 1-10)
    - [kv_run]: the index record Open rebuilds for one (bucket, key) from a log;
    - the invariant [KInv T] (key by key the index is the replay of the log,
      except for DEAD index records — tombstones, or records expired at a clock
      <= T — whose log records an earlier Merge dropped); preserved by every
      engine call ([step_kinv]), by Open ([open_kinv]) and by every step of a
      Merge run at a clock <= T on the lowest file ([merge_file_kinv]);
      [reachable_kinv];
    - the crash points of Merge: [step_crash_disk] (one file: (a) before, (b)
      new segment created, (c) k < n rewritten records written, (d) all n
      written and the old file still there, (e) old file removed),
      [merges_crash_disk] (the loop), [merge_crash_disk] (DB.Merge);
      [merge_crash_disk_final] (the directory Merge returns with is one of them);
    - [step_crash_open] / [merge_crash_open]: Open on any crash directory
      rebuilds, key by key, the key/value index of the world before or after
      the interrupted step, up to dead records;
    - MAIN THEOREM [merge_crash_preserves_kv]: the recovered world holds
      contents [s'] with [kv_same_live T s s'] (same live pairs — value,
      timestamp, ttl — in every bucket at every clock T not earlier than the
      clocks of the Merges); [merge_crash_reads_unchanged]: every key/value read
      returns what it returned before the Merge started;
    - [merge_crash_kvrel_exact_false]: the conclusion [kvrel (do_open o' d) s]
      itself is FALSE (Merge drops the records expired at its clock);
      [merge_crash_clock_hypothesis_needed]: the clock hypothesis is necessary.
    Sets (section 11): [merge_crash_preserves_set_members],
      [merge_crash_preserves_set_keys] (F30 exception as in MergeDS).
    Sorted sets (section 12): the property FAILS (F31):
      [merge_crash_loses_zset_node], [merge_crash_resurrects_zset_node]. *)
From Coq Require Import Sorted Permutation.
From Verif Require Import Bytes BytesFacts Codec Dec DecFacts ListDS ListFacts SetDS ZSetDS Index Engine Spec TxFacts
  IndexFacts SetFacts ZSetFacts ReplayFacts KVRefine ApplyFacts Merge MergeFacts MergeDS PowerLoss.
From Coq Require Import Lia ZifyN ZifyNat ZifyBool.
Open Scope N_scope.

(** ------------------------------------------------------------------ *)
(** * 1. The key/value view of a log, key by key                        *)
(** ------------------------------------------------------------------ *)

Definition kmatch (b k : bytes) (e : entry) : bool :=
  (e_ds e =? DS_KV) && bytes_eqb (e_bucket e) b && bytes_eqb (e_key e) k.

Definition kr_of (r : N * N * entry) : krec := krec_of (snd r) (fst (fst r)) (snd (fst r)).

Definition run_cond (comm : list N) (b k : bytes) (r : N * N * entry) : bool :=
  nmem (e_txid (snd r)) comm && kmatch b k (snd r).

Definition run_step (comm : list N) (b k : bytes) (acc : option krec) (r : N * N * entry) : option krec :=
  if run_cond comm b k r then Some (kr_of r) else acc.

(** the index record of (b, k) after replaying the log [rs] from [acc] *)
Definition kv_run (comm : list N) (b k : bytes) (acc : option krec) (rs : list (N * N * entry)) : option krec :=
  fold_left (run_step comm b k) rs acc.

Definition sorted_all (kv : list (bytes * kvidx)) : Prop := forall b ix, alookup kv b = Some ix -> ksorted ix.

Lemma sorted_all_nil : sorted_all [].
Proof. intros b ix H. discriminate H. Qed.

Lemma ix_step_sorted : forall comm kv r, sorted_all kv -> sorted_all (ix_step comm kv r).
Proof.
  intros comm kv [[f p] e] H. unfold ix_step.
  destruct (nmem (e_txid e) comm && (e_ds e =? DS_KV)); [|exact H].
  exact (apply_kv_sorted kv e f p H).
Qed.

Lemma kvl_ix_step : forall comm kv r b k, sorted_all kv ->
  kvl (ix_step comm kv r) b k = run_step comm b k (kvl kv b k) r.
Proof.
  intros comm kv [[f p] e] b k H. unfold ix_step, run_step, run_cond, kmatch, kr_of. cbn [fst snd].
  destruct (nmem (e_txid e) comm); cbn [andb]; [|reflexivity].
  destruct (e_ds e =? DS_KV); cbn [andb]; [|reflexivity].
  rewrite (kvl_apply_kv kv e f p b k H). reflexivity.
Qed.

Lemma kvl_fold_ix_step : forall comm rs kv b k, sorted_all kv ->
  kvl (fold_left (ix_step comm) rs kv) b k = kv_run comm b k (kvl kv b k) rs /\
  sorted_all (fold_left (ix_step comm) rs kv).
Proof.
  intros comm rs. induction rs as [|r t IH]; intros kv b k H.
  - split; [reflexivity|exact H].
  - cbn [fold_left]. unfold kv_run. cbn [fold_left]. fold (kv_run comm b k (run_step comm b k (kvl kv b k) r) t).
    rewrite <- (kvl_ix_step comm kv r b k H). apply IH. apply ix_step_sorted. exact H.
Qed.

(** what Open rebuilds for (b, k) from a directory *)
Lemma kvl_open : forall o d b k,
  kvl (ix_kv (w_ix (do_open o d))) b k = kv_run (committed_ids (all_records d)) b k None (all_records d).
Proof.
  intros o d b k. destruct (do_open_records o d) as [A _]. rewrite A. unfold replay. rewrite ix_kv_replay.
  cbn [ix_empty ix_kv]. exact (proj1 (kvl_fold_ix_step _ (all_records d) [] b k sorted_all_nil)).
Qed.

Lemma open_sorted_all : forall o d, sorted_all (ix_kv (w_ix (do_open o d))).
Proof.
  intros o d. destruct (do_open_records o d) as [A _]. rewrite A. unfold replay. rewrite ix_kv_replay.
  cbn [ix_empty ix_kv]. exact (proj2 (kvl_fold_ix_step _ (all_records d) [] [] [] sorted_all_nil)).
Qed.

Lemma kv_run_app : forall comm b k acc a c,
  kv_run comm b k acc (a ++ c) = kv_run comm b k (kv_run comm b k acc a) c.
Proof. intros. unfold kv_run. apply fold_left_app. Qed.

Lemma kv_run_cons : forall comm b k acc r t,
  kv_run comm b k acc (r :: t) = kv_run comm b k (run_step comm b k acc r) t.
Proof. reflexivity. Qed.

(** the last committed matching record decides; without one the accumulator stays *)
Lemma kv_run_acc : forall comm b k rs acc,
  kv_run comm b k acc rs = match kv_run comm b k None rs with Some z => Some z | None => acc end.
Proof.
  intros comm b k rs. induction rs as [|r t IH]; intros acc; [reflexivity|].
  rewrite !kv_run_cons. unfold run_step. destruct (run_cond comm b k r).
  - rewrite (IH (Some (kr_of r))). destruct (kv_run comm b k None t); reflexivity.
  - apply IH.
Qed.

Lemma kv_run_comm_ext : forall c1 c2 b k rs acc,
  (forall r, In r rs -> nmem (e_txid (snd r)) c1 = nmem (e_txid (snd r)) c2) ->
  kv_run c1 b k acc rs = kv_run c2 b k acc rs.
Proof.
  intros c1 c2 b k rs. induction rs as [|r t IH]; intros acc H; [reflexivity|].
  rewrite !kv_run_cons. unfold run_step, run_cond. rewrite (H r (or_introl eq_refl)).
  apply IH. intros r' Hr'. apply H. right. exact Hr'.
Qed.

Lemma kv_run_no_match : forall comm b k rs acc,
  (forall r, In r rs -> run_cond comm b k r = false) -> kv_run comm b k acc rs = acc.
Proof.
  intros comm b k rs. induction rs as [|r t IH]; intros acc H; [reflexivity|].
  rewrite kv_run_cons. unfold run_step. rewrite (H r (or_introl eq_refl)).
  apply IH. intros r' Hr'. apply H. right. exact Hr'.
Qed.

Lemma kv_run_some_inv : forall comm b k rs z,
  kv_run comm b k None rs = Some z -> exists r, In r rs /\ run_cond comm b k r = true /\ z = kr_of r.
Proof.
  intros comm b k rs. induction rs as [|r t IH]; intros z H; [discriminate H|].
  rewrite kv_run_cons, kv_run_acc in H. destruct (kv_run comm b k None t) as [z'|] eqn:E.
  - injection H as H. subst z'. destruct (IH z eq_refl) as [r' (A & B & C)].
    exists r'. split; [right; exact A|]. split; assumption.
  - unfold run_step in H. destruct (run_cond comm b k r) eqn:Ec; [|discriminate H].
    injection H as H. exists r. split; [left; reflexivity|]. split; [exact Ec|symmetry; exact H].
Qed.

Lemma kv_run_none_inv : forall comm b k rs,
  kv_run comm b k None rs = None -> forall r, In r rs -> run_cond comm b k r = false.
Proof.
  intros comm b k rs. induction rs as [|r t IH]; intros H r' Hr'; [destruct Hr'|].
  rewrite kv_run_cons, kv_run_acc in H. destruct (kv_run comm b k None t) as [z'|] eqn:E; [discriminate H|].
  unfold run_step in H. destruct (run_cond comm b k r) eqn:Ec; [discriminate H|].
  destruct Hr' as [Hr'|Hr']; [subst r'; exact Ec|exact (IH eq_refl r' Hr')].
Qed.

(** ------------------------------------------------------------------ *)
(** * 2. The disk / index invariant [KInv]                              *)
(** ------------------------------------------------------------------ *)

(** the index record [r] is dead at every clock >= T: a tombstone, or expired
    at some clock n <= T *)
Definition dead_by (T : N) (r : krec) : Prop :=
  kr_flag r <> F_Set \/ exists n, n <= T /\ is_expired n (kr_ttl r) (kr_ts r) = true.

(** [y] (what the log replays to) against [x] (what the index holds): equal,
    or the log holds nothing any more for a key whose index record is dead *)
Definition krel (T : N) (y x : option krec) : Prop :=
  y = x \/ (y = None /\ exists r, x = Some r /\ dead_by T r).

(** INVARIANT [KInv T]: key by key, the index is the replay of the committed
    records of the log, except for dead index records whose log records a
    Merge (run at a clock <= T) has dropped *)
Definition KInv (T : N) (w : world) : Prop := forall b k,
  krel T (kv_run (w_committed w) b k None (recs w)) (kvl (ix_kv (w_ix w)) b k).

Lemma krel_extend : forall T comm b k y x W,
  krel T y x -> krel T (kv_run comm b k y W) (kv_run comm b k x W).
Proof.
  intros T comm b k y x W H. rewrite (kv_run_acc comm b k W y), (kv_run_acc comm b k W x).
  destruct (kv_run comm b k None W); [left; reflexivity|exact H].
Qed.

Lemma minv_sorted_all : forall w, MInv w -> sorted_all (ix_kv (w_ix w)).
Proof. intros w H. exact (li_sorted _ _ _ _ _ (mi_log w H)). Qed.

(** a transaction appended to the log and indexed *)
Lemma kinv_append : forall T w w' W id,
  sorted_all (ix_kv (w_ix w)) -> KInv T w ->
  recs w' = recs w ++ W -> w_committed w' = id :: w_committed w -> ~ In id (ids_of (recs w)) ->
  (forall r, In r W -> e_txid (snd r) = id) ->
  ix_kv (w_ix w') = fold_left KVRefine.kv_step W (ix_kv (w_ix w)) ->
  KInv T w'.
Proof.
  intros T w w' W id Hs HK Hr Hc Hfresh Hid Hix b k.
  rewrite Hr, Hc, Hix, kv_run_app.
  rewrite (fold_ix_step_committed (id :: w_committed w)).
  2:{ intros r Hin. rewrite (Hid r Hin), nmem_cons, N.eqb_refl. reflexivity. }
  rewrite (proj1 (kvl_fold_ix_step _ W _ b k Hs)).
  apply krel_extend.
  rewrite (kv_run_comm_ext (id :: w_committed w) (w_committed w) b k (recs w) None).
  - apply HK.
  - intros r Hin. exact (fresh_not_comm id (recs w) _ r Hfresh Hin).
Qed.

Lemma kinv_ext : forall T w w',
  recs w' = recs w -> w_committed w' = w_committed w -> ix_kv (w_ix w') = ix_kv (w_ix w) -> KInv T w -> KInv T w'.
Proof. intros T w w' A B C H b k. rewrite A, B, C. apply H. Qed.

Lemma kinv_empty : forall T o, KInv T (empty_world o).
Proof. intros T o b k. left. reflexivity. Qed.

(** Commit keeps [KInv] *)
Lemma commit_kinv : forall T w t,
  WInv w -> KInv T w -> w_tx w = TxActive t -> KInv T (fst (do_commit None w t)).
Proof.
  intros T w t HW HK Ht. destruct (wi_w2 w HW) as (HM & _).
  pose proof (wi_tx w HW) as Htx. rewrite Ht in Htx. cbn [tx_ok] in Htx. destruct Htx as [Hfresh Hpend].
  destruct (tx_pend t) as [|e0 rest] eqn:Ep.
  { unfold do_commit. rewrite Ep. cbn [fst]. apply (kinv_ext T w); try reflexivity. exact HK. }
  destruct (do_commit None w t) as [w' ok] eqn:Ec. cbn [fst]. destruct ok.
  2:{ rewrite (do_commit_false _ _ _ Ec). exact HK. }
  destruct (do_commit_ok w t w' HM Ec) as (ws0 & rl & l & A & B & C & _ & El & Hl & _).
  { rewrite Ep. discriminate. }
  apply (kinv_append T w w' (ws0 ++ [rl]) (tx_id t)); try assumption.
  - exact (minv_sorted_all w HM).
  - intros r Hr. destruct (written_sound ws0 rl l r Hl Hr) as (e & He & _ & Hid). rewrite <- El, Ep in He.
    rewrite Forall_forall in Hpend. destruct (Hpend e He) as (_ & X & _). rewrite Hid. exact X.
  - rewrite C. apply commit_index_ix_kv.
Qed.

(** Open establishes [KInv] from scratch *)
Lemma open_kinv : forall T o d, KInv T (do_open o d).
Proof.
  intros T o d b k. left. rewrite kvl_open. destruct (do_open_records o d) as [_ B]. rewrite B.
  unfold recs. unfold do_open. cbn [w_disk]. rewrite all_records_create. reflexivity.
Qed.

Theorem step_kinv : forall T now w c, WInv w -> KInv T w -> call_ok w c -> KInv T (fst (step now w c)).
Proof.
  intros T now w c HW HK Hc. destruct c as [wr id|o| | | |o]; cbn [step].
  - destruct (w_closed w); [exact HK|]. cbn [fst]. apply (kinv_ext T w); try reflexivity. exact HK.
  - destruct (w_tx w) as [|t|] eqn:Et; try exact HK.
    pose proof (do_op_world now w t o) as Hw.
    destruct (do_op now w t o) as [[w' t'] r]. cbn [fst snd] in *. subst w'.
    apply (kinv_ext T w); try reflexivity. exact HK.
  - destruct (w_tx w) as [|t|] eqn:Et; try exact HK.
    pose proof (commit_kinv T w t HW HK Et) as H. destruct (do_commit None w t) as [w' ok]. exact H.
  - destruct (w_tx w) as [|t|] eqn:Et; exact HK.
  - destruct (w_closed w); exact HK.
  - cbn [fst]. apply open_kinv.
Qed.

(** ------------------------------------------------------------------ *)
(** * 3. One step of Merge keeps [KInv]                                  *)
(** ------------------------------------------------------------------ *)

(** dropping the records [A] at the head of the log: fine as soon as a record
    of [A] the index still points at is dead *)
Lemma krel_drop : forall T comm b k A R x,
  krel T (kv_run comm b k None (A ++ R)) x ->
  (forall r, In r A -> run_cond comm b k r = true -> x = Some (kr_of r) -> dead_by T (kr_of r)) ->
  krel T (kv_run comm b k None R) x.
Proof.
  intros T comm b k A R x H Hdead. rewrite kv_run_app, kv_run_acc in H.
  destruct (kv_run comm b k None R) as [z|] eqn:ER; [exact H|].
  destruct (kv_run comm b k None A) as [r0|] eqn:EA; [|exact H].
  destruct H as [H|[H _]]; [|discriminate H].
  destruct (kv_run_some_inv comm b k A r0 EA) as [r (Hin & Hc & Hr0)]. subst r0.
  right. split; [reflexivity|]. exists (kr_of r). split; [symmetry; exact H|].
  apply (Hdead r Hin Hc). symmetry. exact H.
Qed.

Lemma is_filter_dead : forall now e, is_filter now e = true ->
  e_flag e <> F_Set \/ is_expired now (e_ttl e) (e_ts e) = true.
Proof.
  intros now e H. destruct (N.eq_dec (e_flag e) F_Set) as [E|E]; [right|left; exact E].
  unfold is_filter in H. rewrite E in H. exact H.
Qed.

(** a committed key/value record the index points at that Merge does not keep is dead *)
Lemma not_kept_dead : forall T now w f p e,
  merge_keep now w f p e = false -> nmem (e_txid e) (w_committed w) = true -> e_ds e = DS_KV ->
  kvl (ix_kv (w_ix w)) (e_bucket e) (e_key e) = Some (krec_of e f p) -> now <= T ->
  dead_by T (krec_of e f p).
Proof.
  intros T now w f p e Hk Hc Hds Hx HT. unfold merge_keep in Hk.
  destruct (is_filter now e) eqn:Ef.
  - destruct (is_filter_dead now e Ef) as [H|H]; [left; exact H|].
    right. exists now. split; [exact HT|exact H].
  - rewrite Hc in Hk. cbn [negb] in Hk. rewrite Hds in Hk. change (DS_KV =? DS_KV) with true in Hk. cbv iota in Hk.
    unfold kvl in Hx. destruct (alookup (ix_kv (w_ix w)) (e_bucket e)) as [kx|] eqn:Eb; [|discriminate Hx].
    rewrite Hx in Hk. cbn [krec_of kr_fid kr_pos] in Hk.
    assert (E1 : ((f <? f) || ((f =? f) && (p <? p))) = false) by lia.
    rewrite E1 in Hk. unfold pending_keep in Hk. rewrite Hds in Hk. change (DS_KV =? DS_KV) with true in Hk.
    cbv iota in Hk. rewrite Eb, Hx in Hk. cbn [krec_of kr_flag] in Hk.
    left. cbn [krec_of kr_flag]. intros E. rewrite E in Hk. discriminate Hk.
Qed.

Lemma kmatch_inv : forall b k e, kmatch b k e = true -> e_ds e = DS_KV /\ e_bucket e = b /\ e_key e = k.
Proof.
  intros b k e H. unfold kmatch in H. apply andb_true_iff in H. destruct H as [H H3].
  apply andb_true_iff in H. destruct H as [H1 H2]. apply N.eqb_eq in H1.
  apply bytes_eqb_eq in H2. apply bytes_eqb_eq in H3. split; [exact H1|split; assumption].
Qed.

Lemma kmatch_esim : forall b k e e', esim e e' -> kmatch b k e' = kmatch b k e.
Proof. intros b k e e' (A1 & A2 & A3 & A4 & A5 & A6). unfold kmatch. rewrite A1, A2, A5. reflexivity. Qed.

(** the log of a world whose lowest file is [f] starts with the records of [f] *)
Definition recsA (w : world) (f : N) := filter (fun r => fid_of r =? f) (recs w).
Definition recsR (w : world) (f : N) := filter (fun r => negb (fid_of r =? f)) (recs w).

Lemma low_split : forall w f, W2 w -> (forall r, In r (recs w) -> f <= fid_of r) -> recs w = recsA w f ++ recsR w f.
Proof.
  intros w f (HM & Hwf & _) Hmin. apply (locs_split_min (recs w) 0 0 f); [|exact Hmin].
  apply all_records_locs; [exact (mi_nodup w HM)|exact Hwf].
Qed.

Lemma in_recsA : forall w f seg r, disk_get (w_disk w) f = Some seg -> In r (recsA w f) ->
  exists p e, r = (f, p, e) /\ In (p, e) seg /\ In r (recs w).
Proof.
  intros w f seg [[g p] e] Hseg Hin. unfold recsA in Hin. apply filter_In in Hin. destruct Hin as [Hin Hg].
  unfold fid_of in Hg. cbn [fst] in Hg. apply N.eqb_eq in Hg. subst g.
  exists p, e. split; [reflexivity|]. split; [|exact Hin].
  unfold recs in Hin. apply in_all_records in Hin. destruct Hin as [s [Hs Hin]].
  rewrite Hseg in Hs. injection Hs as Hs. subst s. exact Hin.
Qed.

Lemma recs_drop_file : forall w f x, recs (drop_file w f x) = recsR w f.
Proof. intros w f x. unfold recs, recsR. cbn [drop_file w_disk]. apply all_records_remove. Qed.

(** removing the lowest file when nothing of it is kept *)
Lemma kinv_drop_nothing_kept : forall T now w w' f seg,
  W2 w -> KInv T w -> (forall r, In r (recs w) -> f <= fid_of r) -> now <= T ->
  disk_get (w_disk w) f = Some seg ->
  (forall p e, In (p, e) seg -> merge_keep now w f p e = false) ->
  recs w' = recsR w f -> w_committed w' = w_committed w -> ix_kv (w_ix w') = ix_kv (w_ix w) ->
  KInv T w'.
Proof.
  intros T now w w' f seg HW HK Hmin HT Hseg Hnone Hr Hc Hix b k. rewrite Hr, Hc, Hix.
  apply (krel_drop T _ b k (recsA w f)).
  - rewrite <- (low_split w f HW Hmin). apply HK.
  - intros r Hin Hcond Hx. destruct (in_recsA w f seg r Hseg Hin) as (p & e & Er & Hpe & _). subst r.
    unfold run_cond in Hcond. cbn [snd] in Hcond. apply andb_true_iff in Hcond. destruct Hcond as [Hcm Hm].
    destruct (kmatch_inv b k e Hm) as (Hds & Hb & Hk). unfold kr_of in *. cbn [fst snd] in *.
    apply (not_kept_dead T now w f p e (Hnone p e Hpe) Hcm Hds); [|exact HT]. rewrite Hb, Hk. exact Hx.
Qed.

(** the rewrite transaction of one step, abstractly *)
Lemma rewrite_commit : forall now w f txid seg e0 rest w2,
  MInv w -> ~ In txid (ids_of (recs w)) -> disk_get (w_disk w) f = Some seg ->
  merge_pend now w f txid seg = e0 :: rest ->
  do_commit None (new_file w) (mkTx txid true (e0 :: rest)) = (w2, true) ->
  exists ws0 rl,
    recs w2 = recs w ++ ws0 ++ [rl] /\
    w_committed w2 = txid :: w_committed w /\
    ix_kv (w_ix w2) = fold_left KVRefine.kv_step (ws0 ++ [rl]) (ix_kv (w_ix w)) /\
    e_status (snd rl) = St_Committed /\
    (forall r', In r' (ws0 ++ [rl]) -> e_txid (snd r') = txid /\ w_maxfid w < fid_of r') /\
    (forall p e, In (p, e) seg -> merge_keep now w f p e = true ->
                 exists r', In r' (ws0 ++ [rl]) /\ esim e (snd r')) /\
    (forall r', In r' (ws0 ++ [rl]) ->
                 exists p e, In (p, e) seg /\ merge_keep now w f p e = true /\ esim e (snd r')).
Proof.
  intros now w f txid seg e0 rest w2 HM Hfresh Hseg Hpend Hc.
  destruct (new_file_minv w HM) as [HM1 Hrecs1].
  destruct (do_commit_ok (new_file w) (mkTx txid true (e0 :: rest)) w2 HM1 Hc) as
    (ws0 & rl & l & A & B & C & Hlocs & El & Hl & _); [cbn [tx_pend]; discriminate|].
  cbn [tx_pend tx_id new_file w_committed w_maxfid w_woff w_ix] in *. rewrite Hrecs1 in A.
  exists ws0, rl.
  split; [exact A|]. split; [exact B|]. split; [rewrite C; apply commit_index_ix_kv|].
  split; [rewrite Hl; reflexivity|]. split; [|split].
  - intros r' Hr'. split.
    + destruct (written_sound ws0 rl l r' Hl Hr') as (e & He & _ & Hid).
      rewrite <- El, <- Hpend in He. rewrite Hid. exact (merge_pend_txid _ _ _ _ _ _ He).
    + destruct r' as [[g q] e]. pose proof (locs_from_in _ _ _ g q e Hlocs Hr') as H2. unfold fid_of. cbn [fst].
      unfold loc_le in H2. lia.
  - intros p e Hin Hk.
    assert (He : In (rewrite_entry txid (p, e)) (map (fun r => snd r) ws0 ++ [l])).
    { rewrite <- El, <- Hpend. unfold merge_pend. apply in_map_iff. exists (p, e). split; [reflexivity|].
      apply filter_In. split; [exact Hin|exact Hk]. }
    destruct (written_complete ws0 rl l _ Hl He) as [r' [Hr' Hsim]]. exists r'. split; [exact Hr'|].
    eapply esim_trans; [|exact Hsim]. exact (esim_rewrite txid (p, e)).
  - intros r' Hr'. destruct (written_sound ws0 rl l r' Hl Hr') as (e & He & Hsim & _).
    rewrite <- El, <- Hpend in He. unfold merge_pend in He. apply in_map_iff in He.
    destruct He as [[p e1] [Ee Hin]]. apply filter_In in Hin. destruct Hin as [Hin Hk]. cbn [fst snd] in Hk.
    exists p, e1. split; [exact Hin|]. split; [exact Hk|]. subst e.
    eapply esim_trans; [|exact Hsim]. exact (esim_rewrite txid (p, e1)).
Qed.

Lemma kv_run_high : forall comm b k W z m,
  (forall r', In r' W -> m < fid_of r') -> kv_run comm b k None W = Some z -> m < kr_fid z.
Proof.
  intros comm b k W z m Hhigh H. destruct (kv_run_some_inv comm b k W z H) as [r (Hin & _ & Ez)].
  subst z. exact (Hhigh r Hin).
Qed.

(** after the rewrite transaction, before the old file is removed *)
Lemma kinv_rewritten : forall T w w2 W txid,
  MInv w -> KInv T w -> ~ In txid (ids_of (recs w)) ->
  recs w2 = recs w ++ W -> w_committed w2 = txid :: w_committed w ->
  ix_kv (w_ix w2) = fold_left KVRefine.kv_step W (ix_kv (w_ix w)) ->
  (forall r', In r' W -> e_txid (snd r') = txid /\ w_maxfid w < fid_of r') ->
  KInv T w2 /\
  (forall b k, kvl (ix_kv (w_ix w2)) b k = kv_run (txid :: w_committed w) b k (kvl (ix_kv (w_ix w)) b k) W).
Proof.
  intros T w w2 W txid HM HK Hfresh A B C Hw. split.
  - apply (kinv_append T w w2 W txid); try assumption.
    + exact (minv_sorted_all w HM).
    + intros r Hr. exact (proj1 (Hw r Hr)).
  - intros b k. rewrite C. rewrite (fold_ix_step_committed (txid :: w_committed w)).
    + exact (proj1 (kvl_fold_ix_step _ W _ b k (minv_sorted_all w HM))).
    + intros r Hin. rewrite (proj1 (Hw r Hin)), nmem_cons, N.eqb_refl. reflexivity.
Qed.

(** ... and after the old (lowest) file is removed *)
Lemma kinv_rewritten_drop : forall T now w w2 w' W txid f seg,
  W2 w -> KInv T w -> ~ In txid (ids_of (recs w)) -> (forall r, In r (recs w) -> f <= fid_of r) -> now <= T ->
  disk_get (w_disk w) f = Some seg ->
  recs w2 = recs w ++ W -> w_committed w2 = txid :: w_committed w ->
  ix_kv (w_ix w2) = fold_left KVRefine.kv_step W (ix_kv (w_ix w)) ->
  (forall r', In r' W -> e_txid (snd r') = txid /\ w_maxfid w < fid_of r') ->
  (forall p e, In (p, e) seg -> merge_keep now w f p e = true -> exists r', In r' W /\ esim e (snd r')) ->
  recs w' = recsR w f ++ W -> w_committed w' = w_committed w2 -> ix_kv (w_ix w') = ix_kv (w_ix w2) ->
  KInv T w'.
Proof.
  intros T now w w2 w' W txid f seg HW HK Hfresh Hmin HT Hseg A B C Hw Hcompl A' B' C' b k.
  destruct HW as (HM & HW').
  destruct (kinv_rewritten T w w2 W txid HM HK Hfresh A B C Hw) as [HK2 Hix2].
  assert (Hfid : f <= w_maxfid w) by (apply (mi_max w HM); exact (disk_get_some_in _ _ _ Hseg)).
  rewrite A', B', C'.
  apply (krel_drop T _ b k (recsA w f)).
  - rewrite app_assoc, <- (low_split w f (conj HM HW') Hmin), <- A. apply HK2.
  - intros r Hin Hcond Hx. destruct (in_recsA w f seg r Hseg Hin) as (p & e & Er & Hpe & Hrw). subst r.
    unfold run_cond in Hcond. cbn [snd] in Hcond. apply andb_true_iff in Hcond. destruct Hcond as [Hcm Hm].
    destruct (kmatch_inv b k e Hm) as (Hds & Hb & Hk). unfold kr_of in *. cbn [fst snd] in *.
    rewrite B in Hcm. pose proof (fresh_not_comm txid (recs w) (w_committed w) (f, p, e) Hfresh Hrw) as Hfc.
    cbn [snd] in Hfc. rewrite Hfc in Hcm. clear Hfc.
    rewrite Hix2, kv_run_acc in Hx.
    destruct (kv_run (txid :: w_committed w) b k None W) as [z|] eqn:EW.
    + exfalso. pose proof (kv_run_high _ b k W z (w_maxfid w) (fun r' Hr' => proj2 (Hw r' Hr')) EW) as Hz.
      injection Hx as Hx. subst z. cbn [krec_of kr_fid] in Hz. lia.
    + destruct (merge_keep now w f p e) eqn:Ekeep.
      * exfalso. destruct (Hcompl p e Hpe Ekeep) as [r' [Hr' Hsim]].
        pose proof (kv_run_none_inv _ b k W EW r' Hr') as Hn. unfold run_cond in Hn.
        rewrite (proj1 (Hw r' Hr')), nmem_cons, N.eqb_refl in Hn. cbn [orb andb] in Hn.
        rewrite (kmatch_esim b k e (snd r') Hsim), Hm in Hn. discriminate Hn.
      * apply (not_kept_dead T now w f p e Ekeep Hcm Hds); [|exact HT]. rewrite Hb, Hk. exact Hx.
Qed.

Lemma merge_pend_nil_none_kept : forall now w f txid seg,
  merge_pend now w f txid seg = [] -> forall p e, In (p, e) seg -> merge_keep now w f p e = false.
Proof.
  intros now w f txid seg H p e Hin. destruct (merge_keep now w f p e) eqn:E; [|reflexivity]. exfalso.
  assert (He : In (rewrite_entry txid (p, e)) (merge_pend now w f txid seg)).
  { unfold merge_pend. apply in_map_iff. exists (p, e). split; [reflexivity|]. apply filter_In. split; [exact Hin|exact E]. }
  rewrite H in He. destruct He.
Qed.

Lemma recsR_app_high : forall w2 w W f,
  recs w2 = recs w ++ W -> (forall r', In r' W -> f < fid_of r') ->
  recsR w2 f = recsR w f ++ W.
Proof.
  intros w2 w W f A Hhigh. unfold recsR. rewrite A, filter_app. f_equal. apply filter_all_true.
  intros r' Hr'. pose proof (Hhigh r' Hr'). destruct (fid_of r' =? f) eqn:E; [lia|reflexivity].
Qed.

(** PRESERVATION: one step of Merge (at a clock <= T) on the lowest file keeps [KInv T] *)
Theorem merge_file_kinv : forall T now w f txid,
  now <= T -> W2 w -> KInv T w -> ~ In txid (ids_of (recs w)) -> (forall r, In r (recs w) -> f <= fid_of r) ->
  KInv T (fst (merge_file now w f txid)).
Proof.
  intros T now w f txid HT HW HK Hfresh Hmin. rewrite merge_file_eq.
  destruct (disk_get (w_disk w) f) as [seg|] eqn:Eseg; [|exact HK].
  pose proof HW as (HM & _).
  assert (Hfid : f <= w_maxfid w) by (apply (mi_max w HM); exact (disk_get_some_in _ _ _ Eseg)).
  destruct (new_file_minv w HM) as [HM1 Hrecs1].
  destruct (merge_pend now w f txid seg) as [|e0 rest] eqn:Epend.
  - cbn [fst]. pose proof (merge_pend_nil_none_kept now w f txid seg Epend) as Hnone.
    destruct (f =? w_maxfid w).
    + apply (kinv_drop_nothing_kept T now w _ f seg HW HK Hmin HT Eseg Hnone); try reflexivity.
      rewrite recs_drop_file. unfold recsR. rewrite Hrecs1. reflexivity.
    + apply (kinv_drop_nothing_kept T now w _ f seg HW HK Hmin HT Eseg Hnone); try reflexivity.
      apply recs_drop_file.
  - cbv beta iota zeta.
    destruct (do_commit None (new_file w) (mkTx txid true (e0 :: rest))) as [w2 ok] eqn:Ec.
    cbn [fst snd]. destruct ok; cbn [fst].
    + destruct (rewrite_commit now w f txid seg e0 rest w2 HM Hfresh Eseg Epend Ec)
        as (ws0 & rl & A & B & C & _ & Hw & Hcompl & _).
      apply (kinv_rewritten_drop T now w w2 _ (ws0 ++ [rl]) txid f seg HW HK Hfresh Hmin HT Eseg A B C Hw Hcompl);
        try reflexivity.
      rewrite recs_drop_file. apply (recsR_app_high w2 w _ f A).
      intros r' Hr'. pose proof (proj2 (Hw r' Hr')). lia.
    + apply (kinv_ext T w); try reflexivity; [exact Hrecs1|exact HK].
Qed.

(** Merge (at a clock <= T) keeps [KInv T] *)
Theorem do_merge_kinv : forall T now w txid0,
  now <= T -> W2 w -> KInv T w -> (forall k, ~ In (txid0 + k) (ids_of (recs w))) -> KInv T (fst (do_merge now w txid0)).
Proof.
  intros T now w txid0 HT. apply (do_merge_ind (KInv T) now). intros. apply merge_file_kinv; assumption.
Qed.

(** ------------------------------------------------------------------ *)
(** * 4. [KInv T] holds in every reachable world whose Merges ran at clocks <= T *)
(** ------------------------------------------------------------------ *)

Fixpoint merge_clocks_le (T : N) (l : list act) : Prop :=
  match l with
  | [] => True
  | ACall _ :: r => merge_clocks_le T r
  | AMerge n _ :: r => n <= T /\ merge_clocks_le T r
  end.

Theorem reachable_kinv : forall T now0 l o,
  acts_ok now0 (empty_world o) l -> merge_clocks_le T l -> KInv T (run_acts now0 (empty_world o) l).
Proof.
  intros T now0 l o. generalize (winv_empty o) (kinv_empty T o). generalize (empty_world o).
  induction l as [|a r IH]; intros w HW HK H HT; [exact HK|].
  cbn [acts_ok] in H. destruct H as [A B]. cbn [run_acts]. apply IH; [| |exact B|].
  - apply act_step_winv; assumption.
  - destruct a as [c|n txid0]; cbn [act_step act_ok merge_clocks_le] in *.
    + apply step_kinv; assumption.
    + destruct A as [_ Hfresh]. destruct HT as [Hn _].
      apply do_merge_kinv; [exact Hn|exact (wi_w2 w HW)|exact HK|exact Hfresh].
  - destruct a as [c|n txid0]; cbn [merge_clocks_le] in HT; [exact HT|exact (proj2 HT)].
Qed.

(** ------------------------------------------------------------------ *)
(** * 5. The crash points of Merge                                       *)
(** ------------------------------------------------------------------ *)

(** the directories that can be on disk when the process dies during the step
    of Merge on file [f] (world [w], internal transaction id [txid]):
    (a) nothing of the step happened yet;
    (b) the new segment was created (empty) — only when there is something to
        rewrite, or when the file is the active one and holds only dead records;
    (c) k < n of the n rewritten records were written (none carries the commit
        marker: it is on the last one);
    (d) all n were written, the old file is still there;
    (e) the old file was removed: the step is over. *)
Inductive step_crash_disk (now : N) (w : world) (f txid : N) : disk -> Prop :=
| SC_before : step_crash_disk now w f txid (w_disk w)
| SC_created : forall seg,
    disk_get (w_disk w) f = Some seg ->
    merge_pend now w f txid seg <> [] \/ f = w_maxfid w ->
    step_crash_disk now w f txid (disk_create (w_disk w) (w_maxfid w + 1))
| SC_partial : forall seg k,
    disk_get (w_disk w) f = Some seg ->
    existsb (fun e => o_seg (w_opts w) <? entry_size e) (merge_pend now w f txid seg) = false ->
    (k < length (merge_pend now w f txid seg))%nat ->
    step_crash_disk now w f txid
      (c_disk (fst (commit_loop (o_seg (w_opts w)) false
                      (mkC (disk_create (w_disk w) (w_maxfid w + 1)) (w_maxfid w + 1) 0 0)
                      (firstn k (merge_pend now w f txid seg)))))
| SC_written : forall seg,
    disk_get (w_disk w) f = Some seg ->
    merge_pend now w f txid seg <> [] ->
    snd (do_commit None (new_file w) (mkTx txid true (merge_pend now w f txid seg))) = true ->
    step_crash_disk now w f txid
      (w_disk (fst (do_commit None (new_file w) (mkTx txid true (merge_pend now w f txid seg)))))
| SC_after : step_crash_disk now w f txid (w_disk (fst (merge_file now w f txid))).

(** ... during the loop of Merge over the files [fids]: in the step of the
    first file, or — when that step succeeded — later *)
Inductive merges_crash_disk (now : N) : world -> list N -> N -> disk -> Prop :=
| MC_here : forall w f r txid d,
    step_crash_disk now w f txid d -> merges_crash_disk now w (f :: r) txid d
| MC_later : forall w f r txid d,
    snd (merge_file now w f txid) = true ->
    merges_crash_disk now (fst (merge_file now w f txid)) r (txid + 1) d ->
    merges_crash_disk now w (f :: r) txid d.

(** ... during [do_merge now w txid0] *)
Inductive merge_crash_disk (now : N) (w : world) (txid0 : N) : disk -> Prop :=
| MCD_idle : merge_crash_disk now w txid0 (w_disk w)
| MCD_run : forall d,
    w_closed w = false -> (2 <= length (disk_fids (w_disk w)))%nat ->
    merges_crash_disk now w (disk_fids (w_disk w)) txid0 d ->
    merge_crash_disk now w txid0 d.

(** sanity: the directory Merge leaves when it returns is one of them *)
Lemma merges_crash_disk_final : forall now L w txid, L <> [] ->
  merges_crash_disk now w L txid (w_disk (fst (merge_files now w L txid))).
Proof.
  intros now L. induction L as [|f r IH]; intros w txid Hne; [contradiction|].
  cbn [merge_files]. destruct (merge_file now w f txid) as [w1 ok] eqn:E1.
  assert (Ew1 : w1 = fst (merge_file now w f txid)) by (rewrite E1; reflexivity).
  assert (Eok : ok = snd (merge_file now w f txid)) by (rewrite E1; reflexivity).
  destruct ok.
  - destruct r as [|g r'].
    + cbn [merge_files fst]. apply MC_here. rewrite Ew1. apply SC_after.
    + apply MC_later; [symmetry; exact Eok|]. rewrite <- Ew1. apply IH. discriminate.
  - cbn [fst]. apply MC_here. rewrite Ew1. apply SC_after.
Qed.

Lemma merge_crash_disk_final : forall now w txid0, merge_crash_disk now w txid0 (w_disk (fst (do_merge now w txid0))).
Proof.
  intros now w txid0. unfold do_merge. destruct (w_closed w) eqn:Ec; [apply MCD_idle|].
  destruct (disk_fids (w_disk w)) as [|a [|b l]] eqn:Ef; [apply MCD_idle|apply MCD_idle|].
  apply MCD_run; [exact Ec|rewrite Ef; cbn [length]; lia|]. rewrite Ef.
  apply merges_crash_disk_final. discriminate.
Qed.

(** ------------------------------------------------------------------ *)
(** * 6. What Open rebuilds from a crash directory                       *)
(** ------------------------------------------------------------------ *)

(** key by key, Open on [d] rebuilds the index of [wX] (up to dead records) *)
Definition open_krel (T : N) (d : disk) (wX : world) : Prop := forall b k,
  krel T (kv_run (committed_ids (all_records d)) b k None (all_records d)) (kvl (ix_kv (w_ix wX)) b k).

Lemma comm_agree_gen : forall comm rs,
  marked comm rs ->
  (forall r, In r rs -> e_status (snd r) = St_Committed -> nmem (e_txid (snd r)) comm = true) ->
  forall r, In r rs -> nmem (e_txid (snd r)) (committed_ids rs) = nmem (e_txid (snd r)) comm.
Proof.
  intros comm rs Hm Hc r Hin. destruct (nmem (e_txid (snd r)) comm) eqn:E.
  - destruct (marked_marker _ _ r Hm Hin E) as [m (Hm1 & Hid & Hst)].
    apply in_nmem. rewrite <- Hid. exact (in_committed_ids _ m Hm1 Hst).
  - destruct (nmem (e_txid (snd r)) (committed_ids rs)) eqn:E2; [|reflexivity].
    apply nmem_in in E2. destruct (committed_ids_inv _ _ E2) as [m (Hm1 & Hst & Hid)].
    pose proof (Hc m Hm1 Hst) as X. rewrite Hid, E in X. discriminate X.
Qed.

Lemma open_krel_of : forall T d wX comm,
  (forall r, In r (all_records d) -> nmem (e_txid (snd r)) (committed_ids (all_records d)) = nmem (e_txid (snd r)) comm) ->
  (forall b k, krel T (kv_run comm b k None (all_records d)) (kvl (ix_kv (w_ix wX)) b k)) ->
  open_krel T d wX.
Proof.
  intros T d wX comm Hag H b k. rewrite (kv_run_comm_ext _ comm b k (all_records d) None Hag). apply H.
Qed.

Lemma kinv_open_krel : forall T w, DSInv w -> KInv T w -> open_krel T (w_disk w) w.
Proof. intros T w HD HK. apply (open_krel_of T (w_disk w) w (w_committed w)); [exact (comm_agree w HD)|exact HK]. Qed.

(** extra records of a transaction that has no commit marker are invisible *)
Lemma open_krel_partial : forall T d w ws txid,
  DSInv w -> KInv T w -> ~ In txid (ids_of (recs w)) ->
  all_records d = recs w ++ ws ->
  (forall r, In r ws -> e_txid (snd r) = txid /\ e_status (snd r) = 0) ->
  open_krel T d w.
Proof.
  intros T d w ws txid HD HK Hfresh Hd Hws b k. rewrite Hd.
  assert (Hc0 : committed_ids ws = []).
  { rewrite committed_ids_cids. apply cids_unmarked. apply Forall_forall. intros e He.
    apply in_map_iff in He. destruct He as [r [Er Hr]]. subst e. exact (proj2 (Hws r Hr)). }
  rewrite committed_ids_app, Hc0, app_nil_r, kv_run_app.
  rewrite (kv_run_no_match _ b k ws).
  - rewrite (kv_run_comm_ext _ (w_committed w) b k (recs w) None (comm_agree w HD)). apply HK.
  - intros r Hr. unfold run_cond. rewrite (proj1 (Hws r Hr)), (not_in_nmem txid (recs w) Hfresh). reflexivity.
Qed.

Lemma merge_pend_status : forall now w fid txid seg e, In e (merge_pend now w fid txid seg) -> e_status e = 0.
Proof.
  intros now w fid txid seg e H. unfold merge_pend in H. apply in_map_iff in H.
  destruct H as [pe [E _]]. subst e. reflexivity.
Qed.

(** every crash directory of one step of Merge on the lowest file is rebuilt
    by Open into the index before the step, or into the index after it *)
Lemma step_crash_open : forall T now w f txid d,
  now <= T -> W2 w -> KInv T w -> DSInv w -> ~ In txid (ids_of (recs w)) ->
  (forall r, In r (recs w) -> f <= fid_of r) ->
  step_crash_disk now w f txid d ->
  open_krel T d w \/ open_krel T d (fst (merge_file now w f txid)).
Proof.
  intros T now w f txid d HT HW HK HD Hfresh Hmin Hd.
  pose proof HW as (HM & _). destruct (new_file_minv w HM) as [HM1 Hrecs1].
  destruct Hd as [|seg Hseg Hor|seg k Hseg Hex Hk|seg Hseg Hne Hok|].
  - left. exact (kinv_open_krel T w HD HK).
  - left. apply (open_krel_partial T _ w [] txid HD HK Hfresh).
    + rewrite all_records_create, app_nil_r. reflexivity.
    + intros r [].
  - left.
    destruct (commit_loop (o_seg (w_opts w)) false
                (mkC (disk_create (w_disk w) (w_maxfid w + 1)) (w_maxfid w + 1) 0 0)
                (firstn k (merge_pend now w f txid seg))) as [st ws] eqn:EL.
    pose proof (mi_nodup _ HM1) as N1. pose proof (mi_max_in _ HM1) as N2. pose proof (mi_max _ HM1) as N3.
    cbn [new_file w_disk w_maxfid] in N1, N2, N3.
    destruct (commit_loop_records _ _ _ (mkC (disk_create (w_disk w) (w_maxfid w + 1)) (w_maxfid w + 1) 0 0) _ _
                N1 N2 N3 EL) as (A & B & _).
    cbn [c_disk fst] in *. unfold recs in Hrecs1. cbn [new_file w_disk] in Hrecs1. rewrite Hrecs1 in A.
    fold (recs w) in A.
    apply (open_krel_partial T _ w ws txid HD HK Hfresh A).
    intros r Hr.
    assert (He : In (snd r) (merge_pend now w f txid seg)).
    { apply (in_firstn k). rewrite <- B. apply in_map_iff. exists r. split; [reflexivity|exact Hr]. }
    split; [exact (merge_pend_txid _ _ _ _ _ _ He)|exact (merge_pend_status _ _ _ _ _ _ He)].
  - right.
    destruct (merge_pend now w f txid seg) as [|e0 rest] eqn:Epend; [contradiction|].
    destruct (do_commit None (new_file w) (mkTx txid true (e0 :: rest))) as [w2 ok] eqn:Ec.
    cbn [fst snd] in *. subst ok.
    destruct (rewrite_commit now w f txid seg e0 rest w2 HM Hfresh Hseg Epend Ec)
      as (ws0 & rl & A & B & C & Hst & Hw & _ & _).
    destruct (kinv_rewritten T w w2 (ws0 ++ [rl]) txid HM HK Hfresh A B C Hw) as [HK2 _].
    assert (Eix : ix_kv (w_ix (fst (merge_file now w f txid))) = ix_kv (w_ix w2)).
    { rewrite merge_file_eq, Hseg, Epend. cbv beta iota zeta. rewrite Ec. reflexivity. }
    apply (open_krel_of T (w_disk w2) _ (w_committed w2)).
    + fold (recs w2). apply comm_agree_gen.
      * rewrite A, B. apply marked_app.
        -- apply (marked_comm_ext (w_committed w)); [|exact (di_mark w HD)].
           intros r Hr. exact (fresh_not_comm txid (recs w) _ r Hfresh Hr).
        -- apply (marked_tx _ txid); [|exact Hst]. intros r Hr. exact (proj1 (Hw r Hr)).
      * rewrite A, B. intros r Hin Hs. apply in_app_or in Hin. destruct Hin as [Hin|Hin].
        -- rewrite (fresh_not_comm txid (recs w) _ r Hfresh Hin). exact (di_comm w HD r Hin Hs).
        -- rewrite (proj1 (Hw r Hin)), nmem_cons, N.eqb_refl. reflexivity.
    + intros b k. rewrite Eix. apply HK2.
  - right. apply kinv_open_krel.
    + apply merge_file_dsinv; assumption.
    + apply merge_file_kinv; assumption.
Qed.

(** every crash directory of the loop of Merge is rebuilt by Open into the
    key/value index of a world that holds the contents [s] *)
Lemma merges_crash_open : forall T now s L w txid d,
  now <= T -> merges_crash_disk now w L txid d ->
  W2 w -> KInv T w -> DSInv w -> kvrel w s -> (forall k, ~ In (txid + k) (ids_of (recs w))) -> low_files L w ->
  exists wX, kvrel wX s /\ open_krel T d wX.
Proof.
  intros T now s L w txid d HT Hd.
  induction Hd as [w f r txid d Hstep|w f r txid d Hok Hd IH]; intros HW HK HD Hrel Hfresh Hlow.
  - assert (Hf0 : ~ In txid (ids_of (recs w))) by (rewrite <- (N.add_0_r txid); apply Hfresh).
    destruct (step_crash_open T now w f txid d HT HW HK HD Hf0 (low_files_min f r w Hlow) Hstep) as [H|H].
    + exists w. split; assumption.
    + exists (fst (merge_file now w f txid)). split; [|exact H].
      destruct HW as (HM & _). exact (merge_file_kvrel_corrected now w s f txid Hrel (minv_loc_sound w HM) (minv_latest w HM)).
  - assert (Hf0 : ~ In txid (ids_of (recs w))) by (rewrite <- (N.add_0_r txid); apply Hfresh).
    pose proof HW as (HM & _).
    destruct (merge_file_minv now w f txid HM Hf0) as [_ Hsub].
    apply IH.
    + exact (merge_file_w2 now w f txid HW Hf0).
    + exact (merge_file_kinv T now w f txid HT HW HK Hf0 (low_files_min f r w Hlow)).
    + exact (merge_file_dsinv now w f txid HW HD Hf0 (low_files_min f r w Hlow)).
    + exact (merge_file_kvrel_corrected now w s f txid Hrel (minv_loc_sound w HM) (minv_latest w HM)).
    + intros k Hin. unfold ids_of in Hin. apply in_map_iff in Hin. destruct Hin as [x [Ex Hx]].
      destruct (Hsub x Hx) as [H|H].
      * apply (Hfresh (1 + k)). unfold ids_of. apply in_map_iff. exists x. split; [lia|exact H].
      * lia.
    + exact (low_files_step now f r w txid HM Hf0 Hlow Hok).
Qed.

Lemma merge_crash_open : forall T now s w txid0 d,
  now <= T -> merge_crash_disk now w txid0 d ->
  W2 w -> KInv T w -> DSInv w -> kvrel w s -> (forall k, ~ In (txid0 + k) (ids_of (recs w))) ->
  exists wX, kvrel wX s /\ open_krel T d wX.
Proof.
  intros T now s w txid0 d HT Hd HW HK HD Hrel Hfresh. destruct Hd as [|d Hc Hlen Hd].
  - exists w. split; [exact Hrel|exact (kinv_open_krel T w HD HK)].
  - apply (merges_crash_open T now s _ w txid0 d HT Hd HW HK HD Hrel Hfresh).
    exact (low_files_init w (proj1 HW)).
Qed.

(** ------------------------------------------------------------------ *)
(** * 7. From the index to the specification state                       *)
(** ------------------------------------------------------------------ *)

(** the live part of a bucket at clock T (a missing bucket has no live pair) *)
Definition live_part (T : N) (m : option skv) : skv :=
  match m with Some l => filter (fun kv => v_live T (snd kv)) l | None => [] end.

(** two specification states hold the same live key/value pairs (value,
    timestamp and ttl) at clock T, bucket by bucket *)
Definition kv_same_live (T : N) (s s' : sstate) : Prop :=
  forall b, live_part T (alookup (s_kv s) b) = live_part T (alookup (s_kv s') b).

Lemma alookup_map_snd : forall {A B} (g : A -> B) (m : list (bytes * A)) b,
  alookup (map (fun x => (fst x, g (snd x))) m) b = option_map g (alookup m b).
Proof.
  intros A B g m b. induction m as [|[k v] t IH]; [reflexivity|].
  cbn [map alookup fst snd]. destruct (bytes_eqb k b); [reflexivity|exact IH].
Qed.

Lemma kv_find_notin : forall t k, Forall (fun kr : bytes * krec => bltb k (fst kr) = true) t -> kv_find t k = None.
Proof.
  induction t as [|[k' r'] t IH]; intros k H; [reflexivity|].
  inversion H as [|x l Hx Hl]; subst. cbn [fst] in Hx. cbn [kv_find].
  rewrite (IndexFacts.bytes_eqb_neq k' k).
  - exact (IH k Hl).
  - intros E. subst k'. rewrite bltb_irrefl in Hx. discriminate Hx.
Qed.

Lemma ksorted_in_find : forall ix k r, ksorted ix -> In (k, r) ix -> kv_find ix k = Some r.
Proof.
  induction ix as [|[k' r'] t IH]; intros k r Hs Hin; [destruct Hin|].
  apply ksorted_inv in Hs as [Hst Hfa]. cbn [kv_find]. destruct Hin as [Hin|Hin].
  - injection Hin as E1 E2. subst k' r'. rewrite IndexFacts.bytes_eqb_refl. reflexivity.
  - rewrite (IndexFacts.bytes_eqb_neq k' k); [exact (IH k r Hst Hin)|].
    rewrite Forall_forall in Hfa. pose proof (Hfa (k, r) Hin) as Hlt. cbn [fst] in Hlt. exact (bltb_neq _ _ Hlt).
Qed.

Lemma Forall_filter : forall {A} (P : A -> Prop) (p : A -> bool) l, Forall P l -> Forall P (filter p l).
Proof.
  intros A P p l H. apply Forall_forall. intros x Hx. apply filter_In in Hx. rewrite Forall_forall in H. exact (H x (proj1 Hx)).
Qed.

Lemma ksorted_filter : forall p ix, ksorted ix -> ksorted (filter p ix).
Proof.
  intros p. induction ix as [|[k r] t IH]; intros Hs; [exact Hs|].
  apply ksorted_inv in Hs as [Hst Hfa]. cbn [filter]. destruct (p (k, r)); [|exact (IH Hst)].
  apply ksorted_cons; [exact (IH Hst)|apply Forall_filter; exact Hfa].
Qed.

Lemma kv_find_filter : forall p ix k, ksorted ix ->
  kv_find (filter p ix) k = match kv_find ix k with Some r => if p (k, r) then Some r else None | None => None end.
Proof.
  intros p. induction ix as [|[k' r'] t IH]; intros k Hs; [reflexivity|].
  apply ksorted_inv in Hs as [Hst Hfa]. cbn [filter kv_find].
  destruct (bytes_eqb k' k) eqn:E.
  - apply bytes_eqb_eq in E. subst k'. destruct (p (k, r')) eqn:Ep.
    + cbn [kv_find]. rewrite IndexFacts.bytes_eqb_refl. reflexivity.
    + apply kv_find_notin. apply Forall_filter. exact Hfa.
  - destruct (p (k', r')); [cbn [kv_find]; rewrite E|]; exact (IH k Hst).
Qed.

(** two key-sorted indexes with the same lookups are equal *)
Lemma ksorted_ext : forall l1 l2, ksorted l1 -> ksorted l2 ->
  (forall k, kv_find l1 k = kv_find l2 k) -> l1 = l2.
Proof.
  induction l1 as [|[k1 r1] t1 IH]; intros l2 H1 H2 Heq.
  - destruct l2 as [|[k2 r2] t2]; [reflexivity|]. specialize (Heq k2). cbn [kv_find] in Heq.
    rewrite IndexFacts.bytes_eqb_refl in Heq. discriminate Heq.
  - destruct l2 as [|[k2 r2] t2].
    + specialize (Heq k1). cbn [kv_find] in Heq. rewrite IndexFacts.bytes_eqb_refl in Heq. discriminate Heq.
    + apply ksorted_inv in H1 as [Hs1 Hf1]. apply ksorted_inv in H2 as [Hs2 Hf2].
      destruct (bcompare k1 k2) eqn:Ec.
      * apply bcompare_eq in Ec. subst k2.
        pose proof (Heq k1) as E1. cbn [kv_find] in E1. rewrite IndexFacts.bytes_eqb_refl in E1. injection E1 as E1. subst r2.
        f_equal. apply (IH t2 Hs1 Hs2). intros k. destruct (bytes_eqb k1 k) eqn:E.
        -- apply bytes_eqb_eq in E. subst k. rewrite (kv_find_notin t1 k1 Hf1), (kv_find_notin t2 k1 Hf2). reflexivity.
        -- specialize (Heq k). cbn [kv_find] in Heq. rewrite E in Heq. exact Heq.
      * exfalso. apply bltb_lt in Ec. specialize (Heq k1). cbn [kv_find] in Heq.
        rewrite IndexFacts.bytes_eqb_refl in Heq.
        rewrite (IndexFacts.bytes_eqb_neq k2 k1) in Heq.
        2:{ intros E. subst k2. rewrite bltb_irrefl in Ec. discriminate Ec. }
        rewrite (kv_find_notin t2 k1) in Heq; [discriminate Heq|].
        exact (Forall_lt_trans k1 k2 t2 Ec Hf2).
      * exfalso. apply bltb_gt in Ec. specialize (Heq k2). cbn [kv_find] in Heq.
        rewrite IndexFacts.bytes_eqb_refl in Heq.
        rewrite (IndexFacts.bytes_eqb_neq k1 k2) in Heq.
        2:{ intros E. subst k2. rewrite bltb_irrefl in Ec. discriminate Ec. }
        rewrite (kv_find_notin t1 k2) in Heq; [discriminate Heq|].
        exact (Forall_lt_trans k2 k1 t1 Ec Hf1).
Qed.

(** the live part of the abstraction is the abstraction of the live records *)
Lemma live_filter_abs : forall T ix, kv_ok ix ->
  filter (fun kv => v_live T (snd kv)) (abs_kv ix) = map abs_rec (filter (live_rec T) ix).
Proof.
  intros T. induction ix as [|[k r] t IH]; intros Hok; [reflexivity|].
  specialize (IH (kv_ok_tail _ _ Hok)).
  destruct (Hok k r (or_introl eq_refl)) as [_ Hw].
  rewrite abs_kv_cons. cbn [filter]. unfold live_rec at 1. cbn [snd].
  rewrite kr_dead_unfold. destruct (kr_flag r =? F_Del) eqn:Ef; cbn [orb negb]; [exact IH|].
  rewrite (expired_live T (kr_ttl r) (kr_ts r) Hw), negb_involutive.
  cbn [filter snd]. unfold v_live at 1. cbn [v_ttl v_ts].
  destruct ((kr_ttl r =? 0) || (T <? kr_ts r + kr_ttl r)); [|exact IH].
  cbn [map]. rewrite IH. reflexivity.
Qed.

Definition lix (T : N) (o : option kvidx) : kvidx :=
  match o with Some ix => filter (live_rec T) ix | None => [] end.

Definition flive (T : N) (x : option krec) : option krec :=
  match x with Some r => if kr_dead T r then None else Some r | None => None end.

Lemma lix_find : forall T kv b k, sorted_all kv -> kv_find (lix T (alookup kv b)) k = flive T (kvl kv b k).
Proof.
  intros T kv b k Hs. unfold kvl. destruct (alookup kv b) as [ix|] eqn:Eb; [|reflexivity].
  cbn [lix]. rewrite (kv_find_filter (live_rec T) ix k (Hs b ix Eb)).
  unfold flive. destruct (kv_find ix k) as [r|]; [|reflexivity].
  unfold live_rec. cbn [snd]. destruct (kr_dead T r); reflexivity.
Qed.

Lemma lix_sorted : forall T kv b, sorted_all kv -> ksorted (lix T (alookup kv b)).
Proof.
  intros T kv b Hs. destruct (alookup kv b) as [ix|] eqn:Eb; [|constructor].
  cbn [lix]. apply ksorted_filter. exact (Hs b ix Eb).
Qed.

(** a record dead by T (tombstone, or expired at a clock <= T) is dead at T *)
Lemma dead_by_dead : forall T r,
  (kr_flag r = F_Del \/ kr_flag r = F_Set) -> kr_ts r + kr_ttl r < 2 ^ 64 -> dead_by T r -> kr_dead T r = true.
Proof.
  intros T r Hfl Hw [H|[n [Hn He]]]; rewrite kr_dead_unfold.
  - destruct Hfl as [Hfl|Hfl]; [rewrite Hfl; reflexivity|contradiction].
  - rewrite (expired_live n _ _ Hw) in He. rewrite (expired_live T _ _ Hw).
    destruct (kr_flag r =? F_Del); [reflexivity|]. cbn [orb].
    destruct (kr_ttl r =? 0) eqn:E1; [discriminate He|]. cbn [orb] in *.
    destruct (n <? kr_ts r + kr_ttl r) eqn:E2; [discriminate He|].
    destruct (T <? kr_ts r + kr_ttl r) eqn:E3; [lia|reflexivity].
Qed.

Lemma kvrel_sorted_all : forall w s, kvrel w s -> sorted_all (ix_kv (w_ix w)).
Proof. intros w s H b ix Eb. specialize (H b). rewrite Eb in H. exact (proj1 H). Qed.

Lemma kvrel_kvl_ok : forall w s b k r, kvrel w s -> kvl (ix_kv (w_ix w)) b k = Some r ->
  (kr_flag r = F_Del \/ kr_flag r = F_Set) /\ kr_ts r + kr_ttl r < 2 ^ 64.
Proof.
  intros w s b k r H Hk. unfold kvl in Hk. specialize (H b).
  destruct (alookup (ix_kv (w_ix w)) b) as [ix|]; [|discriminate Hk].
  destruct H as (_ & Hok & _). exact (Hok k r (kv_find_in ix k r Hk)).
Qed.

(** THE ABSTRACTION STEP: when Open on [d] rebuilds, key by key, the index of a
    world [wX] that holds the contents [s] (up to records dead by T), the
    recovered world holds contents [s'] with the same live pairs at T *)
Lemma open_krel_contents : forall T d wX s o',
  kvrel wX s -> open_krel T d wX ->
  exists s', kvrel (do_open o' d) s' /\ kv_same_live T s s'.
Proof.
  intros T d wX s o' Hrel Hopen.
  set (wr := do_open o' d).
  assert (Hk : forall b k, krel T (kvl (ix_kv (w_ix wr)) b k) (kvl (ix_kv (w_ix wX)) b k)).
  { intros b k. unfold wr. rewrite kvl_open. apply Hopen. }
  pose proof (open_sorted_all o' d) as Hsr. fold wr in Hsr.
  pose proof (kvrel_sorted_all wX s Hrel) as HsX.
  assert (Hokr : forall b k r, kvl (ix_kv (w_ix wr)) b k = Some r ->
                 (kr_flag r = F_Del \/ kr_flag r = F_Set) /\ kr_ts r + kr_ttl r < 2 ^ 64).
  { intros b k r Hr. destruct (Hk b k) as [H|[H _]]; [|rewrite Hr in H; discriminate H].
    rewrite Hr in H. exact (kvrel_kvl_ok wX s b k r Hrel (eq_sym H)). }
  exists (mkS (map (fun x => (fst x, abs_kv (snd x))) (ix_kv (w_ix wr))) (s_ds s)).
  assert (Hrelr : kvrel wr (mkS (map (fun x => (fst x, abs_kv (snd x))) (ix_kv (w_ix wr))) (s_ds s))).
  { intros b. cbn [s_kv]. rewrite alookup_map_snd.
    destruct (alookup (ix_kv (w_ix wr)) b) as [ix|] eqn:Eb; [|reflexivity].
    assert (Hfind : forall k r, In (k, r) ix -> kvl (ix_kv (w_ix wr)) b k = Some r).
    { intros k r Hin. unfold kvl. rewrite Eb. exact (ksorted_in_find ix k r (Hsr b ix Eb) Hin). }
    split; [exact (Hsr b ix Eb)|]. split; [|split; [|reflexivity]].
    - intros k r Hin. exact (Hokr b k r (Hfind k r Hin)).
    - intros k r Hin. pose proof (Hfind k r Hin) as Hr. unfold wr in Hr. rewrite kvl_open in Hr.
      destruct (kv_run_some_inv _ b k _ r Hr) as [r0 (_ & Hc & Er)]. subst r.
      unfold run_cond in Hc. apply andb_true_iff in Hc. destruct Hc as [Hc _].
      unfold wr. destruct (do_open_records o' d) as [_ B]. rewrite B. exact Hc. }
  split; [exact Hrelr|].
  intros b. cbn [s_kv]. rewrite alookup_map_snd.
  assert (EX : live_part T (alookup (s_kv s) b) = map abs_rec (lix T (alookup (ix_kv (w_ix wX)) b))).
  { pose proof (Hrel b) as Hb. destruct (alookup (ix_kv (w_ix wX)) b) as [ix|].
    - destruct Hb as (_ & Hok & _ & Ha). rewrite Ha. cbn [live_part lix]. apply live_filter_abs. exact Hok.
    - rewrite Hb. reflexivity. }
  assert (ER : live_part T (option_map abs_kv (alookup (ix_kv (w_ix wr)) b)) =
               map abs_rec (lix T (alookup (ix_kv (w_ix wr)) b))).
  { pose proof (Hrelr b) as Hb. destruct (alookup (ix_kv (w_ix wr)) b) as [ix|]; [|reflexivity].
    destruct Hb as (_ & Hok & _). cbn [option_map live_part lix]. apply live_filter_abs. exact Hok. }
  rewrite EX, ER. f_equal.
  apply ksorted_ext; [apply lix_sorted; exact HsX|apply lix_sorted; exact Hsr|].
  intros k. rewrite (lix_find T _ b k HsX), (lix_find T _ b k Hsr).
  destruct (Hk b k) as [H|[H [r [Hx Hd]]]]; [rewrite H; reflexivity|].
  rewrite H, Hx. cbn [flive].
  destruct (kvrel_kvl_ok wX s b k r Hrel Hx) as [Hfl Hw]. rewrite (dead_by_dead T r Hfl Hw Hd). reflexivity.
Qed.

(** ------------------------------------------------------------------ *)
(** * 8. MAIN THEOREM                                                    *)
(** ------------------------------------------------------------------ *)

(** under the invariants *)
Theorem merge_crash_preserves_kv_inv : forall T now w s txid0 d o',
  now <= T -> W2 w -> KInv T w -> DSInv w -> kvrel w s ->
  (forall k, ~ In (txid0 + k) (ids_of (recs w))) ->
  merge_crash_disk now w txid0 d ->
  exists s', kvrel (do_open o' d) s' /\ kv_same_live T s s'.
Proof.
  intros T now w s txid0 d o' HT HW HK HD Hrel Hfresh Hd.
  destruct (merge_crash_open T now s w txid0 d HT Hd HW HK HD Hrel Hfresh) as [wX [HrelX Hopen]].
  exact (open_krel_contents T d wX s o' HrelX Hopen).
Qed.

(** C16, key/value data.  [w] is any world reachable by engine calls, reopens
    and Merges; [T] is any clock not earlier than the clocks of those Merges
    and of this one; [d] is any directory the process can leave behind when it
    dies during [do_merge now w txid0].  Reopening [d] (any options) yields a
    world whose key/value contents [s'] have exactly the live pairs of the
    contents [s] before the Merge. *)
Theorem merge_crash_preserves_kv : forall now0 l o now s txid0 d o' T,
  acts_ok now0 (empty_world o) l -> merge_clocks_le T l -> now <= T ->
  let w := run_acts now0 (empty_world o) l in
  kvrel w s -> (forall k, ~ In (txid0 + k) (ids_of (recs w))) ->
  merge_crash_disk now w txid0 d ->
  exists s', kvrel (do_open o' d) s' /\ kv_same_live T s s'.
Proof.
  intros now0 l o now s txid0 d o' T Hacts Hclk HT w Hrel Hfresh Hd.
  apply (merge_crash_preserves_kv_inv T now w s txid0 d o' HT); try assumption.
  - exact (wi_w2 w (reachable_winv now0 l o Hacts)).
  - exact (reachable_kinv T now0 l o Hacts Hclk).
  - exact (reachable_dsinv now0 l o Hacts).
Qed.

(** ------------------------------------------------------------------ *)
(** * 9. Consequence: every key/value read answers as before the Merge  *)
(** ------------------------------------------------------------------ *)

(** the key/value reads of the specification are functions of the live part *)
Definition to_pairs (l : skv) : list (bytes * bytes) := map (fun kv => (fst kv, v_val (snd kv))) l.

Definition read_live (LP : bytes -> skv) (o : op) : option res :=
  match o with
  | OGet b k => Some match skv_get (LP b) k with Some v => REntry k (v_val v) | None => RErr end
  | OGetAll b => Some (pairs_res (to_pairs (LP b)) 0)
  | ORangeScan b st en =>
      Some (if bltb en st then RErr
            else pairs_res (filter (fun kv => bleb st (fst kv) && bleb (fst kv) en) (to_pairs (LP b))) 0)
  | OPrefixScan b p off lim =>
      Some (let l := filter (fun kv => has_prefix (fst kv) p) (to_pairs (LP b)) in
            let coff := zmin (Z.max off 0) (zlen l) in
            let rest := skipn (Z.to_nat coff) l in
            if (0 <? lim)%Z then pairs_res (firstn (Z.to_nat lim) rest) coff
            else if (lim =? -1)%Z then pairs_res rest coff
            else RErr)
  | OPrefixSearchScan b p bad ms off lim =>
      Some (if bad then RErr
            else
              let l := filter (fun kv => has_prefix (fst kv) p) (to_pairs (LP b)) in
              let coff := zmin (Z.max off 0) (zlen l) in
              let rest := filter (fun kv => bmem (skipn (length p) (fst kv)) ms) (skipn (Z.to_nat coff) l) in
              if (0 <? lim)%Z then pairs_res (firstn (Z.to_nat lim) rest) coff
              else if (lim =? -1)%Z then pairs_res rest coff
              else RErr)
  | _ => None
  end.

Lemma skv_get_notin_keys : forall m k, ~ In k (map fst m) -> skv_get m k = None.
Proof.
  induction m as [|[k' v'] t IH]; intros k H; [reflexivity|]. cbn [skv_get].
  destruct (bytes_eqb k' k) eqn:E.
  - apply bytes_eqb_eq in E. subst k'. exfalso. apply H. left. reflexivity.
  - apply IH. intros X. apply H. right. exact X.
Qed.

Lemma skv_get_filter : forall (p : bytes * kvval -> bool) m k, NoDup (map fst m) ->
  skv_get (filter p m) k = match skv_get m k with Some v => if p (k, v) then Some v else None | None => None end.
Proof.
  intros p. induction m as [|[k' v'] t IH]; intros k Hnd; [reflexivity|].
  cbn [map fst] in Hnd. inversion Hnd as [|x l Hnotin Hnd']; subst.
  cbn [filter skv_get]. destruct (bytes_eqb k' k) eqn:E.
  - apply bytes_eqb_eq in E. subst k'. destruct (p (k, v')) eqn:Ep.
    + cbn [skv_get]. rewrite IndexFacts.bytes_eqb_refl. reflexivity.
    + apply skv_get_notin_keys. intros X. apply Hnotin. apply in_map_iff in X. destruct X as [y [Ey Hy]].
      apply filter_In in Hy. apply in_map_iff. exists y. split; [exact Ey|exact (proj1 Hy)].
  - destruct (p (k', v')); [cbn [skv_get]; rewrite E|]; exact (IH k Hnd').
Qed.

Lemma abs_kv_nodup : forall ix, ksorted ix -> NoDup (map fst (abs_kv ix)).
Proof.
  induction ix as [|[k r] t IH]; intros Hs; [constructor|].
  apply ksorted_inv in Hs as [Hst Hfa]. rewrite abs_kv_cons.
  destruct (kr_flag r =? F_Del); [exact (IH Hst)|].
  cbn [map fst]. constructor; [|exact (IH Hst)].
  intros X. apply in_map_iff in X. destruct X as [y [Ey Hy]].
  pose proof (abs_forall (fun x => bltb k x = true) t Hfa) as HF. rewrite Forall_forall in HF.
  pose proof (HF y Hy) as Hlt. rewrite Ey, bltb_irrefl in Hlt. discriminate Hlt.
Qed.

Lemma spec_read_live : forall T w s q, kvrel w s ->
  spec_kv_read T s q = read_live (fun b => live_part T (alookup (s_kv s) b)) q.
Proof.
  intros T w s q Hrel.
  assert (Hnd : forall b m, alookup (s_kv s) b = Some m -> NoDup (map fst m)).
  { intros b m Hb. specialize (Hrel b). destruct (alookup (ix_kv (w_ix w)) b) as [ix|].
    - destruct Hrel as (Hs & _ & _ & Ha). rewrite Ha in Hb. injection Hb as Hb. subst m. exact (abs_kv_nodup ix Hs).
    - rewrite Hrel in Hb. discriminate Hb. }
  destruct q; try reflexivity; cbn [spec_kv_read read_live];
    destruct (alookup (s_kv s) b) as [m|] eqn:Eb; cbn [live_part].
  - rewrite (skv_get_filter _ m k (Hnd b m Eb)). cbn [snd].
    destruct (skv_get m k) as [v|]; [|reflexivity]. destruct (v_live T v); reflexivity.
  - reflexivity.
  - reflexivity.
  - reflexivity.
  - reflexivity.
  - destruct (bltb e s0); reflexivity.
  - reflexivity.
  - cbn [to_pairs map filter]. cbv zeta. change (zlen (@nil (bytes * bytes))) with 0%Z.
    unfold zmin. rewrite skipn_nil, firstn_nil.
    destruct (0 <? lim)%Z; [reflexivity|]. destruct (lim =? -1)%Z; reflexivity.
  - reflexivity.
  - destruct bad; [reflexivity|]. cbn [to_pairs map filter]. cbv zeta. change (zlen (@nil (bytes * bytes))) with 0%Z.
    unfold zmin. rewrite skipn_nil. cbn [filter]. rewrite firstn_nil.
    destruct (0 <? lim)%Z; [reflexivity|]. destruct (lim =? -1)%Z; reflexivity.
Qed.

Lemma read_live_ext : forall LP1 LP2 q, (forall b, LP1 b = LP2 b) -> read_live LP1 q = read_live LP2 q.
Proof. intros LP1 LP2 q H. destruct q; try reflexivity; cbn [read_live]; rewrite (H b); reflexivity. Qed.

(** states with the same live pairs at T answer every key/value read at T alike *)
Theorem same_live_reads : forall T w s w' s' q,
  kvrel w s -> kvrel w' s' -> kv_same_live T s s' -> spec_kv_read T s q = spec_kv_read T s' q.
Proof.
  intros T w s w' s' q H1 H2 H. rewrite (spec_read_live T w s q H1), (spec_read_live T w' s' q H2).
  apply read_live_ext. exact H.
Qed.

(** every key/value read (HintKeyValAndRAMIdxMode) at a clock T >= the clocks
    of the Merges returns, on the world recovered from any crash directory of
    Merge, exactly what it returned before the Merge started *)
Theorem merge_crash_reads_unchanged : forall now0 l o now s txid0 d o' T t t' q,
  acts_ok now0 (empty_world o) l -> merge_clocks_le T l -> now <= T ->
  let w := run_acts now0 (empty_world o) l in
  kvrel w s -> (forall k, ~ In (txid0 + k) (ids_of (recs w))) ->
  merge_crash_disk now w txid0 d ->
  o_mode (w_opts w) = 0 -> o_mode o' = 0 -> is_kv_read q = true ->
  snd (do_op T (do_open o' d) t q) = snd (do_op T w t' q).
Proof.
  intros now0 l o now s txid0 d o' T t t' q Hacts Hclk HT w Hrel Hfresh Hd Hm Hm' Hq.
  destruct (merge_crash_preserves_kv now0 l o now s txid0 d o' T Hacts Hclk HT Hrel Hfresh Hd) as [s' [Hrel' Hsame]].
  fold w in Hrel'.
  destruct (kv_reads_refine T w s t' q Hm Hrel Hq) as (_ & _ & R1).
  assert (Hm2 : o_mode (w_opts (do_open o' d)) = 0) by exact Hm'.
  destruct (kv_reads_refine T (do_open o' d) s' t q Hm2 Hrel' Hq) as (_ & _ & R2).
  rewrite (same_live_reads T w s (do_open o' d) s' q Hrel Hrel' Hsame) in R1. rewrite <- R2 in R1.
  injection R1 as R1. symmetry. exact R1.
Qed.


(** ------------------------------------------------------------------ *)
(** * 10. The statement with [kvrel ... s] itself is false; the clock hypothesis is needed *)
(** ------------------------------------------------------------------ *)
(** Put 1 (ttl 5, written at 0) | Put 2 ; Put 3 (second file).  Merge at clock
    10 drops the expired record of key 1.  Before the Merge the index (hence
    the specification state [s]) holds key 1 — expired, but there; after a
    crash (here: at the very end of Merge) and a reopen it is gone.  So
    [kvrel (do_open o' d) s] fails; what holds is that the LIVE pairs at every
    clock T >= 10 are the same ([merge_crash_preserves_kv]).  At a clock
    earlier than the Merge's (T = 3: key 1 not yet expired) the recovered
    database answers differently: the hypothesis [now <= T] is necessary. *)
Definition tt_o : opts := mkOpts 0 FileIO FileIO false 100.
Definition tt_acts : list act :=
  [ACall (CBegin true 1); ACall (COp (OPut cx_b [x31] [x76] 5 0)); ACall CCommit;
   ACall (CBegin true 2); ACall (COp (OPut cx_b [x32] [x76] 0 0)); ACall CCommit;
   ACall (CBegin true 3); ACall (COp (OPut cx_b [x33] [x76] 0 0)); ACall CCommit].
Definition tt_w : world := run_acts 0 (empty_world tt_o) tt_acts.
Definition tt_s : sstate :=
  mkS [(cx_b, [([x31], mkV [x76] 0 5); ([x32], mkV [x76] 0 0); ([x33], mkV [x76] 0 0)])] ix_empty.
Definition tt_d : disk := w_disk (fst (do_merge 10 tt_w 10)).
Definition tt_get (T : N) (w : world) (k : bytes) : res := snd (do_op T w (mkTx 99 false []) (OGet cx_b k)).

Lemma tt_acts_ok : acts_ok 0 (empty_world tt_o) tt_acts.
Proof.
  vm_compute. repeat split; try exact I.
  - intros [].
  - intros [X|[]]; discriminate X.
  - intros [X|[X|[]]]; discriminate X.
Qed.

Lemma tt_ix : ix_kv (w_ix tt_w) =
  [(cx_b, [([x31], mkK F_Set 0 5 1 0 0 [x76]); ([x32], mkK F_Set 0 0 2 0 45 [x76]); ([x33], mkK F_Set 0 0 3 1 0 [x76])])].
Proof. vm_compute. reflexivity. Qed.

Lemma tt_kvrel : kvrel tt_w tt_s.
Proof.
  intros b. rewrite tt_ix. cbn [alookup tt_s s_kv].
  destruct (bytes_eqb cx_b b) eqn:E; [|reflexivity].
  split; [|split; [|split]].
  - repeat constructor.
  - intros k r [H|[H|[H|[]]]]; injection H as H1 H2; subst k r; cbn; split; try (right; reflexivity); reflexivity.
  - intros k r [H|[H|[H|[]]]]; injection H as H1 H2; subst k r; vm_compute; reflexivity.
  - vm_compute. reflexivity.
Qed.

Lemma tt_fresh : forall k, ~ In (10 + k) (ids_of (recs tt_w)).
Proof.
  assert (E : ids_of (recs tt_w) = [1; 2; 3]) by (vm_compute; reflexivity).
  intros k Hin. rewrite E in Hin. destruct Hin as [X|[X|[X|[]]]]; lia.
Qed.

Lemma tt_crash : merge_crash_disk 10 tt_w 10 tt_d.
Proof. apply merge_crash_disk_final. Qed.

(** the main statement with [kvrel (do_open o' d) s] as conclusion is FALSE:
    every hypothesis holds of this instance, the conclusion does not *)
Theorem merge_crash_kvrel_exact_false :
  acts_ok 0 (empty_world tt_o) tt_acts /\
  tt_w = run_acts 0 (empty_world tt_o) tt_acts /\
  kvrel tt_w tt_s /\
  (forall k, ~ In (10 + k) (ids_of (recs tt_w))) /\
  merge_crash_disk 10 tt_w 10 tt_d /\
  ~ kvrel (do_open tt_o tt_d) tt_s.
Proof.
  split; [exact tt_acts_ok|]. split; [reflexivity|]. split; [exact tt_kvrel|]. split; [exact tt_fresh|].
  split; [exact tt_crash|]. intros H. pose proof (H cx_b) as X.
  assert (E : ix_kv (w_ix (do_open tt_o tt_d)) =
              [(cx_b, [([x32], mkK F_Set 0 0 10 2 0 [x76]); ([x33], mkK F_Set 0 0 11 3 0 [x76])])])
    by (vm_compute; reflexivity).
  rewrite E in X. cbn [alookup] in X. rewrite IndexFacts.bytes_eqb_refl in X.
  destruct X as (_ & _ & _ & X). vm_compute in X. discriminate X.
Qed.

(** ... and the clock hypothesis of [merge_crash_reads_unchanged] is necessary *)
Example merge_crash_clock_hypothesis_needed :
  tt_get 3 tt_w [x31] = REntry [x31] [x76] /\                 (* at clock 3 < 10 key 1 is live before the Merge *)
  tt_get 3 (do_open tt_o tt_d) [x31] = RErr /\                (* ... and gone after the crash + reopen *)
  tt_get 10 tt_w [x31] = RErr /\                              (* at clock 10 (and later) it is expired before *)
  tt_get 10 (do_open tt_o tt_d) [x31] = RErr /\               (* ... and after *)
  tt_get 10 tt_w [x32] = REntry [x32] [x76] /\
  tt_get 10 (do_open tt_o tt_d) [x32] = REntry [x32] [x76].
Proof. vm_compute. repeat split; reflexivity. Qed.

(** ... and so is the hypothesis on the clocks of the EARLIER Merges
    ([merge_clocks_le]): after a Merge at clock 10 the running process still
    holds the expired record of key 1 in its index; for a clock that runs
    backwards (3) the key is live in that world, while any directory left by a
    later Merge (here: the one it starts from) recovers to a database without it *)
Definition tt_w2 : world := run_acts 0 (empty_world tt_o) (tt_acts ++ [AMerge 10 10]).

Lemma tt_acts2_ok : acts_ok 0 (empty_world tt_o) (tt_acts ++ [AMerge 10 10]).
Proof.
  apply acts_ok_snoc; [exact tt_acts_ok|]. unfold act_ok. split; [right; vm_compute; reflexivity|].
  assert (E : ids_of (recs (run_acts 0 (empty_world tt_o) tt_acts)) = [1; 2; 3]) by (vm_compute; reflexivity).
  intros k Hin. rewrite E in Hin. destruct Hin as [X|[X|[X|[]]]]; lia.
Qed.

Example merge_crash_history_clocks_needed :
  acts_ok 0 (empty_world tt_o) (tt_acts ++ [AMerge 10 10]) /\
  ~ merge_clocks_le 3 (tt_acts ++ [AMerge 10 10]) /\
  merge_crash_disk 3 tt_w2 20 (w_disk tt_w2) /\
  tt_get 3 tt_w2 [x31] = REntry [x31] [x76] /\
  tt_get 3 (do_open tt_o (w_disk tt_w2)) [x31] = RErr.
Proof.
  split; [exact tt_acts2_ok|]. split; [|split; [apply MCD_idle|]].
  - unfold tt_acts. cbn [app merge_clocks_le]. intros [H _]. lia.
  - vm_compute. split; reflexivity.
Qed.

(** ------------------------------------------------------------------ *)
(** * 11. The same for SETS (memberships)                                *)
(** ------------------------------------------------------------------ *)

Definition open_mem (d : disk) (S : list (bytes * smap)) : Prop := forall b k x,
  mem_run (committed_ids (all_records d)) b k x false (all_records d) = ismem S b k x.

Lemma ismem_open : forall o d b k x,
  ismem (ix_set (w_ix (do_open o d))) b k x = mem_run (committed_ids (all_records d)) b k x false (all_records d).
Proof.
  intros o d b k x. destruct (do_open_records o d) as [A _]. rewrite A. unfold replay.
  rewrite ismem_replay_fold. reflexivity.
Qed.

Lemma dsinv_open_mem : forall w, DSInv w -> open_mem (w_disk w) (ix_set (w_ix w)).
Proof.
  intros w HD b k x. fold (recs w).
  rewrite (mem_run_comm_ext _ (w_committed w) b k x (recs w) false (comm_agree w HD)).
  symmetry. apply (di_set w HD).
Qed.

Lemma open_mem_partial : forall d w ws txid,
  DSInv w -> ~ In txid (ids_of (recs w)) ->
  all_records d = recs w ++ ws ->
  (forall r, In r ws -> e_txid (snd r) = txid /\ e_status (snd r) = 0) ->
  open_mem d (ix_set (w_ix w)).
Proof.
  intros d w ws txid HD Hfresh Hd Hws b k x. rewrite Hd.
  assert (Hc0 : committed_ids ws = []).
  { rewrite committed_ids_cids. apply cids_unmarked. apply Forall_forall. intros e He.
    apply in_map_iff in He. destruct He as [r [Er Hr]]. subst e. exact (proj2 (Hws r Hr)). }
  rewrite committed_ids_app, Hc0, app_nil_r, mem_run_app.
  rewrite (mem_run_no_match _ b k x ws).
  - exact (dsinv_open_mem w HD b k x).
  - intros r Hr Hn. rewrite (proj1 (Hws r Hr)), (not_in_nmem txid (recs w) Hfresh) in Hn. discriminate Hn.
Qed.

Lemma step_crash_open_mem : forall now w f txid d,
  W2 w -> DSInv w -> ~ In txid (ids_of (recs w)) -> (forall r, In r (recs w) -> f <= fid_of r) ->
  step_crash_disk now w f txid d ->
  open_mem d (ix_set (w_ix w)).
Proof.
  intros now w f txid d HW HD Hfresh Hmin Hd.
  pose proof HW as (HM & _). destruct (new_file_minv w HM) as [HM1 Hrecs1].
  destruct Hd as [|seg Hseg Hor|seg k Hseg Hex Hk|seg Hseg Hne Hok|].
  - exact (dsinv_open_mem w HD).
  - apply (open_mem_partial _ w [] txid HD Hfresh).
    + rewrite all_records_create, app_nil_r. reflexivity.
    + intros r [].
  - destruct (commit_loop (o_seg (w_opts w)) false
                (mkC (disk_create (w_disk w) (w_maxfid w + 1)) (w_maxfid w + 1) 0 0)
                (firstn k (merge_pend now w f txid seg))) as [st ws] eqn:EL.
    pose proof (mi_nodup _ HM1) as N1. pose proof (mi_max_in _ HM1) as N2. pose proof (mi_max _ HM1) as N3.
    cbn [new_file w_disk w_maxfid] in N1, N2, N3.
    destruct (commit_loop_records _ _ _ (mkC (disk_create (w_disk w) (w_maxfid w + 1)) (w_maxfid w + 1) 0 0) _ _
                N1 N2 N3 EL) as (A & B & _).
    cbn [c_disk fst] in *. unfold recs in Hrecs1. cbn [new_file w_disk] in Hrecs1. rewrite Hrecs1 in A.
    fold (recs w) in A.
    apply (open_mem_partial _ w ws txid HD Hfresh A).
    intros r Hr.
    assert (He : In (snd r) (merge_pend now w f txid seg)).
    { apply (in_firstn k). rewrite <- B. apply in_map_iff. exists r. split; [reflexivity|exact Hr]. }
    split; [exact (merge_pend_txid _ _ _ _ _ _ He)|exact (merge_pend_status _ _ _ _ _ _ He)].
  - destruct (merge_pend now w f txid seg) as [|e0 rest] eqn:Epend; [contradiction|].
    destruct (do_commit None (new_file w) (mkTx txid true (e0 :: rest))) as [w2 ok] eqn:Ec.
    cbn [fst snd] in *. subst ok.
    destruct (rewrite_commit now w f txid seg e0 rest w2 HM Hfresh Hseg Epend Ec)
      as (ws0 & rl & A & B & C & Hst & Hw & _ & Hsound).
    intros b k x. fold (recs w2).
    assert (Hag : forall r, In r (recs w2) ->
                  nmem (e_txid (snd r)) (committed_ids (recs w2)) = nmem (e_txid (snd r)) (txid :: w_committed w)).
    { apply comm_agree_gen.
      * rewrite A. apply marked_app.
        -- apply (marked_comm_ext (w_committed w)); [|exact (di_mark w HD)].
           intros r Hr. exact (fresh_not_comm txid (recs w) _ r Hfresh Hr).
        -- apply (marked_tx _ txid); [|exact Hst]. intros r Hr. exact (proj1 (Hw r Hr)).
      * rewrite A. intros r Hin Hs. apply in_app_or in Hin. destruct Hin as [Hin|Hin].
        -- rewrite (fresh_not_comm txid (recs w) _ r Hfresh Hin). exact (di_comm w HD r Hin Hs).
        -- rewrite (proj1 (Hw r Hin)), nmem_cons, N.eqb_refl. reflexivity. }
    rewrite (mem_run_comm_ext _ (txid :: w_committed w) b k x (recs w2) false Hag).
    rewrite A, mem_run_app.
    rewrite (mem_run_comm_ext (txid :: w_committed w) (w_committed w) b k x (recs w) false).
    2:{ intros r Hr. exact (fresh_not_comm txid (recs w) _ r Hfresh Hr). }
    rewrite <- (di_set w HD b k x).
    assert (Hs : forall r', In r' (ws0 ++ [rl]) -> smatch b k x (snd r') = true ->
                 ismem (ix_set (w_ix w)) b k x = true /\ e_flag (snd r') <> F_Del).
    { intros r' Hr' Hsm. destruct (Hsound r' Hr') as (p & e & Hpe & Hkeep & Hsim).
      rewrite (smatch_esim b k x _ _ Hsim) in Hsm. destruct (smatch_true b k x _ Hsm) as (Hds & Hb & Hkk & Hv).
      destruct (merge_keep_set_inv now w f p e Hkeep Hds) as [X Y]. rewrite Hb, Hkk, Hv in X.
      split; [exact X|]. destruct Hsim as (_ & _ & _ & Hfl & _). rewrite Hfl. exact Y. }
    destruct (ismem (ix_set (w_ix w)) b k x) eqn:Em.
    + apply mem_run_no_del. intros r' Hr' _ Hsm. exact (proj2 (Hs r' Hr' Hsm)).
    + apply mem_run_no_match. intros r' Hr' _. destruct (smatch b k x (snd r')) eqn:Esm; [|reflexivity].
      destruct (Hs r' Hr' Esm) as [X _]. discriminate X.
  - rewrite <- (proj1 (merge_file_ds_unchanged now w f txid)). apply dsinv_open_mem.
    apply merge_file_dsinv; assumption.
Qed.

Lemma merges_crash_open_mem : forall now L w txid d,
  merges_crash_disk now w L txid d ->
  W2 w -> DSInv w -> (forall k, ~ In (txid + k) (ids_of (recs w))) -> low_files L w ->
  open_mem d (ix_set (w_ix w)).
Proof.
  intros now L w txid d Hd.
  induction Hd as [w f r txid d Hstep|w f r txid d Hok Hd IH]; intros HW HD Hfresh Hlow.
  - assert (Hf0 : ~ In txid (ids_of (recs w))) by (rewrite <- (N.add_0_r txid); apply Hfresh).
    exact (step_crash_open_mem now w f txid d HW HD Hf0 (low_files_min f r w Hlow) Hstep).
  - assert (Hf0 : ~ In txid (ids_of (recs w))) by (rewrite <- (N.add_0_r txid); apply Hfresh).
    pose proof HW as (HM & _).
    destruct (merge_file_minv now w f txid HM Hf0) as [_ Hsub].
    rewrite <- (proj1 (merge_file_ds_unchanged now w f txid)). apply IH.
    + exact (merge_file_w2 now w f txid HW Hf0).
    + exact (merge_file_dsinv now w f txid HW HD Hf0 (low_files_min f r w Hlow)).
    + intros k Hin. unfold ids_of in Hin. apply in_map_iff in Hin. destruct Hin as [x [Ex Hx]].
      destruct (Hsub x Hx) as [H|H].
      * apply (Hfresh (1 + k)). unfold ids_of. apply in_map_iff. exists x. split; [lia|exact H].
      * lia.
    + exact (low_files_step now f r w txid HM Hf0 Hlow Hok).
Qed.

(** under the invariants *)
Theorem merge_crash_preserves_set_members_inv : forall now w txid0 d o',
  W2 w -> DSInv w -> (forall k, ~ In (txid0 + k) (ids_of (recs w))) ->
  merge_crash_disk now w txid0 d ->
  forall b k x, ismem (ix_set (w_ix (do_open o' d))) b k x = ismem (ix_set (w_ix w)) b k x.
Proof.
  intros now w txid0 d o' HW HD Hfresh Hd b k x. rewrite ismem_open. destruct Hd as [|d Hc Hlen Hd].
  - exact (dsinv_open_mem w HD b k x).
  - exact (merges_crash_open_mem now _ w txid0 d Hd HW HD Hfresh (low_files_init w (proj1 HW)) b k x).
Qed.

(** C16, sets: whatever the point at which the process dies during Merge, after
    the reopen every set has exactly the members it had before the Merge
    started (no clock hypothesis: set records do not expire) *)
Theorem merge_crash_preserves_set_members : forall now0 l o now txid0 d o',
  acts_ok now0 (empty_world o) l ->
  let w := run_acts now0 (empty_world o) l in
  (forall k, ~ In (txid0 + k) (ids_of (recs w))) ->
  merge_crash_disk now w txid0 d ->
  forall b k x, ismem (ix_set (w_ix (do_open o' d))) b k x = ismem (ix_set (w_ix w)) b k x.
Proof.
  intros now0 l o now txid0 d o' Hacts w Hfresh Hd.
  apply (merge_crash_preserves_set_members_inv now w txid0 d o'); try assumption.
  - exact (wi_w2 w (reachable_winv now0 l o Hacts)).
  - exact (reachable_dsinv now0 l o Hacts).
Qed.

Lemma open_set_wf : forall o d, set_wf (ix_set (w_ix (do_open o d))).
Proof.
  intros o d. destruct (do_open_records o d) as [A _]. rewrite A. unfold replay.
  apply replay_set_wf. exact set_wf_nil.
Qed.

(** key level, with the F30 exception (a key without member, a bucket whose
    keys have no member, may be gone after the reopen): every set key that had
    at least one member before the Merge is there after the crash + reopen with
    the same members, and nothing new appears *)
Theorem merge_crash_preserves_set_keys : forall now0 l o now txid0 d o',
  acts_ok now0 (empty_world o) l ->
  let w := run_acts now0 (empty_world o) l in
  (forall k, ~ In (txid0 + k) (ids_of (recs w))) ->
  merge_crash_disk now w txid0 d ->
  let wr := do_open o' d in
  (forall b s k m, alookup (ix_set (w_ix w)) b = Some s -> alookup s k = Some m -> m <> [] ->
     exists s' m', alookup (ix_set (w_ix wr)) b = Some s' /\ alookup s' k = Some m' /\ Permutation m m' /\
                   s_members s' k = s_members s k) /\
  (forall b s' k m', alookup (ix_set (w_ix wr)) b = Some s' -> alookup s' k = Some m' -> m' <> [] ->
     exists s m, alookup (ix_set (w_ix w)) b = Some s /\ alookup s k = Some m /\ Permutation m' m /\
                 s_members s k = s_members s' k).
Proof.
  intros now0 l o now txid0 d o' Hacts w Hfresh Hd wr.
  pose proof (reachable_dsinv now0 l o Hacts) as HD. fold w in HD.
  pose proof (merge_crash_preserves_set_members now0 l o now txid0 d o' Hacts Hfresh Hd) as Heq.
  fold w in Heq. fold wr in Heq.
  pose proof (open_set_wf o' d) as Hwr. fold wr in Hwr.
  split.
  - apply (same_members_keys _ _ (di_swf w HD) Hwr). exact Heq.
  - apply (same_members_keys _ _ Hwr (di_swf w HD)). intros b k x. symmetry. apply Heq.
Qed.

(** ------------------------------------------------------------------ *)
(** * 12. Sorted sets: the property FAILS (finding F31)                  *)
(** ------------------------------------------------------------------ *)
(** WHY.  For key/value and set data a record speaks about ONE key / member,
    whatever the rest of the log: dropping older dead records, or replaying a
    rewritten copy after the removal records of the files not yet merged,
    changes nothing ([krel_drop], [mem_run_no_del]).  The removal records of
    sorted sets ZPopMin / ZPopMax / ZRemRangeByRank name their victim by
    POSITION in the sorted set as it is when the record is replayed.  Merge
    rewrites the live nodes of the lowest file INTO A NEW SEGMENT AT THE END of
    the log and then removes that file, while the positional removal records of
    the files it has not reached yet stay where they are.  In every crash
    directory between the removal of one file and the end of Merge those
    records are therefore replayed against a sorted set that lacks the nodes
    moved behind them: they hit another node (a live node is LOST), or nothing
    (a removed node is RESURRECTED).  A completed Merge is safe only because it
    ends up dropping every removal record ([MergeDS.merge_reopen_zsets]).

    Witness 1 (node lost).  ZAdd a 1 | ZAdd b 2 (file 0); ZAdd c 5 | ZPopMin
    (file 1): the sorted set is {b, c}.  Merge, step 1: b is rewritten into
    file 2, file 0 is removed.  Crash.  Reopen replays file 1 first: ZAdd c,
    then ZPopMin pops c (a and b are not there any more), then file 2: ZAdd b.
    Node c is lost.
    Witness 2 (node resurrected).  ZAdd a 1 | ZAdd b 2 (file 0); ZAdd d 9 |
    ZRemRangeByRank 3 3 (file 1; removes d): the sorted set is {a, b}.  After
    step 1 of Merge (a, b moved to file 2, file 0 removed) the reopen replays
    ZAdd d, then ZRemRangeByRank 3 3 on a one-node set (no rank 3: nothing),
    then a and b: node d is back. *)
Definition zc_o : opts := mkOpts 0 FileIO FileIO false 100.
Definition zc_acts : list act :=
  [ACall (CBegin true 1); ACall (COp (OZAdd zx_b [x61] 1 [x76])); ACall CCommit;
   ACall (CBegin true 2); ACall (COp (OZAdd zx_b [x62] 2 [x76])); ACall CCommit;
   ACall (CBegin true 3); ACall (COp (OZAdd zx_b [x63] 5 [x76])); ACall CCommit;
   ACall (CBegin true 4); ACall (COp (OZPopMin zx_b)); ACall CCommit].
Definition zc_w : world := run_acts 0 (empty_world zc_o) zc_acts.
(** the directory after the first step of Merge: crash point (e) of file 0 = (a) of file 1 *)
Definition zc_d : disk := w_disk (fst (merge_file 0 zc_w 0 10)).

Lemma zc_acts_ok : acts_ok 0 (empty_world zc_o) zc_acts.
Proof.
  vm_compute. repeat split; try exact I.
  - intros [].
  - intros [X|[]]; discriminate X.
  - intros [X|[X|[]]]; discriminate X.
  - intros [X|[X|[X|[]]]]; discriminate X.
Qed.

Lemma zc_fresh : forall k, ~ In (10 + k) (ids_of (recs zc_w)).
Proof.
  assert (E : ids_of (recs zc_w) = [1; 2; 3; 4]) by (vm_compute; reflexivity).
  intros k Hin. rewrite E in Hin. destruct Hin as [X|[X|[X|[X|[]]]]]; lia.
Qed.

Lemma zc_crash : merge_crash_disk 0 zc_w 10 zc_d.
Proof.
  assert (E : disk_fids (w_disk zc_w) = [0; 1]) by (vm_compute; reflexivity).
  apply MCD_run; [vm_compute; reflexivity|rewrite E; cbn [length]; lia|].
  rewrite E. apply MC_here. apply SC_after.
Qed.

Theorem merge_crash_loses_zset_node :
  acts_ok 0 (empty_world zc_o) zc_acts /\
  zc_w = run_acts 0 (empty_world zc_o) zc_acts /\
  (forall k, ~ In (10 + k) (ids_of (recs zc_w))) /\
  merge_crash_disk 0 zc_w 10 zc_d /\                                             (* a crash directory of Merge *)
  map fst zc_d = [1; 2] /\                                                        (* file 0 removed, b rewritten into file 2 *)
  zx_members zc_w zx_b = RNodes [mkZ [x62] 2 [x76]; mkZ [x63] 5 [x76]] /\         (* before Merge: {b, c} *)
  zx_members (do_open zc_o (w_disk zc_w)) zx_b = RNodes [mkZ [x62] 2 [x76]; mkZ [x63] 5 [x76]] /\  (* a plain reopen agrees *)
  zx_members (do_open zc_o zc_d) zx_b = RNodes [mkZ [x62] 2 [x76]] /\              (* crash + reopen: c is LOST *)
  zx_members (do_open zc_o (w_disk (fst (do_merge 0 zc_w 10)))) zx_b =
    RNodes [mkZ [x62] 2 [x76]; mkZ [x63] 5 [x76]].                                (* a completed Merge + reopen is fine *)
Proof.
  split; [exact zc_acts_ok|]. split; [reflexivity|]. split; [exact zc_fresh|]. split; [exact zc_crash|].
  vm_compute. repeat split; reflexivity.
Qed.

Definition zd_acts : list act :=
  [ACall (CBegin true 1); ACall (COp (OZAdd zx_b [x61] 1 [x76])); ACall CCommit;
   ACall (CBegin true 2); ACall (COp (OZAdd zx_b [x62] 2 [x76])); ACall CCommit;
   ACall (CBegin true 3); ACall (COp (OZAdd zx_b [x64] 9 [x76])); ACall CCommit;
   ACall (CBegin true 4); ACall (COp (OZRemRangeByRank zx_b 3 3)); ACall CCommit].
Definition zd_w : world := run_acts 0 (empty_world zc_o) zd_acts.
Definition zd_d : disk := w_disk (fst (merge_file 0 zd_w 0 10)).

Lemma zd_acts_ok : acts_ok 0 (empty_world zc_o) zd_acts.
Proof.
  vm_compute. repeat split; try exact I.
  - intros [].
  - intros [X|[]]; discriminate X.
  - intros [X|[X|[]]]; discriminate X.
  - intros [X|[X|[X|[]]]]; discriminate X.
Qed.

Lemma zd_fresh : forall k, ~ In (10 + k) (ids_of (recs zd_w)).
Proof.
  assert (E : ids_of (recs zd_w) = [1; 2; 3; 4]) by (vm_compute; reflexivity).
  intros k Hin. rewrite E in Hin. destruct Hin as [X|[X|[X|[X|[]]]]]; lia.
Qed.

Lemma zd_crash : merge_crash_disk 0 zd_w 10 zd_d.
Proof.
  assert (E : disk_fids (w_disk zd_w) = [0; 1]) by (vm_compute; reflexivity).
  apply MCD_run; [vm_compute; reflexivity|rewrite E; cbn [length]; lia|].
  rewrite E. apply MC_here. apply SC_after.
Qed.

Theorem merge_crash_resurrects_zset_node :
  acts_ok 0 (empty_world zc_o) zd_acts /\
  zd_w = run_acts 0 (empty_world zc_o) zd_acts /\
  (forall k, ~ In (10 + k) (ids_of (recs zd_w))) /\
  merge_crash_disk 0 zd_w 10 zd_d /\
  map fst zd_d = [1; 2] /\
  zx_members zd_w zx_b = RNodes [mkZ [x61] 1 [x76]; mkZ [x62] 2 [x76]] /\         (* before Merge: {a, b}; d was removed *)
  zx_members (do_open zc_o (w_disk zd_w)) zx_b = RNodes [mkZ [x61] 1 [x76]; mkZ [x62] 2 [x76]] /\
  zx_members (do_open zc_o zd_d) zx_b =
    RNodes [mkZ [x61] 1 [x76]; mkZ [x62] 2 [x76]; mkZ [x64] 9 [x76]] /\           (* crash + reopen: d is BACK *)
  zx_members (do_open zc_o (w_disk (fst (do_merge 0 zd_w 10)))) zx_b =
    RNodes [mkZ [x61] 1 [x76]; mkZ [x62] 2 [x76]].                                (* a completed Merge + reopen is fine *)
Proof.
  split; [exact zd_acts_ok|]. split; [reflexivity|]. split; [exact zd_fresh|]. split; [exact zd_crash|].
  vm_compute. repeat split; reflexivity.
Qed.
