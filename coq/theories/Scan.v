(** Scan.v — the segment scan of Open (db.go parseDataFiles and
    getActiveFileWriteOff, after fixes 29a17b8 and a72e8ce) over the BYTES of a
    data file: decode a record at the current offset, advance by its size, stop
    at the first all-zero header, io.EOF or CRC mismatch; any other read error
    makes Open fail unless the offset already reached the segment size.
    This ties the record-level disk of Engine.v to the byte-level codec. *)
From Verif Require Export Bytes Crc32 Codec.
Open Scope N_scope.

Inductive scan_end := ScanStop | ScanFail.

(** [fuel] bounds the number of records (each is at least 42 bytes long) *)
Fixpoint scan_from (fuel : nat) (m : rwmode) (seg : N) (c : bytes) (off : N) : list (N * entry) * scan_end :=
  match fuel with
  | O => ([], ScanStop)
  | S f =>
      match decode_at m c off with
      | DecOk e _ =>
          let '(rs, en) := scan_from f m seg c (off + entry_size e) in ((off, e) :: rs, en)
      | DecAbsent => ([], ScanStop)
      | DecErr EEOF => ([], ScanStop)
      | DecErr ECrc => ([], ScanStop)
      | DecErr EOOB => if seg <=? off then ([], ScanStop) else ([], ScanFail)
      end
  end.

Definition scan_segment (m : rwmode) (seg : N) (c : bytes) : list (N * entry) * scan_end :=
  scan_from (S (length c / 42)) m seg c 0.

(** the bytes of a segment holding the records [es] back to back, followed by zeros *)
Definition seg_bytes (es : list entry) (pad : nat) : bytes := concat (map encode_entry es) ++ zeros pad.

Fixpoint with_offsets (off : N) (es : list entry) : list (N * entry) :=
  match es with
  | [] => []
  | e :: r => (off, e) :: with_offsets (off + entry_size e) r
  end.
