(** MergeCrashBytes.v — C16 over BYTES.

    MergeCrash.v proves, at record level, that Open on every directory a crash
    inside Merge can leave ([merge_crash_disk]) recovers the same live
    key/value pairs and the same set members.  Here the theorems are lifted to
    the bytes of the data files (DiskBytes.v):

    (1) every crash directory of Merge, run from a world satisfying [W2] and
        [BInv] with internal transaction ids below 2^64, is byte-openable:
        [dir_ok d] = no duplicate file id, every segment contiguous from 0,
        every record [entry_good] ([step_crash_dir_ok], [merges_crash_dir_ok],
        [merge_crash_dir_ok], [merge_crash_dir_ok_reachable]); hence the
        byte-level Open of its data files IS the record-level Open
        ([merge_crash_open_bytes]), also when one file ends — after its complete
        records — in bytes that do not decode ([merge_crash_open_bytes_torn]);
    (2) [merge_crash_preserves_kv_bytes] (torn tail), its two instances
        [..._zeros] / [..._eof], the plain version
        [merge_crash_preserves_kv_bytes_plain], and
        [merge_crash_reads_unchanged_bytes];
    (3) [merge_crash_preserves_set_members_bytes] (+ [_plain], [_zeros],
        [_eof]).

    Hypothesis added to those of MergeCrash.v (besides the size hypotheses of
    DiskBytes.v on the history): the ids of the internal transactions of THIS
    Merge fit 64 bits, [txid0 + length (w_disk w) <= 2^64] — it is
    [act_sizes_ok w (AMerge now txid0)]. *)
From Coq Require Import Sorted Permutation.
From Verif Require Import Bytes BytesFacts Crc32 CrcFacts Codec CodecFacts Scan ScanFacts.
From Verif Require Import Dec DecFacts ListDS ListFacts SetDS ZSetDS Index Engine Spec TxFacts
  IndexFacts SetFacts ZSetFacts ReplayFacts KVRefine ApplyFacts Merge MergeFacts MergeDS PowerLoss.
From Verif Require Import DiskBytes MergeCrash.
From Coq Require Import Lia ZifyN ZifyNat ZifyBool.
Open Scope N_scope.

(** ------------------------------------------------------------------ *)
(** * 1. Every crash directory of Merge is byte-openable                 *)
(** ------------------------------------------------------------------ *)

(** what [open_bytes_of_disk] / [open_bytes_torn] ask of a directory *)
Definition dir_ok (d : disk) : Prop :=
  NoDup (map fst d) /\ disk_wf d /\ disk_entries_ok d.

Lemma w2_binv_dir_ok : forall w, W2 w -> BInv w -> dir_ok (w_disk w).
Proof.
  intros w (HM & Hwf & _) HB. split; [exact (mi_nodup w HM)|]. split; [exact Hwf|exact (bi_disk w HB)].
Qed.

Lemma new_file_cstate : forall w,
  mkC (disk_create (w_disk w) (w_maxfid w + 1)) (w_maxfid w + 1) 0 0 =
  mkC (w_disk (new_file w)) (w_maxfid (new_file w)) (w_woff (new_file w)) (w_asize (new_file w)).
Proof. reflexivity. Qed.

Lemma w2_cstate_ok : forall w, W2 w ->
  cst_ok (mkC (w_disk w) (w_maxfid w) (w_woff w) (w_asize w)) /\
  off_ok (mkC (w_disk w) (w_maxfid w) (w_woff w) (w_asize w)).
Proof.
  intros w (HM & _ & Hoff). split.
  - split; [exact (mi_nodup w HM)|]. split; [exact (mi_max_in w HM)|exact (mi_max w HM)].
  - exact Hoff.
Qed.

(** the records Merge rewrites from a good segment are good *)
Lemma merge_pend_good_w : forall now w f txid seg,
  BInv w -> txid < 2^64 -> disk_get (w_disk w) f = Some seg ->
  Forall entry_good (merge_pend now w f txid seg).
Proof.
  intros now w f txid seg HB Hid Hseg. apply merge_pend_good; [exact Hid|].
  exact (disk_entries_ok_get _ _ _ (bi_disk w HB) Hseg).
Qed.

(** one step of Merge: every crash directory is [dir_ok] *)
Lemma step_crash_dir_ok : forall now w f txid d,
  W2 w -> BInv w -> txid < 2^64 -> ~ In txid (ids_of (recs w)) ->
  step_crash_disk now w f txid d -> dir_ok d.
Proof.
  intros now w f txid d HW HB Hid Hfresh Hd.
  destruct (new_file_w2 w HW) as [HW1 Hrecs1].
  pose proof (new_file_binv w HB) as HB1.
  destruct Hd as [|seg Hseg Hor|seg k Hseg Hex Hk|seg Hseg Hne Hok|].
  - exact (w2_binv_dir_ok w HW HB).
  - exact (w2_binv_dir_ok (new_file w) HW1 HB1).
  - rewrite new_file_cstate.
    destruct (w2_cstate_ok (new_file w) HW1) as [Hc0 Ho0].
    destruct HW1 as (HM1 & Hwf1 & _).
    assert (Hg : Forall entry_good (firstn k (merge_pend now w f txid seg))).
    { apply Forall_firstn_keep. exact (merge_pend_good_w now w f txid seg HB Hid Hseg). }
    pose proof (commit_loop_entries (firstn k (merge_pend now w f txid seg)) (o_seg (w_opts w)) false
                  (mkC (w_disk (new_file w)) (w_maxfid (new_file w)) (w_woff (new_file w)) (w_asize (new_file w)))
                  (bi_disk _ HB1) Hg) as He.
    destruct (commit_loop (o_seg (w_opts w)) false
                (mkC (w_disk (new_file w)) (w_maxfid (new_file w)) (w_woff (new_file w)) (w_asize (new_file w)))
                (firstn k (merge_pend now w f txid seg))) as [st' ws] eqn:EL.
    destruct (commit_loop_spec _ _ _ _ _ _ Hc0 EL) as (_ & _ & (Hnd & _ & _) & _).
    pose proof (commit_loop_wf _ _ _ _ _ _ Hc0 Ho0 Hwf1 EL) as Hwf'.
    cbn [fst] in *. split; [exact Hnd|]. split; [exact Hwf'|exact He].
  - destruct HW1 as (HM1 & Hwf1 & Hoff1).
    pose proof (merge_pend_good_w now w f txid seg HB Hid Hseg) as Hg.
    destruct (commit_minv (new_file w) (mkTx txid true (merge_pend now w f txid seg)) HM1) as (HM2 & _ & _).
    + cbn [tx_id]. rewrite Hrecs1. exact Hfresh.
    + cbn [tx_id tx_pend]. apply Forall_forall. intros e He. exact (merge_pend_txid _ _ _ _ _ _ He).
    + destruct (commit_wf (new_file w) (mkTx txid true (merge_pend now w f txid seg)) HM1 Hwf1 Hoff1) as [Hwf2 _].
      pose proof (do_commit_entries_good (new_file w) (mkTx txid true (merge_pend now w f txid seg))
                    (bi_disk _ HB1) Hg) as He2.
      split; [exact (mi_nodup _ HM2)|]. split; [exact Hwf2|exact He2].
  - apply w2_binv_dir_ok.
    + exact (merge_file_w2 now w f txid HW Hfresh).
    + exact (merge_file_binv now w f txid HB Hid).
Qed.

(** the loop of Merge *)
Lemma merges_crash_dir_ok : forall now L w txid d,
  merges_crash_disk now w L txid d ->
  W2 w -> BInv w -> (forall k, ~ In (txid + k) (ids_of (recs w))) ->
  txid + N.of_nat (length L) <= 2^64 ->
  dir_ok d.
Proof.
  intros now L w txid d Hd.
  induction Hd as [w f r txid d Hstep|w f r txid d Hok Hd IH]; intros HW HB Hfresh Hsz.
  - assert (Hf0 : ~ In txid (ids_of (recs w))) by (rewrite <- (N.add_0_r txid); apply Hfresh).
    cbn [length] in Hsz.
    apply (step_crash_dir_ok now w f txid d HW HB); [lia|exact Hf0|exact Hstep].
  - assert (Hf0 : ~ In txid (ids_of (recs w))) by (rewrite <- (N.add_0_r txid); apply Hfresh).
    cbn [length] in Hsz.
    pose proof HW as (HM & _).
    destruct (merge_file_minv now w f txid HM Hf0) as [_ Hsub].
    apply IH.
    + exact (merge_file_w2 now w f txid HW Hf0).
    + apply merge_file_binv; [exact HB|lia].
    + intros k Hin. unfold ids_of in Hin. apply in_map_iff in Hin. destruct Hin as [x [Ex Hx]].
      destruct (Hsub x Hx) as [H|H].
      * apply (Hfresh (1 + k)). unfold ids_of. apply in_map_iff. exists x. split; [lia|exact H].
      * lia.
    + lia.
Qed.

(** PART 1, under the invariants: every directory a crash inside
    [do_merge now w txid0] can leave is [dir_ok] *)
Theorem merge_crash_dir_ok : forall now w txid0 d,
  W2 w -> BInv w -> (forall k, ~ In (txid0 + k) (ids_of (recs w))) ->
  txid0 + N.of_nat (length (w_disk w)) <= 2^64 ->
  merge_crash_disk now w txid0 d ->
  dir_ok d.
Proof.
  intros now w txid0 d HW HB Hfresh Hsz Hd. destruct Hd as [|d Hc Hlen Hd].
  - exact (w2_binv_dir_ok w HW HB).
  - apply (merges_crash_dir_ok now _ w txid0 d Hd HW HB Hfresh).
    unfold disk_fids. rewrite length_nsort, map_length. exact Hsz.
Qed.

(** the invariants of a reachable world *)
Lemma reachable_w2_binv : forall now0 l o,
  now0 < 2^64 -> seg_size_ok o ->
  acts_ok now0 (empty_world o) l -> acts_sizes_ok now0 (empty_world o) l ->
  W2 (run_acts now0 (empty_world o) l) /\ BInv (run_acts now0 (empty_world o) l).
Proof.
  intros now0 l o Hnow Ho Hacts Hsz. split.
  - exact (wi_w2 _ (reachable_winv now0 l o Hacts)).
  - exact (run_acts_binv now0 l (empty_world o) Hnow (binv_empty o Ho) Hsz).
Qed.

(** PART 1 for every reachable world *)
Theorem merge_crash_dir_ok_reachable : forall now0 l o now txid0 d,
  now0 < 2^64 -> seg_size_ok o ->
  acts_ok now0 (empty_world o) l -> acts_sizes_ok now0 (empty_world o) l ->
  let w := run_acts now0 (empty_world o) l in
  (forall k, ~ In (txid0 + k) (ids_of (recs w))) ->
  act_sizes_ok w (AMerge now txid0) ->
  merge_crash_disk now w txid0 d ->
  disk_entries_ok d /\ NoDup (map fst d) /\ disk_wf d.
Proof.
  intros now0 l o now txid0 d Hnow Ho Hacts Hsz w Hfresh Hid Hd.
  destruct (reachable_w2_binv now0 l o Hnow Ho Hacts Hsz) as [HW HB]. fold w in HW, HB.
  cbn [act_sizes_ok] in Hid.
  destruct (merge_crash_dir_ok now w txid0 d HW HB Hfresh Hid Hd) as (A & B & C).
  split; [exact C|]. split; [exact A|exact B].
Qed.

(** ... hence the byte-level Open of the data files of a crash directory, with
    any options, is the record-level Open *)
Theorem merge_crash_open_bytes : forall now0 l o now txid0 d o',
  now0 < 2^64 -> seg_size_ok o ->
  acts_ok now0 (empty_world o) l -> acts_sizes_ok now0 (empty_world o) l ->
  let w := run_acts now0 (empty_world o) l in
  (forall k, ~ In (txid0 + k) (ids_of (recs w))) ->
  act_sizes_ok w (AMerge now txid0) ->
  merge_crash_disk now w txid0 d ->
  open_bytes o' (bytes_of_disk (o_seg o') d) = Some (do_open o' d).
Proof.
  intros now0 l o now txid0 d o' Hnow Ho Hacts Hsz w Hfresh Hid Hd.
  destruct (merge_crash_dir_ok_reachable now0 l o now txid0 d Hnow Ho Hacts Hsz Hfresh Hid Hd) as (A & B & C).
  apply open_bytes_of_disk; assumption.
Qed.

(** ... also when the file [f] ends, after its complete records, in bytes that
    do not decode to a record (the torn rewritten record) *)
Theorem merge_crash_open_bytes_torn : forall now0 l o now txid0 d o' f tail,
  now0 < 2^64 -> seg_size_ok o ->
  acts_ok now0 (empty_world o) l -> acts_sizes_ok now0 (empty_world o) l ->
  let w := run_acts now0 (empty_world o) l in
  (forall k, ~ In (txid0 + k) (ids_of (recs w))) ->
  act_sizes_ok w (AMerge now txid0) ->
  merge_crash_disk now w txid0 d ->
  (forall s, disk_get d f = Some s -> no_record_at (o_load o') (seg_entries s) tail) ->
  open_bytes o' (bytes_of_disk_torn (o_seg o') d f tail) = Some (do_open o' d).
Proof.
  intros now0 l o now txid0 d o' f tail Hnow Ho Hacts Hsz w Hfresh Hid Hd Hno.
  destruct (merge_crash_dir_ok_reachable now0 l o now txid0 d Hnow Ho Hacts Hsz Hfresh Hid Hd) as (A & B & C).
  apply open_bytes_torn; assumption.
Qed.

(** the record Merge was writing when the process died is well formed: its
    truncation is a tail [no_record_torn_eof] applies to *)
Lemma merge_pend_wf_entry : forall now w f txid seg e,
  BInv w -> txid < 2^64 -> disk_get (w_disk w) f = Some seg ->
  In e (merge_pend now w f txid seg) -> wf_entry e.
Proof.
  intros now w f txid seg e HB Hid Hseg He.
  pose proof (merge_pend_good_w now w f txid seg HB Hid Hseg) as Hg.
  rewrite Forall_forall in Hg. exact (proj1 (Hg e He)).
Qed.

(** ------------------------------------------------------------------ *)
(** * 2. Key/value data                                                  *)
(** ------------------------------------------------------------------ *)

(** under the invariants *)
Theorem merge_crash_preserves_kv_bytes_inv : forall T now w s txid0 d o' f tail,
  now <= T -> W2 w -> BInv w -> KInv T w -> DSInv w -> kvrel w s ->
  (forall k, ~ In (txid0 + k) (ids_of (recs w))) ->
  txid0 + N.of_nat (length (w_disk w)) <= 2^64 ->
  merge_crash_disk now w txid0 d ->
  (forall sg, disk_get d f = Some sg -> no_record_at (o_load o') (seg_entries sg) tail) ->
  exists w' s',
    open_bytes o' (bytes_of_disk_torn (o_seg o') d f tail) = Some w' /\
    open_bytes o' (bytes_of_disk (o_seg o') d) = Some w' /\
    w' = do_open o' d /\ kvrel w' s' /\ kv_same_live T s s'.
Proof.
  intros T now w s txid0 d o' f tail HT HW HB HK HD Hrel Hfresh Hid Hd Hno.
  destruct (merge_crash_dir_ok now w txid0 d HW HB Hfresh Hid Hd) as (A & B & C).
  destruct (merge_crash_preserves_kv_inv T now w s txid0 d o' HT HW HK HD Hrel Hfresh Hd) as [s' [Hrel' Hsame]].
  exists (do_open o' d), s'.
  split; [apply open_bytes_torn; assumption|].
  split; [apply open_bytes_of_disk; assumption|].
  split; [reflexivity|]. split; assumption.
Qed.

(** C16 over bytes, key/value data.  [w] is any world reachable by engine
    calls, reopens and Merges (arguments within the field widths); [T] any
    clock not earlier than the clocks of those Merges and of this one; [d] any
    directory the process can leave behind when it dies during
    [do_merge now w txid0]; the data file [f] of [d] ends, after its complete
    records, in [tail] instead of zeros, [tail] not decoding to a record (the
    torn rewritten record).  The byte-level Open (any options) succeeds and
    yields a world whose key/value contents [s'] have exactly the live pairs of
    the contents [s] before the Merge. *)
Theorem merge_crash_preserves_kv_bytes : forall now0 l o now s txid0 d o' T f tail,
  now0 < 2^64 -> seg_size_ok o ->
  acts_ok now0 (empty_world o) l -> acts_sizes_ok now0 (empty_world o) l ->
  merge_clocks_le T l -> now <= T ->
  let w := run_acts now0 (empty_world o) l in
  kvrel w s -> (forall k, ~ In (txid0 + k) (ids_of (recs w))) ->
  act_sizes_ok w (AMerge now txid0) ->
  merge_crash_disk now w txid0 d ->
  (forall sg, disk_get d f = Some sg -> no_record_at (o_load o') (seg_entries sg) tail) ->
  exists w' s',
    open_bytes o' (bytes_of_disk_torn (o_seg o') d f tail) = Some w' /\
    kvrel w' s' /\ kv_same_live T s s'.
Proof.
  intros now0 l o now s txid0 d o' T f tail Hnow Ho Hacts Hsz Hclk HT w Hrel Hfresh Hid Hd Hno.
  destruct (reachable_w2_binv now0 l o Hnow Ho Hacts Hsz) as [HW HB]. fold w in HW, HB.
  cbn [act_sizes_ok] in Hid.
  destruct (merge_crash_preserves_kv_bytes_inv T now w s txid0 d o' f tail HT HW HB
              (reachable_kinv T now0 l o Hacts Hclk) (reachable_dsinv now0 l o Hacts) Hrel Hfresh Hid Hd Hno)
    as (w' & s' & A & _ & _ & C & D).
  exists w', s'. split; [exact A|]. split; assumption.
Qed.

(** the plain (untorn) version: the crash hit between two writes *)
Theorem merge_crash_preserves_kv_bytes_plain : forall now0 l o now s txid0 d o' T,
  now0 < 2^64 -> seg_size_ok o ->
  acts_ok now0 (empty_world o) l -> acts_sizes_ok now0 (empty_world o) l ->
  merge_clocks_le T l -> now <= T ->
  let w := run_acts now0 (empty_world o) l in
  kvrel w s -> (forall k, ~ In (txid0 + k) (ids_of (recs w))) ->
  act_sizes_ok w (AMerge now txid0) ->
  merge_crash_disk now w txid0 d ->
  exists w' s',
    open_bytes o' (bytes_of_disk (o_seg o') d) = Some w' /\
    kvrel w' s' /\ kv_same_live T s s'.
Proof.
  intros now0 l o now s txid0 d o' T Hnow Ho Hacts Hsz Hclk HT w Hrel Hfresh Hid Hd.
  destruct (merge_crash_preserves_kv now0 l o now s txid0 d o' T Hacts Hclk HT Hrel Hfresh Hd) as [s' [Hrel' Hsame]].
  exists (do_open o' d), s'. split; [|split; assumption].
  exact (merge_crash_open_bytes now0 l o now txid0 d o' Hnow Ho Hacts Hsz Hfresh Hid Hd).
Qed.

(** the two tails for which nothing is left to assume: zeros (the untouched
    rest of the pre-allocated file), and the file ending inside a record [e]
    (e.g. the rewritten record being written: [merge_pend_wf_entry]) *)
Corollary merge_crash_preserves_kv_bytes_zeros : forall now0 l o now s txid0 d o' T f pad,
  now0 < 2^64 -> seg_size_ok o ->
  acts_ok now0 (empty_world o) l -> acts_sizes_ok now0 (empty_world o) l ->
  merge_clocks_le T l -> now <= T ->
  let w := run_acts now0 (empty_world o) l in
  kvrel w s -> (forall k, ~ In (txid0 + k) (ids_of (recs w))) ->
  act_sizes_ok w (AMerge now txid0) ->
  merge_crash_disk now w txid0 d ->
  exists w' s',
    open_bytes o' (bytes_of_disk_torn (o_seg o') d f (zeros pad)) = Some w' /\
    kvrel w' s' /\ kv_same_live T s s'.
Proof.
  intros now0 l o now s txid0 d o' T f pad Hnow Ho Hacts Hsz Hclk HT w Hrel Hfresh Hid Hd.
  apply (merge_crash_preserves_kv_bytes now0 l o now s txid0 d o' T f (zeros pad)); try assumption.
  intros sg _. apply no_record_zeros.
Qed.

Corollary merge_crash_preserves_kv_bytes_eof : forall now0 l o now s txid0 d o' T f e n,
  now0 < 2^64 -> seg_size_ok o ->
  acts_ok now0 (empty_world o) l -> acts_sizes_ok now0 (empty_world o) l ->
  merge_clocks_le T l -> now <= T ->
  let w := run_acts now0 (empty_world o) l in
  kvrel w s -> (forall k, ~ In (txid0 + k) (ids_of (recs w))) ->
  act_sizes_ok w (AMerge now txid0) ->
  merge_crash_disk now w txid0 d ->
  wf_entry e -> (n < length (encode_entry e))%nat ->
  exists w' s',
    open_bytes o' (bytes_of_disk_torn (o_seg o') d f (firstn n (encode_entry e))) = Some w' /\
    kvrel w' s' /\ kv_same_live T s s'.
Proof.
  intros now0 l o now s txid0 d o' T f e n Hnow Ho Hacts Hsz Hclk HT w Hrel Hfresh Hid Hd We Hn.
  apply (merge_crash_preserves_kv_bytes now0 l o now s txid0 d o' T f (firstn n (encode_entry e))); try assumption.
  intros sg _. apply no_record_torn_eof; assumption.
Qed.

(** every key/value read on the world recovered from the BYTES of a crash
    directory (one file torn) answers as before the Merge *)
Theorem merge_crash_reads_unchanged_bytes : forall now0 l o now s txid0 d o' T t t' q f tail,
  now0 < 2^64 -> seg_size_ok o ->
  acts_ok now0 (empty_world o) l -> acts_sizes_ok now0 (empty_world o) l ->
  merge_clocks_le T l -> now <= T ->
  let w := run_acts now0 (empty_world o) l in
  kvrel w s -> (forall k, ~ In (txid0 + k) (ids_of (recs w))) ->
  act_sizes_ok w (AMerge now txid0) ->
  merge_crash_disk now w txid0 d ->
  (forall sg, disk_get d f = Some sg -> no_record_at (o_load o') (seg_entries sg) tail) ->
  o_mode (w_opts w) = 0 -> o_mode o' = 0 -> is_kv_read q = true ->
  exists w',
    open_bytes o' (bytes_of_disk_torn (o_seg o') d f tail) = Some w' /\
    open_bytes o' (bytes_of_disk (o_seg o') d) = Some w' /\
    snd (do_op T w' t q) = snd (do_op T w t' q).
Proof.
  intros now0 l o now s txid0 d o' T t t' q f tail Hnow Ho Hacts Hsz Hclk HT w Hrel Hfresh Hid Hd Hno Hm Hm' Hq.
  exists (do_open o' d). split; [|split].
  - exact (merge_crash_open_bytes_torn now0 l o now txid0 d o' f tail Hnow Ho Hacts Hsz Hfresh Hid Hd Hno).
  - exact (merge_crash_open_bytes now0 l o now txid0 d o' Hnow Ho Hacts Hsz Hfresh Hid Hd).
  - exact (merge_crash_reads_unchanged now0 l o now s txid0 d o' T t t' q Hacts Hclk HT Hrel Hfresh Hd Hm Hm' Hq).
Qed.

(** ------------------------------------------------------------------ *)
(** * 3. Sets                                                            *)
(** ------------------------------------------------------------------ *)

(** C16 over bytes, sets: the byte-level Open of a crash directory whose file
    [f] ends in a tail that does not decode succeeds, and every set has exactly
    the members it had before the Merge started *)
Theorem merge_crash_preserves_set_members_bytes : forall now0 l o now txid0 d o' f tail,
  now0 < 2^64 -> seg_size_ok o ->
  acts_ok now0 (empty_world o) l -> acts_sizes_ok now0 (empty_world o) l ->
  let w := run_acts now0 (empty_world o) l in
  (forall k, ~ In (txid0 + k) (ids_of (recs w))) ->
  act_sizes_ok w (AMerge now txid0) ->
  merge_crash_disk now w txid0 d ->
  (forall sg, disk_get d f = Some sg -> no_record_at (o_load o') (seg_entries sg) tail) ->
  exists w',
    open_bytes o' (bytes_of_disk_torn (o_seg o') d f tail) = Some w' /\
    forall b k x, ismem (ix_set (w_ix w')) b k x = ismem (ix_set (w_ix w)) b k x.
Proof.
  intros now0 l o now txid0 d o' f tail Hnow Ho Hacts Hsz w Hfresh Hid Hd Hno.
  exists (do_open o' d). split.
  - exact (merge_crash_open_bytes_torn now0 l o now txid0 d o' f tail Hnow Ho Hacts Hsz Hfresh Hid Hd Hno).
  - exact (merge_crash_preserves_set_members now0 l o now txid0 d o' Hacts Hfresh Hd).
Qed.

Theorem merge_crash_preserves_set_members_bytes_plain : forall now0 l o now txid0 d o',
  now0 < 2^64 -> seg_size_ok o ->
  acts_ok now0 (empty_world o) l -> acts_sizes_ok now0 (empty_world o) l ->
  let w := run_acts now0 (empty_world o) l in
  (forall k, ~ In (txid0 + k) (ids_of (recs w))) ->
  act_sizes_ok w (AMerge now txid0) ->
  merge_crash_disk now w txid0 d ->
  exists w',
    open_bytes o' (bytes_of_disk (o_seg o') d) = Some w' /\
    forall b k x, ismem (ix_set (w_ix w')) b k x = ismem (ix_set (w_ix w)) b k x.
Proof.
  intros now0 l o now txid0 d o' Hnow Ho Hacts Hsz w Hfresh Hid Hd.
  exists (do_open o' d). split.
  - exact (merge_crash_open_bytes now0 l o now txid0 d o' Hnow Ho Hacts Hsz Hfresh Hid Hd).
  - exact (merge_crash_preserves_set_members now0 l o now txid0 d o' Hacts Hfresh Hd).
Qed.

Corollary merge_crash_preserves_set_members_bytes_zeros : forall now0 l o now txid0 d o' f pad,
  now0 < 2^64 -> seg_size_ok o ->
  acts_ok now0 (empty_world o) l -> acts_sizes_ok now0 (empty_world o) l ->
  let w := run_acts now0 (empty_world o) l in
  (forall k, ~ In (txid0 + k) (ids_of (recs w))) ->
  act_sizes_ok w (AMerge now txid0) ->
  merge_crash_disk now w txid0 d ->
  exists w',
    open_bytes o' (bytes_of_disk_torn (o_seg o') d f (zeros pad)) = Some w' /\
    forall b k x, ismem (ix_set (w_ix w')) b k x = ismem (ix_set (w_ix w)) b k x.
Proof.
  intros now0 l o now txid0 d o' f pad Hnow Ho Hacts Hsz w Hfresh Hid Hd.
  apply (merge_crash_preserves_set_members_bytes now0 l o now txid0 d o' f (zeros pad)); try assumption.
  intros sg _. apply no_record_zeros.
Qed.

Corollary merge_crash_preserves_set_members_bytes_eof : forall now0 l o now txid0 d o' f e n,
  now0 < 2^64 -> seg_size_ok o ->
  acts_ok now0 (empty_world o) l -> acts_sizes_ok now0 (empty_world o) l ->
  let w := run_acts now0 (empty_world o) l in
  (forall k, ~ In (txid0 + k) (ids_of (recs w))) ->
  act_sizes_ok w (AMerge now txid0) ->
  merge_crash_disk now w txid0 d ->
  wf_entry e -> (n < length (encode_entry e))%nat ->
  exists w',
    open_bytes o' (bytes_of_disk_torn (o_seg o') d f (firstn n (encode_entry e))) = Some w' /\
    forall b k x, ismem (ix_set (w_ix w')) b k x = ismem (ix_set (w_ix w)) b k x.
Proof.
  intros now0 l o now txid0 d o' f e n Hnow Ho Hacts Hsz w Hfresh Hid Hd We Hn.
  apply (merge_crash_preserves_set_members_bytes now0 l o now txid0 d o' f (firstn n (encode_entry e))); try assumption.
  intros sg _. apply no_record_torn_eof; assumption.
Qed.

(** ------------------------------------------------------------------ *)
(** * 4. The hypotheses are satisfiable: a concrete torn rewrite          *)
(** ------------------------------------------------------------------ *)
(** [tt_w] (MergeCrash): Put 1 (ttl 5) | Put 2 (file 0) ; Put 3 (file 1).  Merge
    at clock 10 creates file 2 and starts rewriting key 2 into it; the process
    dies after 30 of the 45 bytes of that record reached the file.  Every
    hypothesis of [merge_crash_preserves_kv_bytes_eof] holds; the byte-level
    Open of the three data files (100, 100 and 30 bytes) rebuilds the
    key/value index of before the Merge. *)

Definition tb_d : disk := disk_create (w_disk tt_w) (w_maxfid tt_w + 1).
Definition tb_e : entry := mkEntry [x62] [x32] [x76] 0 0 F_Set 0 DS_KV 10.
Definition tb_tail : bytes := firstn 30 (encode_entry tb_e).

Lemma tb_sizes : acts_sizes_ok 0 (empty_world tt_o) tt_acts.
Proof. vm_compute. repeat split; reflexivity. Qed.

Lemma tb_crash : merge_crash_disk 10 tt_w 10 tb_d.
Proof.
  assert (E : disk_fids (w_disk tt_w) = [0; 1]) by (vm_compute; reflexivity).
  apply MCD_run; [vm_compute; reflexivity|rewrite E; cbn [length]; lia|].
  rewrite E. apply MC_here.
  eapply SC_created; [vm_compute; reflexivity|]. left. vm_compute. discriminate.
Qed.

Example merge_crash_bytes_instance :
  0 < 2^64 /\ seg_size_ok tt_o /\
  acts_ok 0 (empty_world tt_o) tt_acts /\ acts_sizes_ok 0 (empty_world tt_o) tt_acts /\
  merge_clocks_le 10 tt_acts /\ kvrel tt_w tt_s /\
  (forall k, ~ In (10 + k) (ids_of (recs tt_w))) /\
  act_sizes_ok tt_w (AMerge 10 10) /\
  merge_crash_disk 10 tt_w 10 tb_d /\
  In tb_e (merge_pend 10 tt_w 0 10 [(0, mkEntry [x62] [x31] [x76] 0 5 F_Set 1 DS_KV 1); (45, mkEntry [x62] [x32] [x76] 0 0 F_Set 1 DS_KV 2)]) /\
  wf_entry tb_e /\ (30 < length (encode_entry tb_e))%nat /\ length tb_tail = 30%nat /\
  map (fun fc => (fst fc, length (snd fc))) (bytes_of_disk_torn (o_seg tt_o) tb_d 2 tb_tail) = [(0, 100%nat); (1, 100%nat); (2, 30%nat)] /\
  option_map (fun w => ix_kv (w_ix w)) (open_bytes tt_o (bytes_of_disk_torn (o_seg tt_o) tb_d 2 tb_tail)) =
    Some (ix_kv (w_ix tt_w)).
Proof.
  split; [reflexivity|]. split; [vm_compute; reflexivity|]. split; [exact tt_acts_ok|]. split; [exact tb_sizes|].
  split; [exact I|]. split; [exact tt_kvrel|]. split; [exact tt_fresh|].
  split; [vm_compute; discriminate|]. split; [exact tb_crash|].
  split; [vm_compute; left; reflexivity|].
  split; [vm_compute; repeat split; reflexivity|].
  split; [vm_compute; lia|]. split; [vm_compute; reflexivity|].
  split; vm_compute; reflexivity.
Qed.

(** ---- axiom audit ---- *)
Print Assumptions step_crash_dir_ok.
Print Assumptions merge_crash_dir_ok.
Print Assumptions merge_crash_dir_ok_reachable.
Print Assumptions merge_crash_open_bytes.
Print Assumptions merge_crash_open_bytes_torn.
Print Assumptions merge_pend_wf_entry.
Print Assumptions merge_crash_preserves_kv_bytes_inv.
Print Assumptions merge_crash_preserves_kv_bytes.
Print Assumptions merge_crash_preserves_kv_bytes_plain.
Print Assumptions merge_crash_preserves_kv_bytes_zeros.
Print Assumptions merge_crash_preserves_kv_bytes_eof.
Print Assumptions merge_crash_reads_unchanged_bytes.
Print Assumptions merge_crash_preserves_set_members_bytes.
Print Assumptions merge_crash_preserves_set_members_bytes_plain.
Print Assumptions merge_crash_preserves_set_members_bytes_zeros.
Print Assumptions merge_crash_preserves_set_members_bytes_eof.
Print Assumptions merge_crash_bytes_instance.
